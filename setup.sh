#!/bin/sh
# setup_cmd: build the whole framework offline from files on disk (full .vo build, all proofs).
set -e
cd "$(dirname "$0")"
mkdir -p _work evidence replays coq/Gen
python3 tools/c2v.py /repo/src coq/Gen || echo "c2v reported problems (checks will report them)"
( cd coq && coq_makefile -f _CoqProject -o Makefile && timeout 3000 make -j16 -k ) || echo "coq build incomplete (checks will report which obligations fail)"
tools/gate.sh
python3 - <<'PY'
import sys, os, glob
sys.path.insert(0, "lib")
import vlib
vlib.config_dir()
for f in sorted(glob.glob("coq/Extract_*.v")):
    pid = os.path.basename(f)[len("Extract_"):-2]
    try:
        print("driver", pid, vlib.model_driver(pid))
    except Exception as e:
        print("driver", pid, "FAILED", str(e)[:500])
PY
echo "setup done"
