From LV Require Import Base.Bytes Url.UrlModel Access.AccessModel.
Require Import ExtrOcamlBasic.
Extraction "model.ml" decide client_addr parse_addr Z.of_N Nat.pred.
