(* Deflate/DeflateProofs.v -- C19: negotiated coding is one the client listed and the configuration allows; whatever the
   history of source changes, failed cache writes and kills, a served body is the coding of the current content. *)
From Coq Require Import List NArith Bool Lia.
From LV Require Import Base.Bytes Deflate.DeflateModel.
Import ListNotations.
Local Open Scope N_scope.

(* ---------------------------------------------------------------- negotiation *)
Lemma tok_flag_cases t : (tok_flag t = GZIP /\ t = s_gzip) \/ (tok_flag t = XGZIP /\ t = s_xgzip) \/ (tok_flag t = DEFLATE /\ t = s_deflate) \/ tok_flag t = 0.
Proof.
  unfold tok_flag.
  destruct (list_eqb t s_gzip) eqn:E1; [left; split; [reflexivity | apply list_eqb_eq; exact E1]|].
  destruct (list_eqb t s_xgzip) eqn:E2; [right; left; split; [reflexivity | apply list_eqb_eq; exact E2]|].
  destruct (list_eqb t s_deflate) eqn:E3; [right; right; left; split; [reflexivity | apply list_eqb_eq; exact E3]|].
  right; right; right; reflexivity.
Qed.

Lemma fold_lor_bit l : forall acc b, N.land (fold_left N.lor l acc) b <> 0 ->
  N.land acc b <> 0 \/ exists x, In x l /\ N.land x b <> 0.
Proof.
  induction l as [|x l IH]; intros acc b H; cbn [fold_left] in H; [left; exact H|].
  destruct (IH _ _ H) as [Ha|(y & Hy & Hb)].
  - rewrite N.land_lor_distr_l in Ha.
    destruct (N.eq_dec (N.land acc b) 0) as [E|E]; [|left; exact E].
    right. exists x. split; [left; reflexivity|]. intro E2. apply Ha. rewrite E, E2. reflexivity.
  - right. exists y. split; [right; exact Hy | exact Hb].
Qed.

Lemma first_common_spec al acc : first_common al acc <> 0 -> exists x, In x al /\ first_common al acc = N.land x acc.
Proof.
  induction al as [|x t IH]; cbn [first_common]; intro H; [contradiction H; reflexivity|].
  destruct (N.eqb_spec (N.land x acc) 0).
  - destruct (IH H) as (y & Hy & E). exists y. split; [right; exact Hy | exact E].
  - exists x. split; [left; reflexivity | reflexivity].
Qed.

Definition listed (ae label : list N) : Prop := In label (ae_tokens (S (length ae)) ae).
Definition flag_of (label : list N) : N := tok_flag label.

(* the chosen coding is a token of the client's Accept-Encoding and is enabled by deflate.allowed-encodings *)
Theorem chosen_is_listed_and_allowed al ae label : choose al ae = Some label ->
  listed ae label /\ exists x, In x al /\ N.land x (flag_of label) <> 0.
Proof.
  unfold choose. set (c := first_common al (ae_flags ae)).
  assert (Hbit : forall b lab, tok_flag lab = b -> (b = GZIP \/ b = XGZIP \/ b = DEFLATE) -> N.land c b <> 0 ->
                 (forall t, tok_flag t = b -> t = lab) ->
                 listed ae lab /\ exists x, In x al /\ N.land x (flag_of lab) <> 0).
  { intros b lab Hl Hb Hc Huniq.
    assert (Hcn : c <> 0) by (intro E; rewrite E in Hc; apply Hc; reflexivity).
    destruct (first_common_spec _ _ Hcn) as (x & Hx & Ec). fold c in Ec.
    assert (Hxb : N.land x b <> 0 /\ N.land (ae_flags ae) b <> 0).
    { rewrite Ec in Hc. split; intro E; apply Hc.
      - rewrite <- N.land_assoc, (N.land_comm (ae_flags ae)), N.land_assoc, E. reflexivity.
      - rewrite <- N.land_assoc, E. apply N.land_0_r. }
    destruct Hxb as [Hxb Hab]. unfold ae_flags in Hab.
    destruct (fold_lor_bit _ _ _ Hab) as [H0|(f & Hf & Hfb)]; [contradiction H0; reflexivity|].
    apply in_map_iff in Hf. destruct Hf as (t & Ht & Hin). subst f.
    assert (tok_flag t = b).
    { destruct (tok_flag_cases t) as [[E _]|[[E _]|[[E _]|E]]]; rewrite E in *;
        destruct Hb as [->| [->| ->]]; try reflexivity; exfalso; apply Hfb; reflexivity. }
    split; [unfold listed; rewrite <- (Huniq t H); exact Hin|].
    exists x. split; [exact Hx|]. unfold flag_of. rewrite Hl. exact Hxb. }
  assert (U : forall b t lab, tok_flag lab = b -> b <> 0 -> tok_flag t = b -> t = lab).
  { intros b t lab Hl Hb Ht.
    destruct (tok_flag_cases t) as [[E1 ->]|[[E1 ->]|[[E1 ->]|E1]]]; destruct (tok_flag_cases lab) as [[E2 ->]|[[E2 ->]|[[E2 ->]|E2]]];
      try reflexivity; exfalso; rewrite ?E1, ?E2 in *; subst; try discriminate; try (apply Hb; reflexivity); congruence. }
  destruct (N.eqb_spec (N.land c GZIP) 0) as [_|Hg]; cbn [negb].
  - destruct (N.eqb_spec (N.land c XGZIP) 0) as [_|Hx]; cbn [negb].
    + destruct (N.eqb_spec (N.land c DEFLATE) 0) as [_|Hd]; cbn [negb]; [discriminate|].
      intro H; injection H as <-. apply (Hbit DEFLATE); auto. intros t Ht. apply (U DEFLATE); [reflexivity | discriminate | exact Ht].
    + intro H; injection H as <-. apply (Hbit XGZIP); auto. intros t Ht. apply (U XGZIP); [reflexivity | discriminate | exact Ht].
  - intro H; injection H as <-. apply (Hbit GZIP); auto. intros t Ht. apply (U GZIP); [reflexivity | discriminate | exact Ht].
Qed.

(* ---------------------------------------------------------------- entity tags *)
Definition wf_etag (e : list N) : Prop := exists body, e = body ++ [34] /\ ~ In 45 body.

Lemma split_first (c : N) : forall a1 a2 b1 b2, ~ In c a1 -> ~ In c a2 -> a1 ++ c :: b1 = a2 ++ c :: b2 -> a1 = a2 /\ b1 = b2.
Proof.
  induction a1 as [|x a1 IH]; intros [|y a2] b1 b2 H1 H2 E; cbn [app] in E.
  - injection E as <-. auto.
  - injection E as -> _. exfalso. apply H2. left; reflexivity.
  - injection E as -> _. exfalso. apply H1. left; reflexivity.
  - injection E as -> E. destruct (IH a2 b1 b2) as [-> ->]; auto.
    + intro H; apply H1; right; exact H.
    + intro H; apply H2; right; exact H.
Qed.

Lemma etag_with_inj l1 l2 e1 e2 : wf_etag e1 -> wf_etag e2 -> etag_with l1 e1 = etag_with l2 e2 -> l1 = l2 /\ e1 = e2.
Proof.
  intros (b1 & -> & H1) (b2 & -> & H2). unfold etag_with. rewrite !removelast_last. cbn [app].
  intro E. apply split_first in E; [|exact H1 | exact H2]. destruct E as [-> E].
  apply app_inv_tail in E. auto.
Qed.

(* the rewritten tag differs from the identity one *)
Lemma etag_with_distinct label e : wf_etag e -> etag_with label e <> e.
Proof.
  intros (b & -> & H). unfold etag_with. rewrite removelast_last. intro E.
  apply app_inv_head in E. cbn in E. discriminate E.
Qed.

(* ---------------------------------------------------------------- the cache over histories *)
Section Hist.
Variable compress : list N -> list N -> list N.
Variable decompress : list N -> list N -> list N.
Hypothesis codec : forall label x, decompress label (compress label x) = x.

Definition Good (vs : list version) (c : cache) : Prop :=
  forall p k v, In ((p, k), v) c -> exists L e content, k = etag_with L e /\ In (p, e, content) vs /\ v = compress L content.

Definition Inv (s : state) : Prop :=
  (forall p e c1 c2, In (p, e, c1) (versions s) -> In (p, e, c2) (versions s) -> c1 = c2) /\
  (forall p e c, In (p, e, c) (versions s) -> wf_etag e) /\
  Good (versions s) (ccache s).

(* a history is admissible when every change of a file comes with an entity tag not used for that file before *)
Fixpoint ok_ops (vs : list version) (ops : list op) : Prop :=
  match ops with
  | [] => True
  | Modify p e c :: t => wf_etag e /\ (forall c', ~ In (p, e, c') vs) /\ ok_ops ((p, e, c) :: vs) t
  | Request _ _ _ :: t => ok_ops vs t
  end.

Lemma lookup_in c : forall k v, lookup c k = Some v -> In (k, v) c.
Proof.
  induction c as [|[k' v'] t IH]; cbn [lookup]; intros k v H; [discriminate|].
  destruct (key_eqb k' k) eqn:E.
  - injection H as <-. unfold key_eqb in E. apply andb_true_iff in E. destruct E as [E1 E2].
    apply list_eqb_eq in E1. apply list_eqb_eq in E2. destruct k', k. cbn in *. subst. left; reflexivity.
  - right. apply IH. exact H.
Qed.

Lemma current_in vs : forall p e c, current vs p = Some (e, c) -> In (p, e, c) vs.
Proof.
  induction vs as [|[[p' e'] c'] t IH]; cbn [current]; intros p e c H; [discriminate|].
  destruct (list_eqb p' p) eqn:E.
  - injection H as <- <-. apply list_eqb_eq in E. subst. left; reflexivity.
  - right. apply IH. exact H.
Qed.

Lemma step_Inv s o : Inv s -> ok_ops (versions s) [o] ->
  Inv (fst (step compress s o)) /\
  forall L body content, snd (step compress s o) = Some (L, body, content) -> body = compress L content.
Proof.
  intros (Hf & Hw & Hg) Hok. destruct o as [p e c|p L w]; cbn [step fst snd].
  - destruct Hok as (Hwe & Hfresh & _). split; [|intros; discriminate]. split; [|split]; cbn [versions ccache].
    + intros p0 e0 c1 c2 [E1|H1] [E2|H2].
      * inversion E1; subst. inversion E2; subst. reflexivity.
      * inversion E1; subst. exfalso. exact (Hfresh _ H2).
      * inversion E2; subst. exfalso. exact (Hfresh _ H1).
      * eapply Hf; eassumption.
    + intros p0 e0 c0 [E|H]; [inversion E; subst; exact Hwe | eapply Hw; exact H].
    + intros p0 k v Hin. destruct (Hg _ _ _ Hin) as (L & e0 & c0 & H1 & H2 & H3). exists L, e0, c0. repeat split; auto. right; exact H2.
  - destruct (current (versions s) p) as [[e content]|] eqn:Hc; cbn [fst snd]; [|split; [split; [|split]; assumption | intros; discriminate]].
    apply current_in in Hc.
    unfold serve_cached. destruct (lookup (ccache s) (p, etag_with L e)) as [v|] eqn:Hl.
    + apply lookup_in in Hl. destruct (Hg _ _ _ Hl) as (L0 & e0 & c0 & H1 & H2 & H3).
      apply etag_with_inj in H1; [|eapply Hw; exact Hc | eapply Hw; exact H2]. destruct H1 as [<- <-].
      rewrite (Hf _ _ _ _ H2 Hc) in H3.
      cbn [fst snd]. split; [split; [|split]; assumption|].
      intros L' body c' E. destruct w; [| |discriminate]; inversion E; subst; reflexivity.
    + assert (Hadd : Good (versions s) (((p, etag_with L e), compress L content) :: ccache s)).
      { intros p0 k v [E|Hin]; [inversion E; subst; exists L, e, content; auto | apply (Hg _ _ _ Hin)]. }
      destruct w; cbn [fst snd versions ccache].
      * split; [split; [|split]; assumption|]. intros L' body c' E. inversion E; subst. reflexivity.
      * split; [split; [|split]; assumption|]. intros L' body c' E. inversion E; subst. reflexivity.
      * split; [split; [|split]; assumption | intros; discriminate].
Qed.

(* Whatever the history -- the source modified between requests (each change with a fresh entity tag), cache writes that
   fail, kills before the rename -- every body sent is the coding of the content current at that moment: the cache never
   serves a stale or partial representation, and decoding gives the identity representation. *)
Theorem served_decodes_to_identity ops : forall s, Inv s -> ok_ops (versions s) ops ->
  Forall (fun r => let '(L, body, content) := r in body = compress L content /\ decompress L body = content) (run compress s ops).
Proof.
  induction ops as [|o t IH]; intros s HI Hok; cbn [run]; [constructor|].
  assert (Hok1 : ok_ops (versions s) [o]).
  { destruct o; cbn [ok_ops] in *; [destruct Hok as (A & B & _); auto | exact I]. }
  destruct (step_Inv s o HI Hok1) as [HI' Hout].
  assert (Hok' : ok_ops (versions (fst (step compress s o))) t).
  { destruct o as [p e c|p L w]; cbn [step fst] in *.
    - destruct Hok as (_ & _ & H). exact H.
    - destruct (current (versions s) p) as [[e content]|]; [|exact Hok].
      destruct (serve_cached compress (ccache s) p L (etag_with L e) content w). exact Hok. }
  destruct (step compress s o) as [s' out]. cbn [fst snd] in *.
  destruct out as [[[L body] content]|]; [|apply IH; assumption].
  constructor; [|apply IH; assumption].
  specialize (Hout _ _ _ eq_refl). split; [exact Hout|]. rewrite Hout. apply codec.
Qed.

Definition empty_state : state := {| versions := []; ccache := [] |}.
Lemma Inv_empty : Inv empty_state.
Proof. split; [|split]; unfold Good; cbn; intros; contradiction. Qed.
End Hist.
