(* Deflate/DeflateModel.v -- mod_deflate's decisions and compressed-representation cache (C19):
     * Accept-Encoding scanning and the choice among deflate.allowed-encodings (mod_deflate_choose_encoding; zlib build:
       gzip, x-gzip, deflate), the eligibility tests of mod_deflate_handle_response_start, the ETag rewrite, Vary,
       If-None-Match revalidation against the rewritten tag,
     * the on-disk cache keyed by (physical path, rewritten ETag): lookup, compress-to-temporary-file, publish by rename,
       with a fault script for the writes.
   The compressor itself (zlib) is a section variable with the only hypothesis that decompression inverts it. *)
From Coq Require Import List NArith Bool Lia.
From LV Require Import Base.Bytes.
Import ListNotations.
Local Open Scope N_scope.

Definition GZIP : N := 1.  Definition XGZIP : N := 2.  Definition DEFLATE : N := 4.
Definition s_gzip : list N := [103; 122; 105; 112].
Definition s_xgzip : list N := [120; 45; 103; 122; 105; 112].
Definition s_deflate : list N := [100; 101; 102; 108; 97; 116; 101].

(* ---------------------------------------------------------------- Accept-Encoding *)
Definition is_tok_end (c : N) : bool := (c =? 32) || (c =? 44) || (c =? 59).
Fixpoint take_tok (s : list N) : list N * list N :=
  match s with
  | c :: t => if is_tok_end c then ([], s) else let '(a, r) := take_tok t in (c :: a, r)
  | [] => ([], [])
  end.
Fixpoint skip_sp_comma (s : list N) : list N :=
  match s with c :: t => if (c =? 32) || (c =? 44) then skip_sp_comma t else s | [] => [] end.
Fixpoint skip_to_comma (s : list N) : list N :=
  match s with c :: t => if c =? 44 then s else skip_to_comma t | [] => [] end.
Definition tok_flag (t : list N) : N :=
  if list_eqb t s_gzip then GZIP else if list_eqb t s_xgzip then XGZIP else if list_eqb t s_deflate then DEFLATE else 0.

(* tokens of an Accept-Encoding value as mod_deflate_choose_encoding sees them (parameters such as ;q= are skipped) *)
Fixpoint ae_tokens (fuel : nat) (s : list N) : list (list N) :=
  match fuel with
  | O => []
  | S f =>
    match s with
    | [] => []
    | _ =>
      let s1 := skip_sp_comma s in
      let '(t, r) := take_tok s1 in
      let r1 := match r with c :: _ => if c =? 59 then skip_to_comma r else r | [] => [] end in
      match r1 with
      | [] => [t]
      | _ :: r2 => t :: ae_tokens f r2          (* the for loop's ++value steps over the delimiter *)
      end
    end
  end.
Definition ae_flags (s : list N) : N := fold_left N.lor (map tok_flag (ae_tokens (S (length s)) s)) 0.

(* deflate.allowed-encodings as a list of masks, in configuration order; first mask with a common bit wins *)
Fixpoint first_common (allowed : list N) (acc : N) : N :=
  match allowed with
  | [] => 0
  | x :: t => if N.land x acc =? 0 then first_common t acc else N.land x acc
  end.
Definition choose (allowed : list N) (ae : list N) : option (list N) :=
  let c := first_common allowed (ae_flags ae) in
  if negb (N.land c GZIP =? 0) then Some s_gzip
  else if negb (N.land c XGZIP =? 0) then Some s_xgzip
  else if negb (N.land c DEFLATE =? 0) then Some s_deflate
  else None.

(* ---------------------------------------------------------------- eligibility and header rewrites *)
Record conf := { allowed : list N; mimetypes : list (list N); min_size : N; max_kb : N; cache_on : bool }.
Record resp := { status : N; is_head : bool; has_te : bool; has_ce : bool; finished : bool; len : N;
                 ctype : option (list N); etag : option (list N); had_vary : bool }.

Definition mime_ok (cf : conf) (ct : option (list N)) : bool :=
  match ct with
  | Some v => existsb (fun m => prefixb m v) (mimetypes cf)
  | None => match mimetypes cf with m :: _ => match m with [] => true | _ => false end | [] => false end
  end.

Definition etag_with (label e : list N) : list N := removelast e ++ [45] ++ label ++ [34].     (* "abc" -> "abc-gzip" *)

Inductive plan := Untouched | NotModified (etag' : list N) | Precond412 | Encode (label : list N) (etag' : option (list N)).

Definition decide (cf : conf) (r : resp) (ae inm : option (list N)) (is_get_head : bool) : plan :=
  if negb (finished r) || is_head r || has_te r || has_ce r then Untouched
  else if (status r <? 200) || (status r =? 204) || (status r =? 205) || (status r =? 304) then Untouched
  else match mimetypes cf with [] => Untouched | _ =>
    if len r <=? min_size cf then Untouched
    else if negb (max_kb cf =? 0) && (max_kb cf * 1024 <? len r) then Untouched
    else match ae with
    | None => Untouched
    | Some a =>
      match choose (allowed cf) a with
      | None => Untouched
      | Some label =>
        if negb (mime_ok cf (ctype r)) then Untouched
        else match etag r with
        | Some e =>
            let e' := etag_with label e in
            match inm with
            | Some v => if (status r <? 300) && prefixb (removelast e ++ [45] ++ label) v && negb (match e with [] => true | _ => false end)
                        then (if is_get_head then NotModified e' else Precond412)
                        else Encode label (Some e')
            | None => Encode label (Some e')
            end
        | None => Encode label None
        end
      end
    end
  end.

(* ---------------------------------------------------------------- the cache *)
Section Cache.
Variable compress : list N -> list N -> list N.      (* label, identity bytes -> coded bytes *)

Definition key := (list N * list N)%type.             (* physical path, rewritten ETag *)
Definition key_eqb (a b : key) : bool := list_eqb (fst a) (fst b) && list_eqb (snd a) (snd b).
Definition cache := list (key * list N).
Fixpoint lookup (c : cache) (k : key) : option (list N) :=
  match c with [] => None | (k', v) :: t => if key_eqb k' k then Some v else lookup t k end.

Inductive wfault := WriteOk | WriteFails | Killed.    (* what happens while the temporary file is written / before rename *)

(* one cacheable request: (body sent, cache afterwards).  A temporary file never is a cache entry: it has another name. *)
Definition serve_cached (c : cache) (path label e' content : list N) (w : wfault) : list N * cache :=
  match lookup c (path, e') with
  | Some v => (v, c)
  | None =>
      let z := compress label content in
      match w with
      | WriteOk => (z, ((path, e'), z) :: c)
      | WriteFails => (z, c)            (* stream-compressed response still goes out; nothing is published *)
      | Killed => ([], c)               (* no response at all; nothing is published *)
      end
  end.

(* histories: the source file changes (with a new ETag), requests arrive, cache writes fail or the server is killed *)
Definition version := (list N * list N * list N)%type.            (* path, ETag, content *)
Inductive op :=
| Modify (p e content : list N)
| Request (p label : list N) (w : wfault).
Record state := { versions : list version; ccache : cache }.

Fixpoint current (vs : list version) (p : list N) : option (list N * list N) :=
  match vs with
  | [] => None
  | (p', e, c) :: t => if list_eqb p' p then Some (e, c) else current t p
  end.

(* output: what the client of a Request receives (None: no such file / killed) together with the identity content then *)
Definition step (s : state) (o : op) : state * option (list N * list N * list N) :=
  match o with
  | Modify p e c => ({| versions := (p, e, c) :: versions s; ccache := ccache s |}, None)
  | Request p label w =>
      match current (versions s) p with
      | None => (s, None)
      | Some (e, content) =>
          let '(body, c') := serve_cached (ccache s) p label (etag_with label e) content w in
          ({| versions := versions s; ccache := c' |}, match w with Killed => None | _ => Some (label, body, content) end)
      end
  end.

Fixpoint run (s : state) (ops : list op) : list (list N * list N * list N) :=
  match ops with
  | [] => []
  | o :: t => let '(s', out) := step s o in match out with Some x => x :: run s' t | None => run s' t end
  end.
End Cache.
