(* C14: the cached evaluator computes the configuration language's semantics. *)
From LV Require Import Base.Bytes Cond.CondModel.
Local Open Scope nat_scope.

(* well-formed tree: parents and earlier branches come earlier in file order; the branches of a chain share their parent *)
Definition wf_tree (t : tree) : Prop :=
  forall i, 0 < i < length t ->
    parent (tget t i) < i /\ prev (tget t i) < i /\
    (prev (tget t i) <> 0 -> parent (tget t (prev (tget t i))) = parent (tget t i)).

(* the result the language assigns to block i when every attribute is available *)
Fixpoint status (fuel : nat) (t : tree) (a : attrs) (i : nat) : cres :=
  match fuel with
  | O => Unset
  | S f =>
      let n := tget t i in
      match (if parent n =? 0 then CTrue else status f t a (parent n)) with
      | CTrue =>
          match (if prev n =? 0 then CFalse else status f t a (prev n)) with
          | CFalse => of_bool (local_eval n a)
          | Unset => Unset
          | _ => Skip
          end
      | Unset => Unset
      | _ => Skip
      end
  end.

Definition all_valid (a : attrs) : Prop := forall k, avalid a k = true.

(* a cache is coherent with the current attributes: whatever it holds is what a fresh evaluation would give *)
Definition coh (t : tree) (a : attrs) (c : cache) : Prop :=
  length c = length t /\
  forall i, i < length t ->
    (res (cget c i) <> Unset -> res (cget c i) = status (S i) t a i) /\
    (lres (cget c i) = CTrue \/ lres (cget c i) = CFalse -> lres (cget c i) = of_bool (local_eval (tget t i) a)).

Lemma cget_cset_same c i e : i < length c -> cget (cset c i e) i = e.
Proof. revert i. induction c as [|x c IH]; intros i Hi; [cbn in Hi; lia|]. destruct i; [reflexivity|]. cbn. apply IH. cbn in Hi. lia. Qed.
Lemma cget_cset_other c i j e : i <> j -> cget (cset c i e) j = cget c j.
Proof. revert i j. induction c as [|x c IH]; intros i j Hne; [destruct i, j; reflexivity|]. destruct i, j; try reflexivity; [congruence|]. cbn. apply IH. lia. Qed.
Lemma cset_length c i e : length (cset c i e) = length c.
Proof. revert i. induction c as [|x c IH]; intros i; [reflexivity|]. destruct i; cbn; [reflexivity|f_equal; apply IH]. Qed.

(* status does not depend on surplus fuel *)
Lemma status_fuel t a : wf_tree t -> forall i f1 f2, 0 < i < length t -> i < f1 -> i < f2 -> status f1 t a i = status f2 t a i.
Proof.
  intros Hwf. induction i as [i IH] using lt_wf_ind. intros f1 f2 Hi H1 H2.
  destruct f1 as [|f1]; [lia|]. destruct f2 as [|f2]; [lia|]. cbn [status].
  destruct (Hwf i Hi) as (Hp & Hv & _).
  assert (Hps : (if parent (tget t i) =? 0 then CTrue else status f1 t a (parent (tget t i))) = (if parent (tget t i) =? 0 then CTrue else status f2 t a (parent (tget t i)))).
  { destruct (Nat.eqb_spec (parent (tget t i)) 0); [reflexivity|]. apply IH; lia. }
  assert (Hvs : (if prev (tget t i) =? 0 then CFalse else status f1 t a (prev (tget t i))) = (if prev (tget t i) =? 0 then CFalse else status f2 t a (prev (tget t i)))).
  { destruct (Nat.eqb_spec (prev (tget t i)) 0); [reflexivity|]. apply IH; lia. }
  rewrite Hps, Hvs. reflexivity.
Qed.

Lemma coh_set_res t a c i r : coh t a c -> i < length t -> r = status (S i) t a i ->
  coh t a (cset c i {| res := r; lres := lres (cget c i) |}).
Proof.
  intros [Hl Hc] Hi Hr. split; [rewrite cset_length; exact Hl|]. intros j Hj.
  destruct (Nat.eq_dec i j) as [<-|Hne].
  - rewrite cget_cset_same by lia. cbn [res lres]. split; [intros _; exact Hr|apply (Hc i Hi)].
  - rewrite cget_cset_other by exact Hne. apply Hc. exact Hj.
Qed.
Lemma coh_set_both t a c i r : coh t a c -> i < length t -> r = status (S i) t a i -> r = of_bool (local_eval (tget t i) a) ->
  coh t a (cset c i {| res := r; lres := r |}).
Proof.
  intros [Hl Hc] Hi Hr Hlr. split; [rewrite cset_length; exact Hl|]. intros j Hj.
  destruct (Nat.eq_dec i j) as [<-|Hne].
  - rewrite cget_cset_same by lia. cbn [res lres]. split; [intros _; exact Hr|intros _; exact Hlr].
  - rewrite cget_cset_other by exact Hne. apply Hc. exact Hj.
Qed.

(* the cached evaluator returns the language's result and keeps the cache coherent *)
Theorem check_sound t a : wf_tree t -> all_valid a ->
  forall i fuel c, coh t a c -> 0 < i < length t -> i < fuel ->
  let '(r, c') := check fuel t a c i in r = status (S i) t a i /\ coh t a c'.
Proof.
  intros Hwf Hval. induction i as [i IH] using lt_wf_ind. intros fuel c Hcoh Hi Hf.
  destruct fuel as [|f]; [lia|]. cbn [check].
  destruct (res (cget c i)) eqn:Er.
  2,3,4: (split; [|exact Hcoh]; destruct Hcoh as [_ Hc]; destruct (Hc i ltac:(lia)) as [H1 _]; rewrite <- Er; apply H1; rewrite Er; discriminate).
  destruct (Hwf i Hi) as (Hp & Hv & _).
  set (n := tget t i) in *.
  (* parent *)
  assert (HP : let '(pr, c1) := (if parent n =? 0 then (CTrue, c) else check f t a c (parent n)) in
               pr = (if parent n =? 0 then CTrue else status (S i) t a (parent n)) /\ coh t a c1).
  { destruct (Nat.eqb_spec (parent n) 0) as [E|E]; [split; [reflexivity|exact Hcoh]|].
    pose proof (IH (parent n) ltac:(lia) f c Hcoh ltac:(lia) ltac:(lia)) as H. destruct (check f t a c (parent n)) as [pr c1].
    destruct H as [H1 H2]. split; [|exact H2]. rewrite H1. apply status_fuel; try assumption; lia. }
  destruct (if parent n =? 0 then (CTrue, c) else check f t a c (parent n)) as [pr c1]. destruct HP as [Hpr Hc1].
  (* unfold the goal's status once *)
  assert (Hst : status (S i) t a i =
     match (if parent n =? 0 then CTrue else status i t a (parent n)) with
     | CTrue => match (if prev n =? 0 then CFalse else status i t a (prev n)) with
                | CFalse => of_bool (local_eval n a) | Unset => Unset | _ => Skip end
     | Unset => Unset | _ => Skip end) by reflexivity.
  assert (Hpi : (if parent n =? 0 then CTrue else status i t a (parent n)) = pr).
  { rewrite Hpr. destruct (Nat.eqb_spec (parent n) 0); [reflexivity|]. apply status_fuel; try assumption; lia. }
  rewrite Hpi in Hst.
  destruct pr.
  - cbv beta zeta iota; split; [symmetry; exact Hst|]. apply coh_set_res; [exact Hc1|lia|symmetry; exact Hst].
  - cbv beta zeta iota; split; [symmetry; exact Hst|]. apply coh_set_res; [exact Hc1|lia|symmetry; exact Hst].
  - cbv beta zeta iota; split; [symmetry; exact Hst|]. apply coh_set_res; [exact Hc1|lia|symmetry; exact Hst].
  - (* parent true: earlier branch *)
    assert (HV : let '(vr, c2) := (if prev n =? 0 then (CFalse, c1) else check f t a c1 (prev n)) in
                 vr = (if prev n =? 0 then CFalse else status i t a (prev n)) /\ coh t a c2).
    { destruct (Nat.eqb_spec (prev n) 0) as [E|E]; [split; [reflexivity|exact Hc1]|].
      pose proof (IH (prev n) ltac:(lia) f c1 Hc1 ltac:(lia) ltac:(lia)) as H. destruct (check f t a c1 (prev n)) as [vr c2].
      destruct H as [H1 H2]. split; [|exact H2]. rewrite H1. apply status_fuel; try assumption; lia. }
    destruct (if prev n =? 0 then (CFalse, c1) else check f t a c1 (prev n)) as [vr c2]. destruct HV as [Hvr Hc2].
    rewrite <- Hvr in Hst.
    destruct vr.
    + cbv beta zeta iota; split; [symmetry; exact Hst|]. apply coh_set_res; [exact Hc2|lia|symmetry; exact Hst].
    + cbv beta zeta iota; split; [symmetry; exact Hst|]. apply coh_set_res; [exact Hc2|lia|symmetry; exact Hst].
    + rewrite (Hval (comp n)). cbn [negb].
      destruct (lres (cget c2 i)) eqn:El.
      * cbv beta zeta iota; split; [symmetry; exact Hst|]. apply coh_set_both; [exact Hc2|lia|symmetry; exact Hst|reflexivity].
      * cbv beta zeta iota; split; [symmetry; exact Hst|]. apply coh_set_both; [exact Hc2|lia|symmetry; exact Hst|reflexivity].
      * destruct Hc2 as [Hl2 Hcc]. destruct (Hcc i ltac:(lia)) as [_ Hlr]. specialize (Hlr (or_intror El)). rewrite El in Hlr.
        cbv beta zeta iota; split; [rewrite Hst; exact Hlr|]. rewrite <- El. apply coh_set_res; [split; assumption|lia|]. rewrite Hst, El. exact Hlr.
      * destruct Hc2 as [Hl2 Hcc]. destruct (Hcc i ltac:(lia)) as [_ Hlr]. specialize (Hlr (or_introl El)). rewrite El in Hlr.
        cbv beta zeta iota; split; [rewrite Hst; exact Hlr|]. rewrite <- El. apply coh_set_res; [split; assumption|lia|]. rewrite Hst, El. exact Hlr.
    + cbv beta zeta iota; split; [symmetry; exact Hst|]. apply coh_set_res; [exact Hc2|lia|symmetry; exact Hst].
Qed.

(* the freshly reset cache is coherent with any attributes *)
Lemma coh_reset_all t a c : length c = length t -> coh t a (reset_all c).
Proof.
  intros Hl. split; [unfold reset_all; rewrite map_length; exact Hl|]. intros i Hi.
  assert (He : cget (reset_all c) i = {| res := Unset; lres := Unset |}).
  { unfold cget, reset_all. rewrite <- Hl in Hi. clear Hl. revert i Hi. induction c as [|x c IH]; intros i Hi; [cbn in Hi; lia|]. destruct i; [reflexivity|]. cbn. apply IH. cbn in Hi. lia. }
  rewrite He. cbn. split; [congruence|intros [H|H]; discriminate].
Qed.

(* ---------- the language's result is "contributes" exactly as the configuration language defines it *)
Lemma ef_fuel t a : wf_tree t -> forall j f1 f2, 0 < j < length t -> j < f1 -> j < f2 -> earlier_failed f1 t a j = earlier_failed f2 t a j.
Proof.
  intros Hwf. induction j as [j IH] using lt_wf_ind. intros f1 f2 Hj H1 H2.
  destruct f1 as [|f1]; [lia|]. destruct f2 as [|f2]; [lia|]. cbn [earlier_failed]. f_equal.
  destruct (Hwf j Hj) as (_ & Hv & _). destruct (Nat.eqb_spec (prev (tget t j)) 0); [reflexivity|]. apply IH; lia.
Qed.
Lemma applies_fuel t a : wf_tree t -> forall i f1 f2, 0 < i < length t -> i < f1 -> i < f2 -> applies f1 t a i = applies f2 t a i.
Proof.
  intros Hwf. induction i as [i IH] using lt_wf_ind. intros f1 f2 Hi H1 H2.
  destruct f1 as [|f1]; [lia|]. destruct f2 as [|f2]; [lia|]. cbn [applies].
  destruct (Hwf i Hi) as (Hp & Hv & _).
  assert (E1 : (if parent (tget t i) =? 0 then true else applies f1 t a (parent (tget t i))) = (if parent (tget t i) =? 0 then true else applies f2 t a (parent (tget t i))))
    by (destruct (Nat.eqb_spec (parent (tget t i)) 0); [reflexivity|]; apply IH; lia).
  assert (E2 : (if prev (tget t i) =? 0 then true else earlier_failed f1 t a (prev (tget t i))) = (if prev (tget t i) =? 0 then true else earlier_failed f2 t a (prev (tget t i))))
    by (destruct (Nat.eqb_spec (prev (tget t i)) 0); [reflexivity|]; apply ef_fuel; try assumption; lia).
  rewrite E1, E2. reflexivity.
Qed.

Definition pok (t : tree) (a : attrs) (i : nat) : bool := if parent (tget t i) =? 0 then true else applies (S i) t a (parent (tget t i)).

Lemma of_bool_true b : of_bool b = CTrue <-> b = true. Proof. destruct b; cbn; split; congruence. Qed.
Lemma of_bool_false b : of_bool b = CFalse <-> b = false. Proof. destruct b; cbn; split; congruence. Qed.

Theorem status_is_language t a : wf_tree t -> forall i, 0 < i < length t ->
  (status (S i) t a i = CTrue <-> applies (S i) t a i = true) /\
  (status (S i) t a i = CFalse <-> pok t a i && earlier_failed (S i) t a i = true).
Proof.
  intros Hwf. induction i as [i IH] using lt_wf_ind. intros Hi.
  destruct (Hwf i Hi) as (Hp & Hv & Hsame). set (n := tget t i) in *.
  (* the parent's verdict *)
  assert (HP : (if parent n =? 0 then CTrue else status i t a (parent n)) = CTrue <-> pok t a i = true).
  { unfold pok. fold n. destruct (Nat.eqb_spec (parent n) 0) as [E|E]; [split; reflexivity|].
    rewrite (status_fuel t a Hwf (parent n) i (S (parent n))) by lia. destruct (IH (parent n) ltac:(lia) ltac:(lia)) as [HA _].
    rewrite HA. rewrite (applies_fuel t a Hwf (parent n) (S (parent n)) (S i)) by lia. reflexivity. }
  (* the earlier branch's verdict *)
  assert (HV : pok t a i = true ->
     ((if prev n =? 0 then CFalse else status i t a (prev n)) = CFalse <-> (if prev n =? 0 then true else earlier_failed i t a (prev n)) = true)).
  { intros Hpk. destruct (Nat.eqb_spec (prev n) 0) as [E|E]; [split; reflexivity|].
    rewrite (status_fuel t a Hwf (prev n) i (S (prev n))) by lia. destruct (IH (prev n) ltac:(lia) ltac:(lia)) as [_ HB]. rewrite HB.
    assert (Hpk' : pok t a (prev n) = pok t a i).
    { destruct (Hwf (prev n) ltac:(lia)) as (Hpp & _ & _). rewrite (Hsame E) in Hpp.
      unfold pok. fold n. rewrite (Hsame E). destruct (Nat.eqb_spec (parent n) 0); [reflexivity|]. apply applies_fuel; try assumption; lia. }
    rewrite Hpk', Hpk. cbn [andb]. rewrite (ef_fuel t a Hwf (prev n) (S (prev n)) i) by lia. reflexivity. }
  cbn [status applies earlier_failed]. fold n.
  assert (Hpk2 : (if parent n =? 0 then true else applies i t a (parent n)) = pok t a i).
  { unfold pok. fold n. destruct (Nat.eqb_spec (parent n) 0); [reflexivity|]. apply applies_fuel; try assumption; lia. }
  rewrite Hpk2.
  destruct (pok t a i) eqn:Epk.
  - assert (Hpt : (if parent n =? 0 then CTrue else status i t a (parent n)) = CTrue) by (apply HP; reflexivity). rewrite Hpt.
    specialize (HV eq_refl).
    destruct (if prev n =? 0 then CFalse else status i t a (prev n)) eqn:Ev.
    + assert (Hef : (if prev n =? 0 then true else earlier_failed i t a (prev n)) = false) by (destruct (if prev n =? 0 then true else earlier_failed i t a (prev n)); [destruct HV as [_ H]; specialize (H eq_refl); discriminate|reflexivity]).
      rewrite Hef. cbn [andb]. split; split; try discriminate. rewrite andb_false_r. discriminate.
    + assert (Hef : (if prev n =? 0 then true else earlier_failed i t a (prev n)) = false) by (destruct (if prev n =? 0 then true else earlier_failed i t a (prev n)); [destruct HV as [_ H]; specialize (H eq_refl); discriminate|reflexivity]).
      rewrite Hef. cbn [andb]. split; split; try discriminate. rewrite andb_false_r. discriminate.
    + assert (Hef : (if prev n =? 0 then true else earlier_failed i t a (prev n)) = true) by (apply HV; reflexivity).
      rewrite Hef. cbn [andb]. rewrite andb_true_r. split; [apply of_bool_true|]. rewrite of_bool_false. destruct (local_eval n a); cbn; split; congruence.
    + assert (Hef : (if prev n =? 0 then true else earlier_failed i t a (prev n)) = false) by (destruct (if prev n =? 0 then true else earlier_failed i t a (prev n)); [destruct HV as [_ H]; specialize (H eq_refl); discriminate|reflexivity]).
      rewrite Hef. cbn [andb]. split; split; try discriminate. rewrite andb_false_r. discriminate.
  - assert (Hpt : (if parent n =? 0 then CTrue else status i t a (parent n)) <> CTrue) by (intros H; apply HP in H; discriminate).
    cbn [andb]. destruct (if parent n =? 0 then CTrue else status i t a (parent n)); try congruence; split; split; discriminate.
Qed.

(* the headline: with every attribute available and a coherent cache, config_check_cond says "contributes" exactly when the language does *)
Theorem check_cond_is_language t a c i : wf_tree t -> all_valid a -> coh t a c -> 0 < i < length t ->
  fst (check_cond t a c i) = applies (S i) t a i /\ coh t a (snd (check_cond t a c i)).
Proof.
  intros Hwf Hval Hcoh Hi. unfold check_cond.
  pose proof (check_sound t a Hwf Hval i (S (length t)) c Hcoh Hi ltac:(lia)) as H.
  destruct (check (S (length t)) t a c i) as [r c']. destruct H as [Hr Hc]. cbn [fst snd]. split; [|exact Hc].
  destruct (status_is_language t a Hwf i Hi) as [HA _]. rewrite Hr.
  destruct (applies (S i) t a i) eqn:Ea.
  - destruct HA as [_ H]. rewrite (H eq_refl). reflexivity.
  - destruct (status (S i) t a i) eqn:Es; try reflexivity. destruct HA as [H _]. specialize (H eq_refl). discriminate.
Qed.

(* evaluation order does not matter: any sequence of evaluations leaves a coherent cache, so every later answer is the language's *)
Fixpoint check_many (t : tree) (a : attrs) (c : cache) (is : list nat) : cache :=
  match is with [] => c | i :: r => check_many t a (snd (check_cond t a c i)) r end.
Theorem order_independent t a : wf_tree t -> all_valid a -> forall is c, coh t a c -> Forall (fun i => 0 < i < length t) is ->
  coh t a (check_many t a c is).
Proof.
  intros Hwf Hval. induction is as [|i r IH]; intros c Hc Hall; [exact Hc|]. inversion Hall; subst. cbn [check_many].
  apply IH; [|assumption]. apply check_cond_is_language; assumption.
Qed.

(* merge in file order: the value of the last contributing block that sets the directive wins *)
Lemma last_wins_app a b acc : last_wins (a ++ b) acc = last_wins b (last_wins a acc).
Proof. revert acc. induction a as [|[c v] t IH]; intros acc; [reflexivity|]. cbn [app last_wins]. apply IH. Qed.
Theorem last_block_wins_all pre x post acc :
  Forall (fun p => fst p = false \/ snd p = None) post -> last_wins (pre ++ (true, Some x) :: post) acc = Some x.
Proof.
  intros Hpost. rewrite last_wins_app. cbn [last_wins]. generalize (last_wins pre acc). intros _.
  induction Hpost as [|[c v] r [Hc|Hv] _ IH]; [reflexivity| |]; cbn [fst snd last_wins] in *; subst; [exact IH|destruct c; exact IH].
Qed.
