(* C14 -- conditional configuration: model of src/configfile-glue.c
     config_check_cond / _cached / _nocache / _nocache_eval (operators ==, !=, =^, =$, =~, !~, else; the host[:port] rule),
     the per-request condition cache (result, local_result), config_cond_clear_node, config_cond_cache_reset_item,
     config_cond_cache_reset, and the "last contributing block wins" merge of config_patch_config.
   Regular expressions are restricted to optionally anchored literals (the correspondence compiles them with PCRE2).
   Nodes are numbered in file order from 1 (0 = the global block); parent and prev of a node have smaller numbers. *)
From LV Require Import Base.Bytes.
Local Open Scope nat_scope.

Inductive cop := OpEq | OpNe | OpMatch | OpNoMatch | OpPrefix | OpSuffix | OpElse.
Inductive cres := Unset | Skip | CFalse | CTrue.
Record node := { parent : nat; prev : nat; next : nat; children : list nat; comp : nat; op : cop; operand : list N;
                 anch_l : bool; anch_r : bool; cidr : option (list N * nat) }.      (* prev/next = 0: none; cidr: parsed address + mask bits *)
Definition COMP_HOST : nat := 3.
Definition COMP_REMOTE_IP : nat := 8.

(* attributes of the request: value per comp key, and which keys are valid yet *)
Record attrs := { aval : nat -> list N; avalid : nat -> bool; aaddr : list N }.   (* aaddr: the client address, 4 or 16 octets *)

Fixpoint is_prefix (p s : list N) : bool :=
  match p, s with
  | [], _ => true
  | x :: p', y :: s' => (x =? y)%N && is_prefix p' s'
  | _ :: _, [] => false
  end.
Fixpoint contains (fuel : nat) (p s : list N) : bool :=
  match fuel with
  | O => is_prefix p s
  | S f => is_prefix p s || match s with [] => false | _ :: t => contains f p t end
  end.
Definition is_suffix (p s : list N) : bool := is_prefix (rev p) (rev s).

Definition re_match (n : node) (l : list N) : bool :=
  match anch_l n, anch_r n with
  | true, true => list_eqb (operand n) l
  | true, false => is_prefix (operand n) l
  | false, true => is_suffix (operand n) l
  | false, false => contains (length l) (operand n) l
  end.

(* == on $HTTP["host"]: names match whether or not a :port suffix is present on either side *)
Definition host_eq (d l : list N) : bool :=
  let llen := length l in let dlen := length d in
  if negb (llen =? 0) && negb (llen =? dlen) then
    if dlen <? llen then (nth dlen l 0 =? 58)%N && (llen - dlen <=? 6) && list_eqb (firstn dlen l) d
    else (nth llen d 0 =? 58)%N && list_eqb (firstn llen d) l
  else list_eqb l d.

(* sock_addr_is_addr_eq_bits / sock_addr_is_addr_eq: a = configured address, b = client address *)
Fixpoint octet_bits (k : nat) (b : N) : list bool := match k with O => [] | S j => N.testbit b (N.of_nat j) :: octet_bits j b end.
Definition addr_bits (l : list N) : list bool := flat_map (octet_bits 8) l.
Fixpoint bits_eqb (a b : list bool) : bool :=
  match a, b with [], [] => true | x :: a', y :: b' => Bool.eqb x y && bits_eqb a' b' | _, _ => false end.
Definition prefix_eq (a b : list N) (bits : nat) : bool := bits_eqb (firstn bits (addr_bits a)) (firstn bits (addr_bits b)).
Definition v4mapped (b : list N) : bool := list_eqb (firstn 12 b) [0;0;0;0;0;0;0;0;0;0;255;255]%N.
Definition cidr_eq (a b : list N) (bits : nat) : bool :=
  if bits =? 0 then list_eqb a b
  else match length a, length b with
       | 4, 4 => prefix_eq a b (Nat.min bits 32)
       | 4, 16 => v4mapped b && prefix_eq a (skipn 12 b) (Nat.min bits 32)
       | 16, 16 => prefix_eq a b (Nat.min bits 128)
       | 16, 4 => v4mapped a && prefix_eq (skipn 12 a) b (Nat.min bits 128 - 96)
       | _, _ => false
       end.

(* config_check_cond_nocache_eval: does the condition itself hold for the current attribute value *)
Definition local_eval (n : node) (a : attrs) : bool :=
  let l := aval a (comp n) in
  match op n with
  | OpEq => match cidr n with Some (ad, bits) => cidr_eq ad (aaddr a) bits | None =>
            if (comp n =? COMP_HOST) && negb (match operand n with 47%N :: _ => true | _ => false end) then host_eq (operand n) l else list_eqb l (operand n) end
  | OpNe => match cidr n with Some (ad, bits) => negb (cidr_eq ad (aaddr a) bits) | None =>
            negb (if (comp n =? COMP_HOST) && negb (match operand n with 47%N :: _ => true | _ => false end) then host_eq (operand n) l else list_eqb l (operand n)) end
  | OpMatch => re_match n l
  | OpNoMatch => negb (re_match n l)
  | OpPrefix => is_prefix (operand n) l
  | OpSuffix => is_suffix (operand n) l
  | OpElse => true
  end.

(* ---------------------------------------------------------------- the cache *)
Record centry := { res : cres; lres : cres }.
Definition cache := list centry.     (* index = node number, entry 0 unused *)
Definition cget (c : cache) (i : nat) : centry := nth i c {| res := Unset; lres := Unset |}.
Fixpoint cset (c : cache) (i : nat) (e : centry) : cache :=
  match c, i with
  | [], _ => []
  | _ :: t, O => e :: t
  | x :: t, S k => x :: cset t k e
  end.
Definition tree := list node.        (* index = node number, entry 0 = the global block *)
Definition tget (t : tree) (i : nat) : node :=
  nth i t {| parent := 0; prev := 0; next := 0; children := []; comp := 0; op := OpElse; operand := []; anch_l := false; anch_r := false; cidr := None |}.

Definition of_bool (b : bool) : cres := if b then CTrue else CFalse.

(* config_check_cond_cached / _nocache_calc / _nocache with explicit fuel (a node only consults parent and prev) *)
Fixpoint check (fuel : nat) (t : tree) (a : attrs) (c : cache) (i : nat) : cres * cache :=
  match fuel with
  | O => (Unset, c)
  | S f =>
      match res (cget c i) with
      | Unset =>
          let n := tget t i in
          (* parent first *)
          let '(pr, c1) := if parent n =? 0 then (CTrue, c) else check f t a c (parent n) in
          let finish (r : cres) (c' : cache) := (r, cset c' i {| res := r; lres := lres (cget c' i) |}) in
          match pr with
          | Unset => finish Unset c1
          | Skip | CFalse => finish Skip c1
          | CTrue =>
              let '(vr, c2) := if prev n =? 0 then (CFalse, c1) else check f t a c1 (prev n) in
              match vr with
              | Unset => finish Unset c2
              | Skip | CTrue => finish Skip c2
              | CFalse =>
                  if negb (avalid a (comp n)) then finish Unset c2
                  else match lres (cget c2 i) with
                       | CTrue => finish CTrue c2
                       | CFalse => finish CFalse c2
                       | _ => let r := of_bool (local_eval n a) in (r, cset c2 i {| res := r; lres := r |})
                       end
              end
          end
      | r => (r, c)
      end
  end.
Definition check_cond (t : tree) (a : attrs) (c : cache) (i : nat) : bool * cache :=
  let '(r, c') := check (S (length t)) t a c i in (match r with CTrue => true | _ => false end, c').

(* config_cond_clear_node: a node with a result is unset together with its subtree; the else-chain is always followed
   (a later branch can hold Skip from a false parent although this one was never evaluated) *)
Fixpoint clear_node (fuel : nat) (t : tree) (c : cache) (i : nat) : cache :=
  match fuel with
  | O => c
  | S f =>
      let n := tget t i in
      let c2 :=
        match res (cget c i) with
        | Unset => c
        | _ =>
            let c1 := cset c i {| res := Unset; lres := lres (cget c i) |} in
            fold_left (fun cc ch => if prev (tget t ch) =? 0 then clear_node f t cc ch else cc) (children n) c1
        end in
      if next n =? 0 then c2 else clear_node f t c2 (next n)
  end.
(* config_cond_cache_reset_item *)
Fixpoint reset_item_from (t : tree) (k : nat) (i : nat) (nodes : list node) (c : cache) : cache :=
  match nodes with
  | [] => c
  | n :: r =>
      let c' := if comp n =? k then clear_node (S (length t)) t (cset c i {| res := res (cget c i); lres := Unset |}) i else c in
      reset_item_from t k (S i) r c'
  end.
Definition reset_item (t : tree) (c : cache) (k : nat) : cache := reset_item_from t k 0 t c.
Definition reset_all (c : cache) : cache := map (fun _ => {| res := Unset; lres := Unset |}) c.

(* ---------------------------------------------------------------- the language semantics (specification) *)
(* every earlier branch of the if/else chain failed on its own condition *)
Fixpoint earlier_failed (fuel : nat) (t : tree) (a : attrs) (j : nat) : bool :=
  match fuel with
  | O => false
  | S f =>
      let n := tget t j in
      negb (local_eval n a) && (if prev n =? 0 then true else earlier_failed f t a (prev n))
  end.
(* does block i contribute for request attributes a?  (all attributes valid) *)
Fixpoint applies (fuel : nat) (t : tree) (a : attrs) (i : nat) : bool :=
  match fuel with
  | O => false
  | S f =>
      let n := tget t i in
      (if parent n =? 0 then true else applies f t a (parent n))
      && (if prev n =? 0 then true else earlier_failed f t a (prev n))
      && local_eval n a
  end.

(* merge in file order: the value of a directive is that of the last contributing block that sets it *)
Fixpoint last_wins (flags : list (bool * option N)) (acc : option N) : option N :=
  match flags with
  | [] => acc
  | (contributes, v) :: r => last_wins r (if contributes then match v with Some x => Some x | None => acc end else acc)
  end.
