(* config_cond_cache_reset_item is sufficient: after one attribute (COMP_HTTP_URL after a path-info split, the client address after
   mod_extforward, ...) has been rewritten and reset_item called for it, the cache is coherent with the NEW attributes - every cached
   result that could depend on the rewritten attribute is gone, through children and through else-chains.  This is the invariant the
   repaired config_cond_clear_node() (fix 32b61fb) restores; it was covered by correspondence only before. *)
From Coq Require Import List Arith Bool Lia NArith.
From LV Require Import Base.Bytes Cond.CondModel Cond.CondProofs.
Import ListNotations.

(* ---------------------------------------------------------------- structure of a parsed configuration tree *)
Definition wf2 (t : tree) : Prop :=
  wf_tree t /\
  (forall i, 0 < i < length t -> In i (children (tget t (parent (tget t i))))) /\
  (forall i ch, i < length t -> In ch (children (tget t i)) -> parent (tget t ch) = i /\ i < ch < length t) /\
  (forall i, 0 < i < length t -> prev (tget t i) <> 0 -> next (tget t (prev (tget t i))) = i) /\
  (forall i, i < length t -> next (tget t i) <> 0 -> prev (tget t (next (tget t i))) = i /\ i < next (tget t i) < length t).

(* which blocks' results can depend on attribute k *)
Fixpoint dep (fuel : nat) (t : tree) (k i : nat) : bool :=
  match fuel with
  | O => false
  | S f => let n := tget t i in
           (comp n =? k) || (if parent n =? 0 then false else dep f t k (parent n)) || (if prev n =? 0 then false else dep f t k (prev n))
  end.

Lemma dep_fuel t k : wf_tree t -> forall i f1 f2, 0 < i < length t -> i < f1 -> i < f2 -> dep f1 t k i = dep f2 t k i.
Proof.
  intros Hwf. induction i as [i IH] using lt_wf_ind. intros f1 f2 Hi H1 H2.
  destruct f1 as [|f1]; [lia|]. destruct f2 as [|f2]; [lia|]. cbn [dep]. destruct (Hwf i Hi) as (Hp & Hv & _).
  assert (E1 : (if parent (tget t i) =? 0 then false else dep f1 t k (parent (tget t i))) = (if parent (tget t i) =? 0 then false else dep f2 t k (parent (tget t i)))).
  { destruct (Nat.eqb_spec (parent (tget t i)) 0); [reflexivity|]. apply IH; lia. }
  assert (E2 : (if prev (tget t i) =? 0 then false else dep f1 t k (prev (tget t i))) = (if prev (tget t i) =? 0 then false else dep f2 t k (prev (tget t i)))).
  { destruct (Nat.eqb_spec (prev (tget t i)) 0); [reflexivity|]. apply IH; lia. }
  rewrite E1, E2. reflexivity.
Qed.

(* the attributes before and after the rewrite of attribute k *)
Definition agree_except (k : nat) (a a' : attrs) : Prop :=
  (forall j, j <> k -> aval a j = aval a' j) /\ (k <> COMP_REMOTE_IP -> aaddr a = aaddr a').

(* a block that does not look at attribute k evaluates the same; the client address belongs to COMP_HTTP_REMOTE_IP *)
Definition addr_only_for_remote_ip (t : tree) : Prop := forall i, cidr (tget t i) <> None -> comp (tget t i) = COMP_REMOTE_IP.

Lemma local_eval_agree t k a a' i : addr_only_for_remote_ip t -> agree_except k a a' -> comp (tget t i) <> k ->
  local_eval (tget t i) a = local_eval (tget t i) a'.
Proof.
  intros Haddr [Hv Ha] Hc. unfold local_eval. rewrite (Hv _ Hc).
  destruct (cidr (tget t i)) as [[ad bits]|] eqn:Ec; [|reflexivity].
  assert (comp (tget t i) = COMP_REMOTE_IP) by (apply Haddr; rewrite Ec; discriminate).
  rewrite Ha by congruence. reflexivity.
Qed.

Lemma status_agree t k a a' : wf_tree t -> addr_only_for_remote_ip t -> agree_except k a a' ->
  forall i, 0 < i < length t -> dep (S i) t k i = false -> status (S i) t a i = status (S i) t a' i.
Proof.
  intros Hwf Haddr Hag. induction i as [i IH] using lt_wf_ind. intros Hi Hd.
  destruct (Hwf i Hi) as (Hp & Hv & _). cbn [dep] in Hd. apply orb_false_iff in Hd as [Hd Hd3]. apply orb_false_iff in Hd as [Hd1 Hd2].
  apply Nat.eqb_neq in Hd1. cbn [status].
  assert (E1 : (if parent (tget t i) =? 0 then CTrue else status i t a (parent (tget t i))) = (if parent (tget t i) =? 0 then CTrue else status i t a' (parent (tget t i)))).
  { destruct (Nat.eqb_spec (parent (tget t i)) 0) as [E|E]; [reflexivity|].
    rewrite (status_fuel t a Hwf _ i (S (parent (tget t i)))) by lia. rewrite (status_fuel t a' Hwf _ i (S (parent (tget t i)))) by lia.
    apply IH; [lia|lia|]. rewrite (dep_fuel t k Hwf _ _ i) by lia. exact Hd2. }
  assert (E2 : (if prev (tget t i) =? 0 then CFalse else status i t a (prev (tget t i))) = (if prev (tget t i) =? 0 then CFalse else status i t a' (prev (tget t i)))).
  { destruct (Nat.eqb_spec (prev (tget t i)) 0) as [E|E]; [reflexivity|].
    rewrite (status_fuel t a Hwf _ i (S (prev (tget t i)))) by lia. rewrite (status_fuel t a' Hwf _ i (S (prev (tget t i)))) by lia.
    apply IH; [lia|lia|]. rewrite (dep_fuel t k Hwf _ _ i) by lia. exact Hd3. }
  rewrite E1, E2. rewrite (local_eval_agree t k a a' i Haddr Hag Hd1). reflexivity.
Qed.

(* ---------------------------------------------------------------- what clear_node reaches *)
Inductive reach (t : tree) : nat -> nat -> Prop :=
  | reach_self i : reach t i i
  | reach_child i ch x : In ch (children (tget t i)) -> prev (tget t ch) = 0 -> reach t ch x -> reach t i x
  | reach_next i x : next (tget t i) <> 0 -> reach t (next (tget t i)) x -> reach t i x.

Lemma reach_trans t a b c : reach t a b -> reach t b c -> reach t a c.
Proof. induction 1 as [i|i ch x Hin Hpv Hr IH|i x Hn Hr IH]; intro H2; [exact H2|eapply reach_child; eauto|eapply reach_next; eauto]. Qed.

(* every block is reached from its parent: directly if it heads an else-chain, through the chain otherwise *)
Lemma reach_from_parent t : wf2 t -> forall j, 0 < j < length t -> parent (tget t j) <> 0 \/ True -> reach t (parent (tget t j)) j.
Proof.
  intros (Hwf & Hch & Hchild & Hprev & Hnext). induction j as [j IH] using lt_wf_ind. intros Hj _.
  destruct (Nat.eq_dec (prev (tget t j)) 0) as [E|E].
  - eapply reach_child; [apply Hch; exact Hj|exact E|apply reach_self].
  - destruct (Hwf j Hj) as (_ & Hv & Hsame). specialize (Hsame E).
    assert (Hpj : 0 < prev (tget t j) < length t) by lia.
    rewrite <- Hsame. eapply reach_trans; [apply IH; [lia|exact Hpj|right; exact I]|].
    eapply reach_next; [rewrite (Hprev j Hj E); lia|rewrite (Hprev j Hj E); apply reach_self].
Qed.

Lemma dep_reach t k : wf2 t -> forall j, 0 < j < length t -> dep (S j) t k j = true ->
  exists m, 0 < m < length t /\ comp (tget t m) = k /\ reach t m j.
Proof.
  intros Hw. pose proof Hw as (Hwf & Hch & Hchild & Hprev & Hnext). induction j as [j IH] using lt_wf_ind. intros Hj Hd.
  destruct (Hwf j Hj) as (Hp & Hv & Hsame). cbn [dep] in Hd. apply orb_true_iff in Hd as [Hd|Hd]; [apply orb_true_iff in Hd as [Hd|Hd]|].
  - apply Nat.eqb_eq in Hd. exists j. repeat split; [lia|lia|exact Hd|apply reach_self].
  - destruct (Nat.eqb_spec (parent (tget t j)) 0) as [E|E]; [discriminate|].
    rewrite (dep_fuel t k Hwf _ j (S (parent (tget t j)))) in Hd by lia.
    destruct (IH (parent (tget t j)) ltac:(lia) ltac:(lia) Hd) as (m & Hm & Hc & Hr).
    exists m. repeat split; try assumption; try lia. eapply reach_trans; [exact Hr|]. apply reach_from_parent; [exact Hw|exact Hj|left; exact E].
  - destruct (Nat.eqb_spec (prev (tget t j)) 0) as [E|E]; [discriminate|].
    rewrite (dep_fuel t k Hwf _ j (S (prev (tget t j)))) in Hd by lia.
    destruct (IH (prev (tget t j)) ltac:(lia) ltac:(lia) Hd) as (m & Hm & Hc & Hr).
    exists m. repeat split; try assumption; try lia. eapply reach_trans; [exact Hr|].
    eapply reach_next; [rewrite (Hprev j Hj E); lia|rewrite (Hprev j Hj E); apply reach_self].
Qed.

(* ---------------------------------------------------------------- caches as the evaluator leaves them: a block is only evaluated after its parent.
   glt c m: that clause, required of the blocks whose parent is numbered m or higher (while a subtree is being cleared the clause is
   suspended for the children of the block just unset) *)
Definition glt (t : tree) (c : cache) (m : nat) : Prop :=
  forall j, 0 < j < length t -> m <= parent (tget t j) -> parent (tget t j) <> 0 -> res (cget c j) <> Unset -> res (cget c (parent (tget t j))) <> Unset.
Definition pinv (t : tree) (c : cache) : Prop := length c = length t /\ glt t c 0.

Definition only_unsets (c c' : cache) : Prop :=
  length c' = length c /\ forall x, lres (cget c' x) = lres (cget c x) /\ (res (cget c' x) = res (cget c x) \/ res (cget c' x) = Unset).
Lemma only_unsets_refl c : only_unsets c c.
Proof. split; [reflexivity|]. intro x. split; [reflexivity|left; reflexivity]. Qed.
Lemma only_unsets_trans a b c : only_unsets a b -> only_unsets b c -> only_unsets a c.
Proof.
  intros [L1 H1] [L2 H2]. split; [congruence|]. intro x. destruct (H1 x) as [A1 B1], (H2 x) as [A2 B2]. split; [congruence|].
  destruct B2 as [B2|B2]; [rewrite B2; exact B1|right; exact B2].
Qed.
Lemma unset_stays c c' x : only_unsets c c' -> res (cget c x) = Unset -> res (cget c' x) = Unset.
Proof. intros [_ H] E. destruct (H x) as [_ [B|B]]; [rewrite B; exact E|exact B]. Qed.
Lemma set_was_set c c' x : only_unsets c c' -> res (cget c' x) <> Unset -> res (cget c' x) = res (cget c x).
Proof. intros [_ H] E. destruct (H x) as [_ [B|B]]; [exact B|contradiction]. Qed.

Definition closed (t : tree) (c : cache) (i : nat) : Prop := forall x, reach t i x -> res (cget c x) = Unset.

(* proper descendants *)
Inductive under (t : tree) (p : nat) : nat -> Prop :=
  | u_par x : 0 < x < length t -> parent (tget t x) = p -> under t p x
  | u_up x : 0 < x < length t -> under t p (parent (tget t x)) -> under t p x.

Lemma under_gt t p x : wf2 t -> under t p x -> p < x.
Proof.
  intros (Hwf & _). induction 1 as [x Hx Hp|x Hx _ IH]; destruct (Hwf x Hx) as (H1 & _); lia.
Qed.

Lemma next_same_parent t i : wf2 t -> 0 < i < length t -> next (tget t i) <> 0 -> parent (tget t (next (tget t i))) = parent (tget t i).
Proof.
  intros (Hwf & _ & _ & _ & Hnext) Hi Hn. destruct (Hnext i ltac:(lia) Hn) as (Hpv & Hlt).
  destruct (Hwf (next (tget t i)) ltac:(lia)) as (_ & _ & Hsame). rewrite Hpv in Hsame. symmetry. apply Hsame. lia.
Qed.

Lemma under_next t p i : wf2 t -> 0 < i < length t -> next (tget t i) <> 0 -> under t p i -> under t p (next (tget t i)).
Proof.
  intros Hw Hi Hn Hu. pose proof (next_same_parent t i Hw Hi Hn) as Hsp. destruct Hw as (_ & _ & _ & _ & Hnext).
  destruct (Hnext i ltac:(lia) Hn) as (_ & Hlt).
  inversion Hu as [x Hx Hp|x Hx Hup]; subst; [apply u_par; [lia|congruence]|apply u_up; [lia|rewrite Hsp; exact Hup]].
Qed.

Lemma reach_under t p : wf2 t -> forall a x, reach t a x -> 0 < a < length t -> under t p a -> under t p x.
Proof.
  intros Hw a x Hr. induction Hr as [i|i ch x Hin Hpv Hr IH|i x Hn Hr IH]; intros Hi Hu; [exact Hu| |].
  - pose proof Hw as (_ & _ & Hchild & _). destruct (Hchild i ch ltac:(lia) Hin) as (Hpc & Hlt). apply IH; [lia|]. apply u_up; [lia|rewrite Hpc; exact Hu].
  - pose proof Hw as (_ & _ & _ & _ & Hnext). destruct (Hnext i ltac:(lia) Hn) as (_ & Hlt). apply IH; [lia|]. apply under_next; assumption.
Qed.

Lemma reach_ge t : wf2 t -> forall a x, reach t a x -> a < length t -> a <= x.
Proof.
  intros Hw a x Hr. induction Hr as [i|i ch x Hin Hpv Hr IH|i x Hn Hr IH]; intro Hi; [lia| |].
  - destruct Hw as (_ & _ & Hchild & _). destruct (Hchild i ch Hi Hin) as (_ & Hlt). specialize (IH ltac:(lia)). lia.
  - destruct Hw as (_ & _ & _ & _ & Hnext). destruct (Hnext i Hi Hn) as (_ & Hlt). specialize (IH ltac:(lia)). lia.
Qed.

(* below an unset block everything is unset *)
Lemma under_unset t c i : wf2 t -> glt t c i -> 0 < i -> res (cget c i) = Unset -> forall x, under t i x -> res (cget c x) = Unset.
Proof.
  intros Hw Hg Hi0 Hu x Hx. induction Hx as [x Hxr Hp|x Hxr Hup IH].
  - destruct (res (cget c x)) eqn:E; [reflexivity| | |]; exfalso; (eapply (Hg x Hxr); [lia|lia|rewrite E; discriminate|rewrite Hp; exact Hu]).
  - pose proof (under_gt t i _ Hw Hup) as Hgt.
    destruct (res (cget c x)) eqn:E; [reflexivity| | |]; exfalso; (eapply (Hg x Hxr); [lia|lia|rewrite E; discriminate|exact IH]).
Qed.

(* ---------------------------------------------------------------- config_cond_clear_node *)
Lemma glt_unset_self t c i m : glt t c m -> m <= i -> i < length c ->
  glt t (cset c i {| res := Unset; lres := lres (cget c i) |}) (S i).
Proof.
  intros Hg Hm Hl j Hj Hp Hp0 Hr.
  destruct (Nat.eq_dec j i) as [->|Hne].
  - exfalso. apply Hr. rewrite cget_cset_same by exact Hl. reflexivity.
  - rewrite cget_cset_other in Hr by congruence. rewrite cget_cset_other by lia. apply Hg; try assumption; lia.
Qed.

Lemma glt_mono t c m m' : glt t c m -> m <= m' -> glt t c m'.
Proof. intros H Hm j Hj Hp Hp0 Hr. apply H; try assumption; lia. Qed.

Lemma cset_only_unsets c i : i < length c -> only_unsets c (cset c i {| res := Unset; lres := lres (cget c i) |}).
Proof.
  intro Hl. split; [apply cset_length|]. intro x. destruct (Nat.eq_dec x i) as [->|Hne].
  - rewrite cget_cset_same by exact Hl. split; [reflexivity|right; reflexivity].
  - rewrite cget_cset_other by congruence. split; [reflexivity|left; reflexivity].
Qed.

(* every block is reached from the head of its else-chain, which is a child of its parent *)
Lemma reached_from_head t : wf2 t -> forall j, 0 < j < length t ->
  exists h, In h (children (tget t (parent (tget t j)))) /\ prev (tget t h) = 0 /\ reach t h j.
Proof.
  intros (Hwf & Hch & Hchild & Hprev & Hnext). induction j as [j IH] using lt_wf_ind. intros Hj.
  destruct (Nat.eq_dec (prev (tget t j)) 0) as [E|E].
  - exists j. split; [apply Hch; exact Hj|]. split; [exact E|apply reach_self].
  - destruct (Hwf j Hj) as (_ & Hv & Hsame). specialize (Hsame E).
    destruct (IH (prev (tget t j)) ltac:(lia) ltac:(lia)) as (h & Hin & Hp0 & Hr). exists h. rewrite <- Hsame. split; [exact Hin|]. split; [exact Hp0|].
    eapply reach_trans; [exact Hr|]. eapply reach_next; [rewrite (Hprev j Hj E); lia|rewrite (Hprev j Hj E); apply reach_self].
Qed.

Theorem clear_node_spec t : wf2 t -> forall d i fuel c,
  length t - i <= d -> 0 < i < length t -> length t - i < fuel -> length c = length t -> glt t c i ->
  let c' := clear_node fuel t c i in
  only_unsets c c' /\ closed t c' i /\ (forall m, m <= i -> glt t c m -> glt t c' m) /\ (forall x, x < i -> cget c' x = cget c x).
Proof.
  intros Hw. pose proof Hw as (Hwf & Hch & Hchild & Hprev & Hnext).
  induction d as [|d IHd]; intros i fuel c Hd Hi Hf Hlen Hg; [lia|].
  destruct fuel as [|f]; [lia|]. cbn [clear_node]. cbv zeta. set (n := tget t i).
  (* the block itself and its children *)
  match goal with |- context [clear_node f t ?X (next n)] => set (c2 := X) end.
  assert (Hc2 : only_unsets c c2 /\ res (cget c2 i) = Unset /\
                (forall ch x, In ch (children n) -> prev (tget t ch) = 0 -> reach t ch x -> res (cget c2 x) = Unset) /\
                (forall m, m <= i -> glt t c m -> glt t c2 m) /\ (forall x, x < i -> cget c2 x = cget c x)).
  { assert (Hset : res (cget c i) <> Unset -> exists c2,
              c2 = fold_left (fun cc ch => if prev (tget t ch) =? 0 then clear_node f t cc ch else cc) (children n) (cset c i {| res := Unset; lres := lres (cget c i) |}) /\
              only_unsets c c2 /\ res (cget c2 i) = Unset /\
              (forall ch x, In ch (children n) -> prev (tget t ch) = 0 -> reach t ch x -> res (cget c2 x) = Unset) /\
              (forall m, m <= i -> glt t c m -> glt t c2 m) /\ (forall x, x < i -> cget c2 x = cget c x)).
    { intros _. set (c1 := cset c i {| res := Unset; lres := lres (cget c i) |}).
      assert (H1u : only_unsets c c1) by (apply cset_only_unsets; lia).
      assert (H1r : res (cget c1 i) = Unset) by (unfold c1; rewrite cget_cset_same by lia; reflexivity).
      assert (H1g : glt t c1 (S i)) by (apply (glt_unset_self t c i i); [exact Hg|lia|lia]).
      assert (H1l : length c1 = length t) by (unfold c1; rewrite cset_length; exact Hlen).
      assert (H1b : forall x, x < i -> cget c1 x = cget c x) by (intros x Hx; unfold c1; apply cget_cset_other; lia).
      (* the fold over the children *)
      assert (Hfold : forall L cc, (forall ch, In ch L -> In ch (children n)) -> length cc = length t -> glt t cc (S i) ->
                let cc' := fold_left (fun cc ch => if prev (tget t ch) =? 0 then clear_node f t cc ch else cc) L cc in
                only_unsets cc cc' /\ glt t cc' (S i) /\ (forall ch, In ch L -> prev (tget t ch) = 0 -> closed t cc' ch) /\ (forall x, x <= i -> cget cc' x = cget cc x)).
      { induction L as [|ch L IHL]; intros cc HL Hl Hgc; cbn [fold_left].
        - split; [apply only_unsets_refl|]. split; [exact Hgc|]. split; [intros ch []|reflexivity].
        - destruct (Hchild i ch ltac:(lia) (HL ch (or_introl eq_refl))) as (Hpc & Hlt).
          destruct (Nat.eqb_spec (prev (tget t ch)) 0) as [E|E].
          + destruct (IHd ch f cc ltac:(lia) ltac:(lia) ltac:(lia) Hl (glt_mono t cc (S i) ch Hgc ltac:(lia))) as (Ha & Hb & Hcg & Hd2).
            set (cc2 := clear_node f t cc ch) in *.
            assert (Hl2 : length cc2 = length t) by (destruct Ha as [Ha _]; lia).
            destruct (IHL cc2 (fun x Hx => HL x (or_intror Hx)) Hl2 (Hcg (S i) ltac:(lia) Hgc)) as (Ha' & Hb' & Hc' & Hd').
            split; [eapply only_unsets_trans; eassumption|]. split; [exact Hb'|]. split.
            * intros ch' [<-|Hin] Hp0; [intros x Hx; eapply unset_stays; [exact Ha'|apply Hb; exact Hx]|apply Hc'; assumption].
            * intros x Hx. rewrite Hd' by exact Hx. apply Hd2. lia.
          + destruct (IHL cc (fun x Hx => HL x (or_intror Hx)) Hl Hgc) as (Ha' & Hb' & Hc' & Hd').
            split; [exact Ha'|]. split; [exact Hb'|]. split; [|exact Hd'].
            intros ch' [<-|Hin] Hp0; [contradiction|apply Hc'; assumption]. }
      destruct (Hfold (children n) c1 (fun ch H => H) H1l H1g) as (Fa & Fb & Fc & Fd).
      eexists. split; [reflexivity|].
      set (cf := fold_left (fun cc ch => if prev (tget t ch) =? 0 then clear_node f t cc ch else cc) (children n) c1) in *.
      split; [eapply only_unsets_trans; eassumption|]. split; [eapply unset_stays; eassumption|].
      split; [intros ch x Hin Hp0 Hr; apply (Fc ch Hin Hp0 x Hr)|]. split.
      - intros m Hm Hgm j Hj Hp Hp0 Hr.
        destruct (Nat.lt_ge_cases i (parent (tget t j))) as [Hgt|Hle]; [apply Fb; try assumption; lia|].
        destruct (Nat.eq_dec (parent (tget t j)) i) as [Ep|Ep].
        + exfalso. apply Hr. destruct (reached_from_head t Hw j Hj) as (h & Hin & Hh0 & Hrh). rewrite Ep in Hin. apply (Fc h Hin Hh0 j Hrh).
        + assert (Hji : j <> i) by (intro; subst j; apply Hr; eapply unset_stays; eassumption).
          rewrite (set_was_set c cf j (only_unsets_trans _ _ _ H1u Fa) Hr) in Hr.
          pose proof (Hgm j Hj Hp Hp0 Hr) as Hpr. rewrite Fd by lia. rewrite H1b by lia. exact Hpr.
      - intros x Hx. rewrite Fd by lia. apply H1b. exact Hx. }
    unfold c2. destruct (res (cget c i)) eqn:Er.
    - (* nothing cached here: nothing below can be cached either *)
      split; [apply only_unsets_refl|]. split; [exact Er|]. split; [|split; [intros m _ H; exact H|reflexivity]].
      intros ch x Hin _ Hr. destruct (Hchild i ch ltac:(lia) Hin) as (Hpc & Hlt).
      apply (under_unset t c i Hw Hg ltac:(lia) Er). eapply reach_under; [exact Hw|exact Hr|lia|apply u_par; [lia|exact Hpc]].
    - destruct (Hset ltac:(discriminate)) as (cx & -> & Hrest). exact Hrest.
    - destruct (Hset ltac:(discriminate)) as (cx & -> & Hrest). exact Hrest.
    - destruct (Hset ltac:(discriminate)) as (cx & -> & Hrest). exact Hrest. }
  destruct Hc2 as (H2u & H2r & H2c & H2g & H2b). clearbody c2.
  assert (H2l : length c2 = length t) by (destruct H2u as [H _]; lia).
  destruct (Nat.eqb_spec (next n) 0) as [En|En].
  - split; [exact H2u|]. split; [|split; [exact H2g|exact H2b]].
    intros x Hr. inversion Hr as [| ? ch ? Hin Hp0 Hr' | ? ? Hnn Hr']; subst; [exact H2r|eapply H2c; eassumption|contradiction].
  - destruct (Hnext i ltac:(lia) En) as (Hpv & Hlt). fold n in Hlt.
    destruct (IHd (next n) f c2 ltac:(lia) ltac:(lia) ltac:(lia) H2l (glt_mono t c2 i (next n) (H2g i (le_n i) Hg) ltac:(lia))) as (Na & Nb & Nc & Nd).
    split; [eapply only_unsets_trans; eassumption|]. split; [|split].
    + intros x Hr. inversion Hr as [| ? ch ? Hin Hp0 Hr' | ? ? Hnn Hr']; subst.
      * eapply unset_stays; eassumption.
      * eapply unset_stays; [exact Na|]. eapply H2c; eassumption.
      * apply Nb. exact Hr'.
    + intros m Hm Hgm. apply Nc; [lia|]. apply H2g; assumption.
    + intros x Hx. rewrite Nd by lia. apply H2b. exact Hx.
Qed.

(* ---------------------------------------------------------------- config_cond_cache_reset_item *)
Definition fades (c c' : cache) : Prop :=
  length c' = length c /\ forall x, (res (cget c' x) = res (cget c x) \/ res (cget c' x) = Unset) /\ (lres (cget c' x) = lres (cget c x) \/ lres (cget c' x) = Unset).
Lemma fades_refl c : fades c c. Proof. split; [reflexivity|]. intro x. split; left; reflexivity. Qed.
Lemma fades_trans a b c : fades a b -> fades b c -> fades a c.
Proof.
  intros [L1 H1] [L2 H2]. split; [congruence|]. intro x. destruct (H1 x) as [A1 B1], (H2 x) as [A2 B2]. split.
  - destruct A2 as [A2|A2]; [rewrite A2; exact A1|right; exact A2].
  - destruct B2 as [B2|B2]; [rewrite B2; exact B1|right; exact B2].
Qed.
Lemma only_unsets_fades c c' : only_unsets c c' -> fades c c'.
Proof. intros [L H]. split; [exact L|]. intro x. destruct (H x) as [A B]. split; [exact B|left; exact A]. Qed.

Lemma reset_from_spec t k : wf2 t -> comp (tget t 0) <> k -> forall nodes i c,
  skipn i t = nodes -> i <= length t -> length c = length t -> glt t c 0 ->
  let c' := reset_item_from t k i nodes c in
  fades c c' /\ glt t c' 0 /\
  (forall m, i <= m < length t -> comp (tget t m) = k -> closed t c' m /\ lres (cget c' m) = Unset).
Proof.
  intros Hw H0. induction nodes as [|n r IH]; intros i c Hsk Hi Hlen Hg; cbn [reset_item_from].
  - split; [apply fades_refl|]. split; [exact Hg|]. intros m Hm. exfalso.
    assert (length (skipn i t) = 0) by (rewrite Hsk; reflexivity). rewrite skipn_length in H. lia.
  - assert (Hil : i < length t) by (destruct (Nat.lt_ge_cases i (length t)) as [H|H]; [exact H|rewrite skipn_all2 in Hsk by lia; discriminate]).
    assert (Hn : tget t i = n).
    { unfold tget. rewrite <- (firstn_skipn i t) at 1. rewrite app_nth2 by (rewrite firstn_length; lia). rewrite firstn_length, Nat.min_l by lia.
      rewrite Nat.sub_diag, Hsk. reflexivity. }
    assert (Hsk' : skipn (S i) t = r).
    { assert (G : forall (l : list node) j, skipn (S j) l = tl (skipn j l)).
      { induction l as [|x l IHl]; intro j; [destruct j; reflexivity|]. destruct j; [reflexivity|]. cbn [skipn]. apply IHl. }
      rewrite G, Hsk. reflexivity. }
    destruct (Nat.eqb_spec (comp n) k) as [Ek|Ek].
    + assert (Hi0 : 0 < i) by (destruct i; [rewrite Hn in H0; contradiction|lia]).
      set (c1 := cset c i {| res := res (cget c i); lres := Unset |}).
      assert (H1l : length c1 = length t) by (unfold c1; rewrite cset_length; exact Hlen).
      assert (H1f : fades c c1).
      { split; [unfold c1; apply cset_length|]. intro x. destruct (Nat.eq_dec x i) as [->|Hne].
        - unfold c1. rewrite cget_cset_same by lia. split; [left; reflexivity|right; reflexivity].
        - unfold c1. rewrite cget_cset_other by congruence. split; left; reflexivity. }
      assert (H1g : glt t c1 0).
      { intros j Hj Hp Hp0 Hr. assert (Hres : forall x, res (cget c1 x) = res (cget c x)).
        { intro x. destruct (Nat.eq_dec x i) as [->|Hne]; unfold c1; [rewrite cget_cset_same by lia; reflexivity|rewrite cget_cset_other by congruence; reflexivity]. }
        rewrite Hres in *. apply Hg; assumption. }
      destruct (clear_node_spec t Hw (length t) i (S (length t)) c1 ltac:(lia) ltac:(lia) ltac:(lia) H1l (glt_mono t c1 0 i H1g ltac:(lia))) as (Ca & Cb & Cc & Cd).
      set (c2 := clear_node (S (length t)) t c1 i) in *.
      assert (H2l : length c2 = length t) by (destruct Ca as [Ca _]; lia).
      destruct (IH (S i) c2 Hsk' ltac:(lia) H2l (Cc 0 ltac:(lia) H1g)) as (Ra & Rb & Rc).
      split; [eapply fades_trans; [exact H1f|eapply fades_trans; [apply only_unsets_fades; exact Ca|exact Ra]]|]. split; [exact Rb|].
      intros m Hm Hcm. destruct (Nat.eq_dec m i) as [->|Hne]; [|apply Rc; [lia|exact Hcm]].
      destruct Ra as [_ Ra]. split.
      * intros x Hx. destruct (Ra x) as [[A|A] _]; [rewrite A; apply Cb; exact Hx|exact A].
      * destruct (Ra i) as [_ [B|B]]; [|exact B]. rewrite B. destruct Ca as [_ Ca]. destruct (Ca i) as [E _]. rewrite E. unfold c1. rewrite cget_cset_same by lia. reflexivity.
    + destruct (IH (S i) c Hsk' ltac:(lia) Hlen Hg) as (Ra & Rb & Rc).
      split; [exact Ra|]. split; [exact Rb|]. intros m Hm Hcm. destruct (Nat.eq_dec m i) as [->|Hne]; [rewrite Hn in Hcm; contradiction|apply Rc; [lia|exact Hcm]].
Qed.

(* ---------------------------------------------------------------- the theorem *)
Theorem reset_item_restores_coherence t k a a' c :
  wf2 t -> addr_only_for_remote_ip t -> comp (tget t 0) <> k ->
  agree_except k a a' -> coh t a c -> pinv t c ->
  coh t a' (reset_item t c k) /\ pinv t (reset_item t c k).
Proof.
  intros Hw Haddr H0 Hag [Hl Hc] [_ Hg]. pose proof Hw as (Hwf & _).
  destruct (reset_from_spec t k Hw H0 t 0 c eq_refl ltac:(lia) Hl Hg) as ((Fl & Ff) & Fg & Fc). fold (reset_item t c k) in *.
  set (c' := reset_item t c k) in *.
  split; [|split; [lia|exact Fg]]. split; [lia|].
  intros i Hi. destruct (Hc i Hi) as [Hres Hlres]. destruct (Ff i) as [Fr Flr]. split.
  - intro Hne. destruct Fr as [Fr|Fr]; [|contradiction]. rewrite Fr in *. rewrite (Hres Hne).
    destruct i as [|i'].
    + cbn [status]. replace (local_eval (tget t 0) a) with (local_eval (tget t 0) a') by (symmetry; apply (local_eval_agree t k a a' 0 Haddr Hag H0)). reflexivity.
    + set (i := S i') in *. apply (status_agree t k a a' Hwf Haddr Hag i ltac:(lia)).
      destruct (dep (S i) t k i) eqn:Ed; [|reflexivity]. exfalso.
      destruct (dep_reach t k Hw i ltac:(lia) Ed) as (m & Hm & Hcm & Hr).
      destruct (Fc m ltac:(lia) Hcm) as [Hcl _]. apply Hne. rewrite <- Fr. apply Hcl. exact Hr.
  - intro Hv. destruct Flr as [Flr|Flr]; [|rewrite Flr in Hv; destruct Hv; discriminate]. rewrite Flr in *. rewrite (Hlres Hv).
    destruct (Nat.eq_dec (comp (tget t i)) k) as [Ek|Ek].
    + exfalso. assert (Hi0 : i <> 0) by (intro; subst i; contradiction).
      destruct (Fc i ltac:(lia) Ek) as [_ Hu]. rewrite Flr in Hu. rewrite Hu in Hv. destruct Hv; discriminate.
    + rewrite (local_eval_agree t k a a' i Haddr Hag Ek). reflexivity.
Qed.

(* ---------------------------------------------------------------- the evaluator only ever produces caches with pinv *)
Lemma pinv_reset_all t c : length c = length t -> pinv t (reset_all c).
Proof.
  intro Hl. split; [unfold reset_all; rewrite map_length; exact Hl|]. intros j Hj _ _ Hr. exfalso. apply Hr.
  unfold reset_all, cget. clear. revert j. induction c as [|x c IH]; intro j; [destruct j; reflexivity|]. destruct j; [reflexivity|]. cbn. apply IH.
Qed.

Lemma check_keeps_pinv t a : wf_tree t -> forall i fuel (c : cache), length c = length t -> glt t c 0 -> 0 < i < length t ->
  let '(r, c') := check fuel t a c i in
  length c' = length t /\ glt t c' 0 /\ (r <> Unset -> res (cget c' i) = r) /\
  (forall x, res (cget c x) <> Unset -> res (cget c' x) = res (cget c x)) /\ (forall x, i < x -> cget c' x = cget c x).
Proof.
  intros Hwf. induction i as [i IH] using lt_wf_ind. intros fuel c Hl Hg Hi.
  destruct fuel as [|f]; [cbn; repeat split; try assumption; try reflexivity; intro H; contradiction|]. cbn [check].
  destruct (res (cget c i)) eqn:Er.
  2,3,4: (repeat split; try assumption; try reflexivity; intros _; exact Er).
  destruct (Hwf i Hi) as (Hp & Hv & _). set (n := tget t i) in *.
  (* parent *)
  assert (HP : let '(pr, c1) := (if parent n =? 0 then (CTrue, c) else check f t a c (parent n)) in
               length c1 = length t /\ glt t c1 0 /\ (parent n <> 0 -> pr <> Unset -> res (cget c1 (parent n)) = pr) /\
               (forall x, res (cget c x) <> Unset -> res (cget c1 x) = res (cget c x)) /\ (forall x, parent n < x -> cget c1 x = cget c x)).
  { destruct (Nat.eqb_spec (parent n) 0) as [E|E]; [repeat split; try assumption; try reflexivity; intro; contradiction|].
    pose proof (IH (parent n) ltac:(lia) f c Hl Hg ltac:(lia)) as H. destruct (check f t a c (parent n)) as [pr c1].
    destruct H as (H1 & H2 & H3 & H4 & H5). repeat split; try assumption. intros _. exact H3. }
  destruct (if parent n =? 0 then (CTrue, c) else check f t a c (parent n)) as [pr c1]. destruct HP as (P1 & P2 & P3 & P4 & P5).
  (* what finishing with result r on a cache cc does *)
  assert (Hfin : forall r cc, length cc = length t -> glt t cc 0 -> res (cget cc i) = Unset ->
            (r <> Unset -> parent n <> 0 -> res (cget cc (parent n)) <> Unset) ->
            (forall x, res (cget c x) <> Unset -> res (cget cc x) = res (cget c x)) -> (forall x, i < x -> cget cc x = cget c x) ->
            forall e, e = {| res := r; lres := lres e |} ->
            length (cset cc i e) = length t /\ glt t (cset cc i e) 0 /\ (r <> Unset -> res (cget (cset cc i e) i) = r) /\
            (forall x, res (cget c x) <> Unset -> res (cget (cset cc i e) x) = res (cget c x)) /\ (forall x, i < x -> cget (cset cc i e) x = cget c x)).
  { intros r cc Hcl Hcg Hci Hpar Hmono Hab e He. split; [rewrite cset_length; exact Hcl|]. split; [|split; [|split]].
    - intros j Hj _ Hp0 Hr. destruct (Nat.eq_dec j i) as [->|Hne].
      + rewrite cget_cset_same in Hr by lia. rewrite He in Hr. cbn [res] in Hr. rewrite cget_cset_other by (fold n; lia). apply Hpar; assumption.
      + rewrite cget_cset_other in Hr by congruence.
        destruct (Nat.eq_dec (parent (tget t j)) i) as [Ep|Ep].
        * exfalso. pose proof (Hcg j Hj ltac:(lia) Hp0 Hr) as Hx. rewrite Ep in Hx. apply Hx. exact Hci.
        * rewrite cget_cset_other by congruence. apply Hcg; try assumption; lia.
    - intros _. rewrite cget_cset_same by lia. rewrite He. reflexivity.
    - intros x Hx. destruct (Nat.eq_dec x i) as [->|Hne]; [rewrite Er in Hx; contradiction|]. rewrite cget_cset_other by congruence. apply Hmono. exact Hx.
    - intros x Hx. rewrite cget_cset_other by lia. apply Hab. exact Hx. }
  assert (Hc1i : res (cget c1 i) = Unset) by (rewrite P5 by lia; exact Er).
  assert (Hc1above : forall x, i < x -> cget c1 x = cget c x) by (intros x Hx; apply P5; lia).
  destruct pr; cbv beta zeta iota.
  - apply (Hfin Unset c1); try assumption; [intro H; contradiction|reflexivity].
  - apply (Hfin Skip c1); try assumption; [intros _ Hp0; rewrite (P3 Hp0) by discriminate; discriminate|reflexivity].
  - apply (Hfin Skip c1); try assumption; [intros _ Hp0; rewrite (P3 Hp0) by discriminate; discriminate|reflexivity].
  - (* parent true: the earlier branch *)
    assert (HV : let '(vr, c2) := (if prev n =? 0 then (CFalse, c1) else check f t a c1 (prev n)) in
                 length c2 = length t /\ glt t c2 0 /\
                 (forall x, res (cget c1 x) <> Unset -> res (cget c2 x) = res (cget c1 x)) /\ (forall x, prev n < x -> cget c2 x = cget c1 x)).
    { destruct (Nat.eqb_spec (prev n) 0) as [E|E]; [repeat split; try assumption; reflexivity|].
      pose proof (IH (prev n) ltac:(lia) f c1 P1 P2 ltac:(lia)) as H. destruct (check f t a c1 (prev n)) as [vr c2].
      destruct H as (H1 & H2 & _ & H4 & H5). repeat split; assumption. }
    destruct (if prev n =? 0 then (CFalse, c1) else check f t a c1 (prev n)) as [vr c2]. destruct HV as (V1 & V2 & V4 & V5).
    assert (Hc2i : res (cget c2 i) = Unset) by (rewrite V5 by lia; exact Hc1i).
    assert (Hpar2 : forall r : cres, r <> Unset -> parent n <> 0 -> res (cget c2 (parent n)) <> Unset).
    { intros r _ Hp0. rewrite V4; [rewrite (P3 Hp0) by discriminate; discriminate|rewrite (P3 Hp0) by discriminate; discriminate]. }
    assert (Hmono2 : forall x, res (cget c x) <> Unset -> res (cget c2 x) = res (cget c x)).
    { intros x Hx. rewrite V4; [apply P4; exact Hx|rewrite (P4 x Hx); exact Hx]. }
    assert (Hab2 : forall x, i < x -> cget c2 x = cget c x) by (intros x Hx; rewrite V5 by lia; apply Hc1above; exact Hx).
    destruct vr; cbv beta zeta iota.
    + apply (Hfin Unset c2); try assumption; [intro H; contradiction|reflexivity].
    + apply (Hfin Skip c2); try assumption; [apply Hpar2|reflexivity].
    + destruct (negb (avalid a (comp n))); cbv beta zeta iota.
      * apply (Hfin Unset c2); try assumption; [intro H; contradiction|reflexivity].
      * destruct (lres (cget c2 i)) eqn:El; cbv beta zeta iota.
        -- apply (Hfin (of_bool (local_eval n a)) c2); try assumption; [apply Hpar2|reflexivity].
        -- apply (Hfin (of_bool (local_eval n a)) c2); try assumption; [apply Hpar2|reflexivity].
        -- apply (Hfin CFalse c2); try assumption; [apply Hpar2|reflexivity].
        -- apply (Hfin CTrue c2); try assumption; [apply Hpar2|reflexivity].
    + apply (Hfin Skip c2); try assumption; [apply Hpar2|reflexivity].
Qed.

(* ---------------------------------------------------------------- the hypotheses are satisfiable: a block, its else-branch, a block nested in that *)
Definition ex_tree : tree :=
  let nd p v nx ch cp o s := {| parent := p; prev := v; next := nx; children := ch; comp := cp; op := o; operand := s; anch_l := false; anch_r := false; cidr := None |} in
  [ nd 0 0 0 [1; 2] 0 OpElse [];
    nd 0 0 2 [] COMP_HOST OpEq [98]%N;
    nd 0 1 0 [3] 2 OpElse [];
    nd 2 0 0 [] 5 OpPrefix [47]%N ].

Example ex_tree_wf2 : wf2 ex_tree /\ addr_only_for_remote_ip ex_tree /\ comp (tget ex_tree 0) <> COMP_HOST.
Proof.
  split; [|split].
  - split; [|split; [|split; [|split]]].
    + intros i Hi. cbn in Hi. destruct i as [|[|[|[|i]]]]; cbn; repeat split; try lia; try discriminate; intros _; reflexivity.
    + intros i Hi. cbn in Hi. destruct i as [|[|[|[|i]]]]; cbn; try lia; auto.
    + intros i ch Hi Hin. cbn in Hi. destruct i as [|[|[|[|i]]]]; cbn in Hin; try lia; try contradiction;
        repeat (destruct Hin as [<-|Hin]; [cbn; lia|]); contradiction.
    + intros i Hi Hp. cbn in Hi. destruct i as [|[|[|[|i]]]]; cbn in *; try lia; try contradiction; reflexivity.
    + intros i Hi Hn. cbn in Hi. destruct i as [|[|[|[|i]]]]; cbn in *; try lia; try contradiction.
  - intros i H. exfalso. apply H. destruct i as [|[|[|[|i]]]]; try reflexivity. unfold tget. rewrite nth_overflow by (cbn; lia). reflexivity.
  - cbn. unfold COMP_HOST. discriminate.
Qed.

(* and the conclusion says something there: Host "b" cached true for block 1, skip for its else-branch 2 and the nested block 3;
   after the host changes, reset_item(COMP_HOST) forgets all three, although only block 1 tests the host *)
Example ex_reset_clears_else_branch_and_below :
  let a := {| aval := fun k => if k =? COMP_HOST then [98]%N else [47; 120]%N; avalid := fun _ => true; aaddr := [] |} in
  let c0 := map (fun _ => {| res := Unset; lres := Unset |}) ex_tree in
  let c1 := snd (check_cond ex_tree a c0 3) in
  map res c1 = [Unset; CTrue; Skip; Skip] /\ map res (reset_item ex_tree c1 COMP_HOST) = [Unset; Unset; Unset; Unset].
Proof. vm_compute. split; reflexivity. Qed.
