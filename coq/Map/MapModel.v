(* C20 -- model of the template/modifier machinery behind url.rewrite*, url.redirect:
     src/burl.c: burl_append, burl_append_encode_{all,nde,psnde}, burl_offset_{tolower,toupper}
     src/base64.c: li_base64_enc (no padding, URL alphabet), li_base64_dec (URL alphabet)
     src/keyvalue.c: pcre_keyvalue_buffer_subst_ext, pcre_keyvalue_buffer_subst,
                     pcre_keyvalue_buffer_append_match/_ctxmatch, pcre_keyvalue_buffer_process
     src/mod_rewrite.c: process_rewrite_rules (once / repeat / loop limit)
   PCRE2 is an oracle: a rule's match outcome (no match / error / capture vector) is an input.
   Flag values, base64 tables, modifier->flag assignments and the loop limit come from Gen/GenMap.v. *)
From LV Require Import Base.Bytes Gen.GenBurl Gen.GenMap Url.UrlModel.
Local Open Scope N_scope.

Definition is_xdigit (c : N) : bool := match hexval c with Some _ => true | None => false end.
Definition enc_byte (c : N) : list N := [pct; hexuc (c / 16); hexuc (c mod 16)].

(* ---------------------------------------------------------------- burl_append_encode_all *)
Fixpoint encode_all (s : list N) : list N :=
  match s with
  | [] => []
  | c :: t => (if unreserved c then [c] else enc_byte c) ++ encode_all t
  end.

(* ---------------------------------------------------------------- burl_append_encode_nde / _psnde
   s = the bytes from str to the end of the buffer it points into (the C code looks at str[i+1],
   str[i+2] even when they lie beyond len; the terminating NUL is the end of the list),
   len = number of bytes to encode. *)
Definition pct_triplet (s : list N) : option (N * N * N * list N) :=
  match s with
  | c :: h :: l :: t2 =>
      if c =? pct then
        match hexval h, hexval l with
        | Some n1, Some n2 => Some (h, l, n1 * 16 + n2, t2)
        | _, _ => None
        end
      else None
  | _ => None
  end.

Fixpoint encode_nde_loop (keep_slash : bool) (fuel : nat) (s : list N) (len : nat) : list N :=
  match fuel with
  | O => []
  | S f =>
      match len, s with
      | O, _ => []
      | _, [] => []
      | S l1, c :: t =>
          match pct_triplet s with
          | Some (h, l, x, t2) =>
              (if unreserved x then [x] else [pct; h; l]) ++ encode_nde_loop keep_slash f t2 (l1 - 2)
          | None =>
              (if unreserved c || (keep_slash && (c =? slash)) then [c] else enc_byte c)
              ++ encode_nde_loop keep_slash f t l1
          end
      end
  end.
Definition encode_nde (keep_slash : bool) (s : list N) (len : nat) : list N :=
  encode_nde_loop keep_slash (S len) s len.

(* ---------------------------------------------------------------- burl_offset_tolower / _toupper
   (C strings: stop at the first NUL; skip %XX triplets) *)
Fixpoint offset_tolower (s : list N) : list N :=
  match s with
  | [] => []
  | c :: t =>
      if c =? 0 then s
      else if is_upper c then (c + 32) :: offset_tolower t
      else if c =? pct then
        match t with
        | h :: l :: t2 => if is_xdigit h && is_xdigit l then c :: h :: l :: offset_tolower t2
                          else c :: offset_tolower t
        | _ => c :: offset_tolower t
        end
      else c :: offset_tolower t
  end.
Fixpoint offset_toupper (s : list N) : list N :=
  match s with
  | [] => []
  | c :: t =>
      if c =? 0 then s
      else if is_lower c then (c - 32) :: offset_toupper t
      else if c =? pct then
        match t with
        | h :: l :: t2 => if is_xdigit h && is_xdigit l then c :: h :: l :: offset_toupper t2
                          else c :: offset_toupper t
        | _ => c :: offset_toupper t
        end
      else c :: offset_toupper t
  end.

(* ---------------------------------------------------------------- base64url *)
Definition b64c (i : N) : N := nth (N.to_nat i) b64u_table 61.
Fixpoint b64u_enc (s : list N) : list N :=
  match s with
  | a :: b :: c :: t =>
      let v := a * 65536 + b * 256 + c in
      b64c (v / 262144 mod 64) :: b64c (v / 4096 mod 64) :: b64c (v / 64 mod 64) :: b64c (v mod 64) :: b64u_enc t
  | [a; b] => let v := a * 1024 + b * 4 in [b64c (v / 4096 mod 64); b64c (v / 64 mod 64); b64c (v mod 64)]
  | [a] => let v := a * 16 in [b64c (v / 64 mod 64); b64c (v mod 64)]
  | [] => []
  end.

Definition b64rev (c : N) : Z := if c <? 128 then nth (N.to_nat c) b64u_rev (-1)%Z else (-1)%Z.

(* main loop of li_base64_dec: returns (output reversed, out4, i, break char) *)
Fixpoint b64u_dec_loop (s : list N) (out4 i : N) (acc : list N) : list N * N * N * option N :=
  match s with
  | [] => (acc, out4, i, None)
  | c :: t =>
      let ch := b64rev c in
      if (ch <? 0)%Z then
        if (ch =? -2)%Z then b64u_dec_loop t out4 i acc
        else (acc, out4, i, Some c)
      else
        let o := out4 * 64 + Z.to_N ch in
        if (i + 1) mod 4 =? 0
        then b64u_dec_loop t 0 (i + 1) (o mod 256 :: (o / 256) mod 256 :: (o / 65536) mod 256 :: acc)
        else b64u_dec_loop t o (i + 1) acc
  end.

Definition b64u_dec (s : list N) : list N :=
  let '(acc, out4, i, brk) := b64u_dec_loop s 0 0 [] in
  let sel := match brk with
             | None => i mod 4
             | Some c => if (b64rev c =? -3)%Z || negb (c =? 0) then i mod 4 else 1
             end in
  if sel =? 0 then rev acc
  else if sel =? 2 then rev acc ++ [(out4 / 16) mod 256]
  else if sel =? 3 then rev acc ++ [(out4 / 1024) mod 256; (out4 * 4 / 16) mod 256]
  else [].

(* ---------------------------------------------------------------- burl_append *)
Definition burl_append (b : list N) (s : list N) (len : nat) (flags : N) : list N :=
  match len with
  | O => b
  | _ =>
      let str := firstn len s in
      if flags =? 0 then b ++ str
      else
        let app :=
          if has_flag flags BURL_ENCODE_NONE then str
          else if has_flag flags BURL_ENCODE_ALL then encode_all str
          else if has_flag flags BURL_ENCODE_NDE then encode_nde false s len
          else if has_flag flags BURL_ENCODE_PSNDE then encode_nde true s len
          else if has_flag flags BURL_ENCODE_B64U then b64u_enc str
          else if has_flag flags BURL_DECODE_B64U then b64u_dec str
          else [] in
        if has_flag flags BURL_TOLOWER then b ++ offset_tolower app
        else if has_flag flags BURL_TOUPPER then b ++ offset_toupper app
        else b ++ app
  end.

(* ---------------------------------------------------------------- substitution context *)
Record kctx := {
  k_subject : list N;                           (* input the rule was matched against *)
  k_caps : list (nat * nat);                    (* ovector of the rule: (start, end) per group, n = length *)
  k_cache : option (list N * list (nat * nat)); (* enclosing condition: comp_value, captures *)
  k_scheme : list N; k_authority : list N; k_port : Z;
  k_path : list N;                              (* burl->path: the request-target incl. query *)
  k_query : option (list N)
}.

Definition append_cap (b : list N) (subject : list N) (caps : list (nat * nat)) (num : nat) (flags : N) : list N :=
  match nth_error caps num with
  | Some (st, en) => burl_append b (skipn st subject) (en - st) flags
  | None => b
  end.
Definition append_match (b : list N) (ctx : kctx) (num : nat) (flags : N) : list N :=
  append_cap b (k_subject ctx) (k_caps ctx) num flags.
Definition append_ctxmatch (b : list N) (ctx : kctx) (num : nat) (flags : N) : list N :=
  match k_cache ctx with
  | None => b
  | Some (cv, caps) => append_cap b cv caps num flags
  end.

Definition str (l : list N) := l.
Definition s_esc := [101;115;99]. Definition s_ape_c := [97;112;101;58]. Definition s_nde_c := [110;100;101;58].
Definition s_psnde_c := [112;115;110;100;101;58]. Definition s_no := [110;111]. Definition s_esc_c := [101;115;99;58].
Definition s_escape_c := [101;115;99;97;112;101;58]. Definition s_to := [116;111]. Definition s_lower_c := [108;111;119;101;114;58].
Definition s_upper_c := [117;112;112;101;114;58]. Definition s_url_dot := [117;114;108;46].
Definition s_scheme_b := [115;99;104;101;109;101;125]. Definition s_authority_b := [97;117;116;104;111;114;105;116;121;125].
Definition s_port_b := [112;111;114;116;125]. Definition s_path_b := [112;97;116;104;125]. Definition s_query_b := [113;117;101;114;121;125].
Definition s_qsa_b := [113;115;97;125]. Definition s_encb64u_c := [101;110;99;98;54;52;117;58]. Definition s_decb64u_c := [100;101;99;98;54;52;117;58].
Definition rbrace : N := 125. Definition colon : N := 58.

(* strchr(p, c): the suffix starting at the first c *)
Fixpoint strchr (p : list N) (c : N) : option (list N) :=
  match p with
  | [] => None
  | x :: t => if x =? c then Some p else strchr t c
  end.
Fixpoint mem (c : N) (l : list N) : bool := match l with [] => false | x :: t => (x =? c) || mem c t end.

Inductive ext_scan :=
| XErr                                  (* return -1 *)
| XAt (b : list N) (p : list N) (flags : N). (* loop left with p positioned *)

Definition after_colon (p : list N) : option (list N) :=
  match strchr p colon with Some (_ :: r) => Some r | _ => None end.

Definition path_part (target : list N) : list N := cut_at qmark target.

(* the while loop of pcre_keyvalue_buffer_subst_ext *)
Fixpoint ext_loop (fuel : nat) (ctx : kctx) (b p : list N) (flags : N) : ext_scan :=
  match fuel with
  | O => XErr
  | S f =>
      match p with
      | [] => XAt b p flags
      | c :: t =>
          if is_digit c || (c =? rbrace) || (c =? 0) then XAt b p flags
          else if prefixb s_esc p then
            let p3 := skipn 3 p in
            if prefixb [colon] p3 then ext_loop f ctx b (skipn 1 p3) (N.lor flags MOD_esc)
            else if prefixb s_ape_c p3 then ext_loop f ctx b (skipn 4 p3) (N.lor flags MOD_escape)
            else if prefixb s_nde_c p3 then ext_loop f ctx b (skipn 4 p3) (N.lor flags MOD_escnde)
            else if prefixb s_psnde_c p3 then ext_loop f ctx b (skipn 6 p3) (N.lor flags MOD_escpsnde)
            else match after_colon p3 with Some r => ext_loop f ctx b r flags | None => XErr end
          else if prefixb s_no p then
            let p2 := skipn 2 p in
            if prefixb s_esc_c p2 then ext_loop f ctx b (skipn 4 p2) (N.lor flags MOD_noesc)
            else if prefixb s_escape_c p2 then ext_loop f ctx b (skipn 7 p2) (N.lor flags MOD_noescape)
            else match after_colon p2 with Some r => ext_loop f ctx b r flags | None => XErr end
          else if prefixb s_to p then
            let p2 := skipn 2 p in
            if prefixb s_lower_c p2 then ext_loop f ctx b (skipn 6 p2) (N.lor flags MOD_tolower)
            else if prefixb s_upper_c p2 then ext_loop f ctx b (skipn 6 p2) (N.lor flags MOD_toupper)
            else match after_colon p2 with Some r => ext_loop f ctx b r flags | None => XErr end
          else if prefixb s_url_dot p then
            let p4 := skipn 4 p in
            if prefixb s_scheme_b p4 then XAt (burl_append b (k_scheme ctx) (length (k_scheme ctx)) flags) (skipn 6 p4) flags
            else if prefixb s_authority_b p4 then XAt (burl_append b (k_authority ctx) (length (k_authority ctx)) flags) (skipn 9 p4) flags
            else if prefixb s_port_b p4 then XAt (b ++ itoaZ (k_port ctx)) (skipn 4 p4) flags
            else if prefixb s_path_b p4 then
              XAt (burl_append b (k_path ctx) (length (path_part (k_path ctx))) flags) (skipn 4 p4) flags
            else if prefixb s_query_b p4 then
              XAt (match k_query ctx with Some q => burl_append b q (length q) flags | None => b end) (skipn 5 p4) flags
            else match strchr p4 rbrace with Some r => XAt b r flags | None => XErr end
          else if prefixb s_qsa_b p then
            let b' := match k_query ctx with
                      | Some qs =>
                          let b1 := if mem qmark (cstr b) then (match qs with [] => b | _ => b ++ [38] end) else b ++ [qmark] in
                          burl_append b1 qs (length qs) flags
                      | None => b
                      end in
            XAt b' (skipn 3 p) flags
          else if prefixb s_encb64u_c p then ext_loop f ctx b (skipn 8 p) (N.lor flags MOD_encb64u)
          else if prefixb s_decb64u_c p then ext_loop f ctx b (skipn 8 p) (N.lor flags MOD_decb64u)
          else ext_loop f ctx b t flags
      end
  end.

(* pcre_keyvalue_buffer_subst_ext: p = pattern after "${" / "%{"; dollar = pattern[0]=='$'.
   Result: (buffer, Some rest-after-'}') or (buffer, None) on error (-1: result truncated). *)
Definition subst_ext (ctx : kctx) (dollar : bool) (b p0 : list N) : list N * option (list N) :=
  match ext_loop (S (length p0)) ctx b p0 0 with
  | XErr => (b, None)
  | XAt b1 p flags =>
      match p with
      | [] => (b1, None)
      | c :: t =>
          if c =? 0 then (b1, None)
          else if c =? rbrace then (b1, Some t)
          else (* digit *)
            let num := N.to_nat (c - 48) in
            let '(num, p1) := match t with
                              | d :: t' => if is_digit d then (num * 10 + N.to_nat (d - 48), t')%nat else (num, t)
                              | [] => (num, t)
                              end in
            match strchr p1 rbrace with
            | None => (b1, None)
            | Some r =>
                let fl := if flags =? 0 then BURL_ENCODE_PSNDE else flags in
                let b2 := if dollar then append_match b1 ctx num fl else append_ctxmatch b1 ctx num fl in
                (b2, Some (tl r))
            end
      end
  end.

Definition dollar : N := 36.
(* pcre_keyvalue_buffer_subst: lit = literal run not yet copied (reversed) *)
Fixpoint subst_loop (fuel : nat) (ctx : kctx) (pat b lit : list N) : list N :=
  match fuel with
  | O => b
  | S f =>
      match pat with
      | [] => b ++ rev lit
      | [c] => b ++ rev (c :: lit)
      | c :: ((d :: t) as pt) =>
          if (c =? dollar) || (c =? pct) then
            let b1 := b ++ rev lit in
            if d =? 123 then
              match subst_ext ctx (c =? dollar) b1 t with
              | (b2, None) => b2
              | (b2, Some rest) => subst_loop f ctx rest b2 []
              end
            else if is_digit d then
              let num := N.to_nat (d - 48) in
              subst_loop f ctx t (if c =? dollar then append_match b1 ctx num 0 else append_ctxmatch b1 ctx num 0) []
            else subst_loop f ctx t (b1 ++ (if c =? d then [c] else [c; d])) []
          else subst_loop f ctx pt b (c :: lit)
      end
  end.
Definition subst (ctx : kctx) (pat : list N) : list N := subst_loop (S (length pat)) ctx pat [] [].

(* ---------------------------------------------------------------- pcre_keyvalue_buffer_process *)
Inductive outcome := NoMatch | MatchErr | Matched (caps : list (nat * nat)).
Inductive proc_result := PGoOn (m : option nat) | PError | PFinished (m : nat) (result : list N).

Fixpoint process_from (i : nat) (mk : list (nat * nat) -> kctx) (rules : list (outcome * list N)) : proc_result :=
  match rules with
  | [] => PGoOn None
  | (oc, value) :: rest =>
      match oc with
      | NoMatch => process_from (S i) mk rest
      | MatchErr => PError
      | Matched caps =>
          match value with
          | [] => PGoOn (Some i)
          | _ => PFinished i (subst (mk caps) value)
          end
      end
  end.
Definition process := process_from 0.

(* ---------------------------------------------------------------- process_rewrite_rules
   The per-request word in plugin_ctx packs a call counter (low bits, REWRITE_COUNT_MASK) and the two
   state flags; it is modelled unpacked (Gen pins that the flags lie outside the counter mask and that
   the limit is below the mask, see MapProofs.hctx_layout).  "NULL" = nothing set. *)
Record hctx := { h_count : N; h_rewritten : bool; h_finished : bool }.
Definition h_null : hctx := {| h_count := 0; h_rewritten := false; h_finished := false |}.
Definition h_nonzero (h : hctx) : bool := negb (h_count h =? 0) || h_rewritten h || h_finished h.

Definition starts_slash (s : list N) : bool := match s with c :: _ => c =? 47 | [] => false end.
Inductive rw_rc := RwGoOn | RwError | RwComeback.
Definition rewrite_call (h : hctx) (repeat_idx : nat) (mk : list (nat * nat) -> kctx) (target : list N)
           (rules : list (outcome * list N)) : rw_rc * hctx * list N :=
  let h1 := if h_nonzero h then {| h_count := h_count h + 1; h_rewritten := h_rewritten h; h_finished := h_finished h |} else h in
  if h_nonzero h && (REWRITE_LOOP_LIMIT <? N.land (h_count h1) REWRITE_COUNT_MASK) then (RwError, h1, target)
  else if h_nonzero h && h_finished h1 then (RwGoOn, h1, target)
  else
    match process mk rules with
    | PGoOn _ => (RwGoOn, h1, target)
    | PError => (RwError, h1, target)
    | PFinished m res =>
        if starts_slash (cstr res) then
            (RwComeback, {| h_count := h_count h1; h_rewritten := true;
                            h_finished := h_finished h1 || (m <? repeat_idx)%nat |}, res)
        else (RwError, h1, target)
    end.

(* the request loop: [oracle k target] gives the rules' outcomes on the k-th call; k counts COMEBACKs *)
Fixpoint rewrite_run (fuel : nat) (k : nat) (h : hctx) (repeat_idx : nat)
         (mk : list N -> list (nat * nat) -> kctx) (target : list N)
         (oracle : nat -> list N -> list (outcome * list N)) : rw_rc * nat * list N :=
  match fuel with
  | O => (RwComeback, k, target)
  | S f =>
      match rewrite_call h repeat_idx (mk target) target (oracle k target) with
      | (RwComeback, h', t') => rewrite_run f (S k) h' repeat_idx mk t' oracle
      | (rc, _, t') => (rc, k, t')
      end
  end.
