(* Proofs about the template/modifier model (C20). *)
From LV Require Import Base.Bytes Gen.GenBurl Gen.GenMap Url.UrlModel Map.MapModel.
Require Import ZifyBool ZifyN ZifyNat.
Ltac Zify.zify_post_hook ::= Z.div_mod_to_equations.
Local Open Scope N_scope.

(* ---------- the modifiers set the flag they are named after (pinned against the regenerated source) *)
Lemma modifiers_as_named :
  MOD_tolower = BURL_TOLOWER /\ MOD_toupper = BURL_TOUPPER /\
  MOD_esc = BURL_ENCODE_ALL /\ MOD_escape = BURL_ENCODE_ALL /\ MOD_escnde = BURL_ENCODE_NDE /\ MOD_escpsnde = BURL_ENCODE_PSNDE /\
  MOD_noesc = BURL_ENCODE_NONE /\ MOD_noescape = BURL_ENCODE_NONE /\ MOD_encb64u = BURL_ENCODE_B64U /\ MOD_decb64u = BURL_DECODE_B64U.
Proof. repeat split; reflexivity. Qed.

(* the eight flags are distinct single bits *)
Lemma flags_distinct_bits :
  map N.log2 [BURL_TOLOWER; BURL_TOUPPER; BURL_ENCODE_NONE; BURL_ENCODE_ALL; BURL_ENCODE_NDE; BURL_ENCODE_PSNDE; BURL_ENCODE_B64U; BURL_DECODE_B64U]
  = [0;1;2;3;4;5;6;7] /\
  map (fun f => 2 ^ N.log2 f) [BURL_TOLOWER; BURL_TOUPPER; BURL_ENCODE_NONE; BURL_ENCODE_ALL; BURL_ENCODE_NDE; BURL_ENCODE_PSNDE; BURL_ENCODE_B64U; BURL_DECODE_B64U]
  = [BURL_TOLOWER; BURL_TOUPPER; BURL_ENCODE_NONE; BURL_ENCODE_ALL; BURL_ENCODE_NDE; BURL_ENCODE_PSNDE; BURL_ENCODE_B64U; BURL_DECODE_B64U].
Proof. split; vm_compute; reflexivity. Qed.

Lemma hctx_layout :
  N.land REWRITE_STATE_REWRITTEN REWRITE_COUNT_MASK = 0 /\ N.land REWRITE_STATE_FINISHED REWRITE_COUNT_MASK = 0 /\
  REWRITE_STATE_REWRITTEN <> REWRITE_STATE_FINISHED /\ REWRITE_LOOP_LIMIT < REWRITE_COUNT_MASK /\
  REWRITE_COUNT_MASK = N.ones 9.
Proof. repeat split; vm_compute; try reflexivity; discriminate. Qed.

(* ---------- tolower / toupper *)
Definition no_pct_nul (s : list N) : Prop := Forall (fun c => c <> pct /\ c <> 0) s.

(* on text without '%' and NUL the modifiers are exactly ASCII case mapping *)
Lemma tolower_plain s : no_pct_nul s -> offset_tolower s = map to_lower s.
Proof.
  induction 1 as [|c t [Hp H0] _ IH]; [reflexivity|]. cbn [offset_tolower map].
  apply N.eqb_neq in Hp, H0. rewrite H0, Hp. unfold to_lower. destruct (is_upper c); rewrite IH; reflexivity.
Qed.
Lemma toupper_plain s : no_pct_nul s -> offset_toupper s = map to_upper s.
Proof.
  induction 1 as [|c t [Hp H0] _ IH]; [reflexivity|]. cbn [offset_toupper map].
  apply N.eqb_neq in Hp, H0. rewrite H0, Hp. unfold to_upper. destruct (is_lower c); rewrite IH; reflexivity.
Qed.

(* in general (percent triplets skipped, stop at NUL): same length, and a byte changes only from an
   upper-case (resp. lower-case) letter to its counterpart *)
Definition low_rel (a b : N) : Prop := b = a \/ (is_upper a = true /\ b = a + 32).
Definition up_rel (a b : N) : Prop := b = a \/ (is_lower a = true /\ b = a - 32).
Lemma Forall2_refl_rel (R : N -> N -> Prop) : (forall a, R a a) -> forall l, Forall2 R l l.
Proof. intros Hr l. induction l; constructor; auto. Qed.

Lemma tolower_pointwise_n n : forall s, (length s <= n)%nat -> Forall2 low_rel s (offset_tolower s).
Proof.
  assert (Hr : forall a, low_rel a a) by (intro a; left; reflexivity).
  induction n as [|n IH]; intros s Hl.
  - destruct s; [constructor|simpl in Hl; lia].
  - destruct s as [|c t]; [constructor|]. cbn [offset_tolower]. simpl in Hl.
    destruct (c =? 0). { apply Forall2_refl_rel. exact Hr. }
    destruct (is_upper c) eqn:Eu. { constructor; [right; split; [exact Eu|reflexivity]|apply IH; lia]. }
    destruct (c =? pct).
    + destruct t as [|h [|l t2]]; try (constructor; [apply Hr|apply IH; simpl in *; lia]).
      destruct (is_xdigit h && is_xdigit l).
      * constructor; [apply Hr|]. constructor; [apply Hr|]. constructor; [apply Hr|]. apply IH. simpl in Hl. lia.
      * constructor; [apply Hr|apply IH; simpl in *; lia].
    + constructor; [apply Hr|apply IH; lia].
Qed.
Lemma tolower_pointwise s : Forall2 low_rel s (offset_tolower s).
Proof. apply (tolower_pointwise_n (length s)). lia. Qed.

Lemma toupper_pointwise_n n : forall s, (length s <= n)%nat -> Forall2 up_rel s (offset_toupper s).
Proof.
  assert (Hr : forall a, up_rel a a) by (intro a; left; reflexivity).
  induction n as [|n IH]; intros s Hl.
  - destruct s; [constructor|simpl in Hl; lia].
  - destruct s as [|c t]; [constructor|]. cbn [offset_toupper]. simpl in Hl.
    destruct (c =? 0). { apply Forall2_refl_rel. exact Hr. }
    destruct (is_lower c) eqn:Eu. { constructor; [right; split; [exact Eu|reflexivity]|apply IH; lia]. }
    destruct (c =? pct).
    + destruct t as [|h [|l t2]]; try (constructor; [apply Hr|apply IH; simpl in *; lia]).
      destruct (is_xdigit h && is_xdigit l).
      * constructor; [apply Hr|]. constructor; [apply Hr|]. constructor; [apply Hr|]. apply IH. simpl in Hl. lia.
      * constructor; [apply Hr|apply IH; simpl in *; lia].
    + constructor; [apply Hr|apply IH; lia].
Qed.
Lemma toupper_pointwise s : Forall2 up_rel s (offset_toupper s).
Proof. apply (toupper_pointwise_n (length s)). lia. Qed.

(* ---------- first match wins *)
Lemma process_from_first i mk pre caps v post :
  Forall (fun r => fst r = NoMatch) pre -> v <> [] ->
  process_from i mk (pre ++ (Matched caps, v) :: post) = PFinished (i + length pre) (subst (mk caps) v).
Proof.
  intros Hp Hv. revert i. induction Hp as [|[oc tv] pre Hoc _ IH]; intros i.
  - cbn [app process_from length]. destruct v; [congruence|]. rewrite Nat.add_0_r. reflexivity.
  - simpl in Hoc. subst oc. cbn [app process_from length]. rewrite IH. f_equal. lia.
Qed.
Lemma process_from_blank i mk pre caps post :
  Forall (fun r => fst r = NoMatch) pre ->
  process_from i mk (pre ++ (Matched caps, []) :: post) = PGoOn (Some (i + length pre)%nat).
Proof.
  intros Hp. revert i. induction Hp as [|[oc tv] pre Hoc _ IH]; intros i.
  - cbn [app process_from length]. rewrite Nat.add_0_r. reflexivity.
  - simpl in Hoc. subst oc. cbn [app process_from length]. rewrite IH. do 2 f_equal. lia.
Qed.
Lemma process_from_none i mk rules :
  Forall (fun r => fst r = NoMatch) rules -> process_from i mk rules = PGoOn None.
Proof.
  intros Hp. revert i. induction Hp as [|[oc tv] pre Hoc _ IH]; intros i; [reflexivity|].
  simpl in Hoc. subst oc. cbn [process_from]. apply IH.
Qed.

(* ---------- a template without '$' and '%' is copied verbatim *)
Definition plain (pat : list N) : Prop := Forall (fun c => c <> dollar /\ c <> pct) pat.
Lemma subst_loop_plain ctx : forall pat fuel b lit, plain pat -> (length pat < fuel)%nat ->
  subst_loop fuel ctx pat b lit = b ++ rev lit ++ pat.
Proof.
  induction pat as [|c t IH]; intros fuel b lit Hp Hf.
  - destruct fuel; [simpl in Hf; lia|]. cbn [subst_loop]. rewrite app_nil_r. reflexivity.
  - destruct fuel as [|f]; [simpl in Hf; lia|]. inversion Hp as [|? ? [Hd Hq] Ht]; subst.
    cbn [subst_loop]. destruct t as [|d t'].
    + cbn [rev]. reflexivity.
    + apply N.eqb_neq in Hd, Hq. rewrite Hd, Hq. cbn [orb].
      rewrite IH; [|exact Ht|simpl in *; lia]. cbn [rev]. rewrite <- app_assoc. reflexivity.
Qed.
Lemma subst_plain ctx pat : plain pat -> subst ctx pat = pat.
Proof. intros H. unfold subst. rewrite subst_loop_plain; [reflexivity|exact H|lia]. Qed.

(* ---------- the rewrite loop is bounded and rewrite-once applies once *)
Lemma land_mask x : N.land x REWRITE_COUNT_MASK = x mod 512.
Proof. destruct hctx_layout as (_ & _ & _ & _ & ->). rewrite N.land_ones. reflexivity. Qed.

(* what a COMEBACK implies about the state word *)
Lemma rewrite_call_comeback h rep mk tg rules h' t' :
  rewrite_call h rep mk tg rules = (RwComeback, h', t') ->
  h_rewritten h' = true /\
  h_count h' = (if h_nonzero h then h_count h + 1 else h_count h) /\
  (h_nonzero h = true -> (h_count h + 1) mod 512 <= REWRITE_LOOP_LIMIT) /\
  (h_nonzero h = true -> h_finished h = false).
Proof.
  unfold rewrite_call. rewrite land_mask.
  destruct (h_nonzero h) eqn:Hz; cbn [andb h_count h_finished h_rewritten].
  - destruct (REWRITE_LOOP_LIMIT <? (h_count h + 1) mod 512) eqn:El; [discriminate|].
    destruct (h_finished h) eqn:Ef; [discriminate|].
    destruct (process mk rules) as [m| |m res]; try discriminate.
    destruct (starts_slash (cstr res)); [|discriminate].
    intros H; inversion H; subst; cbn. repeat split; auto. intros _. lia.
  - destruct (process mk rules) as [m| |m res]; try discriminate.
    destruct (starts_slash (cstr res)); [|discriminate].
    intros H; inversion H; subst; cbn. repeat split; auto; discriminate.
Qed.

(* state reached after j >= 1 COMEBACKs: rewritten, count = j - 1 *)
Lemma rewrite_run_bounded : forall fuel k h rep mk tg oracle rc k' t',
  h_rewritten h = true -> (N.to_nat (h_count h) <= k)%nat -> h_count h <= REWRITE_LOOP_LIMIT ->
  rewrite_run fuel k h rep mk tg oracle = (rc, k', t') ->
  (k' <= k + (N.to_nat REWRITE_LOOP_LIMIT - N.to_nat (h_count h)))%nat.
Proof.
  induction fuel as [|f IH]; intros k h rep mk tg oracle rc k' t' Hr Hk Hc; cbn [rewrite_run].
  - intros H; inversion H; subst. lia.
  - destruct (rewrite_call h rep (mk tg) tg (oracle k tg)) as [[rc1 h1] t1] eqn:Ec.
    destruct rc1; try (intros H; inversion H; subst; lia).
    apply rewrite_call_comeback in Ec as (Hr1 & Hc1 & Hlim & _).
    assert (Hz : h_nonzero h = true) by (unfold h_nonzero; rewrite Hr; apply orb_true_r || (rewrite orb_true_r; reflexivity)).
    rewrite Hz in Hc1. specialize (Hlim Hz).
    unfold REWRITE_LOOP_LIMIT in *.
    assert (Hle : h_count h + 1 <= 100) by lia.
    intros Hrun. apply IH in Hrun; [|exact Hr1|lia|unfold REWRITE_LOOP_LIMIT; lia]. lia.
Qed.

(* from a fresh request: never more than LIMIT + 1 re-dispatches, whatever the rules match *)
Theorem rewrite_repeat_bounded fuel rep mk tg oracle rc k' t' :
  rewrite_run fuel 0 h_null rep mk tg oracle = (rc, k', t') -> (k' <= S (N.to_nat REWRITE_LOOP_LIMIT))%nat.
Proof.
  destruct fuel as [|f]; cbn [rewrite_run]; [intros H; inversion H; lia|].
  destruct (rewrite_call h_null rep (mk tg) tg (oracle 0%nat tg)) as [[rc1 h1] t1] eqn:Ec.
  destruct rc1; try (intros H; inversion H; subst; lia).
  apply rewrite_call_comeback in Ec as (Hr1 & Hc1 & _ & _). cbn in Hc1.
  intros H. apply rewrite_run_bounded in H; [|exact Hr1|rewrite Hc1; cbn; lia|rewrite Hc1; unfold REWRITE_LOOP_LIMIT; lia].
  rewrite Hc1 in H. cbn in H. unfold REWRITE_LOOP_LIMIT in *. lia.
Qed.

(* rewrite-once: if the first call applies a rule below repeat_idx, the second call changes nothing *)
Theorem rewrite_once_applies_once rep mk tg rules h1 t1 rules2 mk2 :
  rewrite_call h_null rep mk tg rules = (RwComeback, h1, t1) ->
  (exists m res, process mk rules = PFinished m res /\ (m < rep)%nat) ->
  rewrite_call h1 rep mk2 t1 rules2 = (RwGoOn, {| h_count := h_count h1 + 1; h_rewritten := h_rewritten h1; h_finished := h_finished h1 |}, t1).
Proof.
  intros Hc (m & res & Hp & Hm). unfold rewrite_call in Hc. cbn -[Nat.ltb] in Hc. rewrite Hp in Hc.
  destruct (starts_slash (cstr res)); [|discriminate]. inversion Hc; subst. clear Hc.
  apply Nat.ltb_lt in Hm. unfold rewrite_call. rewrite land_mask. cbn -[Nat.ltb]. rewrite Hm. reflexivity.
Qed.

(* ---------- ${esc:...} round-trips through URL decoding *)
Lemma hexuc_facts : forall n, n < 16 -> hexval (hexuc n) = Some n /\ hexuc n <> 0 /\ hexuc n <> pct.
Proof.
  assert (H : forallb (fun n => match hexval (hexuc n) with Some m => (m =? n) | None => false end
                                && negb (hexuc n =? 0) && negb (hexuc n =? pct)) (map N.of_nat (seq 0 16)) = true) by (vm_compute; reflexivity).
  rewrite forallb_forall in H. intros n Hn. specialize (H n).
  assert (Hin : In n (map N.of_nat (seq 0 16))) by (apply in_map_iff; exists (N.to_nat n); split; [lia|apply in_seq; lia]).
  specialize (H Hin). apply andb_true_iff in H as [H H3]. apply andb_true_iff in H as [H1 H2].
  destruct (hexval (hexuc n)) as [m|]; [|discriminate]. apply N.eqb_eq in H1. subst m.
  repeat split; lia.
Qed.

Definition printable (c : N) : Prop := 32 <= c /\ c < 256 /\ c <> 127.

Lemma udec_enc_byte c t : c < 256 -> udec_loop (enc_byte c ++ t) = dec_ctl c :: udec_loop t.
Proof.
  intros Hc. unfold enc_byte. cbn [app udec_loop].
  assert (H1 : c / 16 < 16) by lia. assert (H2 : c mod 16 < 16) by lia.
  destruct (hexuc_facts _ H1) as (Hh & Hh0 & _). destruct (hexuc_facts _ H2) as (Hl & _ & _).
  change (pct =? 0) with false. rewrite N.eqb_refl. cbv iota.
  apply N.eqb_neq in Hh0. rewrite Hh0, Hl, Hh. do 2 f_equal. lia.
Qed.

Lemma unreserved_plain c : unreserved c = true -> c <> 0 /\ c <> pct.
Proof. unfold unreserved, is_alnum, is_alpha, is_digit, is_upper, is_lower, pct. lia. Qed.

Theorem udec_encode_all s : Forall printable s -> udec_loop (encode_all s) = s.
Proof.
  induction 1 as [|c t (H32 & H256 & H127) _ IH]; [reflexivity|]. cbn [encode_all].
  destruct (unreserved c) eqn:Eu.
  - destruct (unreserved_plain c Eu) as [H0 Hp]. apply N.eqb_neq in H0, Hp. cbn [app udec_loop]. rewrite H0, Hp, IH. reflexivity.
  - rewrite udec_enc_byte by exact H256. rewrite IH. f_equal. unfold dec_ctl.
    assert ((32 <=? c) && negb (c =? 127) = true) as -> by lia. reflexivity.
Qed.

Lemma split_at_pct_spec x : forall pre rest, split_at_pct x = (pre, rest) ->
  x = pre ++ rest /\ Forall (fun c => c <> pct) pre /\ (rest = [] \/ exists r, rest = pct :: r).
Proof.
  induction x as [|c t IH]; intros pre rest; cbn [split_at_pct].
  - intros H; inversion H; subst. repeat split; auto.
  - destruct (c =? pct) eqn:Ep.
    + intros H; inversion H; subst. apply N.eqb_eq in Ep. subst c. repeat split; auto. right. eexists; reflexivity.
    + destruct (split_at_pct t) as [a b] eqn:Es. intros H; inversion H; subst.
      destruct (IH a rest eq_refl) as (-> & Hf & Hr). repeat split; auto. constructor; [apply N.eqb_neq; exact Ep|exact Hf].
Qed.

Lemma udec_loop_prefix pre rest : Forall (fun c => c <> pct) pre -> Forall (fun c => c <> 0) pre ->
  udec_loop (pre ++ rest) = pre ++ udec_loop rest.
Proof.
  induction pre as [|c t IH]; intros Hp H0; [reflexivity|]. inversion Hp; subst. inversion H0; subst.
  cbn [app udec_loop]. match goal with H : c <> 0 |- _ => apply N.eqb_neq in H; rewrite H end.
  match goal with H : c <> pct |- _ => apply N.eqb_neq in H; rewrite H end. rewrite IH by assumption. reflexivity.
Qed.

Lemma urldecode_is_loop x : Forall (fun c => c <> 0) x -> urldecode_path x = udec_loop x.
Proof.
  intros H0. unfold urldecode_path. destruct (split_at_pct x) as [pre rest] eqn:Es.
  destruct (split_at_pct_spec x pre rest Es) as (Hx & Hp & Hr). subst x.
  apply Forall_app in H0 as [H0p _].
  destruct Hr as [->|[r ->]].
  - rewrite udec_loop_prefix by assumption. reflexivity.
  - rewrite udec_loop_prefix by assumption. reflexivity.
Qed.

Lemma encode_all_nonul s : Forall (fun c => c < 256) s -> Forall (fun c => c <> 0) (encode_all s).
Proof.
  induction 1 as [|c t Hc _ IH]; [constructor|]. cbn [encode_all]. apply Forall_app. split; [|exact IH].
  destruct (unreserved c) eqn:Eu.
  - constructor; [apply (unreserved_plain c Eu)|constructor].
  - unfold enc_byte. assert (H1 : c / 16 < 16) by lia. assert (H2 : c mod 16 < 16) by lia.
    destruct (hexuc_facts _ H1) as (_ & Ha & _). destruct (hexuc_facts _ H2) as (_ & Hb & _).
    repeat constructor; try assumption. unfold pct; lia.
Qed.

Theorem esc_roundtrip_all s : Forall printable s -> urldecode_path (encode_all s) = s.
Proof.
  intros H. rewrite urldecode_is_loop.
  - apply udec_encode_all. exact H.
  - apply encode_all_nonul. eapply Forall_impl; [|exact H]. intros c (_ & Hc & _). exact Hc.
Qed.

(* ---------- base64url: decode (encode s) = s *)
Lemma b64_sym : forall k, k < 64 -> (b64rev (b64c k) <? 0)%Z = false /\ Z.to_N (b64rev (b64c k)) = k.
Proof.
  assert (H : forallb (fun k => negb (b64rev (b64c k) <? 0)%Z && (Z.to_N (b64rev (b64c k)) =? k)) (map N.of_nat (seq 0 64)) = true)
    by (vm_compute; reflexivity).
  rewrite forallb_forall in H. intros k Hk. specialize (H k).
  assert (Hin : In k (map N.of_nat (seq 0 64))) by (apply in_map_iff; exists (N.to_nat k); split; [lia|apply in_seq; lia]).
  specialize (H Hin). apply andb_true_iff in H as [H1 H2]. split; [|lia].
  destruct (b64rev (b64c k) <? 0)%Z; [discriminate|reflexivity].
Qed.

Lemma dec_step k t out4 i acc : k < 64 ->
  b64u_dec_loop (b64c k :: t) out4 i acc =
  let o := out4 * 64 + k in
  if (i + 1) mod 4 =? 0
  then b64u_dec_loop t 0 (i + 1) (o mod 256 :: (o / 256) mod 256 :: (o / 65536) mod 256 :: acc)
  else b64u_dec_loop t o (i + 1) acc.
Proof.
  intros Hk. cbn [b64u_dec_loop]. destruct (b64_sym k Hk) as [-> ->]. reflexivity.
Qed.

Lemma dec_group a b c t q acc : a < 256 -> b < 256 -> c < 256 ->
  let v := a * 65536 + b * 256 + c in
  b64u_dec_loop (b64c (v / 262144 mod 64) :: b64c (v / 4096 mod 64) :: b64c (v / 64 mod 64) :: b64c (v mod 64) :: t) 0 (4 * q) acc
  = b64u_dec_loop t 0 (4 * q + 4) (c :: b :: a :: acc).
Proof.
  intros Ha Hb Hc v.
  rewrite dec_step by lia. cbv zeta. assert ((4 * q + 1) mod 4 =? 0 = false) as -> by lia.
  rewrite dec_step by lia. cbv zeta. assert ((4 * q + 1 + 1) mod 4 =? 0 = false) as -> by lia.
  rewrite dec_step by lia. cbv zeta. assert ((4 * q + 1 + 1 + 1) mod 4 =? 0 = false) as -> by lia.
  rewrite dec_step by lia. cbv zeta. assert ((4 * q + 1 + 1 + 1 + 1) mod 4 =? 0 = true) as -> by lia.
  assert (Hv : (((0 * 64 + v / 262144 mod 64) * 64 + v / 4096 mod 64) * 64 + v / 64 mod 64) * 64 + v mod 64 = v) by (subst v; lia).
  rewrite Hv. f_equal; [lia|]. subst v. f_equal; [lia|]. f_equal; [lia|]. f_equal. lia.
Qed.

Lemma b64u_loop_roundtrip n : forall s q acc, (length s <= n)%nat -> Forall (fun c => c < 256) s ->
  let '(acc', out4, i, brk) := b64u_dec_loop (b64u_enc s) 0 (4 * q) acc in
  brk = None /\
  (if i mod 4 =? 0 then rev acc'
   else if i mod 4 =? 2 then rev acc' ++ [(out4 / 16) mod 256]
   else if i mod 4 =? 3 then rev acc' ++ [(out4 / 1024) mod 256; (out4 * 4 / 16) mod 256]
   else []) = rev acc ++ s.
Proof.
  induction n as [|n IH]; intros s q acc Hl Hs.
  - destruct s; [|simpl in Hl; lia]. cbn [b64u_enc b64u_dec_loop]. assert ((4 * q) mod 4 =? 0 = true) as -> by lia. rewrite app_nil_r. auto.
  - destruct s as [|a [|b [|c t]]].
    + cbn [b64u_enc b64u_dec_loop]. assert ((4 * q) mod 4 =? 0 = true) as -> by lia. rewrite app_nil_r. auto.
    + inversion Hs as [|? ? Ha _]; subst. cbn [b64u_enc]. cbv zeta.
      rewrite dec_step by lia. cbv zeta. assert ((4 * q + 1) mod 4 =? 0 = false) as -> by lia.
      rewrite dec_step by lia. cbv zeta. assert ((4 * q + 1 + 1) mod 4 =? 0 = false) as -> by lia.
      cbn [b64u_dec_loop]. split; [reflexivity|].
      assert ((4 * q + 1 + 1) mod 4 =? 0 = false) as -> by lia. assert ((4 * q + 1 + 1) mod 4 =? 2 = true) as -> by lia.
      do 2 f_equal. lia.
    + inversion Hs as [|? ? Ha Hs']; subst. inversion Hs' as [|? ? Hb _]; subst. cbn [b64u_enc]. cbv zeta.
      rewrite dec_step by lia. cbv zeta. assert ((4 * q + 1) mod 4 =? 0 = false) as -> by lia.
      rewrite dec_step by lia. cbv zeta. assert ((4 * q + 1 + 1) mod 4 =? 0 = false) as -> by lia.
      rewrite dec_step by lia. cbv zeta. assert ((4 * q + 1 + 1 + 1) mod 4 =? 0 = false) as -> by lia.
      cbn [b64u_dec_loop]. split; [reflexivity|].
      assert ((4 * q + 1 + 1 + 1) mod 4 =? 0 = false) as -> by lia. assert ((4 * q + 1 + 1 + 1) mod 4 =? 2 = false) as -> by lia.
      assert ((4 * q + 1 + 1 + 1) mod 4 =? 3 = true) as -> by lia.
      f_equal. f_equal; [lia|]. f_equal. lia.
    + inversion Hs as [|? ? Ha Hs1]; subst. inversion Hs1 as [|? ? Hb Hs2]; subst. inversion Hs2 as [|? ? Hc Hs3]; subst.
      cbn [b64u_enc]. cbv zeta. rewrite dec_group by assumption.
      replace (4 * q + 4) with (4 * (q + 1)) by lia.
      specialize (IH t (q + 1) (c :: b :: a :: acc)). simpl in Hl.
      assert (Hlt : (length t <= n)%nat) by lia. specialize (IH Hlt Hs3).
      destruct (b64u_dec_loop (b64u_enc t) 0 (4 * (q + 1)) (c :: b :: a :: acc)) as [[[acc' out4] i] brk].
      destruct IH as [Hb' He]. split; [exact Hb'|]. rewrite He. cbn [rev]. rewrite <- !app_assoc. reflexivity.
Qed.

Theorem b64u_roundtrip_all s : Forall (fun c => c < 256) s -> b64u_dec (b64u_enc s) = s.
Proof.
  intros Hs. unfold b64u_dec.
  pose proof (b64u_loop_roundtrip (length s) s 0 [] (le_n _) Hs) as H. change (4 * 0) with 0 in H.
  destruct (b64u_dec_loop (b64u_enc s) 0 0 []) as [[[acc' out4] i] brk]. destruct H as [-> H]. exact H.
Qed.
