From Coq Require Import ZArith NArith.
From LV Require Import Pool.PoolModel.
Require Import ExtrOcamlBasic.
Extraction "model.ml" run init Z.of_N N.of_nat Nat.pred.
