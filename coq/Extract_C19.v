From LV Require Import Base.Bytes Deflate.DeflateModel.
Require Import ExtrOcamlBasic.
Extraction "model.ml" decide choose etag_with Z.of_N Nat.pred.
