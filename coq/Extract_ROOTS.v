From LV Require Import Base.Bytes Gen.GenBurl Gen.GenRoots Url.UrlModel Roots.RootsModel.
Require Import ExtrOcamlBasic.
Extraction "model.ml" parse_target alias_remap svh_path svh_docroot parse_pattern evhost_path evhost_docroot userdir xsendfile xsendfile2 dav_dest contains_symlink physical.
