(* Date/DateModel.v -- src/http_date.c: the three HTTP-date parsers (IMF-fixdate, RFC 850, asctime), timegm, and
   http_date_if_modified_since (C15).  The parsers read fixed positions; like the C code they do not validate numeric ranges,
   and timegm normalises linearly.  [year_cur] is tm_year of the current time (the RFC 850 two-digit-year pivot). *)
From Coq Require Import List NArith ZArith Bool Lia.
From LV Require Import Base.Bytes Gen.GenRange.
Import ListNotations.
Local Open Scope Z_scope.

Definition ch (s : list N) (i : nat) : N := nth i s 0%N.
Definition dig (c : N) : option Z := if is_digit c then Some (Z.of_N c - 48) else None.
Definition two (s : list N) (i : nat) : option Z :=
  match dig (ch s i), dig (ch s (S i)) with Some a, Some b => Some (a * 10 + b) | _, _ => None end.
Definition four (s : list N) (i : nat) : option Z :=
  match two s i, two s (S (S i)) with Some a, Some b => Some (a * 100 + b) | _, _ => None end.

Definition wdays : list (N * N * N) := [(83,117,110); (77,111,110); (84,117,101); (87,101,100); (84,104,117); (70,114,105); (83,97,116)]%N.
Definition months : list (N * N * N) :=
  [(74,97,110); (70,101,98); (77,97,114); (65,112,114); (77,97,121); (74,117,110); (74,117,108); (65,117,103); (83,101,112); (79,99,116); (78,111,118); (68,101,99)]%N.
Fixpoint find3 (tbl : list (N * N * N)) (a b c : N) (k : Z) : option Z :=
  match tbl with
  | [] => None
  | (x, y, z) :: t => if (x =? a)%N && (y =? b)%N && (z =? c)%N then Some k else find3 t a b c (k + 1)
  end.
Definition name3 (tbl : list (N * N * N)) (s : list N) (i : nat) : option Z := find3 tbl (ch s i) (ch s (S i)) (ch s (S (S i))) 0.

Record tm := { tm_year : Z; tm_mon : Z; tm_mday : Z; tm_hour : Z; tm_min : Z; tm_sec : Z }.

(* days since 1970-01-01 of year-month-day (proleptic Gregorian); m in 1..12 *)
Definition days_from_civil (y m d : Z) : Z :=
  let y' := if m <=? 2 then y - 1 else y in
  let era := (if 0 <=? y' then y' else y' - 399) / 400 in
  let yoe := y' - era * 400 in
  let doy := (153 * (if 2 <? m then m - 3 else m + 9) + 2) / 5 + d - 1 in
  let doe := yoe * 365 + yoe / 4 - yoe / 100 + doy in
  era * 146097 + doe - 719468.
Definition civil_from_days (z0 : Z) : Z * Z * Z :=
  let z := z0 + 719468 in
  let era := (if 0 <=? z then z else z - 146096) / 146097 in
  let doe := z - era * 146097 in
  let yoe := (doe - doe / 1460 + doe / 36524 - doe / 146096) / 365 in
  let y := yoe + era * 400 in
  let doy := doe - (365 * yoe + yoe / 4 - yoe / 100) in
  let mp := (5 * doy + 2) / 153 in
  let d := doy - (153 * mp + 2) / 5 + 1 in
  let m := if mp <? 10 then mp + 3 else mp - 9 in
  ((if m <=? 2 then y + 1 else y), m, d).

(* timegm with linear normalisation of day, hour, minute, second (month is always 0..11 here) *)
Definition timegm (t : tm) : Z :=
  (days_from_civil (1900 + tm_year t) (tm_mon t + 1) 1 + tm_mday t - 1) * 86400 + tm_hour t * 3600 + tm_min t * 60 + tm_sec t.

Definition opt_bind {A B} (o : option A) (f : A -> option B) : option B := match o with Some a => f a | None => None end.
Notation "x <- o ;; k" := (opt_bind o (fun x => k)) (at level 60, right associativity).
Definition expect (s : list N) (i : nat) (c : N) : option unit := if (ch s i =? c)%N then Some tt else None.

(* the time of day "hh:mm:ss" at the front of l *)
Definition ptime (l : list N) : option (Z * Z * Z) :=
  h <- two l 0 ;; _ <- expect l 2 58 ;; mi <- two l 3 ;; _ <- expect l 5 58 ;; se <- two l 6 ;; Some (h, mi, se).
Definition gmt (l : list N) (i : nat) : option unit :=
  _ <- expect l i 32 ;; _ <- expect l (S i) 71 ;; _ <- expect l (S (S i)) 77 ;; expect l (S (S (S i))) 84.

(* "Sun, 06 Nov 1994 " (17 bytes) then "08:49:37 GMT" *)
Definition pdate_imf (l : list N) : option (Z * Z * Z) :=
  _ <- name3 wdays l 0 ;; _ <- expect l 3 44 ;; _ <- expect l 4 32 ;; d <- two l 5 ;; _ <- expect l 7 32 ;;
  mo <- name3 months l 8 ;; _ <- expect l 11 32 ;; y <- four l 12 ;; _ <- expect l 16 32 ;; Some (y - 1900, mo, d).
Definition parse_imf (s : list N) : option tm :=
  match pdate_imf (firstn 17 s), ptime (skipn 17 s), gmt (skipn 17 s) 8 with
  | Some (y, mo, d), Some (h, mi, se), Some _ => Some {| tm_year := y; tm_mon := mo; tm_mday := d; tm_hour := h; tm_min := mi; tm_sec := se |}
  | _, _, _ => None
  end.

(* "Sun Nov  6 " (11 bytes), "08:49:37", " 1994" *)
Definition pdate_asc (l : list N) : option (Z * Z) :=
  _ <- name3 wdays l 0 ;; _ <- expect l 3 32 ;; mo <- name3 months l 4 ;; _ <- expect l 7 32 ;;
  d <- (if (ch l 8 =? 32)%N then dig (ch l 9) else two l 8) ;; _ <- expect l 10 32 ;; Some (mo, d).
Definition pyear_asc (l : list N) : option Z := _ <- expect l 0 32 ;; y <- four l 1 ;; Some (y - 1900).
Definition parse_asctime (s : list N) : option tm :=
  match pdate_asc (firstn 11 s), ptime (skipn 11 s), pyear_asc (skipn 19 s) with
  | Some (mo, d), Some (h, mi, se), Some y => Some {| tm_year := y; tm_mon := mo; tm_mday := d; tm_hour := h; tm_min := mi; tm_sec := se |}
  | _, _, _ => None
  end.

Fixpoint to_comma (s : list N) : list N :=       (* skip to the comma that ends the long weekday name (or to NUL) *)
  match s with c :: t => if (c =? 44)%N || (c =? 0)%N then s else to_comma t | [] => [] end.
(* ", 06-Nov-94 " (12 bytes) then "08:49:37 GMT" *)
Definition pdate_850 (year_cur : Z) (l : list N) : option (Z * Z * Z) :=
  _ <- expect l 0 44 ;; _ <- expect l 1 32 ;; d <- two l 2 ;; _ <- expect l 4 45 ;; mo <- name3 months l 5 ;; _ <- expect l 8 45 ;;
  yy <- two l 9 ;; _ <- expect l 11 32 ;;
  let base := year_cur - year_cur mod 100 in
  Some ((if yy + base >? year_cur + 50 then yy + base - 100 else yy + base), mo, d).
Definition parse_850 (year_cur : Z) (s0 : list N) : option tm :=
  _ <- name3 wdays s0 0 ;;
  let s := to_comma (skipn 3 s0) in
  match pdate_850 year_cur (firstn 12 s), ptime (skipn 12 s), gmt (skipn 12 s) 8 with
  | Some (y, mo, d), Some (h, mi, se), Some _ => Some {| tm_year := y; tm_mon := mo; tm_mday := d; tm_hour := h; tm_min := mi; tm_sec := se |}
  | _, _, _ => None
  end.

Definition str_to_tm (year_cur : Z) (s : list N) : option tm :=
  let n := length s in
  if (n =? 29)%nat then parse_imf s else if (29 <? n)%nat then parse_850 year_cur s else parse_asctime s.

(* how many bytes the parser chosen by str_to_tm consumes: the returned end pointer *)
Definition consumed (s : list N) : nat :=
  let n := length s in
  if (n =? 29)%nat then 29%nat else if (29 <? n)%nat then (n - length (to_comma (skipn 3 s)) + 24)%nat else 24%nat.
Definition full_match (s : list N) : bool := Nat.eqb (consumed s) (length s).

(* http_date_if_modified_since: true = "modified since" (or not an HTTP-date) *)
Definition modified_since (strict_gt whole : bool) (year_cur : Z) (ims : list N) (lmtime : Z) : bool :=
  match str_to_tm year_cur ims with
  | None => true
  | Some t => if whole && negb (full_match ims) then true
              else let it := timegm t in (if strict_gt then lmtime >? it else lmtime >=? it) || (it =? -1)
  end.
Definition if_modified_since := modified_since ims_compare_is_strict_gt ims_requires_full_match.

(* ---------------------------------------------------------------- the three spellings of an instant *)
Definition d2 (x : Z) : N * N := (Z.to_N (48 + x / 10), Z.to_N (48 + x mod 10)).
Definition nth3 (tbl : list (N * N * N)) (k : Z) : N * N * N := nth (Z.to_nat k) tbl (0, 0, 0)%N.
Definition fields (t : Z) : Z * Z * Z * Z * Z * Z * Z :=      (* weekday, year, month (1..12), day, hour, min, sec *)
  let days := t / 86400 in let sod := t mod 86400 in
  let '(y, m, d) := civil_from_days days in
  ((days + 4) mod 7, y, m, d, sod / 3600, sod mod 3600 / 60, sod mod 60).

Definition ftime (sod : Z) : list N :=
  let '(ha, hb) := d2 (sod / 3600) in let '(ia, ib) := d2 (sod mod 3600 / 60) in let '(sa, sb) := d2 (sod mod 60) in
  [ha; hb; 58; ia; ib; 58; sa; sb]%N.
Definition s_gmt : list N := [32; 71; 77; 84]%N.
Definition dfields (days : Z) : Z * Z * Z * Z := let '(y, m, d) := civil_from_days days in ((days + 4) mod 7, y, m, d).

Definition fdate_imf (days : Z) : list N :=
  let '(wd, y, m, d) := dfields days in
  let '(w0, w1, w2) := nth3 wdays wd in let '(m0, m1, m2) := nth3 months (m - 1) in
  let '(da, db) := d2 d in let '(ya, yb) := d2 (y / 100) in let '(yc, yd) := d2 (y mod 100) in
  [w0; w1; w2; 44; 32; da; db; 32; m0; m1; m2; 32; ya; yb; yc; yd; 32]%N.
Definition fmt_imf (t : Z) : list N := fdate_imf (t / 86400) ++ ftime (t mod 86400) ++ s_gmt.

Definition fdate_asc (days : Z) : list N :=
  let '(wd, y, m, d) := dfields days in
  let '(w0, w1, w2) := nth3 wdays wd in let '(m0, m1, m2) := nth3 months (m - 1) in let '(da, db) := d2 d in
  [w0; w1; w2; 32; m0; m1; m2; 32; (if (d <? 10)%Z then 32%N else da); db; 32]%N.
Definition fyear_asc (days : Z) : list N :=
  let '(wd, y, m, d) := dfields days in let '(ya, yb) := d2 (y / 100) in let '(yc, yd) := d2 (y mod 100) in [32; ya; yb; yc; yd]%N.
Definition fmt_asctime (t : Z) : list N := fdate_asc (t / 86400) ++ ftime (t mod 86400) ++ fyear_asc (t / 86400).

Definition long_wdays : list (list N) :=
  [[83;117;110;100;97;121]; [77;111;110;100;97;121]; [84;117;101;115;100;97;121]; [87;101;100;110;101;115;100;97;121]; [84;104;117;114;115;100;97;121];
   [70;114;105;100;97;121]; [83;97;116;117;114;100;97;121]]%N.
Definition fdate_850 (days : Z) : list N :=
  let '(wd, y, m, d) := dfields days in
  let '(m0, m1, m2) := nth3 months (m - 1) in let '(da, db) := d2 d in let '(yc, yd) := d2 (y mod 100) in
  [44; 32; da; db; 45; m0; m1; m2; 45; yc; yd; 32]%N.
Definition fmt_850 (t : Z) : list N :=
  nth (Z.to_nat ((t / 86400 + 4) mod 7)) long_wdays [] ++ fdate_850 (t / 86400) ++ ftime (t mod 86400) ++ s_gmt.
