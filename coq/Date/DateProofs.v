(* Date/DateProofs.v -- C15 (dates): the three spellings of an instant parse to the same instant, so a conditional GET
   does not depend on how the client wrote the date; equal instants are "not modified". *)
From Coq Require Import List NArith ZArith Bool Lia.
From LV Require Import Base.Bytes Gen.GenRange Date.DateModel.
Import ListNotations.
Local Open Scope Z_scope.

Definition NDAYS : Z := 60000.        (* 1970-01-01 .. 2134-04-11 *)

(* check f on 0 .. n-1 (binary counters: the sweep is linear in n) *)
Definition all_below (n : N) (f : Z -> bool) : bool := N.recursion true (fun k acc => acc && f (Z.of_N k)) n.
Lemma all_below_spec n f : all_below n f = true -> forall k, 0 <= k < Z.of_N n -> f k = true.
Proof.
  unfold all_below. induction n as [|n IH] using N.peano_ind; intros H k Hk; [lia|].
  rewrite N.recursion_succ in H; [|reflexivity | intros ? ? -> ? ? ->; reflexivity].
  apply andb_true_iff in H. destruct H as [H1 H2].
  destruct (Z.eq_dec k (Z.of_N n)) as [->|Hne]; [exact H2 | apply IH; [exact H1 | lia]].
Qed.

(* ---------------------------------------------------------------- structure: the parsers look at their own bytes only *)
Ltac split_lets :=
  repeat match goal with
         | |- context [let '(_, _) := ?x in _] => destruct x
         | |- context [match ?x with (_, _) => _ end] => destruct x
         end.

Lemma firstn_fdate_imf days r : firstn 17 (fdate_imf days ++ r) = fdate_imf days /\ skipn 17 (fdate_imf days ++ r) = r.
Proof. unfold fdate_imf. split_lets. split; reflexivity. Qed.
Lemma firstn_fdate_asc days r : firstn 11 (fdate_asc days ++ r) = fdate_asc days /\ skipn 11 (fdate_asc days ++ r) = r.
Proof. unfold fdate_asc. split_lets. split; reflexivity. Qed.
Lemma firstn_fdate_850 days r : firstn 12 (fdate_850 days ++ r) = fdate_850 days /\ skipn 12 (fdate_850 days ++ r) = r.
Proof. unfold fdate_850. split_lets. split; reflexivity. Qed.
Lemma skipn_ftime sod r : skipn 8 (ftime sod ++ r) = r.
Proof. unfold ftime. split_lets. reflexivity. Qed.
Lemma ptime_ftime_indep sod r : ptime (ftime sod ++ r) = ptime (ftime sod).
Proof. unfold ftime. split_lets. reflexivity. Qed.
Lemma gmt_after_ftime sod : gmt (ftime sod ++ s_gmt) 8 = Some tt.
Proof. unfold ftime. split_lets. reflexivity. Qed.
Lemma length_ftime sod : length (ftime sod) = 8%nat.
Proof. unfold ftime. split_lets. reflexivity. Qed.
Lemma length_fdate_imf days : length (fdate_imf days) = 17%nat.
Proof. unfold fdate_imf. split_lets. reflexivity. Qed.
Lemma length_fdate_asc days : length (fdate_asc days) = 11%nat.
Proof. unfold fdate_asc. split_lets. reflexivity. Qed.
Lemma length_fyear_asc days : length (fyear_asc days) = 5%nat.
Proof. unfold fyear_asc. split_lets. reflexivity. Qed.
Lemma length_fdate_850 days : length (fdate_850 days) = 12%nat.
Proof. unfold fdate_850. split_lets. reflexivity. Qed.

(* ---------------------------------------------------------------- finite sweeps (the bound is part of the statements) *)
Definition time_ok (sod : Z) : bool :=
  match ptime (ftime sod) with Some (h, mi, se) => h * 3600 + mi * 60 + se =? sod | None => false end.
Lemma time_sweep : all_below 86400 time_ok = true.
Proof. vm_compute. reflexivity. Qed.

Definition imf_date_ok (days : Z) : bool :=
  match pdate_imf (fdate_imf days) with Some (y, mo, d) => days_from_civil (1900 + y) (mo + 1) 1 + d - 1 =? days | None => false end.
Lemma imf_date_sweep : all_below 60000 imf_date_ok = true.
Proof. vm_compute. reflexivity. Qed.

Definition asc_date_ok (days : Z) : bool :=
  match pdate_asc (fdate_asc days), pyear_asc (fyear_asc days) with
  | Some (mo, d), Some y => days_from_civil (1900 + y) (mo + 1) 1 + d - 1 =? days
  | _, _ => false
  end.
Lemma asc_date_sweep : all_below 60000 asc_date_ok = true.
Proof. vm_compute. reflexivity. Qed.

(* RFC 850: the year is two digits; checked here with the pivot year 2023 (tm_year 123): dates 1974-01-01 .. 2073-12-31 *)
Definition r850_date_ok (days : Z) : bool :=
  negb ((1461 <=? days) && (days <? 37985)) ||
  match pdate_850 123 (fdate_850 days) with Some (y, mo, d) => days_from_civil (1900 + y) (mo + 1) 1 + d - 1 =? days | None => false end.
Lemma r850_date_sweep : all_below 60000 r850_date_ok = true.
Proof. vm_compute. reflexivity. Qed.

Definition wday_ok (k : nat) : bool :=
  let l := nth k long_wdays [] in
  match name3 wdays (l ++ [44; 32]%N) 0 with Some _ => true | None => false end &&
  list_eqb (to_comma (skipn 3 (l ++ [44; 32; 1]%N))) [44; 32; 1]%N.
Lemma wday_sweep : forallb wday_ok (seq 0 7) = true.
Proof. vm_compute. reflexivity. Qed.

(* ---------------------------------------------------------------- the instant survives each spelling *)
Lemma ptime_ok sod r : 0 <= sod < 86400 ->
  exists h mi se, ptime (ftime sod ++ r) = Some (h, mi, se) /\ h * 3600 + mi * 60 + se = sod.
Proof.
  intro H. rewrite ptime_ftime_indep.
  pose proof (all_below_spec _ _ time_sweep sod ltac:(cbn; lia)) as S. unfold time_ok in S.
  destruct (ptime (ftime sod)) as [[[h mi] se]|]; [|discriminate]. exists h, mi, se. split; [reflexivity|]. apply Z.eqb_eq. exact S.
Qed.

Definition in_range (t : Z) : Prop := 0 <= t < NDAYS * 86400.

Lemma split_t t : in_range t -> 0 <= t / 86400 < NDAYS /\ 0 <= t mod 86400 < 86400 /\ t = t / 86400 * 86400 + t mod 86400.
Proof.
  unfold in_range, NDAYS. intro H. pose proof (Z.div_mod t 86400 ltac:(lia)). pose proof (Z.mod_pos_bound t 86400 ltac:(lia)).
  split; [split; [apply Z.div_pos; lia | apply Z.div_lt_upper_bound; lia] | split; lia].
Qed.

Theorem imf_roundtrip yc t : in_range t -> exists tm, str_to_tm yc (fmt_imf t) = Some tm /\ timegm tm = t.
Proof.
  intro Hr. destruct (split_t t Hr) as (Hd & Hs & Ht). unfold str_to_tm, fmt_imf.
  rewrite !app_length, length_fdate_imf, length_ftime. cbn [length Nat.add Nat.eqb]. unfold parse_imf.
  destruct (firstn_fdate_imf (t / 86400) (ftime (t mod 86400) ++ s_gmt)) as [-> ->].
  pose proof (all_below_spec _ _ imf_date_sweep (t / 86400) ltac:(unfold NDAYS in Hd; cbn; lia)) as S. unfold imf_date_ok in S.
  destruct (pdate_imf (fdate_imf (t / 86400))) as [[[y mo] d]|]; [|discriminate]. apply Z.eqb_eq in S.
  destruct (ptime_ok (t mod 86400) s_gmt Hs) as (h & mi & se & -> & Hsum). rewrite gmt_after_ftime.
  eexists. split; [reflexivity|]. unfold timegm. cbn [tm_year tm_mon tm_mday tm_hour tm_min tm_sec]. lia.
Qed.

Theorem asctime_roundtrip yc t : in_range t -> exists tm, str_to_tm yc (fmt_asctime t) = Some tm /\ timegm tm = t.
Proof.
  intro Hr. destruct (split_t t Hr) as (Hd & Hs & Ht). unfold str_to_tm, fmt_asctime.
  rewrite !app_length, length_fdate_asc, length_ftime, length_fyear_asc. cbn [length Nat.add Nat.eqb Nat.ltb Nat.leb]. unfold parse_asctime.
  destruct (firstn_fdate_asc (t / 86400) (ftime (t mod 86400) ++ fyear_asc (t / 86400))) as [-> Hsk].
  assert (Hsk19 : skipn 19 (fdate_asc (t / 86400) ++ ftime (t mod 86400) ++ fyear_asc (t / 86400)) = fyear_asc (t / 86400)).
  { change 19%nat with (11 + 8)%nat. rewrite <- skipn_skipn || rewrite <- (skipn_skipn 8 11) || idtac.
    replace (skipn (11 + 8) (fdate_asc (t / 86400) ++ ftime (t mod 86400) ++ fyear_asc (t / 86400)))
      with (skipn 8 (skipn 11 (fdate_asc (t / 86400) ++ ftime (t mod 86400) ++ fyear_asc (t / 86400)))).
    - rewrite Hsk. apply skipn_ftime.
    - clear. generalize (fdate_asc (t / 86400) ++ ftime (t mod 86400) ++ fyear_asc (t / 86400)). intro l.
      do 11 (destruct l as [|? l]; [reflexivity|]). reflexivity. }
  rewrite Hsk, Hsk19.
  pose proof (all_below_spec _ _ asc_date_sweep (t / 86400) ltac:(unfold NDAYS in Hd; cbn; lia)) as S. unfold asc_date_ok in S.
  destruct (pdate_asc (fdate_asc (t / 86400))) as [[mo d]|]; [|discriminate].
  destruct (pyear_asc (fyear_asc (t / 86400))) as [y|]; [|discriminate]. apply Z.eqb_eq in S.
  destruct (ptime_ok (t mod 86400) (fyear_asc (t / 86400)) Hs) as (h & mi & se & -> & Hsum).
  eexists. split; [reflexivity|]. unfold timegm. cbn [tm_year tm_mon tm_mday tm_hour tm_min tm_sec]. lia.
Qed.

(* RFC 850 dates are ambiguous by a century; with the pivot year 2023 every date 1974..2073 comes back *)
Theorem rfc850_roundtrip t : in_range t -> 1461 <= t / 86400 < 37985 ->
  exists tm, str_to_tm 123 (fmt_850 t) = Some tm /\ timegm tm = t.
Proof.
  intros Hr Hw. destruct (split_t t Hr) as (Hd & Hs & Ht). unfold str_to_tm, fmt_850.
  set (k := Z.to_nat ((t / 86400 + 4) mod 7)).
  assert (Hk : (k < 7)%nat) by (unfold k; pose proof (Z.mod_pos_bound (t / 86400 + 4) 7 ltac:(lia)); lia).
  pose proof wday_sweep as W. rewrite forallb_forall in W. specialize (W k ltac:(apply in_seq; lia)). unfold wday_ok in W.
  apply andb_true_iff in W. destruct W as [W1 W2]. apply list_eqb_eq in W2.
  set (rest := fdate_850 (t / 86400) ++ ftime (t mod 86400) ++ s_gmt).
  assert (Hlen : (29 <? length (nth k long_wdays [] ++ rest))%nat = true /\ (length (nth k long_wdays [] ++ rest) =? 29)%nat = false).
  { unfold rest. rewrite !app_length, length_fdate_850, length_ftime. cbn [length s_gmt].
    do 7 (destruct k as [|k]; [cbn; split; reflexivity|]). lia. }
  destruct Hlen as [H1 H2]. rewrite H2, H1. unfold parse_850.
  assert (Hname : name3 wdays (nth k long_wdays [] ++ rest) 0 <> None /\ to_comma (skipn 3 (nth k long_wdays [] ++ rest)) = rest).
  { assert (Hc : exists c r', rest = 44%N :: 32%N :: c :: r').
    { unfold rest, fdate_850. split_lets. cbn [app]. eauto. }
    destruct Hc as (c & r' & Hc). rewrite Hc.
    do 7 (destruct k as [|k]; [cbn; split; [discriminate | reflexivity]|]). lia. }
  destruct Hname as [Hn Hto]. destruct (name3 wdays (nth k long_wdays [] ++ rest) 0); [|contradiction]. cbn [opt_bind]. rewrite Hto. unfold rest.
  destruct (firstn_fdate_850 (t / 86400) (ftime (t mod 86400) ++ s_gmt)) as [-> ->].
  pose proof (all_below_spec _ _ r850_date_sweep (t / 86400) ltac:(unfold NDAYS in Hd; cbn; lia)) as S. unfold r850_date_ok in S.
  destruct (Z.leb_spec 1461 (t / 86400)); [|lia]. destruct (Z.ltb_spec (t / 86400) 37985); [|lia]. cbn [andb negb orb] in S.
  destruct (pdate_850 123 (fdate_850 (t / 86400))) as [[[y mo] d]|]; [|discriminate]. apply Z.eqb_eq in S.
  destruct (ptime_ok (t mod 86400) s_gmt Hs) as (h & mi & se & -> & Hsum). rewrite gmt_after_ftime.
  eexists. split; [reflexivity|]. unfold timegm. cbn [tm_year tm_mon tm_mday tm_hour tm_min tm_sec]. lia.
Qed.

(* ---------------------------------------------------------------- If-Modified-Since *)
(* a resource whose modification time is exactly the instant the client names -- in any of the three spellings -- is
   "not modified"; one second later it is "modified" *)
Theorem same_instant_is_not_modified yc t s :
  ims_compare_is_strict_gt = true -> in_range t -> t <> -1 -> full_match s = true ->
  (exists tm, str_to_tm yc s = Some tm /\ timegm tm = t) ->
  if_modified_since yc s t = false /\ if_modified_since yc s (t + 1) = true.
Proof.
  intros Hg Hr Hn Hf (tm & Hp & Ht). unfold if_modified_since, modified_since. rewrite Hg, Hp, Ht, Hf. cbn [negb]. rewrite andb_false_r.
  destruct (Z.eqb_spec t (-1)); [contradiction|]. rewrite !orb_false_r. split; [rewrite Z.gtb_ltb; apply Z.ltb_irrefl | rewrite Z.gtb_ltb; apply Z.ltb_lt; lia].
Qed.

Lemma ims_operator_as_modelled : ims_compare_is_strict_gt = true.
Proof. reflexivity. Qed.

(* bytes after the date make the value something else than an HTTP-date: the field is ignored (RFC 9110 13.1.3), whatever the date says *)
Theorem trailing_bytes_void_the_date yc s lm : ims_requires_full_match = true -> full_match s = false -> if_modified_since yc s lm = true.
Proof.
  intros Hw Hf. unfold if_modified_since, modified_since. rewrite Hw, Hf. destruct (str_to_tm yc s); reflexivity.
Qed.
Lemma ims_whole_value_as_modelled : ims_requires_full_match = true.
Proof. reflexivity. Qed.

Lemma full_match_imf t : full_match (fmt_imf t) = true.
Proof.
  unfold full_match, consumed, fmt_imf. rewrite !app_length, length_fdate_imf, length_ftime. reflexivity.
Qed.
Lemma full_match_asctime t : full_match (fmt_asctime t) = true.
Proof.
  unfold full_match, consumed, fmt_asctime. rewrite !app_length, length_fdate_asc, length_ftime, length_fyear_asc. reflexivity.
Qed.
Lemma full_match_850 t : in_range t -> full_match (fmt_850 t) = true.
Proof.
  intro Hr. destruct (split_t t Hr) as (Hd & Hs & Ht). unfold full_match, consumed, fmt_850.
  set (k := Z.to_nat ((t / 86400 + 4) mod 7)).
  assert (Hk : (k < 7)%nat) by (unfold k; pose proof (Z.mod_pos_bound (t / 86400 + 4) 7 ltac:(lia)); lia).
  set (rest := fdate_850 (t / 86400) ++ ftime (t mod 86400) ++ s_gmt).
  assert (Hrl : length rest = 24%nat) by (unfold rest; rewrite !app_length, length_fdate_850, length_ftime; reflexivity).
  assert (Hc : exists c r', rest = 44%N :: 32%N :: c :: r') by (unfold rest, fdate_850; split_lets; cbn [app]; eauto).
  destruct Hc as (c & r' & Hc).
  assert (Hto : to_comma (skipn 3 (nth k long_wdays [] ++ rest)) = rest /\ (6 <= length (nth k long_wdays []) <= 9)%nat).
  { rewrite Hc. do 7 (destruct k as [|k]; [cbn; split; [reflexivity|lia]|]). lia. }
  destruct Hto as [Hto Hwl]. rewrite Hto, app_length, Hrl.
  destruct (Nat.eqb_spec (length (nth k long_wdays []) + 24) 29); [lia|].
  destruct (Nat.ltb_spec 29 (length (nth k long_wdays []) + 24)); [|lia]. apply Nat.eqb_eq. lia.
Qed.

Corollary ims_independent_of_spelling t : in_range t ->
  if_modified_since 123 (fmt_imf t) t = false /\ if_modified_since 123 (fmt_asctime t) t = false /\
  (1461 <= t / 86400 < 37985 -> if_modified_since 123 (fmt_850 t) t = false).
Proof.
  intro Hr. assert (t <> -1) by (unfold in_range in Hr; lia).
  split; [|split; [|intro Hw]]; eapply same_instant_is_not_modified; try exact ims_operator_as_modelled; try assumption.
  - apply full_match_imf.
  - apply imf_roundtrip; assumption.
  - apply full_match_asctime.
  - apply asctime_roundtrip; assumption.
  - apply full_match_850; assumption.
  - apply rfc850_roundtrip; assumption.
Qed.
