(* Verdicts of the chunked request body reader are never revised by later bytes: proofs. *)
From Coq Require Import List NArith ZArith Bool Lia.
From LV Require Import Base.Bytes Gen.GenBurl Gen.GenH1 Gen.GenSafe Url.UrlModel H1.H1Model Resp.RespModel H1.ConnH1.
Import ListNotations.
Local Open Scope N_scope.

Lemma line_nonul_app t : forall s acc l r, line_nonul s acc = Some (l, r) -> line_nonul (s ++ t) acc = Some (l, r ++ t).
Proof.
  induction s as [|c s IH]; intros acc l r H; cbn [line_nonul app] in *; [discriminate|].
  destruct (c =? 0); [discriminate|]. destruct (c =? 10).
  - injection H as <- <-. reflexivity.
  - apply IH; exact H.
Qed.

Lemma line_nonul_none_app t : forall s acc, line_nonul s acc = None ->
  match line_nonul (s ++ t) acc with None => True | Some (l, _) => (length s + length acc < length l)%nat end.
Proof.
  induction s as [|c s IH]; intros acc H; cbn [line_nonul app length] in *.
  - revert acc. induction t as [|d t IHt]; intros acc; cbn [line_nonul]; [exact I|].
    destruct (d =? 0); [exact I|]. destruct (d =? 10).
    + rewrite rev_length. cbn [length]. lia.
    + specialize (IHt (d :: acc)). destruct (line_nonul t (d :: acc)) as [[l r]|]; [|exact I]. cbn [length] in IHt. lia.
  - destruct (c =? 0); [exact I|]. destruct (c =? 10); [discriminate|].
    specialize (IH (c :: acc) H). destruct (line_nonul (s ++ t) (c :: acc)) as [[l r]|]; [|exact I]. cbn [length] in IH. lia.
Qed.

Lemma prefixb_app_l t : forall p s, prefixb p s = true -> prefixb p (s ++ t) = true.
Proof.
  induction p as [|x p IH]; intros s H; [reflexivity|].
  destruct s as [|y s]; cbn [prefixb app] in *; [discriminate|].
  apply andb_true_iff in H as [H1 H2]. rewrite H1, (IH _ H2). reflexivity.
Qed.

Lemma prefixb_false_app t : forall p s, prefixb p s = false -> (length p <= length s)%nat -> prefixb p (s ++ t) = false.
Proof.
  induction p as [|x p IH]; intros s H L; [discriminate|].
  destruct s as [|y s]; cbn [prefixb app length] in *; [lia|].
  destruct (x =? y); cbn [andb] in *; [|reflexivity]. apply IH; [exact H|lia].
Qed.

Lemma prefixb_length p : forall s, prefixb p s = true -> (length p <= length s)%nat.
Proof.
  induction p as [|x p IH]; intros s H; cbn [length]; [lia|].
  destruct s as [|y s]; cbn [prefixb length] in *; [discriminate|].
  apply andb_true_iff in H as [_ H]. apply IH in H. lia.
Qed.

Lemma find_crlfcrlf_app t : forall s i k, find_crlfcrlf s i = Some k -> find_crlfcrlf (s ++ t) i = Some k.
Proof.
  induction s as [|c s IH]; intros i k H; [discriminate|].
  cbn [find_crlfcrlf] in H. change ((c :: s) ++ t) with (c :: (s ++ t)). cbn [find_crlfcrlf].
  change (c :: s ++ t) with ((c :: s) ++ t).
  destruct (prefixb CRLFCRLF (c :: s)) eqn:P.
  - rewrite (prefixb_app_l t _ _ P). exact H.
  - destruct (prefixb CRLFCRLF ((c :: s) ++ t)) eqn:P'.
    + (* the match completes only with later bytes: then (c::s) is shorter than 4 and holds no match at all *)
      exfalso. destruct (c =? 0); [discriminate|].
      assert (L : (length (c :: s) < 4)%nat).
      { destruct (Nat.ltb_spec (length (c :: s)) 4) as [L|L]; [exact L|].
        rewrite (prefixb_false_app t _ _ P) in P'; [discriminate| exact L]. }
      clear -H L. cbn [length] in L.
      assert (G : forall s i, (length s < 3)%nat -> find_crlfcrlf s i = None).
      { clear. intros s. destruct s as [|a [|b [|d s]]]; intros i L; cbn [length] in L; try lia; cbn [find_crlfcrlf prefixb CRLFCRLF].
        - reflexivity.
        - rewrite andb_false_r. destruct (a =? 0); reflexivity.
        - rewrite !andb_false_r. destruct (a =? 0); [reflexivity|]. destruct (b =? 0); reflexivity. }
      rewrite G in H; [discriminate|lia].
    + destruct (c =? 0); [discriminate|]. apply IH; exact H.
Qed.

Lemma find_crlfcrlf_bound : forall s i k, find_crlfcrlf s i = Some k -> (i + 4 <= k <= i + length s)%nat.
Proof.
  induction s as [|c s IH]; intros i k H; [discriminate|].
  cbn [find_crlfcrlf] in H. destruct (prefixb CRLFCRLF (c :: s)) eqn:P.
  - injection H as <-. apply prefixb_length in P. cbn [CRLFCRLF length] in *. lia.
  - destruct (c =? 0); [discriminate|]. apply IH in H. cbn [length]. lia.
Qed.

Lemma skipn_app_le {A} (t : list A) : forall n s, (n <= length s)%nat -> skipn n (s ++ t) = skipn n s ++ t.
Proof. induction n as [|n IH]; intros s L; [reflexivity|]. destruct s as [|x s]; cbn [length] in L; [lia|]. cbn [skipn app]. apply IH; lia. Qed.
Lemma firstn_app_le {A} (t : list A) : forall n s, (n <= length s)%nat -> firstn n (s ++ t) = firstn n s.
Proof. induction n as [|n IH]; intros s L; [reflexivity|]. destruct s as [|x s]; cbn [length] in L; [lia|]. cbn [firstn app]. f_equal. apply IH; lia. Qed.

(* what "the same verdict, with the later bytes left over" means *)
Definition extends (t : list N) (v v' : chunk_res) : Prop :=
  match v with
  | ChInc => True
  | ChBad st => v' = ChBad st
  | ChDone body rest ka cut => exists rest' ka', v' = ChDone body rest' ka' cut /\ (ka = true -> ka' = true /\ rest' = rest ++ t)
  end.

Lemma dechunk_req_extends t maxf : forall f s acc, extends t (dechunk_req f maxf s acc) (dechunk_req f maxf (s ++ t) acc).
Proof.
  induction f as [|f IH]; intros s acc; [exact I|].
  cbn [dechunk_req].
  destruct (line_nonul s []) as [[line rest]|] eqn:EL.
  - rewrite (line_nonul_app t _ _ _ _ EL).
    destruct (span_hex line) as [ds after].
    destruct (hexacc ds 0) as [te|]; [|reflexivity].
    destruct (is_nil_b ds); [reflexivity|].
    destruct (negb (ends_crlf line)); [reflexivity|].
    match goal with |- extends _ (if ?c then _ else _) _ => destruct c end; [reflexivity|].
    destruct (CHUNK_LINE_MAX <=? N.of_nat (length line)); [reflexivity|].
    destruct (te =? 0) eqn:Ete.
    + destruct (prefixb CRLF rest) eqn:P.
      * rewrite (prefixb_app_l t _ _ P). cbn [extends]. do 2 eexists; split; [reflexivity|]. intros _. split; [reflexivity|].
        apply skipn_app_le. apply prefixb_length in P. exact P.
      * destruct (find_crlfcrlf (CRLF ++ rest) 0) as [k|] eqn:F.
        -- pose proof (find_crlfcrlf_bound _ _ _ F) as B. cbn [CRLF app length] in B.
           assert (L2 : (2 <= length rest)%nat).
           { destruct rest as [|a [|b r]]; cbn [length]; try lia.
             - cbn in F. discriminate.
             - exfalso. cbn [CRLF app find_crlfcrlf prefixb CRLFCRLF] in F. cbn in B. lia. }
           rewrite (prefixb_false_app t _ _ P) by exact L2.
           rewrite (app_assoc CRLF rest t). rewrite (find_crlfcrlf_app t _ _ _ F).
           cbn [extends]. do 2 eexists; split; [reflexivity|]. intros K. split; [exact K|]. apply skipn_app_le. lia.
        -- destruct (maxf <=? N.of_nat (length line + length rest)) eqn:M; [|exact I].
           cbn [extends].
           (* forced cut: keep-alive already cleared unless the flag is off; with more bytes the same or the found-terminator path *)
           assert (FL : trailer_cut_clears_keepalive = true) by reflexivity. rewrite FL. cbn [negb].
           destruct (prefixb CRLF (rest ++ t)); [do 2 eexists; split; [reflexivity|discriminate]|].
           destruct (find_crlfcrlf (CRLF ++ rest ++ t) 0); [do 2 eexists; split; [reflexivity|discriminate]|].
           assert (M' : (maxf <=? N.of_nat (length line + length (rest ++ t))) = true).
           { apply N.leb_le. apply N.leb_le in M. rewrite app_length. lia. }
           rewrite M'. do 2 eexists; split; [reflexivity|discriminate].
    + destruct (N.of_nat (length rest) <=? te) eqn:A; [exact I|].
      apply N.leb_gt in A.
      assert (A' : (N.of_nat (length (rest ++ t)) <=? te) = false). { apply N.leb_gt. rewrite app_length. lia. }
      rewrite A'.
      assert (Ln : (N.to_nat te <= length rest)%nat) by lia.
      rewrite (skipn_app_le t _ _ Ln), (firstn_app_le t _ _ Ln).
      set (r2 := skipn (N.to_nat te) rest).
      assert (R2 : (1 <= length r2)%nat). { unfold r2. rewrite skipn_length. lia. }
      destruct (prefixb CRLF r2) eqn:P.
      * rewrite (prefixb_app_l t _ _ P). rewrite skipn_app_le by (apply prefixb_length in P; exact P). apply IH.
      * destruct (list_eqb r2 [13]) eqn:E13; [exact I|].
        assert (P' : prefixb CRLF (r2 ++ t) = false).
        { destruct r2 as [|a [|b r]]; cbn [length] in R2; [lia| |].
          - cbn [list_eqb] in E13. rewrite andb_true_r in E13. cbn [app CRLF prefixb].
            rewrite N.eqb_sym, E13. reflexivity.
          - apply prefixb_false_app; [exact P| cbn [CRLF length]; lia]. }
        rewrite P'.
        assert (E' : list_eqb (r2 ++ t) [13] = false).
        { destruct r2 as [|a [|b r]]; cbn [length] in R2; [lia| |].
          - cbn [list_eqb] in E13. rewrite andb_true_r in E13. cbn [app list_eqb]. rewrite E13. reflexivity.
          - cbn [app list_eqb]. rewrite andb_false_r. reflexivity. }
        rewrite E'. reflexivity.
  - destruct (is_nil_b s) eqn:N0; [exact I|].
    destruct (CHUNK_LINE_MAX <=? N.of_nat (length s)) eqn:M; [|exact I].
    cbn [extends].
    pose proof (line_nonul_none_app t s [] EL) as Q.
    destruct (line_nonul (s ++ t) []) as [[line rest]|] eqn:EL'.
    + cbn [length] in Q. apply N.leb_le in M.
      destruct (span_hex line) as [ds after].
      destruct (hexacc ds 0) as [te|]; [|reflexivity].
      destruct (is_nil_b ds); [reflexivity|].
      destruct (negb (ends_crlf line)); [reflexivity|].
      match goal with |- (if ?c then _ else _) = _ => destruct c end; [reflexivity|].
      assert (M' : (CHUNK_LINE_MAX <=? N.of_nat (length line)) = true) by (apply N.leb_le; lia).
      rewrite M'. reflexivity.
    + assert (N1 : is_nil_b (s ++ t) = false) by (destruct s; [discriminate|reflexivity]). rewrite N1.
      assert (M' : (CHUNK_LINE_MAX <=? N.of_nat (length (s ++ t))) = true). { apply N.leb_le. apply N.leb_le in M. rewrite app_length. lia. }
      rewrite M'. reflexivity.
Qed.
