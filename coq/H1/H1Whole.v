(* whole-head consequences of h1_parse: the clauses of C01's rejected class that are decided after the field loop *)
From Coq Require Import List NArith ZArith Bool Lia.
From LV Require Import Base.Bytes Gen.GenBurl Gen.GenH1 Url.UrlModel H1.H1Model.
Import ListNotations.
Local Open Scope N_scope.

Ltac h1_cases H :=
  repeat match type of H with
  | match ?x with _ => _ end = _ => let E := fresh "E" in destruct x eqn:E; try discriminate
  | (if ?x then _ else _) = _ => let E := fresh "E" in destruct x eqn:E; try discriminate
  | (let '(_, _) := ?x in _) = _ => let E := fresh "E" in destruct x eqn:E; try discriminate
  end.

(* an accepted HTTP/1.1 request has a host (Host field or absolute-form target) *)
Theorem http11_without_host_is_rejected flags block o :
  h1_parse flags block = H1Ok o -> o_http11 o = true -> o_host o <> None.
Proof.
  unfold h1_parse. intro H. h1_cases H; inversion H; subst; cbn [o_http11 o_host]; intros Hv Hn; try discriminate;
    repeat match goal with E : context [match ?h with Some _ => _ | None => _ end] |- _ => rewrite Hn in E end; cbn in *; congruence.
Qed.

(* a GET or HEAD request that declares a body is accepted only where the configuration asks for it (method-get-body) *)
Theorem get_with_body_needs_the_option flags block o :
  h1_parse flags block = H1Ok o -> (o_rlen o <> 0)%Z -> (o_method o <= M_HEAD)%Z -> has_flag flags OPT_METHOD_GET_BODY = true.
Proof.
  unfold h1_parse. intro H. h1_cases H; inversion H; subst; cbn [o_rlen o_method]; intros Hr Hm; try congruence.
  all: try (match goal with E : (_ <=? M_HEAD)%Z && negb _ = false |- _ => apply andb_false_iff in E as [E|E] end).
  all: try (match goal with E : (_ <=? M_HEAD)%Z = false |- _ => apply Z.leb_gt in E; lia end).
  all: try (match goal with E : negb (has_flag _ _) = false |- _ => apply negb_false_iff in E; exact E end).
Qed.


Lemma parse_reqline_lenient_no_nul flags line whole rl :
  has_flag flags OPT_HEADER_STRICT = false -> parse_reqline flags line whole = RLOk rl -> existsb (N.eqb 0) whole = false.
Proof.
  intros Hs. unfold parse_reqline. rewrite Hs. intro H. h1_cases H. all: try assumption; try reflexivity.
Qed.

(* with header-strict off - the mode in which nothing else looks at control bytes - a NUL anywhere in the request line or the header
   section still refuses the request (this is the return statement fix d045690 restored) *)
Theorem nul_is_rejected_without_header_strict flags block o l1 hl :
  has_flag flags OPT_HEADER_STRICT = false ->
  head_lines (split_lines block []) = Some (l1 :: hl) ->
  h1_parse flags block = H1Ok o -> existsb (N.eqb 0) (concat (l1 :: hl)) = false.
Proof.
  intros Hs Hh. unfold h1_parse. rewrite Hh. destruct (parse_reqline flags l1 (concat (l1 :: hl))) as [st|rl] eqn:E; [discriminate|].
  intros _. eapply parse_reqline_lenient_no_nul; eassumption.
Qed.
