(* Proofs about the request-head model: the rejected class of C01 and the declared framing. *)
From LV Require Import Base.Bytes Gen.GenBurl Gen.GenH1 Url.UrlModel H1.H1Model.
Local Open Scope N_scope.

(* ---------- small facts about the state updates *)
Lemma seen_mark st id v x : seen st x = true -> seen (mark st id v) x = true.
Proof.
  intros H. unfold mark. destruct (id =? ID_OTHER); [exact H|].
  destruct (seen st id) eqn:E; unfold seen in *; simpl; [exact H|]. rewrite H. apply orb_true_r.
Qed.
Lemma seen_mark_self st id v : id <> ID_OTHER -> seen (mark st id v) id = true.
Proof.
  intros Hne. unfold mark. apply N.eqb_neq in Hne. rewrite Hne.
  destruct (seen st id) eqn:E; unfold seen in *; simpl; [exact E|]. rewrite N.eqb_refl. reflexivity.
Qed.
Lemma seen_set_ka st b x : seen (set_ka st b) x = seen st x. Proof. reflexivity. Qed.
Lemma seen_set_rlen st z x : seen (set_rlen st z) x = seen st x. Proof. reflexivity. Qed.
Lemma seen_set_host st h x : seen st x = true -> seen (set_host st h) x = true.
Proof. intros H. unfold set_host. destruct (seen st ID_HOST) eqn:E; unfold seen in *; simpl; [exact H|]. rewrite H. apply orb_true_r. Qed.
Lemma rlen_mark st id v : st_rlen (mark st id v) = st_rlen st.
Proof. unfold mark. destruct (id =? ID_OTHER); reflexivity. Qed.
Lemma http11_mark st id v : st_http11 (mark st id v) = st_http11 st.
Proof. unfold mark. destruct (id =? ID_OTHER); reflexivity. Qed.

Definition ids_distinct : Prop :=
  ID_CONTENT_LENGTH <> ID_OTHER /\ ID_CONTENT_LENGTH <> ID_HOST /\ ID_CONTENT_LENGTH <> ID_TRANSFER_ENCODING /\
  ID_CONTENT_LENGTH <> ID_CONNECTION /\ ID_CONTENT_LENGTH <> ID_IF_MODIFIED_SINCE /\ ID_CONTENT_LENGTH <> ID_IF_NONE_MATCH /\
  ID_CONTENT_LENGTH <> ID_CONTENT_TYPE /\ ID_CONTENT_LENGTH <> ID_HTTP2_SETTINGS /\
  ID_TRANSFER_ENCODING <> ID_HOST /\ ID_TRANSFER_ENCODING <> ID_CONNECTION /\ ID_TRANSFER_ENCODING <> ID_IF_MODIFIED_SINCE /\
  ID_TRANSFER_ENCODING <> ID_IF_NONE_MATCH /\ ID_TRANSFER_ENCODING <> ID_CONTENT_TYPE /\ ID_TRANSFER_ENCODING <> ID_HTTP2_SETTINGS.
(* pinned against the regenerated enum values *)
Lemma ids_distinct_holds : ids_distinct.
Proof. unfold ids_distinct. repeat split; vm_compute; discriminate. Qed.

Ltac neqb H := apply N.eqb_neq in H.

(* seen is monotone along a step *)
Lemma field_step_seen st f st' x : field_step st f = Go st' -> seen st x = true -> seen st' x = true.
Proof.
  destruct f as [id v]. unfold field_step. destruct v as [|c v']; [destruct (id =? ID_CONTENT_LENGTH); [discriminate|intros H; inversion H; subst; auto]|].
  unfold single_header. set (vv := c :: v').
  destruct (id =? ID_HOST).
  { destruct (negb (seen st ID_HOST)).
    - destruct (1024 <=? _); [discriminate|]. intros H; inversion H; subst. apply seen_set_host.
    - destruct (match st_host st with Some h => list_eqb h vv | None => false end); [intros H; inversion H; auto|].
      unfold dup_check. destruct (stored _ _) as [vb|]; [destruct (eq_icase vb vv)|]; try (intros H; inversion H; subst; auto; fail);
      destruct (id =? ID_IF_NONE_MATCH); intros H; inversion H; subst; auto. }
  destruct ((id =? ID_IF_MODIFIED_SINCE) || (id =? ID_IF_NONE_MATCH) || (id =? ID_CONTENT_TYPE) || (id =? ID_HTTP2_SETTINGS)).
  { destruct (seen st id).
    - unfold dup_check. destruct (stored _ _) as [vb|]; [destruct (eq_icase vb vv)|]; try (intros H; inversion H; subst; auto; fail);
      destruct (id =? ID_IF_NONE_MATCH); intros H; inversion H; subst; auto.
    - intros H; inversion H; subst. apply seen_mark. }
  destruct (id =? ID_CONNECTION).
  { match goal with |- Go (mark ?s _ _) = _ -> _ => set (st1 := s) end.
    intros H. injection H as <-. intros Hs. apply seen_mark. subst st1.
    destruct (eq_icase vv s_close || contains_token _ vv s_close); [exact Hs|]. destruct (contains_token _ vv s_keepalive); exact Hs. }
  destruct (id =? ID_CONTENT_LENGTH).
  { destruct (negb (seen st ID_CONTENT_LENGTH)); [|discriminate]. destruct (strtoint64 vv 0); [|discriminate].
    intros H. injection H as <-. intros Hs. apply seen_mark. destruct (st_rlen st =? 0)%Z; exact Hs. }
  destruct (id =? ID_TRANSFER_ENCODING).
  { destruct (negb (st_http11 st)); [discriminate|]. destruct (negb (eq_icase vv s_chunked) || (st_rlen st =? -1)%Z); [discriminate|].
    intros H; inversion H; subst. auto. }
  intros H; inversion H; subst. apply seen_mark.
Qed.

(* ---------- Content-Length *)
Lemma cl_step st v st' :
  field_step st (ID_CONTENT_LENGTH, v) = Go st' ->
  seen st ID_CONTENT_LENGTH = false /\ seen st' ID_CONTENT_LENGTH = true /\
  exists n, strtoint64 v 0 = Some n /\ v <> [].
Proof.
  destruct ids_distinct_holds as (D0 & D1 & D2 & D3 & D4 & D5 & D6 & D7 & _).
  unfold field_step. destruct v as [|c v']; [rewrite N.eqb_refl; discriminate|].
  unfold single_header. set (vv := c :: v').
  neqb D1. rewrite D1. neqb D4. neqb D5. neqb D6. neqb D7. rewrite D4, D5, D6, D7. simpl orb. cbv iota.
  neqb D3. rewrite D3. rewrite N.eqb_refl.
  destruct (seen st ID_CONTENT_LENGTH) eqn:Es; simpl negb; cbv iota; [discriminate|].
  destruct (strtoint64 vv 0) as [n|] eqn:En; [|discriminate].
  intros H; inversion H; subst. split; [reflexivity|]. split.
  - apply seen_mark_self. exact D0.
  - exists n. split; [reflexivity|discriminate].
Qed.

Lemma strtoint64_digits v : forall rv n, strtoint64 v rv = Some n -> forallb is_digit v = true.
Proof.
  induction v as [|c t IH]; intros rv n; cbn [strtoint64 forallb]; [reflexivity|].
  destruct (is_digit c); [|discriminate]. destruct (rv >? INT64_MAX / 10)%Z; [discriminate|].
  destruct (rv * 10 >? INT64_MAX - Z.of_N (c - 48))%Z; [discriminate|]. intros H. cbn [andb]. eapply IH. exact H.
Qed.

(* the accumulated value never exceeds INT64_MAX once at least one digit was consumed, and equals
   the decimal value of the digits *)
Lemma strtoint64_value v : forall rv n, (0 <= rv <= INT64_MAX)%Z -> strtoint64 v rv = Some n ->
  n = dec_val_acc rv v /\ (0 <= n <= INT64_MAX)%Z.
Proof.
  induction v as [|c t IH]; intros rv n Hrv; cbn [strtoint64 dec_val_acc].
  - intros H; inversion H; subst. split; [reflexivity|lia].
  - destruct (is_digit c) eqn:Ed; [|discriminate]. destruct (rv >? INT64_MAX / 10)%Z eqn:E1; [discriminate|].
    destruct (rv * 10 >? INT64_MAX - Z.of_N (c - 48))%Z eqn:E2; [discriminate|].
    intros H. apply IH in H; [exact H|].
    rewrite Z.gtb_ltb in E1, E2. apply Z.ltb_ge in E1, E2. unfold INT64_MAX in *.
    pose proof (N2Z.is_nonneg (c - 48)). lia.
Qed.

(* two Content-Length fields can never both be taken *)
Lemma fold_seen st fs st' x : fold_fields st fs = Go st' -> seen st x = true -> seen st' x = true.
Proof.
  revert st. induction fs as [|f t IH]; intros st; simpl; [intros H; inversion H; auto|].
  destruct (field_step st f) as [s r|st1] eqn:Ef; [discriminate|].
  intros H Hs. eapply IH; [exact H|]. eapply field_step_seen; eassumption.
Qed.

Lemma fold_app st a b : fold_fields st (a ++ b) =
  match fold_fields st a with Go st1 => fold_fields st1 b | r => r end.
Proof.
  revert st. induction a as [|f t IH]; intros st; simpl; [reflexivity|].
  destruct (field_step st f); [reflexivity|apply IH].
Qed.

Theorem dup_content_length_rejected st pre v1 mid v2 post :
  forall st', fold_fields st (pre ++ (ID_CONTENT_LENGTH, v1) :: mid ++ (ID_CONTENT_LENGTH, v2) :: post) <> Go st'.
Proof.
  intros st' H. rewrite fold_app in H.
  destruct (fold_fields st pre) as [s0 r0|st1]; [discriminate H|]. cbn [fold_fields] in H.
  destruct (field_step st1 (ID_CONTENT_LENGTH, v1)) as [s0 r0|st2] eqn:E1; [discriminate H|].
  apply cl_step in E1 as (_ & Hs2 & _).
  rewrite fold_app in H. destruct (fold_fields st2 mid) as [s0 r0|st3] eqn:E3; [discriminate H|].
  pose proof (fold_seen _ _ _ _ E3 Hs2) as Hs3. cbn [fold_fields] in H.
  destruct (field_step st3 (ID_CONTENT_LENGTH, v2)) as [s0 r0|st4] eqn:E4; [discriminate H|].
  apply cl_step in E4 as (Hn & _). congruence.
Qed.

Theorem bad_content_length_rejected st v st' :
  field_step st (ID_CONTENT_LENGTH, v) = Go st' ->
  v <> [] /\ forallb is_digit v = true /\ (0 <= dec_val v <= INT64_MAX)%Z.
Proof.
  intros H. apply cl_step in H as (_ & _ & n & Hn & Hv). split; [exact Hv|].
  split; [eapply strtoint64_digits; exact Hn|].
  apply strtoint64_value in Hn; [|unfold INT64_MAX; lia]. destruct Hn as [-> Hr]. exact Hr.
Qed.

(* ---------- Transfer-Encoding *)
Theorem te_step st v st' :
  field_step st (ID_TRANSFER_ENCODING, v) = Go st' ->
  v = [] /\ st' = st \/ (st_http11 st = true /\ eq_icase v s_chunked = true /\ st_rlen st <> (-1)%Z /\ st_rlen st' = (-1)%Z).
Proof.
  destruct ids_distinct_holds as (_ & _ & D2 & _ & _ & _ & _ & _ & T1 & T2 & T3 & T4 & T5 & T6).
  unfold field_step. destruct v as [|c v'].
  - apply not_eq_sym in D2. neqb D2. rewrite D2. intros H; inversion H. left. split; reflexivity.
  - unfold single_header. set (vv := c :: v'). neqb T1. rewrite T1. neqb T3. neqb T4. neqb T5. neqb T6.
    rewrite T3, T4, T5, T6. simpl orb. cbv iota. neqb T2. rewrite T2.
    apply not_eq_sym in D2. neqb D2. rewrite D2. rewrite N.eqb_refl.
    destruct (st_http11 st); simpl negb; cbv iota; [|discriminate].
    destruct (eq_icase vv s_chunked) eqn:Ec; simpl negb; cbv iota; [|discriminate].
    cbn [orb]. destruct (st_rlen st =? -1)%Z eqn:Er; [discriminate|]. apply Z.eqb_neq in Er.
    intros H; inversion H; subst. right. repeat split. exact Er.
Qed.
