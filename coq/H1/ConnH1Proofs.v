(* Framing theorems for the connection-level model (H1/ConnH1.v). *)
From Coq Require Import List NArith ZArith Bool Arith Lia.
From LV Require Import Base.Bytes Gen.GenBurl Gen.GenH1 Gen.GenSafe Url.UrlModel H1.H1Model Resp.RespModel Resp.RespProofs H1.ConnH1.
Import ListNotations.
Local Open Scope N_scope.

(* ---------------------------------------------------------------- the header block is found where it ends, whatever follows *)
Lemma blank_line_ends_lf l : is_blank_line l = true -> l = [10] \/ l = [13; 10].
Proof.
  unfold is_blank_line. destruct l as [|a [|b [|c l]]]; try discriminate.
  - destruct (a =? 10) eqn:E; [apply N.eqb_eq in E; subst; auto|].
    destruct a as [|p]; [discriminate|]. do 4 (destruct p as [p|p|]; try discriminate).
  - destruct a as [|p]; [discriminate|]. do 4 (destruct p as [p|p|]; try discriminate).
    destruct b as [|q]; [discriminate|]. do 4 (destruct q as [q|q|]; try discriminate). auto.
  - destruct a as [|p]; [discriminate|]. do 4 (destruct p as [p|p|]; try discriminate).
    destruct b as [|q]; [discriminate|]. do 4 (destruct q as [q|q|]; try discriminate).
Qed.

Lemma partial_line_not_blank cur : Forall (fun c => c <> 10) cur -> cur <> [] -> is_blank_line (rev cur) = false.
Proof.
  intros H Hne. destruct (is_blank_line (rev cur)) eqn:E; [|reflexivity]. exfalso.
  apply blank_line_ends_lf in E. rewrite Forall_forall in H.
  destruct E as [E|E]; apply (f_equal (@rev N)) in E; rewrite rev_involutive in E; cbn in E; subst cur; apply (H 10); cbn; auto.
Qed.

Lemma head_extent_prefix : forall h cur b l tail r,
  Forall (fun c => c <> 10) cur ->
  head_extent (split_lines h cur) b l = Some r -> head_extent (split_lines (h ++ tail) cur) b l = Some r.
Proof.
  induction h as [|c h IH]; intros cur b l tail r Hcur H.
  - exfalso. cbn [split_lines] in H. destruct cur as [|x cur']; [discriminate|]. cbn [head_extent] in H.
    rewrite (partial_line_not_blank (x :: cur') Hcur) in H by discriminate. discriminate.
  - cbn [app split_lines] in *. destruct (c =? 10) eqn:E.
    + cbn [head_extent] in *. destruct (is_blank_line (rev (c :: cur))); [exact H|]. apply IH; [constructor|exact H].
    + apply IH; [|exact H]. constructor; [apply N.eqb_neq; exact E|exact Hcur].
Qed.

(* ---------------------------------------------------------------- chunk-size lines written by a well-behaved sender are read back *)
Lemma hexlc_not_ctl d : d < 16 -> hexlc d <> 0 /\ hexlc d <> 10.
Proof. intro H. unfold hexlc. destruct (d <? 10); lia. Qed.

Lemma line_nonul_digits ds : Forall (fun d => d < 16) ds -> forall acc rest,
  line_nonul (map hexlc ds ++ 13 :: 10 :: rest) acc = Some (rev acc ++ map hexlc ds ++ [13; 10], rest).
Proof.
  induction 1 as [|d ds Hd _ IH]; intros acc rest; cbn [map app line_nonul].
  - change (13 =? 0) with false. change (13 =? 10) with false. cbn [line_nonul]. change (10 =? 0) with false. change (10 =? 10) with true.
    cbn [rev]. rewrite <- !app_assoc. reflexivity.
  - destruct (hexlc_not_ctl d Hd) as [H0 H10]. apply N.eqb_neq in H0, H10. rewrite H0, H10. rewrite IH. cbn [rev]. rewrite <- app_assoc. reflexivity.
Qed.

Lemma digs_length f : forall n, (length (digs f n) <= f)%nat.
Proof. induction f as [|f IH]; intro n; cbn [digs]; [cbn; lia|]. destruct (n <? 16); [cbn; lia|]. rewrite app_length. cbn [length]. specialize (IH (n / 16)). lia. Qed.

Lemma hexacc_app l d : forall a, hexacc (l ++ [d]) a = match hexacc l a with None => None | Some v => if CHUNK_MAX <? v then None else Some (v * 16 + d) end.
Proof. induction l as [|x l IH]; intro a; cbn [app hexacc]; [reflexivity|]. destruct (CHUNK_MAX <? a); [reflexivity|]. apply IH. Qed.

Lemma hexacc_digs f : forall n, n < 16 ^ N.of_nat f -> n <= CHUNK_MAX -> hexacc (digs f n) 0 = Some n.
Proof.
  induction f as [|f IH]; intros n Hlt Hle.
  - cbn in Hlt. assert (n = 0) by lia. subst n. reflexivity.
  - cbn [digs]. destruct (n <? 16) eqn:E.
    + cbn [hexacc]. change (CHUNK_MAX <? 0) with false. cbn. reflexivity.
    + apply N.ltb_ge in E. rewrite hexacc_app. rewrite IH.
      * assert (Hd : n / 16 <= CHUNK_MAX) by (pose proof (N.div_le_upper_bound n 16 n); apply N.le_trans with n; [apply N.div_le_upper_bound; lia|exact Hle]).
        apply N.ltb_ge in Hd. rewrite Hd. f_equal. pose proof (N.div_mod n 16). lia.
      * rewrite Nat2N.inj_succ, N.pow_succ_r' in Hlt. apply N.div_lt_upper_bound; lia.
      * apply N.le_trans with n; [apply N.div_le_upper_bound; lia|exact Hle].
Qed.

Lemma ends_crlf_snoc l : ends_crlf (l ++ [13; 10]) = true.
Proof. unfold ends_crlf. rewrite rev_app_distr. reflexivity. Qed.

Definition sendable (b : list N) : Prop := b <> [] /\ N.of_nat (length b) < 16 ^ 16 /\ N.of_nat (length b) <= CHUNK_MAX.

(* one chunk written as  hexmin(len) CRLF data CRLF  is consumed as exactly that data *)
Lemma dechunk_req_one f maxf b more acc :
  sendable b ->
  dechunk_req (S f) maxf (chunk_with hexmin b ++ more) acc = dechunk_req f maxf more (rev b ++ acc).
Proof.
  intros (Hne & Hsmall & Hmax). unfold chunk_with. destruct b as [|b0 b']; [contradiction|]. set (b := b0 :: b') in *.
  set (n := N.of_nat (length b)) in *.
  cbn [dechunk_req]. unfold hexmin, CR, LF. rewrite <- !app_assoc. cbn [app].
  rewrite (line_nonul_digits (digs 16 n) (digs_lt16 16 n) [] (b ++ 13 :: 10 :: more)). cbn [rev app].
  rewrite (span_hex_digits (digs 16 n) [13; 10] (digs_lt16 16 n) eq_refl).
  rewrite (hexacc_digs 16 n Hsmall Hmax).
  assert (Hds : is_nil_b (digs 16 n) = false) by (pose proof (digs_nonempty 15 n); destruct (digs 16 n); [contradiction|reflexivity]). rewrite Hds.
  rewrite ends_crlf_snoc. cbn [negb]. change (list_eqb [13; 10] [13; 10]) with true. cbn [negb andb].
  assert (Hlen : (CHUNK_LINE_MAX <=? N.of_nat (length (map hexlc (digs 16 n) ++ [13; 10]))) = false).
  { apply N.leb_gt. change CHUNK_LINE_MAX with 1024. rewrite app_length, map_length. pose proof (digs_length 16 n). cbn [length]. lia. }
  rewrite Hlen.
  assert (Hn0 : (n =? 0) = false) by (apply N.eqb_neq; subst n b; cbn [length]; lia). rewrite Hn0.
  assert (Hav : (N.of_nat (length (b ++ 13 :: 10 :: more)) <=? n) = false) by (apply N.leb_gt; rewrite app_length; subst n; cbn [length]; lia). rewrite Hav.
  subst n. rewrite Nat2N.id. rewrite firstn_app, firstn_all, Nat.sub_diag. cbn [firstn]. rewrite app_nil_r.
  rewrite skipn_app, skipn_all, Nat.sub_diag. cbn [skipn app]. change (prefixb CRLF (13 :: 10 :: more)) with true. cbn [skipn]. reflexivity.
Qed.

Theorem dechunk_req_roundtrip maxf blocks : forall f rest acc,
  Forall sendable blocks -> (length blocks < f)%nat ->
  dechunk_req f maxf (concat (map (chunk_with hexmin) blocks) ++ last_chunk ++ rest) acc = ChDone (rev acc ++ concat blocks) rest true false.
Proof.
  induction blocks as [|b blocks IH]; intros f rest acc Hs Hf.
  - destruct f as [|f]; [cbn in Hf; lia|]. cbn [map concat app]. unfold last_chunk. cbn [app].
    cbn [dechunk_req line_nonul]. vm_compute (48 =? 0). vm_compute (48 =? 10). cbn [line_nonul]. vm_compute (CR =? 0). vm_compute (CR =? 10).
    cbn [line_nonul]. vm_compute (LF =? 0). vm_compute (LF =? 10). cbn [rev app].
    change (span_hex [48; CR; LF]) with ([0], [CR; LF]). cbn [hexacc]. vm_compute (CHUNK_MAX <? 0). cbn [is_nil_b].
    vm_compute (ends_crlf [48; CR; LF]). cbn [negb]. vm_compute (list_eqb [CR; LF] [13; 10]). cbn [negb andb].
    vm_compute (CHUNK_LINE_MAX <=? N.of_nat (length [48; CR; LF])). vm_compute (0 * 16 + 0 =? 0). vm_compute (prefixb CRLF (CR :: LF :: rest)). cbn [skipn].
    rewrite app_nil_r. reflexivity.
  - destruct f as [|f]; [cbn in Hf; lia|]. inversion Hs as [|? ? Hb Hbs]; subst. cbn [map concat]. rewrite <- app_assoc.
    rewrite dechunk_req_one by exact Hb. rewrite IH; [|exact Hbs|cbn in Hf; lia]. rewrite rev_app_distr, rev_involutive, <- app_assoc. reflexivity.
Qed.

(* ---------------------------------------------------------------- one accepted message consumes exactly its own bytes *)
Inductive encodes (o : h1_ok) : list N -> list N -> Prop :=
  | enc_none : (o_rlen o = 0)%Z -> encodes o [] []
  | enc_len body : (0 < o_rlen o)%Z -> Z.of_nat (length body) = o_rlen o -> encodes o body body
  | enc_chunked blocks : (o_rlen o = -1)%Z -> Forall sendable blocks ->
      encodes o (concat (map (chunk_with hexmin) blocks) ++ last_chunk) (concat blocks).

Theorem accepted_message_consumes_exactly_its_bytes flags maxf first h nl o enc body rest f :
  head_extent (split_lines h []) O O = Some (length h, S nl) ->
  N.of_nat (length h) <= maxf ->
  h1_parse flags h = H1Ok o ->
  encodes o enc body ->
  conn (S f) flags maxf first (h ++ enc ++ rest)
  = EvAccept (o_method o) (o_target_orig o) body (o_ka o) false :: (if o_ka o then conn f flags maxf false rest else []).
Proof.
  intros Hext Hmax Hparse Henc.
  assert (Hne : h <> []) by (intro E; subst h; cbn in Hext; discriminate).
  destruct h as [|c0 h']; [contradiction|]. set (h := c0 :: h') in *.
  cbn [conn]. change ((c0 :: h') ++ enc ++ rest) with (h ++ enc ++ rest).
  assert (Hs : exists t, h ++ enc ++ rest = c0 :: t) by (exists (h' ++ enc ++ rest); reflexivity). destruct Hs as [t Ht]. rewrite Ht. rewrite <- Ht.
  rewrite (head_extent_prefix h [] O O (enc ++ rest) _ (Forall_nil _) Hext).
  apply N.ltb_ge in Hmax. rewrite Hmax. cbn [Nat.eqb].
  rewrite firstn_app, firstn_all, Nat.sub_diag. cbn [firstn]. rewrite app_nil_r. rewrite Hparse.
  rewrite skipn_app, skipn_all, Nat.sub_diag. cbn [skipn app].
  destruct Henc as [H0|bd Hpos Hlen|blocks Hm1 Hbl].
  - rewrite H0. cbn [app]. reflexivity.
  - assert (E0 : (o_rlen o =? 0)%Z = false) by (apply Z.eqb_neq; lia). rewrite E0.
    assert (E1 : (0 <? o_rlen o)%Z = true) by (apply Z.ltb_lt; exact Hpos). rewrite E1.
    assert (En : Z.to_N (o_rlen o) = N.of_nat (length bd)) by (rewrite <- Hlen; lia). rewrite En.
    assert (E2 : (N.of_nat (length (bd ++ rest)) <? N.of_nat (length bd)) = false) by (apply N.ltb_ge; rewrite app_length; lia). rewrite E2.
    rewrite Nat2N.id. rewrite firstn_app, firstn_all, Nat.sub_diag. cbn [firstn]. rewrite app_nil_r.
    rewrite skipn_app, skipn_all, Nat.sub_diag. cbn [skipn app]. reflexivity.
  - rewrite Hm1. cbn [Z.eqb Z.ltb Z.compare]. rewrite <- app_assoc.
    rewrite (dechunk_req_roundtrip maxf blocks _ rest [] Hbl).
    + cbn [rev app]. rewrite andb_true_r. reflexivity.
    + rewrite !app_length. assert (forall (l : list (list N)), Forall sendable l -> (length l <= length (concat (map (chunk_with hexmin) l)))%nat) as Hcount.
      { induction 1 as [|x l Hx _ IHl]; [cbn; lia|]. cbn [map concat length]. rewrite app_length. destruct Hx as (Hx & _).
        assert (1 <= length (chunk_with hexmin x))%nat by (destruct x; [contradiction|]; unfold chunk_with; rewrite !app_length; cbn [length]; lia). lia. }
      specialize (Hcount blocks Hbl). unfold last_chunk. cbn [length]. lia.
Qed.

(* ---------------------------------------------------------------- nothing follows a refusal, an unfinished message or a message without keep-alive *)
Definition ends_connection (e : ev) : bool :=
  match e with EvAccept _ _ _ ka _ => negb ka | _ => true end.

Fixpoint only_last_ends (l : list ev) : Prop :=
  match l with
  | [] => True
  | e :: t => (t <> [] -> ends_connection e = false) /\ only_last_ends t
  end.

Theorem refusal_or_close_is_final : forall fuel flags maxf first s, only_last_ends (conn fuel flags maxf first s).
Proof.
  induction fuel as [|f IH]; intros flags maxf first s; [exact I|]. cbn [conn].
  destruct s as [|c0 s']; [exact I|]. set (s := c0 :: s').
  assert (Single : forall e, only_last_ends [e]) by (intro e; cbn; split; [intro C; contradiction|exact I]).
  assert (Cons : forall m t b k c l, only_last_ends l -> only_last_ends (EvAccept m t b k c :: (if k then l else []))).
  { intros m t b k c l Hl. destruct k; [|apply Single]. cbn. split; [intros _; reflexivity|exact Hl]. }
  destruct (head_extent (split_lines s []) 0 0) as [[hlen nl]|].
  - destruct (maxf <? N.of_nat hlen); [apply Single|].
    destruct (Nat.eqb nl 0).
    + destruct first; [apply Single|]. destruct (skipn hlen s) as [|c1 r]; [exact I|]. destruct ((c1 =? 13) || (c1 =? 10)); [apply Single|apply IH].
    + destruct (h1_parse flags (firstn hlen s)) as [st|o| | |]; try apply Single.
      destruct (o_rlen o =? 0)%Z; [apply Cons, IH|].
      destruct (0 <? o_rlen o)%Z.
      * destruct (N.of_nat (length (skipn hlen s)) <? Z.to_N (o_rlen o)); [apply Single|apply Cons, IH].
      * destruct (dechunk_req (S (length (skipn hlen s))) maxf (skipn hlen s) []) as [bd r k c|st|]; try apply Single. apply Cons, IH.
  - destruct (maxf <? N.of_nat (length s)); [apply Single|]. destruct (lone_cr_after_request_waits && negb first && list_eqb s [13]); [apply Single|]. destruct (c0 <? FIRST_BYTE_MIN); apply Single.
Qed.

(* ---------------------------------------------------------------- a trailer section beyond the field-size limit ends the connection,
   whether its end is in sight or not (both decisions are read from the source: Gen/GenH1.v) *)
Theorem overlong_trailers_end_the_connection maxf line rest acc body rest' ka cut :
  line_nonul (line ++ rest) [] = Some (line, rest) -> span_hex line = ([0], [13; 10]) ->
  prefixb CRLF rest = false ->
  maxf < N.of_nat (length line + length rest) ->
  (forall k, find_crlfcrlf (CRLF ++ rest) O = Some k -> maxf < N.of_nat (length line + k - 2)) ->
  dechunk_req 1 maxf (line ++ rest) acc = ChDone body rest' ka cut -> ka = false.
Proof.
  intros Hl Hs Hp Hlen Hfar. cbn [dechunk_req]. rewrite Hl, Hs. cbn [hexacc]. vm_compute (CHUNK_MAX <? 0). cbn [is_nil_b].
  destruct (negb (ends_crlf line)); [discriminate|]. change (list_eqb [13; 10] [13; 10]) with true. cbn [negb andb].
  destruct (CHUNK_LINE_MAX <=? N.of_nat (length line)); [discriminate|]. vm_compute (0 * 16 + 0 =? 0). rewrite Hp.
  destruct (find_crlfcrlf (CRLF ++ rest) 0) as [k|] eqn:Ef.
  - specialize (Hfar k eq_refl). apply N.ltb_lt in Hfar. rewrite Hfar. intro H. inversion H. reflexivity.
  - assert (E : (maxf <=? N.of_nat (length line + length rest)) = true) by (apply N.leb_le; lia). rewrite E. intro H. inversion H. reflexivity.
Qed.

(* ---------------------------------------------------------------- the classes of chunk framing the reader refuses *)
Example chunk_framing_refused :
  dechunk_req 9 8192 [51;10;97;98;99;13;10;48;13;10;13;10] [] = ChBad 400                      (* "3\nabc..." bare LF *)
  /\ dechunk_req 9 8192 [51;13;120;13;10;97;98;99;13;10;48;13;10;13;10] [] = ChBad 400          (* "3\rx\r\n" bare CR *)
  /\ dechunk_req 9 8192 [51;59;97;13;98;13;10;97;98;99;13;10;48;13;10;13;10] [] = ChBad 400     (* "3;a\rb\r\n" CR inside the extension *)
  /\ dechunk_req 9 8192 [51;13;10;97;98;99;100;13;10;48;13;10;13;10] [] = ChBad 400             (* data not followed by CRLF *)
  /\ dechunk_req 9 8192 [13;10;97;98;99;13;10] [] = ChBad 400                                    (* no size *)
  /\ dechunk_req 9 8192 [51;59;120;61;121;13;10;97;98;99;13;10;48;13;10;84;58;49;13;10;13;10;71] [] = ChDone [97;98;99] [71] true false.
Proof. vm_compute. repeat split; reflexivity. Qed.
