(* HTTP/1.x connection framing: what lighttpd makes of the byte stream of one connection.
   Hand-written executable model of
     h1_recv_headers()   (header block extent, 431 limit, blank-line and first-byte rules)       src/h1.c
     h1_chunked(), h1_chunked_crlf()   (chunked request body reader incl. trailers and limits)   src/h1.c
     h1_reqbody_read()   (Content-Length bodies)                                                  src/h1.c
   on top of h1_parse (H1/H1Model.v, the request head).  The model is a function of the complete byte stream the client
   eventually sends; the implementation sees it in TCP segments, and the correspondence (props/C01.py, real server, random
   segmentation) checks that the outcome is the same. *)
From Coq Require Import List NArith ZArith Bool.
From LV Require Import Base.Bytes Gen.GenBurl Gen.GenH1 Gen.GenSafe Url.UrlModel H1.H1Model Resp.RespModel.
Import ListNotations.
Local Open Scope N_scope.

(* ---------------------------------------------------------------- header block extent *)
Fixpoint head_extent (ls : list (list N)) (bytes lines : nat) : option (nat * nat) :=
  match ls with
  | [] => None
  | l :: t => if is_blank_line l then Some ((bytes + length l)%nat, lines) else head_extent t (bytes + length l)%nat (S lines)
  end.

(* ---------------------------------------------------------------- chunked request body *)
Inductive chunk_res :=
  | ChDone (body rest : list N) (ka_ok cut_possible : bool)
      (* ka_ok = false: trailers exceeded the field-size limit, message cut short, keep-alive cleared;
         cut_possible: the terminator lies beyond the limit, so a slower arrival would have taken the ka_ok = false path *)
  | ChBad (status : N)
  | ChInc.

(* strchr(buf, '\n') on the NUL-terminated buffer: the line up to and including the first LF, provided no NUL comes first *)
Fixpoint line_nonul (s : list N) (acc_rev : list N) : option (list N * list N) :=
  match s with
  | [] => None
  | c :: t => if c =? 0 then None else if c =? 10 then Some (rev (c :: acc_rev), t) else line_nonul t (c :: acc_rev)
  end.

Definition CHUNK_MAX : N := Z.to_N chunk_guard_client.          (* (off_t)(1uLL<<(8*sizeof(off_t)-5))-1-2, re-read from h1.c (Gen/GenSafe.v) *)
Fixpoint hexacc (ds : list N) (acc : N) : option N :=
  match ds with [] => Some acc | d :: t => if CHUNK_MAX <? acc then None else hexacc t (acc * 16 + d) end.

Fixpoint memb13 (l : list N) : bool := match l with [] => false | c :: t => (c =? 13) || memb13 t end.
Fixpoint skip_bws (s : list N) : list N := match s with c :: t => if (c =? 32) || (c =? 9) then skip_bws t else s | [] => [] end.

(* strstr(buf, "\r\n\r\n") on the NUL-terminated buffer: number of bytes up to and including the match *)
Definition CRLF : list N := [13; 10].
Definition CRLFCRLF : list N := [13; 10; 13; 10].
Fixpoint find_crlfcrlf (s : list N) (i : nat) : option nat :=
  match s with
  | c :: t => if prefixb CRLFCRLF s then Some (i + 4)%nat else if c =? 0 then None else find_crlfcrlf t (S i)
  | [] => None
  end.

Definition ends_crlf (l : list N) : bool := match rev l with a :: b :: _ => (a =? 10) && (b =? 13) | _ => false end.
Definition is_nil_b (l : list N) : bool := match l with [] => true | _ => false end.

Fixpoint dechunk_req (fuel : nat) (maxf : N) (s acc_rev : list N) : chunk_res :=
  match fuel with O => ChInc | S f =>
  match line_nonul s [] with
  | None => if is_nil_b s then ChInc else if CHUNK_LINE_MAX <=? N.of_nat (length s) then ChBad 400 else ChInc
  | Some (line, rest) =>
      let '(ds, after) := span_hex line in
      match hexacc ds 0 with
      | None => ChBad 400
      | Some te =>
          if is_nil_b ds then ChBad 400
          else if negb (ends_crlf line) then ChBad 400
          else if negb (list_eqb after [13; 10])
                  && negb (let a := skip_bws after in
                           list_eqb a [13; 10] || (match a with c :: _ => c =? 59 | [] => false end && negb (memb13 (removelast (removelast a))))) then ChBad 400
          else if CHUNK_LINE_MAX <=? N.of_nat (length line) then ChBad 400
          else if te =? 0 then
            if prefixb CRLF rest then ChDone (rev acc_rev) (skipn 2 rest) true false
            else
                match find_crlfcrlf (CRLF ++ rest) O with
                | Some k => ChDone (rev acc_rev) (skipn (k - 2) rest) (negb (trailer_found_over_limit_clears_keepalive && (maxf <? N.of_nat (length line + k - 2)))) false
                | None => if maxf <=? N.of_nat (length line + length rest) then ChDone (rev acc_rev) [] (negb trailer_cut_clears_keepalive) false else ChInc
                end
          else
            let avail := N.of_nat (length rest) in
            if avail <=? te then ChInc
            else let n := N.to_nat te in
                 let data := firstn n rest in let r2 := skipn n rest in
                 if prefixb CRLF r2 then dechunk_req f maxf (skipn 2 r2) (rev data ++ acc_rev)
                 else if list_eqb r2 [13] then ChInc
                 else ChBad 400
      end
  end end.

(* ---------------------------------------------------------------- one connection *)
Inductive ev :=
  | EvAccept (method : Z) (target body : list N) (ka cut_possible : bool)
  | EvReject (status alt : N)   (* alt: the status when the first bytes arrive before the header block is complete (first byte < 32: 400) *)
  | EvIncomplete          (* the stream ends inside a message: no response, the server waits (and eventually times out) *)
  | EvOracle.             (* Host is an IP literal: not modelled *)

Fixpoint conn (fuel : nat) (flags maxf : N) (first : bool) (s : list N) : list ev :=
  match fuel with O => [] | S f =>
  match s with
  | [] => []
  | c0 :: _ =>
      match head_extent (split_lines s []) O O with
      | None => if maxf <? N.of_nat (length s) then [EvReject 431 431]
                else if lone_cr_after_request_waits && negb first && list_eqb s [13] then [EvIncomplete]       (* first half of the blank line after the previous request *)
                else if c0 <? FIRST_BYTE_MIN then [EvReject 400 400] else [EvIncomplete]
      | Some (hlen, nlines) =>
          if maxf <? N.of_nat hlen then [EvReject 431 431]
          else if Nat.eqb nlines O then
            (* a blank line where a request line is expected *)
            if first then [EvReject 400 400]
            else match skipn hlen s with
                 | [] => []
                 | c1 :: _ => if (c1 =? 13) || (c1 =? 10) then [EvReject 400 400] else conn f flags maxf true (skipn hlen s)
                 end
          else
            match h1_parse flags (firstn hlen s) with
            | H1Rej st => [EvReject st (if c0 <? FIRST_BYTE_MIN then 400 else st)]
            | H1Oracle => [EvOracle]
            | H1Inc | H1Blank => [EvIncomplete]
            | H1Ok o =>
                let rest := skipn hlen s in
                if (o_rlen o =? 0)%Z then
                  EvAccept (o_method o) (o_target_orig o) [] (o_ka o) false :: (if o_ka o then conn f flags maxf false rest else [])
                else if (0 <? o_rlen o)%Z then
                  let n := Z.to_N (o_rlen o) in
                  if N.of_nat (length rest) <? n then [EvIncomplete]
                  else EvAccept (o_method o) (o_target_orig o) (firstn (N.to_nat n) rest) (o_ka o) false
                       :: (if o_ka o then conn f flags maxf false (skipn (N.to_nat n) rest) else [])
                else
                  match dechunk_req (S (length rest)) maxf rest [] with
                  | ChBad st => [EvReject st st]
                  | ChInc => [EvIncomplete]
                  | ChDone body rest' ka_ok cut =>
                      EvAccept (o_method o) (o_target_orig o) body (o_ka o && ka_ok) cut
                      :: (if o_ka o && ka_ok then conn f flags maxf false rest' else [])
                  end
            end
      end
  end end.

Definition run_conn (flags maxf : N) (s : list N) : list ev := conn (S (length s)) flags maxf true s.
