(* Executable model of HTTP/1.x request-head parsing (src/request.c):
     http_request_parse_reqline, http_request_parse_reqline_uri, http_request_parse_headers,
     http_request_parse_header_other, http_request_parse_single_header, http_request_parse_duplicate,
     li_restricted_strtoint64, request_check_hostname, http_request_host_normalize (names and ports;
     IP literals are an oracle), http_request_parse, http_request_headers_fin,
   plus http_header_hkey_get / http_header_str_contains_token (src/http_header.c) and
   http_method_key_get (src/http_kv.c).  Tables come from Gen/GenH1.v.
   The model is written in two layers so that the framing theorems can be stated over the list of
   (field id, value) pairs: [tokenize] (bytes -> fields) and [fold_fields] (fields -> framing state). *)
From LV Require Import Base.Bytes Gen.GenBurl Gen.GenH1 Url.UrlModel.
Local Open Scope N_scope.

Definition lower (s : list N) : list N := map to_lower s.
Definition eq_icase (a b : list N) : bool := list_eqb (lower a) (lower b).
Definition at_ (s : list N) (i : nat) : N := nth i s 0.
Definition is_xdigit (c : N) : bool := match hexval c with Some _ => true | None => false end.

(* ---------------------------------------------------------------- tables *)
Fixpoint index_of (m : list N) (l : list (list N)) (i : Z) : option Z :=
  match l with [] => None | x :: t => if list_eqb x m then Some i else index_of m t (i + 1)%Z end.

(* http_method_key_get: index in enum order, PRI = -2, unknown = -1 *)
Definition method_get (m : list N) : Z :=
  match index_of m http_methods 0 with
  | Some i => if (i =? Z.of_nat (length http_methods) - 1)%Z then (-2)%Z else i
  | None => (-1)%Z
  end.
Definition M_GET : Z := 0%Z.
Definition M_HEAD : Z := 1%Z.
Definition m_is (name : list N) (m : Z) : bool := (method_get name =? m)%Z.
Definition s_POST : list N := [80;79;83;84].
Definition s_CONNECT : list N := [67;79;78;78;69;67;84].
Definition s_OPTIONS : list N := [79;80;84;73;79;78;83].

Fixpoint hkey_lookup (k : list N) (tab : list (N * list N)) : N :=
  match tab with
  | [] => ID_OTHER
  | (id, name) :: t => if list_eqb (lower k) name then id else hkey_lookup k t
  end.
Definition hkey_get (k : list N) : N := match k with [] => ID_OTHER | _ => hkey_lookup k http_headers end.

(* ---------------------------------------------------------------- character checks *)
Definition bad_uri_strict (c : N) : bool := (c <=? 32) || (N.land c 127 =? 127).
Definition bad_line_strict (c : N) : bool := ((c <? 32) && negb (c =? 9)) || (c =? 127).
Definition bad_line_minimal (c : N) : bool := (c =? 0) || (c =? 13) || (c =? 10).

Definition is_separator (c : N) : bool :=
  existsb (N.eqb c) [13; 10; 40; 41; 60; 62; 64; 44; 58; 59; 92; 34; 47; 91; 93; 63; 61; 123; 125].

(* http_request_parse_header_other over the rest of the key: true = 400 *)
Definition bad_key_char (strict : bool) (c : N) : bool :=
  if is_alpha c || (c =? 45) then false
  else if is_blank c then true
  else if is_separator c then true
  else if strict then (c <? 32) || (127 <=? c) else (c =? 0).

(* ---------------------------------------------------------------- li_restricted_strtoint64 *)
Definition INT64_MAX : Z := 9223372036854775807%Z.
Fixpoint strtoint64 (v : list N) (rv : Z) : option Z :=     (* None: err != v+vlen *)
  match v with
  | [] => Some rv
  | c :: t =>
      if is_digit c then
        if (rv >? INT64_MAX / 10)%Z then None
        else let rv10 := (rv * 10)%Z in
             let d := Z.of_N (c - 48) in
             if (rv10 >? INT64_MAX - d)%Z then None else strtoint64 t (rv10 + d)%Z
      else None
  end.

(* ---------------------------------------------------------------- http_header_str_contains_token *)
Fixpoint skip_while (f : N -> bool) (s : list N) : list N :=
  match s with c :: t => if f c then skip_while f t else s | [] => [] end.
Definition tok_sep (c : N) : bool := is_blank c || (c =? 44).

Fixpoint contains_token (fuel : nat) (s m : list N) : bool :=
  match fuel with
  | O => false
  | S f =>
      let s1 := skip_while tok_sep s in
      if (length s1 <? length m)%nat then false
      else
        let hit :=
          eq_icase (firstn (length m) s1) m &&
          (match skipn (length m) s1 with
           | [] => true
           | c :: _ => is_blank c || (c =? 44) || (c =? 59)
           end) in
        if hit then true
        else
          let s2 := if eq_icase (firstn (length m) s1) m then skipn (length m) s1 else s1 in
          let s3 := skip_while (fun c => negb (c =? 44)) s2 in
          match s3 with [] => false | _ => contains_token f s3 m end
  end.

Definition s_close : list N := [99;108;111;115;101].
Definition s_keepalive : list N := [107;101;101;112;45;97;108;105;118;101].
Definition s_chunked : list N := [99;104;117;110;107;101;100].

(* ---------------------------------------------------------------- framing state: fold over fields *)
Record hstate := {
  st_host : option (list N);
  st_seen : list N;                    (* field ids whose rqst_htags bit is set *)
  st_vals : list (N * list N);         (* first stored value per id (for duplicate checks) *)
  st_rlen : Z;                         (* reqbody_length: >=0 Content-Length, -1 chunked *)
  st_ka : bool;
  st_http11 : bool
}.

Definition seen (st : hstate) (id : N) : bool := existsb (N.eqb id) (st_seen st).
Definition mark (st : hstate) (id : N) (v : list N) : hstate :=
  if (id =? ID_OTHER) then st else
  {| st_host := st_host st; st_seen := if seen st id then st_seen st else id :: st_seen st;
     st_vals := if seen st id then st_vals st else (id, v) :: st_vals st;
     st_rlen := st_rlen st; st_ka := st_ka st; st_http11 := st_http11 st |}.
Definition set_ka (st : hstate) (b : bool) : hstate :=
  {| st_host := st_host st; st_seen := st_seen st; st_vals := st_vals st; st_rlen := st_rlen st;
     st_ka := b; st_http11 := st_http11 st |}.
Definition set_rlen (st : hstate) (z : Z) : hstate :=
  {| st_host := st_host st; st_seen := st_seen st; st_vals := st_vals st; st_rlen := z;
     st_ka := st_ka st; st_http11 := st_http11 st |}.
Definition set_host (st : hstate) (h : list N) : hstate :=
  {| st_host := Some h; st_seen := if seen st ID_HOST then st_seen st else ID_HOST :: st_seen st;
     st_vals := if seen st ID_HOST then st_vals st else (ID_HOST, h) :: st_vals st;
     st_rlen := st_rlen st; st_ka := st_ka st; st_http11 := st_http11 st |}.
Fixpoint stored (vals : list (N * list N)) (id : N) : option (list N) :=
  match vals with [] => None | (i, v) :: t => if (i =? id) then Some v else stored t id end.

Inductive step_result := Rej (status : N) (st : hstate) | Go (st : hstate).

Definition dup_check (st : hstate) (id : N) (v : list N) : step_result :=
  match stored (st_vals st) id with
  | Some vb => if eq_icase vb v then Go st
               else if (id =? ID_IF_NONE_MATCH) then Go st else Rej 400 st
  | None => if (id =? ID_IF_NONE_MATCH) then Go st else Rej 400 st
  end.

(* http_request_parse_single_header (vlen > 0) *)
Definition single_header (st : hstate) (id : N) (v : list N) : step_result :=
  if (id =? ID_HOST) then
    if negb (seen st ID_HOST) then
      if (1024 <=? N.of_nat (length v)) then Rej 400 st else Go (set_host st (lower v))
    else if match st_host st with Some h => list_eqb h v | None => false end then Go st
    else dup_check st id v
  else if (id =? ID_IF_MODIFIED_SINCE) || (id =? ID_IF_NONE_MATCH) || (id =? ID_CONTENT_TYPE) || (id =? ID_HTTP2_SETTINGS) then
    if seen st id then dup_check st id v else Go (mark st id v)
  else if (id =? ID_CONNECTION) then
    let st' := if eq_icase v s_close || contains_token (S (length v)) v s_close then set_ka st false
               else if contains_token (S (length v)) v s_keepalive then set_ka st true else st in
    Go (mark st' id v)
  else if (id =? ID_CONTENT_LENGTH) then
    if negb (seen st ID_CONTENT_LENGTH) then
      match strtoint64 v 0 with
      | Some clen => Go (mark (if (st_rlen st =? 0)%Z then set_rlen st clen else st) id v)
      | None => Rej 400 st
      end
    else Rej 400 st
  else if (id =? ID_TRANSFER_ENCODING) then
    if negb (st_http11 st) then Rej 400 (set_ka st false)
    else if negb (eq_icase v s_chunked) || (st_rlen st =? -1)%Z then Rej 501 st      (* also a repeated field: "chunked, chunked" *)
    else Go (set_rlen st (-1))
  else Go (mark st id v).

(* one field as the tokenizer hands it over: id, value (already trimmed); an empty value is ignored
   except for Content-Length *)
Definition field_step (st : hstate) (f : N * list N) : step_result :=
  let '(id, v) := f in
  match v with
  | [] => if (id =? ID_CONTENT_LENGTH) then Rej 400 st else Go st
  | _ => single_header st id v
  end.

Fixpoint fold_fields (st : hstate) (fs : list (N * list N)) : step_result :=
  match fs with
  | [] => Go st
  | f :: t => match field_step st f with Go st' => fold_fields st' t | r => r end
  end.

(* ---------------------------------------------------------------- tokenizer: physical lines -> fields *)
Fixpoint split_lines (s : list N) (cur_rev : list N) : list (list N) :=   (* each line includes its '\n' *)
  match s with
  | [] => match cur_rev with [] => [] | _ => [rev cur_rev] end
  | c :: t => if (c =? 10) then rev (c :: cur_rev) :: split_lines t [] else split_lines t (c :: cur_rev)
  end.

Definition is_blank_line (l : list N) : bool :=
  match l with [10] => true | [13; 10] => true | _ => false end.

(* lines before the first blank line; None when there is no blank line *)
Fixpoint head_lines (ls : list (list N)) : option (list (list N)) :=
  match ls with
  | [] => None
  | l :: t => if is_blank_line l then Some []
              else match head_lines t with Some r => Some (l :: r) | None => None end
  end.

(* the blank line that ends the header section: CRLF (true) or a bare LF *)
Fixpoint blank_is_crlf (ls : list (list N)) : bool :=
  match ls with
  | [] => true
  | l :: t => if is_blank_line l then list_eqb l [13; 10] else blank_is_crlf t
  end.

Definition starts_ws (l : list N) : bool := match l with c :: _ => is_blank c | [] => false end.

(* line folding: the line end before a continuation line becomes spaces; in strict mode a bare LF
   there is a 400 (None) *)
Definition unfold_eol (strict : bool) (l : list N) : option (list N) :=
  match rev l with
  | 10 :: 13 :: r => Some (rev r ++ [32; 32])
  | 10 :: r => if strict then None else Some (rev r ++ [32])
  | _ => None
  end.

Fixpoint gather (strict : bool) (cur : list N) (rest : list (list N))
  : option (list N * list (list N)) :=
  match rest with
  | nxt :: rest' =>
      if starts_ws nxt then
        match unfold_eol strict cur with
        | Some cur' => gather strict (cur' ++ nxt) rest'
        | None => None
        end
      else Some (cur, rest)
  | [] => Some (cur, rest)
  end.

Fixpoint rstrip_ws (r : list N) : list N :=    (* on a reversed list *)
  match r with c :: t => if is_blank c then rstrip_ws t else r | [] => [] end.

Fixpoint find_idx (c : N) (s : list N) (i : nat) : option nat :=
  match s with [] => None | x :: t => if (x =? c) then Some i else find_idx c t (S i) end.

(* one logical header.  l0 = its first physical line, lg = the logical line after folding.
   None = 400; Some None = ignored (empty value); Some (Some (id, v)) = a field *)
Definition header_field (strict : bool) (l0 lg : list N) : option (N * list N) :=
  match find_idx 58 l0 0 with
  | None => None
  | Some ci =>
      let k0 := firstn ci l0 in
      let ws_before := match rev k0 with c :: _ => is_blank c | [] => false end in
      if ws_before && strict then None
      else
        let k := rev (rstrip_ws (rev k0)) in
        match k with
        | [] => None
        | _ =>
          let id := hkey_get k in
          if (id =? ID_OTHER) && existsb (bad_key_char strict) k then None
          else
            let after := skipn (S ci) l0 in
            let vstart := (S ci + (length after - length (skip_blank after)))%nat in
            let body_rev :=
              match rev lg with
              | 10 :: 13 :: r => Some r
              | 10 :: r => if strict then None else Some r
              | _ => None
              end in
            match body_rev with
            | None => None
            | Some r =>
                let total := rev (rstrip_ws r) in
                let v := skipn vstart total in
                if strict && existsb bad_line_strict v then None
                else Some (id, v)
            end
        end
  end.

(* the header loop of http_request_parse_headers, one logical header at a time; the list of
   fields handed to the semantic layer so far is returned as well (most recent first) *)
Inductive hdrs_result :=
  HRej (status : N) (st : hstate) | HOk (st : hstate) (fields_rev : list (N * list N)).

Fixpoint headers_loop (fuel : nat) (strict : bool) (st : hstate) (ls : list (list N))
  (fields_rev : list (N * list N)) : hdrs_result :=
  match fuel with
  | O => HOk st fields_rev
  | S f =>
      match ls with
      | [] => HOk st fields_rev
      | l0 :: rest =>
          match gather strict l0 rest with
          | None => HRej 400 st
          | Some (lg, rest') =>
              match header_field strict l0 lg with
              | None => HRej 400 st
              | Some fv =>
                  match field_step st fv with
                  | Rej s st' => HRej s st'
                  | Go st' => headers_loop f strict st' rest' (fv :: fields_rev)
                  end
              end
          end
      end
  end.

(* ---------------------------------------------------------------- request line *)
Definition s_http11 : list N := [72;84;84;80;47;49;46;49].
Definition s_http10 : list N := [72;84;84;80;47;49;46;48].
Definition s_http_scheme : list N := [104;116;116;112;58;47;47].          (* "http://" *)
Definition s_https_scheme : list N := [104;116;116;112;115;58;47;47].     (* "https://" *)

Record reqline := {
  rl_method : Z; rl_http11 : bool; rl_target : list N; rl_host : option (list N)
}.

Definition reqline_uri (strict : bool) (method : Z) (uri : list N) : option (list N * option (list N)) :=
  (* returns (target, Host taken from absolute-form) or None = 400 *)
  let len := length uri in
  let abs (n : nat) :=
    match find_idx 47 (skipn n uri) 0 with
    | Some hl => Some hl
    | None => None
    end in
  let try_abs (n : nat) :=
    match abs n with
    | Some hl => if (hl =? 0)%nat || (1024 <=? hl)%nat then Some None
                 else Some (Some (skipn (n + hl) uri, Some (lower (firstn hl (skipn n uri)))))
    | None => None
    end in
  let r :=
    if (7 <? len)%nat && eq_icase (firstn 7 uri) s_http_scheme then try_abs 7%nat
    else if (8 <? len)%nat && eq_icase (firstn 8 uri) s_https_scheme then try_abs 8%nat
    else None in
  match r with
  | Some x => x
  | None =>
      if negb strict
         || (m_is s_CONNECT method && ((at_ uri 0 =? 58) || is_digit (at_ uri 0)))
         || (m_is s_OPTIONS method && (at_ uri 0 =? 42) && (len =? 1)%nat)
      then Some (uri, None) else None
  end.

Inductive rl_result := RLRej (status : N) | RLOk (rl : reqline).

(* whole = header block up to the start of the blank line (searched for NUL in non-strict mode) *)
Definition parse_reqline (flags : N) (line whole : list N) : rl_result :=
  let strict := has_flag flags OPT_HEADER_STRICT in
  let len0 := length line in
  if (len0 <? 13)%nat then RLRej 400
  else
    let olen :=
      if (at_ line (len0 - 2) =? 13) then Some (len0 - 2)%nat
      else if negb strict then Some (len0 - 1)%nat else None in
    match olen with
    | None => RLRej 400
    | Some len =>
        let pi := (len - 8)%nat in
        let proto := firstn 8 (skipn pi line) in
        let ver :=
          if (at_ line (pi - 1) =? 32) && list_eqb proto s_http11 then Some true
          else if (at_ line (pi - 1) =? 32) && list_eqb proto s_http10 then Some false
          else None in
        match ver with
        | None => RLRej 400
        | Some v11 =>
            if (at_ line (pi - 2) =? 32) then RLRej 400
            else
              match find_idx 32 line 0 with
              | None => RLRej 400
              | Some i =>
                  let method := method_get (firstn i line) in
                  if (method <? 0)%Z then RLRej 501
                  else if (S i =? pi)%nat then RLRej 400
                  else
                    let uri0 := firstn (pi - 1 - S i) (skipn (S i) line) in
                    let r := if (at_ uri0 0 =? 47) then Some (uri0, None) else reqline_uri strict method uri0 in
                    match r with
                    | None => RLRej 400
                    | Some (uri, host) =>
                        match uri with
                        | [] => RLRej 400
                        | _ =>
                            let bad :=
                              if strict then
                                if has_flag flags OPT_URL_NORMALIZE_CTRLS_REJECT then false
                                else existsb bad_uri_strict uri
                              else existsb (N.eqb 0) whole in
                            if bad then RLRej 400
                            else RLOk {| rl_method := method; rl_http11 := v11; rl_target := uri; rl_host := host |}
                        end
                    end
              end
        end
    end.

(* ---------------------------------------------------------------- host policy *)
Inductive host_result := HostRej | HostOk (h : list N) | HostOracle.  (* HostOracle: depends on inet_pton *)

Fixpoint labels_ok (fuel : nat) (h : list N) (i hlen : nat) (label_len : nat) (allnum num : bool) (level : nat)
  : option (nat * bool * bool * nat) :=
  match fuel with
  | O => Some (label_len, allnum, num, level)
  | S f =>
      if (hlen <=? i)%nat then Some (label_len, allnum, num, level)
      else
        let ch := at_ h i in
        let ll := S label_len in
        if is_digit ch then labels_ok f h (S i) hlen ll allnum num level
        else if is_alpha ch || ((ch =? 45) && negb (i =? 0)%nat) then labels_ok f h (S i) hlen ll allnum false level
        else if (ch =? 46) && negb (ll =? 1)%nat && negb (at_ h (S i) =? 45)
             then labels_ok f h (S i) hlen 0 (allnum && num) true (S level)
        else None
  end.

Fixpoint skip_digits (s : list N) : list N :=
  match s with c :: t => if is_digit c then skip_digits t else s | [] => [] end.

Definition cstr_end (s : list N) : bool := match s with [] => true | c :: _ => (c =? 0) end.

(* the port part shared by both branches of request_check_hostname; pre = what precedes h *)
Definition check_port (pre rest : list N) : option (list N) :=
  match rest with
  | 58 :: t =>
      if cstr_end t then Some pre                         (* trailing colon removed *)
      else if cstr_end (skip_digits t) then Some (pre ++ rest) else None
  | _ => if cstr_end rest then Some (pre ++ rest) else None
  end.

Fixpoint ipv6_scan (fuel : nat) (s : list N) (cnt : nat) : list N :=
  match fuel with O => s | S f =>
  match s with
  | c :: t => if is_xdigit c || (c =? 46) then ipv6_scan f t cnt
              else if (c =? 58) then (if (S cnt <? 8)%nat then ipv6_scan f t (S cnt) else s)
              else s
  | [] => []
  end end.

Definition check_hostname (host : list N) : option (list N) :=
  match host with
  | 91 :: t =>
      let r := ipv6_scan (S (length t)) t 0 in
      match r with
      | 93 :: r2 => if (length r =? length t)%nat then None
                    else check_port (firstn (length host - length r2) host) r2
      | _ => None
      end
  | _ =>
      let len := length host in
      let hlen0 := match find_idx 58 host 0 with Some i => i | None => len end in
      if (hlen0 =? 0)%nat then None
      else
        let strip := (at_ host (hlen0 - 1) =? 46) in
        let hlen := if strip then (hlen0 - 1)%nat else hlen0 in
        if (hlen =? 0)%nat then None
        else
          let host' := if strip then firstn hlen host ++ skipn hlen0 host else host in
          match labels_ok (S hlen) host' 0 hlen 0 true true 0 with
          | None => None
          | Some (label_len, allnum, num, level) =>
              if (label_len =? 0)%nat || (num && (negb (level =? 3)%nat || negb allnum)) then None
              else check_port (firstn hlen host') (skipn hlen host')
          end
  end.

(* strtol(s, &e, 0) restricted to what decides the port: Some port when the whole C string converts *)
Definition oct_val (ds : list N) : Z := fold_left (fun a c => (a * 8 + Z.of_N (c - 48))%Z) ds 0%Z.
Definition hex_val (ds : list N) : Z :=
  fold_left (fun a c => (a * 16 + Z.of_N (match hexval c with Some v => v | None => 0 end))%Z) ds 0%Z.
Definition is_oct (c : N) : bool := (48 <=? c) && (c <=? 55).

Definition strtol0_all (s : list N) : option Z :=
  let s := cstr s in
  let s1 := skip_cspace s in
  let '(neg, s2) := match s1 with 45 :: t => (true, t) | 43 :: t => (false, t) | _ => (false, s1) end in
  let v :=
    match s2 with
    | 48 :: x :: t => if ((x =? 120) || (x =? 88)) && is_xdigit (at_ t 0)
                      then if forallb is_xdigit t then Some (hex_val t) else None
                      else if forallb is_oct (x :: t) then Some (oct_val (x :: t)) else None
    | [] => None
    | _ => if forallb is_digit s2 then Some (dec_val s2) else None
    end in
  match v with Some z => Some (if neg then (- z)%Z else z) | None => None end.

Definition host_normalize (b : list N) (scheme_port : Z) : host_result :=
  match b with
  | 91 :: _ => HostOracle
  | _ =>
      match find_idx 58 b 0 with
      | Some ci =>
          if (ci =? 0)%nat then HostRej
          else
            let after := skipn (S ci) b in
            let name := firstn ci b in
            let port :=
              if cstr_end after then Some 0%Z
              else match strtol0_all after with
                   | Some p => if (0 <? p)%Z && (p <=? 65535)%Z then Some p else None
                   | None => None
                   end in
            match port with
            | None => HostRej
            | Some p =>
                if is_digit (at_ name 0) then HostOracle
                else HostOk (if negb (p =? 0)%Z && negb (p =? scheme_port)%Z then name ++ [58] ++ itoaZ p else name)
            end
      | None => if is_digit (at_ b 0) then HostOracle else HostOk b
      end
  end.

Definition host_policy (flags : N) (h : list N) : host_result :=
  let r1 :=
    if has_flag flags OPT_HOST_STRICT then check_hostname h
    else if existsb bad_line_minimal h then None else Some h in
  match r1 with
  | None => HostRej
  | Some h1 => if has_flag flags OPT_HOST_NORMALIZE then host_normalize h1 80 else HostOk h1
  end.

(* ---------------------------------------------------------------- the whole head *)
Record h1_ok := {
  o_method : Z; o_http11 : bool; o_target_orig : list N; o_path : list N; o_query : option (list N);
  o_host : option (list N); o_rlen : Z; o_ka : bool; o_fields : list (N * list N)
}.
Inductive h1_result := H1Rej (status : N) | H1Ok (o : h1_ok) | H1Oracle | H1Inc | H1Blank.

Definition h1_parse (flags : N) (block : list N) : h1_result :=
  let strict := has_flag flags OPT_HEADER_STRICT in
  let ls := split_lines block [] in
  match head_lines ls with
  | None => H1Inc
  | Some [] => H1Blank
  | Some (l1 :: hl) =>
      let whole := concat (l1 :: hl) in
      match parse_reqline flags l1 whole with
      | RLRej s => H1Rej s
      | RLOk rl =>
          if strict && negb (blank_is_crlf ls) then H1Rej 400 else
          let st0 := {| st_host := None; st_seen := []; st_vals := []; st_rlen := 0;
                        st_ka := rl_http11 rl; st_http11 := rl_http11 rl |} in
          let st1 := match rl_host rl with Some h => set_host st0 h | None => st0 end in
          match headers_loop (S (length hl)) strict st1 hl [] with
          | HRej s _ => H1Rej s
          | HOk st fields_rev =>
              let special :=
                m_is s_CONNECT (rl_method rl) ||
                (m_is s_OPTIONS (rl_method rl) && list_eqb (cstr (rl_target rl)) [42]) in
              let tr := if special then TOk (rl_target rl) (rl_target rl) None
                        else parse_target flags (rl_target rl) in
              match tr with
              | T400 => H1Rej 400
              | TOk _ path query =>
                  let hostr :=
                    match st_host st with
                    | Some h => match host_policy flags h with
                                | HostRej => inr false
                                | HostOracle => inr true
                                | HostOk h' => inl (Some h')
                                end
                    | None => inl None
                    end in
                  match hostr with
                  | inr true => H1Oracle
                  | inr false => H1Rej 400
                  | inl host =>
                      if (match host with None => rl_http11 rl | Some _ => false end) then H1Rej 400
                      else if negb (rl_http11 rl) && (seen st ID_UPGRADE || seen st ID_HTTP2_SETTINGS) then H1Rej 400
                      else if (st_rlen st =? 0)%Z then
                        if m_is s_POST (rl_method rl) && negb (seen st ID_CONTENT_LENGTH) then H1Rej 411
                        else H1Ok {| o_method := rl_method rl; o_http11 := rl_http11 rl; o_target_orig := rl_target rl;
                                     o_path := path; o_query := query; o_host := host; o_rlen := 0; o_ka := st_ka st;
                                     o_fields := rev fields_rev |}
                      else
                        let both := (st_rlen st =? -1)%Z && seen st ID_CONTENT_LENGTH in
                        if both && strict then H1Rej 400
                        else if (rl_method rl <=? M_HEAD)%Z && negb (has_flag flags OPT_METHOD_GET_BODY) then H1Rej 400
                        else H1Ok {| o_method := rl_method rl; o_http11 := rl_http11 rl; o_target_orig := rl_target rl;
                                     o_path := path; o_query := query; o_host := host; o_rlen := st_rlen st;
                                     o_ka := if both then false else st_ka st; o_fields := rev fields_rev |}
                  end
              end
          end
      end
  end.
