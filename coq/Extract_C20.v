From LV Require Import Base.Bytes Gen.GenBurl Gen.GenMap Url.UrlModel Map.MapModel.
Require Import ExtrOcamlBasic.
Extraction "model.ml" burl_append subst process rewrite_run h_null b64u_enc b64u_dec encode_all offset_tolower offset_toupper.
