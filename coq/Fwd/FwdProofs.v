(* Fwd/FwdProofs.v -- C09: the backend can always recover exactly the pairs and the body; Proxy never becomes HTTP_PROXY. *)
From Coq Require Import List NArith Bool Lia.
From LV Require Import Base.Bytes Fwd.FwdModel.
Import ListNotations.
Local Open Scope N_scope.
From Coq Require Import ZArith ZifyN ZifyNat ZifyBool.
Ltac zify_divmod := (Zify.zify; Z.div_mod_to_equations; lia).

Lemma firstn_exact (a b : list N) : firstn (length a) (a ++ b) = a.
Proof. rewrite firstn_app, firstn_all, Nat.sub_diag. cbn. apply app_nil_r. Qed.
Lemma skipn_exact (a b : list N) : skipn (length a) (a ++ b) = b.
Proof. rewrite skipn_app, skipn_all, Nat.sub_diag. reflexivity. Qed.

(* ---------------------------------------------------------------- FastCGI lengths and pairs *)
Lemma dec_enc_len n rest : n < 2147483648 -> dec_len (enc_len n ++ rest) = Some (n, rest).
Proof.
  intro H. unfold enc_len. destruct (N.ltb_spec n 128) as [Hs|Hl]; cbn [app dec_len].
  - destruct (N.ltb_spec n 128); [reflexivity | lia].
  - set (b3 := n / 16777216 mod 256).
    assert (Hb3 : b3 < 128).
    { unfold b3. rewrite N.mod_small; [apply N.div_lt_upper_bound; lia|]. apply N.div_lt_upper_bound; lia. }
    assert (Hor : N.lor b3 128 = b3 + 128).
    { assert (forallb (fun x => N.lor x 128 =? x + 128) (map N.of_nat (seq 0 128)) = true) as Hall by (vm_compute; reflexivity).
      rewrite forallb_forall in Hall. apply N.eqb_eq, Hall. apply in_map_iff. exists (N.to_nat b3). split; [apply N2Nat.id|]. apply in_seq. lia. }
    rewrite Hor. destruct (N.ltb_spec (b3 + 128) 128); [lia|].
    f_equal. f_equal. unfold b3 in *. clear Hor.
    zify_divmod.
Qed.

Definition pair_ok (p : list N * list N) : Prop :=
  N.of_nat (length (fst p)) < 2147483648 /\ N.of_nat (length (snd p)) < 2147483648.

(* whatever the lengths (1-byte and 4-byte forms, including the boundary 127/128), a strict decoder recovers exactly the pairs *)
Theorem fcgi_params_roundtrip ps : forall f, Forall pair_ok ps -> (length ps < f)%nat ->
  dec_params f (enc_params ps) = Some ps.
Proof.
  induction ps as [|[k v] ps IH]; intros f Hok Hf.
  - destruct f; [cbn in Hf; lia | reflexivity].
  - destruct f as [|f]; [cbn in Hf; lia|]. inversion Hok as [|? ? [Hk Hv] Hps]; subst. cbn [fst snd] in *.
    unfold enc_params. cbn [map concat]. fold (enc_params ps). unfold enc_pair. cbn [fst snd].
    rewrite <- !app_assoc.
    destruct (enc_len (N.of_nat (length k)) ++ enc_len (N.of_nat (length v)) ++ k ++ v ++ enc_params ps) eqn:Hne.
    { exfalso. unfold enc_len in Hne. destruct (N.of_nat (length k) <? 128); discriminate. }
    cbn [dec_params]. rewrite <- Hne. clear Hne.
    rewrite dec_enc_len by exact Hk. rewrite dec_enc_len by exact Hv.
    rewrite !app_length.
    destruct (N.ltb_spec (N.of_nat (length k + (length v + length (enc_params ps)))) (N.of_nat (length k) + N.of_nat (length v))); [lia|].
    replace (N.to_nat (N.of_nat (length k) + N.of_nat (length v))) with (length (k ++ v)) by (rewrite app_length; lia).
    rewrite !Nat2N.id.
    rewrite (app_assoc k v), skipn_exact. rewrite IH by (assumption || (cbn in Hf; lia)).
    rewrite <- app_assoc, firstn_exact, skipn_exact, firstn_exact. reflexivity.
Qed.

(* ---------------------------------------------------------------- header variables *)
Theorem header_var_names hs : forall k v, In (k, v) (header_vars hs) ->
  k = s_CONTENT_TYPE \/ exists t, k = s_HTTP_ ++ t.
Proof.
  induction hs as [|[hk hv] t IH]; intros k v Hin; cbn [header_vars] in Hin; [contradiction|].
  destruct hv as [|c hv']; [apply (IH _ _ Hin)|].
  destruct (list_eqb (lower hk) s_proxy); [apply (IH _ _ Hin)|].
  destruct (list_eqb (lower hk) s_content_type); destruct Hin as [Hin|Hin]; try (apply (IH _ _ Hin)).
  - injection Hin as <- _. left; reflexivity.
  - injection Hin as <- _. right. eexists. reflexivity.
Qed.

(* var_char c = an upper-case letter  <->  c is that letter in either case *)
Lemma var_char_letter c u : 65 <= u <= 90 -> c < 256 -> var_char c = u -> to_lower c = u + 32.
Proof.
  intros Hu Hc H.
  assert (forallb (fun c => forallb (fun u => negb (var_char c =? u) || (to_lower c =? u + 32)) (map N.of_nat (seq 65 26)))
                  (map N.of_nat (seq 0 256)) = true) as Hall by (vm_compute; reflexivity).
  rewrite forallb_forall in Hall.
  assert (Hin : In c (map N.of_nat (seq 0 256))) by (apply in_map_iff; exists (N.to_nat c); split; [apply N2Nat.id | apply in_seq; lia]).
  specialize (Hall c Hin). rewrite forallb_forall in Hall.
  assert (Hiu : In u (map N.of_nat (seq 65 26))) by (apply in_map_iff; exists (N.to_nat u); split; [apply N2Nat.id | apply in_seq; lia]).
  specialize (Hall u Hiu). rewrite H, N.eqb_refl in Hall. cbn in Hall. apply N.eqb_eq in Hall. exact Hall.
Qed.

Definition bytes (s : list N) : Prop := Forall (fun c => c < 256) s.
Definition s_HTTP_PROXY : list N := s_HTTP_ ++ [80; 82; 79; 88; 89].

(* no request header ever turns into HTTP_PROXY (httpoxy), whatever its spelling *)
Theorem no_http_proxy hs : Forall (fun kv => bytes (fst kv)) hs -> forall v, ~ In (s_HTTP_PROXY, v) (header_vars hs).
Proof.
  induction hs as [|[hk hv] t IH]; intros Hb v Hin; cbn [header_vars] in Hin; [contradiction|].
  inversion Hb as [|? ? Hk Ht]; subst. cbn [fst] in Hk.
  destruct hv as [|c hv']; [exact (IH Ht _ Hin)|].
  destruct (list_eqb (lower hk) s_proxy) eqn:Hp; [exact (IH Ht _ Hin)|].
  destruct (list_eqb (lower hk) s_content_type); destruct Hin as [Hin|Hin]; try exact (IH Ht _ Hin).
  - injection Hin as Hc _. discriminate Hc.
  - injection Hin as Hn _. unfold varname, s_HTTP_PROXY in Hn. try apply app_inv_head in Hn.
    (* map var_char hk = "PROXY"  =>  lower hk = "proxy" *)
    destruct hk as [|c1 [|c2 [|c3 [|c4 [|c5 [|c6 r]]]]]]; try discriminate Hn.
    cbn [map] in Hn. injection Hn as H1 H2 H3 H4 H5.
    inversion Hk as [|? ? B1 K1]; subst. inversion K1 as [|? ? B2 K2]; subst. inversion K2 as [|? ? B3 K3]; subst.
    inversion K3 as [|? ? B4 K4]; subst. inversion K4 as [|? ? B5 _]; subst.
    assert (lower [c1; c2; c3; c4; c5] = s_proxy) as E.
    { unfold lower, s_proxy. cbn [map].
      rewrite (var_char_letter c1 80), (var_char_letter c2 82), (var_char_letter c3 79), (var_char_letter c4 88), (var_char_letter c5 89)
        by (assumption || lia). reflexivity. }
    rewrite E in Hp. cbv in Hp. discriminate Hp.
Qed.

(* ---------------------------------------------------------------- STDIN *)
Theorem stdin_records_spec fuel : forall body, (length body < fuel)%nat ->
  concat (stdin_records fuel body) = body /\
  Forall (fun r => N.of_nat (length r) <= FCGI_MAX) (stdin_records fuel body) /\
  last (stdin_records fuel body) [1] = [].
Proof.
  induction fuel as [|f IH]; intros body Hl; [lia|].
  cbn [stdin_records]. destruct body as [|c b].
  - cbn. split; [reflexivity|]. split; [constructor; [cbn; unfold FCGI_MAX; lia | constructor] | reflexivity].
  - set (bd := c :: b) in *.
    assert (Hsk : (length (skipn (N.to_nat FCGI_MAX) bd) < f)%nat).
    { rewrite skipn_length. unfold FCGI_MAX. unfold bd in *. cbn [length] in *. lia. }
    destruct (IH _ Hsk) as (H1 & H2 & H3).
    split; [cbn [concat]; rewrite H1; apply firstn_skipn|].
    split.
    + constructor; [|exact H2]. rewrite firstn_length. unfold FCGI_MAX. lia.
    + cbn [last]. destruct (stdin_records f (skipn (N.to_nat FCGI_MAX) bd)) eqn:E; [|exact H3].
      exfalso. destruct f; cbn in E; [discriminate|]. destruct (skipn (N.to_nat FCGI_MAX) bd); discriminate.
Qed.

(* ---------------------------------------------------------------- SCGI netstring *)
Lemma ddigs_lt10 f : forall n, Forall (fun d => d < 10) (ddigs f n).
Proof.
  induction f as [|f IH]; intro n; cbn [ddigs]; [constructor|].
  destruct (N.ltb_spec n 10); [constructor; [assumption | constructor]|].
  apply Forall_app. split; [apply IH|]. constructor; [apply N.mod_lt; discriminate | constructor].
Qed.
Lemma ddigs_nonempty f n : ddigs (Datatypes.S f) n <> [].
Proof. cbn [ddigs]. destruct (n <? 10); [discriminate|]. destruct (ddigs f (n / 10)); discriminate. Qed.
Lemma dval_ddigs f : forall n, n < 10 ^ N.of_nat f -> dval (ddigs f n) = n.
Proof.
  induction f as [|f IH]; intros n Hn.
  - cbn in Hn. assert (n = 0) by lia. subst. reflexivity.
  - cbn [ddigs]. destruct (N.ltb_spec n 10).
    + unfold dval. cbn. lia.
    + unfold dval. rewrite fold_left_app. cbn [fold_left]. fold (dval (ddigs f (n / 10))). rewrite IH.
      * rewrite N.mul_comm. symmetry. apply N.div_mod. discriminate.
      * rewrite Nat2N.inj_succ, N.pow_succ_r' in Hn. apply N.div_lt_upper_bound; [discriminate | exact Hn].
Qed.
Lemma span_dec_digits ds rest : Forall (fun d => d < 10) ds ->
  match rest with c :: _ => is_digit c = false | [] => True end ->
  span_dec (map (fun d => 48 + d) ds ++ rest) = (ds, rest).
Proof.
  intros Hd Hr. induction Hd as [|d ds Hlt _ IH]; cbn [map app].
  - destruct rest as [|c t]; [reflexivity|]. cbn [span_dec]. rewrite Hr. reflexivity.
  - cbn [span_dec]. unfold is_digit at 1.
    destruct (N.leb_spec 48 (48 + d)); [|lia]. destruct (N.leb_spec (48 + d) 57); [|lia]. cbn [andb].
    rewrite IH. replace (48 + d - 48) with d by lia. reflexivity.
Qed.

Theorem netstring_roundtrip s rest : N.of_nat (length s) < 10 ^ 20 ->
  parse_netstring (netstring s ++ rest) = Some (s, rest).
Proof.
  intro H. unfold netstring, parse_netstring, dec_str. rewrite <- !app_assoc.
  rewrite span_dec_digits; [|apply ddigs_lt10 | reflexivity].
  pose proof (ddigs_nonempty 19 (N.of_nat (length s))) as Hne.
  destruct (ddigs 20 (N.of_nat (length s))) as [|d0 ds] eqn:E; [contradiction|]. rewrite <- E.
  cbn [app]. rewrite dval_ddigs by exact H. rewrite Nat2N.id.
  rewrite !app_length. cbn [length].
  destruct (Nat.ltb_spec (length s + Datatypes.S (length rest)) (Datatypes.S (length s))); [lia|].
  rewrite skipn_app, skipn_all, Nat.sub_diag. cbn [skipn app].
  rewrite firstn_app, firstn_all, Nat.sub_diag. cbn [firstn]. rewrite app_nil_r. reflexivity.
Qed.
