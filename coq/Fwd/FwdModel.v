(* Fwd/FwdModel.v -- request side of the gateway modules (C09):
     * http_cgi_encode_varname and the header loop of http_cgi_headers (HTTP_* variables, Content-Type, Proxy),
     * the request-derived meta-variables of RFC 3875 that do not depend on sockets or configuration,
     * FastCGI name-value pair encoding (fcgi_env_add) with a strict decoder, STDIN record framing (fcgi_stdin_append),
     * SCGI netstring framing (scgi_create_env) with a strict decoder.
   Not modelled: SERVER_*/REMOTE_* variables (socket state), SCRIPT_FILENAME/DOCUMENT_ROOT (configuration), uwsgi, mod_proxy's
   header rewriting (checked by the monitor only). *)
From Coq Require Import List NArith Bool Lia.
From LV Require Import Base.Bytes.
Import ListNotations.
Local Open Scope N_scope.

(* ---------------------------------------------------------------- variable names *)
Definition var_char (c : N) : N := if is_alpha c then (if is_lower c then c - 32 else c) else if is_digit c then c else 95.
Definition s_HTTP_ : list N := [72; 84; 84; 80; 95].
Definition varname (is_header : bool) (s : list N) : list N := (if is_header then s_HTTP_ else []) ++ map var_char s.

Definition s_proxy : list N := [112; 114; 111; 120; 121].
Definition s_content_type : list N := [99; 111; 110; 116; 101; 110; 116; 45; 116; 121; 112; 101].
Definition s_CONTENT_TYPE : list N := [67; 79; 78; 84; 69; 78; 84; 95; 84; 89; 80; 69].
Definition lower (s : list N) : list N := map to_lower s.

(* the header loop at the end of http_cgi_headers *)
Fixpoint header_vars (hs : list (list N * list N)) : list (list N * list N) :=
  match hs with
  | [] => []
  | (k, v) :: t =>
      match v with
      | [] => header_vars t                                     (* blank values are skipped *)
      | _ => if list_eqb (lower k) s_proxy then header_vars t    (* never HTTP_PROXY *)
             else if list_eqb (lower k) s_content_type then (s_CONTENT_TYPE, v) :: header_vars t
             else (varname true k, v) :: header_vars t
      end
  end.

(* ---------------------------------------------------------------- FastCGI name-value pairs *)
Definition enc_len (n : N) : list N :=
  if n <? 128 then [n]
  else [N.lor (n / 16777216 mod 256) 128; n / 65536 mod 256; n / 256 mod 256; n mod 256].
Definition enc_pair (p : list N * list N) : list N :=
  enc_len (N.of_nat (length (fst p))) ++ enc_len (N.of_nat (length (snd p))) ++ fst p ++ snd p.
Definition enc_params (ps : list (list N * list N)) : list N := concat (map enc_pair ps).

Definition dec_len (s : list N) : option (N * list N) :=
  match s with
  | b :: t => if b <? 128 then Some (b, t)
              else match t with
                   | b2 :: b1 :: b0 :: t' => Some (((b mod 128) * 16777216 + b2 * 65536 + b1 * 256 + b0), t')
                   | _ => None
                   end
  | [] => None
  end.
Fixpoint dec_params (fuel : nat) (s : list N) : option (list (list N * list N)) :=
  match fuel with
  | O => None
  | S f =>
    match s with
    | [] => Some []
    | _ =>
      match dec_len s with
      | Some (nl, s1) =>
        match dec_len s1 with
        | Some (vl, s2) =>
            if N.of_nat (length s2) <? nl + vl then None
            else match dec_params f (skipn (N.to_nat (nl + vl)) s2) with
                 | Some r => Some ((firstn (N.to_nat nl) s2, firstn (N.to_nat vl) (skipn (N.to_nat nl) s2)) :: r)
                 | None => None
                 end
        | None => None
        end
      | None => None
      end
    end
  end.

(* ---------------------------------------------------------------- FastCGI STDIN *)
Definition FCGI_MAX : N := 65535.
Fixpoint stdin_records (fuel : nat) (body : list N) : list (list N) :=     (* contents of the STDIN records, last one empty *)
  match fuel with
  | O => [[]]
  | S f => match body with
           | [] => [[]]
           | _ => firstn (N.to_nat FCGI_MAX) body :: stdin_records f (skipn (N.to_nat FCGI_MAX) body)
           end
  end.

(* ---------------------------------------------------------------- SCGI *)
Fixpoint ddigs (fuel : nat) (n : N) : list N :=
  match fuel with
  | O => []
  | S f => if n <? 10 then [n] else ddigs f (n / 10) ++ [n mod 10]
  end.
Definition dec_str (n : N) : list N := map (fun d => 48 + d) (ddigs 20 n).
Definition netstring (s : list N) : list N := dec_str (N.of_nat (length s)) ++ [58] ++ s ++ [44].
Fixpoint scgi_headers (ps : list (list N * list N)) : list N :=
  match ps with [] => [] | (k, v) :: t => k ++ [0] ++ v ++ [0] ++ scgi_headers t end.
Definition scgi_request (ps : list (list N * list N)) (body : list N) : list N := netstring (scgi_headers ps) ++ body.

Fixpoint span_dec (s : list N) : list N * list N :=
  match s with
  | c :: t => if is_digit c then let '(ds, r) := span_dec t in ((c - 48) :: ds, r) else ([], s)
  | [] => ([], [])
  end.
Definition dval (ds : list N) : N := fold_left (fun a d => a * 10 + d) ds 0.
Definition parse_netstring (s : list N) : option (list N * list N) :=
  let '(ds, r) := span_dec s in
  match ds, r with
  | _ :: _, 58 :: r1 =>
      let n := N.to_nat (dval ds) in
      if (length r1 <? S n)%nat then None
      else match skipn n r1 with
           | 44 :: r2 => Some (firstn n r1, r2)
           | _ => None
           end
  | _, _ => None
  end.

(* ---------------------------------------------------------------- request-derived meta-variables *)
Record request := {
  q_method : list N; q_version : list N; q_target_orig : list N; q_path : list N; q_pathinfo : list N; q_query : list N;
  q_body_len : N; q_headers : list (list N * list N)
}.
Definition request_vars (q : request) : list (list N * list N) :=
  [ ([67;79;78;84;69;78;84;95;76;69;78;71;84;72], itoa (q_body_len q));                    (* CONTENT_LENGTH *)
    ([81;85;69;82;89;95;83;84;82;73;78;71], q_query q);                                      (* QUERY_STRING *)
    ([82;69;81;85;69;83;84;95;85;82;73], q_target_orig q);                                   (* REQUEST_URI *)
    ([83;67;82;73;80;84;95;78;65;77;69], q_path q) ] ++                                      (* SCRIPT_NAME *)
  (match q_pathinfo q with [] => [] | pi => [([80;65;84;72;95;73;78;70;79], pi)] end) ++      (* PATH_INFO *)
  [ ([82;69;81;85;69;83;84;95;77;69;84;72;79;68], q_method q);                               (* REQUEST_METHOD *)
    ([83;69;82;86;69;82;95;80;82;79;84;79;67;79;76], q_version q);                           (* SERVER_PROTOCOL *)
    ([71;65;84;69;87;65;89;95;73;78;84;69;82;70;65;67;69], [67;71;73;47;49;46;49]) ] ++      (* GATEWAY_INTERFACE = CGI/1.1 *)
  header_vars (q_headers q).
