(* Proofs about the URL -> path pipeline: buffer_path_simplify never leaves a '.' or '..' segment. *)
From LV Require Import Base.Bytes Gen.GenBurl Url.UrlModel.
Local Open Scope N_scope.

(* ---------- segments and the property ---------- *)
Fixpoint segs (l : list N) : list (list N) :=
  match l with
  | [] => [[]]
  | c :: l' => if c =? slash then [] :: segs l'
               else match segs l' with s :: ss => (c :: s) :: ss | [] => [[c]] end
  end.
Definition okseg (s : list N) : Prop := s <> [dot] /\ s <> [dot; dot].
Definition nodot (l : list N) : Prop := Forall okseg (segs l).

Lemma segs_nonempty l : segs l <> [].
Proof. induction l as [|c l IH]; simpl; [discriminate|]. destruct (c =? slash); [discriminate|]. destruct (segs l); [contradiction|discriminate]. Qed.

Lemma segs_app_slash a b : segs (a ++ slash :: b) = segs a ++ segs b.
Proof.
  induction a as [|c a IH]; simpl.
  - reflexivity.
  - destruct (c =? slash) eqn:E.
    + now rewrite IH.
    + rewrite IH. destruct (segs a) as [|s ss] eqn:Es; [now destruct (segs_nonempty a)|]. reflexivity.
Qed.

Lemma nodot_app_slash a b : nodot (a ++ slash :: b) <-> nodot a /\ nodot b.
Proof. unfold nodot. rewrite segs_app_slash. apply Forall_app. Qed.

Definition noslash (l : list N) : Prop := Forall (fun c => (c =? slash) = false) l.

Lemma segs_noslash l : noslash l -> segs l = [l].
Proof. induction 1 as [|c l Hc Hl IH]; simpl; [reflexivity|]. rewrite Hc, IH. reflexivity. Qed.

Lemma nodot_nil : nodot []. Proof. unfold nodot; simpl. constructor; [split; discriminate|constructor]. Qed.

Lemma nodot_snoc_slash o : nodot (o ++ [slash]) <-> nodot o.
Proof. rewrite nodot_app_slash. split; [tauto|]. intros H; split; [exact H|apply nodot_nil]. Qed.

Lemma nodot_single : nodot [slash].
Proof. change [slash] with ([] ++ [slash]). apply nodot_snoc_slash, nodot_nil. Qed.

(* take_seg specification *)
Lemma take_seg_spec w :
  (exists s r, w = s ++ slash :: r /\ noslash s /\ take_seg w = (s ++ [slash], r))
  \/ (noslash w /\ take_seg w = (w, [])).
Proof.
  induction w as [|c w IH]; simpl.
  - right. split; [constructor|reflexivity].
  - destruct (c =? slash) eqn:E.
    + left. exists [], w. apply N.eqb_eq in E. subst c. repeat split. constructor.
    + destruct IH as [(s & r & -> & Hs & Ht)|[Hn Ht]]; rewrite Ht.
      * left. exists (c :: s), r. repeat split. constructor; assumption.
      * right. split; [constructor; assumption|reflexivity].
Qed.

Definition ends_slash (w : list N) : Prop := w = [] \/ exists w0, w = w0 ++ [slash].

Lemma ends_slash_tail c w : ends_slash (c :: w) -> w <> [] -> ends_slash w.
Proof.
  intros [H|[w0 H]] Hne; [discriminate|]. right.
  destruct w0 as [|a w0]; simpl in H; inversion H; subst.
  - contradiction.
  - eexists; reflexivity.
Qed.

Lemma ends_slash_split s r : ends_slash (s ++ slash :: r) -> ends_slash r.
Proof.
  intros [H|[w0 H]]; [destruct s; discriminate|].
  destruct r as [|a r]; [left; reflexivity|right].
  destruct (exists_last (l := a :: r)) as (w1 & x & Hx); [discriminate|].
  rewrite Hx in *. 
  replace (s ++ slash :: w1 ++ [x]) with ((s ++ slash :: w1) ++ [x]) in H by (rewrite <- app_assoc; reflexivity).
  apply app_inj_tail in H as [_ ->]. eexists; reflexivity.
Qed.

Lemma noslash_ends_slash_nil w : noslash w -> ends_slash w -> w = [].
Proof.
  intros Hn [H|[w0 H]]; [assumption|]. subst w. apply Forall_app in Hn as [_ Hn].
  inversion Hn as [|? ? Hc _]; subst. discriminate Hc.
Qed.

Lemma ends_slash_single c : ends_slash [c] -> c = slash.
Proof. intros [H|[w0 H]]; [discriminate|]. destruct w0 as [|a w0]; simpl in H; inversion H; subst; [reflexivity|destruct w0; discriminate]. Qed.

Definition Inv (out_rev : list N) : Prop := (exists r, out_rev = slash :: r) /\ nodot (rev out_rev).

Lemma Inv_result_keep o : Inv o -> nodot (rev o). Proof. intros [_ H]; exact H. Qed.
Lemma Inv_result_drop o : Inv o -> nodot (rev (tl o)).
Proof. intros [[r ->] H]. simpl in *. apply (proj1 (nodot_snoc_slash _)) in H. exact H. Qed.

Lemma dropwhile_spec l : exists pre r, l = pre ++ r /\ noslash pre /\ dropwhile_ns l = r /\ (r = [] \/ exists r', r = slash :: r').
Proof.
  induction l as [|c l IH]; simpl.
  - exists [], []. repeat split; [constructor|now left].
  - destruct (c =? slash) eqn:E.
    + apply N.eqb_eq in E; subst. exists [], (slash :: l). repeat split; [constructor|right; eexists; reflexivity].
    + destruct IH as (pre & r & -> & Hp & Hd & Hr). exists (c :: pre), r. repeat split; try assumption. constructor; assumption.
Qed.

Lemma Inv_pop o : Inv o -> Inv (pop o).
Proof.
  intros [[r ->] H]. unfold pop. destruct r as [|a r].
  - split; [eexists; reflexivity|apply nodot_single].
  - destruct (dropwhile_spec (a :: r)) as (pre & r2 & Hl & Hp & Hd & Hr). rewrite Hd.
    destruct Hr as [->|[r' ->]].
    + split; [eexists; reflexivity|apply nodot_single].
    + split; [eexists; reflexivity|].
      rewrite Hl in H. simpl in H. rewrite rev_app_distr in H. simpl in H.
      rewrite <- !app_assoc in H. simpl in H.
      apply (proj1 (nodot_app_slash _ _)) in H as [H _]. simpl. apply nodot_snoc_slash. exact H.
Qed.

Lemma Inv_copy o s : Inv o -> noslash s -> okseg s -> Inv (rev (s ++ [slash]) ++ o).
Proof.
  intros [[r ->] H] Hs Hok. split.
  - rewrite rev_app_distr. simpl. eexists; reflexivity.
  - rewrite rev_app_distr, rev_involutive. simpl rev in *. 
    rewrite <- app_assoc. simpl. apply (proj1 (nodot_snoc_slash _)) in H.
    apply nodot_app_slash. split; [exact H|]. apply nodot_snoc_slash.
    unfold nodot. rewrite segs_noslash by assumption. constructor; [assumption|constructor].
Qed.

Lemma okseg_hd c s : (c =? dot) = false -> okseg (c :: s).
Proof. intros E. split; intros H; inversion H; subst; discriminate. Qed.

Theorem main_nodot fuel : forall o w, Inv o -> ends_slash w -> nodot (smain fuel o w).
Proof.
  induction fuel as [|f IH]; intros o w HI He; simpl; [apply nodot_nil|].
  destruct w as [|c w1]; [apply Inv_result_drop; assumption|].
  destruct (c =? slash) eqn:Ecs.
  { destruct (le1 w1) eqn:El; [apply Inv_result_keep; assumption|].
    apply IH; [assumption|]. apply ends_slash_tail in He; [assumption|]. destruct w1; [discriminate|discriminate]. }
  (* generic copy step, used three times *)
  assert (Hcopy : forall pre w', noslash pre -> ends_slash w' ->
            forall seg rest, take_seg w' = (seg, rest) -> (forall s r, w' = s ++ slash :: r -> noslash s -> okseg (pre ++ s)) -> w' <> [] ->
            nodot (smain f (rev seg ++ rev pre ++ o) rest)).
  { intros pre w' Hpre He' seg rest Ht Hok Hne.
    destruct (take_seg_spec w') as [(s & r & Hw & Hs & Ht')|[Hn _]].
    - rewrite Ht' in Ht. inversion Ht; subst seg rest. 
      replace (rev (s ++ [slash]) ++ rev pre ++ o) with (rev ((pre ++ s) ++ [slash]) ++ o)
        by (rewrite !rev_app_distr; simpl; rewrite <- !app_assoc; reflexivity).
      apply IH.
      + apply Inv_copy; [assumption| |apply (Hok s r Hw Hs)]. apply Forall_app; split; assumption.
      + rewrite Hw in He'. eapply ends_slash_split; eassumption.
    - exfalso. apply Hne. apply noslash_ends_slash_nil; assumption. }
  destruct (c =? dot) eqn:Ecd.
  - apply N.eqb_eq in Ecd; subst c.
    assert (He1 : ends_slash w1) by (destruct w1; [left; reflexivity|eapply ends_slash_tail; [eassumption|discriminate]]).
    destruct w1 as [|d [|e w2]].
    + exfalso. apply ends_slash_single in He. discriminate He.
    + destruct (d =? slash) eqn:Eds; [apply Inv_result_keep; assumption|].
      exfalso. apply ends_slash_single in He1. subst d. discriminate Eds.
    + destruct ((d =? dot) && (e =? slash)) eqn:Edd.
      { assert (He2 : ends_slash w2).
        { destruct w2; [left; reflexivity|]. eapply ends_slash_tail; [eapply ends_slash_tail; [exact He1|discriminate]|discriminate]. }
        destruct (le1 w2); [apply Inv_result_keep, Inv_pop; assumption|]. apply IH; [apply Inv_pop; assumption|assumption]. }
      destruct (d =? slash) eqn:Eds.
      { destruct w2 as [|g w3]; [apply Inv_result_keep; assumption|]. apply IH; [assumption|].
        eapply ends_slash_tail; [exact He1|discriminate]. }
      destruct (take_seg (d :: e :: w2)) as [seg rest] eqn:Ht.
      specialize (Hcopy [dot] (d :: e :: w2)). simpl rev in Hcopy. simpl app in Hcopy.
      apply Hcopy with (seg := seg) (rest := rest); try assumption.
      * constructor; [reflexivity|constructor].
      * intros s r Hw Hs. simpl. destruct s as [|a s].
        -- simpl in Hw. inversion Hw; subst. rewrite N.eqb_refl in Eds. discriminate.
        -- simpl in Hw. inversion Hw; subst a. destruct s as [|b s].
           ++ simpl in H1. inversion H1; subst e. 
              split; intros H; inversion H; subst; vm_compute in Edd; discriminate.
           ++ split; intros H; inversion H.
      * discriminate.
  - destruct (take_seg (c :: w1)) as [seg rest] eqn:Ht.
    specialize (Hcopy [] (c :: w1)). simpl in Hcopy.
    apply Hcopy with (seg := seg) (rest := rest); try assumption.
    + constructor.
    + intros s r Hw Hs. destruct s as [|a s]; simpl in Hw; inversion Hw; subst.
      * rewrite N.eqb_refl in Ecs. discriminate.
      * apply okseg_hd. assumption.
    + discriminate.
Qed.

(* ---------- the entry code of buffer_path_simplify *)
Lemma ends_slash_snoc s : ends_slash (s ++ [slash]).
Proof. right. exists s. reflexivity. Qed.

Lemma nodot_noslash_ok s : noslash s -> okseg s -> nodot s.
Proof. intros Hs Hok. unfold nodot. rewrite segs_noslash by assumption. constructor; [assumption|constructor]. Qed.

Lemma scanA_nodot fuel : forall orig pre_rev w,
  Inv pre_rev -> ends_slash w -> orig ++ [slash] = rev pre_rev ++ w ->
  nodot (scanA fuel orig pre_rev w).
Proof.
  induction fuel as [|f IH]; intros orig pre_rev w HI He Heq; simpl; [apply nodot_nil|].
  destruct w as [|c w'].
  - (* cannot happen for a sentinel-terminated walk, but harmless *)
    destruct HI as [[r ->] Hn]. simpl in Heq. rewrite app_nil_r in Heq.
    apply app_inj_tail in Heq as [-> _]. apply (proj1 (nodot_snoc_slash _)) in Hn. exact Hn.
  - destruct ((c =? dot) || (c =? slash)) eqn:Ec.
    + destruct w' as [|c2 w2]; simpl le1.
      * (* w = [c] = the sentinel alone *)
        apply ends_slash_single in He. subst c.
        apply app_inj_tail in Heq as [-> _]. apply HI.
      * apply main_nodot; assumption.
    + apply orb_false_iff in Ec as [Ecd Ecs].
      destruct (take_seg (c :: w')) as [seg rest] eqn:Ht.
      destruct (take_seg_spec (c :: w')) as [(s & r & Hw & Hs & Ht')|[Hn _]].
      * rewrite Ht' in Ht. inversion Ht; subst seg rest.
        assert (Hok : okseg s).
        { destruct s as [|a s]; simpl in Hw; inversion Hw; subst.
          - rewrite N.eqb_refl in Ecs. discriminate.
          - apply okseg_hd. assumption. }
        destruct r as [|r0 r'].
        -- (* last segment: nothing to simplify, the original is returned *)
           rewrite Hw in Heq. change (slash :: []) with [slash] in Heq.
           rewrite app_assoc in Heq. apply app_inj_tail in Heq as [-> _].
           destruct HI as [[q ->] Hn]. simpl rev in *. rewrite <- app_assoc. simpl.
           apply nodot_app_slash. split; [apply (proj1 (nodot_snoc_slash _)) in Hn; exact Hn|].
           apply nodot_noslash_ok; assumption.
        -- apply IH.
           ++ apply Inv_copy; assumption.
           ++ rewrite Hw in He. eapply ends_slash_split; eassumption.
           ++ rewrite Heq, Hw. rewrite rev_app_distr, rev_involutive. rewrite <- !app_assoc. reflexivity.
      * exfalso. apply noslash_ends_slash_nil in Hn; [discriminate|assumption].
Qed.

Lemma Inv_single : Inv [slash].
Proof. split; [exists []; reflexivity|apply nodot_single]. Qed.

Lemma ends_slash_tl_snoc (s : list N) k : ends_slash (skipn k (s ++ [slash])).
Proof.
  revert s. induction k as [|k IH]; intros s; simpl; [apply ends_slash_snoc|].
  destruct s as [|a s]; simpl; [destruct k; left; reflexivity|apply IH].
Qed.

Theorem simplify_nodot_all s : nodot (simplify s).
Proof.
  unfold simplify. destruct s as [|c0 s1]; [apply nodot_nil|].
  destruct (c0 =? slash) eqn:E0.
  - apply N.eqb_eq in E0; subst c0. apply scanA_nodot.
    + apply Inv_single.
    + apply ends_slash_snoc.
    + reflexivity.
  - (* relative input *)
    assert (Hrel : forall s' : list N, ends_slash s' -> s' <> [] ->
              nodot (let '(seg, rest) := take_seg s' in smain (length s' + 2) (rev seg) rest) \/
              (exists d, (d = [dot] \/ d = [dot; dot]) /\ exists r, s' = d ++ slash :: r)).
    { intros s' He Hne. destruct (take_seg s') as [seg rest] eqn:Ht.
      destruct (take_seg_spec s') as [(s & r & Hw & Hs & Ht')|[Hn _]].
      - rewrite Ht' in Ht. inversion Ht; subst seg rest.
        destruct (list_eq_dec N.eq_dec s [dot]) as [->|N1]; [right; exists [dot]; split; [left; reflexivity|exists r; exact Hw]|].
        destruct (list_eq_dec N.eq_dec s [dot; dot]) as [->|N2]; [right; exists [dot; dot]; split; [right; reflexivity|exists r; exact Hw]|].
        left. apply main_nodot.
        + split.
          * rewrite rev_app_distr. simpl. eexists; reflexivity.
          * rewrite rev_involutive. apply nodot_snoc_slash. apply nodot_noslash_ok; [assumption|split; assumption].
        + rewrite Hw in He. eapply ends_slash_split; eassumption.
      - exfalso. apply Hne. apply noslash_ends_slash_nil; assumption. }
    cbn [app].
    destruct (s1 ++ [slash]) as [|b rest2] eqn:Es1; [destruct s1; discriminate|].
    assert (He : ends_slash (c0 :: b :: rest2)) by (rewrite <- Es1; apply (ends_slash_snoc (c0 :: s1))).
    assert (He2 : ends_slash rest2).
    { destruct rest2; [left; reflexivity|]. eapply ends_slash_tail; [eapply ends_slash_tail; [exact He|discriminate]|discriminate]. }
    destruct ((c0 =? dot) && (b =? slash)) eqn:E1.
    { apply main_nodot; [apply Inv_single|exact He2]. }
    destruct rest2 as [|c rest3].
    + destruct (Hrel (c0 :: [b]) He ltac:(discriminate)) as [H|(d & [->| ->] & r & Hr)]; [exact H| |].
      * inversion Hr; subst. vm_compute in E1. discriminate.
      * inversion Hr.
    + destruct ((c0 =? dot) && (b =? dot) && (c =? slash)) eqn:E2.
      { apply main_nodot; [apply Inv_single|].
        destruct rest3; [left; reflexivity|]. eapply ends_slash_tail; [exact He2|discriminate]. }
      destruct (Hrel (c0 :: b :: c :: rest3) He ltac:(discriminate)) as [H|(d & [->| ->] & r & Hr)]; [exact H| |].
      * inversion Hr; subst. vm_compute in E1. discriminate.
      * inversion Hr; subst. vm_compute in E2. discriminate.
Qed.

(* ---------- what C02 needs: the path derived from any target under any options *)
Theorem parse_target_ok flags t t' path q :
  parse_target flags t = TOk t' path q ->
  (exists r, path = slash :: r) /\ nodot path.
Proof.
  unfold parse_target.
  destruct (if has_flag flags OPT_URL_NORMALIZE then _ else _) as [[b qs]|]; [|discriminate].
  destruct (split_qs b qs) as [p qq].
  pose proof (simplify_nodot_all (urldecode_path p)) as Hn.
  destruct (simplify (urldecode_path p)) as [|c r]; [discriminate|].
  destruct c as [|pc]; [discriminate|].
  do 6 (destruct pc as [pc|pc|]; try discriminate).
  intros H; inversion H; subst. split; [exists r; reflexivity|exact Hn].
Qed.

(* ---------- docroot join: root ++ path has the root as prefix and gains no dot segment *)
Lemma nodot_app_abs a b : nodot a -> nodot (slash :: b) -> nodot (a ++ slash :: b).
Proof. intros Ha Hb. apply nodot_app_slash. split; [exact Ha|]. change (slash :: b) with ([] ++ slash :: b) in Hb.
  apply nodot_app_slash in Hb. apply Hb. Qed.

Theorem path_join_contained root r :
  nodot root -> nodot (slash :: r) ->
  exists rest, path_join root (slash :: r) = root ++ rest /\ nodot (path_join root (slash :: r)).
Proof.
  intros Hr Hp. unfold path_join. simpl tl.
  destruct (rev root) as [|c rr] eqn:Er.
  - exists (slash :: r). split; [reflexivity|]. apply nodot_app_abs; assumption.
  - destruct (c =? 47) eqn:Ec.
    + apply N.eqb_eq in Ec. subst c.
      replace (match 47 with 47 => true | _ => false end) with true by reflexivity.
      exists r. split; [reflexivity|].
      assert (Hroot : root = rev rr ++ [slash]) by (rewrite <- (rev_involutive root), Er; reflexivity).
      rewrite Hroot in *. rewrite <- app_assoc. simpl. apply nodot_app_abs; [|exact Hp].
      apply nodot_snoc_slash. exact Hr.
    + assert (Hm : match c with 47 => true | _ => false end = false).
      { destruct c as [|pc]; [reflexivity|]. do 6 (destruct pc as [pc|pc|]; try reflexivity). vm_compute in Ec. discriminate. }
      rewrite Hm. exists (slash :: r). split; [reflexivity|]. apply nodot_app_abs; assumption.
Qed.
