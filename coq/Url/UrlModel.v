(* Executable model of the URL -> path pipeline:
     burl_normalize (src/burl.c), buffer_urldecode_path, buffer_path_simplify, buffer_append_path_len
     (src/buffer.c), the tail of http_request_parse_target (src/request.c).
   Tables and option bits come from Gen/GenBurl.v (regenerated from the C source). *)
From LV Require Import Base.Bytes Gen.GenBurl.
Local Open Scope N_scope.

Definition slash : N := 47.
Definition dot : N := 46.
Definition pct : N := 37.
Definition qmark : N := 63.

(* li_cton: hex digit value *)
Definition hexval (c : N) : option N :=
  if is_digit c then Some (c - 48)
  else let u := N.land c 223 in
       if (65 <=? u) && (u <=? 70) then Some (u - 55) else None.

Definition hexuc (n : N) : N := nth (N.to_nat n) hex_chars_uc 63.
Definition reqd (c : N) : bool := negb (nth (N.to_nat c) reqd_table 1 =? 0).
Definition is_alnum (c : N) : bool := is_digit c || is_alpha c.
Definition unreserved (c : N) : bool :=
  is_alnum c || (c =? 45) || (c =? 46) || (c =? 95) || (c =? 126).
Definition utf8_invalid (c : N) : bool := (245 <=? c) || (N.lor c 1 =? 193).

(* ---------------------------------------------------------------- buffer_urldecode_path *)
Definition dec_ctl (d : N) : N := if (32 <=? d) && negb (d =? 127) then d else 95.

Fixpoint udec_loop (s : list N) : list N :=
  match s with
  | [] => []
  | c :: t =>
      if c =? 0 then []
      else if c =? pct then
        match t with
        | h :: l :: t2 =>
            match (if h =? 0 then None else hexval l), hexval h with
            | Some lo, Some hi => dec_ctl (hi * 16 + lo) :: udec_loop t2
            | _, _ => pct :: udec_loop t
            end
        | _ => pct :: udec_loop t
        end
      else c :: udec_loop t
  end.

Fixpoint split_at_pct (s : list N) : list N * list N :=
  match s with
  | [] => ([], [])
  | c :: t => if c =? pct then ([], s) else let '(a, b) := split_at_pct t in (c :: a, b)
  end.

Definition urldecode_path (s : list N) : list N :=
  let '(pre, rest) := split_at_pct s in
  match rest with [] => s | _ => pre ++ udec_loop rest end.

(* ---------------------------------------------------------------- buffer_path_simplify
   out_rev = output so far, reversed; w = rest of the input including the '/' sentinel written
   over the terminating NUL. *)
Fixpoint take_seg (w : list N) : list N * list N :=
  match w with
  | [] => ([], [])
  | c :: w' => if c =? slash then ([c], w') else let '(a, b) := take_seg w' in (c :: a, b)
  end.

Fixpoint dropwhile_ns (l : list N) : list N :=
  match l with [] => [] | c :: l' => if c =? slash then l else dropwhile_ns l' end.

Definition pop (out_rev : list N) : list N :=
  match out_rev with
  | [] => [slash]
  | [_] => [slash]
  | _ :: rest => match dropwhile_ns rest with [] => [slash] | r => r end
  end.

Definition le1 (l : list N) : bool := match l with [] => true | [_] => true | _ => false end.

Fixpoint smain (fuel : nat) (out_rev w : list N) : list N :=
  match fuel with O => [] | S f =>
  match w with
  | [] => rev (tl out_rev)
  | c :: w1 =>
    if c =? slash then
      (if le1 w1 then rev out_rev else smain f out_rev w1)
    else if c =? dot then
      match w1 with
      | d :: e :: w2 =>
          if (d =? dot) && (e =? slash) then
            let o := pop out_rev in if le1 w2 then rev o else smain f o w2
          else if d =? slash then
            (if le1 (e :: w2) then rev out_rev else smain f out_rev (e :: w2))
          else let '(seg, rest) := take_seg w1 in smain f (rev seg ++ dot :: out_rev) rest
      | [d] => if d =? slash then rev out_rev
               else let '(seg, rest) := take_seg w1 in smain f (rev seg ++ dot :: out_rev) rest
      | [] => rev (dot :: out_rev)
      end
    else let '(seg, rest) := take_seg w in smain f (rev seg ++ out_rev) rest
  end end.

Fixpoint scanA (fuel : nat) (orig pre_rev w : list N) : list N :=
  match fuel with O => [] | S f =>
  match w with
  | [] => orig
  | c :: w' =>
     if (c =? dot) || (c =? slash) then (if le1 w then orig else smain (length w + 2) pre_rev w)
     else let '(seg, rest) := take_seg w in
          match rest with [] => orig | _ => scanA f orig (rev seg ++ pre_rev) rest end
  end end.

Definition simplify (s : list N) : list N :=
  match s with
  | [] => []
  | c0 :: s1 =>
    let s' := s ++ [slash] in
    if c0 =? slash then scanA (length s' + 2) s [slash] (s1 ++ [slash])
    else
      match s' with
      | a :: b :: rest2 =>
         if (a =? dot) && (b =? slash) then smain (length s' + 2) [slash] rest2
         else match rest2 with
              | c :: rest3 => if (a =? dot) && (b =? dot) && (c =? slash) then smain (length s' + 2) [slash] rest3
                              else let '(seg, rest) := take_seg s' in smain (length s' + 2) (rev seg) rest
              | [] => let '(seg, rest) := take_seg s' in smain (length s' + 2) (rev seg) rest
              end
      | _ => s
      end
  end.

(* ---------------------------------------------------------------- burl_normalize passes *)
Local Open Scope Z_scope.

(* burl_normalize_basic_unreserved (+ _fix): one pass; j = output index; qs = -1 none, -2 invalid UTF-8 *)
Fixpoint norm_unres (s : list N) (j qs : Z) : list N * Z :=
  match s with
  | [] => ([], qs)
  | c :: t =>
      let generic (k : Z -> Z -> list N * Z) :=
        if negb (reqd c)
        then let '(o, q) := k (j + 1) (if (c =? qmark)%N && (qs =? -1) then j else qs) in (c :: o, q)
        else if (c =? 35)%N then ([], qs)
        else let '(o, q) := k (j + 3) (if utf8_invalid c then -2 else qs) in
             (pct :: hexuc (c / 16) :: hexuc (c mod 16) :: o, q) in
      match t with
      | h :: l :: t2 =>
          match (if (c =? pct)%N then hexval h else None), hexval l with
          | Some n1, Some n2 =>
              let x := (n1 * 16 + n2)%N in
              if unreserved x then let '(o, q) := norm_unres t2 (j + 1) qs in (x :: o, q)
              else let '(o, q) := norm_unres t2 (j + 3) (if utf8_invalid x then -2 else qs) in
                   (pct :: hexuc n1 :: hexuc n2 :: o, q)
          | _, _ => generic (norm_unres t)
          end
      | _ => generic (norm_unres t)
      end
  end.

(* burl_normalize_basic_required (+ _fix): qs = index of the LAST '?' seen; inv = invalid UTF-8 seen *)
Definition keep_encoded_reqd (x : N) (qs : Z) : bool :=
  reqd x || (if qs <? 0 then (x =? 47)%N || (x =? 63)%N
             else (x =? 38)%N || (x =? 61)%N || (x =? 59)%N || (x =? 43)%N).

Fixpoint norm_reqd (s : list N) (j qs : Z) (inv : bool) : list N * Z * bool :=
  match s with
  | [] => ([], qs, inv)
  | c :: t =>
      let generic (k : Z -> Z -> bool -> list N * Z * bool) :=
        if negb (reqd c)
        then let '(o, q, i) := k (j + 1) (if (c =? qmark)%N then j else qs) inv in (c :: o, q, i)
        else if (c =? 35)%N then ([], qs, inv)
        else let '(o, q, i) := k (j + 3) qs (inv || utf8_invalid c) in
             (pct :: hexuc (c / 16) :: hexuc (c mod 16) :: o, q, i) in
      match t with
      | h :: l :: t2 =>
          match (if (c =? pct)%N then hexval h else None), hexval l with
          | Some n1, Some n2 =>
              let x := (n1 * 16 + n2)%N in
              if negb (keep_encoded_reqd x qs)
              then let '(o, q, i) := norm_reqd t2 (j + 1) qs inv in (x :: o, q, i)
              else let '(o, q, i) := norm_reqd t2 (j + 3) qs (inv || utf8_invalid x) in
                   (pct :: hexuc n1 :: hexuc n2 :: o, q, i)
          | _, _ => generic (norm_reqd t)
          end
      | _ => generic (norm_reqd t)
      end
  end.

Fixpoint find_byte (c : N) (s : list N) (i : Z) : Z :=
  match s with [] => -1 | x :: t => if (x =? c)%N then i else find_byte c t (i + 1) end.

(* burl_contains_ctrls: '%' followed by (signed char) < '2', or by "7F" *)
Fixpoint contains_ctrls (s : list N) : bool :=
  match s with
  | [] => false
  | c :: t =>
      ((c =? pct)%N &&
       (let h := nth 0 t 0%N in let l := nth 1 t 0%N in
        (h <? 50)%N || (128 <=? h)%N || ((h =? 55)%N && (l =? 70)%N)))
      || contains_ctrls t
  end.

Fixpoint replace3 (a b c r : N) (s : list N) : list N :=   (* every "abc" -> r *)
  match s with
  | [] => []
  | x :: t =>
      match t with
      | y :: z :: t2 => if (x =? a)%N && (y =? b)%N && (z =? c)%N then r :: replace3 a b c r t2
                        else x :: replace3 a b c r t
      | _ => x :: replace3 a b c r t
      end
  end.

Fixpoint has3 (a b c : N) (s : list N) : bool :=
  match s with
  | [] => false
  | x :: t => ((x =? a)%N && (nth 0 t 0 =? b)%N && (nth 1 t 0 =? c)%N) || has3 a b c t
  end.

Definition split_qs (s : list N) (qs : Z) : list N * list N :=
  if qs <? 0 then (s, []) else (firstn (Z.to_nat qs) s, skipn (Z.to_nat qs) s).

(* burl_normalize_path: does the (encoded) path need simplification?  s is the whole buffer, the scan
   runs over [0,len) and peeks at s[i+1], s[i+2] (NUL beyond the end). *)
Fixpoint needs_simplify (fuel : nat) (s : list N) (i len : nat) : bool :=
  match fuel with
  | O => false
  | S f =>
      if (len <=? i)%nat then false
      else
        let at_ k := nth k s 0%N in
        let i1 := if (at_ i =? dot)%N && (at_ (i + 1)%nat =? dot)%N then (i + 1)%nat else i in
        if (at_ i =? dot)%N &&
           ((at_ (i1 + 1)%nat =? slash)%N || (at_ (i1 + 1)%nat =? qmark)%N || (at_ (i1 + 1)%nat =? 0)%N)
        then true
        else
          (* while (i < len && s[i] != '/') ++i; *)
          let fix adv (g : nat) (k : nat) : nat :=
              match g with O => k | S g' => if (k <? len)%nat && negb (at_ k =? slash)%N then adv g' (S k) else k end in
          let i2 := adv (S len) i1 in
          if (at_ i2 =? slash)%N && (at_ (i2 + 1)%nat =? slash)%N then true
          else needs_simplify f s (S i2) len
  end.

Definition has_flag (flags f : N) : bool := negb (N.land flags f =? 0)%N.

Inductive norm_result := NormReject | NormOk (b : list N) (qs : Z).

Definition burl_normalize (flags : N) (s : list N) : norm_result :=
  let '(b1, qs1) :=
    if has_flag flags OPT_URL_NORMALIZE_REQUIRED
    then let '(o, q, i) := norm_reqd s 0 (-1) false in (o, if i then -2 else q)
    else norm_unres s 0 (-1) in
  if (qs1 =? -2) && has_flag flags OPT_URL_NORMALIZE_INVALID_UTF8_REJECT then NormReject
  else
    let qs2 := if qs1 =? -2 then find_byte qmark b1 0 else qs1 in
    if has_flag flags OPT_URL_NORMALIZE_CTRLS_REJECT && contains_ctrls b1 then NormReject
    else
      (* %2F *)
      let r3 :=
        if has_flag flags OPT_URL_NORMALIZE_PATH_2F_DECODE || has_flag flags OPT_URL_NORMALIZE_PATH_2F_REJECT
        then let '(p, q) := split_qs b1 qs2 in
             if has3 37 50 70 p
             then if has_flag flags OPT_URL_NORMALIZE_PATH_2F_DECODE
                  then let p' := replace3 37 50 70 47 p in
                       Some (p' ++ q, if qs2 <? 0 then qs2 else Z.of_nat (length p'))
                  else None
             else Some (b1, qs2)
        else Some (b1, qs2) in
      match r3 with
      | None => NormReject
      | Some (b3, qs3) =>
          let r4 :=
            if has_flag flags OPT_URL_NORMALIZE_PATH_DOTSEG_REMOVE || has_flag flags OPT_URL_NORMALIZE_PATH_DOTSEG_REJECT
            then let len := if qs3 <? 0 then length b3 else Z.to_nat qs3 in
                 if needs_simplify (S len) b3 0 len
                 then if has_flag flags OPT_URL_NORMALIZE_PATH_DOTSEG_REJECT then None
                      else let '(p, q) := split_qs b3 qs3 in
                           let p' := simplify p in
                           Some (p' ++ q, if qs3 <? 0 then qs3 else Z.of_nat (length p'))
                 else Some (b3, qs3)
            else Some (b3, qs3) in
          match r4 with
          | None => NormReject
          | Some (b4, qs4) =>
              if has_flag flags OPT_URL_NORMALIZE_QUERY_20_PLUS && (0 <=? qs4)
              then let '(p, q) := split_qs b4 qs4 in
                   NormOk (p ++ (match q with c :: q' => c :: replace3 37 50 48 43 q' | [] => [] end)) qs4
              else NormOk b4 qs4
          end
      end.

(* ---------------------------------------------------------------- http_request_parse_target *)
Inductive target_result := T400 | TOk (target path : list N) (query : option (list N)).

Fixpoint cut_at (c : N) (s : list N) : list N :=
  match s with [] => [] | x :: t => if (x =? c)%N then [] else x :: cut_at c t end.

Definition parse_target (flags : N) (target : list N) : target_result :=
  let r :=
    if has_flag flags OPT_URL_NORMALIZE
    then match burl_normalize flags target with
         | NormReject => None
         | NormOk b qs => Some (b, qs)
         end
    else let t := cut_at 35 target in Some (t, find_byte qmark t 0) in
  match r with
  | None => T400
  | Some (t, qs) =>
      let '(p, q) := split_qs t qs in
      let path := simplify (urldecode_path p) in
      match path with
      | 47%N :: _ => TOk t path (if qs <? 0 then None else Some (tl q))
      | _ => T400
      end
  end.

(* ---------------------------------------------------------------- docroot join (buffer_copy_path_len2) *)
Definition path_join (root rel : list N) : list N :=
  let root_slash := match rev root with 47%N :: _ => true | _ => false end in
  let rel_slash := match rel with 47%N :: _ => true | _ => false end in
  if root_slash then root ++ (if rel_slash then tl rel else rel)
  else root ++ (if rel_slash then rel else 47%N :: rel).
