From LV Require Import Base.Bytes Cq.CqModel.
Require Import ExtrOcamlBasic.
Extraction "model.ml" cq_empty content cq_length append_mem append_file append_cq mark_written remove_finished steal
  append_cq_range compact_mem peek_data read_data reset mem_to_temp spill read_squash steal_tmp first_is_mem.
