(* Containment proofs for the URL-path -> filesystem-path mapping stages (C02) and their documented shape (C20). *)
From Coq Require Import List NArith Bool Arith Lia.
From LV Require Import Base.Bytes Gen.GenBurl Gen.GenRoots Url.UrlModel Url.UrlProofs Roots.RootsModel.
Import ListNotations.
Local Open Scope N_scope.

(* ---------------------------------------------------------------- small list facts *)
Lemma ends_slash_b_snoc l c : ends_slash_b (l ++ [c]) = (c =? slash).
Proof. unfold ends_slash_b. rewrite rev_app_distr. reflexivity. Qed.

Lemma ends_slash_b_true l : ends_slash_b l = true -> exists l', l = l' ++ [slash].
Proof.
  destruct l as [|x l] using rev_ind; [discriminate|]. rewrite ends_slash_b_snoc. intro H. apply N.eqb_eq in H. subst x. eauto.
Qed.

Lemma prefixb_spec k : forall s, prefixb k s = true -> s = k ++ skipn (length k) s.
Proof.
  induction k as [|x k IH]; intros s H; [reflexivity|]. destruct s as [|y s]; [discriminate|]. cbn [prefixb] in H.
  apply andb_true_iff in H as [H1 H2]. apply N.eqb_eq in H1. subst y. cbn [length skipn app]. f_equal. apply IH. exact H2.
Qed.

Lemma prefixb_app k r : prefixb k (k ++ r) = true.
Proof. induction k as [|x k IH]; [reflexivity|]. cbn [prefixb app]. rewrite N.eqb_refl. exact IH. Qed.

Lemma find_key_spec al s k v : find_key al s = Some (k, v) -> In (k, v) al /\ prefixb k s = true.
Proof.
  induction al as [|[k0 v0] al IH]; [discriminate|]. cbn [find_key]. destruct (prefixb k0 s) eqn:E.
  - intro H. inversion H; subst. split; [left; reflexivity|exact E].
  - intro H. destruct (IH H) as [H1 H2]. split; [right; exact H1|exact H2].
Qed.

Definition absp (l : list N) : Prop := exists r, l = slash :: r.

(* first segment of a string *)
Lemma first_seg_split b : exists s t, b = s ++ t /\ noslash s /\ (t = [] \/ exists r, t = slash :: r).
Proof.
  induction b as [|c b IH].
  - exists [], []. repeat split; [constructor|left; reflexivity].
  - destruct (c =? slash) eqn:E.
    + apply N.eqb_eq in E. subst c. exists [], (slash :: b). repeat split; [constructor|right; eauto].
    + destruct IH as (s & t & -> & Hs & Ht). exists (c :: s), t. repeat split; [constructor; assumption|exact Ht].
Qed.

(* last segment of a string *)
Lemma last_seg_split a : exists p s, a = p ++ s /\ noslash s /\ (p = [] \/ exists p', p = p' ++ [slash]).
Proof.
  induction a as [|c a IH] using rev_ind.
  - exists [], []. repeat split; [constructor|left; reflexivity].
  - destruct (c =? slash) eqn:E.
    + apply N.eqb_eq in E. subst c. exists (a ++ [slash]), []. rewrite app_nil_r. repeat split; [constructor|right; eauto].
    + destruct IH as (p & s & -> & Hs & Hp). exists p, (s ++ [c]). rewrite app_assoc. repeat split; [|exact Hp].
      apply Forall_app. split; [exact Hs|constructor; [exact E|constructor]].
Qed.

Lemma noslash_app a b : noslash a -> noslash b -> noslash (a ++ b).
Proof. intros Ha Hb. apply Forall_app. split; assumption. Qed.

Lemma okseg_merge s t : s <> [] -> okseg s -> okseg (s ++ t).
Proof.
  intros Hne [H1 H2]. split; intro E.
  - destruct s as [|x [|y s]]; [contradiction| |discriminate]. cbn in E. injection E as Ex Et. subst x. apply H1. reflexivity.
  - destruct s as [|x [|y [|z s]]]; [contradiction| | |discriminate].
    + cbn in E. injection E as Ex Et. subst x. apply H1. reflexivity.
    + cbn in E. injection E as Ex Ey Et. subst x y. apply H2. reflexivity.
Qed.

Lemma nodot_noslash s : noslash s -> okseg s -> nodot s.
Proof. intros Hs Ho. unfold nodot. rewrite (segs_noslash _ Hs). constructor; [exact Ho|constructor]. Qed.

Lemma nodot_noslash_inv s : noslash s -> nodot s -> okseg s.
Proof. intros Hs Hn. unfold nodot in Hn. rewrite (segs_noslash _ Hs) in Hn. inversion Hn; assumption. Qed.

(* gluing b onto a, when a's last segment is non-empty: the merged segment cannot become "." or ".." *)
Lemma nodot_glue a s t :
  nodot a -> a <> [] -> ends_slash_b a = false -> noslash s -> (t = [] \/ exists r, t = slash :: r /\ nodot r) -> nodot (a ++ s ++ t).
Proof.
  intros Ha Hne He Hs Ht.
  destruct (last_seg_split a) as (p & sa & -> & Hsa & Hp).
  assert (Hsane : sa <> []).
  { intro E. subst sa. rewrite app_nil_r in *. destruct Hp as [->|[p' ->]]; [contradiction|]. rewrite ends_slash_b_snoc, N.eqb_refl in He. discriminate. }
  assert (Hok : okseg sa /\ (p = [] \/ exists p', p = p' ++ [slash] /\ nodot p')).
  { destruct Hp as [->|[p' ->]].
    - cbn in Ha. split; [apply nodot_noslash_inv; assumption|left; reflexivity].
    - rewrite <- app_assoc in Ha. cbn in Ha. apply nodot_app_slash in Ha as [H1 H2]. split; [apply nodot_noslash_inv; assumption|right; eauto]. }
  destruct Hok as [Hoks Hp'].
  assert (Hm : nodot ((sa ++ s) ++ t)).
  { destruct Ht as [->|(r & -> & Hr)].
    - rewrite app_nil_r. apply nodot_noslash; [apply noslash_app; assumption|apply okseg_merge; assumption].
    - apply nodot_app_slash. split; [|exact Hr]. apply nodot_noslash; [apply noslash_app; assumption|apply okseg_merge; assumption]. }
  destruct Hp' as [->|(p' & -> & Hp'n)].
  - cbn. rewrite app_assoc. exact Hm.
  - rewrite <- !app_assoc. cbn. apply nodot_app_slash. split; [exact Hp'n|]. rewrite app_assoc. exact Hm.
Qed.

Lemma nodot_app_ns a b : nodot a -> nodot b -> a <> [] -> ends_slash_b a = false -> nodot (a ++ b).
Proof.
  intros Ha Hb Hne He. destruct (first_seg_split b) as (s & t & -> & Hs & Ht).
  apply nodot_glue; try assumption.
  destruct Ht as [->|[r ->]]; [left; reflexivity|right]. exists r. split; [reflexivity|]. apply nodot_app_slash in Hb. apply Hb.
Qed.

Lemma nodot_app_se a b : nodot a -> nodot b -> ends_slash_b a = true -> nodot (a ++ b).
Proof.
  intros Ha Hb He. apply ends_slash_b_true in He as [a' ->]. rewrite <- app_assoc. cbn. apply nodot_app_slash. split; [|exact Hb].
  apply nodot_snoc_slash. exact Ha.
Qed.

Lemma nodot_app_any a b : nodot a -> nodot b -> (a <> [] \/ True) -> nodot (a ++ b).
Proof.
  intros Ha Hb _. destruct a as [|x a]; [exact Hb|]. destruct (ends_slash_b (x :: a)) eqn:E.
  - apply nodot_app_se; assumption.
  - apply nodot_app_ns; [assumption|assumption|discriminate|assumption].
Qed.

(* what follows a prefix k of a dot-free string *)
Lemma nodot_suffix_tail k s t : nodot (k ++ s ++ t) -> noslash s -> (t = [] \/ exists r, t = slash :: r) -> (t = [] \/ exists r, t = slash :: r /\ nodot r).
Proof.
  intros H Hs [->|[r ->]]; [left; reflexivity|right]. exists r. split; [reflexivity|]. rewrite app_assoc in H. apply nodot_app_slash in H. apply H.
Qed.

Lemma nodot_after_slash_end k rest : nodot (k ++ rest) -> ends_slash_b k = true -> nodot rest.
Proof. intros H He. apply ends_slash_b_true in He as [k' ->]. rewrite <- app_assoc in H. cbn in H. apply nodot_app_slash in H. apply H. Qed.

Lemma dotseg_follows_false s t : noslash s -> (t = [] \/ exists r, t = slash :: r) -> dotseg_follows (s ++ t) = false -> okseg s.
Proof.
  intros Hs Ht Hd. split; intro E; subst s.
  - destruct Ht as [->|[r ->]]; cbn in Hd; try discriminate; rewrite ?N.eqb_refl in Hd; discriminate.
  - destruct Ht as [->|[r ->]]; cbn in Hd; try discriminate; rewrite ?N.eqb_refl in Hd; discriminate.
Qed.

(* ---------------------------------------------------------------- mod_alias: the remapped path stays under the alias target *)
Theorem alias_contained al basedir pre uri p b :
  Forall (fun kv => nodot (snd kv) /\ absp (snd kv)) al ->
  length pre = (length basedir - (if ends_slash_b basedir then 1 else 0))%nat ->
  absp uri -> nodot uri ->
  alias_remap al basedir (pre ++ uri) = AliasTo p b ->
  exists k rest, In (k, b) al /\ uri = k ++ rest /\ p = b ++ rest /\ nodot p.
Proof.
  intros Hal Hlen [u0 Hu] Hn. unfold alias_remap. rewrite <- Hlen.
  assert (E1 : is_nil (pre ++ uri) = false) by (subst uri; destruct pre; reflexivity). rewrite E1.
  assert (E2 : (length (pre ++ uri) <? length pre)%nat = false) by (apply Nat.ltb_ge; rewrite app_length; lia). rewrite E2. cbn [orb].
  rewrite skipn_app, skipn_all, Nat.sub_diag. cbn [skipn app].
  destruct (find_key al uri) as [[k v]|] eqn:Ef; [|discriminate].
  apply find_key_spec in Ef as [Hin Hpre]. apply prefixb_spec in Hpre.
  set (rest := skipn (length k) uri) in *.
  destruct (dotseg_follows rest && negb (is_nil k) && negb (ends_slash_b k) && ends_slash_b v) eqn:Eg; [discriminate|].
  intro H. inversion H; subst p b. exists k, rest. repeat split; [exact Hin|exact Hpre|].
  rewrite Forall_forall in Hal. destruct (Hal _ Hin) as [Hv [v0 Hv0]]. cbn [snd] in Hv, Hv0.
  assert (Hvne : v <> []) by (rewrite Hv0; discriminate).
  rewrite Hpre in Hn.
  destruct (first_seg_split rest) as (s & t & Hr & Hs & Ht).
  destruct k as [|k0 k'] eqn:Ek.
  - (* empty key: rest is the whole absolute path *)
    cbn [app] in Hn. destruct (ends_slash_b v) eqn:Ev; [apply nodot_app_se|apply nodot_app_ns]; assumption.
  - rewrite <- Ek in *. assert (Hkne : is_nil k = false) by (rewrite Ek; reflexivity).
    destruct (ends_slash_b k) eqn:Eke.
    + assert (Hrest : nodot rest) by (eapply nodot_after_slash_end; eassumption).
      destruct (ends_slash_b v) eqn:Ev; [apply nodot_app_se|apply nodot_app_ns]; assumption.
    + rewrite Hkne in Eg. cbn [negb] in Eg. rewrite !andb_true_r in Eg.
      rewrite Hr in Hn. pose proof (nodot_suffix_tail _ _ _ Hn Hs Ht) as Ht'.
      destruct (ends_slash_b v) eqn:Ev.
      * rewrite ?andb_true_r in Eg. rewrite Hr in Eg. pose proof (dotseg_follows_false _ _ Hs Ht Eg) as Hoks.
        rewrite Hr. apply nodot_app_se; [exact Hv| |exact Ev].
        destruct Ht' as [->|(r & -> & Hrn)]; [rewrite app_nil_r; apply nodot_noslash; assumption|].
        apply nodot_app_slash. split; [apply nodot_noslash; assumption|exact Hrn].
      * rewrite Hr. apply nodot_glue; assumption.
Qed.

(* the guard is what makes this true: without it, key "/nos" with target "/srv/a2/" sends "/nos../x" to "/srv/a2/../x" *)
Example alias_guard_needed :
  alias_remap [([47;110;111;115], [47;115;47])] [47;119] ([47;119] ++ [47;110;111;115;46;46;47;120]) = Alias403.
Proof. vm_compute. reflexivity. Qed.

Example alias_maps :
  alias_remap [([47;97;108;47], [47;115;47])] [47;119] ([47;119] ++ [47;97;108;47;102]) = AliasTo [47;115;47;102] [47;115;47].
Proof. vm_compute. reflexivity. Qed.

(* ---------------------------------------------------------------- joining paths (buffer_append_path_len / buffer_copy_path_len2) *)
Lemma starts_slash_b_true l : starts_slash_b l = true -> exists r, l = slash :: r.
Proof. destruct l as [|c l]; [discriminate|]. cbn. intro H. apply N.eqb_eq in H. subst c. eauto. Qed.

Lemma nodot_cons_slash r : nodot (slash :: r) <-> nodot r.
Proof. change (slash :: r) with ([] ++ slash :: r). rewrite nodot_app_slash. split; [tauto|]. intro H. split; [apply nodot_nil|exact H]. Qed.

Lemma path_join_alt a b :
  path_join a b = if ends_slash_b a then a ++ (if starts_slash_b b then tl b else b) else a ++ (if starts_slash_b b then b else slash :: b).
Proof.
  unfold path_join, ends_slash_b, starts_slash_b.
  assert (H : forall (c : N), match c with 47 => true | _ => false end = (c =? slash)).
  { intro c. destruct (c =? slash) eqn:E; [apply N.eqb_eq in E; subst c; reflexivity|].
    destruct c as [|pc]; [reflexivity|]. do 6 (destruct pc as [pc|pc|]; try reflexivity). vm_compute in E. discriminate. }
  destruct (rev a) as [|c ra]; destruct b as [|x b]; cbn [tl]; rewrite ?H; reflexivity.
Qed.

Theorem path_join_nodot a b : nodot a -> nodot b -> nodot (path_join a b) /\ exists rest, path_join a b = a ++ rest.
Proof.
  intros Ha Hb. rewrite path_join_alt. destruct (ends_slash_b a) eqn:Ea; destruct (starts_slash_b b) eqn:Eb.
  - apply starts_slash_b_true in Eb as [r ->]. cbn [tl]. split; [|eauto]. apply nodot_app_se; [exact Ha| |exact Ea]. apply nodot_cons_slash. exact Hb.
  - split; [|eauto]. apply nodot_app_se; assumption.
  - apply starts_slash_b_true in Eb as [r ->]. split; [|eauto]. apply nodot_app_slash. split; [exact Ha|]. apply nodot_cons_slash. exact Hb.
  - split; [|eauto]. apply nodot_app_slash. split; assumption.
Qed.

Lemma append_slash_nodot a : nodot a -> nodot (append_slash a) /\ exists rest, append_slash a = a ++ rest.
Proof.
  intro Ha. unfold append_slash. destruct a as [|x a]; [split; [exact Ha|exists []; reflexivity]|].
  destruct (ends_slash_b (x :: a)); [split; [exact Ha|exists []; rewrite app_nil_r; reflexivity]|].
  split; [apply nodot_snoc_slash; exact Ha|eauto].
Qed.

(* ---------------------------------------------------------------- X-Sendfile, X-Sendfile2: decode, then simplify, then the docroot prefix test *)
Lemma has_root_spec roots q : has_root roots q = true -> exists r rest, In r roots /\ q = r ++ rest.
Proof.
  unfold has_root. intro H. apply existsb_exists in H as (r & Hin & Hp). exists r, (skipn (length r) q). split; [exact Hin|apply prefixb_spec; exact Hp].
Qed.

Ltac run_the_steps :=
  cbv [xsendfile xsendfile2 xsendfile_steps xsendfile2_steps destination_steps run_steps
       STEP_DECODE STEP_SIMPLIFY STEP_UTF8 STEP_UTF8_400 STEP_BLANK STEP_BLANK_SOFT STEP_ABS_400 STEP_DOCROOT STEP_LOWER N.eqb Pos.eqb].

Theorem xsendfile_contained u roots p q :
  xsendfile u roots p = XsSend q ->
  q = simplify (urldecode_path p) /\ nodot q /\ (roots <> [] -> exists r rest, In r roots /\ q = r ++ rest).
Proof.
  run_the_steps. destruct u; [|discriminate].
  destruct (is_nil (simplify (urldecode_path p))); [destruct (is_nil roots); discriminate|].
  destruct roots as [|r0 roots]; cbn [is_nil orb].
  - intro H. inversion H. split; [reflexivity|]. split; [apply simplify_nodot_all|]. intro C. contradiction.
  - destruct (has_root (r0 :: roots) (simplify (urldecode_path p))) eqn:Eh; [|discriminate].
    intro H. inversion H; subst q. split; [reflexivity|]. split; [apply simplify_nodot_all|]. intros _. apply has_root_spec. exact Eh.
Qed.

Theorem xsendfile2_contained u roots p q :
  xsendfile2 u roots p = XsSend q ->
  q = simplify (urldecode_path p) /\ nodot q /\ (roots <> [] -> exists r rest, In r roots /\ q = r ++ rest).
Proof.
  run_the_steps. destruct u; [|discriminate].
  destruct (is_nil (simplify (urldecode_path p))); [discriminate|].
  destruct roots as [|r0 roots]; cbn [is_nil orb].
  - intro H. inversion H. split; [reflexivity|]. split; [apply simplify_nodot_all|]. intro C. contradiction.
  - destruct (has_root (r0 :: roots) (simplify (urldecode_path p))) eqn:Eh; [|discriminate].
    intro H. inversion H; subst q. split; [reflexivity|]. split; [apply simplify_nodot_all|]. intros _. apply has_root_spec. exact Eh.
Qed.

(* a dot-free path that extends a root ending in '/' names something below that directory: every proper prefix ending in '/' of the
   remainder is a chain of ordinary segments *)
Corollary xsendfile_under_root u roots p q :
  roots <> [] -> Forall (fun r => ends_slash_b r = true) roots ->
  xsendfile u roots p = XsSend q -> exists r rest, In r roots /\ q = r ++ rest /\ nodot rest.
Proof.
  intros Hne Hsl H. apply xsendfile_contained in H as (_ & Hn & Hr). destruct (Hr Hne) as (r & rest & Hin & ->).
  exists r, rest. repeat split; [exact Hin|]. rewrite Forall_forall in Hsl. eapply nodot_after_slash_end; [exact Hn|apply Hsl; exact Hin].
Qed.

(* non-vacuity: an encoded traversal is neutralised by decode-then-simplify and then fails the prefix test *)
Example xsendfile_traversal_refused :
  xsendfile true [[47;102;47]] [47;102;47;37;50;101;37;50;101;47;115] = Xs403        (* "/f/%2e%2e/s" under root "/f/" *)
  /\ xsendfile true [[47;102;47]] [47;102;47;97;47;37;50;101;37;50;101;47;115] = XsSend [47;102;47;115].
Proof. vm_compute. split; reflexivity. Qed.

(* ---------------------------------------------------------------- simple-vhost *)
Definition host_ok (h : list N) : Prop := noslash h /\ (forall t, h <> dot :: t).

Lemma memb_false_noslash l : memb slash l = false -> noslash l.
Proof. induction l as [|x l IH]; cbn; intro H; [constructor|]. apply orb_false_iff in H as [H1 H2]. constructor; [exact H1|apply IH; exact H2]. Qed.

Lemma host_guard_loose auth : host_guard false auth = true -> host_ok auth.
Proof.
  unfold host_guard. cbn [orb]. intro H. apply andb_true_iff in H as [H1 H2]. apply negb_true_iff in H1, H2. split; [apply memb_false_noslash; exact H2|].
  intros t E. subst auth. cbn in H1. rewrite ?N.eqb_refl in H1. discriminate.
Qed.

Lemma cut_at_prefix c h : exists r, h = cut_at c h ++ r.
Proof. induction h as [|x h [r IH]]; [exists []; reflexivity|]. cbn. destruct (x =? c); [exists (x :: h); reflexivity|]. exists r. cbn. f_equal. exact IH. Qed.

Lemma host_part_seg h : host_ok h -> noslash (cut_at colon h) /\ okseg (cut_at colon h).
Proof.
  intros [Hs Hd]. destruct (cut_at_prefix colon h) as [r Hr]. split.
  - rewrite Hr in Hs. apply Forall_app in Hs. apply Hs.
  - split; intro E; rewrite E in Hr; cbn in Hr; eapply Hd; exact Hr.
Qed.

Theorem svh_path_contained sroot h droot :
  nodot sroot -> ends_slash_b sroot = true ->
  match h with Some a => host_ok a | None => True end ->
  match droot with Some d => nodot d | None => True end ->
  nodot (svh_path sroot h droot) /\ exists rest, svh_path sroot h droot = sroot ++ rest.
Proof.
  intros Hs He Hh Hd. unfold svh_path.
  set (hp := match h with Some a => cut_at colon a | None => [] end).
  assert (Hb : nodot (sroot ++ hp)).
  { apply nodot_app_se; [exact Hs| |exact He]. subst hp. destruct h as [a|]; [|apply nodot_nil].
    destruct (host_part_seg _ Hh). apply nodot_noslash; assumption. }
  destruct droot as [d|].
  - destruct (path_join_nodot _ _ Hb Hd) as [H1 [rest H2]]. split; [exact H1|]. exists (hp ++ rest). rewrite H2, app_assoc. reflexivity.
  - destruct (append_slash_nodot _ Hb) as [H1 [rest H2]]. split; [exact H1|]. exists (hp ++ rest). rewrite H2, app_assoc. reflexivity.
Qed.

Theorem svh_docroot_contained isdir strict sroot droot dhost auth p :
  nodot sroot -> ends_slash_b sroot = true ->
  match droot with Some d => nodot d | None => True end ->
  match dhost with Some a => host_ok a | None => True end ->
  (strict = true -> host_ok auth) ->
  svh_docroot isdir strict sroot droot dhost auth = Some p ->
  nodot p /\ exists rest, p = sroot ++ rest.
Proof.
  intros Hs He Hd Hdh Hst. unfold svh_docroot.
  destruct (negb (is_nil auth) && host_guard strict auth) eqn:Eg.
  - destruct (isdir (svh_path sroot (Some auth) droot)) eqn:Ei.
    + intro H. inversion H; subst p. apply svh_path_contained; try assumption.
      apply andb_true_iff in Eg as [_ Eg]. destruct strict; [apply Hst; reflexivity|apply host_guard_loose; exact Eg].
    + destruct (isdir (svh_path sroot dhost droot)); [|discriminate]. intro H. inversion H; subst p. apply svh_path_contained; assumption.
  - destruct (isdir (svh_path sroot dhost droot)); [|discriminate]. intro H. inversion H; subst p. apply svh_path_contained; assumption.
Qed.

(* without the guard the statement is false: host "../x" with host-strict off would leave the server root *)
Example svh_guard_needed : host_guard false [46;46;47;120] = false /\ svh_path [47;118;47] (Some [46;46;47;120]) None = [47;118;47;46;46;47;120;47].
Proof. vm_compute. split; reflexivity. Qed.

(* ---------------------------------------------------------------- mod_userdir (basepath variant) *)
Lemma after_spec c : forall l r, after c l = Some r ->
  exists u r', l = u ++ r /\ r = c :: r' /\ Forall (fun x => (x =? c) = false) u /\ firstn (length l - length r) l = u.
Proof.
  induction l as [|x l IH]; intros r H; [discriminate|]. cbn [after] in H. destruct (x =? c) eqn:E.
  - inversion H; subst r. apply N.eqb_eq in E. subst x. exists [], l. repeat split; [constructor|]. rewrite Nat.sub_diag. reflexivity.
  - destruct (IH _ H) as (u & r' & Hl & Hr & Hu & Hf). exists (x :: u), r'. repeat split; [cbn; f_equal; exact Hl|exact Hr|constructor; assumption|].
    assert (Hlen : (length r <= length l)%nat) by (rewrite Hl, app_length; lia).
    replace (length (x :: l) - length r)%nat with (S (length l - length r)) by (cbn [length]; lia). cbn [firstn]. f_equal. exact Hf.
Qed.

Lemma ud_char_noslash u : forallb ud_char_ok u = true -> noslash u.
Proof.
  intro H. rewrite forallb_forall in H. apply Forall_forall. intros x Hx. specialize (H x Hx).
  destruct (x =? slash) eqn:E; [|reflexivity]. apply N.eqb_eq in E. subst x. vm_compute in H. discriminate.
Qed.

Theorem userdir_contained c uri p b :
  nodot (ud_base c) -> (forall up, ud_path c = Some up -> nodot up) -> nodot uri ->
  userdir c uri = UdTo p b ->
  nodot p /\ nodot b /\ (exists rest, b = ud_base c ++ rest) /\ (exists rest, p = b ++ rest).
Proof.
  intros Hbase Hup Huri. unfold userdir.
  destruct uri as [|c1 [|c2 uptr]]; try discriminate.
  destruct (negb ((c1 =? slash) && (c2 =? 126))) eqn:E0; [discriminate|].
  destruct (ud_path c) as [upath|] eqn:Ep; [|discriminate].
  destruct (negb (ud_active c)); [discriminate|].
  destruct (after slash uptr) as [rel|] eqn:Ea; [|destruct (is_nil uptr); discriminate].
  apply after_spec in Ea as (u & rel' & Hl & Hrel & Hu & Hf). rewrite Hf.
  destruct (is_nil u) eqn:Enil; [discriminate|].
  destruct (in_list u (ud_excl c)); [discriminate|].
  destruct (match ud_incl c with Some l => negb (in_list u l) | None => false end); [discriminate|].
  destruct (256 <=? length u)%nat; [discriminate|].
  destruct (list_eqb u [dot] || list_eqb u [dot; dot]) eqn:Ed; [discriminate|].
  destruct (negb (forallb ud_char_ok u)) eqn:Ec; [discriminate|].
  destruct (ud_letter c && list_eqb (firstn 1 u) [dot]) eqn:El; [discriminate|].
  intro H. injection H as <- <-.
  apply negb_false_iff in Ec. pose proof (ud_char_noslash _ Ec) as Hns.
  apply orb_false_iff in Ed as [Ed1 Ed2].
  assert (Hoku : okseg u).
  { split; intro E; [rewrite E in Ed1; vm_compute in Ed1|rewrite E in Ed2; vm_compute in Ed2]; discriminate. }
  assert (Hnu : nodot u) by (apply nodot_noslash; assumption).
  assert (Hb1 : nodot (if ud_letter c then path_join (ud_base c) (firstn 1 u) else ud_base c)
                /\ exists r1, (if ud_letter c then path_join (ud_base c) (firstn 1 u) else ud_base c) = ud_base c ++ r1).
  { destruct (ud_letter c) eqn:Elt; [|split; [exact Hbase|exists []; rewrite app_nil_r; reflexivity]].
    cbn [andb] in El. destruct u as [|x u']; [discriminate|]. cbn [firstn] in *.
    apply path_join_nodot; [exact Hbase|]. inversion Hns; subst. apply nodot_noslash; [constructor; [assumption|constructor]|].
    split; intro E; [|discriminate]. inversion E; subst x. cbn in El. discriminate. }
  destruct Hb1 as [Hb1 [r1 Hr1]].
  destruct (path_join_nodot _ _ Hb1 Hnu) as [Hb2 [r2 Hr2]].
  destruct (path_join_nodot _ _ Hb2 (Hup _ eq_refl)) as [Hb3 [r3 Hr3]].
  destruct (append_slash_nodot _ Hb3) as [Hb4 [r4 Hr4]].
  assert (Htl : nodot (tl rel)).
  { subst rel. cbn [tl]. rewrite Hl in Huri. change (c1 :: c2 :: u ++ slash :: rel') with ((c1 :: c2 :: u) ++ slash :: rel') in Huri.
    apply nodot_app_slash in Huri. apply Huri. }
  change (match u with [] => [] | a :: _ => [a] end) with (firstn 1 u).
  split; [|split; [exact Hb3|split]].
  - apply nodot_app_any; [exact Hb4|exact Htl|right; exact I].
  - exists (r1 ++ r2 ++ r3). rewrite Hr3, Hr2, Hr1, <- !app_assoc. reflexivity.
  - exists (r4 ++ tl rel). rewrite Hr4, <- app_assoc. reflexivity.
Qed.

(* "/~../x" and "/~./x" are not user names: the request falls through to the ordinary document root *)
Example userdir_dotdot_is_no_user :
  userdir {| ud_active := true; ud_path := Some [112]; ud_base := [47;104]; ud_letter := false; ud_excl := []; ud_incl := None |} [47;126;46;46;47;120] = UdNone
  /\ userdir {| ud_active := true; ud_path := Some [112]; ud_base := [47;104]; ud_letter := false; ud_excl := []; ud_incl := None |} [47;126;117;47;120] = UdTo [47;104;47;117;47;112;47;120] [47;104;47;117;47;112].
Proof. vm_compute. split; reflexivity. Qed.

(* ---------------------------------------------------------------- stat_cache_path_contains_symlink *)
Lemma last_index_of_spec c : forall l i best,
  (last_index_of c l i best = best /\ Forall (fun x => (x =? c) = false) l)
  \/ (exists j, last_index_of c l i best = Some (i + j)%nat /\ (j < length l)%nat /\ nth j l 0 = c
                /\ forall k, (j < k < length l)%nat -> (nth k l 0 =? c) = false).
Proof.
  induction l as [|x l IH]; intros i best; cbn [last_index_of].
  - left. split; [reflexivity|constructor].
  - destruct (x =? c) eqn:E.
    + destruct (IH (S i) (Some i)) as [[H1 H2]|(j & H1 & H2 & H3 & H4)].
      * right. exists O. rewrite Nat.add_0_r. split; [exact H1|]. split; [cbn; lia|]. split; [apply N.eqb_eq in E; exact E|].
        intros k Hk. destruct k as [|k]; [lia|]. cbn [nth]. rewrite Forall_forall in H2. apply H2. apply nth_In. cbn [length] in Hk. lia.
      * right. exists (S j). replace (i + S j)%nat with (S i + j)%nat by lia. split; [exact H1|]. split; [cbn; lia|]. split; [exact H3|].
        intros k Hk. destruct k as [|k]; [lia|]. cbn [nth]. apply H4. cbn [length] in Hk. lia.
    + destruct (IH (S i) best) as [[H1 H2]|(j & H1 & H2 & H3 & H4)].
      * left. split; [exact H1|constructor; assumption].
      * right. exists (S j). replace (i + S j)%nat with (S i + j)%nat by lia. split; [exact H1|]. split; [cbn; lia|]. split; [exact H3|].
        intros k Hk. destruct k as [|k]; [lia|]. cbn [nth]. apply H4. cbn [length] in Hk. lia.
Qed.

Lemma nth_firstn_lt {A} (l : list A) d : forall n j, (j < n)%nat -> nth j (firstn n l) d = nth j l d.
Proof. induction l as [|x l IH]; intros n j H; [destruct n; destruct j; reflexivity|]. destruct n; [lia|]. destruct j; [reflexivity|]. cbn. apply IH. lia. Qed.

Lemma sym_walk_sound lst : forall fuel buf,
  sym_walk fuel lst buf = 0%Z ->
  forall j, (0 < j)%nat -> (j = length buf \/ ((j < length buf)%nat /\ nth j buf 0 = slash)) -> lst (firstn j buf) = Some false.
Proof.
  induction fuel as [|f IH]; intros buf H j Hj Hc; [discriminate|]. cbn [sym_walk] in H.
  destruct (lst buf) as [[|]|] eqn:El; try discriminate.
  destruct Hc as [->|[Hlt Hn]]; [rewrite firstn_all; exact El|].
  destruct (last_index_of_spec slash buf O None) as [[H1 H2]|(j0 & H1 & H2 & H3 & H4)].
  - exfalso. rewrite Forall_forall in H2. specialize (H2 (nth j buf 0) (nth_In _ _ Hlt)). rewrite Hn, N.eqb_refl in H2. discriminate.
  - rewrite H1 in H. cbn [Nat.add] in H.
    assert (Hle : (j <= j0)%nat).
    { destruct (Nat.le_gt_cases j j0) as [Hle|Hgt]; [exact Hle|]. specialize (H4 j (conj Hgt Hlt)). rewrite Hn, N.eqb_refl in H4. discriminate. }
    destruct j0 as [|j0']; [lia|].
    assert (Hlen : length (firstn (S j0') buf) = S j0') by (rewrite firstn_length; lia).
    specialize (IH _ H j Hj). rewrite firstn_firstn, Nat.min_l in IH by lia. apply IH. rewrite Hlen.
    destruct (Nat.eq_dec j (S j0')) as [->|Hne]; [left; reflexivity|right]. split; [lia|]. rewrite nth_firstn_lt by lia. exact Hn.
Qed.

(* when the walk answers 0, neither the name nor any of its ancestors (cut at a '/' other than the leading one) is a symbolic link *)
Theorem contains_symlink_sound lst name :
  contains_symlink lst name = 0%Z -> (1 < length name)%nat ->
  forall j, (0 < j)%nat -> (j = length name \/ ((j < length name)%nat /\ nth j name 0 = slash)) -> lst (firstn j name) = Some false.
Proof.
  unfold contains_symlink. destruct (is_nil name); [discriminate|]. destruct (negb (starts_slash_b name)); [discriminate|].
  destruct (Nat.eqb (length name) 1) eqn:E1; [apply Nat.eqb_eq in E1; lia|].
  destruct (PATH_MAX <=? N.of_nat (length name)); [discriminate|]. intros H _. eapply sym_walk_sound. exact H.
Qed.

Example symlink_found :
  contains_symlink (fun p => if list_eqb p [47;97] then Some true else Some false) [47;97;47;98] = 1%Z
  /\ contains_symlink (fun p => Some false) [47;97;47;98] = 0%Z.
Proof. vm_compute. split; reflexivity. Qed.

(* ---------------------------------------------------------------- WebDAV Destination *)
Lemma common_len_spec : forall a b, firstn (common_len a b) a = firstn (common_len a b) b.
Proof.
  induction a as [|x a IH]; intros [|y b]; cbn [common_len]; try reflexivity.
  destruct (x =? y) eqn:E; [|reflexivity]. apply N.eqb_eq in E. subst y. cbn [firstn]. f_equal. apply IH.
Qed.

Lemma common_len_le a : forall b, (common_len a b <= length a)%nat /\ (common_len a b <= length b)%nat.
Proof. induction a as [|x a IH]; intros [|y b]; cbn [common_len length]; try lia. destruct (x =? y); [destruct (IH b)|]; lia. Qed.

Lemma back_to_slash_spec p : forall i, let i' := back_to_slash i p in (i' <= i)%nat /\ (i' = O \/ ((i' < i)%nat /\ nth i' p 0 = slash)).
Proof.
  induction i as [|i IH]; cbn [back_to_slash]; [split; [lia|left; reflexivity]|].
  destruct (nth i p 0 =? slash) eqn:E.
  - split; [lia|right]. split; [lia|apply N.eqb_eq in E; exact E].
  - destruct IH as [H1 H2]. split; [lia|]. destruct H2 as [H2|[H2 H3]]; [left; exact H2|right; split; [lia|exact H3]].
Qed.

Lemma skipn_nth_cons {A} (l : list A) d : forall i, (i < length l)%nat -> skipn i l = nth i l d :: skipn (S i) l.
Proof. induction l as [|x l IH]; intros i H; [cbn in H; lia|]. destruct i; [reflexivity|]. cbn [skipn nth]. apply IH. cbn in H. lia. Qed.

Lemma nth_firstn_eq (a b : list N) n i : firstn n a = firstn n b -> (i < n)%nat -> nth i a 0 = nth i b 0.
Proof. intros H Hi. rewrite <- (nth_firstn_lt a 0 n i Hi), <- (nth_firstn_lt b 0 n i Hi), H. reflexivity. Qed.

Lemma destination_pipeline u raw d :
  run_steps u [] destination_steps raw = XsSend d -> d = simplify (urldecode_path raw) /\ starts_slash_b d = true.
Proof.
  run_the_steps. destruct u; [|discriminate]. destruct (starts_slash_b (simplify (urldecode_path raw))) eqn:E; [|discriminate].
  intro H. inversion H; subst d. split; [reflexivity|exact E].
Qed.

Theorem dav_dest_contained u scheme auth rel phys basedir docroot dest d dp :
  nodot phys -> nodot docroot -> absp rel ->
  dav_dest u scheme auth rel phys basedir docroot dest = DPath d dp ->
  nodot d /\ absp d /\ nodot dp /\
  ((exists rest, dp = docroot ++ rest) \/
   (exists n rest, (length basedir - (if ends_slash_b basedir then 1 else 0) <= n)%nat /\ dp = firstn n phys ++ rest)).
Proof.
  intros Hphys Hdoc [rel0 Hrel]. unfold dav_dest.
  match goal with |- match ?s with _ => _ end = _ -> _ => destruct s as [[|c0 pth]|] end; try discriminate.
  destruct (PATH_MAX <=? N.of_nat (length (cut_at qmark (c0 :: pth)))); [discriminate|].
  destruct (run_steps u [] destination_steps (cut_at qmark (c0 :: pth))) as [| | |d0] eqn:Er; try discriminate.
  apply destination_pipeline in Er as [Hd0 Habs].
  assert (Hnd : nodot d0) by (rewrite Hd0; apply simplify_nodot_all).
  apply starts_slash_b_true in Habs as [d1 Hd1].
  set (cl := common_len rel d0). set (i := back_to_slash cl rel).
  set (remain := (length rel - i)%nat). set (n := (length phys - remain)%nat).
  destruct (length phys <=? remain)%nat eqn:Elr; [discriminate|]. apply Nat.leb_gt in Elr.
  set (blen := (length basedir - (if ends_slash_b basedir then 1 else 0))%nat).
  (* facts about the split point *)
  destruct (back_to_slash_spec rel cl) as [Hi1 Hi2]. fold i in Hi1, Hi2.
  destruct (common_len_le rel d0) as [Hcl1 Hcl2]. fold cl in Hcl1, Hcl2.
  assert (Hir : nth i rel 0 = slash) by (destruct Hi2 as [->|[_ H]]; [rewrite Hrel; reflexivity|exact H]).
  assert (Hid : nth i d0 0 = slash).
  { destruct Hi2 as [->|[Hlt H]]; [rewrite Hd1; reflexivity|]. rewrite <- (nth_firstn_eq rel d0 cl i (common_len_spec rel d0) Hlt). exact H. }
  assert (Hilr : (i < length rel)%nat) by (destruct Hi2 as [->|[Hlt _]]; [rewrite Hrel; cbn; lia|lia]).
  assert (Hild : (i < length d0)%nat) by (destruct Hi2 as [->|[Hlt _]]; [rewrite Hd1; cbn; lia|lia]).
  assert (Hsd : skipn i d0 = slash :: skipn (S i) d0) by (rewrite (skipn_nth_cons d0 0 i Hild), Hid; reflexivity).
  assert (Hnsd : nodot (skipn i d0)).
  { rewrite Hsd. apply nodot_cons_slash. rewrite <- (firstn_skipn i d0), Hsd in Hnd. apply nodot_app_slash in Hnd. apply Hnd. }
  match goal with |- context [if ?c then path_join (firstn ?nn phys) ?x else ?y] => destruct c eqn:Ec end.
  - (* remap onto the source's physical prefix *)
    apply andb_true_iff in Ec as [Ec1 Ec2]. apply list_eqb_eq in Ec1. apply Nat.leb_le in Ec2.
    assert (Hnp : nodot (firstn n phys)).
    { rewrite <- (firstn_skipn n phys) in Hphys. fold remain n in Ec1. rewrite <- Ec1, (skipn_nth_cons rel 0 i Hilr), Hir in Hphys.
      apply nodot_app_slash in Hphys. apply Hphys. }
    destruct (path_join_nodot _ _ Hnp Hnsd) as [Hj1 [rest Hj2]]. fold remain n in Hj1, Hj2 |- *.
    destruct (PATH_MAX <=? N.of_nat (length (path_join (firstn n phys) (skipn i d0)))); [discriminate|].
    match goal with |- (if ?c then _ else _) = _ -> _ => destruct c end; [discriminate|].
    intro H. inversion H; subst d dp. split; [exact Hnd|]. split; [exists d1; exact Hd1|]. split; [exact Hj1|].
    right. exists n, rest. split; [fold blen; fold remain n in Ec2; exact Ec2|exact Hj2].
  - destruct (path_join_nodot _ _ Hdoc Hnd) as [Hj1 [rest Hj2]].
    destruct (PATH_MAX <=? N.of_nat (length (path_join docroot d0))); [discriminate|].
    match goal with |- (if ?c then _ else _) = _ -> _ => destruct c end; [discriminate|].
    intro H. inversion H; subst d dp. split; [exact Hnd|]. split; [exists d1; exact Hd1|]. split; [exact Hj1|]. left. exists rest. exact Hj2.
Qed.

(* with the source under its base directory, the destination is under the same base directory or under the document root *)
Corollary dav_dest_under_base u scheme auth rel bd x basedir docroot dest d dp :
  nodot (bd ++ x) -> nodot docroot -> absp rel ->
  length bd = (length basedir - (if ends_slash_b basedir then 1 else 0))%nat ->
  dav_dest u scheme auth rel (bd ++ x) basedir docroot dest = DPath d dp ->
  nodot dp /\ ((exists rest, dp = docroot ++ rest) \/ (exists rest, dp = bd ++ rest)).
Proof.
  intros Hp Hd Hr Hl H. apply dav_dest_contained in H as (_ & _ & Hn & [H|(n & rest & Hle & ->)]); try assumption.
  - split; [exact Hn|left; exact H].
  - split; [exact Hn|right]. rewrite firstn_app. rewrite firstn_all2 by lia. rewrite <- app_assoc. eauto.
Qed.

(* the suffix-match heuristic on its own is not enough: with an alias target that ends like the alias key, "/x" would be mapped next to the
   target; the basedir bound sends it to the document root instead *)
Example dav_alias_coincidence :
  dav_dest true [104] [104] [47;100;47;115] [47;112;47;100;47;115] [47;112;47;100;47] [47;119] [47;120] = DPath [47;120] [47;119;47;120].
Proof. vm_compute. reflexivity. Qed.

(* ---------------------------------------------------------------- the composition in http_response_prepare *)
Definition conf_ok (c : conf) : Prop :=
  nodot (c_docroot c) /\ c_ev c = None /\
  Forall (fun kv => nodot (snd kv) /\ absp (snd kv)) (c_alias c) /\
  match c_svh c with
  | Some (sr, dr, dh) => nodot sr /\ ends_slash_b sr = true /\ match dr with Some d => nodot d | None => True end
                         /\ match dh with Some a => host_ok a | None => True end
  | None => True end /\
  match c_ud c with Some u => nodot (ud_base u) /\ (forall up, ud_path u = Some up -> nodot up) | None => True end.

Definition designated (c : conf) (dr b : list N) : Prop :=
  (b = dr /\ (dr = c_docroot c \/ exists sr d h rest, c_svh c = Some (sr, d, h) /\ dr = sr ++ rest))
  \/ (exists k, In (k, b) (c_alias c))
  \/ (exists u rest, c_ud c = Some u /\ b = ud_base u ++ rest).

Lemma path_join_split dr r :
  exists pre, path_join dr (slash :: r) = pre ++ slash :: r /\ length pre = (length dr - (if ends_slash_b dr then 1 else 0))%nat.
Proof.
  rewrite path_join_alt. cbn [starts_slash_b tl]. rewrite N.eqb_refl. destruct (ends_slash_b dr) eqn:E.
  - apply ends_slash_b_true in E as [dr' ->]. exists dr'. split; [rewrite <- app_assoc; reflexivity|rewrite app_length; cbn; lia].
  - exists dr. split; [reflexivity|lia].
Qed.

Theorem physical_contained isdir c auth uripath dr b p :
  conf_ok c -> absp uripath -> nodot uripath -> (c_strict c = true -> host_ok auth) ->
  physical isdir c auth uripath = Phys dr b p ->
  nodot p /\ nodot b /\ (exists rest, p = b ++ rest) /\ designated c dr b.
Proof.
  intros (Hdoc & Hev & Hal & Hsvh & Hud) [r Hr] Huri Hst. unfold physical. rewrite Hev.
  set (dr1 := match c_svh c with Some (sr, d, dh) => svh_docroot isdir (c_strict c) sr d dh auth | None => None end).
  set (dr0 := match dr1 with Some d => d | None => c_docroot c end).
  assert (Hdr0 : nodot dr0 /\ (dr0 = c_docroot c \/ exists sr d h rest, c_svh c = Some (sr, d, h) /\ dr0 = sr ++ rest)).
  { subst dr0 dr1. destruct (c_svh c) as [[[sr d] dh]|] eqn:Es; [|split; [exact Hdoc|left; reflexivity]].
    destruct Hsvh as (H1 & H2 & H3 & H4).
    destruct (svh_docroot isdir (c_strict c) sr d dh auth) as [q|] eqn:Eq; [|split; [exact Hdoc|left; reflexivity]].
    apply svh_docroot_contained in Eq as [Hn [rest Hq]]; try assumption. split; [exact Hn|right]. exists sr, d, dh, rest. split; [first [reflexivity|exact Es]|exact Hq]. }
  destruct Hdr0 as [Hn0 Hdes0].
  subst uripath.
  destruct (path_join_contained dr0 r Hn0 Huri) as [rest0 [Hp0 Hnp0]].
  destruct (path_join_split dr0 r) as [pre [Hsplit Hlen]].
  destruct (alias_remap (c_alias c) dr0 (path_join dr0 (slash :: r))) as [| |ap ab] eqn:Ea.
  - (* no alias *)
    destruct (c_ud c) as [u|] eqn:Eu.
    + destruct Hud as [Hu1 Hu2]. destruct (userdir u (slash :: r)) as [| |up ub] eqn:Eud.
      * intro H. inversion H; subst dr b p. split; [exact Hnp0|]. split; [exact Hn0|]. split; [eauto|]. left. split; [reflexivity|exact Hdes0].
      * discriminate.
      * intro H. inversion H; subst dr b p. apply userdir_contained in Eud as (H1 & H2 & [rest1 H3] & H4); try assumption.
        split; [exact H1|]. split; [exact H2|]. split; [exact H4|]. right. right. exists u, rest1. split; [exact Eu|exact H3].
    + intro H. inversion H; subst dr b p. split; [exact Hnp0|]. split; [exact Hn0|]. split; [eauto|]. left. split; [reflexivity|exact Hdes0].
  - discriminate.
  - rewrite Hsplit in Ea. apply alias_contained in Ea as (k & rest & Hin & _ & Hp & Hnp); try assumption; [|exists r; reflexivity].
    intro H. inversion H; subst dr b p. split; [exact Hnp|]. split.
    + rewrite Forall_forall in Hal. apply (Hal _ Hin).
    + split; [eauto|]. right. left. exists k. exact Hin.
Qed.

(* from the request target to the file name: what reaches the filesystem is dot-free and extends a designated base *)
Theorem target_to_physical isdir flags c auth target t' path q dr b p :
  conf_ok c -> (c_strict c = true -> host_ok auth) ->
  parse_target flags target = TOk t' path q ->
  physical isdir c auth path = Phys dr b p ->
  nodot p /\ nodot b /\ (exists rest, p = b ++ rest) /\ designated c dr b.
Proof.
  intros Hc Hs Ht Hp. apply parse_target_ok in Ht as [[r Hr] Hn]. eapply physical_contained; try eassumption. exists r. exact Hr.
Qed.

(* ---------------------------------------------------------------- evhost: whatever the pattern, nothing taken from the Host can add a '/' *)
Lemma noslash_firstn l n : noslash l -> noslash (firstn n l).
Proof. intro H. rewrite <- (firstn_skipn n l) in H. apply Forall_app in H. apply H. Qed.
Lemma noslash_skipn l n : noslash l -> noslash (skipn n l).
Proof. intro H. rewrite <- (firstn_skipn n l) in H. apply Forall_app in H. apply H. Qed.
Lemma noslash_sub l a b : noslash l -> noslash (sub l a b).
Proof. intro H. unfold sub. apply noslash_firstn, noslash_skipn, H. Qed.

Lemma ev_scan2_noslash h : noslash h -> forall p col i acc,
  Forall (fun kv => noslash (snd kv)) acc -> Forall (fun kv => noslash (snd kv)) (snd (ev_scan2 p h col i acc)).
Proof.
  intros Hh. induction p as [|p IH]; intros col i acc Ha; cbn [ev_scan2]; [exact Ha|].
  destruct (nth (S p) h 0 =? dot); [destruct (negb (Nat.eqb (S p) (col - 1)))|]; apply IH; try exact Ha.
  constructor; [apply noslash_sub; exact Hh|exact Ha].
Qed.

Lemma parse_host_noslash h : noslash h -> Forall (fun kv => noslash (snd kv)) (parse_host h).
Proof.
  intro Hh. unfold parse_host.
  assert (Hbr : Forall (fun kv : N * list N => noslash (snd kv))
                  match last_index_of 93 h 0 None with
                  | Some j => if Nat.eqb (S j) (length h) then [(0, h)] else if nth (S j) h 0 =? colon then [(0, firstn (S j) h)] else []
                  | None => [] end).
  { destruct (last_index_of 93 h 0 None) as [j|]; [|constructor]. destruct (Nat.eqb (S j) (length h)); [constructor; [exact Hh|constructor]|].
    destruct (nth (S j) h 0 =? colon); [constructor; [apply noslash_firstn; exact Hh|constructor]|constructor]. }
  destruct h as [|c h']; [|destruct (c =? 91) eqn:E91].
  - cbn. constructor; [constructor|constructor].
  - apply N.eqb_eq in E91. subst c. exact Hbr.
  - set (h := c :: h') in *.
    assert (Hgen : Forall (fun kv : N * list N => noslash (snd kv))
      (let '(p, col) := ev_scan1 (length h) h (length h) true in
       let p' := if nth p h 0 =? dot then S p else p in
       let acc0 := [(0, sub h p' col)] in
       if Nat.eqb col 0 then acc0 else
       let '(col2, i, acc) := ev_scan2 (col - 1) h col 1 acc0 in
       if Nat.eqb col2 0 then acc else (i, sub h 0 col2) :: acc)).
    { destruct (ev_scan1 (length h) h (length h) true) as [p col]. cbv zeta.
      assert (H0 : Forall (fun kv : N * list N => noslash (snd kv)) [(0, sub h (if nth p h 0 =? dot then S p else p) col)])
        by (constructor; [apply noslash_sub; exact Hh|constructor]).
      destruct (Nat.eqb col 0); [exact H0|].
      pose proof (ev_scan2_noslash h Hh (col - 1)%nat col 1 _ H0) as H2.
      destruct (ev_scan2 (col - 1) h col 1 [(0, sub h (if nth p h 0 =? dot then S p else p) col)]) as [[col2 i] acc]. cbn [snd] in H2.
      destruct (Nat.eqb col2 0); [exact H2|]. constructor; [apply noslash_sub; exact Hh|exact H2]. }
    subst h. destruct c as [|pc]; [exact Hgen|].
    do 7 (destruct pc as [pc|pc|]; try exact Hgen). vm_compute in E91. discriminate.
Qed.

Lemma lookup_noslash m : Forall (fun kv => noslash (snd kv)) m -> forall k v, lookup k m = Some v -> noslash v.
Proof.
  induction 1 as [|[k0 v0] m H0 Hm IH]; intros k v; cbn [lookup]; [discriminate|]. destruct (k0 =? k); [intro E; inversion E; subst; exact H0|apply IH].
Qed.

Theorem evhost_host_adds_no_slash auth p :
  noslash auth -> match p with PLit _ => True | _ => noslash (piece_value auth (parse_host auth) p) end.
Proof.
  intro Ha. pose proof (parse_host_noslash auth Ha) as Hm. destruct p as [s| | |d|d [k|]]; cbn [piece_value]; try exact I.
  - constructor; [reflexivity|constructor].
  - destruct (cut_at_prefix colon auth) as [r Hr]. rewrite Hr in Ha. apply Forall_app in Ha. apply Ha.
  - destruct (lookup d (parse_host auth)) as [v|] eqn:E; [eapply lookup_noslash; eassumption|constructor].
  - destruct (lookup d (parse_host auth)) as [v|] eqn:E; [|constructor]. pose proof (lookup_noslash _ Hm _ _ E) as Hv.
    destruct (k =? 0) eqn:Ek0; [exact Hv|]. apply N.eqb_neq in Ek0. destruct (N.to_nat k <=? length v)%nat eqn:El; [|constructor].
    constructor; [|constructor]. unfold noslash in Hv. rewrite Forall_forall in Hv. apply Hv. apply nth_In. apply Nat.leb_le in El. lia.
  - destruct (lookup d (parse_host auth)) as [v|] eqn:E; [eapply lookup_noslash; eassumption|constructor].
Qed.

(* ---------------------------------------------------------------- C20: alias.url replaces exactly the matched prefix, first rule in order *)
Lemma find_key_first al s k v : find_key al s = Some (k, v) ->
  exists al1 al2, al = al1 ++ (k, v) :: al2 /\ prefixb k s = true /\ forall k' v', In (k', v') al1 -> prefixb k' s = false.
Proof.
  induction al as [|[k0 v0] al IH]; [discriminate|]. cbn [find_key]. destruct (prefixb k0 s) eqn:E.
  - intro H. inversion H; subst. exists [], al. split; [reflexivity|]. split; [exact E|]. intros k' v' [].
  - intro H. destruct (IH H) as (al1 & al2 & -> & Hp & Hf). exists ((k0, v0) :: al1), al2. split; [reflexivity|]. split; [exact Hp|].
    intros k' v' [Hin|Hin]; [inversion Hin; subst; exact E|eapply Hf; exact Hin].
Qed.

Theorem alias_replaces_exactly_the_matched_prefix al basedir pre uri p b :
  length pre = (length basedir - (if ends_slash_b basedir then 1 else 0))%nat -> uri <> [] ->
  alias_remap al basedir (pre ++ uri) = AliasTo p b ->
  exists al1 k al2 rest, al = al1 ++ (k, b) :: al2 /\ (forall k' v', In (k', v') al1 -> prefixb k' uri = false)
                         /\ uri = k ++ rest /\ p = b ++ rest.
Proof.
  intros Hlen Hne. unfold alias_remap. rewrite <- Hlen.
  assert (E1 : is_nil (pre ++ uri) = false) by (destruct pre; [destruct uri; [contradiction|reflexivity]|reflexivity]). rewrite E1.
  assert (E2 : (length (pre ++ uri) <? length pre)%nat = false) by (apply Nat.ltb_ge; rewrite app_length; lia). rewrite E2. cbn [orb].
  rewrite skipn_app, skipn_all, Nat.sub_diag. cbn [skipn app].
  destruct (find_key al uri) as [[k v]|] eqn:Ef; [|discriminate].
  apply find_key_first in Ef as (al1 & al2 & Hal & Hp & Hf). apply prefixb_spec in Hp.
  match goal with |- (if ?c then _ else _) = _ -> _ => destruct c end; [discriminate|].
  intro H. inversion H; subst p b. exists al1, k, al2, (skipn (length k) uri). repeat split; assumption.
Qed.

(* the documented example of mod_evhost: sub2.sub1.domain.tld *)
Example evhost_documented_pieces :
  let host := [115;117;98;50;46;115;117;98;49;46;100;111;109;97;105;110;46;116;108;100;58;56;48] in      (* "sub2.sub1.domain.tld:80" *)
  lookup 0 (parse_host host) = Some [100;111;109;97;105;110;46;116;108;100]                              (* %0 = domain.tld *)
  /\ lookup 1 (parse_host host) = Some [116;108;100]                                                     (* %1 = tld *)
  /\ lookup 2 (parse_host host) = Some [100;111;109;97;105;110]                                          (* %2 = domain *)
  /\ lookup 3 (parse_host host) = Some [115;117;98;49]                                                   (* %3 = sub1 *)
  /\ lookup 4 (parse_host host) = Some [115;117;98;50]                                                   (* %4 = sub2 *)
  /\ lookup 5 (parse_host host) = None.
Proof. vm_compute. repeat split; reflexivity. Qed.
