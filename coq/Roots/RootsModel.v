(* URL path -> filesystem path: the mapping stages behind C02 (containment) and C20 (documented mapping).
   Hand-written executable models of
     mod_alias_remap()                         src/mod_alias.c
     build_doc_root_path(), mod_simple_vhost_docroot()   src/mod_simple_vhost.c
     mod_evhost_parse_pattern(), mod_evhost_parse_host(), mod_evhost_build_doc_root_path()   src/mod_evhost.c
     mod_userdir_docroot_handler(), mod_userdir_docroot_construct() (basepath variant)       src/mod_userdir.c
     http_response_xsendfile(), http_response_xsendfile2() path handling                     src/http-header-glue.c
     mod_webdav_copymove_b() Destination handling                                            src/mod_webdav.c
     stat_cache_path_contains_symlink()                                                      src/stat_cache.c
     http_response_prepare() doc_root + rel_path composition                                 src/response.c
   Tied to the code by harness/roots_h.c (unit) and props/roots.py (real server, debug.log-request-handling).
   The order of the steps in the X-Sendfile / Destination pipelines is re-read from the source on every run (Gen/GenRoots.v). *)
From Coq Require Import List NArith Bool Arith.
From LV Require Import Base.Bytes Gen.GenBurl Gen.GenRoots Url.UrlModel.
Import ListNotations.
Local Open Scope N_scope.

Definition colon : N := 58.
Definition ends_slash_b (l : list N) : bool := match rev l with c :: _ => c =? slash | [] => false end.
Definition starts_slash_b (l : list N) : bool := match l with c :: _ => c =? slash | [] => false end.
Definition append_slash (l : list N) : list N := match l with [] => [] | _ => if ends_slash_b l then l else l ++ [slash] end.
Definition is_nil {A} (l : list A) : bool := match l with [] => true | _ => false end.
Definition sub (l : list N) (a b : nat) : list N := firstn (b - a) (skipn a l).
Fixpoint memb (c : N) (l : list N) : bool := match l with [] => false | x :: t => (x =? c) || memb c t end.
Fixpoint after (c : N) (l : list N) : option (list N) :=           (* strchr: the suffix starting AT the first c *)
  match l with [] => None | x :: t => if x =? c then Some l else after c t end.

(* ---------------------------------------------------------------- mod_alias *)
Fixpoint find_key (al : list (list N * list N)) (s : list N) : option (list N * list N) :=
  match al with
  | [] => None
  | (k, v) :: t => if prefixb k s then Some (k, v) else find_key t s
  end.

Inductive alias_result := AliasNone | Alias403 | AliasTo (path basedir : list N).

Definition dotseg_follows (rest : list N) : bool :=          (* rest = ".", "..", "./..." or "../..." *)
  match rest with
  | 46 :: r1 => let r2 := match r1 with 46 :: r => r | _ => r1 end in
                match r2 with [] => true | c :: _ => c =? slash end
  | _ => false
  end.

Definition alias_remap (al : list (list N * list N)) (basedir path : list N) : alias_result :=
  let bl := (length basedir - (if ends_slash_b basedir then 1 else 0))%nat in
  if is_nil path || (length path <? bl)%nat then AliasNone else
  let uri := skipn bl path in
  match find_key al uri with
  | None => AliasNone
  | Some (k, v) =>
      let rest := skipn (length k) uri in
      if dotseg_follows rest && negb (is_nil k) && negb (ends_slash_b k) && ends_slash_b v then Alias403
      else AliasTo (v ++ rest) v
  end.

(* ---------------------------------------------------------------- mod_simple_vhost *)
Definition svh_path (sroot : list N) (host droot : option (list N)) : list N :=
  let b := sroot ++ match host with Some h => cut_at colon h | None => [] end in
  match droot with Some d => path_join b d | None => append_slash b end.

Definition host_guard (strict : bool) (auth : list N) : bool :=
  strict || (negb (match auth with c :: _ => c =? dot | [] => false end) && negb (memb slash auth)).

Definition svh_docroot (isdir : list N -> bool) (strict : bool) (sroot : list N) (droot dhost : option (list N))
                       (auth : list N) : option (list N) :=
  let try h := let p := svh_path sroot h droot in if isdir p then Some p else None in
  match (if negb (is_nil auth) && host_guard strict auth then try (Some auth) else None) with
  | Some p => Some p
  | None => try dhost
  end.

(* ---------------------------------------------------------------- mod_evhost *)
Inductive piece := PLit (s : list N) | PPct | PHost | PNum (d : N) | PSub (d : N) (k : option N).

Fixpoint ev_pattern (fuel : nat) (s lit : list N) : option (list piece) :=     (* lit: literal collected so far, reversed *)
  match fuel with O => None | S f =>
  match s with
  | [] => Some (if is_nil lit then [] else [PLit (rev lit)])
  | 37 :: t =>
      let emit p rest := match ev_pattern f rest [] with Some ps => Some (PLit (rev lit) :: p :: ps) | None => None end in
      match t with
      | 37 :: r => emit PPct r
      | 95 :: r => emit PHost r
      | 123 :: d :: 125 :: r => if is_digit d then emit (PSub (d - 48) None) r else None
      | 123 :: d :: 46 :: k :: 125 :: r => if is_digit d && is_digit k then emit (PSub (d - 48) (Some (k - 48))) r else None
      | d :: r => if is_digit d then emit (PNum (d - 48)) r else None
      | [] => None
      end
  | c :: t => ev_pattern f t (c :: lit)
  end end.
Definition parse_pattern (s : list N) : option (list piece) := ev_pattern (S (length s)) s [].

Fixpoint ev_scan1 (i : nat) (h : list N) (col : nat) (first : bool) : nat * nat :=
  match i with
  | O => (O, col)
  | S i' => let c := nth i h 0 in
      if c =? dot then (if first then ev_scan1 i' h col false else (i, col))
      else if c =? colon then ev_scan1 i' h i true
      else ev_scan1 i' h col first
  end.

Fixpoint ev_scan2 (p : nat) (h : list N) (col : nat) (i : N) (acc : list (N * list N)) : nat * N * list (N * list N) :=
  match p with
  | O => (col, i, acc)
  | S p' =>
      if nth p h 0 =? dot then
        (if negb (Nat.eqb p (col - 1)) then ev_scan2 p' h p (i + 1) ((i, sub h (S p) col) :: acc)
         else ev_scan2 p' h p i acc)
      else ev_scan2 p' h col i acc
  end.

Fixpoint last_index_of (c : N) (l : list N) (i : nat) (best : option nat) : option nat :=
  match l with [] => best | x :: t => last_index_of c t (S i) (if x =? c then Some i else best) end.

Definition parse_host (h : list N) : list (N * list N) :=
  match h with
  | 91 :: _ =>      (* '[' IPv6 literal: %0 is the bracketed address without the port *)
      match last_index_of 93 h O None with
      | None => []
      | Some j => if Nat.eqb (S j) (length h) then [(0, h)]
                  else if nth (S j) h 0 =? colon then [(0, firstn (S j) h)] else []
      end
  | _ =>
      let '(p, col) := ev_scan1 (length h) h (length h) true in
      let p' := if nth p h 0 =? dot then S p else p in
      let acc0 := [(0, sub h p' col)] in
      if Nat.eqb col O then acc0 else
      let '(col2, i, acc) := ev_scan2 (col - 1) h col 1 acc0 in
      if Nat.eqb col2 O then acc else (i, sub h O col2) :: acc
  end.

Fixpoint lookup (k : N) (m : list (N * list N)) : option (list N) :=
  match m with [] => None | (k', v) :: t => if k' =? k then Some v else lookup k t end.

Definition piece_value (auth : list N) (m : list (N * list N)) (p : piece) : list N :=
  match p with
  | PLit s => s
  | PPct => [37]
  | PHost => cut_at colon auth
  | PNum d => match lookup d m with Some v => v | None => [] end
  | PSub d None => match lookup d m with Some v => v | None => [] end
  | PSub d (Some k) =>
      match lookup d m with
      | Some v => if k =? 0 then v else if (N.to_nat k <=? length v)%nat then [nth (N.to_nat k - 1) v 0] else []
      | None => []
      end
  end.

Definition evhost_path (pieces : list piece) (auth : list N) : list N :=
  append_slash (concat (map (piece_value auth (parse_host auth)) pieces)).

Definition evhost_docroot (isdir : list N -> bool) (strict : bool) (pieces : list piece) (auth : list N) : option (list N) :=
  if is_nil auth then None else
  if negb (host_guard strict auth) then None else
  let p := evhost_path pieces auth in if isdir p then Some p else None.

(* ---------------------------------------------------------------- mod_userdir (userdir.basepath variant) *)
Inductive ud_result := UdNone | UdRedirect | UdTo (path basedir : list N).
Record udconf := { ud_active : bool; ud_path : option (list N); ud_base : list N; ud_letter : bool;
                   ud_excl : list (list N); ud_incl : option (list (list N)) }.
Definition in_list (u : list N) (l : list (list N)) : bool := existsb (list_eqb u) l.
Definition ud_char_ok (c : N) : bool := is_alnum c || (c =? 45) || (c =? 95) || (c =? dot).

Definition userdir (c : udconf) (uri : list N) : ud_result :=
  match uri with
  | c1 :: c2 :: uptr =>
      if negb ((c1 =? slash) && (c2 =? 126)) then UdNone else
      match ud_path c with
      | None => UdNone
      | Some upath =>
        if negb (ud_active c) then UdNone else
        match after slash uptr with
        | None => if is_nil uptr then UdNone else UdRedirect
        | Some rel =>
            let u := firstn (length uptr - length rel) uptr in
            if is_nil u then UdNone
            else if in_list u (ud_excl c) then UdNone
            else if match ud_incl c with Some l => negb (in_list u l) | None => false end then UdNone
            else if (256 <=? length u)%nat then UdNone
            else if list_eqb u [dot] || list_eqb u [dot; dot] then UdNone
            else if negb (forallb ud_char_ok u) then UdNone
            else if ud_letter c && list_eqb (firstn 1 u) [dot] then UdNone
            else
              let b0 := ud_base c in
              let b1 := if ud_letter c then path_join b0 (firstn 1 u) else b0 in
              let b := path_join (path_join b1 u) upath in
              UdTo (append_slash b ++ tl rel) b
        end
      end
  | _ => UdNone
  end.

(* ---------------------------------------------------------------- X-Sendfile / X-Sendfile2 / Destination path pipelines
   the steps and their order come from the source (Gen/GenRoots.v); the interpreter below runs them in that order *)
Inductive xs_result := Xs502 | Xs403 | Xs400 | XsSend (p : list N).

Definition has_root (roots : list (list N)) (p : list N) : bool := existsb (fun r => prefixb r p) roots.

Fixpoint run_steps (utf8ok : bool) (roots : list (list N)) (steps : list N) (p : list N) : xs_result :=
  match steps with
  | [] => XsSend p
  | s :: t =>
      if s =? STEP_DECODE then run_steps utf8ok roots t (urldecode_path p)
      else if s =? STEP_SIMPLIFY then run_steps utf8ok roots t (simplify p)
      else if s =? STEP_UTF8 then (if utf8ok then run_steps utf8ok roots t p else Xs502)
      else if s =? STEP_UTF8_400 then (if utf8ok then run_steps utf8ok roots t p else Xs400)
      else if s =? STEP_BLANK then (if is_nil p then Xs502 else run_steps utf8ok roots t p)
      else if s =? STEP_BLANK_SOFT then (if is_nil p then (if is_nil roots then Xs502 else Xs403) else run_steps utf8ok roots t p)
      else if s =? STEP_ABS_400 then (if starts_slash_b p then run_steps utf8ok roots t p else Xs400)
      else if s =? STEP_DOCROOT then (if is_nil roots || has_root roots p then run_steps utf8ok roots t p else Xs403)
      else run_steps utf8ok roots t p      (* STEP_LOWER: force-lowercase-filenames is off in every modelled configuration *)
  end.

Definition xsendfile (utf8ok : bool) (roots : list (list N)) (p : list N) : xs_result := run_steps utf8ok roots xsendfile_steps p.
Definition xsendfile2 (utf8ok : bool) (roots : list (list N)) (p : list N) : xs_result := run_steps utf8ok roots xsendfile2_steps p.

(* mod_webdav_copymove_b: Destination -> destination rel_path, then remap onto the source's physical prefix *)
Inductive dest_result := DStatus (code : N) | DPath (rel phys : list N).

Fixpoint common_len (a b : list N) : nat :=
  match a, b with x :: a', y :: b' => if x =? y then S (common_len a' b') else O | _, _ => O end.
Fixpoint back_to_slash (i : nat) (p : list N) : nat :=        (* while (i != 0 && p1[--i] != '/') ; *)
  match i with O => O | S i' => if nth i' p 0 =? slash then i' else back_to_slash i' p end.

Definition dav_dest (utf8ok : bool) (scheme auth rel phys basedir docroot dest : list N) : dest_result :=
  let start :=
    if starts_slash_b dest then Some dest
    else if negb (prefixb (scheme ++ [colon; slash; slash]) dest) then None
    else let s := skipn (length scheme + 3) dest in
         match after slash s with
         | None => None
         | Some pth =>
             let hostpart := firstn (length s - length pth) s in
             if list_eqb hostpart auth then Some pth
             else match after 64 hostpart with
                  | Some (_ :: h2) => if list_eqb h2 auth then Some pth else Some []     (* [] marks "other host" *)
                  | _ => Some []
                  end
         end in
  match start with
  | None => DStatus 400
  | Some [] => DStatus 502
  | Some pth =>
      let raw := cut_at qmark pth in
      if (PATH_MAX <=? N.of_nat (length raw)) then DStatus 403 else
      match run_steps utf8ok [] destination_steps raw with
      | Xs400 => DStatus 400 | Xs502 => DStatus 400 | Xs403 => DStatus 403
      | XsSend d =>
          let i := back_to_slash (common_len rel d) rel in
          let remain := (length rel - i)%nat in
          if (length phys <=? remain)%nat then DStatus 403 else
          let blen := (length basedir - (if ends_slash_b basedir then 1 else 0))%nat in
          let dp := if list_eqb (skipn i rel) (skipn (length phys - remain) phys) && (blen <=? length phys - remain)%nat
                    then path_join (firstn (length phys - remain) phys) (skipn i d)
                    else path_join docroot d in
          if (PATH_MAX <=? N.of_nat (length dp)) then DStatus 403 else
          if prefixb phys dp && (ends_slash_b phys || match skipn (length phys) dp with [] => true | c :: _ => c =? slash end)
          then DStatus 403 else DPath d dp
      end
  end.

(* ---------------------------------------------------------------- stat_cache_path_contains_symlink
   lstat oracle: None = error, Some true = symbolic link, Some false = anything else *)
Fixpoint sym_walk (fuel : nat) (lst : list N -> option bool) (buf : list N) : Z :=
  match fuel with O => (-1)%Z | S f =>
    match lst buf with
    | None => (-1)%Z
    | Some true => 1%Z
    | Some false => match last_index_of slash buf O None with
                    | Some (S j) => sym_walk f lst (firstn (S j) buf)
                    | _ => 0%Z
                    end
    end
  end.

Definition contains_symlink (lst : list N -> option bool) (name : list N) : Z :=
  if is_nil name then (-1)%Z else if negb (starts_slash_b name) then (-1)%Z
  else if Nat.eqb (length name) 1 then 0%Z
  else if (PATH_MAX <=? N.of_nat (length name)) then (-1)%Z
  else sym_walk (S (length name)) lst name.

(* ---------------------------------------------------------------- http_response_prepare: docroot selection + join + physical handlers *)
Record conf := { c_docroot : list N; c_strict : bool;
                 c_alias : list (list N * list N);
                 c_svh : option (list N * option (list N) * option (list N));
                 c_ev : option (list piece);
                 c_ud : option udconf }.

Inductive phys_result := PhysStatus (code : N) | Phys (docroot basedir path : list N).

Definition physical (isdir : list N -> bool) (c : conf) (auth uripath : list N) : phys_result :=
  let dr1 := match c_svh c with Some (sr, dr, dh) => svh_docroot isdir (c_strict c) sr dr dh auth | None => None end in
  let dr2 := match c_ev c with Some ps => evhost_docroot isdir (c_strict c) ps auth | None => None end in
  let dr := match dr2 with Some d => d | None => match dr1 with Some d => d | None => c_docroot c end end in
  let p0 := path_join dr uripath in
  match alias_remap (c_alias c) dr p0 with
  | Alias403 => PhysStatus 403
  | AliasTo p b => Phys dr b p
  | AliasNone =>
      match c_ud c with
      | Some u => match userdir u uripath with
                  | UdRedirect => PhysStatus 301
                  | UdTo p b => Phys dr b p
                  | UdNone => Phys dr dr p0
                  end
      | None => Phys dr dr p0
      end
  end.
