(* What request_check_hostname() / http_request_host_normalize() let through (H1/H1Model.v) is a host the virtual-host modules can
   use as a path segment: no '/', no leading '.'.  This discharges the host-strict hypothesis of Roots/RootsProofs.v. *)
From Coq Require Import List NArith ZArith Bool Arith Lia.
From LV Require Import Base.Bytes Gen.GenBurl Gen.GenH1 Url.UrlModel Url.UrlProofs H1.H1Model Roots.RootsModel Roots.RootsProofs.
Import ListNotations.
Local Open Scope N_scope.

Definition nonul (l : list N) : Prop := Forall (fun c => c <> 0) l.

Lemma cstr_end_nonul l : nonul l -> cstr_end l = true -> l = [].
Proof. destruct l as [|c l]; [reflexivity|]. intros Hn H. cbn in H. inversion Hn; subst. apply N.eqb_eq in H. contradiction. Qed.

Definition hostc (c : N) : bool := is_digit c || is_alpha c || (c =? 45) || (c =? 46).
Lemma hostc_noslash c : hostc c = true -> (c =? slash) = false.
Proof. intro H. destruct (c =? slash) eqn:E; [|reflexivity]. apply N.eqb_eq in E. subst c. vm_compute in H. discriminate. Qed.
Lemma digit_noslash c : is_digit c = true -> (c =? slash) = false.
Proof. intro H. destruct (c =? slash) eqn:E; [|reflexivity]. apply N.eqb_eq in E. subst c. vm_compute in H. discriminate. Qed.

(* ---------------------------------------------------------------- labels_ok: every character of the name part is a host character *)
Lemma labels_ok_chars : forall fuel h i hlen ll an nm lv r,
  labels_ok fuel h i hlen ll an nm lv = Some r -> (hlen - i < fuel)%nat ->
  forall j, (i <= j < hlen)%nat -> hostc (at_ h j) = true.
Proof.
  induction fuel as [|f IH]; intros h i hlen ll an nm lv r H Hf j Hj; [lia|]. cbn [labels_ok] in H.
  destruct (hlen <=? i)%nat eqn:E; [apply Nat.leb_le in E; lia|]. apply Nat.leb_gt in E.
  assert (Hstep : forall ll' an' nm' lv', labels_ok f h (S i) hlen ll' an' nm' lv' = Some r -> hostc (at_ h i) = true -> hostc (at_ h j) = true).
  { intros ll' an' nm' lv' H' Hi. destruct (Nat.eq_dec j i) as [->|Hne]; [exact Hi|]. eapply IH; [exact H'|lia|lia]. }
  destruct (is_digit (at_ h i)) eqn:Ed; [eapply Hstep; [exact H|unfold hostc; rewrite Ed; reflexivity]|].
  destruct (is_alpha (at_ h i) || ((at_ h i =? 45) && negb (i =? 0)%nat)) eqn:Ea.
  - eapply Hstep; [exact H|]. unfold hostc. apply orb_true_iff in Ea as [Ea|Ea]; [rewrite Ea, orb_true_r; reflexivity|].
    apply andb_true_iff in Ea as [Ea _]. rewrite Ea, !orb_true_r. reflexivity.
  - destruct ((at_ h i =? 46) && negb (S ll =? 1)%nat && negb (at_ h (S i) =? 45)) eqn:Edot; [|discriminate].
    eapply Hstep; [exact H|]. unfold hostc. apply andb_true_iff in Edot as [Edot _]. apply andb_true_iff in Edot as [Edot _]. rewrite Edot, !orb_true_r. reflexivity.
Qed.

Lemma labels_ok_first_not_dot fuel h hlen an nm lv r :
  labels_ok (S fuel) h 0 hlen 0 an nm lv = Some r -> (0 < hlen)%nat -> (at_ h 0 =? 46) = false.
Proof.
  cbn [labels_ok]. intros H Hl. destruct (hlen <=? 0)%nat eqn:E; [apply Nat.leb_le in E; lia|].
  destruct (at_ h 0 =? 46) eqn:Ed; [|reflexivity]. exfalso. apply N.eqb_eq in Ed. rewrite Ed in H.
  change (is_digit 46) with false in H. change (is_alpha 46 || (46 =? 45) && negb (0 =? 0)%nat) with false in H.
  change ((46 =? 46) && negb (1 =? 1)%nat && negb (at_ h 1 =? 45)) with false in H. discriminate.
Qed.

(* ---------------------------------------------------------------- the port part *)
Lemma skip_digits_split s : exists ds r, s = ds ++ r /\ skip_digits s = r /\ Forall (fun c => is_digit c = true) ds.
Proof.
  induction s as [|c s IH]; [exists [], []; repeat split; constructor|]. cbn [skip_digits]. destruct (is_digit c) eqn:E.
  - destruct IH as (ds & r & -> & Hr & Hd). exists (c :: ds), r. repeat split; [exact Hr|constructor; assumption].
  - exists [], (c :: s). repeat split; constructor.
Qed.

Lemma check_port_ok pre rest h' : nonul rest -> check_port pre rest = Some h' ->
  exists tail, h' = pre ++ tail /\ noslash tail.
Proof.
  intros Hn. unfold check_port. destruct rest as [|c t].
  - cbn. intro H. inversion H. exists []. split; [reflexivity|constructor].
  - inversion Hn as [|? ? Hc Ht]; subst.
    destruct (c =? 58) eqn:E58.
    + apply N.eqb_eq in E58. subst c. cbv beta iota.
      destruct (cstr_end t) eqn:Ee.
      * intro H. inversion H. exists []. split; [rewrite app_nil_r; reflexivity|constructor].
      * destruct (cstr_end (skip_digits t)) eqn:Es; [|discriminate]. intro H. inversion H.
        destruct (skip_digits_split t) as (ds & r & Ht2 & Hr & Hd).
        assert (Hr0 : r = []) by (apply cstr_end_nonul; [rewrite Ht2 in Ht; apply Forall_app in Ht; apply Ht|rewrite <- Hr; exact Es]).
        rewrite Hr0, app_nil_r in Ht2. rewrite Ht2. exists (58 :: ds). split; [reflexivity|]. constructor; [reflexivity|].
        apply Forall_forall. intros x Hx. rewrite Forall_forall in Hd. apply digit_noslash, Hd, Hx.
    + intro H. assert (Hcs : cstr_end (c :: t) = false) by (cbn; apply N.eqb_neq; exact Hc).
      assert (Hgen : (if cstr_end (c :: t) then Some (pre ++ c :: t) else None) = Some h').
      { revert H. destruct c as [|p]; [contradiction|]. do 6 (destruct p as [p|p|]; try (intro H; exact H)). vm_compute in E58. discriminate. }
      rewrite Hcs in Hgen. discriminate.
Qed.

(* ---------------------------------------------------------------- IPv6 literal branch *)
Definition v6c (c : N) : bool := is_xdigit c || (c =? 46) || (c =? 58).
Lemma v6c_noslash c : v6c c = true -> (c =? slash) = false.
Proof. intro H. destruct (c =? slash) eqn:E; [|reflexivity]. apply N.eqb_eq in E. subst c. vm_compute in H. discriminate. Qed.

Lemma ipv6_scan_split : forall fuel s cnt, exists pre, s = pre ++ ipv6_scan fuel s cnt /\ Forall (fun c => v6c c = true) pre.
Proof.
  induction fuel as [|f IH]; intros s cnt; [exists []; split; [reflexivity|constructor]|]. cbn [ipv6_scan].
  destruct s as [|c t]; [exists []; split; [reflexivity|constructor]|].
  destruct (is_xdigit c || (c =? 46)) eqn:E1.
  - destruct (IH t cnt) as (pre & Hp & Hf). exists (c :: pre). split; [cbn; f_equal; exact Hp|]. constructor; [unfold v6c; rewrite E1; reflexivity|exact Hf].
  - destruct (c =? 58) eqn:E2; [|exists []; split; [reflexivity|constructor]].
    destruct (S cnt <? 8)%nat; [|exists []; split; [reflexivity|constructor]].
    destruct (IH t (S cnt)) as (pre & Hp & Hf). exists (c :: pre). split; [cbn; f_equal; exact Hp|]. constructor; [unfold v6c; rewrite E2, orb_true_r; reflexivity|exact Hf].
Qed.

(* ---------------------------------------------------------------- request_check_hostname *)
Theorem check_hostname_ok host h' : nonul host -> check_hostname host = Some h' -> host_ok h'.
Proof.
  intros Hn H. unfold check_hostname in H. destruct host as [|c t]; [cbn in H; discriminate|].
  destruct (c =? 91) eqn:E91.
  - (* "[...]" *)
    apply N.eqb_eq in E91. subst c. cbn beta iota in H.
    destruct (ipv6_scan_split (S (length t)) t 0) as (pre & Hp & Hf).
    destruct (ipv6_scan (S (length t)) t 0) as [|c2 r2] eqn:Es; [discriminate|].
    destruct (c2 =? 93) eqn:E93.
    + apply N.eqb_eq in E93. subst c2. match goal with H : (if ?c then _ else _) = _ |- _ => destruct c; [discriminate|] end.
      assert (Hhost : 91 :: t = (91 :: pre ++ [93]) ++ r2) by (rewrite Hp; cbn; rewrite <- app_assoc; reflexivity).
      set (host := 91 :: t) in *. set (hd := 91 :: pre ++ [93]) in *.
      assert (Hfn : firstn (length host - length r2) host = hd).
      { rewrite Hhost. rewrite app_length. replace (length hd + length r2 - length r2)%nat with (length hd) by lia.
        rewrite firstn_app, firstn_all, Nat.sub_diag. cbn [firstn]. apply app_nil_r. }
      rewrite Hfn in H. apply check_port_ok in H as (tail & -> & Ht).
      * subst hd. split; [|intros t0 E; cbn in E; discriminate].
        apply Forall_app. split; [|exact Ht]. constructor; [reflexivity|]. apply Forall_app. split; [|constructor; [reflexivity|constructor]].
        apply Forall_forall. intros x Hx. rewrite Forall_forall in Hf. apply v6c_noslash, Hf, Hx.
      * rewrite Hhost in Hn. apply Forall_app in Hn. apply Hn.
    + exfalso. revert H. destruct c2 as [|p]; [discriminate|]. do 7 (destruct p as [p|p|]; try discriminate). all: try (vm_compute in E93; discriminate).
  - (* a name *)
    assert (Hgen : (let host := c :: t in
                    let len := length host in
                    let hlen0 := match find_idx 58 host 0 with Some i => i | None => len end in
                    if (hlen0 =? 0)%nat then None else
                    let strip := (at_ host (hlen0 - 1) =? 46) in
                    let hlen := if strip then (hlen0 - 1)%nat else hlen0 in
                    if (hlen =? 0)%nat then None else
                    let host' := if strip then firstn hlen host ++ skipn hlen0 host else host in
                    match labels_ok (S hlen) host' 0 hlen 0 true true 0 with
                    | None => None
                    | Some (label_len, allnum, num, level) =>
                        if (label_len =? 0)%nat || (num && (negb (level =? 3)%nat || negb allnum)) then None
                        else check_port (firstn hlen host') (skipn hlen host')
                    end) = Some h').
    { revert H. destruct c as [|p]; [intro H; exact H|]. do 7 (destruct p as [p|p|]; try (intro H; exact H)). vm_compute in E91. discriminate. }
    clear H. cbv zeta in Hgen. set (host := c :: t) in *.
    set (hlen0 := match find_idx 58 host 0 with Some i => i | None => length host end) in *.
    assert (Hh0 : (hlen0 <= length host)%nat).
    { subst hlen0. assert (G : forall s i k, find_idx 58 s i = Some k -> (k < i + length s)%nat).
      { induction s as [|x s IHs]; intros i k; cbn [find_idx]; [discriminate|]. destruct (x =? 58); [intro E; inversion E; cbn; lia|]. intro E. apply IHs in E. cbn. lia. }
      destruct (find_idx 58 host 0) as [k|] eqn:Ef; [apply G in Ef; lia|lia]. }
    destruct (hlen0 =? 0)%nat eqn:E0; [discriminate|]. apply Nat.eqb_neq in E0.
    set (strip := at_ host (hlen0 - 1) =? 46) in *. set (hlen := if strip then (hlen0 - 1)%nat else hlen0) in *.
    assert (Hhl : (hlen <= hlen0)%nat) by (subst hlen; destruct strip; lia).
    destruct (hlen =? 0)%nat eqn:E1; [discriminate|]. apply Nat.eqb_neq in E1.
    set (host' := if strip then firstn hlen host ++ skipn hlen0 host else host) in *.
    destruct (labels_ok (S hlen) host' 0 hlen 0 true true 0) as [[[[ll an] nm] lv]|] eqn:El; [|discriminate].
    destruct ((ll =? 0)%nat || (nm && (negb (lv =? 3)%nat || negb an))); [discriminate|].
    assert (Hchars : forall j, (j < hlen)%nat -> hostc (at_ host' j) = true) by (intros j Hj; eapply labels_ok_chars; [exact El|lia|lia]).
    pose proof (labels_ok_first_not_dot _ _ _ _ _ _ _ El ltac:(lia)) as Hfd.
    assert (Hlen' : (hlen <= length host')%nat).
    { subst host'. destruct strip; [rewrite app_length, firstn_length; lia|lia]. }
    assert (Hn' : nonul (skipn hlen host')).
    { subst host'. destruct strip.
      - rewrite skipn_app, firstn_length, Nat.min_l by lia. rewrite skipn_all2 by (rewrite firstn_length; lia). rewrite Nat.sub_diag. cbn [app skipn].
        unfold nonul in *. rewrite <- (firstn_skipn hlen0 host) in Hn. apply Forall_app in Hn. apply Hn.
      - unfold nonul in *. rewrite <- (firstn_skipn hlen host) in Hn. apply Forall_app in Hn. apply Hn. }
    apply check_port_ok in Hgen as (tail & -> & Ht); [|exact Hn'].
    assert (Hpre : noslash (firstn hlen host')).
    { apply Forall_forall. intros x Hx. apply In_nth with (d := 0) in Hx as (j & Hj & <-). rewrite firstn_length, Nat.min_l in Hj by lia.
      rewrite nth_firstn_lt by lia. apply hostc_noslash. apply (Hchars j Hj). }
    split; [apply Forall_app; split; assumption|].
    intros t0 E. assert (Hz : at_ (firstn hlen host' ++ tail) 0 = 46) by (rewrite E; reflexivity).
    unfold at_ in Hz. rewrite app_nth1 in Hz by (rewrite firstn_length; lia). rewrite nth_firstn_lt in Hz by lia.
    unfold at_ in Hfd. rewrite Hz in Hfd. discriminate.
Qed.

(* ---------------------------------------------------------------- http_request_host_normalize keeps it so *)
Lemma itoa_fuel_digits f : forall n acc, Forall (fun c => (c =? slash) = false) acc -> Forall (fun c => (c =? slash) = false) (itoa_fuel f n acc).
Proof.
  induction f as [|f IH]; intros n acc Ha; cbn [itoa_fuel]; [exact Ha|].
  assert (Hd : (48 + n mod 10 =? slash) = false).
  { apply N.eqb_neq. unfold slash. generalize (n mod 10). intros x. lia. }
  destruct (n <? 10); [constructor; assumption|]. apply IH. constructor; assumption.
Qed.

Lemma itoaZ_noslash z : noslash (itoaZ z).
Proof.
  unfold itoaZ, itoa. destruct (z <? 0)%Z; [constructor; [reflexivity|]|]; apply itoa_fuel_digits; constructor.
Qed.

Lemma host_ok_firstn h n : host_ok h -> (0 < n)%nat -> host_ok (firstn n h).
Proof.
  intros [Hs Hd] Hn. split; [apply noslash_firstn; exact Hs|]. intros t E. destruct h as [|x h]; [destruct n; discriminate|].
  destruct n; [lia|]. cbn in E. inversion E; subst. eapply Hd. reflexivity.
Qed.

Theorem host_normalize_ok b p h' : host_ok b -> host_normalize b p = HostOk h' -> host_ok h'.
Proof.
  intros Hb. unfold host_normalize.
  assert (Hgen : forall X, match b with 91 :: _ => HostOracle | _ => X end = HostOk h' -> X = HostOk h').
  { intros X. destruct b as [|c t]; [intro H; exact H|]. destruct c as [|q]; [intro H; exact H|]. do 7 (destruct q as [q|q|]; try (intro H; exact H)); discriminate. }
  intro H. apply Hgen in H. clear Hgen.
  destruct (find_idx 58 b 0) as [ci|] eqn:Ef.
  - assert (Hne : b <> []) by (intro E; subst b; discriminate).
    destruct (ci =? 0)%nat eqn:E0; [discriminate|]. apply Nat.eqb_neq in E0.
    match goal with H : match ?port with Some _ => _ | None => HostRej end = _ |- _ => destruct port as [pp|]; [|discriminate] end.
    destruct (is_digit (at_ (firstn ci b) 0)); [discriminate|]. inversion H.
    pose proof (host_ok_firstn b ci Hb ltac:(lia)) as [Hs Hd].
    destruct (negb (pp =? 0)%Z && negb (pp =? p)%Z); [|split; assumption].
    split.
    + apply Forall_app. split; [exact Hs|]. constructor; [reflexivity|apply itoaZ_noslash].
    + intros t E. destruct (firstn ci b) as [|x f] eqn:Efn; [destruct b; [contradiction|destruct ci; [lia|discriminate]]|].
      cbn in E. inversion E; subst. eapply Hd. reflexivity.
  - destruct (is_digit (at_ b 0)); [discriminate|]. inversion H; subst. exact Hb.
Qed.

(* the host a strict-mode request ends up with (uri.authority) is one the virtual-host theorems accept *)
Theorem host_policy_strict_ok flags h h' :
  has_flag flags OPT_HOST_STRICT = true -> nonul h -> host_policy flags h = HostOk h' -> host_ok h'.
Proof.
  intros Hs Hn. unfold host_policy. rewrite Hs. destruct (check_hostname h) as [h1|] eqn:Ec; [|discriminate].
  pose proof (check_hostname_ok _ _ Hn Ec) as Hok.
  destruct (has_flag flags OPT_HOST_NORMALIZE); [|intro H; inversion H; subst; exact Hok].
  intro H. eapply host_normalize_ok; [exact Hok|exact H].
Qed.

(* ---------------------------------------------------------------- strict mode, end to end: Host header value and request target in, file name out *)
Theorem strict_request_to_physical isdir flags c h auth target t' path q dr b p :
  conf_ok c -> has_flag flags OPT_HOST_STRICT = true -> nonul h ->
  host_policy flags h = HostOk auth ->
  parse_target flags target = TOk t' path q ->
  physical isdir c auth path = Phys dr b p ->
  nodot p /\ nodot b /\ (exists rest, p = b ++ rest) /\ designated c dr b.
Proof.
  intros Hc Hs Hn Hh Ht Hp. eapply target_to_physical; try eassumption.
  intros _. eapply host_policy_strict_ok; eassumption.
Qed.
