(* C17 -- model of the chunk queue (src/chunk.c): a queue is a list of chunks plus the counters
   bytes_in / bytes_out.  Chunk *layout* decisions that depend on allocator capacities
   (extend the last memory chunk or start a new one) are an oracle argument [ext]; every theorem is
   proven for both answers.  Static files are an immutable store; a temporary-file chunk carries the
   bytes written to it (temp files are append-only and a chunk only ever refers to bytes below the
   written length, so sharing a temp file between split chunks cannot change what either denotes).
   Modelled: chunkqueue_append_mem/_buffer/_file/_chunkqueue, chunkqueue_steal, chunkqueue_mark_written,
   chunkqueue_remove_finished_chunks, chunkqueue_compact_mem, chunkqueue_append_cq_range,
   chunkqueue_peek_data, chunkqueue_read_data, chunkqueue_reset, chunkqueue_append_mem_to_tempfile
   (with a write-fault script), chunkqueue_steal_with_tempfiles at the granularity of its write calls. *)
From LV Require Import Base.Bytes.
Local Open Scope N_scope.

Inductive chunk :=
| CMem (data : list N) (off : nat)
| CFile (fid : nat) (off len : nat)              (* file.length = len is the END offset *)
| CTemp (data : list N) (off : nat) (owner : bool) (isopen : bool).

Definition store := list (list N).

Definition chunk_bytes (fs : store) (c : chunk) : list N :=
  match c with
  | CMem d o => skipn o d
  | CFile f o l => firstn (l - o) (skipn o (nth f fs []))
  | CTemp d o _ _ => skipn o d
  end.
Definition chunk_len (fs : store) (c : chunk) : nat := length (chunk_bytes fs c).

Record cq := { chunks : list chunk; bin : Z; bout : Z }.
Definition cq_empty : cq := {| chunks := []; bin := 0; bout := 0 |}.
Definition content (fs : store) (q : cq) : list N := flat_map (chunk_bytes fs) (chunks q).
Definition cq_length (q : cq) : Z := (bin q - bout q)%Z.

(* well-formed file chunk: its range lies inside the file *)
Definition chunk_wf (fs : store) (c : chunk) : Prop :=
  match c with
  | CMem d o => (o <= length d)%nat
  | CFile f o l => (o <= l)%nat /\ (l <= length (nth f fs []))%nat
  | CTemp d o _ _ => (o <= length d)%nat
  end.

Definition advance (c : chunk) (n : nat) : chunk :=
  match c with
  | CMem d o => CMem d (o + n)
  | CFile f o l => CFile f (o + n) l
  | CTemp d o w p => CTemp d (o + n) w p
  end.

(* ---------------------------------------------------------------- append family *)
Definition append_mem (ext : bool) (q : cq) (m : list N) : cq :=
  match m with
  | [] => if ext then q else {| chunks := chunks q ++ [CMem [] 0]; bin := bin q; bout := bout q |}
  | _ =>
    let cs :=
      match ext, rev (chunks q) with
      | true, CMem d o :: r => rev r ++ [CMem (d ++ m) o]
      | _, _ => chunks q ++ [CMem m 0]
      end in
    {| chunks := cs; bin := (bin q + Z.of_nat (length m))%Z; bout := bout q |}
  end.

Definition append_file (q : cq) (fid off len : nat) : cq :=
  match len with
  | O => q
  | _ => {| chunks := chunks q ++ [CFile fid off (off + len)]; bin := (bin q + Z.of_nat len)%Z; bout := bout q |}
  end.

(* chunkqueue_append_chunkqueue(q, src): returns (q', src') *)
Definition append_cq (q src : cq) : cq * cq :=
  match chunks src with
  | [] => (q, src)
  | cs => ({| chunks := chunks q ++ cs; bin := (bin q + cq_length src)%Z; bout := bout q |},
           {| chunks := []; bin := bin src; bout := bin src |})
  end.

(* ---------------------------------------------------------------- chunkqueue_mark_written *)
Fixpoint drop_bytes (fs : store) (cs : list chunk) (n : nat) : list chunk :=
  match cs with
  | [] => []
  | c :: t =>
      let cl := chunk_len fs c in
      if (cl <=? n)%nat then drop_bytes fs t (n - cl) else advance c n :: t
  end.
Definition mark_written (fs : store) (q : cq) (n : nat) : cq :=
  {| chunks := drop_bytes fs (chunks q) n; bin := bin q; bout := (bout q + Z.of_nat n)%Z |}.

Fixpoint drop_finished (fs : store) (cs : list chunk) : list chunk :=
  match cs with
  | c :: t => if (chunk_len fs c =? 0)%nat then drop_finished fs t else cs
  | [] => []
  end.
Definition remove_finished (fs : store) (q : cq) : cq :=
  {| chunks := drop_finished fs (chunks q); bin := bin q; bout := bout q |}.

(* ---------------------------------------------------------------- chunkqueue_steal
   do { ... } while ((len -= clen)): returns (chunks appended to dest as (whole chunks, partial
   piece), remaining src chunks, bytes moved).  A partial memory piece is appended with append_mem,
   a partial file piece as a new file chunk (for a temp file: not the owner). *)
Inductive piece := PWhole (c : chunk) | PMem (m : list N) | PFile (c : chunk).

Fixpoint steal_loop (fs : store) (src : list chunk) (len : nat) : list piece * list chunk * nat :=
  match src with
  | [] => ([], [], O)
  | c :: t =>
      let cl := chunk_len fs c in
      if (cl <=? len)%nat then
        let '(ps, s', n) := if (len - cl =? 0)%nat then ([], t, O) else steal_loop fs t (len - cl) in
        ((if (cl =? 0)%nat then ps else PWhole c :: ps), s', (cl + n)%nat)
      else
        let p := match c with
                 | CMem d o => PMem (firstn len (skipn o d))
                 | CFile f o l => PFile (CFile f o (o + len))
                 | CTemp d o _ _ => PFile (CTemp (firstn (o + len) d) o false false)
                 end in
        ([p], advance c len :: t, len)
  end.

Definition add_piece (ext : bool) (q : cq) (fs : store) (p : piece) : cq :=
  match p with
  | PWhole c => {| chunks := chunks q ++ [c]; bin := (bin q + Z.of_nat (chunk_len fs c))%Z; bout := bout q |}
  | PMem m => append_mem ext q m
  | PFile c => match chunk_len fs c with
               | O => q
               | n => {| chunks := chunks q ++ [c]; bin := (bin q + Z.of_nat n)%Z; bout := bout q |}
               end
  end.

Definition steal (ext : bool) (fs : store) (dest src : cq) (len : nat) : cq * cq :=
  let '(ps, s', n) := steal_loop fs (chunks src) len in
  (fold_left (fun q p => add_piece ext q fs p) ps dest,
   {| chunks := s'; bin := bin src; bout := (bout src + Z.of_nat n)%Z |}).

(* ---------------------------------------------------------------- chunkqueue_append_cq_range *)
Fixpoint range_pieces (fs : store) (src : list chunk) (offset len : nat) : list piece :=
  match src with
  | [] => []
  | c :: t =>
      match len with
      | O => []
      | _ =>
        let cl := chunk_len fs c in
        if (cl <=? offset)%nat then range_pieces fs t (offset - cl) len
        else
          let n := Nat.min len (cl - offset) in
          let p := match c with
                   | CMem d o => PMem (firstn n (skipn (o + offset) d))
                   | CFile f o l => PFile (CFile f (o + offset) (o + offset + n))
                   | CTemp d o _ _ => PFile (CTemp (firstn (o + offset + n) d) (o + offset) false false)
                   end in
          p :: range_pieces fs t 0 (len - n)
      end
  end.
Definition append_cq_range (ext : bool) (fs : store) (dst src : cq) (offset len : nat) : cq :=
  fold_left (fun q p => add_piece ext q fs p) (range_pieces fs (chunks src) offset len) dst.

(* ---------------------------------------------------------------- chunkqueue_compact_mem (memory chunks only)
   gathers at least clen contiguous bytes into the first chunk (when the queue holds that many) *)
Fixpoint gather (cs : list chunk) (need : nat) : list N * list chunk :=
  match need with
  | O => ([], cs)
  | _ =>
    match cs with
    | CMem d o :: t =>
        let have := (length d - o)%nat in
        if (need <? have)%nat then (firstn need (skipn o d), CMem d (o + need) :: t)
        else let '(g, r) := gather t (need - have) in (skipn o d ++ g, r)
    | _ => ([], cs)
    end
  end.
Definition compact_mem (q : cq) (clen : nat) : cq :=
  match chunks q with
  | CMem d o :: t =>
      let have := (length d - o)%nat in
      if (clen <=? have)%nat then q
      else let '(g, r) := gather t (clen - have) in
           {| chunks := CMem (skipn o d ++ g) 0 :: r; bin := bin q; bout := bout q |}
  | _ => q
  end.

(* ---------------------------------------------------------------- chunkqueue_peek_data / read_data *)
Definition peek_data (fs : store) (q : cq) (n : nat) : list N := firstn n (content fs q).
Definition read_data (fs : store) (q : cq) (n : nat) : option (list N * cq) :=
  let d := peek_data fs q n in
  if (length d =? n)%nat then Some (d, mark_written fs q n) else None.

Definition reset (q : cq) : cq := cq_empty.

(* ---------------------------------------------------------------- chunkqueue_append_mem_to_tempfile
   fault script: outcome of each successive write call *)
Inductive wres := WFull | WShort (k : nat) | WEintr | WEnospc | WErr.

(* the last chunk, if it is an open temp file owned by this queue and below the size limit *)
Definition last_open_temp (cs : list chunk) (limit : nat) : option (list chunk * list N * nat) :=
  match rev cs with
  | CTemp d o true true :: r => if (length d <? limit)%nat then Some (rev r, d, o) else None
  | _ => None
  end.
Definition close_last (cs : list chunk) : list chunk :=
  match rev cs with
  | CTemp d o w true :: r => rev r ++ [CTemp d o w false]
  | _ => cs
  end.
Definition drop_last_if_empty (cs : list chunk) : list chunk :=
  match rev cs with
  | CTemp d o w p :: r => if (length d - o =? 0)%nat then rev r else rev r ++ [CTemp d o w false]
  | _ => cs
  end.

(* ndirs = number of upload dirs not yet given up (tempdirs->used - tempdir_idx; ENOSPC moves to the
   next one, none left = no new temp file can be created); returns (ok, q, rest of script, ndirs) *)
Fixpoint mem_to_temp (fuel : nat) (limit : nat) (ndirs : nat) (q : cq) (m : list N) (script : list wres)
  : bool * cq * list wres * nat :=
  match fuel with
  | O => (false, q, script, ndirs)
  | S f =>
      match (match last_open_temp (chunks q) limit with
             | Some x => Some x
             | None => if (ndirs =? 0)%nat then None else Some (close_last (chunks q), [], O)
             end) with
      | None => (false, {| chunks := close_last (chunks q); bin := bin q; bout := bout q |}, script, ndirs)
      | Some (cs0, d, o) =>
      match m with
      | [] => (true, {| chunks := cs0 ++ [CTemp d o true true]; bin := bin q; bout := bout q |}, script, ndirs)
      | _ =>
        let '(w, script') := match script with [] => (WFull, []) | w :: s => (w, s) end in
        match w with
        | WFull =>
            (true, {| chunks := cs0 ++ [CTemp (d ++ m) o true true]; bin := (bin q + Z.of_nat (length m))%Z; bout := bout q |}, script', ndirs)
        | WShort k =>
            let k := Nat.min k (length m) in
            if (k =? length m)%nat then
              (true, {| chunks := cs0 ++ [CTemp (d ++ m) o true true]; bin := (bin q + Z.of_nat (length m))%Z; bout := bout q |}, script', ndirs)
            else
              mem_to_temp f limit ndirs
                {| chunks := cs0 ++ [CTemp (d ++ firstn k m) o true true]; bin := (bin q + Z.of_nat k)%Z; bout := bout q |}
                (skipn k m) script'
        | WEintr => mem_to_temp f limit ndirs {| chunks := cs0 ++ [CTemp d o true true]; bin := bin q; bout := bout q |} m script'
        | WEnospc =>
            let q' := {| chunks := drop_last_if_empty (cs0 ++ [CTemp d o true true]); bin := bin q; bout := bout q |} in
            if (1 <? ndirs)%nat then mem_to_temp f limit (ndirs - 1) q' m script'
            else (false, q', script', (ndirs - 1)%nat)
        | WErr =>
            (false, {| chunks := drop_last_if_empty (cs0 ++ [CTemp d o true true]); bin := bin q; bout := bout q |}, script', ndirs)
        end
      end
      end
  end.

(* writing the memory chunks of a queue to temporary files changes no byte of it *)
Definition spill_chunk (c : chunk) : chunk :=
  match c with CMem d o => CTemp d o true false | _ => c end.
Definition spill (q : cq) : cq := {| chunks := map spill_chunk (chunks q); bin := bin q; bout := bout q |}.

(* chunkqueue_read_squash: the whole queue as one memory chunk (bytes_in/out untouched) *)
Definition read_squash (fs : store) (q : cq) : cq :=
  match chunks q with
  | [CMem _ _] => q
  | _ => {| chunks := [CMem (content fs q) 0]; bin := bin q; bout := bout q |}
  end.

(* chunkqueue_steal_with_tempfiles without hard write errors (short writes and EINTR are retried by the
   caller loop): memory pieces are written to a temp file; when the destination starts with a memory
   chunk its memory chunks are written out first (chunkqueue_append_cqmem_to_tempfile / _to_tempfiles) *)
Definition first_is_mem (q : cq) : bool := match chunks q with CMem _ _ :: _ => true | _ => false end.
Definition add_piece_tmp (fs : store) (q : cq) (p : piece) : cq :=
  let to_temp (m : list N) :=
    let q1 := if first_is_mem q then spill q else q in
    match m with
    | [] => q1
    | _ => {| chunks := chunks q1 ++ [CTemp m 0 true false]; bin := (bin q1 + Z.of_nat (length m))%Z; bout := bout q1 |}
    end in
  match p with
  | PWhole (CMem d o) => to_temp (skipn o d)
  | PMem m => to_temp m
  | _ => add_piece false q fs p
  end.
Definition steal_tmp (fs : store) (dest src : cq) (len : nat) : cq * cq :=
  let '(ps, s', n) := steal_loop fs (chunks src) len in
  (fold_left (fun q p => add_piece_tmp fs q p) ps dest,
   {| chunks := s'; bin := bin src; bout := (bout src + Z.of_nat n)%Z |}).
