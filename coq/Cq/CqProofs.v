(* Refinement of the chunk-queue model to a FIFO byte string (C17). *)
From LV Require Import Base.Bytes Cq.CqModel.
Local Open Scope nat_scope.

Section WithStore.
Variable fs : store.
Notation bytes := (chunk_bytes fs).
Notation clen := (chunk_len fs).
Notation cont := (content fs).

(* ---------- list helpers *)
Lemma skipn_skipn' {A} (l : list A) : forall a b, skipn a (skipn b l) = skipn (b + a) l.
Proof.
  induction l as [|x l IH]; intros a b.
  - rewrite !skipn_nil. reflexivity.
  - destruct b as [|b]; [reflexivity|]. cbn [skipn Nat.add]. apply IH.
Qed.
Lemma skipn_firstn' {A} (l : list A) : forall n m, skipn n (firstn m l) = firstn (m - n) (skipn n l).
Proof.
  induction l as [|x l IH]; intros n m.
  - rewrite firstn_nil, !skipn_nil, firstn_nil. reflexivity.
  - destruct m as [|m]; [rewrite skipn_nil; reflexivity|]. destruct n as [|n]; [reflexivity|].
    cbn [firstn skipn Nat.sub]. apply IH.
Qed.
Lemma firstn_firstn' {A} (l : list A) n m : n <= m -> firstn n (firstn m l) = firstn n l.
Proof. intros H. rewrite firstn_firstn. f_equal. lia. Qed.
Lemma firstn_app_le {A} (a b : list A) n : n <= length a -> firstn n (a ++ b) = firstn n a.
Proof. intros H. rewrite firstn_app. replace (n - length a) with 0 by lia. cbn. apply app_nil_r. Qed.
Lemma firstn_app_ge {A} (a b : list A) n : length a <= n -> firstn n (a ++ b) = a ++ firstn (n - length a) b.
Proof. intros H. rewrite firstn_app. rewrite firstn_all2 by lia. reflexivity. Qed.
Lemma skipn_app_le {A} (a b : list A) n : n <= length a -> skipn n (a ++ b) = skipn n a ++ b.
Proof. intros H. rewrite skipn_app. replace (n - length a) with 0 by lia. reflexivity. Qed.
Lemma skipn_app_ge {A} (a b : list A) n : length a <= n -> skipn n (a ++ b) = skipn (n - length a) b.
Proof. intros H. rewrite skipn_app. rewrite skipn_all2 by lia. reflexivity. Qed.

Lemma content_app q1 cs : flat_map bytes (q1 ++ cs) = flat_map bytes q1 ++ flat_map bytes cs.
Proof. apply flat_map_app. Qed.

(* ---------- advance = consume a prefix of one chunk *)
Lemma advance_bytes c n : bytes (advance c n) = skipn n (bytes c).
Proof.
  destruct c as [d o|f o l|d o w p]; cbn [advance chunk_bytes].
  - rewrite skipn_skipn'. reflexivity.
  - rewrite skipn_firstn', skipn_skipn'. f_equal. lia.
  - rewrite skipn_skipn'. reflexivity.
Qed.

Definition wfq (q : cq) : Prop := Forall (chunk_wf fs) (chunks q).
Definition acct (q : cq) : Prop := cq_length q = Z.of_nat (length (cont q)).

Lemma wf_app a b : Forall (chunk_wf fs) (a ++ b) <-> Forall (chunk_wf fs) a /\ Forall (chunk_wf fs) b.
Proof. apply Forall_app. Qed.

Lemma last_split (cs : list chunk) c r : rev cs = c :: r -> cs = rev r ++ [c].
Proof. intros H. rewrite <- (rev_involutive cs), H. reflexivity. Qed.

(* ---------- append family *)
Theorem append_mem_content ext q m : wfq q -> cont (append_mem ext q m) = cont q ++ m.
Proof.
  intros Hw. unfold content, append_mem. destruct m as [|x m'].
  - destruct ext; cbn [chunks]; [rewrite app_nil_r; reflexivity|].
    rewrite content_app. cbn. rewrite app_nil_r. reflexivity.
  - set (m := x :: m'). cbn [chunks]. destruct ext.
    + destruct (rev (chunks q)) as [|c r] eqn:Er.
      * rewrite content_app. cbn. rewrite app_nil_r. reflexivity.
      * apply last_split in Er.
        destruct c as [d o|f o l|d o w p]; try (rewrite content_app; cbn; rewrite app_nil_r; reflexivity).
        unfold wfq in Hw. rewrite Er in Hw. apply wf_app in Hw as [_ Hc]. inversion Hc as [|? ? Hd _]; subst. cbn in Hd.
        rewrite Er, !content_app. cbn [flat_map chunk_bytes]. rewrite !app_nil_r.
        rewrite skipn_app_le by exact Hd. rewrite app_assoc. reflexivity.
    + rewrite content_app. cbn. rewrite app_nil_r. reflexivity.
Qed.

Theorem append_mem_wf ext q m : wfq q -> wfq (append_mem ext q m).
Proof.
  intros Hw. unfold wfq, append_mem. destruct m as [|x m'].
  - destruct ext; cbn [chunks]; [exact Hw|]. apply wf_app. split; [exact Hw|]. repeat constructor.
  - cbn [chunks]. destruct ext.
    + destruct (rev (chunks q)) as [|c r] eqn:Er.
      * apply wf_app. split; [exact Hw|]. repeat constructor. cbn. lia.
      * apply last_split in Er. unfold wfq in Hw. rewrite Er in Hw. apply wf_app in Hw as [Hr Hc].
        destruct c as [d o|f o l|d o w p]; try (rewrite Er; apply wf_app; split; [apply wf_app; split; assumption|repeat constructor; cbn; lia]).
        apply wf_app. split; [exact Hr|]. inversion Hc as [|? ? Hd _]; subst. cbn in Hd. repeat constructor. cbn. rewrite app_length. lia.
    + apply wf_app. split; [exact Hw|]. repeat constructor. cbn. lia.
Qed.

Theorem append_mem_acct ext q m : wfq q -> acct q -> acct (append_mem ext q m).
Proof.
  intros Hw Ha. unfold acct. rewrite append_mem_content by exact Hw. rewrite app_length. unfold acct in Ha.
  unfold cq_length in *. unfold append_mem. destruct m as [|x m']; [destruct ext; cbn [bin bout length] in *; lia|].
  cbn [bin bout]. lia.
Qed.

Theorem append_file_content q f off len : off + len <= length (nth f fs []) ->
  cont (append_file q f off len) = cont q ++ firstn len (skipn off (nth f fs [])).
Proof.
  intros Hr. unfold append_file, content. destruct len as [|n]; [cbn; rewrite app_nil_r; reflexivity|].
  cbn [chunks]. rewrite content_app. cbn [flat_map chunk_bytes]. rewrite app_nil_r. do 2 f_equal. lia.
Qed.
Theorem append_file_acct q f off len : off + len <= length (nth f fs []) -> acct q -> acct (append_file q f off len).
Proof.
  intros Hr Ha. unfold acct. rewrite append_file_content by exact Hr. rewrite app_length, firstn_length, skipn_length.
  unfold acct, cq_length in *. unfold append_file. destruct len; cbn [bin bout] in *; lia.
Qed.
Theorem append_file_wf q f off len : off + len <= length (nth f fs []) -> wfq q -> wfq (append_file q f off len).
Proof.
  intros Hr Hw. unfold append_file. destruct len; [exact Hw|]. unfold wfq. cbn [chunks]. apply wf_app. split; [exact Hw|].
  repeat constructor; cbn; lia.
Qed.

Theorem append_cq_content q src : let '(q', s') := append_cq q src in cont q' = cont q ++ cont src /\ cont s' = [].
Proof.
  unfold append_cq, content. destruct (chunks src) as [|c t] eqn:Es.
  - rewrite Es. cbn. rewrite app_nil_r. split; reflexivity.
  - cbn [chunks]. rewrite content_app. split; reflexivity.
Qed.
Theorem append_cq_acct q src : acct q -> acct src -> let '(q', s') := append_cq q src in acct q' /\ acct s'.
Proof.
  intros Hq Hs. pose proof (append_cq_content q src) as H. unfold append_cq in *. destruct (chunks src) as [|c t] eqn:Es.
  - split; assumption.
  - destruct H as [H1 H2]. unfold acct in *. rewrite H1, H2, app_length. unfold cq_length in *. cbn [bin bout length]. split; lia.
Qed.

(* ---------- consume *)
Lemma drop_bytes_spec cs : forall n, n <= length (flat_map bytes cs) -> flat_map bytes (drop_bytes fs cs n) = skipn n (flat_map bytes cs).
Proof.
  induction cs as [|c t IH]; intros n Hn; cbn [drop_bytes flat_map].
  - rewrite skipn_nil. reflexivity.
  - cbn [flat_map] in Hn. rewrite app_length in Hn. unfold chunk_len.
    destruct (Nat.leb_spec (length (bytes c)) n) as [Hle|Hgt].
    + rewrite IH by lia. rewrite skipn_app_ge by exact Hle. reflexivity.
    + cbn [flat_map]. rewrite advance_bytes. rewrite skipn_app_le by lia. reflexivity.
Qed.
Theorem mark_written_content q n : n <= length (cont q) -> cont (mark_written fs q n) = skipn n (cont q).
Proof. intros H. unfold content, mark_written. cbn [chunks]. apply drop_bytes_spec. exact H. Qed.
Theorem mark_written_acct q n : n <= length (cont q) -> acct q -> acct (mark_written fs q n).
Proof.
  intros H Ha. unfold acct. rewrite mark_written_content by exact H. rewrite skipn_length. unfold acct, cq_length in *.
  unfold mark_written. cbn [bin bout]. lia.
Qed.
Lemma advance_wf c n : n <= clen c -> chunk_wf fs c -> chunk_wf fs (advance c n).
Proof.
  unfold chunk_len. destruct c as [d o|f o l|d o w p]; cbn [chunk_bytes advance chunk_wf]; rewrite ?firstn_length, ?skipn_length; lia.
Qed.
Lemma drop_bytes_wf cs : forall n, Forall (chunk_wf fs) cs -> Forall (chunk_wf fs) (drop_bytes fs cs n).
Proof.
  induction cs as [|c t IH]; intros n Hw; cbn [drop_bytes]; [constructor|]. inversion Hw; subst.
  destruct (Nat.leb_spec (clen c) n); [apply IH; assumption|]. constructor; [apply advance_wf; [lia|assumption]|assumption].
Qed.

Lemma drop_finished_spec cs : flat_map bytes (drop_finished fs cs) = flat_map bytes cs.
Proof.
  induction cs as [|c t IH]; cbn [drop_finished]; [reflexivity|]. unfold chunk_len.
  destruct (Nat.eqb_spec (length (bytes c)) 0) as [H0|Hn]; [|reflexivity].
  rewrite IH. cbn [flat_map]. apply length_zero_iff_nil in H0. rewrite H0. reflexivity.
Qed.
Theorem remove_finished_content q : cont (remove_finished fs q) = cont q.
Proof. unfold content, remove_finished. cbn [chunks]. apply drop_finished_spec. Qed.

(* ---------- steal: exactly the first len bytes move, in order, once *)
Definition piece_bytes (p : piece) : list N :=
  match p with PWhole c => bytes c | PMem m => m | PFile c => bytes c end.

Lemma steal_loop_spec src : forall len ps s' n, steal_loop fs src len = (ps, s', n) ->
  flat_map piece_bytes ps = firstn len (flat_map bytes src) /\
  flat_map bytes s' = skipn len (flat_map bytes src) /\
  n = length (firstn len (flat_map bytes src)).
Proof.
  induction src as [|c t IH]; intros len ps s' n; cbn [steal_loop flat_map].
  - intros H; inversion H; subst. rewrite firstn_nil, skipn_nil. auto.
  - unfold chunk_len. set (cl := length (bytes c)).
    destruct (Nat.leb_spec cl len) as [Hle|Hgt].
    + destruct (Nat.eqb_spec (len - cl) 0) as [Hz|Hnz].
      * intros H. inversion H; subst ps s' n. clear H.
        assert (len = cl) by lia. subst len.
        rewrite firstn_app_le by (fold cl; lia). rewrite firstn_all2 by (fold cl; lia).
        rewrite skipn_app_ge by (fold cl; lia). replace (cl - length (bytes c)) with 0 by (fold cl; lia). cbn [skipn].
        repeat split; try reflexivity; [|fold cl; lia].
        destruct (Nat.eqb_spec cl 0) as [H0|H0]; cbn [flat_map piece_bytes]; [|rewrite app_nil_r; reflexivity].
        symmetry. apply length_zero_iff_nil. exact H0.
      * destruct (steal_loop fs t (len - cl)) as [[ps1 s1] n1] eqn:E1. intros H. inversion H; subst ps s' n. clear H.
        destruct (IH _ _ _ _ E1) as (Hp & Hs & Hn).
        rewrite firstn_app_ge by (fold cl; lia). rewrite skipn_app_ge by (fold cl; lia). fold cl.
        repeat split; [|exact Hs|rewrite app_length; fold cl; lia].
        destruct (Nat.eqb_spec cl 0) as [H0|H0]; cbn [flat_map piece_bytes]; rewrite Hp; [|reflexivity].
        apply length_zero_iff_nil in H0. rewrite H0. reflexivity.
    + intros H. inversion H; subst ps s' n. clear H. cbn [flat_map]. rewrite advance_bytes, app_nil_r.
      rewrite firstn_app_le by (fold cl; lia). rewrite skipn_app_le by (fold cl; lia).
      repeat split; [|rewrite firstn_length; fold cl; lia].
      destruct c as [d o|f o l|d o w p]; cbn [piece_bytes chunk_bytes] in *.
      * reflexivity.
      * subst cl. rewrite firstn_length, skipn_length in Hgt. rewrite firstn_firstn. f_equal. lia.
      * rewrite skipn_firstn'. f_equal. lia.
Qed.

Lemma add_piece_content ext q p : wfq q -> cont (add_piece ext q fs p) = cont q ++ piece_bytes p.
Proof.
  intros Hw. destruct p as [c|m|c]; cbn [add_piece piece_bytes].
  - unfold content. cbn [chunks]. rewrite content_app. cbn. rewrite app_nil_r. reflexivity.
  - apply append_mem_content. exact Hw.
  - unfold chunk_len. destruct (length (bytes c)) eqn:El.
    + apply length_zero_iff_nil in El. rewrite El, app_nil_r. reflexivity.
    + unfold content. cbn [chunks]. rewrite content_app. cbn. rewrite app_nil_r. reflexivity.
Qed.
Definition piece_wf (p : piece) : Prop := match p with PWhole c | PFile c => chunk_wf fs c | PMem _ => True end.
Lemma add_piece_wf ext q p : wfq q -> piece_wf p -> wfq (add_piece ext q fs p).
Proof.
  intros Hw Hp. destruct p as [c|m|c]; cbn [add_piece].
  - unfold wfq. cbn [chunks]. apply wf_app. split; [exact Hw|repeat constructor; exact Hp].
  - apply append_mem_wf. exact Hw.
  - destruct (clen c); [exact Hw|]. unfold wfq. cbn [chunks]. apply wf_app. split; [exact Hw|repeat constructor; exact Hp].
Qed.
Lemma add_piece_acct ext q p : wfq q -> acct q -> acct (add_piece ext q fs p).
Proof.
  intros Hw Ha. unfold acct. rewrite add_piece_content by exact Hw. rewrite app_length. unfold acct in Ha.
  destruct p as [c|m|c]; cbn [add_piece piece_bytes].
  - unfold cq_length in *. cbn [bin bout]. unfold chunk_len. lia.
  - pose proof (append_mem_acct ext q m Hw Ha) as H. unfold acct in H. rewrite append_mem_content in H by exact Hw. rewrite app_length in H. exact H.
  - unfold chunk_len. destruct (length (bytes c)) eqn:El; unfold cq_length in *; cbn [bin bout]; lia.
Qed.

Lemma steal_loop_wf src : forall len ps s' n, Forall (chunk_wf fs) src -> steal_loop fs src len = (ps, s', n) ->
  Forall piece_wf ps /\ Forall (chunk_wf fs) s'.
Proof.
  induction src as [|c t IH]; intros len ps s' n Hw; cbn [steal_loop].
  - intros H; inversion H; subst. split; constructor.
  - inversion Hw as [|? ? Hc Ht]; subst. destruct (Nat.leb_spec (clen c) len) as [Hle|Hgt].
    + destruct (Nat.eqb_spec (len - clen c) 0).
      * intros H; inversion H; subst. split; [|exact Ht]. destruct (clen c =? 0); repeat constructor. exact Hc.
      * destruct (steal_loop fs t (len - clen c)) as [[ps1 s1] n1] eqn:E1. intros H; inversion H; subst.
        destruct (IH _ _ _ _ Ht E1) as [Hp Hs]. split; [|exact Hs]. destruct (clen c =? 0); [exact Hp|constructor; [exact Hc|exact Hp]].
    + intros H; inversion H; subst. split.
      * repeat constructor. unfold chunk_len in Hgt.
        destruct c as [d o|f o l|d o w p]; cbn [piece_wf chunk_wf chunk_bytes] in *; rewrite ?firstn_length, ?skipn_length in *; try lia; exact I.
      * constructor; [apply advance_wf; [lia|exact Hc]|exact Ht].
Qed.

Lemma fold_pieces_content ext ps : forall q, wfq q -> Forall piece_wf ps ->
  cont (fold_left (fun q p => add_piece ext q fs p) ps q) = cont q ++ flat_map piece_bytes ps /\
  wfq (fold_left (fun q p => add_piece ext q fs p) ps q).
Proof.
  induction ps as [|p t IH]; intros q Hw Hp; cbn [fold_left flat_map].
  - rewrite app_nil_r. auto.
  - inversion Hp; subst. destruct (IH (add_piece ext q fs p)) as [Hc Hw']; [apply add_piece_wf; assumption|assumption|].
    rewrite Hc, add_piece_content by exact Hw. rewrite app_assoc. auto.
Qed.
Lemma fold_pieces_acct ext ps : forall q, wfq q -> Forall piece_wf ps -> acct q -> acct (fold_left (fun q p => add_piece ext q fs p) ps q).
Proof.
  induction ps as [|p t IH]; intros q Hw Hp Ha; cbn [fold_left]; [exact Ha|]. inversion Hp; subst.
  apply IH; [apply add_piece_wf; assumption|assumption|apply add_piece_acct; assumption].
Qed.

Theorem steal_content ext dest src len : wfq dest -> wfq src ->
  let '(d', s') := steal ext fs dest src len in
  cont d' = cont dest ++ firstn len (cont src) /\ cont s' = skipn len (cont src) /\ wfq d' /\ wfq s'.
Proof.
  intros Hd Hs. unfold steal. destruct (steal_loop fs (chunks src) len) as [[ps s1] n] eqn:E.
  destruct (steal_loop_spec _ _ _ _ _ E) as (Hp & Hr & Hn). destruct (steal_loop_wf _ _ _ _ _ Hs E) as [Hpw Hsw].
  destruct (fold_pieces_content ext ps dest Hd Hpw) as [Hc Hw]. rewrite Hc, Hp. unfold content at 3. cbn [chunks]. auto.
Qed.
Theorem steal_acct ext dest src len : wfq dest -> wfq src -> acct dest -> acct src ->
  let '(d', s') := steal ext fs dest src len in acct d' /\ acct s'.
Proof.
  intros Hd Hs Had Has. unfold steal. destruct (steal_loop fs (chunks src) len) as [[ps s1] n] eqn:E.
  destruct (steal_loop_spec _ _ _ _ _ E) as (Hp & Hr & Hn). destruct (steal_loop_wf _ _ _ _ _ Hs E) as [Hpw Hsw].
  split; [apply fold_pieces_acct; assumption|].
  unfold acct, content, cq_length in *. cbn [chunks bin bout]. rewrite Hr, skipn_length. rewrite Hn, firstn_length. lia.
Qed.

(* ---------- range duplication: appends exactly bytes [offset, offset+len) of src *)
Lemma range_pieces_spec src : forall offset len,
  flat_map piece_bytes (range_pieces fs src offset len) = firstn len (skipn offset (flat_map bytes src)).
Proof.
  induction src as [|c t IH]; intros offset len; cbn [range_pieces flat_map].
  - rewrite skipn_nil, firstn_nil. reflexivity.
  - destruct len as [|len']; [reflexivity|]. set (len := S len'). unfold chunk_len. set (cl := length (bytes c)).
    destruct (Nat.leb_spec cl offset) as [Hle|Hgt].
    + rewrite IH. rewrite skipn_app_ge by (fold cl; lia). reflexivity.
    + cbn [flat_map]. rewrite IH. cbn [skipn]. rewrite skipn_app_le by (fold cl; lia).
      set (n := Nat.min len (cl - offset)).
      assert (Hn : n <= cl - offset) by (unfold n; lia).
      assert (Hpb : piece_bytes (match c with
                     | CMem d o => PMem (firstn n (skipn (o + offset) d))
                     | CFile f o l => PFile (CFile f (o + offset) (o + offset + n))
                     | CTemp d o _ _ => PFile (CTemp (firstn (o + offset + n) d) (o + offset) false false)
                     end) = firstn n (skipn offset (bytes c))).
      { destruct c as [d o|f o l|d o w p]; cbn [piece_bytes chunk_bytes] in *.
        - rewrite skipn_skipn'. reflexivity.
        - subst cl. rewrite firstn_length, skipn_length in *. rewrite skipn_firstn', skipn_skipn', firstn_firstn.
          repeat (f_equal; try lia).
        - rewrite skipn_firstn', skipn_skipn'. repeat (f_equal; try lia). }
      rewrite Hpb.
      assert (Hl : length (skipn offset (bytes c)) = cl - offset) by (rewrite skipn_length; reflexivity).
      destruct (Nat.le_gt_cases len (cl - offset)) as [Hfit|Hmore].
      * replace n with len by (unfold n; lia). replace (len - len) with 0 by lia.
        rewrite firstn_app_le by lia.
        assert (range_pieces fs t 0 0 = []) as Hz by (destruct t; reflexivity).
        rewrite firstn_O, app_nil_r. reflexivity.
      * replace n with (cl - offset) by (unfold n; lia).
        rewrite firstn_app_ge by lia. rewrite Hl. rewrite firstn_all2 by lia. reflexivity.
Qed.

Lemma range_pieces_wf src : forall offset len, Forall (chunk_wf fs) src -> Forall piece_wf (range_pieces fs src offset len).
Proof.
  induction src as [|c t IH]; intros offset len Hw; cbn [range_pieces]; [constructor|]. inversion Hw as [|? ? Hc Ht]; subst.
  destruct len as [|len']; [constructor|]. destruct (Nat.leb_spec (clen c) offset) as [Hle|Hgt]; [apply IH; exact Ht|].
  constructor; [|apply IH; exact Ht]. unfold chunk_len in *.
  destruct c as [d o|f o l|d o w p]; cbn [piece_wf chunk_wf chunk_bytes] in *; [exact I| |].
  - rewrite !firstn_length, !skipn_length in *. lia.
  - rewrite !skipn_length in *. rewrite firstn_length. lia.
Qed.

Theorem append_cq_range_content ext dst src offset len : wfq dst -> wfq src ->
  cont (append_cq_range ext fs dst src offset len) = cont dst ++ firstn len (skipn offset (cont src)) /\
  wfq (append_cq_range ext fs dst src offset len).
Proof.
  intros Hd Hs. unfold append_cq_range.
  destruct (fold_pieces_content ext (range_pieces fs (chunks src) offset len) dst Hd (range_pieces_wf _ _ _ Hs)) as [Hc Hw].
  rewrite Hc, range_pieces_spec. auto.
Qed.
Theorem append_cq_range_acct ext dst src offset len : wfq dst -> wfq src -> acct dst -> acct (append_cq_range ext fs dst src offset len).
Proof. intros Hd Hs Ha. apply fold_pieces_acct; [exact Hd|apply range_pieces_wf; exact Hs|exact Ha]. Qed.

(* ---------- compaction changes no byte *)
Definition all_mem (cs : list chunk) : Prop := Forall (fun c => match c with CMem _ _ => True | _ => False end) cs.
Lemma gather_spec cs : forall need g r, Forall (chunk_wf fs) cs -> gather cs need = (g, r) -> g ++ flat_map bytes r = flat_map bytes cs.
Proof.
  induction cs as [|c t IH]; intros need g r Hw; destruct need as [|need']; cbn [gather]; try (intros H; inversion H; reflexivity).
  inversion Hw as [|? ? Hc Ht]; subst.
  destruct c as [d o|f o l|d o w p]; try (intros H; inversion H; reflexivity).
  cbn in Hc. destruct (Nat.ltb_spec (S need') (length d - o)) as [Hlt|Hge].
  - intros H. injection H as Hg Hr. subst g r. cbn [flat_map chunk_bytes]. rewrite app_assoc. f_equal.
    rewrite <- skipn_skipn'. exact (firstn_skipn (S need') (skipn o d)).
  - destruct (gather t (S need' - (length d - o))) as [g1 r1] eqn:Eg. intros H. injection H as Hg Hr. subst g r.
    cbn [flat_map chunk_bytes]. rewrite <- app_assoc. f_equal. eapply IH; eassumption.
Qed.
Theorem compact_mem_content q clen0 : wfq q -> cont (compact_mem q clen0) = cont q.
Proof.
  intros Hw. unfold compact_mem, content. destruct (chunks q) as [|c t] eqn:Eq; [rewrite Eq; reflexivity|].
  destruct c as [d o|f o l|d o w p]; try (rewrite Eq; reflexivity).
  destruct (clen0 <=? length d - o); [rewrite Eq; reflexivity|].
  destruct (gather t (clen0 - (length d - o))) as [g r] eqn:Eg. cbn [chunks flat_map chunk_bytes skipn].
  unfold wfq in Hw. rewrite Eq in Hw. inversion Hw; subst. rewrite <- app_assoc. f_equal. eapply gather_spec; eassumption.
Qed.

(* ---------- peek / read *)
Theorem read_data_spec q n d q' : read_data fs q n = Some (d, q') ->
  d = firstn n (cont q) /\ length d = n /\ cont q' = skipn n (cont q).
Proof.
  unfold read_data, peek_data. destruct (Nat.eqb_spec (length (firstn n (cont q))) n) as [He|Hne]; [|discriminate].
  intros H; inversion H; subst. repeat split; [exact He|]. apply mark_written_content. rewrite firstn_length in He. lia.
Qed.

(* ---------- spilling to temp files / squashing change no byte *)
Lemma spill_chunk_bytes c : bytes (spill_chunk c) = bytes c.
Proof. destruct c; reflexivity. Qed.
Theorem spill_content q : cont (spill q) = cont q.
Proof.
  unfold content, spill. cbn [chunks]. induction (chunks q) as [|c t IH]; [reflexivity|]. cbn [map flat_map]. rewrite spill_chunk_bytes, IH. reflexivity.
Qed.
Lemma spill_wf q : wfq q -> wfq (spill q).
Proof.
  unfold wfq, spill. cbn [chunks]. induction 1 as [|c t Hc _ IH]; cbn [map]; constructor; [|exact IH]. destruct c; exact Hc.
Qed.
Theorem read_squash_content q : cont (read_squash fs q) = cont q.
Proof.
  unfold read_squash.
  assert (Hs : cont {| chunks := [CMem (cont q) 0]; bin := bin q; bout := bout q |} = cont q)
    by (unfold content at 1; cbn [chunks flat_map chunk_bytes skipn]; apply app_nil_r).
  destruct (chunks q) as [|c [|c2 t]]; try exact Hs; destruct c; try exact Hs. reflexivity.
Qed.

(* ---------- steal_with_tempfiles (no hard write error): same bytes move as for steal *)
Lemma add_piece_tmp_content q p : wfq q -> piece_wf p -> cont (add_piece_tmp fs q p) = cont q ++ piece_bytes p /\ wfq (add_piece_tmp fs q p).
Proof.
  intros Hw Hp.
  assert (Ht : forall m, cont (let q1 := if first_is_mem q then spill q else q in
                               match m with [] => q1 | _ => {| chunks := chunks q1 ++ [CTemp m 0 true false]; bin := (bin q1 + Z.of_nat (length m))%Z; bout := bout q1 |} end)
                         = cont q ++ m /\
                         wfq (let q1 := if first_is_mem q then spill q else q in
                               match m with [] => q1 | _ => {| chunks := chunks q1 ++ [CTemp m 0 true false]; bin := (bin q1 + Z.of_nat (length m))%Z; bout := bout q1 |} end)).
  { intros m. cbv zeta.
    assert (Hq1 : cont (if first_is_mem q then spill q else q) = cont q /\ wfq (if first_is_mem q then spill q else q))
      by (destruct (first_is_mem q); [split; [apply spill_content|apply spill_wf; exact Hw]|split; [reflexivity|exact Hw]]).
    destruct Hq1 as [Hc1 Hw1]. destruct m as [|x m'].
    - rewrite app_nil_r. split; assumption.
    - split.
      + unfold content at 1. cbn [chunks]. rewrite content_app. fold (cont (if first_is_mem q then spill q else q)). rewrite Hc1. cbn. rewrite app_nil_r. reflexivity.
      + unfold wfq. cbn [chunks]. apply wf_app. split; [exact Hw1|repeat constructor; cbn; lia]. }
  destruct p as [c|m|c]; cbn [add_piece_tmp piece_bytes].
  - destruct c as [d o|f o l|d o w pp]; try (split; [apply add_piece_content; exact Hw|apply add_piece_wf; assumption]).
    apply Ht.
  - apply Ht.
  - split; [apply add_piece_content; exact Hw|apply add_piece_wf; assumption].
Qed.
Lemma fold_pieces_tmp_content ps : forall q, wfq q -> Forall piece_wf ps ->
  cont (fold_left (fun q p => add_piece_tmp fs q p) ps q) = cont q ++ flat_map piece_bytes ps.
Proof.
  induction ps as [|p t IH]; intros q Hw Hp; cbn [fold_left flat_map]; [rewrite app_nil_r; reflexivity|].
  inversion Hp; subst. destruct (add_piece_tmp_content q p Hw) as [Hc Hw']; [assumption|].
  rewrite IH by assumption. rewrite Hc, app_assoc. reflexivity.
Qed.
Theorem steal_tmp_content dest src len : wfq dest -> wfq src ->
  let '(d', s') := steal_tmp fs dest src len in
  cont d' = cont dest ++ firstn len (cont src) /\ cont s' = skipn len (cont src).
Proof.
  intros Hd Hs. unfold steal_tmp. destruct (steal_loop fs (chunks src) len) as [[ps s1] n] eqn:E.
  destruct (steal_loop_spec _ _ _ _ _ E) as (Hp & Hr & Hn). destruct (steal_loop_wf _ _ _ _ _ Hs E) as [Hpw Hsw].
  rewrite fold_pieces_tmp_content by assumption. rewrite Hp. unfold content at 3. cbn [chunks]. auto.
Qed.

(* ---------- chunkqueue_append_mem_to_tempfile under every fault script *)
Lemma last_open_temp_spec cs limit cs0 d o : last_open_temp cs limit = Some (cs0, d, o) -> cs = cs0 ++ [CTemp d o true true].
Proof.
  unfold last_open_temp. destruct (rev cs) as [|c r] eqn:Er; [discriminate|]. apply last_split in Er.
  destruct c as [| |d' o' w p]; try discriminate. destruct w; [|discriminate]. destruct p; [|discriminate].
  destruct (length d' <? limit); [|discriminate]. intros H; inversion H; subst. reflexivity.
Qed.
Lemma close_last_content cs : flat_map bytes (close_last cs) = flat_map bytes cs /\ (Forall (chunk_wf fs) cs -> Forall (chunk_wf fs) (close_last cs)).
Proof.
  unfold close_last. destruct (rev cs) as [|c r] eqn:Er; [auto|]. apply last_split in Er.
  destruct c as [| |d o w p]; auto. destruct p; auto. subst cs. rewrite !content_app. split; [reflexivity|].
  intros H. apply wf_app in H as [H1 H2]. apply wf_app. split; [exact H1|]. inversion H2; subst. repeat constructor. assumption.
Qed.
Lemma drop_last_content cs0 d o w p : flat_map bytes (drop_last_if_empty (cs0 ++ [CTemp d o w p])) = flat_map bytes (cs0 ++ [CTemp d o w p]) /\
  (Forall (chunk_wf fs) (cs0 ++ [CTemp d o w p]) -> Forall (chunk_wf fs) (drop_last_if_empty (cs0 ++ [CTemp d o w p]))).
Proof.
  unfold drop_last_if_empty. rewrite rev_app_distr. cbn [rev app]. rewrite rev_involutive.
  destruct (Nat.eqb_spec (length d - o) 0) as [Hz|Hnz].
  - rewrite content_app. cbn [flat_map chunk_bytes]. rewrite skipn_all2 by lia. rewrite !app_nil_r. split; [reflexivity|].
    intros H. apply wf_app in H as [H1 _]. exact H1.
  - rewrite !content_app. split; [reflexivity|]. intros H. apply wf_app in H as [H1 H2]. apply wf_app. split; [exact H1|].
    inversion H2; subst. repeat constructor. assumption.
Qed.

Definition mk (cs : list chunk) (b o : Z) : cq := {| chunks := cs; bin := b; bout := o |}.

Theorem mem_to_temp_spec : forall fuel limit nd q m script ok q' script' nd',
  mem_to_temp fuel limit nd q m script = (ok, q', script', nd') -> wfq q -> acct q ->
  exists k, k <= length m /\ cont q' = cont q ++ firstn k m /\ acct q' /\ wfq q' /\ (ok = true -> k = length m).
Proof.
  induction fuel as [|f IH]; intros limit nd q m script ok q' script' nd'; cbn [mem_to_temp].
  - intros H Hw Ha. inversion H; subst. exists 0. rewrite firstn_O, app_nil_r. split; [lia|]. split; [reflexivity|]. split; [exact Ha|]. split; [exact Hw|discriminate].
  - intros H Hw Ha.
    (* the working temp chunk: reused or fresh; in both cases content and accounting are those of q *)
    assert (Hpick : forall cs0 d o,
      (match last_open_temp (chunks q) limit with Some x => Some x | None => if (nd =? 0)%nat then None else Some (close_last (chunks q), [], 0) end) = Some (cs0, d, o) ->
      flat_map bytes (cs0 ++ [CTemp d o true true]) = cont q /\ Forall (chunk_wf fs) (cs0 ++ [CTemp d o true true]) /\ o <= length d).
    { intros cs0 d o Hp. destruct (last_open_temp (chunks q) limit) as [[[a b] c]|] eqn:El.
      - inversion Hp; subst. apply last_open_temp_spec in El. unfold content. rewrite <- El. split; [reflexivity|]. split; [exact Hw|].
        unfold wfq in Hw. rewrite El in Hw. apply wf_app in Hw as [_ Hl]. inversion Hl; subst. assumption.
      - destruct (nd =? 0)%nat; [discriminate|]. inversion Hp; subst. destruct (close_last_content (chunks q)) as [Hc Hwf].
        rewrite content_app. cbn [flat_map chunk_bytes skipn]. rewrite app_nil_r, Hc. split; [reflexivity|]. split; [|cbn; lia].
        apply wf_app. split; [apply Hwf; exact Hw|repeat constructor; cbn; lia]. }
    destruct (match last_open_temp (chunks q) limit with Some x => Some x | None => if (nd =? 0)%nat then None else Some (close_last (chunks q), [], 0) end)
      as [[[cs0 d] o]|] eqn:Ep.
    2:{ inversion H; subst. exists 0. rewrite firstn_O, app_nil_r. destruct (close_last_content (chunks q)) as [Hc Hwf].
        split; [lia|]. split; [unfold content; cbn [chunks]; exact Hc|]. split; [|split; [apply Hwf; exact Hw|discriminate]].
        unfold acct, content, cq_length in *. cbn [chunks bin bout]. rewrite Hc. exact Ha. }
    destruct (Hpick _ _ _ eq_refl) as (Hc0 & Hw0 & Ho).
    assert (Hsame : acct (mk (cs0 ++ [CTemp d o true true]) (bin q) (bout q)) /\ cont (mk (cs0 ++ [CTemp d o true true]) (bin q) (bout q)) = cont q)
      by (split; [unfold acct, content, cq_length, mk in *; cbn [chunks bin bout]; rewrite Hc0; exact Ha|unfold content, mk; cbn [chunks]; exact Hc0]).
    destruct Hsame as [Ha0 Hc0'].
    (* appending x bytes to the temp chunk *)
    assert (Happ : forall x, cont (mk (cs0 ++ [CTemp (d ++ x) o true true]) (bin q + Z.of_nat (length x)) (bout q)) = cont q ++ x /\
                             acct (mk (cs0 ++ [CTemp (d ++ x) o true true]) (bin q + Z.of_nat (length x)) (bout q)) /\
                             wfq (mk (cs0 ++ [CTemp (d ++ x) o true true]) (bin q + Z.of_nat (length x)) (bout q))).
    { intros x. assert (Hcx : flat_map bytes (cs0 ++ [CTemp (d ++ x) o true true]) = cont q ++ x).
      { rewrite content_app in *. cbn [flat_map chunk_bytes] in *. rewrite app_nil_r in *. rewrite skipn_app_le by exact Ho. rewrite app_assoc, Hc0. reflexivity. }
      split; [exact Hcx|]. split.
      - unfold acct, content, cq_length, mk in *. cbn [chunks bin bout]. rewrite Hcx, app_length. lia.
      - unfold wfq, mk. cbn [chunks]. apply wf_app in Hw0 as [Hw1 _]. apply wf_app. split; [exact Hw1|repeat constructor; cbn; rewrite app_length; lia]. }
    destruct m as [|x0 m'].
    { inversion H; subst. exists 0. rewrite firstn_O, app_nil_r. split; [cbn; lia|]. split; [exact Hc0'|]. split; [exact Ha0|]. split; [exact Hw0|reflexivity]. }
    set (m := x0 :: m') in *.
    destruct (match script with [] => (WFull, []) | w :: s0 => (w, s0) end) as [w scr] eqn:Es.
    destruct w as [|k| | |].
    + inversion H; subst. destruct (Happ m) as (Hc & Ha' & Hw'). exists (length m). rewrite firstn_all. split; [lia|]. split; [exact Hc|]. split; [exact Ha'|]. split; [exact Hw'|reflexivity].
    + destruct (Nat.eqb_spec (Nat.min k (length m)) (length m)) as [Hfull|Hshort].
      * inversion H; subst. destruct (Happ m) as (Hc & Ha' & Hw'). exists (length m). rewrite firstn_all. split; [lia|]. split; [exact Hc|]. split; [exact Ha'|]. split; [exact Hw'|reflexivity].
      * set (kk := Nat.min k (length m)) in *. destruct (Happ (firstn kk m)) as (Hc & Ha' & Hw').
        assert (Hkl : length (firstn kk m) = kk) by (rewrite firstn_length; lia). rewrite Hkl in *.
        apply IH in H; [|exact Hw'|exact Ha']. destruct H as (k2 & Hk2 & Hc2 & Ha2 & Hw2 & Hok).
        exists (kk + k2). rewrite skipn_length in Hk2. split; [lia|]. split; [|split; [exact Ha2|split; [exact Hw2|]]].
        -- unfold mk in *. rewrite Hc2, Hc. rewrite <- app_assoc. f_equal.
           rewrite <- (firstn_skipn kk m) at 3. rewrite firstn_app_ge by (rewrite firstn_length; lia). rewrite Hkl. replace (kk + k2 - kk) with k2 by lia. reflexivity.
        -- intros Ht. specialize (Hok Ht). rewrite skipn_length in Hok. lia.
    + apply IH in H; [|exact Hw0|exact Ha0]. destruct H as (k2 & Hk2 & Hc2 & Ha2 & Hw2 & Hok).
      exists k2. split; [exact Hk2|]. split; [unfold mk in *; rewrite Hc2, Hc0'; reflexivity|]. split; [exact Ha2|]. split; [exact Hw2|exact Hok].
    + destruct (drop_last_content cs0 d o true true) as [Hdc Hdw].
      assert (Hq' : cont (mk (drop_last_if_empty (cs0 ++ [CTemp d o true true])) (bin q) (bout q)) = cont q /\
                    acct (mk (drop_last_if_empty (cs0 ++ [CTemp d o true true])) (bin q) (bout q)) /\
                    wfq (mk (drop_last_if_empty (cs0 ++ [CTemp d o true true])) (bin q) (bout q))).
      { split; [unfold content, mk; cbn [chunks]; rewrite Hdc; exact Hc0|]. split.
        - unfold acct, content, cq_length, mk in *. cbn [chunks bin bout]. rewrite Hdc, Hc0. exact Ha.
        - unfold wfq, mk. cbn [chunks]. apply Hdw. exact Hw0. }
      destruct Hq' as (Hcq & Haq & Hwq).
      destruct (1 <? nd).
      * apply IH in H; [|exact Hwq|exact Haq]. destruct H as (k2 & Hk2 & Hc2 & Ha2 & Hw2 & Hok).
        exists k2. split; [exact Hk2|]. split; [unfold mk in *; rewrite Hc2, Hcq; reflexivity|]. split; [exact Ha2|]. split; [exact Hw2|exact Hok].
      * inversion H; subst. exists 0. rewrite firstn_O, app_nil_r. split; [lia|]. split; [exact Hcq|]. split; [exact Haq|]. split; [exact Hwq|discriminate].
    + destruct (drop_last_content cs0 d o true true) as [Hdc Hdw].
      inversion H; subst. exists 0. rewrite firstn_O, app_nil_r. split; [lia|]. split; [|split; [|split; [|discriminate]]].
      * unfold content; cbn [chunks]. rewrite Hdc. exact Hc0.
      * unfold acct, content, cq_length in *. cbn [chunks bin bout]. rewrite Hdc, Hc0. exact Ha.
      * unfold wfq. cbn [chunks]. apply Hdw. exact Hw0.
Qed.

(* ---------- every operation sequence: a two-queue state machine refines two byte strings *)
Lemma acct_same q q' : cont q' = cont q -> bin q' = bin q -> bout q' = bout q -> acct q -> acct q'.
Proof. unfold acct, cq_length. intros -> -> ->. auto. Qed.

Lemma gather_wf cs : forall need g r, Forall (chunk_wf fs) cs -> gather cs need = (g, r) -> Forall (chunk_wf fs) r.
Proof.
  induction cs as [|c t IH]; intros need g r Hw; destruct need as [|need']; cbn [gather]; try (intros H; inversion H; subst; assumption).
  inversion Hw as [|? ? Hc Ht]; subst.
  destruct c as [d o|f o l|d o w p]; try (intros H; inversion H; subst; assumption).
  cbn in Hc. destruct (Nat.ltb_spec (S need') (length d - o)) as [Hlt|Hge].
  - intros H. injection H as Hg Hr. subst r. constructor; [cbn; lia|exact Ht].
  - destruct (gather t (S need' - (length d - o))) as [g1 r1] eqn:Eg. intros H. injection H as Hg Hr. subst r. eapply IH; eassumption.
Qed.
Lemma compact_mem_wf q n : wfq q -> wfq (compact_mem q n).
Proof.
  intros Hw. unfold compact_mem. destruct (chunks q) as [|c t] eqn:Eq; [exact Hw|]. destruct c as [d o|f o l|d o w p]; try exact Hw.
  destruct (n <=? length d - o); [exact Hw|]. destruct (gather t (n - (length d - o))) as [g r] eqn:Eg.
  unfold wfq in *. cbn [chunks]. rewrite Eq in Hw. inversion Hw; subst. constructor; [cbn; lia|eapply gather_wf; eassumption].
Qed.
Lemma compact_mem_counters q n : bin (compact_mem q n) = bin q /\ bout (compact_mem q n) = bout q.
Proof.
  unfold compact_mem. destruct (chunks q) as [|c t]; [auto|]. destruct c; auto. destruct (n <=? length data - off); [auto|].
  destruct (gather t (n - (length data - off))); auto.
Qed.
Lemma read_squash_wf q : wfq (read_squash fs q).
Proof.
  unfold read_squash. assert (Hs : wfq {| chunks := [CMem (cont q) 0]; bin := bin q; bout := bout q |}) by (repeat constructor; cbn; lia).
Abort.
Lemma read_squash_wf q : wfq q -> wfq (read_squash fs q).
Proof.
  intros Hw. unfold read_squash. assert (Hs : wfq {| chunks := [CMem (cont q) 0]; bin := bin q; bout := bout q |}) by (repeat constructor; cbn; lia).
  destruct (chunks q) as [|c [|c2 t]]; try exact Hs; destruct c; try exact Hs. exact Hw.
Qed.
Lemma read_squash_counters q : bin (read_squash fs q) = bin q /\ bout (read_squash fs q) = bout q.
Proof. unfold read_squash. destruct (chunks q) as [|c [|c2 t]]; auto; destruct c; auto. Qed.

Lemma add_piece_tmp_acct q p : wfq q -> piece_wf p -> acct q -> acct (add_piece_tmp fs q p).
Proof.
  intros Hw Hp Ha. destruct (add_piece_tmp_content q p Hw Hp) as [Hc _]. unfold acct. rewrite Hc, app_length.
  assert (Hsp : forall m, cq_length (let q1 := if first_is_mem q then spill q else q in
                 match m with [] => q1 | _ => {| chunks := chunks q1 ++ [CTemp m 0 true false]; bin := (bin q1 + Z.of_nat (length m))%Z; bout := bout q1 |} end)
                 = (cq_length q + Z.of_nat (length m))%Z).
  { intros m. cbv zeta. destruct (first_is_mem q); destruct m; unfold cq_length, spill; cbn [bin bout length]; lia. }
  unfold acct in Ha.
  destruct p as [c|m|c]; cbn [add_piece_tmp piece_bytes].
  - destruct c as [d o|f o l|d o w pp].
    + rewrite Hsp. cbn [chunk_bytes]. lia.
    + pose proof (add_piece_acct false q (PWhole (CFile f o l)) Hw Ha) as H. unfold acct in H. rewrite add_piece_content in H by exact Hw. rewrite app_length in H. exact H.
    + pose proof (add_piece_acct false q (PWhole (CTemp d o w pp)) Hw Ha) as H. unfold acct in H. rewrite add_piece_content in H by exact Hw. rewrite app_length in H. exact H.
  - rewrite Hsp. lia.
  - pose proof (add_piece_acct false q (PFile c) Hw Ha) as H. unfold acct in H. rewrite add_piece_content in H by exact Hw. rewrite app_length in H. exact H.
Qed.
Lemma fold_pieces_tmp_inv ps : forall q, wfq q -> Forall piece_wf ps -> acct q ->
  wfq (fold_left (fun q p => add_piece_tmp fs q p) ps q) /\ acct (fold_left (fun q p => add_piece_tmp fs q p) ps q).
Proof.
  induction ps as [|p t IH]; intros q Hw Hp Ha; cbn [fold_left]; [auto|]. inversion Hp; subst.
  destruct (add_piece_tmp_content q p Hw) as [_ Hw']; [assumption|]. apply IH; [exact Hw'|assumption|apply add_piece_tmp_acct; assumption].
Qed.

Inductive op :=
| OAppendMem (ext : bool) (m : list N) | OAppendFile (f off len : nat) | OAppendCq | OSteal (ext : bool) (len : nat)
| OStealTmp (len : nat) | OMark (n : nat) | OCompact (n : nat) | ORange (ext : bool) (off len : nat) | OSquash | ORemoveFinished
| OMemToTemp (limit nd : nat) (m : list N) (script : list wres) | OReset | OSwap.

(* operations act on queue a (with b as the other queue); a guard that fails leaves the state alone
   (the caller obligations: a file range inside its file, no consuming beyond the queued length) *)
Definition step (s : cq * cq) (o : op) : cq * cq :=
  let '(a, b) := s in
  match o with
  | OAppendMem ext m => (append_mem ext a m, b)
  | OAppendFile f off len => if off + len <=? length (nth f fs []) then (append_file a f off len, b) else s
  | OAppendCq => append_cq a b
  | OSteal ext len => steal ext fs a b len
  | OStealTmp len => steal_tmp fs a b len
  | OMark n => if n <=? length (cont a) then (mark_written fs a n, b) else s
  | OCompact n => (compact_mem a n, b)
  | ORange ext off len => (append_cq_range ext fs a b off len, b)
  | OSquash => (read_squash fs a, b)
  | ORemoveFinished => (remove_finished fs a, b)
  | OMemToTemp limit nd m script => (snd (fst (fst (mem_to_temp (S (length m + length script)) limit nd a m script))), b)
  | OReset => (reset a, b)
  | OSwap => (b, a)
  end.

Definition Inv (s : cq * cq) : Prop := wfq (fst s) /\ wfq (snd s) /\ acct (fst s) /\ acct (snd s).

Lemma Inv_init : Inv (cq_empty, cq_empty).
Proof. repeat split; try constructor. Qed.

Theorem step_Inv s o : Inv s -> Inv (step s o).
Proof.
  destruct s as [a b]. intros (Hwa & Hwb & Haa & Hab). cbn [fst snd] in *. destruct o; cbn [step].
  - repeat split; cbn [fst snd]; auto using append_mem_wf, append_mem_acct.
  - destruct (Nat.leb_spec (off + len) (length (nth f fs []))); [|repeat split; assumption].
    repeat split; cbn [fst snd]; auto using append_file_wf, append_file_acct.
  - pose proof (append_cq_acct a b Haa Hab) as H. unfold append_cq in *. destruct (chunks b) as [|c t] eqn:Eb.
    + repeat split; assumption.
    + destruct H as [H1 H2]. repeat split; cbn [fst snd]; auto; [|constructor].
      unfold wfq in *. cbn [chunks]. apply wf_app. split; [exact Hwa|]. rewrite <- Eb. exact Hwb.
  - pose proof (steal_content ext a b len Hwa Hwb) as Hc. pose proof (steal_acct ext a b len Hwa Hwb Haa Hab) as Hac.
    destruct (steal ext fs a b len) as [d' s']. destruct Hc as (_ & _ & H1 & H2). destruct Hac. repeat split; assumption.
  - unfold steal_tmp. destruct (steal_loop fs (chunks b) len) as [[ps s1] n] eqn:E.
    destruct (steal_loop_spec _ _ _ _ _ E) as (Hp & Hr & Hn). destruct (steal_loop_wf _ _ _ _ _ Hwb E) as [Hpw Hsw].
    destruct (fold_pieces_tmp_inv ps a Hwa Hpw Haa) as [H1 H2]. repeat split; cbn [fst snd]; auto.
    unfold acct, content, cq_length in *. cbn [chunks bin bout]. rewrite Hr, skipn_length, Hn, firstn_length. lia.
  - destruct (Nat.leb_spec n (length (cont a))); [|repeat split; assumption].
    repeat split; cbn [fst snd]; auto using mark_written_acct. unfold wfq, mark_written. cbn [chunks]. apply drop_bytes_wf. exact Hwa.
  - destruct (compact_mem_counters a n) as [H1 H2]. repeat split; cbn [fst snd]; auto using compact_mem_wf.
    apply (acct_same a); auto. apply compact_mem_content. exact Hwa.
  - destruct (append_cq_range_content ext a b off len Hwa Hwb) as [_ Hw]. repeat split; cbn [fst snd]; auto using append_cq_range_acct.
  - destruct (read_squash_counters a) as [H1 H2]. repeat split; cbn [fst snd]; auto using read_squash_wf.
    apply (acct_same a); auto. apply read_squash_content.
  - repeat split; cbn [fst snd]; auto.
    + unfold wfq, remove_finished. cbn [chunks]. clear Haa. induction Hwa as [|c t Hc Ht IH]; cbn [drop_finished]; [constructor|].
      destruct (clen c =? 0); [exact IH|constructor; assumption].
    + apply (acct_same a); auto. apply remove_finished_content.
  - destruct (mem_to_temp (S (length m + length script)) limit nd a m script) as [[[ok q'] scr] nd'] eqn:E.
    destruct (mem_to_temp_spec _ _ _ _ _ _ _ _ _ _ E Hwa Haa) as (k & _ & _ & Ha' & Hw' & _). repeat split; cbn [fst snd]; assumption.
  - repeat split; cbn [fst snd]; auto; constructor.
  - repeat split; cbn [fst snd]; assumption.
Qed.

Theorem run_Inv ops : Inv (fold_left step ops (cq_empty, cq_empty)).
Proof.
  assert (H : forall s, Inv s -> Inv (fold_left step ops s)).
  { induction ops as [|o t IH]; intros s Hs; cbn [fold_left]; [exact Hs|]. apply IH. apply step_Inv. exact Hs. }
  apply H. apply Inv_init.
Qed.

(* the byte-string specification of the deterministic operations *)
Definition spec_step (s : list N * list N) (o : op) : list N * list N :=
  let '(a, b) := s in
  match o with
  | OAppendMem _ m => (a ++ m, b)
  | OAppendFile f off len => if off + len <=? length (nth f fs []) then (a ++ firstn len (skipn off (nth f fs [])), b) else s
  | OAppendCq => (a ++ b, [])
  | OSteal _ len | OStealTmp len => (a ++ firstn len b, skipn len b)
  | OMark n => if n <=? length a then (skipn n a, b) else s
  | OCompact _ | OSquash | ORemoveFinished => s
  | ORange _ off len => (a ++ firstn len (skipn off b), b)
  | OMemToTemp _ _ m _ => s   (* not deterministic: see mem_to_temp_spec *)
  | OReset => ([], b)
  | OSwap => (b, a)
  end.
Definition abs (s : cq * cq) : list N * list N := (cont (fst s), cont (snd s)).
Definition deterministic (o : op) : bool := match o with OMemToTemp _ _ _ _ => false | _ => true end.

Theorem step_refines s o : Inv s -> deterministic o = true -> abs (step s o) = spec_step (abs s) o.
Proof.
  destruct s as [a b]. intros (Hwa & Hwb & Haa & Hab) Hd. cbn [fst snd] in *. unfold abs. destruct o; try discriminate; cbn [step spec_step fst snd].
  - rewrite append_mem_content by exact Hwa. reflexivity.
  - destruct (Nat.leb_spec (off + len) (length (nth f fs []))); [|reflexivity]. cbn [fst snd]. rewrite append_file_content by assumption. reflexivity.
  - pose proof (append_cq_content a b) as H. destruct (append_cq a b) as [q' s']. cbn [fst snd]. destruct H as [-> ->]. reflexivity.
  - pose proof (steal_content ext a b len Hwa Hwb) as H. destruct (steal ext fs a b len) as [d' s']. cbn [fst snd]. destruct H as (-> & -> & _). reflexivity.
  - pose proof (steal_tmp_content a b len Hwa Hwb) as H. destruct (steal_tmp fs a b len) as [d' s']. cbn [fst snd]. destruct H as (-> & ->). reflexivity.
  - destruct (Nat.leb_spec n (length (cont a))); [|reflexivity]. cbn [fst snd]. rewrite mark_written_content by assumption. reflexivity.
  - rewrite compact_mem_content by exact Hwa. reflexivity.
  - destruct (append_cq_range_content ext a b off len Hwa Hwb) as [-> _]. reflexivity.
  - rewrite read_squash_content. reflexivity.
  - rewrite remove_finished_content. reflexivity.
  - reflexivity.
  - reflexivity.
Qed.
End WithStore.
