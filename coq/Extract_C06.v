From LV Require Import Base.Bytes Gen.GenH2 H2.H2Flow.
Require Import ExtrOcamlBasic.
Extraction "model.ml" h2_init step advertised_conn_window_incr server_settings_len.
