From LV Require Import Base.Bytes Dav.DavModel.
Require Import ExtrOcamlBasic.
Extraction "model.ml" run fs_apply put_steps Z.of_N Nat.pred.
