(* Access/AccessProofs.v -- C03: what being served implies, address spoofing, respelling at the decode layer. *)
From Coq Require Import List NArith ZArith Bool Lia.
From LV Require Import Base.Bytes Gen.GenBurl Url.UrlModel Access.AccessModel.
Import ListNotations.
Local Open Scope N_scope.

(* ---------------------------------------------------------------- path-info split *)
Lemma pathinfo_split_spec fs fuel : forall pre rest file pi,
  pathinfo_split fs fuel pre rest = Some (file, pi) ->
  rev pre ++ rest = file ++ pi /\ is_file fs file = true /\ (exists t, pi = 47 :: t).
Proof.
  induction fuel as [|f IH]; intros pre rest file pi H; cbn [pathinfo_split] in H; [discriminate|].
  destruct rest as [|c t]; [discriminate|].
  destruct ((c =? 47) && negb match pre with [] => true | _ => false end) eqn:Hc.
  - destruct (is_file fs (rev pre)) eqn:Hf.
    + injection H as <- <-. apply andb_true_iff in Hc. destruct Hc as [Hc _]. apply N.eqb_eq in Hc. subst c.
      split; [reflexivity|]. split; [exact Hf|]. eexists; reflexivity.
    + destruct (is_dir fs (rev pre)); [|discriminate].
      destruct (IH _ _ _ _ H) as (H1 & H2 & H3). split; [|auto]. rewrite <- H1. cbn [rev]. rewrite <- app_assoc. reflexivity.
  - destruct (IH _ _ _ _ H) as (H1 & H2 & H3). split; [|auto]. rewrite <- H1. cbn [rev]. rewrite <- app_assoc. reflexivity.
Qed.

(* ---------------------------------------------------------------- served => allowed on the file's own URL path *)
Definition allowed (cf : config) (upath host : list N) (a : addr) : Prop :=
  access_check (allow cf) (deny_in_force cf upath host a) upath (lc cf) = true.

Theorem served_implies_allowed cf fs path host a file pi :
  decide_path cf fs path host a = O200 file pi ->
  exists upath,
    (length upath + length pi = length path)%nat /\ upath = firstn (length upath) path /\
    (if lc cf then lower path else path) = file ++ pi /\
    allowed cf upath host a /\                                   (* mod_access passed on the path of the file itself *)
    allowed cf path host a /\                                    (* ... and on the full path *)
    match_key_prefix (lc cf) (auth_prefix cf) path = false /\    (* no auth.require rule covers it *)
    match_value_suffix false (excl cf) file = false /\           (* not an excluded extension *)
    is_file fs file = true.
Proof.
  unfold decide_path, allowed.
  destruct (negb (access_check (allow cf) (deny_in_force cf path host a) path (lc cf))) eqn:H1; [discriminate|].
  apply negb_false_iff in H1.
  destruct (match_key_prefix (lc cf) (auth_prefix cf) path) eqn:H2; [discriminate|].
  set (rel := if lc cf then lower path else path).
  assert (Hlen : length rel = length path) by (unfold rel, lower; destruct (lc cf); [apply map_length | reflexivity]).
  destruct (exists_path fs rel) eqn:He.
  - destruct (is_dir fs (strip_slash rel) || match strip_slash rel with [] => true | _ => false end) eqn:Hd.
    { destruct (ends_slash path); discriminate. }
    destruct (match_value_suffix false (excl cf) rel) eqn:Hx; [discriminate|].
    intro H; injection H as <- <-.
    exists path. rewrite firstn_all, app_nil_r. cbn [length]. repeat (split; [lia || reflexivity || assumption|]).
    (* a path that exists and is neither a directory nor "/": a regular file *)
    unfold exists_path in He. apply orb_false_iff in Hd. destruct Hd as [Hd Hnil].
    unfold strip_slash in Hd, Hnil.
    destruct (rev rel) as [|c r] eqn:Hr.
    + rewrite Hd, orb_false_r in He. exact He.
    + destruct (N.eqb_spec c 47) as [->|Hne].
      * rewrite Hd in He. cbn [orb] in He. destruct r; [|discriminate].
        cbn [rev] in Hnil. discriminate.
      * rewrite Hd, orb_false_r in He. exact He.
  - destruct (pathinfo_split fs (S (length rel)) [] rel) as [[f p]|] eqn:Hp; [|discriminate].
    destruct (pathinfo_split_spec _ _ _ _ _ _ Hp) as (Hcat & Hf & _). cbn [rev app] in Hcat.
    destruct (negb (access_check (allow cf) (deny_in_force cf (firstn (length path - length p) path) host a)
                                 (firstn (length path - length p) path) (lc cf))) eqn:H3; [discriminate|].
    apply negb_false_iff in H3.
    destruct (match_value_suffix false (excl cf) f) eqn:Hx; [discriminate|].
    intro H; injection H as <- <-.
    assert (Hl : (length f + length p = length path)%nat) by (rewrite <- Hlen, Hcat, app_length; reflexivity).
    exists (firstn (length path - length p) path).
    rewrite firstn_length. replace (Nat.min (length path - length p) (length path)) with (length path - length p)%nat by lia.
    split; [lia|]. split; [reflexivity|]. split; [exact Hcat|]. auto.
Qed.

(* with force-lowercase-filenames the suffix tests of mod_access do not see letter case *)
Lemma ieq_c_lower x y : to_lower x = to_lower y -> x < 256 -> y < 256 -> ieq_c x y = true.
Proof.
  intros H Hx Hy.
  assert (forallb (fun a => forallb (fun b => negb (to_lower a =? to_lower b) || ieq_c a b)
                                    (map N.of_nat (seq 0 256))) (map N.of_nat (seq 0 256)) = true) as Hall by (vm_compute; reflexivity).
  rewrite forallb_forall in Hall.
  assert (Hin : forall z, z < 256 -> In z (map N.of_nat (seq 0 256))).
  { intros z Hz. apply in_map_iff. exists (N.to_nat z). split; [apply N2Nat.id|]. apply in_seq. lia. }
  specialize (Hall x (Hin x Hx)). rewrite forallb_forall in Hall. specialize (Hall y (Hin y Hy)).
  rewrite H, N.eqb_refl in Hall. exact Hall.
Qed.

(* ---------------------------------------------------------------- X-Forwarded-For *)
Section Xff.
Variable trusted : list N -> bool.

Theorem xff_untrusted_peer_ignored peer xff : trusted peer = false -> client_addr trusted peer xff = peer.
Proof. intros H. unfold client_addr. destruct xff; [rewrite H|]; reflexivity. Qed.

Lemma last_untrusted_spec l a : last_untrusted trusted l = Some a ->
  exists pre post, l = pre ++ a :: post /\ trusted a = false /\ forallb trusted pre = true.
Proof.
  induction l as [|t r IH]; cbn [last_untrusted]; [discriminate|].
  destruct (trusted t) eqn:Ht.
  - intro H. destruct (IH H) as (pre & post & -> & Ha & Hp). exists (t :: pre), post. cbn. rewrite Ht. auto.
  - intro H; injection H as <-. exists [], r. auto.
Qed.

Lemma last_untrusted_none l : last_untrusted trusted l = None -> forallb trusted l = true.
Proof. induction l as [|t r IH]; cbn; [reflexivity|]. destruct (trusted t); [exact IH | discriminate]. Qed.

(* the address used is the TCP peer, or the last hop in the header that is not a trusted forwarder
   (everything to its right is trusted), and only when the peer itself is trusted *)
Theorem xff_last_untrusted_hop peer h :
  client_addr trusted peer (Some h) = peer \/
  (trusted peer = true /\
   exists left right, fwd_tokens h None = left ++ client_addr trusted peer (Some h) :: right /\
                      trusted (client_addr trusted peer (Some h)) = false /\ forallb trusted right = true).
Proof.
  unfold client_addr. destruct (trusted peer) eqn:Hp; [|left; reflexivity].
  destruct (last_untrusted trusted (rev (fwd_tokens h None))) as [a|] eqn:Hl; [|left; reflexivity].
  destruct (parse_addr a); try (left; reflexivity); right; (split; [reflexivity|]);
  destruct (last_untrusted_spec _ _ Hl) as (pre & post & Hrev & Ha & Hpre);
  exists (rev post), (rev pre); (split; [|split; [exact Ha|]]);
  try (apply (f_equal (@rev (list N))) in Hrev; rewrite rev_involutive in Hrev; rewrite Hrev, rev_app_distr; cbn [rev]; rewrite <- app_assoc; reflexivity);
  rewrite forallb_forall in *; intros x Hx; apply Hpre; apply in_rev; exact Hx.
Qed.

Theorem xff_all_trusted_keeps_peer peer h :
  forallb trusted (fwd_tokens h None) = true -> client_addr trusted peer (Some h) = peer.
Proof.
  intro H. unfold client_addr. destruct (trusted peer); [|reflexivity].
  destruct (last_untrusted trusted (rev (fwd_tokens h None))) as [a|] eqn:Hl; [|reflexivity].
  destruct (last_untrusted_spec _ _ Hl) as (pre & post & Hrev & Ha & _).
  rewrite forallb_forall in H. assert (In a (fwd_tokens h None)) by (apply in_rev; rewrite Hrev; apply in_or_app; right; left; reflexivity).
  rewrite (H _ H0) in Ha. discriminate.
Qed.

(* every spelling that canonicalises to the same path gets the same decision *)
Theorem decision_function_of_canonical_path cf fs t1 t2 host peer xff t1' t2' p q1 q2 :
  parse_target (flags cf) t1 = TOk t1' p q1 -> parse_target (flags cf) t2 = TOk t2' p q2 ->
  decide trusted cf fs t1 host peer xff = decide trusted cf fs t2 host peer xff.
Proof. intros H1 H2. unfold decide. rewrite H1, H2. reflexivity. Qed.
End Xff.

(* ---------------------------------------------------------------- respelling at the decode layer *)
(* a string made of plain bytes and complete %XX escapes *)
Inductive wf : list N -> Prop :=
| wf_nil : wf []
| wf_lit c a : c <> 0 -> c <> pct -> wf a -> wf (c :: a)
| wf_esc h l hi lo a : h <> 0 -> hexval h = Some hi -> hexval l = Some lo -> wf a -> wf (pct :: h :: l :: a).

Lemma udec_app a b : wf a -> udec_loop (a ++ b) = udec_loop a ++ udec_loop b.
Proof.
  induction 1 as [|c a Hc0 Hcp Hw IH|h l hi lo a Hh0 Hh Hl Hw IH]; [reflexivity| |].
  - cbn [app udec_loop]. destruct (N.eqb_spec c 0); [contradiction|]. destruct (N.eqb_spec c pct); [contradiction|].
    cbn [app]. rewrite IH. reflexivity.
  - cbn [app udec_loop]. change (pct =? 0) with false. change (pct =? pct) with true. cbv beta iota.
    destruct (N.eqb_spec h 0); [contradiction|]. rewrite Hl, Hh. cbn [app]. rewrite IH. reflexivity.
Qed.

(* percent-encoding a printable byte (either hex case), anywhere after a well-formed prefix, does not change what
   buffer_urldecode_path produces: no "encoded spelling" reaches the modules *)
Theorem urldecode_respell_invariant a b c h l :
  wf a -> c <> 0 -> c <> pct -> dec_ctl c = c -> h <> 0 ->
  hexval h = Some (c / 16) -> hexval l = Some (c mod 16) ->
  udec_loop (a ++ pct :: h :: l :: b) = udec_loop (a ++ c :: b).
Proof.
  intros Hw Hc0 Hcp Hd Hh0 Hh Hl.
  rewrite !udec_app by exact Hw. f_equal.
  cbn [udec_loop]. change (pct =? 0) with false. change (pct =? pct) with true. cbv beta iota.
  destruct (N.eqb_spec h 0); [contradiction|]. rewrite Hl, Hh.
  destruct (N.eqb_spec c 0); [contradiction|]. destruct (N.eqb_spec c pct); [contradiction|].
  replace (c / 16 * 16 + c mod 16) with c by (rewrite N.mul_comm; apply N.div_mod; discriminate).
  rewrite Hd. reflexivity.
Qed.

(* hex digits are case-insensitive in escapes *)
Theorem urldecode_hexcase_invariant a b h l h' l' hi lo :
  wf a -> h <> 0 -> h' <> 0 -> hexval h = Some hi -> hexval h' = Some hi -> hexval l = Some lo -> hexval l' = Some lo ->
  udec_loop (a ++ pct :: h :: l :: b) = udec_loop (a ++ pct :: h' :: l' :: b).
Proof.
  intros Hw H0 H0' Hh Hh' Hl Hl'. rewrite !udec_app by exact Hw. f_equal.
  cbn [udec_loop]. change (pct =? 0) with false. change (pct =? pct) with true. cbv beta iota.
  destruct (N.eqb_spec h 0); [contradiction|]. destruct (N.eqb_spec h' 0); [contradiction|].
  rewrite Hh, Hl, Hh', Hl'. reflexivity.
Qed.

(* ---------------------------------------------------------------- letter case under force-lowercase-filenames *)
Lemma ieq_c_lower_l x y : x < 256 -> y < 256 -> ieq_c x y = ieq_c (to_lower x) y.
Proof.
  intros Hx Hy.
  assert (forallb (fun a => forallb (fun b => Bool.eqb (ieq_c a b) (ieq_c (to_lower a) b))
                                    (map N.of_nat (seq 0 256))) (map N.of_nat (seq 0 256)) = true) as Hall by (vm_compute; reflexivity).
  rewrite forallb_forall in Hall.
  assert (Hin : forall z, z < 256 -> In z (map N.of_nat (seq 0 256))).
  { intros z Hz. apply in_map_iff. exists (N.to_nat z). split; [apply N2Nat.id|]. apply in_seq. lia. }
  specialize (Hall x (Hin x Hx)). rewrite forallb_forall in Hall. specialize (Hall y (Hin y Hy)).
  apply Bool.eqb_prop in Hall. exact Hall.
Qed.

Definition bytes (s : list N) : Prop := Forall (fun c => c < 256) s.

Lemma eq_n_lower l : forall v, bytes l -> bytes v -> eq_n true l v = eq_n true (lower l) v.
Proof.
  induction l as [|x l IH]; intros [|y v] Hl Hv; cbn [eq_n lower map]; try reflexivity.
  inversion Hl; subst. inversion Hv; subst. rewrite (ieq_c_lower_l x y) by assumption. f_equal. apply IH; assumption.
Qed.

Lemma bytes_skipn n l : bytes l -> bytes (skipn n l).
Proof. revert l; induction n as [|n IH]; intros [|x l] H; cbn; auto. inversion H; auto. Qed.

Lemma suffix_of_lower v s s' : bytes s -> bytes s' -> bytes v -> lower s = lower s' ->
  suffix_of true v s = suffix_of true v s'.
Proof.
  intros Hs Hs' Hv Hl. unfold suffix_of, lastn.
  assert (Hlen : length s = length s') by (apply (f_equal (@length N)) in Hl; unfold lower in Hl; rewrite !map_length in Hl; exact Hl).
  rewrite Hlen. f_equal.
  rewrite (eq_n_lower (skipn _ s)) by (auto using bytes_skipn).
  rewrite (eq_n_lower (skipn _ s')) by (auto using bytes_skipn).
  unfold lower. rewrite <- !skipn_map. fold (lower s). fold (lower s'). rewrite Hl. reflexivity.
Qed.

(* with server.force-lowercase-filenames, mod_access gives the same answer for every letter-case respelling *)
Theorem access_check_case_invariant allow deny p p' :
  bytes p -> bytes p' -> Forall bytes allow -> Forall bytes deny -> lower p = lower p' ->
  access_check allow deny p true = access_check allow deny p' true.
Proof.
  intros Hp Hp' Ha Hd Hl.
  assert (Hm : forall l, Forall bytes l -> match_value_suffix true l p = match_value_suffix true l p').
  { induction l as [|v l IH]; intro Hf; [reflexivity|]. inversion Hf; subst. cbn [match_value_suffix existsb].
    rewrite (suffix_of_lower v p p') by assumption. f_equal. apply IH; assumption. }
  unfold access_check. destruct allow; [destruct deny; [reflexivity|]|]; rewrite Hm by assumption; reflexivity.
Qed.
