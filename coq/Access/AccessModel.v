(* Access/AccessModel.v -- executable model of the request pipeline between a parsed request-target and the decision
   "which file, if any, may be sent" (C03):
     http_request_parse_target (Url.UrlModel)  ->  client address (mod_extforward, X-Forwarded-For)  ->
     configuration blocks that apply (language semantics of $HTTP["url"|"host"|"remoteip"], cf. Cond/)  ->
     mod_access at handle_uri_clean  ->  mod_auth rule lookup  ->  docroot + (lower-cased) rel path  ->
     existence / path-info split (http_response_physical_path_check, http_response_physical_pathinfo)  ->
     mod_access again at handle_subrequest_start on the truncated uri.path  ->  mod_staticfile (exclude-extensions).
   The filesystem is a list of regular files and directories (relative paths).  Not modelled: symlink checks, index files,
   directory listings, the Forwarded header (RFC 7239) parser, IPv6 forwarders. *)
From Coq Require Import List NArith ZArith Bool Lia.
From LV Require Import Base.Bytes Gen.GenBurl Url.UrlModel.
Import ListNotations.
Local Open Scope N_scope.

(* ---------------------------------------------------------------- array_match_* *)
Definition ieq_c (a b : N) : bool := (a =? b) || ((N.lxor a b =? 32) && is_alpha a).   (* buffer_eq_icase_ssn, per byte *)
Fixpoint eq_n (nc : bool) (a b : list N) : bool :=      (* equal length assumed by callers through firstn/lastn *)
  match a, b with
  | [], [] => true
  | x :: a', y :: b' => (if nc then ieq_c x y else x =? y) && eq_n nc a' b'
  | _, _ => false
  end.
Definition lastn (n : nat) (l : list N) : list N := skipn (length l - n) l.
Definition suffix_of (nc : bool) (v s : list N) : bool := (length v <=? length s)%nat && eq_n nc (lastn (length v) s) v.
Definition prefix_of (nc : bool) (v s : list N) : bool := (length v <=? length s)%nat && eq_n nc (firstn (length v) s) v.
Definition match_value_suffix (nc : bool) (a : list (list N)) (s : list N) : bool := existsb (fun v => suffix_of nc v s) a.
Definition match_key_prefix (nc : bool) (a : list (list N)) (s : list N) : bool := existsb (fun v => prefix_of nc v s) a.

(* mod_access_check *)
Definition access_check (allow deny : list (list N)) (path : list N) (lc : bool) : bool :=
  match allow with
  | _ :: _ => match_value_suffix lc allow path
  | [] => match deny with
          | _ :: _ => negb (match_value_suffix lc deny path)
          | [] => true
          end
  end.

(* ---------------------------------------------------------------- client address *)
Inductive addr := V4 (a b c d : N) | V6 | BadAddr.

Fixpoint dec_octet (s : list N) (acc : N) (nd : nat) : option (N * list N) :=   (* 1-3 digits, value <= 255, no leading zero *)
  match s with
  | c :: t => if is_digit c then
                if (3 <=? nd)%nat then None
                else if (nd =? 1)%nat && (acc =? 0) then None
                else dec_octet t (acc * 10 + (c - 48)) (S nd)
              else if (nd =? 0)%nat then None else if acc <=? 255 then Some (acc, s) else None
  | [] => if (nd =? 0)%nat then None else if acc <=? 255 then Some (acc, []) else None
  end.
Definition parse_v4 (s : list N) : option (N * N * N * N) :=
  match dec_octet s 0 0 with
  | Some (a, 46 :: s1) =>
    match dec_octet s1 0 0 with
    | Some (b, 46 :: s2) =>
      match dec_octet s2 0 0 with
      | Some (c, 46 :: s3) =>
        match dec_octet s3 0 0 with
        | Some (d, []) => Some (a, b, c, d)
        | _ => None
        end
      | _ => None
      end
    | _ => None
    end
  | _ => None
  end.
Definition has_colon (s : list N) : bool := existsb (fun c => c =? 58) s.
(* the generator only produces IPv6 literals that are valid; anything else with a ':' is not produced *)
Definition parse_addr (s : list N) : addr :=
  match parse_v4 s with
  | Some (a, b, c, d) => V4 a b c d
  | None => if has_colon s then V6 else BadAddr
  end.

(* extract_forward_array: maximal runs of [0-9a-fA-F:.] that start with a hex digit or ':' *)
Definition hex_or_colon (c : N) : bool :=
  is_digit c || ((97 <=? c) && (c <=? 102)) || ((65 <=? c) && (c <=? 70)) || (c =? 58).
Fixpoint fwd_tokens (s : list N) (cur : option (list N)) : list (list N) :=
  match s with
  | [] => match cur with Some t => [rev t] | None => [] end
  | c :: r =>
      match cur with
      | Some t => if hex_or_colon c || (c =? 46) then fwd_tokens r (Some (c :: t)) else rev t :: fwd_tokens r None
      | None => if hex_or_colon c then fwd_tokens r (Some [c]) else fwd_tokens r None
      end
  end.

Section WithTrust.
Variable trusted : list N -> bool.          (* is_proxy_trusted: exact strings and masks of extforward.forwarder *)

(* last_not_in_array: right-to-left, first untrusted *)
Fixpoint last_untrusted (toks_rev : list (list N)) : option (list N) :=
  match toks_rev with
  | [] => None
  | t :: r => if trusted t then last_untrusted r else Some t
  end.

(* mod_extforward_uri_handler + mod_extforward_X_Forwarded_For + mod_extforward_set_addr *)
Definition client_addr (peer : list N) (xff : option (list N)) : list N :=
  match xff with
  | None => peer
  | Some h =>
      if trusted peer then
        match last_untrusted (rev (fwd_tokens h None)) with
        | Some a => match parse_addr a with BadAddr => peer | _ => a end
        | None => peer
        end
      else peer
  end.
End WithTrust.

(* ---------------------------------------------------------------- configuration *)
Inductive cond :=
| CUrlPrefix (p : list N)          (* $HTTP["url"] =^ "p" *)
| CUrlSuffix (p : list N)          (* $HTTP["url"] =$ "p"  /  =~ "p$" with literal p *)
| CHostEq (h : list N)             (* $HTTP["host"] == "h" *)
| CIpNot10                         (* $HTTP["remoteip"] != "10.0.0.0/8" *)
| CNest (outer inner : cond).

Record config := {
  flags : N;                       (* server.http-parseopts *)
  lc : bool;                       (* server.force-lowercase-filenames *)
  allow : list (list N);           (* global url.access-allow (empty: not set) *)
  deny : list (list N);            (* global url.access-deny *)
  excl : list (list N);            (* static-file.exclude-extensions *)
  auth_prefix : list (list N);     (* auth.require keys *)
  blocks : list cond               (* conditional blocks, each: url.access-deny = ("") *)
}.

Definition in10 (a : addr) : bool := match a with V4 10 _ _ _ => true | _ => false end.

Fixpoint cond_holds (c : cond) (path host : list N) (a : addr) : bool :=
  match c with
  | CUrlPrefix p => prefix_of false p path
  | CUrlSuffix p => suffix_of false p path
  | CHostEq h => list_eqb h host
  | CIpNot10 => negb (in10 a)
  | CNest o i => cond_holds o path host a && cond_holds i path host a
  end.

(* the url.access-deny list in force: a block that applies sets it to ("") *)
Definition deny_in_force (cf : config) (path host : list N) (a : addr) : list (list N) :=
  if existsb (fun c => cond_holds c path host a) (blocks cf) then [[]] else deny cf.

(* ---------------------------------------------------------------- filesystem walk *)
Record fsys := { files : list (list N); dirs : list (list N) }.
Definition is_file (fs : fsys) (p : list N) : bool := existsb (list_eqb p) (files fs).
Definition is_dir (fs : fsys) (p : list N) : bool := existsb (list_eqb p) (dirs fs).
Definition strip_slash (p : list N) : list N :=
  match rev p with c :: r => if c =? 47 then rev r else p | [] => p end.
Definition exists_path (fs : fsys) (p : list N) : bool :=
  (* stat(): a trailing '/' requires a directory *)
  match rev p with
  | c :: r => if c =? 47 then is_dir fs (rev r) || (match r with [] => true | _ => false end)
              else is_file fs p || is_dir fs p
  | [] => is_file fs p || is_dir fs p
  end.

(* positions of '/' in rel (after the first byte): candidates for the start of path-info *)
Fixpoint pathinfo_split (fs : fsys) (fuel : nat) (pre_rev rest : list N) : option (list N * list N) :=
  (* pre_rev: reversed part already known to be an existing directory chain or the leading "/..." segment being scanned *)
  match fuel with
  | O => None
  | S f =>
    match rest with
    | [] => None
    | c :: t =>
        if (c =? 47) && negb (match pre_rev with [] => true | _ => false end) then
          let cand := rev pre_rev in
          if is_file fs cand then Some (cand, rest)
          else if is_dir fs cand then pathinfo_split fs f (c :: pre_rev) t
          else None
        else pathinfo_split fs f (c :: pre_rev) t
    end
  end.

Inductive outcome :=
| O400 | O403 | O401 | O404 | O301
| O200 (file pathinfo : list N).

Definition lower (s : list N) : list N := map to_lower s.
Definition ends_slash (p : list N) : bool := match rev p with c :: _ => c =? 47 | [] => false end.

(* everything after the target is parsed and the client address is known *)
Definition decide_path (cf : config) (fs : fsys) (path host : list N) (a : addr) : outcome :=
  if negb (access_check (allow cf) (deny_in_force cf path host a) path (lc cf)) then O403
  else if match_key_prefix (lc cf) (auth_prefix cf) path then O401
  else
    let rel := if lc cf then lower path else path in
    if exists_path fs rel then
      if is_dir fs (strip_slash rel) || (match strip_slash rel with [] => true | _ => false end) then
        if ends_slash path then O403 (* directory, no index file, no listing: no handler *) else O301
      else if match_value_suffix false (excl cf) rel then O403
      else O200 rel []
    else
      match pathinfo_split fs (S (length rel)) [] rel with
      | None => O404
      | Some (file, pi) =>
          let upath := firstn (length path - length pi) path in
          if negb (access_check (allow cf) (deny_in_force cf upath host a) upath (lc cf)) then O403
          else if match_value_suffix false (excl cf) file then O403
          else O200 file pi
      end.

Section Decide.
Variable trusted : list N -> bool.
Definition decide (cf : config) (fs : fsys) (target host peer : list N) (xff : option (list N)) : outcome :=
  match parse_target (flags cf) target with
  | T400 => O400
  | TOk _ path _ => decide_path cf fs path host (parse_addr (client_addr trusted peer xff))
  end.
End Decide.
