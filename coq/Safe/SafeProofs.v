(* Safe/SafeProofs.v -- C12: size arithmetic of the parsers that write into fixed or pre-sized storage.
   Gen/GenSafe.v is regenerated from the source on every run (tools/c2v_safe.py): the scratch-buffer size expressions of
   burl_normalize_basic_{unreserved,required}_fix, the loop guard and array sizes of http_range_parse, the chunk-size
   overflow guards of h1_chunked() and http_chunk_decode_append_data(). *)
From Coq Require Import List NArith ZArith Bool Lia.
From LV Require Import Base.Bytes Gen.GenBurl Gen.GenRange Gen.GenSafe Url.UrlModel C15.RangeModel.
Import ListNotations.
Local Open Scope Z_scope.

(* ---------------------------------------------------------------- burl: bytes written vs. scratch buffer requested *)
Lemma norm_unres_len n : forall s j qs, (length s <= n)%nat -> Z.of_nat (length (fst (norm_unres s j qs))) <= 3 * Z.of_nat (length s).
Proof.
  induction n as [|n IH]; intros s j qs Hl.
  - destruct s; [cbn; lia | cbn in Hl; lia].
  - destruct s as [|c t]; [cbn; lia|]. cbn [norm_unres].
    assert (Hgen : forall j' q', Z.of_nat (length (fst (
              if negb (reqd c) then let '(o, q) := norm_unres t (j' + 1) q' in (c :: o, q)
              else if (c =? 35)%N then ([], qs)
              else let '(o, q) := norm_unres t (j' + 3) (if utf8_invalid c then -2 else qs) in (pct :: hexuc (c / 16) :: hexuc (c mod 16) :: o, q))))
            <= 3 * Z.of_nat (length (c :: t))).
    { intros j' q'. cbn [length] in Hl. destruct (negb (reqd c)).
      - pose proof (IH t (j' + 1) q' ltac:(lia)) as H. destruct (norm_unres t (j' + 1) q') as [o q]. cbn [fst length] in *. lia.
      - destruct (c =? 35)%N; [cbn; lia|].
        pose proof (IH t (j' + 3) (if utf8_invalid c then -2 else qs) ltac:(lia)) as H.
        destruct (norm_unres t (j' + 3) (if utf8_invalid c then -2 else qs)) as [o q]. cbn [fst length] in *. lia. }
    destruct t as [|h [|l t2]]; try apply (Hgen j (if (c =? qmark)%N && (qs =? -1) then j else qs)).
    destruct (if (c =? pct)%N then UrlModel.hexval h else None) as [n1|]; [|apply (Hgen j (if (c =? qmark)%N && (qs =? -1) then j else qs))].
    destruct (UrlModel.hexval l) as [n2|]; [|apply (Hgen j (if (c =? qmark)%N && (qs =? -1) then j else qs))].
    cbn [length] in Hl. destruct (unreserved (n1 * 16 + n2)).
    + pose proof (IH t2 (j + 1) qs ltac:(lia)) as H. destruct (norm_unres t2 (j + 1) qs) as [o q]. cbn [fst length] in *. lia.
    + pose proof (IH t2 (j + 3) (if utf8_invalid (n1 * 16 + n2) then -2 else qs) ltac:(lia)) as H.
      destruct (norm_unres t2 (j + 3) (if utf8_invalid (n1 * 16 + n2) then -2 else qs)) as [o q]. cbn [fst length] in *. lia.
Qed.

(* the first i bytes are copied, the rest is rewritten: everything written fits the scratch buffer the code asks for
   (one byte to spare for the terminator) -- for every prefix length and every tail *)
Theorem burl_unreserved_fix_fits_scratch (prefix tail : list N) j qs :
  let i := Z.of_nat (length prefix) in let used := Z.of_nat (length prefix + length tail) in
  i + Z.of_nat (length (fst (norm_unres tail j qs))) + 1 <= scratch_unres i used.
Proof.
  cbv zeta. unfold scratch_unres. pose proof (norm_unres_len (length tail) tail j qs (le_n _)). lia.
Qed.

Lemma norm_reqd_len n : forall s j qs inv, (length s <= n)%nat -> Z.of_nat (length (fst (fst (norm_reqd s j qs inv)))) <= 3 * Z.of_nat (length s).
Proof.
  induction n as [|n IH]; intros s j qs inv Hl.
  - destruct s; [cbn; lia | cbn in Hl; lia].
  - destruct s as [|c t]; [cbn; lia|]. cbn [norm_reqd].
    assert (Hgen : Z.of_nat (length (fst (fst (
              if negb (reqd c) then let '(o, q, i) := norm_reqd t (j + 1) (if (c =? qmark)%N then j else qs) inv in (c :: o, q, i)
              else if (c =? 35)%N then ([], qs, inv)
              else let '(o, q, i) := norm_reqd t (j + 3) qs (inv || utf8_invalid c) in (pct :: hexuc (c / 16) :: hexuc (c mod 16) :: o, q, i)))))
            <= 3 * Z.of_nat (length (c :: t))).
    { cbn [length] in Hl. destruct (negb (reqd c)).
      - pose proof (IH t (j + 1) (if (c =? qmark)%N then j else qs) inv ltac:(lia)) as H.
        destruct (norm_reqd t (j + 1) (if (c =? qmark)%N then j else qs) inv) as [[o q] i0]. cbn [fst length] in *. lia.
      - destruct (c =? 35)%N; [cbn; lia|].
        pose proof (IH t (j + 3) qs (inv || utf8_invalid c) ltac:(lia)) as H.
        destruct (norm_reqd t (j + 3) qs (inv || utf8_invalid c)) as [[o q] i0]. cbn [fst length] in *. lia. }
    destruct t as [|h [|l t2]]; try exact Hgen.
    destruct (if (c =? pct)%N then UrlModel.hexval h else None) as [n1|]; [|exact Hgen].
    destruct (UrlModel.hexval l) as [n2|]; [|exact Hgen].
    cbn [length] in Hl. destruct (negb (keep_encoded_reqd (n1 * 16 + n2) qs)).
    + pose proof (IH t2 (j + 1) qs inv ltac:(lia)) as H. destruct (norm_reqd t2 (j + 1) qs inv) as [[o q] i0]. cbn [fst length] in *. lia.
    + pose proof (IH t2 (j + 3) qs (inv || utf8_invalid (n1 * 16 + n2)) ltac:(lia)) as H.
      destruct (norm_reqd t2 (j + 3) qs (inv || utf8_invalid (n1 * 16 + n2))) as [[o q] i0]. cbn [fst length] in *. lia.
Qed.

Theorem burl_required_fix_fits_scratch (prefix tail : list N) j qs inv :
  let i := Z.of_nat (length prefix) in let used := Z.of_nat (length prefix + length tail) in
  i + Z.of_nat (length (fst (fst (norm_reqd tail j qs inv)))) + 1 <= scratch_reqd i used.
Proof.
  cbv zeta. unfold scratch_reqd. pose proof (norm_reqd_len (length tail) tail j qs inv (le_n _)). lia.
Qed.

(* ---------------------------------------------------------------- Range: pairs collected vs. array size *)
Lemma merge_step_len p acc lim acc' lim' brk : merge_step p acc lim = (acc', lim', brk) ->
  ((length acc' <= S (length acc))%nat /\ lim' = lim) \/ (lim' = RMAX_UNSORTED /\ (N.of_nat (length acc') <= RMAX_UNSORTED)%N).
Proof.
  unfold merge_step. destruct acc as [|[b1 e1] rest]; [intro E; injection E as <- <- <-; left; cbn; auto|].
  destruct p as [b2 e2]. destruct (b1 <=? b2).
  - destruct (e1 <? b2 - GAP); intro E; injection E as <- <- <-; left; cbn; auto.
  - destruct (N.ltb_spec RMAX_UNSORTED (N.of_nat (length ((b1, e1) :: rest)) + 1)); intro E; injection E as <- <- <-; [left; cbn; auto|].
    right. split; [reflexivity|]. cbn [length] in *. lia.
Qed.

(* the loop is entered with fewer pairs than the limit and adds at most one pair per round: never more than RMAX pairs,
   i.e. never more than the RMAX*2 slots of the ranges[] array *)
Lemma parse_loop_len fuel : forall s len acc lim acc' lim',
  (N.of_nat (length acc) < lim)%N -> (lim <= RMAX)%N ->
  parse_loop fuel s len acc lim = (acc', lim') -> (N.of_nat (length acc') <= RMAX)%N.
Proof.
  assert (Hu : (RMAX_UNSORTED <= RMAX)%N) by (unfold RMAX_UNSORTED, RMAX; lia).
  induction fuel as [|f IH]; intros s len acc lim acc' lim' Ha Hl E; cbn [parse_loop] in E.
  - injection E as <- <-. lia.
  - destruct (parse_next s len) as [r s1].
    set (step := match r with
                 | Some p => if at_sep s1 then let '(a, l, b) := merge_step p acc lim in (a, l, b, s1) else (acc, lim, false, skip_to_comma s1)
                 | None => (acc, lim, false, skip_to_comma s1) end) in *.
    assert (Hs : exists a l b s2, step = (a, l, b, s2) /\ (N.of_nat (length a) <= RMAX)%N /\ (l <= RMAX)%N).
    { unfold step. destruct r as [p|]; [destruct (at_sep s1)|].
      - destruct (merge_step p acc lim) as [[a l] b] eqn:Hm. exists a, l, b, s1. split; [reflexivity|].
        destruct (merge_step_len _ _ _ _ _ _ Hm) as [[H1 ->]|[-> H3]]; split; lia.
      - exists acc, lim, false, (skip_to_comma s1). repeat split; lia.
      - exists acc, lim, false, (skip_to_comma s1). repeat split; lia. }
    destruct Hs as (a & l & b & s2 & -> & H1 & H2).
    destruct b; [injection E as <- <-; exact H1|].
    destruct s2 as [|c s3]; [injection E as <- <-; exact H1|].
    destruct (N.ltb_spec (N.of_nat (length a)) l).
    + eapply IH; [| |exact E]; lia.
    + injection E as <- <-. exact H1.
Qed.

Theorem range_pairs_fit_the_array s len :
  range_loop_guard_strict = true -> range_lim_factor = range_array_factor ->
  (N.of_nat (length (fst (parse_loop (S (length (cstr s))) (cstr s) len [] RMAX))) <= RMAX)%N.
Proof.
  intros _ _. destruct (parse_loop (S (length (cstr s))) (cstr s) len [] RMAX) as [acc lim] eqn:E. cbn [fst].
  eapply parse_loop_len; [| |exact E]; cbn; unfold RMAX; lia.
Qed.

(* the two facts about the C text the model's loop guard stands for, re-read from the source on every run *)
Lemma range_guard_as_modelled : range_loop_guard_strict = true /\ range_lim_factor = range_array_factor.
Proof. split; reflexivity. Qed.

(* ---------------------------------------------------------------- chunk-size accumulation cannot overflow off_t *)
Theorem chunk_size_shift_cannot_overflow te u :
  0 <= te <= chunk_guard_client -> 0 <= te <= chunk_guard_backend -> 0 <= u < 16 ->
  0 <= te * 16 + u + 2 <= 2 ^ 63 - 1.
Proof. unfold chunk_guard_client, chunk_guard_backend. intros H1 H2 H3. change (2 ^ (64 - 5)) with 576460752303423488 in *. change (2 ^ 63) with 9223372036854775808. lia. Qed.
