From LV Require Import Base.Bytes Resp.RespModel Resp.EncModel.
Require Import ExtrOcamlBasic.
Extraction "model.ml" server_emit rfc_frame dechunk chunk_encode Z.of_N Nat.pred enc_rel_uri dir_redirect_location.
