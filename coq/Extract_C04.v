From LV Require Import Base.Bytes Resp.RespModel.
Require Import ExtrOcamlBasic.
Extraction "model.ml" server_emit rfc_frame dechunk chunk_encode Z.of_N Nat.pred.
