From LV Require Import Base.Bytes Gen.GenH2 H2.H2Flow H2.H2Legal H2.H2Trace.
Require Import ExtrOcamlBasic.
Extraction "model.ml" legal Nat.pred trace h2_init.
