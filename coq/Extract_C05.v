From LV Require Import Base.Bytes Gen.GenH2 H2.H2Legal.
Require Import ExtrOcamlBasic.
Extraction "model.ml" legal Nat.pred.
