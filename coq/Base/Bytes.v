(* Conventions of DESIGN.md section 3: a byte is an N below 256, a C string is the list of bytes
   before the first NUL, integers are Z with the C width written where it matters. *)
From Coq Require Export List NArith ZArith Bool Lia.
Export ListNotations.
Local Open Scope N_scope.

Definition byte := N.

Definition is_digit (c : N) : bool := (48 <=? c) && (c <=? 57).
Definition is_blank (c : N) : bool := (c =? 32) || (c =? 9).             (* ' ' or '\t' *)
Definition is_cspace (c : N) : bool := (c =? 32) || ((9 <=? c) && (c <=? 13)). (* isspace(), C locale *)
Definition is_upper (c : N) : bool := (65 <=? c) && (c <=? 90).
Definition is_lower (c : N) : bool := (97 <=? c) && (c <=? 122).
Definition is_alpha (c : N) : bool := is_upper c || is_lower c.
Definition to_lower (c : N) : N := if is_upper c then c + 32 else c.
Definition to_upper (c : N) : N := if is_lower c then c - 32 else c.

(* the C string a char* denotes: bytes before the first NUL *)
Fixpoint cstr (s : list N) : list N :=
  match s with [] => [] | c :: t => if c =? 0 then [] else c :: cstr t end.

Fixpoint skip_blank (s : list N) : list N :=
  match s with c :: t => if is_blank c then skip_blank t else s | [] => [] end.
Fixpoint skip_cspace (s : list N) : list N :=
  match s with c :: t => if is_cspace c then skip_cspace t else s | [] => [] end.

Fixpoint span_digits (s : list N) : list N * list N :=
  match s with
  | c :: t => if is_digit c then let '(d, r) := span_digits t in (c :: d, r) else ([], s)
  | [] => ([], [])
  end.

Fixpoint dec_val_acc (acc : Z) (ds : list N) : Z :=
  match ds with [] => acc | c :: t => dec_val_acc (acc * 10 + Z.of_N (c - 48)) t end.
Definition dec_val (ds : list N) : Z := dec_val_acc 0 ds.

(* decimal rendering of a non-negative number (li_itostrn / buffer_append_int on values >= 0) *)
Fixpoint itoa_fuel (fuel : nat) (n : N) (acc : list N) : list N :=
  match fuel with
  | O => acc
  | S f => let acc' := (48 + n mod 10) :: acc in
           if n <? 10 then acc' else itoa_fuel f (n / 10) acc'
  end.
Definition itoa (n : N) : list N := itoa_fuel 40 n [].
Definition itoaZ (z : Z) : list N :=
  if (z <? 0)%Z then 45 :: itoa (Z.to_N (- z)) else itoa (Z.to_N z).

Fixpoint list_eqb (a b : list N) : bool :=
  match a, b with
  | [], [] => true
  | x :: a', y :: b' => (x =? y) && list_eqb a' b'
  | _, _ => false
  end.

Lemma list_eqb_eq a b : list_eqb a b = true <-> a = b.
Proof.
  revert b; induction a as [|x a IH]; intros [|y b]; simpl; split; intro H; try reflexivity; try discriminate.
  - apply andb_true_iff in H as [H1 H2]. apply N.eqb_eq in H1. apply IH in H2. now subst.
  - inversion H; subst. rewrite N.eqb_refl. simpl. now apply IH.
Qed.

Fixpoint prefixb (p s : list N) : bool :=
  match p, s with
  | [], _ => true
  | x :: p', y :: s' => (x =? y) && prefixb p' s'
  | _ :: _, [] => false
  end.

Definition LLONG_MAX : Z := 9223372036854775807.
Definition LLONG_MIN : Z := -9223372036854775808.
Definition clamp_ll (v : Z) : Z :=
  if (v >? LLONG_MAX)%Z then LLONG_MAX else if (v <? LLONG_MIN)%Z then LLONG_MIN else v.

(* strtoll(s, &e, 10): value, rest (= e), and the last digit consumed (None: no conversion, e == s) *)
Definition strtoll (s : list N) : Z * list N * option N :=
  let s1 := skip_cspace s in
  let '(neg, s2) := match s1 with
                    | 45 :: t => (true, t)
                    | 43 :: t => (false, t)
                    | _ => (false, s1)
                    end in
  let '(ds, rest) := span_digits s2 in
  match ds with
  | [] => (0%Z, s, None)
  | _ => let v := dec_val ds in
         (clamp_ll (if neg then (- v)%Z else v), rest, Some (last ds 0))
  end.
