From LV Require Import Base.Bytes Auth.AuthModel.
Require Import ExtrOcamlBasic.
Extraction "model.ml" step run mk_nonce parse_authorization b64_dec Z.of_N Nat.pred.
