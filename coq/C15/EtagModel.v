(* C15 -- conditional requests: model of
     http_etag_matches()               src/http_etag.c        (the If-None-Match list scanner)
     http_response_handle_cachable()   src/http-header-glue.c (If-None-Match before If-Modified-Since, 304 / 412 / go on)
   Strings are the bytes before the terminating NUL. *)
From Coq Require Import List NArith ZArith Bool.
From LV Require Import Base.Bytes Date.DateModel.
Import ListNotations.
Local Open Scope N_scope.

Definition is_sep (c : N) : bool := (c =? 32) || (c =? 9) || (c =? 44).
Fixpoint skip_sep (s : list N) : list N := match s with c :: t => if is_sep c then skip_sep t else s | [] => [] end.
Fixpoint to_comma (s : list N) : list N := match s with c :: t => if c =? 44 then s else to_comma t | [] => [] end.
Definition is_term (s : list N) : bool := match s with [] => true | c :: _ => is_sep c end.

Definition strip_w (s : list N) : option (list N) :=
  match s with a :: b :: t => if (a =? 87) && (b =? 47) then Some t else None | _ => None end.     (* "W/" *)
Definition is_star (s : list N) : bool := match s with c :: _ => c =? 42 | [] => false end.

(* the loop "while (*s)" of http_etag_matches; tag = the server's entity tag without a leading W/ *)
Fixpoint etag_scan (fuel : nat) (tag : list N) (weak_ok : bool) (s : list N) : bool :=
  match fuel with O => false | S f =>
  match s with [] => false | _ :: _ =>
    let s1 := skip_sep s in
    let '(s2, ok) := match strip_w s1 with Some t => (t, weak_ok) | None => (s1, true) end in
    let star := is_star s2 in
    let cmp := ok && (prefixb tag s2 || star) in
    let s3 := if cmp then (if star then skipn 1 s2 else skipn (length tag) s2) else s2 in
    if cmp && is_term s3 then true
    else match to_comma s3 with [] => false | rest => etag_scan f tag weak_ok rest end
  end end.

Definition etag_matches (etag s : list N) (weak_ok : bool) : bool :=
  if list_eqb s [42] then true
  else match etag with [] => false | _ :: _ =>
    let '(tag, go) := match strip_w etag with Some t => (t, weak_ok) | None => (etag, true) end in
    if go then etag_scan (S (length s)) tag weak_ok s else false
  end.

(* ---------------------------------------------------------------- http_response_handle_cachable *)
Inductive cres := C304 | C412 | CPass.

Definition cachable (year_cur : Z) (get_head has_range : bool) (inm ims etag lmod : option (list N)) (lmtime : Z) : cres :=
  match inm, ims with
  | None, None => CPass
  | _, _ =>
    match inm, etag with
    | Some v, Some e => if etag_matches e v (negb has_range) then (if get_head then C304 else C412) else CPass
    | _, _ =>
        if get_head then
          match ims, lmod with
          | Some v, Some lm => if list_eqb lm v || negb (if_modified_since year_cur v lmtime) then C304 else CPass
          | _, _ => CPass
          end
        else CPass
    end
  end.
