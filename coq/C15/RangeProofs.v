(* Proofs about the Range model: bounds, coverage by coalescing, 416 rule, slice exactness. *)
From LV Require Import Base.Bytes Gen.GenRange C15.RangeModel.
Local Open Scope Z_scope.

Definition inb (len : Z) (p : Z * Z) : Prop := 0 <= fst p /\ fst p <= snd p /\ snd p < len.
Definition cov (p q : Z * Z) : Prop := fst q <= fst p /\ snd p <= snd q.   (* p inside q *)
Definition covl (p : Z * Z) (l : list (Z * Z)) : Prop := exists q, In q l /\ cov p q.

Lemma clamp_ll_range v : LLONG_MIN <= clamp_ll v <= LLONG_MAX.
Proof. unfold clamp_ll, LLONG_MIN, LLONG_MAX. destruct (v >? _) eqn:E1; [lia|]. destruct (v <? _) eqn:E2; lia. Qed.

(* ---- parse_next yields only in-bounds ranges *)
Lemma parse_next_inb s len a b r :
  0 < len -> parse_next s len = (Some (a, b), r) -> inb len (a, b).
Proof.
  intros Hlen. unfold parse_next, inb; simpl.
  destruct (strtoll s) as [[n e] lastd].
  destruct (0 <=? n) eqn:Hn.
  - destruct (negb (n =? LLONG_MAX) && (n <? len) && is_some lastd) eqn:Hc.
    + apply andb_true_iff in Hc as [Hc _]. apply andb_true_iff in Hc as [_ Hlt].
      destruct (skip_blank e) as [|c s2]; [intros H; inversion H|].
      destruct (c =? 45)%N eqn:Ec.
      * apply N.eqb_eq in Ec; subst c.
        destruct (strtoll s2) as [[n2 e2] last2].
        destruct last2 as [ld|].
        -- destruct ((n2 =? 0) && negb (ld =? 48)%N).
           ++ intros H; inversion H; subst. lia.
           ++ destruct ((n <=? n2) && negb (n2 =? LLONG_MAX)) eqn:Hc2; [|intros H; inversion H].
              apply andb_true_iff in Hc2 as [Hle _].
              destruct (n2 <? len) eqn:Hn2; intros H; inversion H; subst; lia.
        -- intros H; inversion H; subst. lia.
      * (* not '-' *)
        assert (Hne : c <> 45%N) by (apply N.eqb_neq; exact Ec).
        destruct c as [|p]; [intros H; inversion H|].
        repeat (destruct p as [p|p|]; try (intros H; inversion H; fail)); try congruence.
    + intros H; inversion H.
  - destruct (negb (n =? LLONG_MIN)); [|intros H; inversion H].
    destruct (- n <? len) eqn:Hl; intros H; inversion H; subst; lia.
Qed.

(* ---- merge_step: bounds and coverage *)
Lemma merge_step_inb len p acc lim acc' lim' brk :
  inb len p -> Forall (inb len) acc -> merge_step p acc lim = (acc', lim', brk) -> Forall (inb len) acc'.
Proof.
  intros Hp Ha. unfold merge_step. destruct acc as [|[b1 e1] rest].
  - intros H; inversion H; subst. constructor; [exact Hp|constructor].
  - destruct p as [b2 e2]. inversion Ha as [|? ? H1 Hr]; subst.
    destruct (b1 <=? b2) eqn:E1.
    + destruct (e1 <? b2 - GAP) eqn:E2.
      * intros H; inversion H; subst. constructor; assumption.
      * intros H; inversion H; subst. constructor; [|exact Hr].
        unfold inb in *; simpl in *. destruct (e1 <? e2) eqn:E3; lia.
    + destruct (RMAX_UNSORTED <? N.of_nat (length ((b1, e1) :: rest)) + 1)%N.
      * intros H; inversion H; subst. exact Ha.
      * intros H; inversion H; subst. constructor; assumption.
Qed.

Lemma covl_mono p l l' : (forall q, In q l -> covl q l') -> covl p l -> covl p l'.
Proof.
  intros H [q [Hq [C1 C2]]]. destruct (H q Hq) as [q' [Hq' [D1 D2]]].
  exists q'. split; [exact Hq'|]. unfold cov in *. lia.
Qed.

Lemma covl_refl p l : In p l -> covl p l.
Proof. intros H. exists p. split; [exact H|]. unfold cov; lia. Qed.

(* when the step does not break, the new range and everything already held stay covered *)
Lemma merge_step_cov p acc lim acc' lim' :
  merge_step p acc lim = (acc', lim', false) ->
  covl p acc' /\ (forall q, In q acc -> covl q acc').
Proof.
  unfold merge_step. destruct acc as [|[b1 e1] rest].
  - intros H; inversion H; subst. split; [apply covl_refl; left; reflexivity|intros q []].
  - destruct p as [b2 e2]. destruct (b1 <=? b2) eqn:E1.
    + destruct (e1 <? b2 - GAP) eqn:E2.
      * intros H; inversion H; subst. split; [apply covl_refl; left; reflexivity|].
        intros q Hq. apply covl_refl. right. exact Hq.
      * intros H; inversion H; subst. split.
        -- exists (b1, if e1 <? e2 then e2 else e1). split; [left; reflexivity|].
           unfold cov; simpl. destruct (e1 <? e2) eqn:E3; lia.
        -- intros q [Hq|Hq].
           ++ subst q. exists (b1, if e1 <? e2 then e2 else e1). split; [left; reflexivity|].
              unfold cov; simpl. destruct (e1 <? e2) eqn:E3; lia.
           ++ apply covl_refl. right. exact Hq.
    + destruct (RMAX_UNSORTED <? N.of_nat (length ((b1, e1) :: rest)) + 1)%N.
      * intros H; inversion H.
      * intros H; inversion H; subst. split; [apply covl_refl; left; reflexivity|].
        intros q Hq. apply covl_refl. right. exact Hq.
Qed.

(* ---- the ranges the loop took in ("accepted"): ghost replay of parse_loop *)
Fixpoint accepted (fuel : nat) (s : list N) (len : Z) (acc : list (Z * Z)) (lim : N) : list (Z * Z) :=
  match fuel with
  | O => []
  | S f =>
      let '(r, s1) := parse_next s len in
      let '(acc', lim', brk, s2, took) :=
        match r with
        | Some p => if at_sep s1
                    then let '(a, l, b) := merge_step p acc lim in (a, l, b, s1, if b then [] else [p])
                    else (acc, lim, false, skip_to_comma s1, [])
        | None => (acc, lim, false, skip_to_comma s1, [])
        end in
      if brk then took
      else match s2 with
           | [] => took
           | _ :: s3 => if (N.of_nat (length acc') <? lim')%N
                        then took ++ accepted f s3 len acc' lim'
                        else took
           end
  end.

Lemma parse_loop_inv fuel : forall s len acc lim acc' lim',
  0 < len -> Forall (inb len) acc ->
  parse_loop fuel s len acc lim = (acc', lim') ->
  Forall (inb len) acc' /\
  (forall q, In q acc -> covl q acc') /\
  (forall p, In p (accepted fuel s len acc lim) -> covl p acc').
Proof.
  induction fuel as [|f IH]; intros s len acc lim acc' lim' Hlen Hacc; cbn [parse_loop accepted].
  - intros H; inversion H; subst. split; [exact Hacc|]. split; [intros q Hq; apply covl_refl; exact Hq|intros p []].
  - destruct (parse_next s len) as [r s1] eqn:Hpn.
    assert (Hskip : forall s2 : list N, forall acc2 lim2,
              (match s2 with
               | [] => (acc, lim)
               | _ :: s3 => if (N.of_nat (length acc) <? lim)%N then parse_loop f s3 len acc lim else (acc, lim)
               end) = (acc2, lim2) ->
              Forall (inb len) acc2 /\ (forall q, In q acc -> covl q acc2) /\
              (forall p, In p (match s2 with
                               | [] => []
                               | _ :: s3 => if (N.of_nat (length acc) <? lim)%N then [] ++ accepted f s3 len acc lim else []
                               end) -> covl p acc2)).
    { intros s2 acc2 lim2. destruct s2 as [|c s3].
      - intros H; inversion H; subst. split; [exact Hacc|]. split; [intros q Hq; apply covl_refl; exact Hq|intros p []].
      - destruct (N.of_nat (length acc) <? lim)%N.
        + intros H. apply IH in H; [|exact Hlen|exact Hacc]. simpl. exact H.
        + intros H; inversion H; subst. split; [exact Hacc|]. split; [intros q Hq; apply covl_refl; exact Hq|intros p []]. }
    destruct r as [p|].
    + destruct (at_sep s1) eqn:Hsep.
      * destruct (merge_step p acc lim) as [[a l] b] eqn:Hms.
        assert (Hpin : inb len p).
        { destruct p as [pa pb]. eapply parse_next_inb; [exact Hlen|exact Hpn]. }
        pose proof (merge_step_inb len p acc lim a l b Hpin Hacc Hms) as Ha.
        destruct b.
        -- intros H; inversion H; subst. split; [exact Ha|].
           split; [|intros q []].
           (* break: acc' = acc unchanged *)
           unfold merge_step in Hms. destruct acc as [|[b1 e1] rest]; [inversion Hms|].
           destruct p as [b2 e2]. destruct (b1 <=? b2); [destruct (e1 <? b2 - GAP); inversion Hms|].
           destruct (RMAX_UNSORTED <? _)%N; inversion Hms; subst.
           intros q Hq; apply covl_refl; exact Hq.
        -- destruct (merge_step_cov p acc lim a l Hms) as [Hp Hold].
           destruct s1 as [|c s3].
           ++ intros H; inversion H; subst. split; [exact Ha|]. split; [exact Hold|].
              intros q [Hq|[]]. subst q. exact Hp.
           ++ destruct (N.of_nat (length a) <? l)%N.
              ** intros H. apply IH in H; [|exact Hlen|exact Ha]. destruct H as [H1 [H2 H3]].
                 split; [exact H1|]. split.
                 --- intros q Hq. eapply covl_mono; [exact H2|]. apply Hold. exact Hq.
                 --- intros q Hq. apply in_app_or in Hq as [[Hq|[]]|Hq].
                     +++ subst q. eapply covl_mono; [exact H2|exact Hp].
                     +++ apply H3. exact Hq.
              ** intros H; inversion H; subst. split; [exact Ha|]. split; [exact Hold|].
                 intros q [Hq|[]]. subst q. exact Hp.
      * apply Hskip.
    + apply Hskip.
Qed.

(* ---- coalesce_unsorted: bounds and coverage *)
Lemma find_merge_spec b e js m js' :
  find_merge b e js = Some (m, js') ->
  exists q pre post, js = pre ++ q :: post /\ js' = pre ++ post /\
    fst m = Z.min b (fst q) /\ snd m = Z.max e (snd q).
Proof.
  revert m js'. induction js as [|q js IH]; simpl; intros m js'; [discriminate|].
  destruct (overlaps b e q) eqn:Ho.
  - destruct q as [bj ej]. intros H; inversion H; subst. exists (bj, ej), [], js'. simpl.
    repeat split.
    + destruct (b <=? bj) eqn:E; lia.
    + destruct (e >=? ej) eqn:E; lia.
  - destruct (find_merge b e js) as [[m0 r]|] eqn:Hf; [|discriminate].
    intros H; inversion H; subst. destruct (IH _ _ eq_refl) as (q0 & pre & post & -> & -> & H1 & H2).
    exists q0, (q :: pre), post. repeat split; assumption.
Qed.

Lemma coal_pass_spec l : forall pre_rev l',
  coal_pass pre_rev l = Some l' ->
  (forall len, Forall (inb len) (rev pre_rev ++ l) -> Forall (inb len) l') /\
  (forall q, In q (rev pre_rev ++ l) -> covl q l') /\
  (length l' < length (rev pre_rev ++ l))%nat.
Proof.
  induction l as [|[b e] js IH]; intros pre_rev l'; simpl; [discriminate|].
  destruct (find_merge b e js) as [[m js']|] eqn:Hf.
  - intros H; inversion H; subst. destruct (find_merge_spec _ _ _ _ _ Hf) as (q & pre & post & -> & -> & Hm1 & Hm2).
    split; [|split].
    + intros len HF. apply Forall_app in HF as [HF1 HF2]. inversion HF2 as [|? ? Hbe HF3]; subst.
      apply Forall_app in HF3 as [HF4 HF5]. inversion HF5 as [|? ? Hq HF6]; subst.
      apply Forall_app. split; [exact HF1|]. constructor.
      * unfold inb in *; simpl in *. lia.
      * apply Forall_app. split; assumption.
    + intros x Hx. apply in_app_or in Hx as [Hx|[Hx|Hx]].
      * apply covl_refl. apply in_or_app. left. exact Hx.
      * subst x. exists m. split; [apply in_or_app; right; left; reflexivity|]. unfold cov; simpl. lia.
      * apply in_app_or in Hx as [Hx|[Hx|Hx]].
        -- apply covl_refl. apply in_or_app. right. right. apply in_or_app. left. exact Hx.
        -- subst x. exists m. split; [apply in_or_app; right; left; reflexivity|]. unfold cov. lia.
        -- apply covl_refl. apply in_or_app. right. right. apply in_or_app. right. exact Hx.
    + rewrite !app_length. simpl. rewrite !app_length. simpl. lia.
  - intros H. apply IH in H. simpl in H. rewrite <- app_assoc in H. simpl in H. exact H.
Qed.

Lemma coalesce_spec fuel : forall l,
  (forall len, Forall (inb len) l -> Forall (inb len) (coalesce fuel l)) /\
  (forall q, In q l -> covl q (coalesce fuel l)).
Proof.
  induction fuel as [|f IH]; intros l; simpl.
  - split; [auto|intros q Hq; apply covl_refl; exact Hq].
  - destruct (coal_pass [] l) as [l'|] eqn:Hc.
    + destruct (coal_pass_spec l [] l' Hc) as [H1 [H2 _]]. simpl in *. destruct (IH l') as [I1 I2].
      split; [intros len HF; apply I1, H1, HF|].
      intros q Hq. eapply covl_mono; [exact I2|]. apply H2. exact Hq.
    + split; [auto|intros q Hq; apply covl_refl; exact Hq].
Qed.

(* after coalesce with enough fuel no two ranges are within GAP of each other (a fixed point) *)
Lemma coalesce_fixpoint fuel : forall l, (length l <= fuel)%nat -> coal_pass [] (coalesce fuel l) = None.
Proof.
  induction fuel as [|f IH]; intros l Hl; simpl.
  - destruct l; [reflexivity|simpl in Hl; lia].
  - destruct (coal_pass [] l) as [l'|] eqn:Hc; [|exact Hc].
    apply IH. destruct (coal_pass_spec l [] l' Hc) as [_ [_ H3]]. simpl in H3. lia.
Qed.

(* ---- the function as a whole *)
Definition accepted_all (s : list N) (len : Z) : list (Z * Z) :=
  accepted (S (length (cstr s))) (cstr s) len [] RMAX.

Theorem range_parse_in_bounds s len : 0 < len -> Forall (inb len) (range_parse s len).
Proof.
  intros Hlen. unfold range_parse.
  destruct (parse_loop (S (length (cstr s))) (cstr s) len [] RMAX) as [acc lim] eqn:Hp.
  destruct (parse_loop_inv _ _ _ _ _ _ _ Hlen (Forall_nil _) Hp) as [H1 _].
  assert (Hr : Forall (inb len) (rev acc)).
  { apply Forall_forall. intros x Hx. apply in_rev in Hx. revert x Hx. apply Forall_forall. exact H1. }
  destruct (N.of_nat (length (rev acc)) <=? 1)%N; [exact Hr|].
  destruct (lim =? RMAX)%N; [exact Hr|]. apply coalesce_spec. exact Hr.
Qed.

Theorem range_parse_covers s len p :
  0 < len -> In p (accepted_all s len) -> covl p (range_parse s len).
Proof.
  intros Hlen Hin. unfold range_parse, accepted_all in *.
  destruct (parse_loop (S (length (cstr s))) (cstr s) len [] RMAX) as [acc lim] eqn:Hp.
  destruct (parse_loop_inv _ _ _ _ _ _ _ Hlen (Forall_nil _) Hp) as [_ [_ H3]].
  specialize (H3 p Hin).
  assert (Hr : covl p (rev acc)).
  { destruct H3 as [q [Hq C]]. exists q. split; [apply (proj1 (in_rev _ _)); exact Hq|exact C]. }
  destruct (N.of_nat (length (rev acc)) <=? 1)%N; [exact Hr|].
  destruct (lim =? RMAX)%N; [exact Hr|].
  eapply covl_mono; [|exact Hr]. intros q Hq. apply coalesce_spec. exact Hq.
Qed.

(* 416 is answered exactly when the loop took in no range at all *)
Theorem range_parse_nil_iff s len :
  0 < len -> (range_parse s len = [] <-> accepted_all s len = []).
Proof.
  intros Hlen. split.
  - intros Hnil. destruct (accepted_all s len) as [|p l] eqn:Ha; [reflexivity|].
    assert (Hc : covl p (range_parse s len)) by (apply range_parse_covers; [exact Hlen|rewrite Ha; left; reflexivity]).
    rewrite Hnil in Hc. destruct Hc as [q [[] _]].
  - intros Ha. unfold range_parse, accepted_all in *.
    destruct (parse_loop (S (length (cstr s))) (cstr s) len [] RMAX) as [acc lim] eqn:Hp.
    assert (Hacc : acc = []).
    { clear - Hp Ha. revert Hp Ha. generalize (S (length (cstr s))) as fuel. generalize (cstr s) as t.
      intros t fuel. revert t lim. generalize RMAX as lim0.
      induction fuel as [|f IH]; intros lim0 t lim; cbn [parse_loop accepted].
      - intros H _; inversion H; reflexivity.
      - destruct (parse_next t len) as [r s1]. destruct r as [p|].
        + destruct (at_sep s1).
          * cbn [merge_step]. cbn. destruct s1 as [|c s3]; [intros _ H; discriminate H|].
            destruct (1 <? lim0)%N; intros _ H; discriminate H.
          * destruct (skip_to_comma s1) as [|c s3]; [intros H _; inversion H; reflexivity|].
            destruct (N.of_nat (length (@nil (Z*Z))) <? lim0)%N; [|intros H _; inversion H; reflexivity].
            simpl. apply IH.
        + destruct (skip_to_comma s1) as [|c s3]; [intros H _; inversion H; reflexivity|].
          destruct (N.of_nat (length (@nil (Z*Z))) <? lim0)%N; [|intros H _; inversion H; reflexivity].
          simpl. apply IH. }
    subst acc. reflexivity.
Qed.

(* ---- slices *)
Lemma slice_length content a b :
  inb (Z.of_nat (length content)) (a, b) -> Z.of_nat (length (slice content a b)) = b - a + 1.
Proof.
  unfold inb, slice; simpl. intros [H1 [H2 H3]].
  rewrite firstn_length, skipn_length. lia.
Qed.

Lemma slice_nth content a b i d :
  inb (Z.of_nat (length content)) (a, b) -> (i < Z.to_nat (b - a + 1))%nat ->
  nth i (slice content a b) d = nth (Z.to_nat a + i) content d.
Proof.
  unfold inb, slice; simpl. intros [H1 [H2 H3]] Hi.
  rewrite <- (firstn_skipn (Z.to_nat a) content) at 2.
  rewrite app_nth2; rewrite firstn_length; [|lia].
  replace (Z.to_nat a + i - Nat.min (Z.to_nat a) (length content))%nat with i by lia.
  generalize (skipn (Z.to_nat a) content) as l. intros l. revert l i Hi. generalize (Z.to_nat (b - a + 1)) as n.
  induction n as [|n IH]; intros l i Hi; [lia|]. destruct l as [|x l]; [destruct i; reflexivity|].
  destruct i as [|i]; [reflexivity|]. simpl. apply IH. lia.
Qed.

(* ---- response level *)
Lemma range_process_single i rh a b :
  let len := Z.of_nat (length (content i)) in
  0 < len -> eq_icase_prefix str_bytes_eq_lc (cstr rh) = true ->
  range_parse (skipn 6 (cstr rh)) len = [(a, b)] ->
  let o := range_process i rh in
  status_out o = 206 /\ cr_out o = Some (content_range a b len) /\
  body_out o = slice (content i) a b /\ inb len (a, b) /\
  clen_out o = Some (itoaZ (b - a + 1)).
Proof.
  intros len Hlen Hpre Hrp o. subst o. unfold range_process. fold len.
  destruct (len =? 0) eqn:E; [lia|]. rewrite Hpre. simpl negb. cbv iota. rewrite Hrp.
  assert (Hin : inb len (a, b)).
  { pose proof (range_parse_in_bounds (skipn 6 (cstr rh)) len Hlen) as HF. rewrite Hrp in HF.
    inversion HF; assumption. }
  simpl. repeat split; try (apply Hin).
  rewrite slice_length by exact Hin. reflexivity.
Qed.

Lemma range_process_416 i rh :
  let len := Z.of_nat (length (content i)) in
  0 < len -> eq_icase_prefix str_bytes_eq_lc (cstr rh) = true ->
  (status_out (range_process i rh) = 416 <-> accepted_all (skipn 6 (cstr rh)) len = []).
Proof.
  intros len Hlen Hpre. rewrite <- range_parse_nil_iff by exact Hlen.
  unfold range_process. fold len. destruct (len =? 0) eqn:E; [lia|]. rewrite Hpre. simpl negb. cbv iota.
  destruct (range_parse (skipn 6 (cstr rh)) len) as [|[a b] [|q l]]; simpl; split; intros H; try reflexivity; try discriminate.
Qed.

Lemma pass_is_identity i : status_out (pass i) = status_in i /\ body_out (pass i) = content i /\ cr_out (pass i) = None.
Proof. repeat split. Qed.

Lemma ignored_when i :
  (meth i <> 0%N \/ (http11 i = false /\ allow10 i = false) \/ status_in i <> 200 \/ body_finished i = false
   \/ te_or_ce i = true \/ range_hdr i = None) ->
  range_rfc7233 i = pass i.
Proof.
  unfold range_rfc7233. intros H.
  destruct (body_finished i) eqn:E1; simpl; [|reflexivity].
  destruct (status_in i =? 200) eqn:E2; simpl; [|reflexivity].
  destruct (1 <? meth i)%N eqn:E3; [reflexivity|].
  destruct (http11 i) eqn:E4; destruct (allow10 i) eqn:E5; simpl; try reflexivity;
  (destruct (te_or_ce i) eqn:E6; [reflexivity|]);
  (destruct (match accept_ranges i with Some v => list_eqb v str_none | None => false end); [reflexivity|]);
  (destruct (meth i =? 0)%N eqn:E7; simpl; [|reflexivity]);
  (destruct (range_hdr i) eqn:E8; [|reflexivity]);
  exfalso; apply N.eqb_eq in E7; apply Z.eqb_eq in E2;
  destruct H as [H|[[H H']|[H|[H|[H|H]]]]]; congruence.
Qed.

Lemma ignored_if_range_mismatch i rh ir :
  range_hdr i = Some rh -> if_range i = Some ir ->
  (match ir with 34%N :: _ => etag i | _ => last_mod i end) <> Some ir ->
  range_rfc7233 i = pass i.
Proof.
  intros Hr Hi Hne. unfold range_rfc7233.
  destruct (negb (body_finished i)); [reflexivity|].
  destruct (negb (status_in i =? 200)); [reflexivity|].
  destruct (1 <? meth i)%N; [reflexivity|].
  destruct (negb (http11 i) && negb (allow10 i)); [reflexivity|].
  destruct (te_or_ce i); [reflexivity|].
  destruct (match accept_ranges i with Some v => list_eqb v str_none | None => false end); [reflexivity|].
  destruct (negb (meth i =? 0)%N); [reflexivity|].
  rewrite Hr, Hi.
  destruct (match ir with 34%N :: _ => etag i | _ => last_mod i end) as [c|] eqn:Ec; [|reflexivity].
  destruct (list_eqb ir c) eqn:El; [|reflexivity].
  apply list_eqb_eq in El. subst c. congruence.
Qed.

Lemma ignored_unknown_unit i rh :
  eq_icase_prefix str_bytes_eq_lc (cstr rh) = false -> range_process i rh = pass i.
Proof.
  intros H. unfold range_process. destruct (Z.of_nat (length (content i)) =? 0); [reflexivity|].
  rewrite H. reflexivity.
Qed.
