(* C15: If-None-Match.  The list scanner of http_etag_matches() decides exactly the RFC 9110 comparison on every grammatical field value. *)
From Coq Require Import List NArith ZArith Bool Lia.
From LV Require Import Base.Bytes Date.DateModel C15.EtagModel.
Import ListNotations.
Local Open Scope N_scope.

(* characters of an opaque tag: anything but DQUOTE, space, tab and comma (RFC 9110 etagc also allows the comma: see the remark at the theorem) *)
Definition okc (c : N) : bool := negb (is_sep c) && negb (c =? 34).
Definition opaque (b : list N) : list N := [34] ++ b ++ [34].
Definition item_text (w : bool) (b : list N) : list N := (if w then [87; 47] else []) ++ opaque b.

Definition all_sep (s : list N) : bool := forallb is_sep s.
Definition has_comma (s : list N) : bool := existsb (fun c => c =? 44) s.

(* a field value: items, each preceded by separators; between two items the separators contain a comma *)
Definition item := (list N * bool * list N)%type.      (* separators before, weak?, body *)
Fixpoint render (its : list item) (trail : list N) : list N :=
  match its with [] => trail | (sep, w, b) :: t => sep ++ item_text w b ++ render t trail end.
Definition wf_item (first : bool) (it : item) : bool :=
  let '(sep, w, b) := it in all_sep sep && (first || has_comma sep) && forallb okc b.
Fixpoint wf_items (first : bool) (its : list item) : bool :=
  match its with [] => true | it :: t => wf_item first it && wf_items false t end.

Definition item_matches (weak_ok : bool) (body : list N) (it : item) : bool :=
  let '(_, w, b) := it in list_eqb b body && (negb w || weak_ok).

Lemma skip_sep_app sep : forall x, all_sep sep = true -> (match x with c :: _ => is_sep c = false | [] => True end) -> skip_sep (sep ++ x) = x.
Proof.
  induction sep as [|c sep IH]; intros x H Hx; cbn [app skip_sep].
  - destruct x as [|c x]; [reflexivity|]. cbn [skip_sep]. rewrite Hx. reflexivity.
  - cbn [all_sep forallb] in H. apply andb_true_iff in H as [H1 H2]. rewrite H1. apply IH; assumption.
Qed.

Lemma to_comma_nocomma a : forall b, forallb (fun c => negb (c =? 44)) a = true -> to_comma (a ++ b) = to_comma b.
Proof.
  induction a as [|c a IH]; intros b H; [reflexivity|]. cbn [forallb] in H. apply andb_true_iff in H as [H1 H2].
  cbn [app to_comma]. apply negb_true_iff in H1. rewrite H1. apply IH. exact H2.
Qed.

Lemma to_comma_sep sep : forall x, all_sep sep = true -> has_comma sep = true ->
  exists sep', to_comma (sep ++ x) = sep' ++ x /\ all_sep sep' = true /\ (length sep' <= length sep)%nat.
Proof.
  induction sep as [|c sep IH]; intros x H Hc; [discriminate|].
  cbn [all_sep forallb] in H. apply andb_true_iff in H as [H1 H2]. cbn [has_comma existsb] in Hc. cbn [app to_comma].
  destruct (c =? 44) eqn:E.
  - exists (c :: sep). split; [reflexivity|]. split; [cbn [all_sep forallb]; rewrite H1; exact H2|lia].
  - cbn [orb] in Hc. destruct (IH x H2 Hc) as [s' [A [B C]]]. exists s'. split; [exact A|]. split; [exact B|]. cbn [length]. lia.
Qed.

Lemma to_comma_len s : (length (to_comma s) <= length s)%nat.
Proof. induction s as [|c s IH]; cbn [to_comma length]; [lia|]. destruct (c =? 44); cbn [length]; lia. Qed.

Lemma okc_not_quote b : forallb okc b = true -> forallb (fun c => negb (c =? 34)) b = true.
Proof. induction b as [|c b IH]; intros H; [reflexivity|]. cbn [forallb] in *. apply andb_true_iff in H as [H1 H2]. unfold okc in H1. apply andb_true_iff in H1 as [_ H1]. rewrite H1, (IH H2). reflexivity. Qed.
Lemma okc_not_comma b : forallb okc b = true -> forallb (fun c => negb (c =? 44)) b = true.
Proof.
  induction b as [|c b IH]; intros H; [reflexivity|]. cbn [forallb] in *. apply andb_true_iff in H as [H1 H2]. unfold okc, is_sep in H1.
  apply andb_true_iff in H1 as [H1 _]. apply negb_true_iff in H1. apply orb_false_iff in H1 as [_ H1]. rewrite H1, (IH H2). reflexivity.
Qed.

(* a quoted string is a prefix of another quoted string (followed by anything) only if the bodies are equal *)
Lemma quoted_prefix a : forall b rest, forallb (fun c => negb (c =? 34)) a = true -> forallb (fun c => negb (c =? 34)) b = true ->
  prefixb (a ++ [34]) (b ++ [34] ++ rest) = list_eqb b a.
Proof.
  induction a as [|x a IH]; intros b rest Ha Hb.
  - destruct b as [|y b]; cbn [app prefixb list_eqb]; [rewrite N.eqb_refl; reflexivity|].
    cbn [forallb] in Hb. apply andb_true_iff in Hb as [Hb _]. apply negb_true_iff in Hb. rewrite N.eqb_sym, Hb. reflexivity.
  - cbn [forallb] in Ha. apply andb_true_iff in Ha as [Ha1 Ha2]. destruct b as [|y b]; cbn [app prefixb list_eqb].
    + apply negb_true_iff in Ha1. rewrite Ha1. reflexivity.
    + cbn [forallb] in Hb. apply andb_true_iff in Hb as [_ Hb2]. rewrite (N.eqb_sym y x). destruct (x =? y); cbn [andb]; [|reflexivity].
      apply IH; assumption.
Qed.

Lemma skip_sep_all s : all_sep s = true -> skip_sep s = [].
Proof. induction s as [|c s IH]; intros H; [reflexivity|]. cbn [all_sep forallb] in H. apply andb_true_iff in H as [H1 H2]. cbn [skip_sep]. rewrite H1. apply IH. exact H2. Qed.

Lemma to_comma_all_sep s : all_sep s = true -> all_sep (to_comma s) = true.
Proof.
  induction s as [|c s IH]; intros H; [reflexivity|]. pose proof H as H0. cbn [all_sep forallb] in H. apply andb_true_iff in H as [H1 H2].
  cbn [to_comma]. destruct (c =? 44); [exact H0|apply IH; exact H2].
Qed.

Lemma scan_unfold f tag w c s : etag_scan (S f) tag w (c :: s) =
  let s1 := skip_sep (c :: s) in
  let '(s2, ok) := match strip_w s1 with Some t => (t, w) | None => (s1, true) end in
  let star := is_star s2 in
  let cmp := ok && (prefixb tag s2 || star) in
  let s3 := if cmp then (if star then skipn 1 s2 else skipn (length tag) s2) else s2 in
  if cmp && is_term s3 then true else match to_comma s3 with [] => false | rest => etag_scan f tag w rest end.
Proof. reflexivity. Qed.

Lemma scan_seps tb w : forall fuel s, all_sep s = true -> etag_scan fuel (opaque tb) w s = false.
Proof.
  induction fuel as [|f IH]; intros s H; [reflexivity|]. destruct s as [|c s]; [reflexivity|].
  rewrite scan_unfold. cbv zeta. rewrite (skip_sep_all _ H). cbn. reflexivity.
Qed.

Lemma strip_w_quote x : strip_w (34 :: x) = None.
Proof. destruct x; reflexivity. Qed.

Lemma render_head trail : all_sep trail = true -> forall t, wf_items false t = true ->
  is_term (render t trail) = true.
Proof.
  intros Ht t H. destruct t as [|[[sep w] b] t]; cbn [render].
  - destruct trail as [|c tr]; [reflexivity|]. cbn [all_sep forallb] in Ht. apply andb_true_iff in Ht as [Ht _]. exact Ht.
  - cbn [wf_items wf_item orb] in H. apply andb_true_iff in H as [H _]. apply andb_true_iff in H as [H _]. apply andb_true_iff in H as [H1 H2].
    destruct sep as [|c sep]; [discriminate|]. cbn [all_sep forallb] in H1. apply andb_true_iff in H1 as [H1 _]. exact H1.
Qed.

Lemma existsb_ignores_sep w tb sep sep' wi b t :
  existsb (item_matches w tb) ((sep, wi, b) :: t) = existsb (item_matches w tb) ((sep', wi, b) :: t).
Proof. reflexivity. Qed.

Theorem scan_render tb weak_ok trail : all_sep trail = true -> forallb okc tb = true ->
  forall n its fuel, length its = n -> wf_items true its = true -> (length (render its trail) < fuel)%nat ->
  etag_scan fuel (opaque tb) weak_ok (render its trail) = existsb (item_matches weak_ok tb) its.
Proof.
  intros Htr Htb. induction n as [|n IH]; intros its fuel Hn Hwf Hf.
  - destruct its; [|discriminate]. cbn [render existsb]. apply scan_seps. exact Htr.
  - destruct its as [|[[sep w] b] t]; [discriminate|]. injection Hn as Hn.
    cbn [wf_items wf_item orb] in Hwf. apply andb_true_iff in Hwf as [Hit Hwt]. apply andb_true_iff in Hit as [Hit Hb]. rewrite andb_true_r in Hit.
    destruct fuel as [|f]; [lia|].
    set (R := render t trail).
    assert (HR : is_term R = true) by (apply render_head; assumption).
    cbn [render]. fold R.
    assert (Es : exists c s, sep ++ item_text w b ++ R = c :: s).
    { destruct sep as [|c sep]; [|eexists; eexists; reflexivity]. destruct w; cbn; eexists; eexists; reflexivity. }
    destruct Es as [c0 [s0 Es]]. rewrite Es, scan_unfold, <- Es. clear Es c0 s0. cbv zeta.
    assert (E1 : skip_sep (sep ++ item_text w b ++ R) = item_text w b ++ R).
    { apply skip_sep_app; [exact Hit|]. destruct w; reflexivity. }
    rewrite E1.
    assert (E2 : (match strip_w (item_text w b ++ R) with Some t0 => (t0, weak_ok) | None => (item_text w b ++ R, true) end) = (opaque b ++ R, negb w || weak_ok)).
    { destruct w; cbn [item_text app negb orb]; [reflexivity|]. unfold opaque. cbn [app]. rewrite strip_w_quote. reflexivity. }
    rewrite E2. cbv zeta.
    assert (E3 : is_star (opaque b ++ R) = false) by reflexivity. rewrite E3. rewrite orb_false_r.
    assert (E4 : prefixb (opaque tb) (opaque b ++ R) = list_eqb b tb).
    { unfold opaque. cbn [app prefixb]. rewrite N.eqb_refl. cbn [andb]. rewrite <- app_assoc. apply quoted_prefix; apply okc_not_quote; assumption. }
    rewrite E4. cbn [existsb item_matches]. rewrite (andb_comm (negb w || weak_ok)).
    destruct (list_eqb b tb && (negb w || weak_ok)) eqn:EM.
    + (* this item matches *)
      apply andb_true_iff in EM as [EM _]. apply list_eqb_eq in EM. subst b.
      assert (E5 : skipn (length (opaque tb)) (opaque tb ++ R) = R).
      { rewrite skipn_app, skipn_all, Nat.sub_diag. reflexivity. }
      rewrite E5, HR. reflexivity.
    + cbn [andb orb].
      assert (E6 : to_comma (opaque b ++ R) = to_comma R).
      { apply to_comma_nocomma. unfold opaque. rewrite !forallb_app. cbn [forallb]. rewrite (okc_not_comma _ Hb). reflexivity. }
      rewrite E6.
      destruct t as [|[[sep2 w2] b2] t2].
      * (* nothing follows but separators *)
        unfold R. cbn [render existsb].
        pose proof (to_comma_all_sep _ Htr) as A. destruct (to_comma trail) as [|c r] eqn:ET; [reflexivity|]. apply scan_seps. exact A.
      * unfold R. cbn [render].
        pose proof Hwt as Hwt'. cbn [wf_items wf_item orb] in Hwt'. apply andb_true_iff in Hwt' as [H2 Hw2]. apply andb_true_iff in H2 as [H2 Hb2]. apply andb_true_iff in H2 as [Hs2 Hc2].
        destruct (to_comma_sep sep2 (item_text w2 b2 ++ render t2 trail) Hs2 Hc2) as [sep' [T1 [T2 T3]]].
        rewrite T1.
        assert (NE : exists c r, sep' ++ item_text w2 b2 ++ render t2 trail = c :: r).
        { destruct sep' as [|c s']; [|eexists; eexists; reflexivity]. destruct w2; cbn; eexists; eexists; reflexivity. }
        destruct NE as [c [r NE]]. rewrite NE, <- NE. clear NE c r.
        change (sep' ++ item_text w2 b2 ++ render t2 trail) with (render ((sep', w2, b2) :: t2) trail).
        transitivity (existsb (item_matches weak_ok tb) ((sep', w2, b2) :: t2)); [|reflexivity].
        apply IH.
        -- cbn [length] in *. lia.
        -- cbn [wf_items wf_item orb]. rewrite T2, Hb2, Hw2. reflexivity.
        -- cbn [render] in Hf |- *. rewrite !app_length in *.
           assert (2 <= length (item_text w b))%nat by (destruct w; unfold item_text, opaque; cbn [app length]; rewrite ?app_length; cbn; lia).
           lia.
Qed.

(* ---------------------------------------------------------------- http_etag_matches on grammatical values *)
Definition rfc_match (weak_ok we : bool) (tb : list N) (it : item) : bool :=
  let '(_, w, b) := it in list_eqb b tb && (weak_ok || (negb we && negb w)).      (* RFC 9110 8.8.3.2: weak / strong comparison *)

Lemma render_not_star its trail : all_sep trail = true -> wf_items true its = true -> list_eqb (render its trail) [42] = false.
Proof.
  intros Ht Hw. destruct its as [|[[sep w] b] t]; cbn [render].
  - destruct trail as [|c tr]; [reflexivity|]. cbn [all_sep forallb] in Ht. apply andb_true_iff in Ht as [Ht _].
    cbn [list_eqb]. destruct (c =? 42) eqn:E; [apply N.eqb_eq in E; subst c; discriminate|reflexivity].
  - destruct sep as [|c sep].
    + destruct w; reflexivity.
    + cbn [wf_items wf_item] in Hw. apply andb_true_iff in Hw as [Hw _]. apply andb_true_iff in Hw as [Hw _]. apply andb_true_iff in Hw as [Hw _].
      cbn [all_sep forallb] in Hw. apply andb_true_iff in Hw as [Hw _].
      cbn [app list_eqb]. destruct (c =? 42) eqn:E; [apply N.eqb_eq in E; subst c; discriminate|reflexivity].
Qed.

Lemma existsb_ext' {A} (f g : A -> bool) l : (forall x, f x = g x) -> existsb f l = existsb g l.
Proof. intros H. induction l as [|x l IH]; [reflexivity|]. cbn [existsb]. rewrite H, IH. reflexivity. Qed.
Lemma existsb_none {A} (f : A -> bool) l : (forall x, f x = false) -> existsb f l = false.
Proof. intros H. induction l as [|x l IH]; [reflexivity|]. cbn [existsb]. rewrite H, IH. reflexivity. Qed.

Theorem etag_matches_is_rfc_comparison we tb its trail weak_ok :
  forallb okc tb = true -> all_sep trail = true -> wf_items true its = true ->
  etag_matches (item_text we tb) (render its trail) weak_ok = existsb (rfc_match weak_ok we tb) its.
Proof.
  intros Htb Htr Hwf. unfold etag_matches. rewrite (render_not_star _ _ Htr Hwf).
  assert (NE : exists c r, item_text we tb = c :: r) by (destruct we; cbn; eexists; eexists; reflexivity).
  destruct NE as [c [r NE]]. rewrite NE, <- NE. clear NE c r.
  assert (ES : (match strip_w (item_text we tb) with Some t => (t, weak_ok) | None => (item_text we tb, true) end) = (opaque tb, negb we || weak_ok)).
  { destruct we; cbn [item_text app negb orb]; [reflexivity|]. unfold opaque. cbn [app]. rewrite strip_w_quote. reflexivity. }
  rewrite ES. destruct (negb we || weak_ok) eqn:G.
  - rewrite (scan_render tb weak_ok trail Htr Htb (length its) its _ eq_refl Hwf (Nat.lt_succ_diag_r _)).
    apply existsb_ext'. intros [[sep w] b]. cbn [item_matches rfc_match]. f_equal.
    destruct we, weak_ok, w; try reflexivity; discriminate.
  - symmetry. apply existsb_none. intros [[sep w] b]. cbn [rfc_match]. destruct we, weak_ok; try discriminate. cbn. apply andb_false_r.
Qed.

Theorem star_matches_any etag weak_ok : etag_matches etag [42] weak_ok = true.
Proof. reflexivity. Qed.

(* ---------------------------------------------------------------- the decision *)
(* If-None-Match present on a representation with an entity tag: the answer depends on nothing else (If-Modified-Since is ignored);
   304 for GET/HEAD, 412 otherwise *)
Theorem if_none_match_decides yc gh rng v ims e lmod lmt :
  cachable yc gh rng (Some v) ims (Some e) lmod lmt = if etag_matches e v (negb rng) then (if gh then C304 else C412) else CPass.
Proof. unfold cachable. destruct ims; reflexivity. Qed.

Theorem if_modified_since_only_without_if_none_match yc v lm e lmt rng :
  cachable yc true rng None (Some v) e (Some lm) lmt = if list_eqb lm v || negb (if_modified_since yc v lmt) then C304 else CPass.
Proof. unfold cachable. destruct e; reflexivity. Qed.

Theorem not_modified_only_for_get_head yc gh rng inm ims e lmod lmt : cachable yc gh rng inm ims e lmod lmt = C304 -> gh = true.
Proof.
  unfold cachable. destruct inm as [v|], ims as [i|], e as [e|]; try discriminate;
    try (destruct (etag_matches e v (negb rng)); destruct gh; try discriminate; reflexivity); destruct gh; try discriminate; reflexivity.
Qed.

(* the property's clause for a grammatical If-None-Match on GET/HEAD *)
Theorem conditional_get_304_iff_if_none_match_matches yc rng we tb its trail ims lmod lmt :
  forallb okc tb = true -> all_sep trail = true -> wf_items true its = true ->
  cachable yc true rng (Some (render its trail)) ims (Some (item_text we tb)) lmod lmt
  = if existsb (rfc_match (negb rng) we tb) its then C304 else CPass.
Proof. intros A B C. rewrite if_none_match_decides, (etag_matches_is_rfc_comparison we tb its trail (negb rng) A B C). reflexivity. Qed.

Example inm_example :
  let its := [([], false, [120]); ([32; 44; 9], true, [49; 50; 51]); ([44; 44; 32], false, [49; 50; 51; 52])] in
  wf_items true its = true /\ render its [32] = [34;120;34; 32;44;9; 87;47;34;49;50;51;34; 44;44;32; 34;49;50;51;52;34; 32]
  /\ etag_matches (item_text false [49;50;51]) (render its [32]) true = true
  /\ etag_matches (item_text false [49;50;51]) (render its [32]) false = false.
Proof. vm_compute. repeat split; reflexivity. Qed.
