(* Executable model of src/http_range.c (RFC 9110 Range handling).
   http_range_parse_next / http_range_parse / http_range_coalesce_unsorted / http_range_single /
   http_range_multi / http_range_process / http_range_rfc7233.
   Constants RMAX, RMAX_UNSORTED, the coalescing gap and the multipart boundary come from
   Gen/GenRange.v, regenerated from the C source on every run. *)
From LV Require Import Base.Bytes Gen.GenRange.
Local Open Scope Z_scope.

Definition is_some {A} (o : option A) : bool := match o with Some _ => true | None => false end.

(* ---- http_range_parse_next : one byte-range-spec; returns the (clamped) range or None, and e *)
Definition parse_next (s : list N) (len : Z) : option (Z * Z) * list N :=
  let '(n, e, lastd) := strtoll s in
  let '(res, e') :=
    if 0 <=? n then
      if negb (n =? LLONG_MAX) && (n <? len) && is_some lastd then
        let e1 := skip_blank e in
        match e1 with
        | 45%N :: s2 =>
            let '(n2, e2, last2) := strtoll s2 in
            let r :=
              match last2 with
              | None => Some (n, len - 1)
              | Some ld =>
                  if (n2 =? 0) && negb (ld =? 48)%N then Some (n, len - 1)
                  else if (n <=? n2) && negb (n2 =? LLONG_MAX)
                       then Some (n, if n2 <? len then n2 else len - 1)
                       else None
              end in
            (r, e2)
        | _ => (None, e1)
        end
      else (None, e)
    else if negb (n =? LLONG_MIN)
         then (Some (if - n <? len then len + n else 0, len - 1), e)
         else (None, e) in
  (res, skip_blank e').

Fixpoint skip_to_comma (s : list N) : list N :=
  match s with c :: t => if (c =? 44)%N then s else skip_to_comma t | [] => [] end.

Definition at_sep (s : list N) : bool :=
  match s with [] => true | c :: _ => (c =? 44)%N end.

(* ---- http_range_parse main loop.  acc = ranges so far, most recent first; lim in pairs.
   seen = every range that parse_next produced and the loop accepted into the array (for the
   coverage theorem). *)
Definition merge_step (p : Z * Z) (acc : list (Z * Z)) (lim : N)
  : list (Z * Z) * N * bool (*break*) :=
  match acc with
  | [] => ([p], lim, false)
  | (b1, e1) :: rest =>
      let '(b2, e2) := p in
      if b1 <=? b2 then
        if e1 <? b2 - GAP then (p :: acc, lim, false)
        else ((b1, if e1 <? e2 then e2 else e1) :: rest, lim, false)
      else if (RMAX_UNSORTED <? N.of_nat (length acc) + 1)%N then (acc, lim, true)
           else (p :: acc, RMAX_UNSORTED, false)
  end.

Fixpoint parse_loop (fuel : nat) (s : list N) (len : Z) (acc : list (Z * Z)) (lim : N)
  : list (Z * Z) * N :=
  match fuel with
  | O => (acc, lim)
  | S f =>
      let '(r, s1) := parse_next s len in
      let '(acc', lim', brk, s2) :=
        match r with
        | Some p => if at_sep s1
                    then let '(a, l, b) := merge_step p acc lim in (a, l, b, s1)
                    else (acc, lim, false, skip_to_comma s1)
        | None => (acc, lim, false, skip_to_comma s1)
        end in
      if brk then (acc', lim')
      else match s2 with
           | [] => (acc', lim')
           | _ :: s3 => if (N.of_nat (length acc') <? lim')%N
                        then parse_loop f s3 len acc' lim'
                        else (acc', lim')
           end
  end.

(* ---- http_range_coalesce_unsorted *)
Definition overlaps (b e : Z) (q : Z * Z) : bool :=
  let '(bj, ej) := q in
  negb (if b <=? bj then e <? bj - GAP else ej <? b - GAP).

Fixpoint find_merge (b e : Z) (js : list (Z * Z)) : option ((Z * Z) * list (Z * Z)) :=
  match js with
  | [] => None
  | q :: js' =>
      if overlaps b e q
      then let '(bj, ej) := q in
           Some ((if b <=? bj then b else bj, if e >=? ej then e else ej), js')
      else match find_merge b e js' with
           | Some (m, r) => Some (m, q :: r)
           | None => None
           end
  end.

Fixpoint coal_pass (pre_rev : list (Z * Z)) (l : list (Z * Z)) : option (list (Z * Z)) :=
  match l with
  | [] => None
  | (b, e) :: js =>
      match find_merge b e js with
      | Some (m, js') => Some (rev pre_rev ++ m :: js')
      | None => coal_pass ((b, e) :: pre_rev) js
      end
  end.

Fixpoint coalesce (fuel : nat) (l : list (Z * Z)) : list (Z * Z) :=
  match fuel with
  | O => l
  | S f => match coal_pass [] l with Some l' => coalesce f l' | None => l end
  end.

Definition range_parse (s : list N) (len : Z) : list (Z * Z) :=
  let s := cstr s in
  let '(acc, lim) := parse_loop (S (length s)) s len [] RMAX in
  let l := rev acc in
  if (N.of_nat (length l) <=? 1)%N then l
  else if (lim =? RMAX)%N then l else coalesce (length l) l.

(* ---- response assembly *)
Definition slice (content : list N) (a b : Z) : list N :=
  firstn (Z.to_nat (b - a + 1)) (skipn (Z.to_nat a) content).

Definition str_bytes_sp : list N := [98; 121; 116; 101; 115; 32]%N. (* "bytes " *)
Definition content_range (a b len : Z) : list N :=
  str_bytes_sp ++ itoaZ a ++ [45%N] ++ itoaZ b ++ [47%N] ++ itoaZ len.
Definition crlf : list N := [13; 10]%N.
Definition str_ctype : list N := [67;111;110;116;101;110;116;45;84;121;112;101;58;32]%N. (* "Content-Type: " *)
Definition str_crange : list N :=
  [67;111;110;116;101;110;116;45;82;97;110;103;101;58;32]%N. (* "Content-Range: " *)

Definition part_header (ctype : option (list N)) (a b len : Z) : list N :=
  crlf ++ [45; 45]%N ++ BOUNDARY ++
  (match ctype with Some ct => crlf ++ str_ctype ++ ct | None => [] end) ++
  crlf ++ str_crange ++ content_range a b len ++ crlf ++ crlf.

Definition multi_body (ctype : option (list N)) (content : list N) (rs : list (Z * Z)) : list N :=
  let len := Z.of_nat (length content) in
  skipn 2 (concat (map (fun '(a, b) => part_header ctype a b len ++ slice content a b) rs)
           ++ crlf ++ [45; 45]%N ++ BOUNDARY ++ [45; 45]%N ++ crlf).

Record range_in := {
  body_finished : bool;
  status_in : Z;
  meth : N;                 (* 0 GET, 1 HEAD, 2 anything else *)
  http11 : bool;            (* request version >= HTTP/1.1 *)
  allow10 : bool;           (* server.range-requests on HTTP/1.0 *)
  te_or_ce : bool;          (* Transfer-Encoding / Content-Encoding response header present *)
  accept_ranges : option (list N);
  range_hdr : option (list N);
  if_range : option (list N);
  etag : option (list N);
  last_mod : option (list N);
  ctype : option (list N);
  content : list N
}.

Record range_out := {
  status_out : Z;
  cr_out : option (list N);        (* Content-Range response header *)
  ctype_out : option (list N);     (* Content-Type response header *)
  clen_out : option (list N);      (* Content-Length as set by the range code *)
  body_out : list N
}.

Definition str_none : list N := [110;111;110;101]%N.
Definition str_bytes_eq_lc : list N := [98;121;116;101;115;61]%N. (* "bytes=" *)
Definition multipart_type : list N :=
  [109;117;108;116;105;112;97;114;116;47;98;121;116;101;114;97;110;103;101;115;59;32;
   98;111;117;110;100;97;114;121;61]%N ++ BOUNDARY.

Definition pass (i : range_in) : range_out :=
  {| status_out := status_in i; cr_out := None; ctype_out := ctype i; clen_out := None;
     body_out := content i |}.

Definition eq_icase_prefix (p s : list N) : bool :=
  (* buffer_eq_icase_ssn(s, p, |p|) with p lower-case letters / '=' *)
  prefixb p (map to_lower (firstn (length p) s)) && (length p <=? length s)%nat.

Definition range_process (i : range_in) (rh : list N) : range_out :=
  let len := Z.of_nat (length (content i)) in
  if len =? 0 then pass i
  else if negb (eq_icase_prefix str_bytes_eq_lc (cstr rh)) then pass i
  else
    let rs := range_parse (skipn 6 (cstr rh)) len in
    match rs with
    | [] => {| status_out := 416; cr_out := Some (str_bytes_sp ++ [42; 47]%N ++ itoaZ len);
               ctype_out := ctype i; clen_out := None; body_out := content i |}
    | [(a, b)] =>
        let body := slice (content i) a b in
        {| status_out := 206; cr_out := Some (content_range a b len); ctype_out := ctype i;
           clen_out := Some (itoaZ (Z.of_nat (length body))); body_out := body |}
    | _ =>
        let body := multi_body (ctype i) (content i) rs in
        {| status_out := 206; cr_out := None; ctype_out := Some multipart_type;
           clen_out := Some (itoaZ (Z.of_nat (length body))); body_out := body |}
    end.

Definition range_rfc7233 (i : range_in) : range_out :=
  if negb (body_finished i) then pass i
  else if negb (status_in i =? 200) then pass i
  else if (1 <? meth i)%N then pass i
  else if negb (http11 i) && negb (allow10 i) then pass i
  else if te_or_ce i then pass i
  else if match accept_ranges i with Some v => list_eqb v str_none | None => false end then pass i
  else if negb (meth i =? 0)%N then pass i
  else match range_hdr i with
       | None => pass i
       | Some rh =>
           let ok :=
             match if_range i with
             | None => true
             | Some ir =>
                 let cmp := match ir with 34%N :: _ => etag i | _ => last_mod i end in
                 match cmp with Some c => list_eqb ir c | None => false end
             end in
           if ok then range_process i rh else pass i
       end.

(* ------------------------------------------------------------------------------------------
   Monitor (DESIGN 3.6): what RFC 9110 section 14 asks of an answer, checked on any observed
   (status, parts) independent of how it was produced.  parts = (first, last, payload) triples as
   a client parses them out of a 206. *)
Definition part_ok (content : list N) (p : Z * Z * list N) : bool :=
  let '(a, b, payload) := p in
  (0 <=? a) && (a <=? b) && (b <? Z.of_nat (length content)) && list_eqb payload (slice content a b).

Definition covered (p : Z * Z) (parts : list (Z * Z)) : bool :=
  existsb (fun q => (fst q <=? fst p) && (snd p <=? snd q)) parts.
