(* Pool/PoolModel.v -- gw_backend.c's host pool as a state machine (C11): host choice per balance mode (gw_host_get),
   paired load increments/decrements (gw_host_assign / gw_host_reset), disabling on a connect failure for disable-time
   (gw_proc_connect_error), re-enabling (gw_proc_check_enable via the once-per-second trigger), bounded retry (gw_reconnect).
   One proc per host (remote backends).  Time is the monotonic second counter. *)
From Coq Require Import List ZArith Bool Lia.
Import ListNotations.
Local Open Scope Z_scope.

Record host := { h_load : Z; h_active : bool; h_disabled_until : Z }.
Inductive balance := LeastConnection | RoundRobin | Hash.

Record state := {
  hosts : list host;
  last_used : Z;                       (* extension->last_used_ndx *)
  now : Z;
  inflight : list (nat * nat * nat)    (* request id, host index, connection attempts so far *)
}.

Definition active_at (hs : list host) (i : nat) : bool := match nth_error hs i with Some h => h_active h | None => false end.

(* fair balancing: first host with the smallest load among the active ones *)
Fixpoint least_conn (hs : list host) (k : nat) (best : option (nat * Z)) : option nat :=
  match hs with
  | [] => match best with Some (i, _) => Some i | None => None end
  | h :: t => if h_active h
              then match best with
                   | Some (_, m) => if h_load h <? m then least_conn t (S k) (Some (k, h_load h)) else least_conn t (S k) best
                   | None => least_conn t (S k) (Some (k, h_load h))
                   end
              else least_conn t (S k) best
  end.

Fixpoint first_active_from (hs : list host) (k : nat) (from : nat) : option nat :=     (* first active index >= from *)
  match hs with
  | [] => None
  | h :: t => if (from <=? k)%nat && h_active h then Some k else first_active_from t (S k) from
  end.

Definition round_robin (hs : list host) (last : Z) : option nat :=
  let start := Z.to_nat (Z.max 0 (last + 1)) in
  match first_active_from hs 0 start with
  | Some i => Some i
  | None => first_active_from hs 0 0           (* wrap to the start *)
  end.

(* hash / sticky: the active host maximising base_hash xor host_hash (ties: the later one) *)
Fixpoint hash_pick (hs : list host) (hh : list Z) (base : Z) (k : nat) (best : option (nat * Z)) : option nat :=
  match hs, hh with
  | h :: t, x :: xs =>
      if h_active h
      then let cur := Z.lxor base x in
           match best with
           | Some (_, m) => if m <=? cur then hash_pick t xs base (S k) (Some (k, cur)) else hash_pick t xs base (S k) best
           | None => hash_pick t xs base (S k) (Some (k, cur))
           end
      else hash_pick t xs base (S k) best
  | _, _ => match best with Some (i, _) => Some i | None => None end
  end.

Definition choose (b : balance) (s : state) (hh : list Z) (base : Z) : option nat :=
  match hosts s with
  | [h] => if h_active h then Some 0%nat else None
  | _ => match b with
         | LeastConnection => least_conn (hosts s) 0 None
         | RoundRobin => round_robin (hosts s) (last_used s)
         | Hash => hash_pick (hosts s) hh base 0 None
         end
  end.

Fixpoint upd (hs : list host) (i : nat) (f : host -> host) : list host :=
  match hs, i with
  | [], _ => []
  | h :: t, O => f h :: t
  | h :: t, S j => h :: upd t j f
  end.

Definition inc (h : host) : host := {| h_load := h_load h + 1; h_active := h_active h; h_disabled_until := h_disabled_until h |}.
Definition dec (h : host) : host := {| h_load := h_load h - 1; h_active := h_active h; h_disabled_until := h_disabled_until h |}.
Definition disable (until : Z) (h : host) : host := {| h_load := h_load h; h_active := false; h_disabled_until := until |}.
Definition enable_if_due (t : Z) (h : host) : host :=
  if negb (h_active h) && (h_disabled_until h <? t) then {| h_load := h_load h; h_active := true; h_disabled_until := 0 |} else h.

Inductive event :=
| Arrive (id : nat) (base : Z)          (* a request is routed to the pool *)
| ConnectFail (id : nat) (base : Z)     (* connect() to the chosen host failed before any byte was sent *)
| Finish (id : nat)                      (* response complete, client abort, or backend error after the request was sent *)
| Tick.                                   (* one second passes; the trigger re-enables hosts whose disable-time is over *)

Inductive outcome := Dispatched (i : nat) | Unavailable503 | GaveUp5xx | NoOutcome.

Section Pool.
Variable bal : balance.
Variable hh : list Z.                     (* per-host hash values *)
Variable disable_time : Z.
Definition MAX_RETRIES : nat := 5.

Fixpoint find_req (l : list (nat * nat * nat)) (id : nat) : option (nat * nat) :=
  match l with [] => None | (i, h, a) :: t => if Nat.eqb i id then Some (h, a) else find_req t id end.
Definition remove_req (l : list (nat * nat * nat)) (id : nat) : list (nat * nat * nat) :=
  filter (fun x => negb (Nat.eqb (fst (fst x)) id)) l.

Definition assign (s : state) (id : nat) (base : Z) (attempts : nat) : outcome * state :=
  match choose bal s hh base with
  | None =>         (* no host available: round-robin stores the -1 it found ("Save new index for next round") *)
      (Unavailable503,
       {| hosts := hosts s; last_used := match bal, hosts s with RoundRobin, _ :: _ :: _ => -1 | _, _ => last_used s end;
          now := now s; inflight := inflight s |})
  | Some i =>
      (Dispatched i,
       {| hosts := upd (hosts s) i inc;
          last_used := match bal, hosts s with RoundRobin, _ :: _ :: _ => Z.of_nat i | _, _ => last_used s end;
          now := now s; inflight := (id, i, attempts) :: inflight s |})
  end.

Definition step (s : state) (e : event) : outcome * state :=
  match e with
  | Arrive id base => match find_req (inflight s) id with Some _ => (NoOutcome, s) | None => assign s id base 1 end
  | ConnectFail id base =>
      match find_req (inflight s) id with
      | None => (NoOutcome, s)
      | Some (i, a) =>
          let s1 := {| hosts := upd (upd (hosts s) i dec) i (disable (now s + disable_time)); last_used := last_used s; now := now s;
                       inflight := remove_req (inflight s) id |} in
          if (a <=? MAX_RETRIES)%nat then assign s1 id base (S a) else (GaveUp5xx, s1)
      end
  | Finish id =>
      match find_req (inflight s) id with
      | None => (NoOutcome, s)
      | Some (i, _) => (NoOutcome, {| hosts := upd (hosts s) i dec; last_used := last_used s; now := now s; inflight := remove_req (inflight s) id |})
      end
  | Tick => (NoOutcome, {| hosts := map (enable_if_due (now s + 1)) (hosts s); last_used := last_used s; now := now s + 1; inflight := inflight s |})
  end.

Fixpoint run (s : state) (es : list event) : list outcome * state :=
  match es with
  | [] => ([], s)
  | e :: t => let '(o, s1) := step s e in let '(os, s2) := run s1 t in (o :: os, s2)
  end.
End Pool.

Definition init (n : nat) : state :=
  {| hosts := repeat {| h_load := 0; h_active := true; h_disabled_until := 0 |} n; last_used := -1; now := 0; inflight := [] |}.
