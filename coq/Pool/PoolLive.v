(* C11: the host choice never gives up while a host is available, and round-robin takes the next available host after the last one used. *)
From Coq Require Import List ZArith Bool Lia.
From LV Require Import Pool.PoolModel.
Import ListNotations.
Local Open Scope Z_scope.

Definition some_active (hs : list host) : Prop := exists i, active_at hs i = true.

Lemma active_at_cons h t i : active_at (h :: t) (S i) = active_at t i.
Proof. reflexivity. Qed.

(* first_active_from: the least active index >= from, if any *)
Lemma first_active_from_spec hs : forall k from,
  match first_active_from hs k from with
  | Some i => (k <= i)%nat /\ (from <= i)%nat /\ active_at hs (i - k) = true /\ forall j, (k <= j < i)%nat -> (from <= j)%nat -> active_at hs (j - k) = false
  | None => forall j, (k <= j)%nat -> (from <= j)%nat -> active_at hs (j - k) = false
  end.
Proof.
  induction hs as [|h t IH]; intros k from; cbn [first_active_from].
  - intros j _ _. unfold active_at. destruct (j - k)%nat; reflexivity.
  - destruct ((from <=? k)%nat && h_active h) eqn:E.
    + apply andb_true_iff in E as [E1 E2]. apply Nat.leb_le in E1. split; [lia|]. split; [exact E1|]. split.
      * rewrite Nat.sub_diag. unfold active_at. cbn. exact E2.
      * intros j Hj. lia.
    + specialize (IH (S k) from). destruct (first_active_from t (S k) from) as [i|].
      * destruct IH as (A & B & C & D). split; [lia|]. split; [exact B|]. split.
        -- replace (i - k)%nat with (S (i - S k)) by lia. rewrite active_at_cons. exact C.
        -- intros j Hj Hf. destruct (Nat.eq_dec j k) as [->|Hne].
           ++ rewrite Nat.sub_diag. unfold active_at. cbn. apply andb_false_iff in E as [E|E]; [apply Nat.leb_gt in E; lia|exact E].
           ++ replace (j - k)%nat with (S (j - S k)) by lia. rewrite active_at_cons. apply D; lia.
      * intros j Hj Hf. destruct (Nat.eq_dec j k) as [->|Hne].
        -- rewrite Nat.sub_diag. unfold active_at. cbn. apply andb_false_iff in E as [E|E]; [apply Nat.leb_gt in E; lia|exact E].
        -- replace (j - k)%nat with (S (j - S k)) by lia. rewrite active_at_cons. apply IH; lia.
Qed.

(* round-robin: the first available host after the last one used; if there is none, the first available host from the start *)
Theorem round_robin_spec hs last :
  let start := Z.to_nat (Z.max 0 (last + 1)) in
  match round_robin hs last with
  | Some i => active_at hs i = true /\
              ((start <= i)%nat /\ (forall j, (start <= j < i)%nat -> active_at hs j = false)
               \/ (forall j, (start <= j)%nat -> active_at hs j = false) /\ (forall j, (j < i)%nat -> active_at hs j = false))
  | None => forall j, active_at hs j = false
  end.
Proof.
  intros start. unfold round_robin. fold start.
  pose proof (first_active_from_spec hs 0 start) as H1. destruct (first_active_from hs 0 start) as [i|].
  - destruct H1 as (_ & B & C & D). rewrite Nat.sub_0_r in C. split; [exact C|]. left. split; [exact B|].
    intros j Hj. specialize (D j ltac:(lia) ltac:(lia)). rewrite Nat.sub_0_r in D. exact D.
  - pose proof (first_active_from_spec hs 0 0) as H2. destruct (first_active_from hs 0 0) as [i|].
    + destruct H2 as (_ & _ & C & D). rewrite Nat.sub_0_r in C. split; [exact C|]. right. split.
      * intros j Hj. specialize (H1 j ltac:(lia) Hj). rewrite Nat.sub_0_r in H1. exact H1.
      * intros j Hj. specialize (D j ltac:(lia) ltac:(lia)). rewrite Nat.sub_0_r in D. exact D.
    + intros j. specialize (H2 j ltac:(lia) ltac:(lia)). rewrite Nat.sub_0_r in H2. exact H2.
Qed.

Lemma least_conn_some hs : forall k best, (best <> None \/ some_active hs) -> least_conn hs k best <> None.
Proof.
  induction hs as [|h t IH]; intros k best H; cbn [least_conn].
  - destruct H as [H|[i H]]; [destruct best as [[? ?]|]; [discriminate|contradiction]|]. unfold active_at in H. destruct i; discriminate.
  - destruct (h_active h) eqn:Ha.
    + destruct best as [[j m]|]; [destruct (h_load h <? m)|]; apply IH; left; discriminate.
    + apply IH. destruct H as [H|[i H]]; [left; exact H|]. right. destruct i as [|i]; [unfold active_at in H; cbn in H; congruence|]. exists i. exact H.
Qed.

Lemma hash_pick_some hs : forall hh base k best, (length hs <= length hh)%nat -> (best <> None \/ some_active hs) -> hash_pick hs hh base k best <> None.
Proof.
  induction hs as [|h t IH]; intros hh base k best L H; cbn [hash_pick].
  - destruct H as [H|[i H]]; [destruct best as [[? ?]|]; [discriminate|contradiction]|]. unfold active_at in H. destruct i; discriminate.
  - destruct hh as [|x xs]; [cbn in L; lia|]. cbn [length] in L.
    destruct (h_active h) eqn:Ha.
    + destruct best as [[j m]|]; [destruct (m <=? Z.lxor base x)|]; apply IH; try lia; left; discriminate.
    + apply IH; [lia|]. destruct H as [H|[i H]]; [left; exact H|]. right. destruct i as [|i]; [unfold active_at in H; cbn in H; congruence|]. exists i. exact H.
Qed.

(* whatever the balance mode: while some host is available a request is dispatched (never refused for want of a host) *)
Theorem choose_finds_an_available_host b s hh base :
  some_active (hosts s) -> (length (hosts s) <= length hh)%nat -> choose b s hh base <> None.
Proof.
  intros Ha L. unfold choose. destruct (hosts s) as [|h0 [|h1 t]] eqn:Hh.
  - destruct Ha as [i Hi]. unfold active_at in Hi. destruct i; discriminate.
  - destruct Ha as [i Hi]. unfold active_at in Hi. destruct i as [|i]; [cbn in Hi; rewrite Hi; discriminate|]. destruct i; discriminate.
  - destruct b.
    + apply least_conn_some. right. exact Ha.
    + pose proof (round_robin_spec (h0 :: h1 :: t) (last_used s)) as R. cbv zeta in R.
      destruct (round_robin (h0 :: h1 :: t) (last_used s)); [discriminate|]. destruct Ha as [i Hi]. rewrite R in Hi. discriminate.
    + apply hash_pick_some; [exact L|]. right. exact Ha.
Qed.
