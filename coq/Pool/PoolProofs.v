(* Pool/PoolProofs.v -- C11: load figures equal requests in flight; only available hosts are chosen; retries are bounded. *)
From Coq Require Import List ZArith Bool Lia Arith.
From LV Require Import Pool.PoolModel.
Import ListNotations.
Local Open Scope Z_scope.

(* ---------------------------------------------------------------- upd *)
Lemma upd_length hs : forall i f, length (upd hs i f) = length hs.
Proof. induction hs as [|h t IH]; intros [|i] f; cbn; auto. Qed.
Lemma nth_upd_same hs : forall i f, nth_error (upd hs i f) i = option_map f (nth_error hs i).
Proof. induction hs as [|h t IH]; intros [|i] f; cbn; try reflexivity. apply IH. Qed.
Lemma nth_upd_other hs : forall i j f, i <> j -> nth_error (upd hs i f) j = nth_error hs j.
Proof.
  induction hs as [|h t IH]; intros [|i] [|j] f H; cbn; try reflexivity.
  - contradiction H; reflexivity.
  - apply IH. lia.
Qed.

(* ---------------------------------------------------------------- choices are active hosts *)
Lemma least_conn_active hs : forall k best i, least_conn hs k best = Some i ->
  (exists m, best = Some (i, m)) \/ (k <= i)%nat /\ exists h, nth_error hs (i - k) = Some h /\ h_active h = true.
Proof.
  induction hs as [|h t IH]; intros k best i H; cbn [least_conn] in H.
  - destruct best as [[j m]|]; [injection H as <-; left; eauto | discriminate].
  - destruct (h_active h) eqn:Ha.
    + assert (Hk : forall b', least_conn t (S k) b' = Some i -> b' = best \/ b' = Some (k, h_load h) ->
               (exists m, best = Some (i, m)) \/ (k <= i)%nat /\ exists h0, nth_error (h :: t) (i - k) = Some h0 /\ h_active h0 = true).
      { intros b' Hb' Hc. destruct (IH _ _ _ Hb') as [(m & Em)|(Hle & h0 & Hn & Hact)].
        - destruct Hc as [->| ->]; [left; eauto|]. injection Em as <- _. right. split; [lia|]. rewrite Nat.sub_diag. cbn. eauto.
        - right. split; [lia|]. replace (i - k)%nat with (S (i - S k)) by lia. cbn. eauto. }
      destruct best as [[j m]|]; [destruct (h_load h <? m)|]; eapply Hk; eauto.
    + destruct (IH _ _ _ H) as [?|(Hle & h0 & Hn & Hact)]; [left; assumption|].
      right. split; [lia|]. replace (i - k)%nat with (S (i - S k)) by lia. cbn. eauto.
Qed.

Lemma first_active_from_active hs : forall k from i, first_active_from hs k from = Some i ->
  (k <= i)%nat /\ exists h, nth_error hs (i - k) = Some h /\ h_active h = true.
Proof.
  induction hs as [|h t IH]; intros k from i H; cbn [first_active_from] in H; [discriminate|].
  destruct ((from <=? k)%nat && h_active h) eqn:E.
  - injection H as <-. apply andb_true_iff in E. destruct E as [_ E]. split; [lia|]. rewrite Nat.sub_diag. cbn. eauto.
  - destruct (IH _ _ _ H) as (Hle & h0 & Hn & Hact). split; [lia|]. replace (i - k)%nat with (S (i - S k)) by lia. cbn. eauto.
Qed.

Lemma hash_pick_active hs : forall hh base k best i, hash_pick hs hh base k best = Some i ->
  (exists m, best = Some (i, m)) \/ (k <= i)%nat /\ exists h, nth_error hs (i - k) = Some h /\ h_active h = true.
Proof.
  induction hs as [|h t IH]; intros hh base k best i H; cbn [hash_pick] in H.
  - destruct best as [[j m]|]; [injection H as <-; left; eauto | discriminate].
  - destruct hh as [|x xs]; [destruct best as [[j m]|]; [injection H as <-; left; eauto | discriminate]|].
    destruct (h_active h) eqn:Ha.
    + assert (Hk : forall b', hash_pick t xs base (S k) b' = Some i -> b' = best \/ b' = Some (k, Z.lxor base x) ->
               (exists m, best = Some (i, m)) \/ (k <= i)%nat /\ exists h0, nth_error (h :: t) (i - k) = Some h0 /\ h_active h0 = true).
      { intros b' Hb' Hc. destruct (IH _ _ _ _ _ Hb') as [(m & Em)|(Hle & h0 & Hn & Hact)].
        - destruct Hc as [->| ->]; [left; eauto|]. injection Em as <- _. right. split; [lia|]. rewrite Nat.sub_diag. cbn. eauto.
        - right. split; [lia|]. replace (i - k)%nat with (S (i - S k)) by lia. cbn. eauto. }
      destruct best as [[j m]|]; [destruct (m <=? Z.lxor base x)|]; eapply Hk; eauto.
    + destruct (IH _ _ _ _ _ H) as [?|(Hle & h0 & Hn & Hact)]; [left; assumption|].
      right. split; [lia|]. replace (i - k)%nat with (S (i - S k)) by lia. cbn. eauto.
Qed.

(* a request is dispatched only to a host currently considered available *)
Theorem choose_only_available b s hh base i : choose b s hh base = Some i -> active_at (hosts s) i = true.
Proof.
  unfold choose, active_at. destruct (hosts s) as [|h0 [|h1 t]] eqn:Hh.
  - destruct b; cbn; discriminate.
  - destruct (h_active h0) eqn:E; [|discriminate]. intro H; injection H as <-. cbn. exact E.
  - set (hs := h0 :: h1 :: t) in *. destruct b.
    + intro H. destruct (least_conn_active _ _ _ _ H) as [(m & Em)|(_ & h & Hn & Ha)]; [discriminate|]. rewrite Nat.sub_0_r in Hn. rewrite Hn. exact Ha.
    + unfold round_robin. intro H.
      destruct (first_active_from hs 0 (Z.to_nat (Z.max 0 (last_used s + 1)))) eqn:E1.
      * injection H as <-. destruct (first_active_from_active _ _ _ _ E1) as (_ & h & Hn & Ha). rewrite Nat.sub_0_r in Hn. rewrite Hn. exact Ha.
      * destruct (first_active_from_active _ _ _ _ H) as (_ & h & Hn & Ha). rewrite Nat.sub_0_r in Hn. rewrite Hn. exact Ha.
    + intro H. destruct (hash_pick_active _ _ _ _ _ _ H) as [(m & Em)|(_ & h & Hn & Ha)]; [discriminate|]. rewrite Nat.sub_0_r in Hn. rewrite Hn. exact Ha.
Qed.

(* ---------------------------------------------------------------- load accounting *)
Definition cnt (l : list (nat * nat * nat)) (i : nat) : Z := Z.of_nat (length (filter (fun x => Nat.eqb (snd (fst x)) i) l)).

Definition Inv (s : state) : Prop :=
  NoDup (map (fun x => fst (fst x)) (inflight s)) /\
  (forall i h, nth_error (hosts s) i = Some h -> h_load h = cnt (inflight s) i) /\
  (forall id i a, In (id, i, a) (inflight s) -> (i < length (hosts s))%nat).

Lemma Inv_init n : Inv (init n).
Proof.
  split; [constructor|]. split; [|intros ? ? ? []].
  intros i h H. cbn in H. apply nth_error_In in H. apply repeat_spec in H. subst. reflexivity.
Qed.

Lemma find_req_in l id i a : find_req l id = Some (i, a) -> In (id, i, a) l.
Proof.
  induction l as [|[[j h] b] t IH]; cbn; [discriminate|]. destruct (Nat.eqb_spec j id).
  - intro H; injection H as <- <-. subst. left; reflexivity.
  - intro H. right. apply IH. exact H.
Qed.
Lemma find_req_none l id : find_req l id = None -> ~ In id (map (fun x => fst (fst x)) l).
Proof.
  induction l as [|[[j h] b] t IH]; cbn; [auto|]. destruct (Nat.eqb_spec j id); [discriminate|].
  intros H [E|Hin]; [contradiction | exact (IH H Hin)].
Qed.

Lemma cnt_remove l : forall id i a j, NoDup (map (fun x => fst (fst x)) l) -> In (id, i, a) l ->
  cnt (remove_req l id) j = cnt l j - (if Nat.eqb i j then 1 else 0).
Proof.
  induction l as [|[[id' i'] a'] t IH]; intros id i a j Hnd Hin; [contradiction|].
  cbn [map] in Hnd. inversion Hnd as [|? ? Hnot Hnd']; subst. unfold cnt, remove_req in *. cbn [filter fst snd].
  destruct Hin as [E|Hin].
  - injection E as -> -> ->. rewrite Nat.eqb_refl. cbn [negb].
    assert (Hsame : filter (fun x => negb (Nat.eqb (fst (fst x)) id)) t = t).
    { apply forallb_filter_id || (clear - Hnot; induction t as [|[[q w] e] t IH]; cbn; [reflexivity|]; cbn in Hnot;
        destruct (Nat.eqb_spec q id); [exfalso; apply Hnot; left; assumption|]; cbn; f_equal; apply IH; intro; apply Hnot; right; assumption). }
    rewrite Hsame. destruct (Nat.eqb i j); cbn [length]; lia.
  - assert (id' <> id) by (intro; subst; apply Hnot; apply in_map_iff; exists (id, i, a); auto).
    destruct (Nat.eqb_spec id' id); [contradiction|]. cbn [negb filter fst snd].
    specialize (IH id i a j Hnd' Hin).
    destruct (Nat.eqb i' j); cbn [length]; lia.
Qed.

Lemma remove_req_nodup l id : NoDup (map (fun x => fst (fst x)) l) -> NoDup (map (fun x => fst (fst x)) (remove_req l id)).
Proof.
  induction l as [|x t IH]; cbn; intro H; [constructor|]. inversion H; subst.
  destruct (negb (Nat.eqb (fst (fst x)) id)); [|apply IH; assumption].
  cbn. constructor; [|apply IH; assumption]. intro Hin. apply H2. unfold remove_req in Hin. apply in_map_iff in Hin.
  destruct Hin as (y & Hy & Hf). apply filter_In in Hf. apply in_map_iff. exists y. tauto.
Qed.
Lemma remove_req_in l id x : In x (remove_req l id) -> In x l.
Proof. unfold remove_req. intro H. apply filter_In in H. tauto. Qed.
Lemma remove_req_notin l id : ~ In id (map (fun x => fst (fst x)) (remove_req l id)).
Proof.
  intro H. apply in_map_iff in H. destruct H as (x & Hx & Hin). unfold remove_req in Hin. apply filter_In in Hin.
  destruct Hin as [_ Hf]. rewrite Hx, Nat.eqb_refl in Hf. discriminate.
Qed.

Section Pool.
Variable bal : balance. Variable hh : list Z. Variable dt : Z.

Lemma assign_Inv s id base a o s' : Inv s -> ~ In id (map (fun x => fst (fst x)) (inflight s)) ->
  assign bal hh s id base a = (o, s') -> Inv s'.
Proof.
  intros (Hnd & Hl & Hb) Hfresh. unfold assign.
  destruct (choose bal s hh base) as [i|] eqn:Hc; intro H; injection H as <- <-; [|split; [|split]; assumption].
  pose proof (choose_only_available _ _ _ _ _ Hc) as Hact. unfold active_at in Hact.
  destruct (nth_error (hosts s) i) as [hi|] eqn:Hi; [|discriminate].
  split; [|split]; cbn [hosts inflight map fst].
  - constructor; assumption.
  - intros j h Hj. unfold cnt. cbn [filter fst snd].
    destruct (Nat.eq_dec i j) as [<-|Hne].
    + rewrite nth_upd_same, Hi in Hj. cbn in Hj. injection Hj as <-. rewrite Nat.eqb_refl. cbn [h_load inc length].
      rewrite (Hl _ _ Hi). unfold cnt. lia.
    + rewrite nth_upd_other in Hj by exact Hne. destruct (Nat.eqb_spec i j); [contradiction|]. apply Hl. exact Hj.
  - intros id0 i0 a0 [E|Hin]; rewrite upd_length.
    + injection E as _ <- _. apply nth_error_Some. rewrite Hi. discriminate.
    + eapply Hb. exact Hin.
Qed.

Lemma dec_Inv s id i a hs' : Inv s -> find_req (inflight s) id = Some (i, a) ->
  (forall j, nth_error hs' j = option_map (fun h => {| h_load := h_load h - (if Nat.eqb i j then 1 else 0); h_active := h_active (match nth_error hs' j with Some x => x | None => h end);
                                                       h_disabled_until := h_disabled_until (match nth_error hs' j with Some x => x | None => h end) |}) (nth_error (hosts s) j)) ->
  length hs' = length (hosts s) ->
  Inv {| hosts := hs'; last_used := last_used s; now := now s; inflight := remove_req (inflight s) id |}.
Proof.
  intros (Hnd & Hl & Hb) Hf Hh Hlen. apply find_req_in in Hf.
  split; [|split]; cbn [hosts inflight].
  - apply remove_req_nodup. exact Hnd.
  - intros j h Hj. rewrite Hh in Hj. destruct (nth_error (hosts s) j) as [h0|] eqn:E; [|discriminate]. cbn in Hj. injection Hj as <-. cbn [h_load].
    rewrite (cnt_remove _ _ _ _ j Hnd Hf). rewrite (Hl _ _ E). destruct (Nat.eqb i j); lia.
  - intros id0 i0 a0 Hin. rewrite Hlen. eapply Hb. eapply remove_req_in. exact Hin.
Qed.

(* every reachable state: each host's load figure equals the number of requests in flight on it *)
Theorem step_Inv s e : Inv s -> Inv (snd (step bal hh dt s e)).
Proof.
  intros HI. destruct e as [id base|id base|id|]; cbn [step].
  - destruct (find_req (inflight s) id) eqn:Hf; [exact HI|].
    destruct (assign bal hh s id base 1) as [o s'] eqn:Ha. cbn. eapply assign_Inv; [exact HI | apply find_req_none; exact Hf | exact Ha].
  - destruct (find_req (inflight s) id) as [[i a]|] eqn:Hf; [|exact HI].
    set (s1 := {| hosts := upd (upd (hosts s) i dec) i (disable (now s + dt)); last_used := last_used s; now := now s; inflight := remove_req (inflight s) id |}).
    assert (H1 : Inv s1).
    { apply (dec_Inv s id i a); [exact HI | exact Hf | | rewrite !upd_length; reflexivity].
      intro j. destruct (Nat.eq_dec i j) as [<-|Hne].
      - rewrite !nth_upd_same. rewrite Nat.eqb_refl. destruct (nth_error (hosts s) i); cbn; reflexivity.
      - rewrite !nth_upd_other by exact Hne. destruct (Nat.eqb_spec i j); [contradiction|]. destruct (nth_error (hosts s) j) as [h|]; cbn; [|reflexivity].
        f_equal. destruct h; cbn. f_equal. lia. }
    destruct (a <=? MAX_RETRIES)%nat; [|exact H1].
    destruct (assign bal hh s1 id base (S a)) as [o s'] eqn:Ha. cbn. eapply assign_Inv; [exact H1 | apply remove_req_notin | exact Ha].
  - destruct (find_req (inflight s) id) as [[i a]|] eqn:Hf; [|exact HI]. cbn [snd].
    apply (dec_Inv s id i a); [exact HI | exact Hf | | rewrite upd_length; reflexivity].
    intro j. destruct (Nat.eq_dec i j) as [<-|Hne].
    + rewrite nth_upd_same. rewrite Nat.eqb_refl. destruct (nth_error (hosts s) i); cbn; reflexivity.
    + rewrite nth_upd_other by exact Hne. destruct (Nat.eqb_spec i j); [contradiction|]. destruct (nth_error (hosts s) j) as [h|]; cbn; [|reflexivity].
      f_equal. destruct h; cbn. f_equal. lia.
  - destruct HI as (Hnd & Hl & Hb). cbn [snd]. split; [|split]; cbn [hosts inflight]; [exact Hnd | | intros; rewrite map_length; eapply Hb; eassumption].
    intros i h Hi. rewrite nth_error_map in Hi. destruct (nth_error (hosts s) i) as [h0|] eqn:E; [|discriminate]. cbn in Hi. injection Hi as <-.
    rewrite <- (Hl _ _ E). unfold enable_if_due. destruct (negb (h_active h0) && (h_disabled_until h0 <? now s + 1)); reflexivity.
Qed.

Theorem run_Inv es : forall s, Inv s -> Inv (snd (run bal hh dt s es)).
Proof.
  induction es as [|e t IH]; intros s HI; cbn [run]; [exact HI|].
  pose proof (step_Inv s e HI) as H1. destruct (step bal hh dt s e) as [o s1]. cbn in H1.
  specialize (IH s1 H1). destruct (run bal hh dt s1 t) as [os s2]. exact IH.
Qed.

(* load figures: never negative, zero when nothing is in flight *)
Corollary loads_nonnegative_and_zero_when_idle es n :
  let s := snd (run bal hh dt (init n) es) in
  (forall i h, nth_error (hosts s) i = Some h -> 0 <= h_load h) /\
  (inflight s = [] -> forall i h, nth_error (hosts s) i = Some h -> h_load h = 0).
Proof.
  cbv zeta. pose proof (run_Inv es (init n) (Inv_init n)) as (_ & Hl & _).
  split; intros; [rewrite (Hl _ _ H); unfold cnt; lia|]. rewrite (Hl _ _ H0), H. reflexivity.
Qed.

(* a dispatch, first or retried, only ever goes to a host that is available at that moment *)
Theorem dispatch_only_to_available s id base a i s' :
  assign bal hh s id base a = (Dispatched i, s') -> active_at (hosts s) i = true.
Proof.
  unfold assign. destruct (choose bal s hh base) as [j|] eqn:Hc; intro H; [|discriminate].
  injection H as <- _. eapply choose_only_available. exact Hc.
Qed.

(* a disabled host is not chosen before its disable-time is over, and is available again afterwards *)
Theorem disabled_host_sits_out h t : h_active h = false -> t <= h_disabled_until h -> h_active (enable_if_due t h) = false.
Proof. intros Ha Ht. unfold enable_if_due. rewrite Ha. cbn. destruct (Z.ltb_spec (h_disabled_until h) t); [lia | exact Ha]. Qed.
Theorem disabled_host_returns h t : h_disabled_until h < t -> h_active (enable_if_due t h) = true.
Proof. intro Ht. unfold enable_if_due. destruct (h_active h) eqn:Ha; cbn; [exact Ha|]. destruct (Z.ltb_spec (h_disabled_until h) t); [reflexivity | lia]. Qed.
End Pool.
