(* Gw/GwProofs.v -- C10: record layer round trip for every padding, truncation is never completion. *)
From Coq Require Import List NArith Bool Lia.
From LV Require Import Base.Bytes Resp.RespModel Resp.RespProofs Gw.GwModel.
Import ListNotations.
Local Open Scope N_scope.

Lemma split16 n : n < 65536 -> n / 256 * 256 + n mod 256 = n.
Proof. intros _. rewrite N.mul_comm. symmetry. apply N.div_mod. discriminate. Qed.

Definition fnext (r : frec) (f : nat) (rest out : list N) : fres :=
  if f_type r =? FCGI_STDOUT then fdecode f rest (out ++ f_content r)
  else if f_type r =? FCGI_END_REQUEST then FDone out
  else fdecode f rest out.

Lemma fdecode_rec r f rest out : wf_rec r -> fdecode (S f) (fenc r ++ rest) out = fnext r f rest out.
Proof.
  intros (Hc & Hp & _ & _). unfold fenc, fnext. cbn [app fdecode].
  rewrite split16 by exact Hc.
  rewrite <- app_assoc, !app_length.
  destruct (N.ltb_spec (N.of_nat (length (f_content r) + (length (f_pad r) + length rest)))
                       (N.of_nat (length (f_content r)) + N.of_nat (length (f_pad r)))) as [Hlt|_]; [lia|].
  rewrite Nat2N.id.
  rewrite firstn_app, firstn_all, Nat.sub_diag. cbn [firstn]. rewrite app_nil_r.
  replace (N.to_nat (N.of_nat (length (f_content r)) + N.of_nat (length (f_pad r)))) with (length (f_content r) + length (f_pad r))%nat by lia.
  rewrite skipn_app. rewrite skipn_all2 by lia.
  replace (length (f_content r) + length (f_pad r) - length (f_content r))%nat with (length (f_pad r)) by lia.
  rewrite skipn_app, skipn_all, Nat.sub_diag. cbn [app skipn]. reflexivity.
Qed.

Definition is_end (r : frec) : bool := f_type r =? FCGI_END_REQUEST.

(* any records, any padding, anything after END_REQUEST: the content delivered is exactly the STDOUT content *)
Theorem fcgi_roundtrip rs : forall e tail out f,
  Forall wf_rec rs -> Forall (fun r => is_end r = false) rs -> wf_rec e -> is_end e = true ->
  (length rs < f)%nat ->
  fdecode f (concat (map fenc rs) ++ fenc e ++ tail) out = FDone (out ++ stdout_of rs).
Proof.
  induction rs as [|r rs IH]; intros e tail out f Hw Hn He Hee Hf.
  - destruct f as [|f]; [cbn in Hf; lia|]. cbn [map concat app]. rewrite fdecode_rec by exact He.
    unfold fnext. unfold is_end in Hee. rewrite Hee.
    destruct (N.eqb_spec (f_type e) FCGI_STDOUT) as [E|_]; [apply N.eqb_eq in Hee; rewrite E in Hee; discriminate|].
    unfold stdout_of. cbn. rewrite app_nil_r. reflexivity.
  - destruct f as [|f]; [cbn in Hf; lia|].
    inversion Hw; subst. inversion Hn as [|? ? Hr Hn']; subst.
    cbn [map concat]. rewrite <- app_assoc. rewrite fdecode_rec by assumption. unfold fnext.
    unfold is_end in Hr. rewrite Hr. unfold stdout_of. cbn [map concat]. fold (stdout_of rs).
    destruct (f_type r =? FCGI_STDOUT).
    + rewrite IH by (assumption || (cbn in Hf; lia)). rewrite <- app_assoc. reflexivity.
    + rewrite IH by (assumption || (cbn in Hf; lia)). reflexivity.
Qed.

(* a record cut anywhere before its last byte yields nothing *)
Lemma fdecode_partial r p a2 f out : wf_rec r -> fenc r = p ++ a2 -> a2 <> [] -> fdecode f p out = FMore out.
Proof.
  intros (Hc & Hp & _ & _) He Ha. destruct f as [|f]; [reflexivity|].
  unfold fenc in He.
  do 8 (destruct p as [|? p]; [reflexivity|]).
  cbn [app] in He. injection He as <- <- <- <- <- <- <- <- He.
  cbn [fdecode]. rewrite split16 by exact Hc.
  assert (Hl : (length p + length a2 = length (f_content r) + length (f_pad r))%nat).
  { apply (f_equal (@length N)) in He. rewrite !app_length in He. lia. }
  assert (length a2 <> 0)%nat by (destruct a2; [contradiction | cbn; lia]).
  destruct (N.ltb_spec (N.of_nat (length p)) (N.of_nat (length (f_content r)) + N.of_nat (length (f_pad r)))); [reflexivity | lia].
Qed.

(* a backend stream cut anywhere before the last byte of END_REQUEST is never a finished response,
   whatever records and padding it consists of *)
Theorem fcgi_truncated_never_done rs : forall e p q out f,
  Forall wf_rec rs -> Forall (fun r => is_end r = false) rs -> wf_rec e ->
  concat (map fenc rs) ++ fenc e = p ++ q -> q <> [] ->
  exists o, fdecode f p out = FMore o.
Proof.
  induction rs as [|r rs IH]; intros e p q out f Hw Hn He Heq Hq.
  - cbn [map concat app] in Heq. exists out. eapply fdecode_partial; eauto.
  - inversion Hw; subst. inversion Hn as [|? ? Hr Hn']; subst.
    cbn [map concat] in Heq. rewrite <- app_assoc in Heq.
    apply app_eq_app in Heq. destruct Heq as (l & [[Hx1 Hx2] | [Hx1 Hx2]]).
    + (* fenc r = p ++ l *)
      destruct l as [|x l].
      * rewrite app_nil_r in Hx1. subst p. cbn [app] in Hx2. subst q.
        destruct f as [|f]; [exists out; reflexivity|].
        rewrite <- (app_nil_r (fenc r)). rewrite fdecode_rec by assumption. unfold fnext. unfold is_end in Hr. rewrite Hr.
        destruct (f_type r =? FCGI_STDOUT); (destruct f as [|f]; [eexists; reflexivity | eexists; reflexivity]).
      * exists out. eapply fdecode_partial; [eassumption | exact Hx1 | discriminate].
    + (* p = fenc r ++ l *)
      subst p. destruct f as [|f]; [exists out; reflexivity|].
      rewrite fdecode_rec by assumption. unfold fnext. unfold is_end in Hr. rewrite Hr.
      destruct (f_type r =? FCGI_STDOUT); eapply (IH e); eauto.
Qed.

(* ---------------------------------------------------------------- HTTP-style bodies *)
Theorem short_content_length_is_broken n stream : N.of_nat (length stream) < n -> body_verdict (BLen n) stream = Broken.
Proof. intro H. unfold body_verdict. destruct (N.ltb_spec (N.of_nat (length stream)) n); [reflexivity | lia]. Qed.

Theorem content_length_body_exact n body excess : N.of_nat (length body) = n ->
  body_verdict (BLen n) (body ++ excess) = Complete body.
Proof.
  intro H. unfold body_verdict. rewrite app_length.
  destruct (N.ltb_spec (N.of_nat (length body + length excess)) n); [lia|].
  rewrite <- H, Nat2N.id, firstn_app, firstn_all, Nat.sub_diag. cbn [firstn]. rewrite app_nil_r. reflexivity.
Qed.

Lemma chunks_length later : Forall (fun b : list N => b <> []) later ->
  (4 * length later <= length (concat (map (chunk_with hexmin) later)))%nat.
Proof.
  induction 1 as [|b l Hb _ IH]; cbn [map concat length]; [lia|].
  rewrite app_length. destruct b as [|c b']; [contradiction|].
  change (chunk_with hexmin (c :: b')) with (hexmin (N.of_nat (length (c :: b'))) ++ [CR; LF] ++ (c :: b') ++ [CR; LF]).
  set (hx := hexmin (N.of_nat (length (c :: b')))).
  assert (0 < length hx)%nat.
  { unfold hx, hexmin. rewrite map_length. pose proof (digs_nonempty 15 (N.of_nat (length (c :: b')))). destruct (digs 16 _); [contradiction | cbn; lia]. }
  rewrite !app_length. cbn [length]. lia.
Qed.

Theorem chunked_body_exact first later :
  small (N.of_nat (length first)) -> Forall (fun b => small (N.of_nat (length b))) later -> Forall (fun b => b <> []) later ->
  body_verdict BChunked (chunk_encode first later) = Complete (first ++ concat later).
Proof.
  intros Hf Hl Hne. unfold body_verdict.
  pose proof (chunked_roundtrip_fuel (S (length (chunk_encode first later))) first later [] Hf Hl) as H.
  rewrite app_nil_r in H. rewrite H; [reflexivity|].
  unfold chunk_encode. rewrite !app_length. unfold last_chunk. cbn [length].
  pose proof (chunks_length later Hne). lia.
Qed.
