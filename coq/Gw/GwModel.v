(* Gw/GwModel.v -- backend response side (C10):
     * the FastCGI record layer as mod_fastcgi.c reads it (fastcgi_get_packet, fcgi_recv_parse_loop): which bytes of a
       backend stream are response content, when the response is complete, when more data is needed;
     * the delimiting of a backend's HTTP-style body (Content-Length / chunked / EOF) and the verdict lighttpd may give
       the client: complete, or -- for a stream that is truncated or malformed -- never "complete".
   The client-side framing is Resp/RespModel.v (C04).  Byte streams are whole: the C code's incremental reading is tied to
   this whole-stream reading by the correspondence runs, which cut every stream into random and boundary-aimed segments. *)
From Coq Require Import List NArith Bool Lia.
From LV Require Import Base.Bytes Resp.RespModel.
Import ListNotations.
Local Open Scope N_scope.

Definition FCGI_END_REQUEST : N := 3.  Definition FCGI_STDOUT : N := 6.  Definition FCGI_STDERR : N := 7.

Record frec := { f_type : N; f_id : N; f_content : list N; f_pad : list N }.

Definition fenc (r : frec) : list N :=
  let cl := N.of_nat (length (f_content r)) in
  [1; f_type r; f_id r / 256; f_id r mod 256; cl / 256; cl mod 256; N.of_nat (length (f_pad r)); 0]
  ++ f_content r ++ f_pad r.

Inductive fres :=
| FMore (out : list N)          (* no complete record at the front: wait for more data (or EOF = backend died) *)
| FDone (out : list N).         (* FCGI_END_REQUEST seen *)

(* one pass of fcgi_recv_parse_loop over everything received so far; out = STDOUT content so far *)
Fixpoint fdecode (fuel : nat) (s out : list N) : fres :=
  match fuel with
  | O => FMore out
  | S f =>
    match s with
    | _ :: typ :: _ :: _ :: c1 :: c0 :: pl :: _ :: rest =>
        let clen := c1 * 256 + c0 in
        if N.of_nat (length rest) <? clen + pl then FMore out
        else
          let content := firstn (N.to_nat clen) rest in
          let rest' := skipn (N.to_nat (clen + pl)) rest in
          if typ =? FCGI_STDOUT then fdecode f rest' (out ++ content)
          else if typ =? FCGI_END_REQUEST then FDone out
          else fdecode f rest' out
    | _ => FMore out
    end
  end.

Definition stdout_of (rs : list frec) : list N :=
  concat (map (fun r => if f_type r =? FCGI_STDOUT then f_content r else []) rs).

Definition wf_rec (r : frec) : Prop :=
  N.of_nat (length (f_content r)) < 65536 /\ N.of_nat (length (f_pad r)) < 256 /\ f_type r < 256 /\ f_id r < 65536.

(* ---------------------------------------------------------------- body delimiting of an HTTP-style backend response *)
Inductive bframe := BLen (n : N) | BChunked | BEof.
Inductive verdict :=
| Complete (body : list N)
| Broken.                       (* must not be presented as a complete successful response *)

(* what the whole body stream of the backend (after its header block), ended by EOF, amounts to *)
Definition body_verdict (fr : bframe) (stream : list N) : verdict :=
  match fr with
  | BLen n => if N.of_nat (length stream) <? n then Broken else Complete (firstn (N.to_nat n) stream)
  | BChunked => match dechunk (S (length stream)) stream [] with
                | Some (b, _) => Complete b
                | None => Broken
                end
  | BEof => Complete stream
  end.
