(* Resp/RespModel.v -- HTTP/1.x response framing (C04):
     * what http_response_write_prepare() decides (Content-Length / chunked / close; bodies dropped for HEAD, 204, 205, 304),
     * the chunk framing written by http_response_write_prepare (first segment), http_chunk_append_* and http_chunk_close,
     * what an RFC 9112 client makes of the result: message-body length rules (section 6.3) and a strict dechunker.
   Bytes of the header block other than Content-Length / Transfer-Encoding / Connection are not modelled here. *)
From Coq Require Import List NArith Bool Lia.
From LV Require Import Base.Bytes.
Import ListNotations.
Local Open Scope N_scope.

Definition CR : N := 13.  Definition LF : N := 10.
Definition hexlc (v : N) : N := if v <? 10 then 48 + v else 87 + v.
Definition hexval (c : N) : option N :=
  if (48 <=? c) && (c <=? 57) then Some (c - 48)
  else if (97 <=? c) && (c <=? 102) then Some (c - 87)
  else if (65 <=? c) && (c <=? 70) then Some (c - 55)
  else None.

(* ---------------------------------------------------------------- chunk-size *)
(* digits of n, most significant first (http_chunk_len_append: do { ... } while (len >>= 4)) *)
Fixpoint digs (fuel : nat) (n : N) : list N :=
  match fuel with
  | O => []
  | S f => if n <? 16 then [n] else digs f (n / 16) ++ [n mod 16]
  end.
Definition hexmin (n : N) : list N := map hexlc (digs 16 n).
(* buffer_append_uint_hex: whole bytes (used for the first segment in http_response_write_prepare) *)
Definition hexbytes (n : N) : list N :=
  let d := digs 16 n in map hexlc (if Nat.odd (length d) then 0 :: d else d).

Definition step16 (a d : N) : N := a * 16 + d.
Definition val (ds : list N) : N := fold_left step16 ds 0.

Fixpoint span_hex (s : list N) : list N * list N :=
  match s with
  | c :: t => match hexval c with
              | Some v => let '(ds, r) := span_hex t in (v :: ds, r)
              | None => ([], s)
              end
  | [] => ([], [])
  end.

(* ---------------------------------------------------------------- chunked coding *)
Definition chunk_with (hex : N -> list N) (b : list N) : list N :=
  match b with
  | [] => []                                           (* nothing is written for an empty block *)
  | _ => hex (N.of_nat (length b)) ++ [CR; LF] ++ b ++ [CR; LF]
  end.
Definition last_chunk : list N := [48; CR; LF; CR; LF].     (* http_chunk_close: "0\r\n\r\n" *)
Definition chunk_encode (first : list N) (later : list (list N)) : list N :=
  chunk_with hexbytes first ++ concat (map (chunk_with hexmin) later) ++ last_chunk.

(* strict RFC 9112 section 7.1 reader (no chunk extensions, no trailers) *)
Fixpoint dechunk (fuel : nat) (s acc : list N) : option (list N * list N) :=
  match fuel with
  | O => None
  | S f =>
    let '(ds, r) := span_hex s in
    match ds with
    | [] => None
    | _ =>
      let n := val ds in
      match r with
      | 13 :: 10 :: r1 =>
          if n =? 0 then
            match r1 with 13 :: 10 :: r2 => Some (acc, r2) | _ => None end
          else if N.of_nat (length r1) <? n + 2 then None
          else match skipn (N.to_nat n) r1 with
               | 13 :: 10 :: r2 => dechunk f r2 (acc ++ firstn (N.to_nat n) r1)
               | _ => None
               end
      | _ => None
      end
    end
  end.

(* ---------------------------------------------------------------- the framing decision *)
Record meta := {
  status : N;
  head : bool;              (* request method is HEAD *)
  connect : bool;           (* request method is CONNECT *)
  ver11 : bool;             (* HTTP/1.1 (else 1.0) *)
  h_cl : option N;          (* Content-Length set by the handler *)
  h_te : bool;              (* Transfer-Encoding set by the handler *)
  h_upg : bool;             (* Upgrade set by the handler *)
  keep : bool;              (* r->keep_alive > 0 when headers are prepared *)
  finished : bool           (* r->resp_body_finished when headers are prepared *)
}.

Record wire := {
  w_cl : option N;          (* Content-Length as sent *)
  w_te : bool;              (* Transfer-Encoding: chunked as sent *)
  w_keep : bool;            (* connection kept open afterwards *)
  w_body : list N           (* every byte after the header block *)
}.

Definition total (l : list (list N)) : N := N.of_nat (length (concat l)).
Definition nobody_status (st : N) : bool := (st =? 204) || (st =? 205) || (st =? 304).

(* now: data in r->write_queue when http_response_write_prepare runs; later: data appended afterwards (only if not finished) *)
Definition server_emit (m : meta) (now later : list (list N)) : wire :=
  let drop := nobody_status (status m) in
  let cl1 := if (status m =? 204) || (status m =? 205) then None else h_cl m in
  let now1 := if drop then [] else now in
  let fin := finished m || drop in
  let later1 := if fin then [] else later in
  let qlen := total now1 in
  if fin then
    let cl2 := match cl1 with
               | Some n => Some n
               | None => if h_te m then None
                         else if 0 <? qlen then Some qlen
                         else if negb (head m) && negb (status m =? 204) && negb (status m =? 304) then Some 0 else None
               end in
    {| w_cl := cl2; w_te := h_te m; w_keep := keep m; w_body := if head m then [] else concat now1 |}
  else
    match cl1 with
    | Some n => {| w_cl := Some n; w_te := h_te m; w_keep := keep m; w_body := if head m then [] else concat (now1 ++ later1) |}
    | None =>
        if h_te m || h_upg m || (connect m && (status m =? 200))
        then {| w_cl := None; w_te := h_te m; w_keep := keep m; w_body := if head m then [] else concat (now1 ++ later1) |}
        else if ver11 m
        then {| w_cl := None; w_te := true; w_keep := keep m;
                w_body := if head m then [] else chunk_encode (concat now1) later1 |}
        else {| w_cl := None; w_te := false; w_keep := false; w_body := if head m then [] else concat (now1 ++ later1) |}
    end.

(* RFC 9112 section 6.3: how the recipient determines the body *)
Inductive frame := NoBody | Len (n : N) | Chunked | UntilClose.
Definition rfc_frame (m : meta) (w : wire) : frame :=
  if head m || (status m <? 200) || (status m =? 204) || (status m =? 304) then NoBody
  else if w_te w then Chunked
  else match w_cl w with Some n => Len n | None => UntilClose end.
