(* C04: request-derived data cannot introduce CR, LF or any other control byte into a header built from the request path. *)
From Coq Require Import List NArith ZArith Bool Lia.
From LV Require Import Base.Bytes Gen.GenBurl Gen.GenEnc Url.UrlModel Resp.EncModel.
Import ListNotations.
Local Open Scope N_scope.

Definition byte (c : N) : Prop := c < 256.
(* a byte that may stand in a header value without ending the line or the header section: visible ASCII *)
Definition plain (c : N) : bool := (33 <=? c) && (c <=? 126).

Fixpoint all_bytes (n : nat) (f : N -> bool) : bool := match n with O => true | S k => f (N.of_nat k) && all_bytes k f end.
Lemma all_bytes_spec n f : all_bytes n f = true -> forall c, c < N.of_nat n -> f c = true.
Proof.
  induction n as [|k IH]; intros H c Hc; [lia|]. cbn [all_bytes] in H. apply andb_true_iff in H as [H1 H2].
  destruct (N.eq_dec c (N.of_nat k)) as [->|Hne]; [exact H1|]. apply IH; [exact H2|lia].
Qed.

(* every byte, escaped or not, comes out as visible ASCII: the table escapes everything that is not *)
Lemma enc_byte_plain_all : all_bytes 256 (fun c => forallb plain (enc_byte c)) = true.
Proof. vm_compute. reflexivity. Qed.

Theorem enc_rel_uri_is_visible_ascii s : Forall byte s -> forallb plain (enc_rel_uri s) = true.
Proof.
  induction s as [|c s IH]; intros H; [reflexivity|]. apply Forall_cons_iff in H as [Hc Hs].
  unfold enc_rel_uri. cbn [flat_map]. rewrite forallb_app. fold (enc_rel_uri s). rewrite (IH Hs), andb_true_r.
  exact (all_bytes_spec 256 _ enc_byte_plain_all c Hc).
Qed.

(* ... so no CR, LF, NUL, space or DEL, whatever the path *)
Corollary enc_rel_uri_has_no_line_break s : Forall byte s -> ~ In 13 (enc_rel_uri s) /\ ~ In 10 (enc_rel_uri s) /\ ~ In 0 (enc_rel_uri s).
Proof.
  intros H. pose proof (enc_rel_uri_is_visible_ascii s H) as P. rewrite forallb_forall in P.
  repeat split; intros Hin; apply P in Hin; discriminate.
Qed.

(* the escape is faithful: decoding the value gives back the path (for the paths the request parser produces: no control bytes) *)
Lemma nibble_rt_all : all_bytes 16 (fun n => match hexval (hexuc n) with Some v => (v =? n) && negb (hexuc n =? 0) | None => false end) = true.
Proof. vm_compute. reflexivity. Qed.
Lemma unescaped_all : all_bytes 256 (fun c => must_escape c || (negb (c =? 37) && negb (c =? 0))) = true.
Proof. vm_compute. reflexivity. Qed.

Lemma enc_byte_decodes c rest : byte c -> 32 <= c -> c <> 127 -> udec_loop (enc_byte c ++ rest) = c :: udec_loop rest.
Proof.
  intros Hb H32 H127. unfold enc_byte. pose proof (all_bytes_spec 256 _ unescaped_all c Hb) as U. cbv beta in U.
  destruct (must_escape c) eqn:E.
  - cbn [app udec_loop]. change (37 =? 0) with false. change (37 =? pct) with true. cbn iota.
    assert (Hhi : c / 16 < 16) by (unfold byte in Hb; apply N.div_lt_upper_bound; lia).
    assert (Hlo : c mod 16 < 16) by (apply N.mod_lt; lia).
    pose proof (all_bytes_spec 16 _ nibble_rt_all (c / 16) Hhi) as A. pose proof (all_bytes_spec 16 _ nibble_rt_all (c mod 16) Hlo) as B. cbv beta in A, B.
    destruct (hexval (hexuc (c / 16))) as [hi|] eqn:Eh; [|discriminate]. destruct (hexval (hexuc (c mod 16))) as [lo|] eqn:El; [|discriminate].
    apply andb_true_iff in A as [A1 A2]. apply andb_true_iff in B as [B1 _]. apply N.eqb_eq in A1, B1. apply negb_true_iff in A2. rewrite A2.
    subst hi lo. f_equal. unfold dec_ctl.
    assert (Ed : c / 16 * 16 + c mod 16 = c) by (rewrite N.mul_comm; symmetry; apply N.div_mod; lia). rewrite Ed.
    destruct (32 <=? c) eqn:E1; [|apply N.leb_gt in E1; lia]. destruct (c =? 127) eqn:E2; [apply N.eqb_eq in E2; contradiction|]. reflexivity.
  - cbn [orb] in U. apply andb_true_iff in U as [U1 U2]. apply negb_true_iff in U1, U2. cbn [app udec_loop]. rewrite U2. unfold pct. rewrite U1. reflexivity.
Qed.

Theorem enc_rel_uri_decodes_to_the_path s : Forall (fun c => byte c /\ 32 <= c /\ c <> 127) s -> udec_loop (enc_rel_uri s) = s.
Proof.
  induction s as [|c s IH]; intros H; [reflexivity|]. apply Forall_cons_iff in H as [[Hb [H1 H2]] Hs].
  unfold enc_rel_uri. cbn [flat_map]. fold (enc_rel_uri s). rewrite enc_byte_decodes by assumption. rewrite (IH Hs). reflexivity.
Qed.

(* the Location of a directory redirect: no byte of it can end the header line, if scheme, authority and query are themselves free of
   CR / LF / NUL (they are one-line pieces of the request head that the request parser accepted) *)
Definition no_break (s : list N) : Prop := ~ In 13 s /\ ~ In 10 s /\ ~ In 0 s.
Theorem dir_redirect_location_has_no_line_break absolute scheme authority path query :
  Forall byte path -> no_break scheme -> no_break authority -> no_break query ->
  no_break (dir_redirect_location absolute scheme authority path query).
Proof.
  intros Hp [S1 [S2 S3]] [A1 [A2 A3]] [Q1 [Q2 Q3]]. destruct (enc_rel_uri_has_no_line_break path Hp) as [P1 [P2 P3]].
  unfold dir_redirect_location, no_break.
  assert (G : forall x, (x = 13 \/ x = 10 \/ x = 0) -> ~ In x scheme -> ~ In x authority -> ~ In x (enc_rel_uri path) -> ~ In x query ->
              ~ In x ((if absolute then scheme ++ [58; 47; 47] ++ authority else []) ++ enc_rel_uri path ++ [47] ++ match query with [] => [] | _ :: _ => 63 :: query end)).
  { intros x Hx Hs Ha Hpp Hq Hin. rewrite !in_app_iff in Hin. destruct Hin as [Hin|[Hin|[Hin|Hin]]].
    - destruct absolute; [|exact Hin]. rewrite !in_app_iff in Hin. destruct Hin as [Hin|[Hin|Hin]]; [tauto| |tauto].
      cbn in Hin. destruct Hx as [->|[->| ->]]; intuition discriminate.
    - tauto.
    - cbn in Hin. destruct Hx as [->|[->| ->]]; intuition discriminate.
    - destruct query as [|q0 q]; [exact Hin|]. destruct Hin as [Hin|Hin]; [|tauto]. destruct Hx as [->|[->| ->]]; discriminate. }
  repeat split; apply G; auto.
Qed.

Example location_example :
  dir_redirect_location false [] [] [47; 100; 13; 10; 88; 58; 32; 49] [113]          (* path "/d\r\nX: 1", query "q" *)
  = [47; 100; 37; 48; 68; 37; 48; 65; 88; 37; 51; 65; 37; 50; 48; 49; 47; 63; 113].   (* "/d%0D%0AX%3A%201/?q" *)
Proof. vm_compute. reflexivity. Qed.
