(* C04: what a request path becomes inside a response header.  Model of
     buffer_append_string_encoded(.., ENCODING_REL_URI)     src/buffer.c
     http_response_redirect_to_directory()                   src/http-header-glue.c   (the Location of the 301 for a directory without '/')
   The escape table and the shape of the loop are re-read from the source on every run (Gen/GenEnc.v). *)
From Coq Require Import List NArith Bool.
From LV Require Import Base.Bytes Gen.GenBurl Gen.GenEnc Url.UrlModel.
Import ListNotations.
Local Open Scope N_scope.

Definition must_escape (c : N) : bool := nth (N.to_nat c) rel_uri_table true.
Definition enc_byte (c : N) : list N := if must_escape c then [37; hexuc (c / 16); hexuc (c mod 16)] else [c].
Definition enc_rel_uri (s : list N) : list N := flat_map enc_byte s.

(* Location / Content-Location value: [scheme "://" authority] encoded-path "/" ["?" query] *)
Definition dir_redirect_location (absolute : bool) (scheme authority path query : list N) : list N :=
  (if absolute then scheme ++ [58; 47; 47] ++ authority else []) ++ enc_rel_uri path ++ [47] ++ (match query with [] => [] | _ => 63 :: query end).
