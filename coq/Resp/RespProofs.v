(* Resp/RespProofs.v -- C04: the end of every HTTP/1.x response body can be determined, and is where the server meant it. *)
From Coq Require Import List NArith Bool Lia.
From LV Require Import Base.Bytes Resp.RespModel.
Import ListNotations.
Local Open Scope N_scope.

(* ---------------------------------------------------------------- chunk-size round trip *)
Lemma hexval_hexlc d : d < 16 -> hexval (hexlc d) = Some d.
Proof.
  intro H. assert (forallb (fun d => match hexval (hexlc d) with Some v => v =? d | None => false end) (map N.of_nat (seq 0 16)) = true) as Hall
    by (vm_compute; reflexivity).
  rewrite forallb_forall in Hall.
  assert (In d (map N.of_nat (seq 0 16))) as Hin.
  { apply in_map_iff. exists (N.to_nat d). split; [apply N2Nat.id|]. apply in_seq. lia. }
  specialize (Hall d Hin). destruct (hexval (hexlc d)); [|discriminate]. apply N.eqb_eq in Hall. subst; reflexivity.
Qed.

Lemma digs_lt16 f : forall n, Forall (fun d => d < 16) (digs f n).
Proof.
  induction f as [|f IH]; intro n; cbn [digs]; [constructor|].
  destruct (N.ltb_spec n 16).
  - constructor; [assumption | constructor].
  - apply Forall_app. split; [apply IH|]. constructor; [|constructor]. apply N.mod_lt. discriminate.
Qed.

Lemma digs_nonempty f n : digs (S f) n <> [].
Proof. cbn [digs]. destruct (n <? 16); [discriminate|]. destruct (digs f (n / 16)); discriminate. Qed.

Lemma val_app a b : val (a ++ b) = fold_left step16 b (val a).
Proof. unfold val. apply fold_left_app. Qed.

Lemma val_digs f : forall n, n < 16 ^ N.of_nat f -> val (digs f n) = n.
Proof.
  induction f as [|f IH]; intros n Hn.
  - cbn in Hn. assert (n = 0) by lia. subst. reflexivity.
  - cbn [digs]. destruct (N.ltb_spec n 16).
    + unfold val. cbn. unfold step16. lia.
    + rewrite val_app. cbn [fold_left]. unfold step16. rewrite IH.
      * rewrite N.mul_comm. symmetry. apply N.div_mod. discriminate.
      * rewrite Nat2N.inj_succ, N.pow_succ_r' in Hn. apply N.div_lt_upper_bound; [discriminate | exact Hn].
Qed.

Lemma val_lead0 ds : val (0 :: ds) = val ds.
Proof. unfold val. cbn. reflexivity. Qed.

Definition not_hex_start (s : list N) : Prop := match s with c :: _ => hexval c = None | [] => True end.

Lemma span_hex_digits ds rest :
  Forall (fun d => d < 16) ds -> not_hex_start rest -> span_hex (map hexlc ds ++ rest) = (ds, rest).
Proof.
  intros Hd Hr. induction Hd as [|d ds Hlt _ IH]; cbn [map app].
  - destruct rest as [|c t]; [reflexivity|]. cbn [span_hex]. cbn in Hr. rewrite Hr. reflexivity.
  - cbn [span_hex]. rewrite hexval_hexlc by assumption. rewrite IH. reflexivity.
Qed.

Definition small (n : N) : Prop := n < 16 ^ 16.

Lemma span_hexmin n rest : not_hex_start rest -> span_hex (hexmin n ++ rest) = (digs 16 n, rest).
Proof. intro H. unfold hexmin. apply span_hex_digits; [apply digs_lt16 | exact H]. Qed.

Lemma span_hexbytes n rest : not_hex_start rest ->
  exists ds, span_hex (hexbytes n ++ rest) = (ds, rest) /\ val ds = val (digs 16 n) /\ ds <> [].
Proof.
  intro H. unfold hexbytes. destruct (Nat.odd (length (digs 16 n))).
  - exists (0 :: digs 16 n). split; [|split; [apply val_lead0 | discriminate]].
    apply span_hex_digits; [constructor; [reflexivity | apply digs_lt16] | exact H].
  - exists (digs 16 n). split; [|split; [reflexivity | apply digs_nonempty]].
    apply span_hex_digits; [apply digs_lt16 | exact H].
Qed.

(* ---------------------------------------------------------------- one chunk *)
Lemma dechunk_one f (ds : list N) b rest acc :
  ds <> [] -> b <> [] -> val ds = N.of_nat (length b) ->
  forall s, span_hex s = (ds, CR :: LF :: b ++ CR :: LF :: rest) ->
  dechunk (S f) s acc = dechunk f rest (acc ++ b).
Proof.
  intros Hds Hb Hv s Hs. cbn [dechunk]. rewrite Hs.
  destruct ds as [|d0 ds']; [contradiction|]. rewrite Hv.
  change (CR :: LF :: b ++ CR :: LF :: rest) with (13 :: 10 :: b ++ 13 :: 10 :: rest).
  assert (Hlen : N.of_nat (length b) <> 0) by (destruct b; [contradiction | cbn; lia]).
  destruct (N.eqb_spec (N.of_nat (length b)) 0); [contradiction|].
  rewrite app_length. cbn [length].
  destruct (N.ltb_spec (N.of_nat (length b + S (S (length rest)))) (N.of_nat (length b) + 2)); [lia|].
  rewrite Nat2N.id. rewrite skipn_app, skipn_all, Nat.sub_diag. cbn [app skipn].
  rewrite firstn_app, firstn_all, Nat.sub_diag. cbn [firstn]. rewrite app_nil_r. reflexivity.
Qed.

Lemma chunks_decode later : forall f acc rest,
  Forall (fun b => small (N.of_nat (length b))) later -> (length later < f)%nat ->
  dechunk f (concat (map (chunk_with hexmin) later) ++ last_chunk ++ rest) acc = Some (acc ++ concat later, rest).
Proof.
  induction later as [|b later IH]; intros f acc rest Hs Hf.
  - destruct f as [|f]; [cbn in Hf; lia|]. cbn [map concat app]. rewrite app_nil_r. reflexivity.
  - inversion Hs as [|? ? Hb Hl]; subst. cbn [map concat]. destruct b as [|c b'].
    + cbn [chunk_with app concat]. apply IH; [assumption | cbn in Hf; lia].
    + destruct f as [|f]; [cbn in Hf; lia|].
      set (b := c :: b') in *. unfold chunk_with at 1. fold b. change (match b with [] => [] | _ :: _ => ?x end) with x.
      rewrite <- !app_assoc.
      erewrite dechunk_one with (ds := digs 16 (N.of_nat (length b))) (b := b) (rest := concat (map (chunk_with hexmin) later) ++ last_chunk ++ rest).
      * rewrite IH by (assumption || (cbn in Hf; lia)). rewrite <- app_assoc. reflexivity.
      * apply digs_nonempty.
      * discriminate.
      * apply val_digs. exact Hb.
      * cbn [app]. rewrite (span_hexmin _ (CR :: LF :: b ++ CR :: LF :: _)); [reflexivity | reflexivity].
Qed.

(* every block list survives chunk_encode + strict dechunking, whatever follows on the connection *)
Theorem chunked_roundtrip_fuel f first later rest :
  small (N.of_nat (length first)) -> Forall (fun b => small (N.of_nat (length b))) later -> (S (length later) < f)%nat ->
  dechunk f (chunk_encode first later ++ rest) [] = Some (first ++ concat later, rest).
Proof.
  intros Hf Hl Hfu. unfold chunk_encode. rewrite <- !app_assoc.
  destruct first as [|c f'].
  - cbn [chunk_with app]. rewrite chunks_decode by (assumption || lia). reflexivity.
  - destruct f as [|f]; [lia|].
    set (b := c :: f') in *. unfold chunk_with. fold b. change (match b with [] => [] | _ :: _ => ?x end) with x.
    rewrite <- !app_assoc.
    destruct (span_hexbytes (N.of_nat (length b)) (CR :: LF :: b ++ CR :: LF :: concat (map (chunk_with hexmin) later) ++ last_chunk ++ rest) eq_refl)
      as (ds & Hspan & Hval & Hne).
    erewrite dechunk_one with (ds := ds) (b := b) (rest := concat (map (chunk_with hexmin) later) ++ last_chunk ++ rest).
    + rewrite chunks_decode by (assumption || lia). reflexivity.
    + exact Hne.
    + discriminate.
    + rewrite Hval. apply val_digs. exact Hf.
    + cbn [app]. exact Hspan.
Qed.

Theorem chunked_roundtrip first later rest :
  small (N.of_nat (length first)) -> Forall (fun b => small (N.of_nat (length b))) later ->
  dechunk (S (S (length later))) (chunk_encode first later ++ rest) [] = Some (first ++ concat later, rest).
Proof. intros. apply chunked_roundtrip_fuel; auto. Qed.

(* ---------------------------------------------------------------- the framing decision *)
(* hypotheses on the handler: a Content-Length it sets is the length of what it produces; it does not frame by itself *)
Definition handler_ok (m : meta) (now later : list (list N)) : Prop :=
  h_te m = false /\ h_upg m = false /\ connect m = false /\ 200 <= status m /\
  (forall n, h_cl m = Some n -> nobody_status (status m) = false ->
             n = total (now ++ (if finished m then [] else later))) /\
  small (total now) /\ Forall (fun b => small (N.of_nat (length b))) later.

(* what the client ends up with *)
Definition delivered (m : meta) (now later : list (list N)) : list N :=
  if head m || nobody_status (status m) then []
  else concat (now ++ (if finished m then [] else later)).

Theorem end_determinable m now later rest :
  handler_ok m now later ->
  let w := server_emit m now later in
  match rfc_frame m w with
  | NoBody => w_body w = []
  | Len n => N.of_nat (length (w_body w)) = n /\ w_body w = delivered m now later
  | Chunked => dechunk (S (S (length later))) (w_body w ++ rest) [] = Some (delivered m now later, rest)
  | UntilClose => w_keep w = false /\ w_body w = delivered m now later
  end.
Proof.
  intros (Hte & Hupg & Hcon & Hst & Hcl & Hsm & Hsl). cbv zeta.
  unfold server_emit, rfc_frame, delivered. rewrite Hte, Hupg, Hcon. cbn [orb andb].
  assert (H200 : (status m <? 200) = false) by (apply N.ltb_ge; exact Hst). rewrite H200.
  destruct (head m) eqn:Hh.
  { (* HEAD: no body *)
    cbn [orb].
    destruct (finished m || nobody_status (status m)); cbn [w_body];
      [reflexivity|].
    destruct (if (status m =? 204) || (status m =? 205) then None else h_cl m); [reflexivity|].
    destruct (ver11 m); reflexivity. }
  cbn [orb negb andb].
  unfold nobody_status in *.
  destruct (N.eqb_spec (status m) 204) as [E204|N204].
  { cbn [orb]. rewrite orb_true_r. cbn. reflexivity. }
  destruct (N.eqb_spec (status m) 205) as [E205|N205].
  { cbn [orb]. rewrite orb_true_r. cbn [w_cl w_te w_body concat]. destruct (N.eqb_spec (status m) 304); [reflexivity|].
    cbn. split; reflexivity. }
  destruct (N.eqb_spec (status m) 304) as [E304|N304].
  { cbn [orb]. rewrite orb_true_r. cbn. reflexivity. }
  cbn [orb negb andb]. rewrite orb_false_r.
  specialize (fun n H => Hcl n H eq_refl).
  destruct (finished m) eqn:Hfin; cbn [orb].
  - (* finished: Content-Length is known *)
    rewrite app_nil_r in *.
    destruct (h_cl m) as [n|] eqn:Hc; cbn [w_te w_cl w_body].
    + split; [|reflexivity]. rewrite (Hcl n eq_refl). reflexivity.
    + destruct (N.ltb_spec 0 (total now)); cbn [w_te w_cl w_body]; (split; [|reflexivity]); [reflexivity|].
      unfold total in *. lia.
  - destruct (h_cl m) as [n|] eqn:Hc; cbn [w_te w_cl w_body].
    + split; [|reflexivity]. rewrite (Hcl n eq_refl). reflexivity.
    + destruct (ver11 m); cbn [w_te w_cl w_body w_keep].
      * rewrite chunked_roundtrip; [rewrite concat_app; reflexivity | exact Hsm | exact Hsl].
      * split; reflexivity.
Qed.

(* HEAD, 204, 205 and 304 never carry body bytes -- without any hypothesis on the handler *)
Theorem no_body_for_head_204_205_304 m now later :
  head m = true \/ nobody_status (status m) = true -> w_body (server_emit m now later) = [].
Proof.
  intros [Hh|Hs]; unfold server_emit.
  - rewrite Hh. repeat match goal with |- context [if ?c then _ else _] => destruct c end;
      try reflexivity; destruct (h_cl m); reflexivity.
  - rewrite Hs, orb_true_r. cbn. destruct (head m); reflexivity.
Qed.

(* a response that is neither length- nor chunk-delimited closes the connection *)
Theorem close_delimited_closes m now later :
  handler_ok m now later -> rfc_frame m (server_emit m now later) = UntilClose -> w_keep (server_emit m now later) = false.
Proof.
  intros H Hf. pose proof (end_determinable m now later [] H) as He. cbv zeta in He. rewrite Hf in He. apply He.
Qed.

(* ---------------------------------------------------------------- request-derived data cannot smuggle CR/LF *)
From LV Require Import Url.UrlModel.
Definition no_ctl (s : list N) : Prop := Forall (fun c => 32 <= c /\ c <> 127) s.

Lemma dec_ctl_ok d : 32 <= dec_ctl d /\ dec_ctl d <> 127.
Proof.
  unfold dec_ctl. destruct ((32 <=? d) && negb (d =? 127)) eqn:H.
  - apply andb_true_iff in H. destruct H as [H1 H2]. apply N.leb_le in H1. apply negb_true_iff, N.eqb_neq in H2. auto.
  - split; [lia | discriminate].
Qed.

(* whatever is percent-encoded in the request-target (%0d, %0a, %00, %7f ...), the decoded path that modules see --
   and that ends up in Location headers or logs -- holds no control byte, provided the raw target held none *)
Theorem decoded_path_no_ctl s : no_ctl s -> no_ctl (udec_loop s).
Proof.
  unfold no_ctl. remember (length s) as n eqn:Hn. revert s Hn.
  induction n as [n IH] using lt_wf_ind. intros s Hn H.
  destruct s as [|c t]; [constructor|]. inversion H as [|? ? Hc Ht]; subst. cbn [udec_loop].
  destruct (c =? 0); [constructor|].
  destruct (c =? pct).
  - destruct t as [|h [|l t2]].
    + constructor; [unfold pct; lia | constructor].
    + constructor; [unfold pct; lia|]. apply (IH (length [h])); [cbn; lia | reflexivity | exact Ht].
    + inversion Ht as [|? ? Hh Ht1]; subst. inversion Ht1 as [|? ? Hl Ht2]; subst.
      destruct (if h =? 0 then None else hexval l) as [lo|]; [destruct (UrlModel.hexval h) as [hi|]|].
      * constructor; [apply dec_ctl_ok|]. apply (IH (length t2)); [cbn; lia | reflexivity | exact Ht2].
      * constructor; [unfold pct; lia|]. apply (IH (length (h :: l :: t2))); [cbn; lia | reflexivity | exact Ht].
      * constructor; [unfold pct; lia|]. apply (IH (length (h :: l :: t2))); [cbn; lia | reflexivity | exact Ht].
  - constructor; [exact Hc|]. apply (IH (length t)); [cbn; lia | reflexivity | exact Ht].
Qed.
