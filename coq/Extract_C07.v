From LV Require Import Base.Bytes Gen.GenHpack Hpack.HpackModel.
Require Import ExtrOcamlBasic.
Extraction "model.ml" dt_init decode_block decode_block_lenient encode_block enc_field lookup static_len tbl_resize huff_encode huff_decode Nat.pred Z.of_N.
