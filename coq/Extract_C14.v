From LV Require Import Base.Bytes Cond.CondModel.
Require Import ExtrOcamlBasic.
Extraction "model.ml" check_cond reset_item reset_all applies Z.of_N.
