(* C07 -- HPACK (RFC 7541): a specification decoder, a family of encoders (every legal choice of
   representation), the Huffman code of Appendix B as a trie built from the regenerated table, and the
   dynamic table.  Written from the RFC; src/ls-hpack and the glue in src/h2.c are compared against it
   (harness/hpack_h.c), tables come from Gen/GenHpack.v. *)
From LV Require Import Base.Bytes Gen.GenHpack.
Local Open Scope N_scope.

Definition field := (list N * list N)%type.     (* (name, value) *)

(* ---------------------------------------------------------------- bits *)
Fixpoint bits_of (nb : nat) (v : N) : list bool :=      (* nb bits of v, most significant first *)
  match nb with
  | O => []
  | S k => N.testbit v (N.of_nat k) :: bits_of k v
  end.
Definition byte_bits (b : N) : list bool := bits_of 8 b.
Fixpoint bytes_to_bits (l : list N) : list bool := match l with [] => [] | b :: t => byte_bits b ++ bytes_to_bits t end.
Fixpoint bits_val (bs : list bool) (acc : N) : N := match bs with [] => acc | b :: t => bits_val t (2 * acc + (if b then 1 else 0)) end.
(* pack 8 bits per byte; the caller pads to a multiple of 8 *)
Fixpoint bits_to_bytes (fuel : nat) (bs : list bool) : list N :=
  match fuel with
  | O => []
  | S f => match bs with
           | [] => []
           | _ => bits_val (firstn 8 bs) 0 :: bits_to_bytes f (skipn 8 bs)
           end
  end.

(* ---------------------------------------------------------------- Huffman (Appendix B) *)
Definition sym_code (s : N) : list bool :=
  match nth_error huff_table (N.to_nat s) with Some (c, nb) => bits_of (N.to_nat nb) c | None => [] end.

Inductive trie := TEmpty | TLeaf (s : N) | TNode (z o : trie).
Fixpoint insert (t : trie) (code : list bool) (s : N) : trie :=
  match code with
  | [] => TLeaf s
  | b :: r =>
      match t with
      | TNode z o => if b then TNode z (insert o r s) else TNode (insert z r s) o
      | _ => if b then TNode TEmpty (insert TEmpty r s) else TNode (insert TEmpty r s) TEmpty
      end
  end.
Fixpoint build (fuel : nat) (s : N) (t : trie) : trie :=
  match fuel with O => t | S f => build f (s + 1) (insert t (sym_code s) s) end.
Definition huff_trie : trie := build 257 0 TEmpty.
Definition EOS : N := 256.

(* walk one symbol: Some (symbol, rest) | None when the bits run out inside a code (returns how the walk ended) *)
Inductive walk_res := WSym (s : N) (rest : list bool) | WPartial (consumed : list bool) | WBad.
Fixpoint walk (t : trie) (bs : list bool) (seen : list bool) : walk_res :=
  match t with
  | TLeaf s => WSym s bs
  | TEmpty => WBad
  | TNode z o => match bs with
                 | [] => WPartial (rev seen)
                 | b :: r => walk (if b then o else z) r (b :: seen)
                 end
  end.

Fixpoint huff_decode_bits (fuel : nat) (bs : list bool) : option (list N) :=
  match fuel with
  | O => None
  | S f =>
      match bs with
      | [] => Some []
      | _ =>
        match walk huff_trie bs [] with
        | WSym s rest => if s =? EOS then None
                         else match huff_decode_bits f rest with Some l => Some (s :: l) | None => None end
        | WPartial seen => (* padding: strictly fewer than 8 bits, all ones (RFC 7541 5.2) *)
            if (length seen <? 8)%nat && forallb (fun b => b) seen then Some [] else None
        | WBad => None
        end
      end
  end.
Definition huff_decode (l : list N) : option (list N) :=
  let bs := bytes_to_bits l in huff_decode_bits (S (length bs)) bs.

Fixpoint huff_bits (l : list N) : list bool := match l with [] => [] | c :: t => sym_code c ++ huff_bits t end.
Definition pad_ones (bs : list bool) : list bool := bs ++ repeat true ((8 - length bs mod 8) mod 8).
Definition huff_encode (l : list N) : list N := let bs := pad_ones (huff_bits l) in bits_to_bytes (S (length bs)) bs.

(* ---------------------------------------------------------------- integers (5.1) *)
Definition pow2 (n : N) : N := 2 ^ n.
Fixpoint enc_int_rest (fuel : nat) (v : N) : list N :=
  match fuel with
  | O => []
  | S f => if v <? 128 then [v] else (v mod 128 + 128) :: enc_int_rest f (v / 128)
  end.
(* first byte carries [hi] in the bits above the prefix *)
Definition enc_int (prefix : N) (hi : N) (v : N) : list N :=
  let mx := pow2 prefix - 1 in
  if v <? mx then [hi + v] else (hi + mx) :: enc_int_rest 64 (v - mx).

Fixpoint dec_int_rest (fuel : nat) (l : list N) (acc shift : N) : option (N * list N) :=
  match fuel with
  | O => None
  | S f => match l with
           | [] => None
           | b :: t => let acc' := acc + (b mod 128) * pow2 shift in
                       if b <? 128 then Some (acc', t) else dec_int_rest f t acc' (shift + 7)
           end
  end.
Definition dec_int (prefix : N) (l : list N) : option (N * list N) :=
  match l with
  | [] => None
  | b :: t => let mx := pow2 prefix - 1 in
              let v := b mod pow2 prefix in
              if v <? mx then Some (v, t) else dec_int_rest 10 t mx 0
  end.

(* ---------------------------------------------------------------- strings (5.2) *)
Definition enc_str (huff : bool) (s : list N) : list N :=
  if huff then let h := huff_encode s in enc_int 7 128 (N.of_nat (length h)) ++ h
  else enc_int 7 0 (N.of_nat (length s)) ++ s.
Definition dec_str (l : list N) : option (list N * list N) :=
  match l with
  | [] => None
  | b :: _ =>
      match dec_int 7 l with
      | None => None
      | Some (n, t) =>
          if N.of_nat (length t) <? n then None else
          let n := N.to_nat n in
          if (length t <? n)%nat then None
          else let raw := firstn n t in
               if 128 <=? b then match huff_decode raw with Some s => Some (s, skipn n t) | None => None end
               else Some (raw, skipn n t)
      end
  end.

(* ---------------------------------------------------------------- tables (2.3, 4) *)
Record dtable := { entries : list field; tmax : N; tcap : N }.   (* newest first; current max size; SETTINGS limit *)
Definition dt_init : dtable := {| entries := []; tmax := initial_table_size; tcap := initial_table_size |}.
Definition esize (f : field) : N := N.of_nat (length (fst f)) + N.of_nat (length (snd f)) + entry_overhead.
Definition tsize (es : list field) : N := fold_right (fun f a => esize f + a) 0 es.
(* evict from the end until the entries fit into [limit] *)
Fixpoint evict (fuel : nat) (es : list field) (limit : N) : list field :=
  match fuel with
  | O => []
  | S f => if tsize es <=? limit then es else evict f (removelast es) limit
  end.
Definition tbl_add (t : dtable) (f : field) : dtable :=
  if tmax t <? esize f then {| entries := []; tmax := tmax t; tcap := tcap t |}
  else {| entries := f :: evict (S (length (entries t))) (entries t) (tmax t - esize f); tmax := tmax t; tcap := tcap t |}.
Definition tbl_resize (t : dtable) (n : N) : option dtable :=
  if tcap t <? n then None else Some {| entries := evict (S (length (entries t))) (entries t) n; tmax := n; tcap := tcap t |}.
Definition static_len : N := N.of_nat (length static_table).
Definition lookup (t : dtable) (i : N) : option field :=
  if i =? 0 then None
  else if i <=? static_len then nth_error static_table (N.to_nat (i - 1))
  else if N.of_nat (length (entries t)) <=? i - static_len - 1 then None   (* (also keeps huge indices away from nat) *)
  else nth_error (entries t) (N.to_nat (i - static_len - 1)).

(* ---------------------------------------------------------------- decoding a header block (3, 6) *)
Definition name_of (t : dtable) (idx : N) (l : list N) : option (list N * list N) :=
  if idx =? 0 then dec_str l
  else match lookup t idx with Some (n, _) => Some (n, l) | None => None end.

Fixpoint dec_block (strict : bool) (fuel : nat) (t : dtable) (l : list N) (first : bool) : option (list field * dtable) :=
  match fuel with
  | O => None
  | S fu =>
      match l with
      | [] => Some ([], t)
      | b :: _ =>
          if 128 <=? b then                                   (* 6.1 indexed *)
            match dec_int 7 l with
            | Some (i, r) => match lookup t i with
                             | Some f => match dec_block strict fu t r false with Some (fs, t') => Some (f :: fs, t') | None => None end
                             | None => None
                             end
            | None => None
            end
          else if 64 <=? b then                               (* 6.2.1 literal with incremental indexing *)
            match dec_int 6 l with
            | Some (i, r) =>
                match name_of t i r with
                | Some (n, r2) => match dec_str r2 with
                                  | Some (v, r3) => match dec_block strict fu (tbl_add t (n, v)) r3 false with
                                                    | Some (fs, t') => Some ((n, v) :: fs, t') | None => None end
                                  | None => None
                                  end
                | None => None
                end
            | None => None
            end
          else if 32 <=? b then                               (* 6.3 dynamic table size update: only at the start of a block *)
            if first || negb strict then
              match dec_int 5 l with
              | Some (n, r) => match tbl_resize t n with Some t1 => dec_block strict fu t1 r true | None => None end
              | None => None
              end
            else None
          else                                                (* 6.2.2 / 6.2.3 literal without indexing / never indexed *)
            match dec_int 4 l with
            | Some (i, r) =>
                match name_of t i r with
                | Some (n, r2) => match dec_str r2 with
                                  | Some (v, r3) => match dec_block strict fu t r3 false with
                                                    | Some (fs, t') => Some ((n, v) :: fs, t') | None => None end
                                  | None => None
                                  end
                | None => None
                end
            | None => None
            end
      end
  end.
Definition decode_block (t : dtable) (l : list N) : option (list field * dtable) := dec_block true (S (length l)) t l true.
(* a decoder that tolerates table size updates between fields (what ls-hpack does) -- used only to classify a divergence *)
Definition decode_block_lenient (t : dtable) (l : list N) : option (list field * dtable) := dec_block false (S (length l)) t l true.

(* ---------------------------------------------------------------- the encoder family: one choice per field *)
Inductive repr :=
| RIndexed (i : N)                                  (* 6.1 *)
| RIncr (name_idx : N) (hn hv : bool)               (* 6.2.1; name_idx = 0: literal name; hn/hv: Huffman for name / value *)
| RNoIdx (name_idx : N) (never : bool) (hn hv : bool).  (* 6.2.2 / 6.2.3 *)

Definition enc_field (t : dtable) (f : field) (r : repr) : option (list N * dtable) :=
  let '(n, v) := f in
  match r with
  | RIndexed i => match lookup t i with
                  | Some (n', v') => if list_eqb n n' && list_eqb v v' && negb (i =? 0) then Some (enc_int 7 128 i, t) else None
                  | None => None
                  end
  | RIncr i hn hv =>
      let nm := if i =? 0 then Some (enc_str hn n)
                else match lookup t i with Some (n', _) => if list_eqb n n' then Some [] else None | None => None end in
      match nm with Some nb => Some (enc_int 6 64 i ++ nb ++ enc_str hv v, tbl_add t (n, v)) | None => None end
  | RNoIdx i never hn hv =>
      let nm := if i =? 0 then Some (enc_str hn n)
                else match lookup t i with Some (n', _) => if list_eqb n n' then Some [] else None | None => None end in
      match nm with Some nb => Some (enc_int 4 (if never then 16 else 0) i ++ nb ++ enc_str hv v, t) | None => None end
  end.

Fixpoint enc_fields (t : dtable) (fs : list field) (rs : list repr) : option (list N * dtable) :=
  match fs, rs with
  | [], _ => Some ([], t)
  | f :: ft, r :: rt => match enc_field t f r with
                        | Some (b, t1) => match enc_fields t1 ft rt with Some (b2, t2) => Some (b ++ b2, t2) | None => None end
                        | None => None
                        end
  | _ :: _, [] => None
  end.
(* a block: optional table size updates first, then the fields *)
Fixpoint enc_resizes (t : dtable) (ns : list N) : option (list N * dtable) :=
  match ns with
  | [] => Some ([], t)
  | n :: r => match tbl_resize t n with
              | Some t1 => match enc_resizes t1 r with Some (b, t2) => Some (enc_int 5 32 n ++ b, t2) | None => None end
              | None => None
              end
  end.
Definition encode_block (t : dtable) (resizes : list N) (fs : list field) (rs : list repr) : option (list N * dtable) :=
  match enc_resizes t resizes with
  | Some (b1, t1) => match enc_fields t1 fs rs with Some (b2, t2) => Some (b1 ++ b2, t2) | None => None end
  | None => None
  end.
