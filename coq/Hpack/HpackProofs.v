(* Proofs about the HPACK model (C07). *)
From LV Require Import Base.Bytes Gen.GenHpack Hpack.HpackModel.
From Coq Require Import String.
Notation length := List.length.
Require Import ZifyBool ZifyN ZifyNat.
Ltac Zify.zify_post_hook ::= Z.div_mod_to_equations.
Local Open Scope N_scope.

(* ---------- the id maps between HPACK static-table positions and lighttpd header ids (finite, over the regenerated tables) *)
Fixpoint assoc_s {A} (k : string) (l : list (string * A)) : option A :=
  match l with [] => None | (k', v) :: t => if String.eqb k k' then Some v else assoc_s k t end.
Fixpoint index_s (k : string) (l : list string) (i : nat) : option nat :=
  match l with [] => None | x :: t => if String.eqb k x then Some i else index_s k t (S i) end.
Definition static_name (idx : nat) : list N := match nth_error static_table (idx - 1) with Some (n, _) => n | None => [] end.
Definition is_pseudo (h : string) : bool := String.prefix "HTTP_HEADER_H2_"%string h.
Definition lc_known (nm : list N) : bool := existsb (fun p => list_eqb (snd p) nm) http_header_lc.

(* decoding direction: position i of the static table is tagged with the header id whose lower-case name is the table's name at i
   (or with OTHER / a pseudo-header tag when lighttpd has no id for that name) *)
Definition rev_entry_ok (p : string * string) : bool :=
  let '(ls, h) := p in
  match index_s ls lshpack_hdr_names 0 with
  | None => false
  | Some O => true
  | Some i =>
      let nm := static_name i in
      if is_pseudo h then match nm with 58 :: _ => true | _ => false end
      else if String.eqb h "HTTP_HEADER_OTHER"%string then negb (lc_known nm)
      else match assoc_s h http_header_lc with Some lc => list_eqb lc nm | None => false end
  end.
(* encoding direction: a header id is given the static position of its own lower-case name *)
Definition fwd_entry_ok (p : string * string) : bool :=
  let '(h, ls) := p in
  if String.eqb ls "LSHPACK_HDR_UNKNOWN"%string then true
  else match index_s ls lshpack_hdr_names 0, assoc_s h http_header_lc with
       | Some i, Some lc => list_eqb lc (static_name i)
       | _, _ => false
       end.
Lemma idmaps_consistent_holds :
  forallb rev_entry_ok lshpack_idx_http_header = true /\ forallb fwd_entry_ok http_header_lshpack_idx = true /\
  List.length lshpack_idx_http_header = 62%nat /\ List.length static_table = 61%nat.
Proof. repeat split; vm_compute; reflexivity. Qed.

(* ---------- Huffman: every code leads to its own leaf; no code is a prefix of another (a consequence) *)
Fixpoint lands (t : trie) (code : list bool) (s : N) : bool :=
  match code with
  | [] => match t with TLeaf s' => (s' =? s) | _ => false end
  | b :: r => match t with TNode z o => lands (if b then o else z) r s | _ => false end
  end.
Lemma lands_walk : forall code t s, lands t code s = true -> forall rest seen, walk t (code ++ rest) seen = WSym s rest.
Proof.
  induction code as [|b r IH]; intros t s H rest seen; cbn [lands app] in *.
  - destruct t; try discriminate. apply N.eqb_eq in H. subst. reflexivity.
  - destruct t; try discriminate. cbn [walk]. apply IH. exact H.
Qed.
Lemma all_codes_land : forallb (fun s => lands huff_trie (sym_code s) s && negb (match sym_code s with [] => true | _ => false end))
                               (map N.of_nat (seq 0 257)) = true.
Proof. vm_compute. reflexivity. Qed.
Lemma code_lands s : s <= 256 -> lands huff_trie (sym_code s) s = true /\ sym_code s <> [].
Proof.
  intros Hs. pose proof all_codes_land as H. rewrite forallb_forall in H. specialize (H s).
  assert (Hin : In s (map N.of_nat (seq 0 257))) by (apply in_map_iff; exists (N.to_nat s); split; [lia|apply in_seq; lia]).
  specialize (H Hin). apply andb_true_iff in H as [H1 H2]. split; [exact H1|]. destruct (sym_code s); [discriminate|discriminate].
Qed.
Theorem huff_walk_code s rest : s <= 256 -> walk huff_trie (sym_code s ++ rest) [] = WSym s rest.
Proof. intros Hs. apply lands_walk. apply code_lands. exact Hs. Qed.

(* padding of 1..7 one-bits never completes a code *)
Lemma padding_partial : forall k, (1 <= k <= 7)%nat -> walk huff_trie (repeat true k) [] = WPartial (repeat true k).
Proof. intros k Hk. do 8 (destruct k as [|k]; [try lia; vm_compute; reflexivity|]). lia. Qed.

Lemma huff_decode_bits_spec : forall l fuel pad, Forall (fun c => c < 256) l -> (length pad < 8)%nat -> forallb (fun b => b) pad = true ->
  (length (huff_bits l) + length pad < fuel)%nat ->
  huff_decode_bits fuel (huff_bits l ++ pad) = Some l.
Proof.
  induction l as [|c t IH]; intros fuel pad Hl Hp Hones Hf.
  - cbn [huff_bits app]. destruct fuel as [|f]; [lia|]. cbn [huff_decode_bits].
    destruct pad as [|b pad']; [reflexivity|].
    assert (Hpad : b :: pad' = repeat true (S (length pad'))).
    { clear - Hones. remember (b :: pad') as p. assert (Hlen : length p = S (length pad')) by (subst p; reflexivity). rewrite <- Hlen. clear Heqp Hlen.
      induction p as [|x p IHp]; [reflexivity|]. cbn in Hones. apply andb_true_iff in Hones as [Hx Hr]. subst x. cbn. f_equal. apply IHp. exact Hr. }
    rewrite Hpad at 1. rewrite padding_partial by (cbn in Hp; lia). rewrite <- Hpad. rewrite Hones.
    assert ((length (b :: pad') <? 8)%nat = true) as -> by (apply Nat.ltb_lt; exact Hp). reflexivity.
  - inversion Hl as [|? ? Hc Ht]; subst. cbn [huff_bits] in *. rewrite <- app_assoc.
    destruct fuel as [|f]; [lia|]. cbn [huff_decode_bits].
    destruct (code_lands c ltac:(lia)) as [_ Hne].
    destruct (sym_code c ++ huff_bits t ++ pad) as [|b0 r0] eqn:Eb; [destruct (sym_code c); [congruence|discriminate]|].
    rewrite <- Eb. rewrite huff_walk_code by lia.
    assert (c =? EOS = false) as -> by (unfold EOS; lia).
    rewrite IH; [reflexivity|exact Ht|exact Hp|exact Hones|].
    rewrite app_length in Hf. destruct (sym_code c); [congruence|]. cbn in Hf. lia.
Qed.

(* ---------- bits <-> bytes *)
Lemma byte_bits_val : forall b0 b1 b2 b3 b4 b5 b6 b7 : bool,
  byte_bits (bits_val [b0;b1;b2;b3;b4;b5;b6;b7] 0) = [b0;b1;b2;b3;b4;b5;b6;b7].
Proof. intros [] [] [] [] [] [] [] []; vm_compute; reflexivity. Qed.

Lemma bits_bytes_roundtrip : forall n bs fuel, length bs = (8 * n)%nat -> (n < fuel)%nat -> bytes_to_bits (bits_to_bytes fuel bs) = bs.
Proof.
  induction n as [|n IH]; intros bs fuel Hl Hf.
  - destruct bs; [|discriminate]. destruct fuel; reflexivity.
  - destruct fuel as [|f]; [lia|].
    destruct bs as [|b0 [|b1 [|b2 [|b3 [|b4 [|b5 [|b6 [|b7 r]]]]]]]]; try (cbn in Hl; lia).
    cbn [bits_to_bytes firstn skipn bytes_to_bits]. rewrite byte_bits_val. cbn [app]. do 8 f_equal.
    apply IH; [cbn in Hl; lia|lia].
Qed.

Lemma pad_ones_spec bs : exists pad, pad_ones bs = bs ++ pad /\ (length pad < 8)%nat /\ forallb (fun b => b) pad = true /\ exists n, length (bs ++ pad) = (8 * n)%nat.
Proof.
  unfold pad_ones. set (k := ((8 - length bs mod 8) mod 8)%nat). exists (repeat true k).
  assert (Hk : (k < 8)%nat) by (unfold k; apply Nat.mod_upper_bound; lia).
  split; [reflexivity|]. split; [rewrite repeat_length; exact Hk|]. split.
  - clear. induction k; [reflexivity|exact IHk].
  - rewrite app_length, repeat_length. exists ((length bs + k) / 8)%nat.
    assert (Hm : ((length bs + k) mod 8 = 0)%nat).
    { unfold k. pose proof (Nat.mod_upper_bound (length bs) 8 ltac:(lia)) as Hb.
      rewrite Nat.add_mod by lia. rewrite Nat.mod_mod by lia.
      destruct (Nat.eq_dec (length bs mod 8) 0) as [E|E]; [rewrite E; reflexivity|].
      rewrite (Nat.mod_small (8 - length bs mod 8)) by lia. replace (length bs mod 8 + (8 - length bs mod 8))%nat with 8%nat by lia. reflexivity. }
    pose proof (Nat.div_mod (length bs + k) 8 ltac:(lia)). lia.
Qed.

Theorem huffman_roundtrip_all l : Forall (fun c => c < 256) l -> huff_decode (huff_encode l) = Some l.
Proof.
  intros Hl. unfold huff_decode, huff_encode. destruct (pad_ones_spec (huff_bits l)) as (pad & Hp & Hlen & Hones & n & Hn).
  rewrite Hp. rewrite (bits_bytes_roundtrip n) by (try exact Hn; rewrite Hn; lia).
  apply huff_decode_bits_spec; try assumption. rewrite <- app_length. lia.
Qed.

(* ---------- integers *)
Lemma pow2_vals : pow2 4 = 16 /\ pow2 5 = 32 /\ pow2 6 = 64 /\ pow2 7 = 128 /\ pow2 28 = 268435456 /\ pow2 32 = 4294967296.
Proof. repeat split; vm_compute; reflexivity. Qed.
Ltac pw := destruct pow2_vals as (P4 & P5 & P6 & P7 & P28 & P32); rewrite ?P4, ?P5, ?P6, ?P7, ?P28, ?P32 in *.
Lemma pow2_pos n : 0 < pow2 n. Proof. unfold pow2. apply N.neq_0_lt_0. apply N.pow_nonzero. discriminate. Qed.

Lemma enc_int_rest_S f v : enc_int_rest (S f) v = if v <? 128 then [v] else (v mod 128 + 128) :: enc_int_rest f (v / 128).
Proof. reflexivity. Qed.
Lemma dec_int_rest_S f b t acc shift : dec_int_rest (S f) (b :: t) acc shift =
  let acc' := acc + (b mod 128) * pow2 shift in if b <? 128 then Some (acc', t) else dec_int_rest f t acc' (shift + 7).
Proof. reflexivity. Qed.

Lemma dec_int_rest_enc : forall fe v fd rest acc shift, v < pow2 (7 * N.of_nat (S fe)) -> (S fe <= fd)%nat ->
  dec_int_rest fd (enc_int_rest (S fe) v ++ rest) acc shift = Some (acc + v * pow2 shift, rest).
Proof.
  induction fe as [|fe IH]; intros v fd rest acc shift Hv Hfd.
  - destruct fd as [|fd]; [lia|]. assert (v < 128) by (unfold pow2 in Hv; cbn in Hv; lia).
    cbn [enc_int_rest]. assert ((v <? 128) = true) as -> by lia. cbn [app dec_int_rest].
    assert ((v <? 128) = true) as -> by lia. f_equal. f_equal. assert (v mod 128 = v) by (apply N.mod_small; lia). lia.
  - destruct fd as [|fd]; [lia|]. rewrite enc_int_rest_S. destruct (v <? 128) eqn:E.
    + cbn [app]. rewrite dec_int_rest_S. cbv zeta. rewrite E. f_equal. f_equal. assert (v mod 128 = v) by (apply N.mod_small; lia). lia.
    + cbn [app]. rewrite dec_int_rest_S. cbv zeta. assert ((v mod 128 + 128 <? 128) = false) as -> by lia.
      rewrite IH; [| |lia].
      * f_equal. f_equal.
        assert (Hm : (v mod 128 + 128) mod 128 = v mod 128) by lia.
        rewrite Hm. unfold pow2. rewrite N.pow_add_r. change (2 ^ 7) with 128. pose proof (N.div_mod v 128 ltac:(discriminate)). nia.
      * unfold pow2 in *. replace (7 * N.of_nat (S (S fe))) with (7 + 7 * N.of_nat (S fe)) in Hv by lia. rewrite N.pow_add_r in Hv. change (2 ^ 7) with 128 in Hv.
        apply N.div_lt_upper_bound; [discriminate|]. exact Hv.
Qed.

Lemma enc_int_rest_fuel : forall f1 f2 v, v < pow2 (7 * N.of_nat (S f1)) -> (f1 <= f2)%nat -> enc_int_rest (S f1) v = enc_int_rest (S f2) v.
Proof.
  induction f1 as [|f1 IH]; intros f2 v Hv Hf.
  - assert (v < 128) by (unfold pow2 in Hv; cbn in Hv; lia). cbn [enc_int_rest]. assert ((v <? 128) = true) as -> by lia. reflexivity.
  - destruct f2 as [|f2]; [lia|]. rewrite !enc_int_rest_S. destruct (v <? 128) eqn:E; [reflexivity|]. f_equal. apply IH; [|lia].
    unfold pow2 in *. replace (7 * N.of_nat (S (S f1))) with (7 + 7 * N.of_nat (S f1)) in Hv by lia. rewrite N.pow_add_r in Hv. change (2 ^ 7) with 128 in Hv.
    apply N.div_lt_upper_bound; [discriminate|]. exact Hv.
Qed.

Theorem int_roundtrip_all prefix hi v rest : 1 <= prefix <= 8 -> hi mod pow2 prefix = 0 -> hi + pow2 prefix <= 256 -> v < pow2 32 ->
  dec_int prefix (enc_int prefix hi v ++ rest) = Some (v, rest).
Proof.
  intros Hp Hhi Hb Hv. unfold enc_int, dec_int. pose proof (pow2_pos prefix) as Hpos.
  destruct (v <? pow2 prefix - 1) eqn:E.
  - cbn [app]. assert (Hm : (hi + v) mod pow2 prefix = v).
    { rewrite N.add_mod by lia. rewrite Hhi. rewrite N.add_0_l. rewrite N.mod_mod by lia. apply N.mod_small. lia. }
    rewrite Hm, E. reflexivity.
  - cbn [app]. assert (Hm : (hi + (pow2 prefix - 1)) mod pow2 prefix = pow2 prefix - 1).
    { rewrite N.add_mod by lia. rewrite Hhi. rewrite N.add_0_l. rewrite N.mod_mod by lia. apply N.mod_small. lia. }
    rewrite Hm. assert ((pow2 prefix - 1 <? pow2 prefix - 1) = false) as -> by lia.
    change (enc_int_rest 64 (v - (pow2 prefix - 1))) with (enc_int_rest (S 63) (v - (pow2 prefix - 1))).
    (* the decoder reads at most 10 continuation octets: enough for 32-bit values, which the encoder writes in at most 5 *)
    assert (Hsmall : v - (pow2 prefix - 1) < pow2 (7 * N.of_nat (S 4))) by (assert (pow2 32 <= pow2 (7 * N.of_nat 5)) by (unfold pow2; apply N.pow_le_mono_r; [discriminate|cbn; lia]); cbn in *; lia).
    rewrite <- (enc_int_rest_fuel 4 63) by (try lia; exact Hsmall).
    rewrite (dec_int_rest_enc 4%nat) ; [|exact Hsmall|lia].
    f_equal. f_equal. unfold pow2 at 3. cbn. lia.
Qed.

(* ---------- strings *)
Lemma enc_int_head prefix hi v : 1 <= prefix <= 8 -> exists b0 tl, enc_int prefix hi v = b0 :: tl /\ hi <= b0 < hi + pow2 prefix.
Proof.
  intros Hp. unfold enc_int. pose proof (pow2_pos prefix). destruct (v <? pow2 prefix - 1) eqn:E; eexists; eexists; (split; [reflexivity|lia]).
Qed.

Lemma bits_of_length nb v : length (bits_of nb v) = nb.
Proof. induction nb; cbn; [reflexivity|f_equal; exact IHnb]. Qed.
Lemma code_len c : (length (sym_code c) <= 30)%nat.
Proof.
  unfold sym_code. destruct (nth_error huff_table (N.to_nat c)) as [[code nb]|] eqn:E; [|cbn; lia].
  rewrite bits_of_length.
  assert (H : forallb (fun p => (N.to_nat (snd p) <=? 30)%nat) huff_table = true) by (vm_compute; reflexivity).
  rewrite forallb_forall in H. apply nth_error_In in E. specialize (H _ E). cbn in H. apply Nat.leb_le. exact H.
Qed.
Lemma huff_bits_length s : (length (huff_bits s) <= 30 * length s)%nat.
Proof. induction s as [|c t IH]; cbn [huff_bits length]; [lia|]. rewrite app_length. pose proof (code_len c). lia. Qed.
Lemma bits_to_bytes_length : forall fuel bs, (8 * length (bits_to_bytes fuel bs) <= length bs + 7)%nat.
Proof.
  induction fuel as [|f IH]; intros bs; cbn [bits_to_bytes]; [cbn; lia|].
  destruct bs as [|b r]; [cbn; lia|]. specialize (IH (skipn 8 (b :: r))). rewrite skipn_length in IH.
  change (length (bits_val (firstn 8 (b :: r)) 0%N :: bits_to_bytes f (skipn 8 (b :: r)))) with (S (length (bits_to_bytes f (skipn 8 (b :: r))))).
  remember (length (bits_to_bytes f (skipn 8 (b :: r)))) as k. remember (length (b :: r)) as m. assert (1 <= m)%nat by (subst m; cbn; lia). lia.
Qed.
Lemma huff_encode_length s : (length (huff_encode s) <= 4 * length s + 1)%nat.
Proof.
  unfold huff_encode. destruct (pad_ones_spec (huff_bits s)) as (pad & Hp & Hlen & _ & _). rewrite Hp.
  pose proof (bits_to_bytes_length (S (length (huff_bits s ++ pad))) (huff_bits s ++ pad)) as H. rewrite app_length in *.
  pose proof (huff_bits_length s). lia.
Qed.

Lemma dec_str_enc h s rest : Forall (fun c => c < 256) s -> N.of_nat (length s) < pow2 28 ->
  dec_str (enc_str h s ++ rest) = Some (s, rest).
Proof.
  intros Hs Hlen. unfold enc_str.
  assert (Hgen : forall hi payload, (hi = 0 \/ hi = 128) -> N.of_nat (length payload) < pow2 32 ->
            dec_str (enc_int 7 hi (N.of_nat (length payload)) ++ payload ++ rest) =
            if 128 <=? hi then match huff_decode payload with Some x => Some (x, rest) | None => None end else Some (payload, rest)).
  { intros hi payload Hhi Hpl. unfold dec_str.
    destruct (enc_int_head 7 hi (N.of_nat (length payload)) ltac:(lia)) as (b0 & tl & He & Hb0).
    remember (enc_int 7 hi (N.of_nat (length payload)) ++ payload ++ rest) as l eqn:El.
    destruct l as [|b l']; [rewrite He in El; discriminate|].
    assert (b = b0) by (rewrite He in El; cbn in El; congruence). subst b.
    rewrite El. rewrite (int_roundtrip_all 7 hi (N.of_nat (length payload)) (payload ++ rest)) by (destruct Hhi; subst; try lia; try reflexivity; pw; lia).
    assert ((N.of_nat (length (payload ++ rest)) <? N.of_nat (length payload)) = false) as -> by (rewrite app_length; lia).
    rewrite Nat2N.id. assert ((length (payload ++ rest) <? length payload)%nat = false) as -> by (apply Nat.ltb_ge; rewrite app_length; lia).
    rewrite firstn_app, Nat.sub_diag, firstn_all, firstn_O, app_nil_r.
    rewrite skipn_app, Nat.sub_diag, skipn_all. cbn [app].
    assert (Hb0' : hi <= b0 < hi + 128) by (pw; exact Hb0). clear Hb0. destruct Hhi; subst hi.
    - assert ((128 <=? b0) = false) as -> by lia. reflexivity.
    - assert ((128 <=? b0) = true) as -> by lia. reflexivity. }
  destruct h.
  - rewrite <- app_assoc. rewrite Hgen; [|right; reflexivity|].
    + change (128 <=? 128) with true. cbv iota. rewrite huffman_roundtrip_all by exact Hs. reflexivity.
    + pose proof (huff_encode_length s) as Hel. clear Hgen. pw. lia.
  - rewrite <- app_assoc. rewrite Hgen; [reflexivity|left; reflexivity|clear Hgen; pw; lia].
Qed.

(* ---------- a whole header block: decoding what any legal choice of representations encodes gives back the
   header list, and leaves the decoder's table equal to the encoder's (so the next block starts in sync) *)
Definition field_ok (f : field) : Prop :=
  Forall (fun c => c < 256) (fst f) /\ Forall (fun c => c < 256) (snd f) /\
  N.of_nat (length (fst f)) < pow2 28 /\ N.of_nat (length (snd f)) < pow2 28.
Definition repr_ok (r : repr) : Prop :=
  match r with RIndexed i => i < pow2 32 | RIncr i _ _ => i < pow2 32 | RNoIdx i _ _ _ => i < pow2 32 end.

Lemma list_eqb_true a b : list_eqb a b = true -> a = b. Proof. apply list_eqb_eq. Qed.

Lemma dec_block_head strict fu t l first b0 tl : l = b0 :: tl ->
  dec_block strict (S fu) t l first =
    if 128 <=? b0 then
      match dec_int 7 l with
      | Some (i, r) => match lookup t i with
                       | Some f => match dec_block strict fu t r false with Some (fs, t') => Some (f :: fs, t') | None => None end
                       | None => None end
      | None => None end
    else if 64 <=? b0 then
      match dec_int 6 l with
      | Some (i, r) =>
          match name_of t i r with
          | Some (n, r2) => match dec_str r2 with
                            | Some (v, r3) => match dec_block strict fu (tbl_add t (n, v)) r3 false with
                                              | Some (fs, t') => Some ((n, v) :: fs, t') | None => None end
                            | None => None end
          | None => None end
      | None => None end
    else if 32 <=? b0 then
      if first || negb strict then
        match dec_int 5 l with
        | Some (n, r) => match tbl_resize t n with Some t1 => dec_block strict fu t1 r true | None => None end
        | None => None end
      else None
    else
      match dec_int 4 l with
      | Some (i, r) =>
          match name_of t i r with
          | Some (n, r2) => match dec_str r2 with
                            | Some (v, r3) => match dec_block strict fu t r3 false with
                                              | Some (fs, t') => Some ((n, v) :: fs, t') | None => None end
                            | None => None end
          | None => None end
      | None => None end.
Proof. intros ->. reflexivity. Qed.

Lemma name_enc t i n hn tail nb :
  (if i =? 0 then Some (enc_str hn n)
   else match lookup t i with Some (n', _) => if list_eqb n n' then Some [] else None | None => None end) = Some nb ->
  Forall (fun c => c < 256) n -> N.of_nat (length n) < pow2 28 ->
  name_of t i (nb ++ tail) = Some (n, tail).
Proof.
  intros H Hn Hl. unfold name_of. destruct (i =? 0).
  - inversion H; subst. apply dec_str_enc; assumption.
  - destruct (lookup t i) as [[n' v']|]; [|discriminate]. destruct (list_eqb n n') eqn:E; [|discriminate].
    inversion H; subst. apply list_eqb_true in E. subst. reflexivity.
Qed.

Lemma dec_block_field strict fu t f r bf t1 more first :
  enc_field t f r = Some (bf, t1) -> field_ok f -> repr_ok r ->
  dec_block strict (S fu) t (bf ++ more) first =
    match dec_block strict fu t1 more false with Some (fs, t') => Some (f :: fs, t') | None => None end.
Proof.
  destruct f as [n v]. intros He (Hn & Hv & Hnl & Hvl) Hr. cbn [fst snd] in *. destruct r as [i|i hn hv|i never hn hv]; cbn [enc_field repr_ok] in *.
  - destruct (lookup t i) as [[n' v']|] eqn:El; [|discriminate].
    destruct (list_eqb n n' && list_eqb v v' && negb (i =? 0)) eqn:E; [|discriminate]. inversion He; subst. clear He.
    apply andb_true_iff in E as [E E3]. apply andb_true_iff in E as [E1 E2]. apply list_eqb_true in E1, E2. subst n' v'.
    destruct (enc_int_head 7 128 i ltac:(lia)) as (b0 & tl & Hh & Hb0).
    rewrite (dec_block_head strict fu t1 (enc_int 7 128 i ++ more) first b0 (tl ++ more)) by (rewrite Hh; reflexivity).
    assert ((128 <=? b0) = true) as -> by lia.
    rewrite int_roundtrip_all by (try lia; try reflexivity; unfold pow2; cbn; lia). rewrite El. reflexivity.
  - destruct (if i =? 0 then Some (enc_str hn n) else match lookup t i with Some (n', _) => if list_eqb n n' then Some [] else None | None => None end) as [nb|] eqn:En; [|discriminate].
    inversion He; subst. clear He.
    destruct (enc_int_head 6 64 i ltac:(lia)) as (b0 & tl & Hh & Hb0).
    rewrite <- !app_assoc.
    rewrite (dec_block_head strict fu t (enc_int 6 64 i ++ nb ++ enc_str hv v ++ more) first b0 (tl ++ nb ++ enc_str hv v ++ more)) by (rewrite Hh; reflexivity).
    unfold pow2 in Hb0. cbn in Hb0.
    assert ((128 <=? b0) = false) as -> by lia. assert ((64 <=? b0) = true) as -> by lia.
    rewrite int_roundtrip_all by (try lia; try reflexivity; unfold pow2; cbn; lia).
    rewrite (name_enc t i n hn (enc_str hv v ++ more) nb En Hn Hnl). rewrite dec_str_enc by assumption. reflexivity.
  - destruct (if i =? 0 then Some (enc_str hn n) else match lookup t i with Some (n', _) => if list_eqb n n' then Some [] else None | None => None end) as [nb|] eqn:En; [|discriminate].
    inversion He; subst. clear He.
    destruct (enc_int_head 4 (if never then 16 else 0) i ltac:(lia)) as (b0 & tl & Hh & Hb0).
    rewrite <- !app_assoc.
    rewrite (dec_block_head strict fu t1 (enc_int 4 (if never then 16 else 0) i ++ nb ++ enc_str hv v ++ more) first b0 (tl ++ nb ++ enc_str hv v ++ more)) by (rewrite Hh; reflexivity).
    unfold pow2 in Hb0. cbn in Hb0.
    assert ((128 <=? b0) = false) as -> by (destruct never; lia). assert ((64 <=? b0) = false) as -> by (destruct never; lia).
    assert ((32 <=? b0) = false) as -> by (destruct never; lia).
    rewrite int_roundtrip_all by (destruct never; try lia; try reflexivity; unfold pow2; cbn; lia).
    rewrite (name_enc t1 i n hn (enc_str hv v ++ more) nb En Hn Hnl). rewrite dec_str_enc by assumption. reflexivity.
Qed.

Theorem decode_encode_fields strict : forall fs rs t b t', enc_fields t fs rs = Some (b, t') ->
  Forall field_ok fs -> Forall repr_ok rs ->
  forall fuel first, (length fs < fuel)%nat -> dec_block strict fuel t b first = Some (fs, t').
Proof.
  induction fs as [|f ft IH]; intros rs t b t' He Hf Hr fuel first Hfu.
  - cbn in He. inversion He; subst. destruct fuel; [lia|]. reflexivity.
  - destruct rs as [|r rt]; [discriminate|]. cbn [enc_fields] in He.
    destruct (enc_field t f r) as [[bf t1]|] eqn:Ef; [|discriminate].
    destruct (enc_fields t1 ft rt) as [[b2 t2]|] eqn:Er; [|discriminate]. inversion He; subst. clear He.
    inversion Hf; subst. inversion Hr; subst.
    destruct fuel as [|fu]; [lia|].
    rewrite (dec_block_field strict fu t f r bf t1 b2 first Ef) by assumption.
    rewrite (IH rt t1 b2 t' Er) by (try assumption; cbn in Hfu; lia). reflexivity.
Qed.

Lemma enc_int_nonempty prefix hi v : (1 <= length (enc_int prefix hi v))%nat.
Proof. unfold enc_int. destruct (v <? pow2 prefix - 1); cbn; lia. Qed.
Lemma enc_field_nonempty t f r bf t1 : enc_field t f r = Some (bf, t1) -> (1 <= length bf)%nat.
Proof.
  destruct f as [n v]. destruct r as [i|i hn hv|i nv hn hv]; cbn [enc_field].
  - destruct (lookup t i) as [[n' v']|]; [|discriminate]. destruct (list_eqb n n' && list_eqb v v' && negb (i =? 0)); [|discriminate].
    intros H; inversion H; subst. apply enc_int_nonempty.
  - destruct (if i =? 0 then _ else _) as [nb|]; [|discriminate]. intros H; inversion H; subst. rewrite app_length. pose proof (enc_int_nonempty 6 64 i). lia.
  - destruct (if i =? 0 then _ else _) as [nb|]; [|discriminate]. intros H; inversion H; subst. rewrite app_length. pose proof (enc_int_nonempty 4 (if nv then 16 else 0) i). lia.
Qed.
Lemma enc_fields_length : forall fs rs t b t', enc_fields t fs rs = Some (b, t') -> (length fs <= length b)%nat.
Proof.
  induction fs as [|f ft IH]; intros rs t b t' He; [cbn; lia|]. destruct rs as [|r rt]; [discriminate|]. cbn [enc_fields] in He.
  destruct (enc_field t f r) as [[bf t1]|] eqn:Ef; [|discriminate]. destruct (enc_fields t1 ft rt) as [[b2 t2]|] eqn:Er; [|discriminate].
  inversion He; subst. rewrite app_length. pose proof (enc_field_nonempty _ _ _ _ _ Ef). specialize (IH _ _ _ _ Er). cbn [length]. lia.
Qed.

Lemma dec_block_resizes : forall ns t b1 t1, enc_resizes t ns = Some (b1, t1) -> Forall (fun n => n < pow2 32) ns ->
  forall fuel more, (length ns <= fuel)%nat ->
  exists fuel', (fuel' + length ns = fuel)%nat /\ forall more', more' = more ->
    dec_block true (fuel + S (length more)) t (b1 ++ more) true = dec_block true (fuel' + S (length more)) t1 more true.
Proof.
  induction ns as [|n nt IH]; intros t b1 t1 He Hn fuel more Hfu.
  - cbn in He. inversion He; subst. exists fuel. split; [cbn; lia|]. intros; reflexivity.
  - cbn [enc_resizes] in He. destruct (tbl_resize t n) as [t2|] eqn:Et; [|discriminate].
    destruct (enc_resizes t2 nt) as [[b2 t3]|] eqn:Er; [|discriminate]. inversion He; subst. clear He. inversion Hn; subst.
    destruct fuel as [|fu]; [cbn in Hfu; lia|].
    destruct (IH t2 b2 t1 Er ltac:(assumption) fu more ltac:(cbn in Hfu; lia)) as (fuel' & Hf' & Heq).
    exists fuel'. split; [cbn; lia|]. intros more' ->.
    destruct (enc_int_head 5 32 n ltac:(lia)) as (b0 & tl & Hh & Hb0).
    rewrite <- app_assoc. change (S fu + S (length more))%nat with (S (fu + S (length more))).
    rewrite (dec_block_head true (fu + S (length more)) t (enc_int 5 32 n ++ b2 ++ more) true b0 (tl ++ b2 ++ more)) by (rewrite Hh; reflexivity).
    assert (Hb0' : 32 <= b0 < 64) by (pw; exact Hb0). assert ((128 <=? b0) = false) as -> by lia. assert ((64 <=? b0) = false) as -> by lia. assert ((32 <=? b0) = true) as -> by lia.
    cbn [orb]. rewrite int_roundtrip_all by (try lia; try reflexivity; unfold pow2; cbn; lia). rewrite Et. exact (Heq more eq_refl).
Qed.

Theorem decode_encode_block_all t resizes fs rs b t' :
  encode_block t resizes fs rs = Some (b, t') -> Forall (fun n => n < pow2 32) resizes -> Forall field_ok fs -> Forall repr_ok rs ->
  decode_block t b = Some (fs, t').
Proof.
  unfold encode_block, decode_block. intros He Hn Hf Hr.
  destruct (enc_resizes t resizes) as [[b1 t1]|] eqn:E1; [|discriminate]. destruct (enc_fields t1 fs rs) as [[b2 t2]|] eqn:E2; [|discriminate].
  inversion He; subst. clear He.
  assert (Hlen : (length resizes <= length b1)%nat).
  { clear - E1. revert t b1 t1 E1. induction resizes as [|n nt IH]; intros t b1 t1 E1; [cbn; lia|]. cbn [enc_resizes] in E1.
    destruct (tbl_resize t n) as [t2|]; [|discriminate]. destruct (enc_resizes t2 nt) as [[b2 t3]|] eqn:Er; [|discriminate]. inversion E1; subst.
    rewrite app_length. pose proof (enc_int_nonempty 5 32 n). specialize (IH _ _ _ Er). cbn [length]. lia. }
  destruct (dec_block_resizes resizes t b1 t1 E1 Hn (length b1) b2 Hlen) as (fuel' & Hf' & Heq).
  replace (S (length (b1 ++ b2))) with (length b1 + S (length b2))%nat by (rewrite app_length; lia).
  rewrite (Heq b2 eq_refl). apply (decode_encode_fields true fs rs t1 b2 t' E2 Hf Hr). pose proof (enc_fields_length _ _ _ _ _ E2). lia.
Qed.

(* ---------- a whole connection: any number of blocks, one shared table on each side *)
Definition block_in := (list N * list field * list repr)%type.   (* table size updates, fields, chosen representations *)
Fixpoint encode_conn (t : dtable) (bs : list block_in) : option (list (list N) * dtable) :=
  match bs with
  | [] => Some ([], t)
  | (rz, fs, rs) :: r => match encode_block t rz fs rs with
                          | Some (b, t1) => match encode_conn t1 r with Some (bl, t2) => Some (b :: bl, t2) | None => None end
                          | None => None
                          end
  end.
Fixpoint decode_conn (t : dtable) (bl : list (list N)) : option (list (list field) * dtable) :=
  match bl with
  | [] => Some ([], t)
  | b :: r => match decode_block t b with
              | Some (fs, t1) => match decode_conn t1 r with Some (fl, t2) => Some (fs :: fl, t2) | None => None end
              | None => None
              end
  end.
Definition block_ok (b : block_in) : Prop :=
  let '(rz, fs, rs) := b in Forall (fun n => n < pow2 32) rz /\ Forall field_ok fs /\ Forall repr_ok rs.

Theorem decode_encode_conn : forall bs t bl t', encode_conn t bs = Some (bl, t') -> Forall block_ok bs ->
  decode_conn t bl = Some (map (fun b => snd (fst b)) bs, t').
Proof.
  induction bs as [|[[rz fs] rs] r IH]; intros t bl t' He Hok.
  - cbn in He. inversion He; subst. reflexivity.
  - cbn [encode_conn] in He. destruct (encode_block t rz fs rs) as [[b t1]|] eqn:Eb; [|discriminate].
    destruct (encode_conn t1 r) as [[bl2 t2]|] eqn:Er; [|discriminate]. inversion He; subst. clear He.
    inversion Hok as [|? ? Hb Hr]; subst. cbn [block_ok] in Hb. destruct Hb as (H1 & H2 & H3).
    cbn [decode_conn map fst snd]. rewrite (decode_encode_block_all t rz fs rs b t1 Eb H1 H2 H3).
    rewrite (IH t1 bl2 t' Er Hr). reflexivity.
Qed.
