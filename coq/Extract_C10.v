From LV Require Import Base.Bytes Resp.RespModel Gw.GwModel.
Require Import ExtrOcamlBasic.
Extraction "model.ml" fdecode body_verdict Z.of_N Nat.pred.
