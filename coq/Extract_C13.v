From Coq Require Import ZArith NArith.
From LV Require Import Gen.GenH1 Conn.ConnModel.
Require Import ExtrOcamlBasic.
Extraction "model.ml" seconds sweep sstep Z.of_N N.of_nat Nat.pred HTTP_LINGER_TIMEOUT.
