(* Dav/DavProofs.v -- C18: properties of the reference semantics and the all-or-nothing PUT protocol. *)
From Coq Require Import List NArith Bool Lia.
From LV Require Import Base.Bytes Dav.DavModel.
Import ListNotations.
Local Open Scope N_scope.

Lemma seg_eqb_eq a : forall b, seg_eqb a b = true <-> a = b.
Proof.
  induction a as [|x a IH]; intros [|y b]; cbn [seg_eqb]; split; intro H; try reflexivity; try discriminate.
  - apply andb_true_iff in H. destruct H as [H1 H2]. apply list_eqb_eq in H1. apply IH in H2. subst. reflexivity.
  - injection H as -> ->. apply andb_true_iff. split; [apply list_eqb_eq; reflexivity | apply IH; reflexivity].
Qed.
Lemma seg_eqb_refl a : seg_eqb a a = true. Proof. apply seg_eqb_eq. reflexivity. Qed.
Lemma seg_eqb_sym a b : seg_eqb a b = seg_eqb b a.
Proof.
  destruct (seg_eqb a b) eqn:E.
  - apply seg_eqb_eq in E. subst. symmetry. apply seg_eqb_refl.
  - destruct (seg_eqb b a) eqn:E2; [|reflexivity]. apply seg_eqb_eq in E2. subst. rewrite seg_eqb_refl in E. discriminate.
Qed.
Lemma under_refl a : under a a = true.
Proof. induction a as [|x a IH]; cbn; [reflexivity|]. rewrite IH, andb_true_r. apply list_eqb_eq. reflexivity. Qed.

(* ---------------------------------------------------------------- refused operations change nothing *)
Theorem refused_leaves_tree_unchanged t o t' : apply t o = (false, t') -> t' = t.
Proof.
  destruct o as [p c|p|p|s d ow d0|s d ow]; cbn [apply].
  - destruct p; [intro H; injection H as <-; reflexivity|]. destruct (_ || _); intro H; [injection H as <-; reflexivity | discriminate].
  - destruct p; [intro H; injection H as <-; reflexivity|]. destruct (exists_at _ _); intro H; [discriminate | injection H as <-; reflexivity].
  - destruct p; [intro H; injection H as <-; reflexivity|]. destruct (_ || _); intro H; [injection H as <-; reflexivity | discriminate].
  - destruct s; [intro H; injection H as <-; reflexivity|]. destruct d; [intro H; injection H as <-; reflexivity|].
    destruct (_ || _); intro H; [injection H as <-; reflexivity | discriminate].
  - destruct s; [intro H; injection H as <-; reflexivity|]. destruct d; [intro H; injection H as <-; reflexivity|].
    destruct (_ || _); intro H; [injection H as <-; reflexivity | discriminate].
Qed.

(* MOVE is COPY (Depth infinity) followed by removal of the source subtree *)
Theorem move_is_copy_then_delete t s d ow t' : apply t (Move s d ow) = (true, t') ->
  exists t1, apply t (Copy s d ow false) = (true, t1) /\ t' = remove_subtree t1 s.
Proof.
  cbn [apply]. destruct s; [discriminate|]. destruct d; [discriminate|].
  destruct (_ || _); [discriminate|]. intro H; injection H as <-. eexists. split; reflexivity.
Qed.

(* ---------------------------------------------------------------- lookups through the tree operations *)
Lemma lookup_set_node t p n q : lookup (set_node t p n) q = if seg_eqb p q then Some n else lookup t q.
Proof.
  unfold set_node. cbn [lookup]. destruct (seg_eqb p q) eqn:E; [reflexivity|].
  induction t as [|[r m] t IH]; cbn [filter lookup fst]; [reflexivity|].
  destruct (seg_eqb r p) eqn:E2; cbn [negb].
  - apply seg_eqb_eq in E2. subst r. rewrite E. exact IH.
  - cbn [lookup]. destruct (seg_eqb r q); [reflexivity | exact IH].
Qed.

Lemma lookup_remove_subtree t a q : under a q = false -> lookup (remove_subtree t a) q = lookup t q.
Proof.
  intro H. unfold remove_subtree. induction t as [|[r m] t IH]; cbn [filter lookup fst]; [reflexivity|].
  destruct (under a r) eqn:E; cbn [negb].
  - destruct (seg_eqb r q) eqn:E2; [|exact IH]. apply seg_eqb_eq in E2. subst r. rewrite H in E. discriminate.
  - cbn [lookup]. destruct (seg_eqb r q); [reflexivity | exact IH].
Qed.

Lemma lookup_removed t a q : under a q = true -> lookup (remove_subtree t a) q = None.
Proof.
  intro H. unfold remove_subtree. induction t as [|[r m] t IH]; cbn [filter lookup fst]; [reflexivity|].
  destruct (under a r) eqn:E; cbn [negb]; [exact IH|].
  cbn [lookup]. destruct (seg_eqb r q) eqn:E2; [|exact IH]. apply seg_eqb_eq in E2. subst r. rewrite H in E. discriminate.
Qed.

(* DELETE removes the subtree and nothing else *)
Theorem delete_touches_only_the_subtree t p t' q : apply t (Delete p) = (true, t') ->
  (under p q = true -> lookup t' q = None) /\ (under p q = false -> lookup t' q = lookup t q).
Proof.
  cbn [apply]. destruct p as [|x p']; [discriminate|]. destruct (exists_at t (x :: p')); [|discriminate].
  intro H; injection H as <-. split; [apply lookup_removed | apply lookup_remove_subtree].
Qed.

(* ---------------------------------------------------------------- PUT: temporary file + rename is all-or-nothing *)
Definition fs_run (t : tree) (steps : list fstep) : tree := fold_left fs_apply steps t.

Lemma appends_inv tmp p blocks : forall t acc,
  seg_eqb tmp p = false -> lookup t tmp = Some (File acc) ->
  let t' := fs_run t (map (AppendTmp tmp) blocks) in
  lookup t' p = lookup t p /\ lookup t' tmp = Some (File (acc ++ concat blocks)).
Proof.
  induction blocks as [|b bs IH]; intros t acc Hne Htmp; cbn [map fs_run fold_left concat].
  - rewrite app_nil_r. auto.
  - cbn [fs_apply]. rewrite Htmp.
    specialize (IH (set_node t tmp (File (acc ++ b))) (acc ++ b) Hne).
    rewrite lookup_set_node, seg_eqb_refl in IH. specialize (IH eq_refl). cbv zeta in IH. unfold fs_run in IH.
    destruct IH as [H1 H2]. split.
    + rewrite H1. rewrite lookup_set_node, Hne. reflexivity.
    + rewrite H2, <- app_assoc. reflexivity.
Qed.

(* Kill the server after any number k of the filesystem steps of a PUT: the target shows its previous state (whatever it was)
   or, once the rename has happened, exactly the complete new content -- never a partial or mixed file.
   (tmp is the staging name: different from the target and neither above nor below it.) *)
Theorem put_is_all_or_nothing t tmp p blocks k :
  seg_eqb tmp p = false -> under tmp p = false ->
  let t' := fs_run t (firstn k (put_steps tmp p blocks)) in
  lookup t' p = lookup t p \/ lookup t' p = Some (File (concat blocks)).
Proof.
  intros Hne Hun. unfold put_steps.
  destruct k as [|k]; [left; reflexivity|].
  cbn [firstn fs_run fold_left fs_apply].
  set (t0 := set_node t tmp (File [])).
  assert (H0p : lookup t0 p = lookup t p) by (unfold t0; rewrite lookup_set_node, Hne; reflexivity).
  assert (H0t : lookup t0 tmp = Some (File [])) by (unfold t0; rewrite lookup_set_node, seg_eqb_refl; reflexivity).
  destruct (Nat.le_gt_cases k (length blocks)) as [Hle|Hgt].
  - (* killed while appending: only a prefix of the blocks has been written, to the temporary file *)
    rewrite firstn_app. rewrite map_length. replace (k - length blocks)%nat with 0%nat by lia. cbn [firstn]. rewrite app_nil_r.
    rewrite <- map_firstn || rewrite firstn_map.
    destruct (appends_inv tmp p (firstn k blocks) t0 [] Hne H0t) as [H1 _]. cbv zeta in H1. unfold fs_run in H1.
    left. rewrite H1. exact H0p.
  - (* all appended and renamed *)
    rewrite firstn_all2 by (rewrite app_length, map_length; cbn; lia).
    rewrite fold_left_app. cbn [fold_left fs_apply].
    destruct (appends_inv tmp p blocks t0 [] Hne H0t) as [H1 H2]. cbv zeta in H1, H2. unfold fs_run in H1, H2.
    rewrite H2. right. rewrite lookup_set_node, seg_eqb_refl. reflexivity.
Qed.

(* and a completed PUT leaves no temporary file *)
Theorem put_leaves_no_temporary t tmp p blocks :
  lookup (fs_run t (put_steps tmp p blocks)) tmp = None \/ seg_eqb p tmp = true.
Proof.
  unfold put_steps. cbn [fs_run fold_left fs_apply]. rewrite fold_left_app. cbn [fold_left fs_apply].
  set (t0 := set_node t tmp (File [])).
  destruct (seg_eqb p tmp) eqn:E; [right; reflexivity | left].
  assert (H0t : lookup t0 tmp = Some (File [])) by (unfold t0; rewrite lookup_set_node, seg_eqb_refl; reflexivity).
  assert (Hne : seg_eqb tmp p = false) by (rewrite seg_eqb_sym; exact E).
  destruct (appends_inv tmp p blocks t0 [] Hne H0t) as [_ H2]. cbv zeta in H2. unfold fs_run in H2. rewrite H2.
  rewrite lookup_set_node, E. apply lookup_removed. apply under_refl.
Qed.
