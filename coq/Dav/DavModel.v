(* Dav/DavModel.v -- the tree semantics RFC 4918 prescribes for PUT, DELETE, MKCOL, COPY and MOVE (C18), as an executable
   specification over a tree of collections and files, and the staging protocol of a PUT (write a temporary file in the same
   directory, then rename) with every prefix of its steps as a possible kill point.
   Status codes are abstracted to "done" (2xx: the effect took place in full) / "refused" (tree unchanged). *)
From Coq Require Import List NArith Bool Lia.
From LV Require Import Base.Bytes.
Import ListNotations.
Local Open Scope N_scope.

Definition seg := list N.
Definition path := list seg.
Inductive node := Dir | File (c : list N).
Definition tree := list (path * node).          (* the root [] is a collection and is not listed *)

Fixpoint seg_eqb (a b : path) : bool :=
  match a, b with
  | [], [] => true
  | x :: a', y :: b' => list_eqb x y && seg_eqb a' b'
  | _, _ => false
  end.
Fixpoint lookup (t : tree) (p : path) : option node :=
  match t with [] => None | (q, n) :: r => if seg_eqb q p then Some n else lookup r p end.
Definition exists_at (t : tree) (p : path) : bool := match p with [] => true | _ => match lookup t p with Some _ => true | None => false end end.
Definition is_dir (t : tree) (p : path) : bool := match p with [] => true | _ => match lookup t p with Some Dir => true | _ => false end end.
Definition is_file (t : tree) (p : path) : bool := match lookup t p with Some (File _) => true | _ => false end.
Definition parent (p : path) : path := removelast p.
Fixpoint under (a p : path) : bool :=            (* a is p or an ancestor of p *)
  match a, p with
  | [], _ => true
  | x :: a', y :: p' => list_eqb x y && under a' p'
  | _ :: _, [] => false
  end.
Definition remove_subtree (t : tree) (p : path) : tree := filter (fun e => negb (under p (fst e))) t.
Definition set_node (t : tree) (p : path) (n : node) : tree := (p, n) :: filter (fun e => negb (seg_eqb (fst e) p)) t.
Definition rebase (src dst q : path) : path := dst ++ skipn (length src) q.
Definition copy_entries (t : tree) (src dst : path) (depth0 : bool) : tree :=
  map (fun e => (rebase src dst (fst e), snd e))
      (filter (fun e => if depth0 then seg_eqb (fst e) src else under src (fst e)) t).

Inductive op :=
| Put (p : path) (c : list N)
| Delete (p : path)
| Mkcol (p : path)
| Copy (src dst : path) (overwrite depth0 : bool)
| Move (src dst : path) (overwrite : bool).

(* (done?, tree afterwards); refused operations leave the tree as it was *)
Definition apply (t : tree) (o : op) : bool * tree :=
  match o with
  | Put p c =>
      match p with
      | [] => (false, t)
      | _ => if negb (is_dir t (parent p)) || is_dir t p then (false, t) else (true, set_node t p (File c))
      end
  | Delete p =>
      match p with
      | [] => (false, t)
      | _ => if exists_at t p then (true, remove_subtree t p) else (false, t)
      end
  | Mkcol p =>
      match p with
      | [] => (false, t)
      | _ => if exists_at t p || negb (is_dir t (parent p)) then (false, t) else (true, (p, Dir) :: t)
      end
  | Copy src dst ow d0 =>
      match src, dst with
      | [], _ | _, [] => (false, t)
      | _, _ =>
        if negb (exists_at t src) || negb (is_dir t (parent dst)) || under src dst || under dst src
           || (exists_at t dst && negb ow)
        then (false, t)
        else (true, copy_entries t src dst d0 ++ remove_subtree t dst)
      end
  | Move src dst ow =>
      match src, dst with
      | [], _ | _, [] => (false, t)
      | _, _ =>
        if negb (exists_at t src) || negb (is_dir t (parent dst)) || under src dst || under dst src
           || (exists_at t dst && negb ow)
        then (false, t)
        else (true, remove_subtree (copy_entries t src dst false ++ remove_subtree t dst) src)
      end
  end.

Fixpoint run (t : tree) (ops : list op) : list bool * tree :=
  match ops with
  | [] => ([], t)
  | o :: r => let '(b, t1) := apply t o in let '(bs, t2) := run t1 r in (b :: bs, t2)
  end.

(* ---------------------------------------------------------------- PUT staging: temporary file + rename *)
(* the steps lighttpd performs for PUT /p with body c, observable on the filesystem *)
Inductive fstep :=
| CreateTmp (tmp : path)
| AppendTmp (tmp : path) (bytes : list N)
| RenameTmp (tmp p : path)
| UnlinkTmp (tmp : path).

Definition fs_apply (t : tree) (s : fstep) : tree :=
  match s with
  | CreateTmp tmp => set_node t tmp (File [])
  | AppendTmp tmp b => match lookup t tmp with Some (File c) => set_node t tmp (File (c ++ b)) | _ => t end
  | RenameTmp tmp p => match lookup t tmp with Some n => set_node (remove_subtree t tmp) p n | None => t end
  | UnlinkTmp tmp => remove_subtree t tmp
  end.

Definition put_steps (tmp p : path) (blocks : list (list N)) : list fstep :=
  CreateTmp tmp :: map (AppendTmp tmp) blocks ++ [RenameTmp tmp p].
