From Coq Require Import List ZArith Bool Lia.
From LV Require Import Conn.ConnModel.
Import ListNotations.
Local Open Scope Z_scope.

Lemma gtb_lt a b : (a >? b) = true <-> b < a. Proof. rewrite Z.gtb_ltb. apply Z.ltb_lt. Qed.

(* a connection that is waiting for its client and hears nothing is released by the first sweep after its limit *)
Theorem silent_connection_is_released l c lim now :
  applicable_limit l c = Some lim ->
  (match st c with StClose => close_timeout_ts c | StWrite => if write_request_ts c =? 0 then read_idle_ts c else write_request_ts c | _ => read_idle_ts c end) + lim < now ->
  st (sweep l c now) = StGone.
Proof.
  unfold applicable_limit, sweep. destruct (st c) eqn:Hs; intros Hl Ht.
  - destruct (wait_in c); [|discriminate]. injection Hl as <-. cbn [andb orb].
    destruct (negb (request_count c =? 1)); cbn [andb].
    + assert (E : (now - read_idle_ts c >? keep_alive_idle l) = true) by (apply gtb_lt; lia). rewrite E. reflexivity.
    + assert (E : (now - read_idle_ts c >? max_read_idle l) = true) by (apply gtb_lt; lia). rewrite E. reflexivity.
  - destruct (wait_in c); [|discriminate]. injection Hl as <-. rewrite andb_false_r. cbn [andb orb].
    assert (E : (now - read_idle_ts c >? max_read_idle l) = true) by (apply gtb_lt; lia). rewrite E. reflexivity.
  - rewrite andb_false_r. destruct (write_request_ts c =? 0) eqn:Hw; cbn [negb] in *.
    + destruct (wait_in c); [|discriminate]. injection Hl as <-. cbn [andb orb].
      assert (E : (now - read_idle_ts c >? max_read_idle l) = true) by (apply gtb_lt; lia). rewrite E. reflexivity.
    + injection Hl as <-. assert (E : (now - write_request_ts c >? max_write_idle l) = true) by (apply gtb_lt; lia).
      rewrite E. cbn [andb]. rewrite orb_true_r. reflexivity.
  - injection Hl as <-. assert (E : (now - close_timeout_ts c >? linger l) = true) by (apply gtb_lt; lia). rewrite E. reflexivity.
  - discriminate.
Qed.

(* a connection that survived the sweep at `now` has made progress within its limit: nothing outlives limit + one tick *)
Theorem survivor_was_active l c lim now :
  st c <> StGone -> applicable_limit l c = Some lim -> st (sweep l c now) <> StGone ->
  now <= (match st c with StClose => close_timeout_ts c | StWrite => if write_request_ts c =? 0 then read_idle_ts c else write_request_ts c | _ => read_idle_ts c end) + lim.
Proof.
  intros Hg Hl Hs. destruct (Z.le_gt_cases now ((match st c with StClose => close_timeout_ts c | StWrite => if write_request_ts c =? 0 then read_idle_ts c else write_request_ts c | _ => read_idle_ts c end) + lim)) as [H|H]; [exact H|].
  exfalso. apply Hs. eapply silent_connection_is_released; [exact Hl | lia].
Qed.

Lemma sweep_gone l c now : st c = StGone -> st (sweep l c now) = StGone.
Proof. intro H. unfold sweep. rewrite H. exact H. Qed.

Lemma seconds_gone l es : forall c now, st c = StGone -> st (seconds l c es now) = StGone.
Proof.
  induction es as [|e t IH]; intros c now H; cbn [seconds]; [exact H|].
  apply IH. unfold second. apply sweep_gone. unfold client. rewrite H. exact H.
Qed.

Lemma sweep_same_or_gone l c n : st (sweep l c n) = StGone \/ sweep l c n = c.
Proof.
  unfold sweep. destruct (st c) eqn:Hs;
  repeat match goal with |- context [if ?b then _ else _] => destruct b end; auto; left; cbn; reflexivity.
Qed.

(* k seconds of silence, k beyond the limit: gone, whatever the state it was waiting in *)
Theorem silence_ends_every_wait l lim : forall k c now,
  applicable_limit l c = Some lim ->
  (match st c with StClose => close_timeout_ts c | StWrite => if write_request_ts c =? 0 then read_idle_ts c else write_request_ts c | _ => read_idle_ts c end) + lim < now + Z.of_nat k ->
  (0 < k)%nat ->
  st (seconds l c (repeat Silence k) now) = StGone.
Proof.
  induction k as [|k IH]; intros c now Hl Ht Hk; [lia|].
  cbn [repeat seconds]. unfold second.
  assert (Hc : client c Silence now = c) by (unfold client; destruct (st c); reflexivity). rewrite Hc.
  destruct (sweep_same_or_gone l c (now + 1)) as [Hg|Hsame]; [apply seconds_gone; exact Hg|].
  rewrite Hsame. destruct k as [|k'].
  - exfalso. assert (Hg : st (sweep l c (now + 1)) = StGone) by (eapply silent_connection_is_released; [exact Hl | lia]).
    rewrite Hsame in Hg. unfold applicable_limit in Hl. rewrite Hg in Hl. discriminate.
  - apply IH; [exact Hl | lia | lia].
Qed.

(* ---------------------------------------------------------------- admission *)
Definition SInv (s : srv) : Prop := 0 <= lim_conns s <= max_conns s /\ 0 <= backlog s.

Theorem never_more_than_max_connections s e : SInv s -> SInv (sstep s e) /\ 0 <= served (sstep s e) <= max_conns (sstep s e).
Proof.
  intros [Hl Hb]. unfold served, SInv. destruct e; cbn [sstep].
  - cbn [max_conns lim_conns backlog]. lia.
  - destruct (listening s && (0 <? lim_conns s)) eqn:E; cbn [max_conns lim_conns backlog]; lia.
  - destruct (Z.ltb_spec (lim_conns s) (max_conns s)); cbn [max_conns lim_conns backlog]; lia.
  - cbn [max_conns lim_conns backlog]. lia.
Qed.

(* overload is not permanent: once a connection is released, the next loop iteration re-enables the sockets and a waiting
   client is accepted *)
Theorem waiting_client_is_accepted_after_release s :
  SInv s -> lim_conns s = 0 -> 0 < backlog s -> 0 < max_conns s ->
  let s' := sstep (sstep (sstep s ConnDone) LoadCheck) AcceptLoop in
  backlog s' = backlog s - 1 /\ listening (sstep (sstep s ConnDone) LoadCheck) = true.
Proof.
  intros [Hl Hb] H0 Hq Hm. cbv zeta. cbn [sstep]. rewrite H0.
  destruct (Z.ltb_spec 0 (max_conns s)); [|lia]. cbn [max_conns lim_conns listening backlog].
  change (0 + 1 =? 0) with false. cbn [negb andb]. change (0 <? 0 + 1) with true. cbn [max_conns lim_conns listening backlog].
  split; [|reflexivity]. lia.
Qed.
