(* Conn/ConnModel.v -- connection lifetime rules (C13):
     * the once-per-second timeout sweep of an HTTP/1.x connection (h1_check_timeout): keep-alive idle, read idle, write idle,
       lingering close,
     * admission control: srv->lim_conns bookkeeping (connection_accepted / connection_del), the accept loop of
       network_server_handle_fdevent bounded by lim_conns, listening sockets disabled at 0 and re-enabled afterwards
       (server_load_check / server_overload_check).
   Time is the second counter the sweep is given. *)
From Coq Require Import List ZArith Bool Lia.
Import ListNotations.
Local Open Scope Z_scope.

Inductive cstate := StRead | StReadPost | StWrite | StClose | StGone.
Record conn := {
  st : cstate;
  request_count : Z;
  wait_in : bool;           (* FDEVENT_IN interest *)
  read_idle_ts : Z;
  write_request_ts : Z;     (* 0: not writing *)
  close_timeout_ts : Z
}.
Record limits := { keep_alive_idle : Z; max_read_idle : Z; max_write_idle : Z; linger : Z }.

Definition gone (c : conn) : conn :=
  {| st := StGone; request_count := request_count c; wait_in := false; read_idle_ts := read_idle_ts c; write_request_ts := write_request_ts c; close_timeout_ts := close_timeout_ts c |}.

(* h1_check_timeout + what connection_periodic_maint does with its verdict *)
Definition sweep (l : limits) (c : conn) (now : Z) : conn :=
  match st c with
  | StGone => c
  | StClose => if now - close_timeout_ts c >? linger l then gone c else c
  | _ =>
      let ka := negb (request_count c =? 1) && (match st c with StRead => true | _ => false end) in
      let rd_expired := wait_in c && (now - read_idle_ts c >? (if ka then keep_alive_idle l else max_read_idle l)) in
      let wr_expired := (match st c with StWrite => true | _ => false end) && negb (write_request_ts c =? 0) && (now - write_request_ts c >? max_write_idle l) in
      if rd_expired || wr_expired then gone c else c
  end.

(* what the client (or the response producer) may do between sweeps: progress refreshes the matching timestamp *)
Inductive cevent := ReadProgress | WriteProgress | Silence.
Definition client (c : conn) (e : cevent) (now : Z) : conn :=
  match st c, e with
  | StGone, _ => c
  | _, ReadProgress => {| st := st c; request_count := request_count c; wait_in := wait_in c; read_idle_ts := now; write_request_ts := write_request_ts c; close_timeout_ts := close_timeout_ts c |}
  | _, WriteProgress => {| st := st c; request_count := request_count c; wait_in := wait_in c; read_idle_ts := read_idle_ts c;
                           write_request_ts := (if write_request_ts c =? 0 then 0 else now); close_timeout_ts := close_timeout_ts c |}
  | _, Silence => c
  end.

(* one second: the client does something (or not), then the sweep runs *)
Definition second (l : limits) (c : conn) (e : cevent) (now : Z) : conn := sweep l (client c e now) (now + 1).
Fixpoint seconds (l : limits) (c : conn) (es : list cevent) (now : Z) : conn :=
  match es with [] => c | e :: t => seconds l (second l c e now) t (now + 1) end.

(* the limit that applies to a connection waiting for the client *)
Definition applicable_limit (l : limits) (c : conn) : option Z :=
  match st c with
  | StClose => Some (linger l)
  | StWrite => if negb (write_request_ts c =? 0) then Some (max_write_idle l) else if wait_in c then Some (max_read_idle l) else None
  | StRead => if wait_in c then Some (if negb (request_count c =? 1) then keep_alive_idle l else max_read_idle l) else None
  | StReadPost => if wait_in c then Some (max_read_idle l) else None
  | StGone => None
  end.

(* ---------------------------------------------------------------- admission control *)
Record srv := { max_conns : Z; lim_conns : Z; listening : bool; backlog : Z (* clients waiting in the kernel queue *) }.
Inductive sevent := Knock | AcceptLoop | ConnDone | LoadCheck.

Definition sstep (s : srv) (e : sevent) : srv :=
  match e with
  | Knock => {| max_conns := max_conns s; lim_conns := lim_conns s; listening := listening s; backlog := backlog s + 1 |}
  | AcceptLoop =>
      (* network_server_handle_fdevent: at most lim_conns accepts, only while the sockets are enabled *)
      if listening s && (0 <? lim_conns s)
      then let k := Z.min (lim_conns s) (backlog s) in
           {| max_conns := max_conns s; lim_conns := lim_conns s - k; listening := listening s; backlog := backlog s - k |}
      else s
  | ConnDone => if lim_conns s <? max_conns s
                then {| max_conns := max_conns s; lim_conns := lim_conns s + 1; listening := listening s; backlog := backlog s |} else s
  | LoadCheck =>   (* server_load_check then server_overload_check, once per main-loop iteration *)
      {| max_conns := max_conns s; lim_conns := lim_conns s; listening := negb (lim_conns s =? 0); backlog := backlog s |}
  end.
Definition served (s : srv) : Z := max_conns s - lim_conns s.
