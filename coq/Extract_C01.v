From LV Require Import Base.Bytes Gen.GenBurl Gen.GenH1 Url.UrlModel H1.H1Model H1.ConnH1.
Require Import ExtrOcamlBasic.
Extraction "model.ml" h1_parse run_conn.
