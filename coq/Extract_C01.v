From LV Require Import Base.Bytes Gen.GenBurl Gen.GenH1 Url.UrlModel H1.H1Model.
Require Import ExtrOcamlBasic.
Extraction "model.ml" h1_parse.
