(* Auth/AuthModel.v -- executable model of mod_auth.c's decision logic (C16).

   What is modelled (all as total functions on byte lists):
     * rule lookup on the request path (first auth.require key that is a prefix)        mod_auth_uri_handler
     * Basic: scheme test, length limit, li_base64_dec (standard alphabet), split at ':',
       credential cache (query / hit test / insert), backend call, 401/400 outcomes     mod_auth_check_basic
     * Digest: the parameter scanner, required-parameter / realm / algorithm / response-format /
       qop / uri checks, nonce timestamp + lifetime + nonce-secret recomputation,
       cache or backend lookup of H(A1), response recomputation, authorization          mod_auth_check_digest & helpers
     * the periodic cache cleanup                                                       mod_auth_periodic
   The "plain" backend (mod_authn_file.c) is modelled as a first-match lookup in a list of
   (user, password) pairs.  MD5 is a section variable: every theorem holds for any hash function;
   the extracted model is run with the real MD5.  The 32-bit cache key is djbhash seeded with a
   per-rule value (in C: the hash of the rule's address); theorems quantify over all seeds.
   Not modelled: "username*" (RFC 5987) and userhash=true requests ([Unmodelled] outcome). *)
From Coq Require Import List NArith ZArith Bool Lia.
From LV Require Import Base.Bytes Gen.GenAuth.
Import ListNotations.
Local Open Scope N_scope.

(* ---------------------------------------------------------------- small helpers *)
Definition hexval (c : N) : option N :=
  if (48 <=? c) && (c <=? 57) then Some (c - 48)
  else if (97 <=? c) && (c <=? 102) then Some (c - 87)
  else if (65 <=? c) && (c <=? 70) then Some (c - 55)
  else None.
Definition hexlc (v : N) : N := if v <? 10 then 48 + v else 87 + v.
Fixpoint tohex (s : list N) : list N :=
  match s with [] => [] | c :: t => hexlc (c / 16) :: hexlc (c mod 16) :: tohex t end.
Fixpoint all_hex (s : list N) : bool :=
  match s with [] => true | c :: t => match hexval c with Some _ => all_hex t | None => false end end.
Fixpoint hex2bin (s : list N) : list N :=
  match s with
  | a :: b :: t => match hexval a, hexval b with
                   | Some x, Some y => (x * 16 + y) :: hex2bin t
                   | _, _ => [] end
  | _ => []
  end.
(* buffer_eq_icase_ssn *)
Definition ieq_c (a b : N) : bool := (a =? b) || ((N.lxor a b =? 32) && is_alpha a).
Fixpoint ieq_prefix (p s : list N) : bool :=
  match p, s with
  | [], _ => true
  | a :: p', b :: s' => ieq_c a b && ieq_prefix p' s'
  | _ :: _, [] => false
  end.
Definition ieq (a b : list N) : bool := (length a =? length b)%nat && ieq_prefix a b.
Fixpoint be_bytes_fuel (fuel : nat) (n : N) (acc : list N) : list N :=
  match fuel with
  | O => acc
  | S f => let acc' := (n mod 256) :: acc in if n / 256 =? 0 then acc' else be_bytes_fuel f (n / 256) acc'
  end.
Definition uint_hex (n : N) : list N := tohex (be_bytes_fuel 10 n []).   (* buffer_append_uint_hex: whole bytes, lower case *)
Fixpoint le_bytes (k : nat) (n : N) : list N :=
  match k with O => [] | S k' => (n mod 256) :: le_bytes k' (n / 256) end.
Fixpoint split_at (c : N) (s : list N) : option (list N * list N) :=
  match s with
  | [] => None
  | x :: t => if x =? c then Some ([], t)
              else match split_at c t with Some (a, b) => Some (x :: a, b) | None => None end
  end.

(* ---------------------------------------------------------------- li_base64_dec, BASE64_STANDARD *)
Definition b64rev (c : N) : Z := if c <? 128 then nth (N.to_nat c) b64s_rev (-1)%Z else (-1)%Z.
Fixpoint b64_dec_loop (s : list N) (out4 i : N) (acc : list N) : list N * N * N * option N :=
  match s with
  | [] => (acc, out4, i, None)
  | c :: t =>
      let ch := b64rev c in
      if (ch <? 0)%Z then
        if (ch =? -2)%Z then b64_dec_loop t out4 i acc
        else (acc, out4, i, Some c)
      else
        let o := out4 * 64 + Z.to_N ch in
        if (i + 1) mod 4 =? 0
        then b64_dec_loop t 0 (i + 1) (o mod 256 :: (o / 256) mod 256 :: (o / 65536) mod 256 :: acc)
        else b64_dec_loop t o (i + 1) acc
  end.
Definition b64_dec (s : list N) : list N :=
  let '(acc, out4, i, brk) := b64_dec_loop s 0 0 [] in
  let sel := match brk with
             | None => i mod 4
             | Some c => if (b64rev c =? -3)%Z || negb (c =? 0) then i mod 4 else 1
             end in
  if sel =? 0 then rev acc
  else if sel =? 2 then rev acc ++ [(out4 / 16) mod 256]
  else if sel =? 3 then rev acc ++ [(out4 / 1024) mod 256; (out4 * 4 / 16) mod 256]
  else [].

(* ---------------------------------------------------------------- configuration and state *)
Record rule := {
  r_path : list N;            (* auth.require key *)
  r_digest : bool;            (* method: false = basic, true = digest *)
  r_realm : list N;
  r_valid_user : bool;
  r_users : list (list N);    (* user=... alternatives *)
  r_algo : N;                 (* HTTP_AUTH_DIGEST_* bit mask, always includes SESS *)
  r_secret : option (list N); (* nonce-secret *)
  r_seed : N                  (* djbhash of the rule's address (the per-rule part of the cache key) *)
}.
Definition db := list (list N * list N).          (* plain userfile: user, password; first match wins *)

Record entry := {
  e_rule : nat;               (* which auth.require rule (pointer identity in C) *)
  e_dalgo : N;
  e_user : list N;
  e_secret : list N;          (* password (basic) or H(A1) (digest) *)
  e_ctime : Z
}.
Definition cache := list (N * entry).             (* keys pairwise distinct (splay tree) *)

Record state := {
  s_cache : cache;
  s_mono : Z;                 (* log_monotonic_secs *)
  s_epoch : Z;                (* log_epoch_secs *)
  s_db : db;
  (* ghost: every credential the backend has vouched for: rule, algorithm, user, secret, when, and the database then *)
  g_validated : list (nat * N * list N * list N * Z * db)
}.

Inductive outcome :=
| Pass                                   (* no rule covers the path *)
| Serve (user : list N) (digest : bool)  (* HANDLER_GO_ON with REMOTE_USER set *)
| R401 | R400 | Unmodelled.

(* ---------------------------------------------------------------- cache *)
Definition djb_step (h c : N) : N := N.lxor ((h * 2 ^ djb_shift + h) mod 4294967296) c.
Definition djbhash (s : list N) (h : N) : N := fold_left djb_step s h.
Definition cache_key (r : rule) (user : list N) : N := djbhash user (r_seed r).

Fixpoint cache_query (c : cache) (k : N) : option entry :=
  match c with [] => None | (k', e) :: t => if k' =? k then Some e else cache_query t k end.
Fixpoint cache_insert (c : cache) (k : N) (e : entry) : cache :=
  match c with
  | [] => [(k, e)]
  | (k', e') :: t => if k' =? k then (k, e) :: t else (k', e') :: cache_insert t k e
  end.
Definition cache_cleanup (c : cache) (max_age now : Z) : cache :=
  filter (fun ke => negb (now - e_ctime (snd ke) >? max_age)%Z) c.

(* ---------------------------------------------------------------- backend "plain" *)
Fixpoint db_get (d : db) (user : list N) : option (list N) :=
  match d with [] => None | (u, p) :: t => if list_eqb u user then Some p else db_get t user end.
Fixpoint mem_bytes (x : list N) (l : list (list N)) : bool :=
  match l with [] => false | y :: t => list_eqb y x || mem_bytes x t end.
Definition match_rules (r : rule) (user : list N) : bool :=     (* http_auth_match_rules(require, user, NULL, NULL) *)
  r_valid_user r || mem_bytes (cstr user) (r_users r).
(* mod_authn_file_plain_basic: pw is used as a C string *)
Definition backend_basic (d : db) (r : rule) (user pw : list N) : bool :=
  match db_get d user with
  | Some p => list_eqb p (cstr pw) && match_rules r user
  | None => false
  end.

(* ---------------------------------------------------------------- rule lookup *)
Fixpoint find_rule (rules : list rule) (i : nat) (path : list N) : option (nat * rule) :=
  match rules with
  | [] => None
  | r :: t => if prefixb (r_path r) path then Some (i, r) else find_rule t (S i) path
  end.

Section WithHash.
Variable md5 : list N -> list N.

Record conf := { c_rules : list rule; c_cache : bool; c_max_age : Z }.

(* ---------------------------------------------------------------- Basic *)
Definition s_basic_sp : list N := [98; 97; 115; 105; 99; 32].      (* "basic " *)
Definition s_digest_sp : list N := [100; 105; 103; 101; 115; 116; 32].
Definition colon : N := 58.

Definition upd_cache (s : state) (c : cache) : state :=
  {| s_cache := c; s_mono := s_mono s; s_epoch := s_epoch s; s_db := s_db s; g_validated := g_validated s |}.
Definition add_validated (s : state) (v : nat * N * list N * list N * Z * db) : state :=
  {| s_cache := s_cache s; s_mono := s_mono s; s_epoch := s_epoch s; s_db := s_db s; g_validated := v :: g_validated s |}.

Definition basic_hit (cf : conf) (s : state) (ri : nat) (k : N) (user : list N) : option entry :=
  if c_cache cf then
    match cache_query (s_cache s) k with
    | Some e => if (e_rule e =? ri)%nat && list_eqb user (e_user e) then Some e else None
    | None => None
    end
  else None.

Definition check_basic (cf : conf) (s : state) (ri : nat) (r : rule) (auth : option (list N)) : outcome * state :=
  match auth with
  | None => (R401, s)
  | Some vb =>
      if negb (ieq_prefix s_basic_sp vb) then (R401, s) else
      let b64 := skipn 6 vb in
      if basic_b64_max <? N.of_nat (length b64) then (R401, s) else
      let dec := b64_dec b64 in
      match dec with
      | [] => (R400, s)
      | _ =>
        match split_at colon dec with
        | None => (R400, s)
        | Some (user, pw) =>
            let k := cache_key r user in
            let hit := basic_hit cf s ri k user in
            match hit with
            | Some e => if list_eqb (e_secret e) pw then (Serve user false, s) else (R401, s)
            | None =>
                if backend_basic (s_db s) r user pw then
                  let s1 := add_validated s (ri, 0, user, pw, s_mono s, s_db s) in
                  if c_cache cf
                  then (Serve user false,
                        upd_cache s1 (cache_insert (s_cache s) k
                          {| e_rule := ri; e_dalgo := 0; e_user := user; e_secret := pw; e_ctime := s_mono s |}))
                  else (Serve user false, s1)
                else (R401, s)
            end
        end
      end
  end.

(* ---------------------------------------------------------------- Digest: parameter scanner *)
Definition is_sep (c : N) : bool := (c =? 32) || (c =? 9) || (c =? 44).     (* ' ' '\t' ',' *)
Fixpoint skip_sep (s : list N) : list N :=
  match s with c :: t => if is_sep c then skip_sep t else s | [] => [] end.
Fixpoint tok_len (s : list N) : nat :=       (* up to '=' ' ' '\t' '\0' *)
  match s with
  | c :: t => if (c =? 61) || (c =? 32) || (c =? 9) then O else S (tok_len t)
  | [] => O
  end.
Fixpoint lookup_kv (tok : list N) (kv : list (list N * nat)) : option nat :=
  match kv with
  | [] => None
  | (k, id) :: t => if list_eqb k tok then Some id else lookup_kv tok t
  end.
(* quoted value: s is just after the opening quote; result: length up to the closing quote *)
Fixpoint quoted_len (s : list N) : option nat :=
  match s with
  | [] => None
  | c :: t =>
      if c =? 34 then Some O
      else if c =? 92 then
        match t with
        | [] => None                                  (* '\\' then '\0' *)
        | _ :: t' => match quoted_len t' with Some n => Some (S (S n)) | None => None end
        end
      else match quoted_len t with Some n => Some (S n) | None => None end
  end.
Fixpoint bare_len (s : list N) : nat :=      (* up to ',' ' ' '\t' '\0' *)
  match s with
  | c :: t => if is_sep c then O else S (bare_len t)
  | [] => O
  end.
Fixpoint strchr_comma (s : list N) : option (list N) :=
  match s with [] => None | c :: t => if c =? 44 then Some s else strchr_comma t end.

Definition params := list (nat * list N).             (* latest binding first *)
Definition pget (p : params) (id : nat) : option (list N) :=
  match find (fun kv => Nat.eqb (fst kv) id) p with Some kv => Some (snd kv) | None => None end.
Definition plen (p : params) (id : nat) : nat := match pget p id with Some v => length v | None => O end.
Definition pval (p : params) (id : nat) : list N := match pget p id with Some v => v | None => [] end.
Definition trunc16 (v : list N) : list N := firstn (N.to_nat (N.of_nat (length v) mod 65536)) v.

Fixpoint parse_loop (fuel : nat) (c : list N) (dp : params) : params :=
  match fuel with
  | O => dp
  | S f =>
    match c with
    | [] => dp
    | _ =>
      let c1 := skip_sep c in
      match c1 with
      | [] => dp
      | _ :: c1tail =>
        let tn := tok_len c1 in
        match lookup_kv (firstn tn c1) digest_kv with
        | None => parse_loop f c1tail dp                 (* no key matched: the outer c++ *)
        | Some id =>
            let c2 := skipn tn c1 in
            let c3 := match c2 with
                      | x :: _ => if x =? 61 then Some c2 else
                                   let c2' := skip_blank c2 in
                                   match c2' with y :: _ => if y =? 61 then Some c2' else None | [] => None end
                      | [] => None
                      end in
            match c3 with
            | None => dp
            | Some c3 =>
                let c4 := skip_blank (tl c3) in
                let qv := match c4 with
                          | x :: t => if x =? 34 then
                                        match quoted_len t with
                                        | Some n => Some (firstn n t, skipn n t)
                                        | None => None
                                        end
                                      else Some (firstn (bare_len c4) c4, skipn (bare_len c4) c4)
                          | [] => Some ([], [])
                          end in
                match qv with
                | None => dp
                | Some (v, rest) =>
                    let dp' := (id, trunc16 v) :: dp in
                    let rest' := match rest with
                                 | x :: _ => if x =? 44 then Some rest else strchr_comma rest
                                 | [] => None
                                 end in
                    match rest' with
                    | None => dp'
                    | Some r => parse_loop f (tl r) dp'  (* break; then the outer c++ steps over ',' *)
                    end
                end
            end
        end
      end
    end
  end.

Definition parse_authorization (c : list N) : params := parse_loop (S (length c)) c [].

(* ---------------------------------------------------------------- Digest: validation *)
Definition s_auth_int : list N := [97; 117; 116; 104; 45; 105; 110; 116].
Definition lower_or (c : N) : N := N.lor c 32.

(* mod_auth_algorithm_parse (build without USE_LIB_CRYPTO: MD5 and MD5-sess only) *)
Definition algorithm_parse (a : list N) : option N :=
  match a with
  | [] => Some HTTP_AUTH_DIGEST_MD5
  | _ =>
    let n := length a in
    let sess := (5 <? n)%nat &&
                match skipn (n - 5) a with
                | [d; s1; e; s2; s3] => (d =? 45) && (lower_or s1 =? 115) && (lower_or e =? 101) && (lower_or s2 =? 115) && (lower_or s3 =? 115)
                | _ => false
                end in
    let base := if sess then firstn (n - 5) a else a in
    match base with
    | [m; d; f] => if (lower_or m =? 109) && (lower_or d =? 100) && (f =? 53)
                   then Some (N.lor (if sess then HTTP_AUTH_DIGEST_SESS else HTTP_AUTH_DIGEST_NONE) HTTP_AUTH_DIGEST_MD5)
                   else None
    | _ => None
    end
  end.

Fixpoint hex_prefix (k : nat) (s : list N) (acc : N) : N * list N :=     (* up to k hex digits *)
  match k with
  | O => (acc, s)
  | S k' => match s with
            | c :: t => match hexval c with Some v => hex_prefix k' t (acc * 16 + v) | None => (acc, s) end
            | [] => (acc, s)
            end
  end.
Definition to_int64 (n : N) : Z :=
  let m := (Z.of_N n mod 18446744073709551616)%Z in if (m <? 9223372036854775808)%Z then m else (m - 18446744073709551616)%Z.
Definition wrap64 (z : Z) : Z :=
  let m := (z mod 18446744073709551616)%Z in if (m <? 9223372036854775808)%Z then m else (m - 18446744073709551616)%Z.

(* mod_auth_append_nonce *)
Definition mk_nonce (ts : Z) (rnd : N) (secret : option (list N)) : list N :=
  let tsb := le_bytes 8 (Z.to_N (ts mod 18446744073709551616)%Z) in
  let rb := le_bytes 4 rnd in
  uint_hex (Z.to_N (ts mod 18446744073709551616)%Z) ++ [colon] ++
  match secret with
  | None => tohex (md5 (tsb ++ rb))
  | Some sec => uint_hex rnd ++ [colon] ++ tohex (md5 (tsb ++ rb ++ sec))
  end.

Inductive nonce_verdict := NonceOk | NonceStale | NonceBad400 | NonceMismatch.
Definition validate_nonce (r : rule) (now : Z) (nonce : list N) : nonce_verdict :=
  let '(tsn, rest) := hex_prefix nonce_ts_digits nonce 0 in
  let ts := to_int64 tsn in
  match rest with
  | c :: rest1 =>
      if negb (c =? colon) || (ts <? 0)%Z || (ts >? now)%Z || (now - ts >? nonce_lifetime)%Z then NonceStale else
      match r_secret r with
      | None => NonceOk
      | Some _ =>
          let '(rnd, rest2) := hex_prefix nonce_rnd_digits rest1 0 in
          match rest2 with
          | c2 :: _ => if negb (c2 =? colon) then NonceBad400
                       else if list_eqb (mk_nonce ts (rnd mod 4294967296) (r_secret r)) nonce then NonceOk else NonceMismatch
          | [] => NonceBad400
          end
      end
  | [] => NonceStale
  end.

(* mod_auth_digest_mutate: the expected response *)
Definition expected_response (dalgo : N) (ha1 : list N) (dp : params) (method : list N) : list N :=
  let nonce := pval dp e_nonce in
  let cnonce := pval dp e_cnonce in
  let a1 := tohex ha1 in
  let a1' := if N.land dalgo HTTP_AUTH_DIGEST_SESS =? 0 then a1
             else tohex (md5 (a1 ++ [colon] ++ nonce ++ [colon] ++ cnonce)) in
  let a2 := tohex (md5 (method ++ [colon] ++ pval dp e_uri)) in
  md5 (a1' ++ [colon] ++ nonce ++ [colon] ++
       (if Nat.eqb (plen dp e_qop) 0 then []
        else pval dp e_nc ++ [colon] ++ cnonce ++ [colon] ++ pval dp e_qop ++ [colon]) ++ a2).

Definition present (dp : params) (id : nat) : bool := match pget dp id with Some _ => true | None => false end.

(* the checks of mod_auth_digest_validate_params, in order; None = passed *)
Definition validate_params (r : rule) (dp : params) (target : list N) : option outcome * N :=
  if negb ((negb (present dp e_qop) || (present dp e_nc && present dp e_cnonce))
           && xorb (present dp e_username) (present dp e_userstar)
           && present dp e_realm && present dp e_nonce && present dp e_uri && present dp e_response)
  then (Some R400, 0)
  else if present dp e_userstar || Nat.eqb (plen dp e_userhash) 4 then (Some Unmodelled, 0)
  else if negb (list_eqb (r_realm r) (pval dp e_realm)) then (Some R401, 0)
  else match algorithm_parse (pval dp e_algorithm) with
       | None => (Some R401, 0)
       | Some dalgo =>
           if N.land (N.land (r_algo r) dalgo) (N.lor HTTP_AUTH_DIGEST_MD5 (N.lor HTTP_AUTH_DIGEST_SHA256 HTTP_AUTH_DIGEST_SHA512_256)) =? 0
           then (Some R401, dalgo)
           else if negb (N.land dalgo HTTP_AUTH_DIGEST_SESS =? 0) && negb (present dp e_cnonce) then (Some R400, dalgo)
           else if negb (Nat.eqb (plen dp e_response) (2 * N.to_nat MD5_BINLEN)) || negb (all_hex (pval dp e_response))
           then (Some R400, dalgo)
           else if present dp e_qop && ieq (pval dp e_qop) s_auth_int then (Some R400, dalgo)
           else if negb (list_eqb target (pval dp e_uri)) then (Some R400, dalgo)
           else (None, dalgo)
       end.

Definition backend_digest (d : db) (user realm : list N) : option (list N) :=
  match db_get d user with
  | Some p => Some (md5 (user ++ [colon] ++ realm ++ [colon] ++ p))
  | None => None
  end.

Definition digest_hit (cf : conf) (s : state) (ri : nat) (k : N) (dalgo : N) (user : list N) : option (list N) :=
  if c_cache cf then
    match cache_query (s_cache s) k with
    | Some e => if (e_rule e =? ri)%nat && (e_dalgo e =? dalgo)
                   && (N.of_nat (length (e_secret e)) =? MD5_BINLEN) && list_eqb (e_user e) user
                then Some (e_secret e) else None
    | None => None
    end
  else None.

Definition check_digest (cf : conf) (s : state) (ri : nat) (r : rule) (method target : list N) (auth : option (list N))
  : outcome * state :=
  match auth with
  | None => (R401, s)
  | Some vb =>
      if negb (ieq_prefix s_digest_sp vb) then (R401, s) else
      let dp := parse_authorization (skipn 7 vb) in
      match validate_params r dp target with
      | (Some o, _) => (o, s)
      | (None, dalgo) =>
          match validate_nonce r (s_epoch s) (pval dp e_nonce) with
          | NonceStale | NonceMismatch => (R401, s)
          | NonceBad400 => (R400, s)
          | NonceOk =>
              let user := pval dp e_username in
              let k := cache_key r user in
              let hit := digest_hit cf s ri k dalgo user in
              let got := match hit with
                         | Some h => Some (h, s)
                         | None =>
                             match backend_digest (s_db s) user (pval dp e_realm) with
                             | None => None
                             | Some h =>
                                 let s1 := add_validated s (ri, dalgo, user, h, s_mono s, s_db s) in
                                 Some (h, if c_cache cf
                                          then upd_cache s1 (cache_insert (s_cache s) k
                                                 {| e_rule := ri; e_dalgo := dalgo; e_user := user; e_secret := h; e_ctime := s_mono s |})
                                          else s1)
                             end
                         end in
              match got with
              | None => (R401, s)
              | Some (ha1, s') =>
                  if negb (list_eqb (hex2bin (pval dp e_response)) (expected_response dalgo ha1 dp method)) then (R401, s')
                  else if negb (match_rules r user) then (R401, s')
                  else (Serve user true, s')
              end
          end
      end
  end.

(* ---------------------------------------------------------------- the request handler and the clock *)
Inductive op :=
| OpDb (d : db)                                                    (* the userfile is rewritten *)
| OpTick                                                           (* one second passes; mod_auth_periodic runs *)
| OpSkew (d : Z)                                                   (* the wall clock jumps (epoch only) *)
| OpReq (method path target : list N) (auth : option (list N)).

Definition handle (cf : conf) (s : state) (method path target : list N) (auth : option (list N)) : outcome * state :=
  match find_rule (c_rules cf) 0 path with
  | None => (Pass, s)
  | Some (ri, r) => if r_digest r then check_digest cf s ri r method target auth else check_basic cf s ri r auth
  end.

Definition tick (cf : conf) (s : state) : state :=
  let m := (s_mono s + 1)%Z in
  {| s_cache := if (Z.land m cleanup_mask =? 0)%Z then cache_cleanup (s_cache s) (c_max_age cf) m else s_cache s;
     s_mono := m; s_epoch := (s_epoch s + 1)%Z; s_db := s_db s; g_validated := g_validated s |}.

Definition step (cf : conf) (s : state) (o : op) : option outcome * state :=
  match o with
  | OpDb d => (None, {| s_cache := s_cache s; s_mono := s_mono s; s_epoch := s_epoch s; s_db := d; g_validated := g_validated s |})
  | OpTick => (None, tick cf s)
  | OpSkew d => (None, {| s_cache := s_cache s; s_mono := s_mono s; s_epoch := (s_epoch s + d)%Z; s_db := s_db s; g_validated := g_validated s |})
  | OpReq m p t a => let '(o, s') := handle cf s m p t a in (Some o, s')
  end.

Fixpoint run (cf : conf) (s : state) (ops : list op) : list outcome * state :=
  match ops with
  | [] => ([], s)
  | o :: t => let '(r, s1) := step cf s o in
              let '(rs, s2) := run cf s1 t in
              (match r with Some x => x :: rs | None => rs end, s2)
  end.

End WithHash.
