(* Auth/AuthProofs.v -- C16: what a served request proves, for every header, history, clock and cache-key function. *)
From Coq Require Import List NArith ZArith Bool Lia.
From LV Require Import Base.Bytes Gen.GenAuth Auth.AuthModel.
Import ListNotations.
Local Open Scope Z_scope.

(* ---------------------------------------------------------------- cache lemmas *)
Lemma cache_query_in c k e : cache_query c k = Some e -> In (k, e) c.
Proof.
  induction c as [|[k' e'] t IH]; cbn [cache_query]; intro H; [discriminate|].
  destruct (N.eqb_spec k' k) as [->|_].
  - injection H as ->. left; reflexivity.
  - right; auto.
Qed.

Lemma cache_insert_in c k e k' e' :
  In (k', e') (cache_insert c k e) -> (k' = k /\ e' = e) \/ In (k', e') c.
Proof.
  induction c as [|[k0 e0] t IH]; cbn [cache_insert].
  - intros [H|[]]. injection H as -> ->. left; auto.
  - destruct (N.eqb_spec k0 k) as [->|_].
    + intros [H|H]; [injection H as -> ->; left; auto | right; right; exact H].
    + intros [H|H]; [right; left; exact H|]. destruct (IH H) as [?|?]; [left; assumption | right; right; assumption].
Qed.

Lemma cache_cleanup_in c ma now x :
  In x (cache_cleanup c ma now) -> In x c /\ now - e_ctime (snd x) <= ma.
Proof.
  unfold cache_cleanup. rewrite filter_In. intros [Hi Hf]. split; [exact Hi|].
  apply negb_true_iff in Hf. rewrite Z.gtb_ltb in Hf. apply Z.ltb_ge in Hf. exact Hf.
Qed.

Lemma find_rule_nth rules : forall i path j r,
  find_rule rules i path = Some (j, r) -> (i <= j)%nat /\ nth_error rules (j - i) = Some r /\ prefixb (r_path r) path = true.
Proof.
  induction rules as [|r0 t IH]; cbn [find_rule]; intros i path j r H; [discriminate|].
  destruct (prefixb (r_path r0) path) eqn:Hp.
  - injection H as <- <-. rewrite Nat.sub_diag. cbn. auto.
  - destruct (IH _ _ _ _ H) as (Hle & Hn & Hp'). split; [lia|]. split; [|exact Hp'].
    replace (j - i)%nat with (S (j - S i)) by lia. exact Hn.
Qed.

Lemma algorithm_parse_nonzero a d : algorithm_parse a = Some d -> d <> 0%N.
Proof.
  unfold algorithm_parse. destruct a as [|x a']; [intro H; injection H as <-; unfold HTTP_AUTH_DIGEST_MD5; discriminate|].
  set (l := x :: a'). clearbody l.
  match goal with |- context [if ?c then firstn _ _ else _] => destruct c end;
  match goal with |- match ?b with _ => _ end = _ -> _ => destruct b as [|m [|dd [|f [|]]]]; try discriminate end;
  (destruct (_ && _ && _); [|discriminate]); intro H; injection H as <-; intro H0; vm_compute in H0; discriminate H0.
Qed.

Section Proofs.
Variable md5 : list N -> list N.
Variable cf : conf.
Hypothesis max_age_nonneg : 0 <= c_max_age cf.

(* what an entry of the ghost log means: at time t, with database d, the backend accepted (user, secret) for rule ri *)
Definition vouch_ok (v : nat * N * list N * list N * Z * db) : Prop :=
  let '(ri, dalgo, user, secret, t, d) := v in
  exists r, nth_error (c_rules cf) ri = Some r /\
    (dalgo = 0%N -> r_digest r = false /\ backend_basic d r user secret = true) /\
    (dalgo <> 0%N -> r_digest r = true /\ backend_digest md5 d user (r_realm r) = Some secret).

Definition vtime (v : nat * N * list N * list N * Z * db) : Z := let '(_, _, _, _, t, _) := v in t.

Definition Inv (s : state) : Prop :=
  (forall v, In v (g_validated s) -> vouch_ok v /\ vtime v <= s_mono s) /\
  (forall k e, In (k, e) (s_cache s) ->
      (exists d, In (e_rule e, e_dalgo e, e_user e, e_secret e, e_ctime e, d) (g_validated s)) /\
      e_ctime e <= s_mono s /\
      s_mono s - e_ctime e <= c_max_age cf + Z.land (s_mono s) cleanup_mask).

Definition s0 (mono epoch : Z) : state := {| s_cache := []; s_mono := mono; s_epoch := epoch; s_db := []; g_validated := [] |}.
Lemma Inv_init mono epoch : Inv (s0 mono epoch).
Proof. split; cbn; intros; contradiction. Qed.

Lemma land_mask_bounds m : 0 <= Z.land m cleanup_mask <= 7.
Proof.
  unfold cleanup_mask.
  assert (H : Z.land m 7 = m mod 8) by (change 7 with (Z.ones 3); rewrite Z.land_ones by lia; reflexivity).
  rewrite H. pose proof (Z.mod_pos_bound m 8 ltac:(lia)). lia.
Qed.

(* a credential vouched for recently enough that the cache may still hold it *)
Definition fresh_vouch (s : state) (ri : nat) (dalgo : N) (u sec : list N) : Prop :=
  c_cache cf = true /\
  exists t d, In (ri, dalgo, u, sec, t, d) (g_validated s) /\ vouch_ok (ri, dalgo, u, sec, t, d) /\
              t <= s_mono s /\ s_mono s - t <= c_max_age cf + 7.

Lemma hit_fresh s k e : Inv s -> c_cache cf = true -> In (k, e) (s_cache s) ->
  fresh_vouch s (e_rule e) (e_dalgo e) (e_user e) (e_secret e).
Proof.
  intros [Hv Hc] Hcache Hin. destruct (Hc _ _ Hin) as ((d & Hd) & Hle & Hage).
  split; [exact Hcache|]. exists (e_ctime e), d. split; [exact Hd|]. split; [apply (Hv _ Hd)|]. split; [exact Hle|].
  pose proof (land_mask_bounds (s_mono s)). lia.
Qed.

(* ---------------------------------------------------------------- Basic *)
Definition basic_ok (s : state) (ri : nat) (r : rule) (a : option (list N)) (u : list N) : Prop :=
  exists vb pw, a = Some vb /\ ieq_prefix s_basic_sp vb = true /\
    (N.of_nat (length (skipn 6 vb)) <= basic_b64_max)%N /\
    split_at colon (b64_dec (skipn 6 vb)) = Some (u, pw) /\
    (backend_basic (s_db s) r u pw = true \/
     exists dalgo, fresh_vouch s ri dalgo u pw).

Lemma basic_hit_spec s ri k user e :
  basic_hit cf s ri k user = Some e -> c_cache cf = true /\ In (k, e) (s_cache s) /\ e_rule e = ri /\ e_user e = user.
Proof.
  unfold basic_hit. destruct (c_cache cf); [|discriminate].
  destruct (cache_query (s_cache s) k) as [e'|] eqn:Hq; [|discriminate].
  destruct (_ && _) eqn:Hc; [|discriminate]. intro H; injection H as <-.
  apply andb_true_iff in Hc. destruct Hc as [H1 H2]. apply Nat.eqb_eq in H1. apply list_eqb_eq in H2.
  split; [reflexivity|]. split; [apply cache_query_in; exact Hq|]. split; [exact H1 | symmetry; exact H2].
Qed.

(* the only state changes a request makes: a vouched credential is logged and possibly cached *)
Definition grows (s s' : state) (ri : nat) (r : rule) : Prop :=
  s' = s \/
  exists dalgo user sec e,
    vouch_ok (ri, dalgo, user, sec, s_mono s, s_db s) /\
    e = {| e_rule := ri; e_dalgo := dalgo; e_user := user; e_secret := sec; e_ctime := s_mono s |} /\
    s_mono s' = s_mono s /\ s_epoch s' = s_epoch s /\ s_db s' = s_db s /\
    g_validated s' = (ri, dalgo, user, sec, s_mono s, s_db s) :: g_validated s /\
    (s_cache s' = s_cache s \/ exists k, s_cache s' = cache_insert (s_cache s) k e).

Lemma check_basic_spec s ri r a o s' :
  Inv s -> nth_error (c_rules cf) ri = Some r -> r_digest r = false ->
  check_basic cf s ri r a = (o, s') ->
  grows s s' ri r /\ (forall u d, o = Serve u d -> d = false /\ basic_ok s ri r a u).
Proof.
  intros HI Hn Hrd. unfold check_basic.
  destruct a as [vb|]; [|intro H; injection H as <- <-; split; [left; reflexivity | intros; discriminate]].
  destruct (negb (ieq_prefix s_basic_sp vb)) eqn:Hp; [intro H; injection H as <- <-; split; [left; reflexivity | intros; discriminate]|].
  apply negb_false_iff in Hp.
  cbv zeta.
  destruct (basic_b64_max <? N.of_nat (length (skipn 6 vb)))%N eqn:Hlen; [intro H; injection H as <- <-; split; [left; reflexivity | intros; discriminate]|].
  apply N.ltb_ge in Hlen.
  destruct (b64_dec (skipn 6 vb)) as [|c0 dec'] eqn:Hdec; [intro H; injection H as <- <-; split; [left; reflexivity | intros; discriminate]|].
  destruct (split_at colon (c0 :: dec')) as [[user pw]|] eqn:Hsp; [|intro H; injection H as <- <-; split; [left; reflexivity | intros; discriminate]].
  destruct (basic_hit cf s ri (cache_key r user) user) as [e|] eqn:Hhit.
  - destruct (basic_hit_spec _ _ _ _ _ Hhit) as (Hc & Hin & Her & Heu).
    destruct (list_eqb (e_secret e) pw) eqn:Hpw; intro H; injection H as <- <-; (split; [left; reflexivity|]); intros u d Hs; [|discriminate].
    injection Hs as <- <-. split; [reflexivity|]. exists vb, pw. rewrite Hdec.
    repeat (split; [assumption || reflexivity|]). right. exists (e_dalgo e).
    apply list_eqb_eq in Hpw. pose proof (hit_fresh s _ e HI Hc Hin) as Hf. rewrite Her, Heu, Hpw in Hf. exact Hf.
  - destruct (backend_basic (s_db s) r user pw) eqn:Hb; [|intro H; injection H as <- <-; split; [left; reflexivity | intros; discriminate]].
    assert (Hv : vouch_ok (ri, 0%N, user, pw, s_mono s, s_db s)).
    { exists r. split; [exact Hn|]. split; [intros _; split; assumption | intro Hx; contradiction Hx; reflexivity]. }
    destruct (c_cache cf) eqn:Hc; intro H; injection H as <- <-.
    + split.
      * right. exists 0%N, user, pw, {| e_rule := ri; e_dalgo := 0; e_user := user; e_secret := pw; e_ctime := s_mono s |}.
        cbn. repeat (split; [assumption || reflexivity|]). right. eexists; reflexivity.
      * intros u d Hs. injection Hs as <- <-. split; [reflexivity|]. exists vb, pw. rewrite Hdec.
        repeat (split; [assumption || reflexivity|]). left; exact Hb.
    + split.
      * right. exists 0%N, user, pw, {| e_rule := ri; e_dalgo := 0; e_user := user; e_secret := pw; e_ctime := s_mono s |}.
        cbn. repeat (split; [assumption || reflexivity|]). left; reflexivity.
      * intros u d Hs. injection Hs as <- <-. split; [reflexivity|]. exists vb, pw. rewrite Hdec.
        repeat (split; [assumption || reflexivity|]). left; exact Hb.
Qed.

(* ---------------------------------------------------------------- Digest *)
Definition nonce_ok (r : rule) (now : Z) (nonce : list N) : Prop :=
  exists tsn rest, hex_prefix nonce_ts_digits nonce 0 = (tsn, colon :: rest) /\
    0 <= to_int64 tsn <= now /\ now - to_int64 tsn <= nonce_lifetime /\
    (forall sec, r_secret r = Some sec -> exists rnd, nonce = mk_nonce md5 (to_int64 tsn) rnd (Some sec)).

Lemma validate_nonce_ok r now nonce : validate_nonce md5 r now nonce = NonceOk -> nonce_ok r now nonce.
Proof.
  unfold validate_nonce, nonce_ok.
  destruct (hex_prefix nonce_ts_digits nonce 0) as [tsn rest] eqn:Hh.
  destruct rest as [|c rest1]; [discriminate|].
  destruct (negb (c =? colon)%N || (to_int64 tsn <? 0) || (to_int64 tsn >? now) || (now - to_int64 tsn >? nonce_lifetime)) eqn:Hc; [discriminate|].
  apply orb_false_iff in Hc. destruct Hc as [Hc H4]. apply orb_false_iff in Hc. destruct Hc as [Hc H3].
  apply orb_false_iff in Hc. destruct Hc as [H1 H2].
  apply negb_false_iff in H1. apply N.eqb_eq in H1. subst c.
  apply Z.ltb_ge in H2. rewrite Z.gtb_ltb in H3, H4. apply Z.ltb_ge in H3. apply Z.ltb_ge in H4.
  intro H. exists tsn, rest1. split; [reflexivity|]. split; [lia|]. split; [lia|].
  intros sec Hsec. rewrite Hsec in H.
  destruct (hex_prefix nonce_rnd_digits rest1 0) as [rnd rest2]. destruct rest2 as [|c2 ?]; [discriminate|].
  destruct (negb (c2 =? colon)%N); [discriminate|].
  destruct (list_eqb _ nonce) eqn:He; [|discriminate]. apply list_eqb_eq in He. eexists. symmetry. exact He.
Qed.

Definition algo_allowed (r : rule) (dalgo : N) : Prop :=
  N.land (N.land (r_algo r) dalgo) (N.lor HTTP_AUTH_DIGEST_MD5 (N.lor HTTP_AUTH_DIGEST_SHA256 HTTP_AUTH_DIGEST_SHA512_256)) <> 0%N.

Definition digest_ok (s : state) (ri : nat) (r : rule) (m t : list N) (a : option (list N)) (u : list N) : Prop :=
  exists vb dalgo ha1, a = Some vb /\ ieq_prefix s_digest_sp vb = true /\
    let dp := parse_authorization (skipn 7 vb) in
    present dp e_username = true /\ pval dp e_username = u /\
    pval dp e_realm = r_realm r /\
    pval dp e_uri = t /\
    algorithm_parse (pval dp e_algorithm) = Some dalgo /\ algo_allowed r dalgo /\
    nonce_ok r (s_epoch s) (pval dp e_nonce) /\
    hex2bin (pval dp e_response) = expected_response md5 dalgo ha1 dp m /\
    match_rules r u = true /\
    (backend_digest md5 (s_db s) u (r_realm r) = Some ha1 \/ fresh_vouch s ri dalgo u ha1).

Lemma validate_params_pass r dp target dalgo :
  validate_params r dp target = (None, dalgo) ->
  present dp e_username = true /\ pval dp e_realm = r_realm r /\ pval dp e_uri = target /\
  algorithm_parse (pval dp e_algorithm) = Some dalgo /\ algo_allowed r dalgo.
Proof.
  unfold validate_params.
  destruct (negb _) eqn:Hreq; [discriminate|]. apply negb_false_iff in Hreq.
  destruct (present dp e_userstar || Nat.eqb (plen dp e_userhash) 4) eqn:Hus; [discriminate|].
  apply orb_false_iff in Hus. destruct Hus as [Hus _].
  destruct (negb (list_eqb (r_realm r) (pval dp e_realm))) eqn:Hrealm; [discriminate|].
  apply negb_false_iff in Hrealm. apply list_eqb_eq in Hrealm.
  destruct (algorithm_parse (pval dp e_algorithm)) as [d|] eqn:Ha; [|discriminate].
  destruct (N.eqb_spec (N.land (N.land (r_algo r) d) (N.lor HTTP_AUTH_DIGEST_MD5 (N.lor HTTP_AUTH_DIGEST_SHA256 HTTP_AUTH_DIGEST_SHA512_256))) 0) as [|Hal]; [discriminate|].
  do 3 (match goal with |- (if ?c then _ else _) = _ -> _ => destruct c; [discriminate|] end).
  destruct (negb (list_eqb target (pval dp e_uri))) eqn:Huri; [discriminate|].
  apply negb_false_iff in Huri. apply list_eqb_eq in Huri.
  intro H; injection H as <-.
  repeat (apply andb_true_iff in Hreq; destruct Hreq as [Hreq ?]).
  match goal with Hx : xorb (present dp e_username) (present dp e_userstar) = true |- _ => rewrite Hus in Hx; rewrite xorb_false_r in Hx; rename Hx into Hu end.
  split; [exact Hu|]. split; [symmetry; exact Hrealm|]. split; [symmetry; exact Huri|]. split; [reflexivity | exact Hal].
Qed.

Ltac split_goal_match :=
  repeat first [ match goal with |- (if ?c then _ else _) = _ -> _ => destruct c end
               | match goal with |- (match ?x with _ => _ end) = _ -> _ => destruct x end
               | match goal with |- (let '(_, _) := ?x in _) = _ -> _ => destruct x end ].

Lemma validate_params_refuses' r dp target o dalgo :
  validate_params r dp target = (Some o, dalgo) -> o = R400 \/ o = R401 \/ o = Unmodelled.
Proof.
  unfold validate_params. split_goal_match;
  intro H; first [discriminate H | injection H as <- _; auto].
Qed.
Lemma validate_params_refuses r dp target o dalgo :
  validate_params r dp target = (Some o, dalgo) -> forall u d, o <> Serve u d.
Proof. intros H u d. destruct (validate_params_refuses' _ _ _ _ _ H) as [->|[->| ->]]; discriminate. Qed.

Lemma digest_hit_spec s ri k dalgo user h :
  digest_hit cf s ri k dalgo user = Some h ->
  c_cache cf = true /\ exists e, In (k, e) (s_cache s) /\ e_rule e = ri /\ e_dalgo e = dalgo /\ e_user e = user /\ e_secret e = h.
Proof.
  unfold digest_hit. destruct (c_cache cf); [|discriminate].
  destruct (cache_query (s_cache s) k) as [e|] eqn:Hq; [|discriminate].
  destruct (_ && _) eqn:Hc; [|discriminate]. intro H; injection H as <-.
  repeat (apply andb_true_iff in Hc; destruct Hc as [Hc ?]).
  apply Nat.eqb_eq in Hc.
  match goal with Hx : (e_dalgo e =? dalgo)%N = true |- _ => apply N.eqb_eq in Hx; rename Hx into Hd end.
  match goal with Hx : list_eqb (e_user e) user = true |- _ => apply list_eqb_eq in Hx; rename Hx into Hu end.
  split; [reflexivity|]. exists e. split; [apply cache_query_in; exact Hq|]. auto.
Qed.

Lemma check_digest_spec s ri r m t a o s' :
  Inv s -> nth_error (c_rules cf) ri = Some r -> r_digest r = true ->
  check_digest md5 cf s ri r m t a = (o, s') ->
  grows s s' ri r /\ (forall u d, o = Serve u d -> d = true /\ digest_ok s ri r m t a u).
Proof.
  intros HI Hn Hrd. unfold check_digest.
  destruct a as [vb|]; [|intro H; injection H as <- <-; split; [left; reflexivity | intros; discriminate]].
  destruct (negb (ieq_prefix s_digest_sp vb)) eqn:Hp; [intro H; injection H as <- <-; split; [left; reflexivity | intros; discriminate]|].
  apply negb_false_iff in Hp. cbv zeta.
  set (dp := parse_authorization (skipn 7 vb)).
  destruct (validate_params r dp t) as [[o1|] dalgo] eqn:Hvp; [intro H; injection H as <- <-; split; [left; reflexivity|]|].
  { intros u d Hs. subst o1. exfalso. exact (validate_params_refuses _ _ _ _ _ Hvp _ _ eq_refl). }
  destruct (validate_params_pass _ _ _ _ Hvp) as (Hpu & Hrealm & Huri & Halg & Hall).
  destruct (validate_nonce md5 r (s_epoch s) (pval dp e_nonce)) eqn:Hnv;
    try (intro H; injection H as <- <-; split; [left; reflexivity | intros; discriminate]).
  apply validate_nonce_ok in Hnv.
  set (user := pval dp e_username).
  destruct (digest_hit cf s ri (cache_key r user) dalgo user) as [h|] eqn:Hhit.
  - destruct (digest_hit_spec _ _ _ _ _ _ Hhit) as (Hc & e & Hin & Her & Hed & Heu & Hes).
    destruct (negb (list_eqb (hex2bin (pval dp e_response)) (expected_response md5 dalgo h dp m))) eqn:Hresp;
      [intro H; injection H as <- <-; split; [left; reflexivity | intros; discriminate]|].
    destruct (negb (match_rules r user)) eqn:Hmr; intro H; injection H as <- <-; (split; [left; reflexivity|]); intros u d Hs; [discriminate|].
    injection Hs as <- <-. split; [reflexivity|].
    apply negb_false_iff in Hresp. apply list_eqb_eq in Hresp. apply negb_false_iff in Hmr.
    exists vb, dalgo, h. split; [reflexivity|]. split; [exact Hp|]. fold dp. cbv zeta.
    repeat (split; [assumption || reflexivity|]). right.
    pose proof (hit_fresh s _ e HI Hc Hin) as Hf. rewrite Her, Hed, Heu, Hes in Hf. exact Hf.
  - destruct (backend_digest md5 (s_db s) user (pval dp e_realm)) as [h|] eqn:Hb;
      [|intro H; injection H as <- <-; split; [left; reflexivity | intros; discriminate]].
    rewrite Hrealm in Hb.
    assert (Hv : vouch_ok (ri, dalgo, user, h, s_mono s, s_db s)).
    { exists r. split; [exact Hn|]. split; [intro Hz; exfalso; exact (algorithm_parse_nonzero _ _ Halg Hz) | intros _; split; assumption]. }
    set (s1 := add_validated s (ri, dalgo, user, h, s_mono s, s_db s)).
    set (e := {| e_rule := ri; e_dalgo := dalgo; e_user := user; e_secret := h; e_ctime := s_mono s |}).
    assert (Hg : forall sx, (sx = upd_cache s1 (cache_insert (s_cache s) (cache_key r user) e) \/ sx = s1) -> grows s sx ri r).
    { intros sx Hsx. right. exists dalgo, user, h, e. split; [exact Hv|]. split; [reflexivity|].
      destruct Hsx as [-> | ->]; cbn; repeat (split; [reflexivity|]); [right; eexists; reflexivity | left; reflexivity]. }
    destruct (negb (list_eqb (hex2bin (pval dp e_response)) (expected_response md5 dalgo h dp m))) eqn:Hresp.
    { intro H; injection H as <- <-. split; [|intros; discriminate]. apply Hg. destruct (c_cache cf); auto. }
    destruct (negb (match_rules r user)) eqn:Hmr; intro H; injection H as <- <-.
    { split; [|intros; discriminate]. apply Hg. destruct (c_cache cf); auto. }
    split; [apply Hg; destruct (c_cache cf); auto|].
    intros u d Hs. injection Hs as <- <-. split; [reflexivity|].
    apply negb_false_iff in Hresp. apply list_eqb_eq in Hresp. apply negb_false_iff in Hmr.
    exists vb, dalgo, h. split; [reflexivity|]. split; [exact Hp|]. fold dp. cbv zeta.
    repeat (split; [assumption || reflexivity|]). left. exact Hb.
Qed.

Lemma check_basic_not_pass s ri r a s' : check_basic cf s ri r a <> (Pass, s').
Proof.
  unfold check_basic. cbv zeta. intro H. revert H. split_goal_match; intro H; discriminate H.
Qed.

Lemma check_digest_not_pass s ri r m t a s' : check_digest md5 cf s ri r m t a <> (Pass, s').
Proof.
  unfold check_digest. cbv zeta. intro H. revert H.
  destruct a as [vb|]; [|discriminate].
  destruct (negb (ieq_prefix s_digest_sp vb)); [discriminate|].
  destruct (validate_params r (parse_authorization (skipn 7 vb)) t) as [[o1|] dalgo] eqn:Hvp.
  { destruct (validate_params_refuses' _ _ _ _ _ Hvp) as [->|[->| ->]]; discriminate. }
  split_goal_match; intro H; discriminate H.
Qed.

(* ---------------------------------------------------------------- invariant *)
Lemma grows_Inv s s' ri r : Inv s -> grows s s' ri r -> Inv s'.
Proof.
  intros HI [->|(dalgo & user & sec & e & Hv & He & Hm & _ & _ & Hg & Hc)]; [exact HI|].
  destruct HI as [HV HC]. split.
  - intros v Hin. rewrite Hg in Hin. rewrite Hm. destruct Hin as [<-|Hin]; [split; [exact Hv | cbn; lia] | apply HV; exact Hin].
  - intros k e' Hin. rewrite Hm, Hg.
    assert (Hold : In (k, e') (s_cache s) ->
      (exists d, In (e_rule e', e_dalgo e', e_user e', e_secret e', e_ctime e', d)
                    ((ri, dalgo, user, sec, s_mono s, s_db s) :: g_validated s)) /\
      e_ctime e' <= s_mono s /\ s_mono s - e_ctime e' <= c_max_age cf + Z.land (s_mono s) cleanup_mask).
    { intro Ho. destruct (HC _ _ Ho) as ((d & Hd) & H1 & H2). split; [exists d; right; exact Hd | auto]. }
    destruct Hc as [Hc|(k0 & Hc)]; rewrite Hc in Hin; [apply Hold; exact Hin|].
    destruct (cache_insert_in _ _ _ _ _ Hin) as [[-> ->]|Ho]; [|apply Hold; exact Ho].
    subst e. cbn. split; [exists (s_db s); left; reflexivity|]. split; [lia|].
    pose proof (land_mask_bounds (s_mono s)). lia.
Qed.

Lemma tick_Inv s : Inv s -> Inv (tick cf s).
Proof.
  intros [HV HC]. unfold tick. split; cbn.
  - intros v Hin. destruct (HV _ Hin). split; [assumption | lia].
  - intros k e Hin.
    assert (Hmod : forall x, Z.land x cleanup_mask = x mod 8).
    { intro x. unfold cleanup_mask. change 7 with (Z.ones 3). rewrite Z.land_ones by lia. reflexivity. }
    rewrite Hmod.
    destruct (Z.eqb_spec (Z.land (s_mono s + 1) cleanup_mask) 0) as [Hz|Hnz]; rewrite Hmod in *.
    + apply cache_cleanup_in in Hin. destruct Hin as [Hin Hage]. cbn in Hage.
      destruct (HC _ _ Hin) as (Hd & H1 & H2). split; [exact Hd|]. split; [lia|]. rewrite Hz. lia.
    + destruct (HC _ _ Hin) as (Hd & H1 & H2). try rewrite Hmod in H2. split; [exact Hd|]. split; [lia|].
      assert ((s_mono s + 1) mod 8 = s_mono s mod 8 + 1).
      { pose proof (Z.div_mod (s_mono s) 8 ltac:(lia)). pose proof (Z.mod_pos_bound (s_mono s) 8 ltac:(lia)).
        pose proof (Z.div_mod (s_mono s + 1) 8 ltac:(lia)). pose proof (Z.mod_pos_bound (s_mono s + 1) 8 ltac:(lia)). lia. }
      lia.
Qed.

Lemma handle_spec s m p t a o s' :
  Inv s -> handle md5 cf s m p t a = (o, s') ->
  Inv s' /\
  (forall u d, o = Serve u d ->
     exists ri r, find_rule (c_rules cf) 0 p = Some (ri, r) /\ nth_error (c_rules cf) ri = Some r /\ d = r_digest r /\
       if r_digest r then digest_ok s ri r m t a u else basic_ok s ri r a u) /\
  (o = Pass -> find_rule (c_rules cf) 0 p = None).
Proof.
  intros HI. unfold handle.
  destruct (find_rule (c_rules cf) 0 p) as [[ri r]|] eqn:Hf.
  - destruct (find_rule_nth _ _ _ _ _ Hf) as (_ & Hn & _). rewrite Nat.sub_0_r in Hn.
    destruct (r_digest r) eqn:Hd; intro H.
    + destruct (check_digest_spec _ _ _ _ _ _ _ _ HI Hn Hd H) as [Hg Hs].
      split; [eapply grows_Inv; eassumption|]. split.
      * intros u d Ho. destruct (Hs _ _ Ho) as [-> Hok]. exists ri, r. rewrite Hd. auto.
      * intros ->. exfalso. exact (check_digest_not_pass _ _ _ _ _ _ _ H).
    + destruct (check_basic_spec _ _ _ _ _ _ HI Hn Hd H) as [Hg Hs].
      split; [eapply grows_Inv; eassumption|]. split.
      * intros u d Ho. destruct (Hs _ _ Ho) as [-> Hok]. exists ri, r. rewrite Hd. auto.
      * intros ->. exfalso. exact (check_basic_not_pass _ _ _ _ _ H).
  - intro H; injection H as <- <-. split; [exact HI|]. split; [intros; discriminate | reflexivity].
Qed.

Lemma step_Inv s o : Inv s -> Inv (snd (step md5 cf s o)).
Proof.
  intros HI. destruct o as [d| |d|m p t a]; cbn [step snd].
  - destruct HI as [HV HC]. split; cbn; assumption.
  - apply tick_Inv; exact HI.
  - destruct HI as [HV HC]. split; cbn; assumption.
  - destruct (handle md5 cf s m p t a) as [o s'] eqn:Hh. cbn. apply (handle_spec _ _ _ _ _ _ _ HI Hh).
Qed.

Lemma run_Inv ops : forall s, Inv s -> Inv (snd (run md5 cf s ops)).
Proof.
  induction ops as [|o t IH]; intros s HI; cbn [run]; [exact HI|].
  destruct (step md5 cf s o) as [r s1] eqn:Hs.
  pose proof (step_Inv s o HI) as H1. rewrite Hs in H1. cbn in H1.
  specialize (IH s1 H1). destruct (run md5 cf s1 t) as [rs s2]. cbn in *. exact IH.
Qed.

(* every state reachable from the empty one, by any history *)
Definition reachable (s : state) : Prop := exists mono epoch ops, s = snd (run md5 cf (s0 mono epoch) ops).
Lemma reachable_Inv s : reachable s -> Inv s.
Proof. intros (mono & epoch & ops & ->). apply run_Inv, Inv_init. Qed.

(* C16, main statement: in every reachable state, a served request carries valid credentials of an authorized user *)
Theorem served_only_with_valid_credentials s m p t a u d s' :
  reachable s -> handle md5 cf s m p t a = (Serve u d, s') ->
  exists ri r, find_rule (c_rules cf) 0 p = Some (ri, r) /\ nth_error (c_rules cf) ri = Some r /\ d = r_digest r /\
    if r_digest r then digest_ok s ri r m t a u else basic_ok s ri r a u.
Proof.
  intros Hr Hh. destruct (handle_spec _ _ _ _ _ _ _ (reachable_Inv _ Hr) Hh) as (_ & Hs & _). apply Hs; reflexivity.
Qed.

(* a covered path is never passed through unauthenticated *)
Theorem covered_path_never_passes s m p t a s' :
  reachable s -> handle md5 cf s m p t a = (Pass, s') -> find_rule (c_rules cf) 0 p = None.
Proof.
  intros Hr Hh. destruct (handle_spec _ _ _ _ _ _ _ (reachable_Inv _ Hr) Hh) as (_ & _ & Hp). apply Hp; reflexivity.
Qed.

(* the cache never upgrades: whatever it holds was accepted by the backend for the same rule, user and secret,
   at most max-age + 7 seconds ago *)
Theorem cache_entries_vouched_and_young s k e :
  reachable s -> In (k, e) (s_cache s) ->
  (exists d, vouch_ok (e_rule e, e_dalgo e, e_user e, e_secret e, e_ctime e, d)) /\
  0 <= s_mono s - e_ctime e <= c_max_age cf + 7.
Proof.
  intros Hr Hin. destruct (reachable_Inv _ Hr) as [HV HC].
  destruct (HC _ _ Hin) as ((d & Hd) & H1 & H2). split; [exists d; apply (HV _ Hd)|].
  pose proof (land_mask_bounds (s_mono s)). lia.
Qed.

(* ... and forgets: right after a cleanup second nothing older than max-age is left *)
Theorem cache_forgets s k e :
  Z.land (s_mono s + 1) cleanup_mask = 0 -> In (k, e) (s_cache (tick cf s)) -> s_mono (tick cf s) - e_ctime e <= c_max_age cf.
Proof.
  intros Hz Hin. unfold tick in *. cbn in *. rewrite Hz in Hin. cbn in Hin.
  apply cache_cleanup_in in Hin. destruct Hin as [_ H]. exact H.
Qed.

End Proofs.

(* non-vacuity: a concrete history in which a Basic and a cached request are served and a stale one is refused is
   exercised by the correspondence run (props/C16.py); here: the invariant's premises are satisfiable *)
Example inv_nonvacuous : Inv (fun _ => []) {| c_rules := []; c_cache := true; c_max_age := 10 |} (s0 1000 2000).
Proof. apply Inv_init. Qed.
