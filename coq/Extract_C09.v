From LV Require Import Base.Bytes Fwd.FwdModel.
Require Import ExtrOcamlBasic.
Extraction "model.ml" request_vars enc_params dec_params stdin_records scgi_request parse_netstring Z.of_N Nat.pred.
