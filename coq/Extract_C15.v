From LV Require Import Base.Bytes Gen.GenRange C15.RangeModel.
Require Import ExtrOcamlBasic.
Extraction "model.ml" range_rfc7233 range_parse part_ok covered slice.
