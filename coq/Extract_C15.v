From LV Require Import Base.Bytes Gen.GenRange C15.RangeModel Date.DateModel C15.EtagModel.
Require Import ExtrOcamlBasic.
Extraction "model.ml" range_rfc7233 range_parse part_ok covered slice if_modified_since fmt_imf fmt_850 fmt_asctime etag_matches cachable.
