(* Proofs about the HTTP/2 flow-control model (C06). *)
From LV Require Import Base.Bytes Gen.GenH2 H2.H2Flow.
Require Import ZifyBool.
Local Open Scope Z_scope.

(* ---------- RFC constants pinned against the regenerated source *)
Lemma initial_windows_rfc : init_peer_initial_window = 65535 /\ init_conn_swin = 65535 /\ Z.of_N init_peer_max_frame = 16384.
Proof. repeat split; reflexivity. Qed.
Lemma advertised_windows_consistent :
  advertised_initial_window = init_stream_rwin /\ 65535 + advertised_conn_window_incr = init_conn_rwin /\ 0 < rwin_unit <= 16384.
Proof. repeat split; try reflexivity; vm_compute; discriminate. Qed.

(* ---------- what one call of h2_send_cqdata may send *)
Lemma send_amount_bounds b sw cw p : 0 <= b -> 0 <= p ->
  0 <= send_amount b sw cw p /\
  (0 < send_amount b sw cw p -> send_amount b sw cw p <= sw /\ send_amount b sw cw p <= cw /\ send_amount b sw cw p <= b) /\
  send_amount b sw cw p <= p.
Proof.
  intros Hb Hp. unfold send_amount.
  destruct (sw <? 0) eqn:E1; [lia|]. destruct (cw <? 0) eqn:E2; [lia|].
  destruct (Z.min b (Z.min sw cw) >? p) eqn:E3; [lia|].
  destruct ((Z.min b (Z.min sw cw) <? Z.of_N defer_below) && (Z.of_N defer_below <=? p)) eqn:E4; lia.
Qed.

(* a stalled stream resumes: with at least min(pending, threshold) octets of credit on both windows something is sent,
   and with credit for everything pending (and room in the round budget) everything is sent *)
Lemma send_amount_resumes b sw cw p : 0 < p -> Z.of_N defer_below <= b ->
  Z.min p (Z.of_N defer_below) <= sw -> Z.min p (Z.of_N defer_below) <= cw -> 0 < send_amount b sw cw p.
Proof.
  intros Hp Hb Hs Hc. unfold send_amount. unfold defer_below in *.
  destruct (sw <? 0) eqn:E1; [lia|]. destruct (cw <? 0) eqn:E2; [lia|].
  destruct (Z.min b (Z.min sw cw) >? p) eqn:E3; [lia|].
  destruct ((Z.min b (Z.min sw cw) <? Z.of_N 2048) && (Z.of_N 2048 <=? p)) eqn:E4; lia.
Qed.
Lemma send_amount_completes b sw cw p : 0 <= p -> p <= b -> p <= sw -> p <= cw -> send_amount b sw cw p = p.
Proof.
  intros Hp Hb Hs Hc. unfold send_amount.
  destruct (sw <? 0) eqn:E1; [lia|]. destruct (cw <? 0) eqn:E2; [lia|].
  destruct (Z.min b (Z.min sw cw) >? p) eqn:E3; [lia|].
  destruct ((Z.min b (Z.min sw cw) <? Z.of_N defer_below) && (Z.of_N defer_below <=? p)) eqn:E4; lia.
Qed.

(* ---------- the accounting invariant: window = credit - sent, and no DATA beyond the credit granted by then *)
Definition swf (i : Z) (s : stream) : Prop := swin s = i + g_wu s - g_sent s /\ 0 <= pending s.
Definition sclean (s : stream) : Prop := g_over s = false.
Definition Wf (c : h2) : Prop := cswin c = g_ccredit c - g_csent c /\ Forall (swf (iws c)) (streams c).
Definition Clean (c : h2) : Prop := g_cover c = false /\ Forall sclean (streams c).

Lemma round_loop_inv fs i cc : forall ss cw cs cov cw' cs' cov' ss' o,
  round_loop fs i cc cw cs cov ss = (cw', cs', cov', ss', o) ->
  cw = cc - cs -> Forall (swf i) ss ->
  cw' = cc - cs' /\ Forall (swf i) ss' /\ (cov = false -> Forall sclean ss -> cov' = false /\ Forall sclean ss').
Proof.
  induction ss as [|s t IH]; intros cw cs cov cw' cs' cov' ss' o; cbn [round_loop].
  - intros H; inversion H; subst. auto.
  - intros H Hc Hw. subst cw. inversion Hw as [|? ? [Hs Hp] Ht]; subst.
    destruct ((pending s =? 0) && negb (hdr_sent s)).
    + destruct (round_loop fs i cc (cc - cs) cs cov t) as [[[[a b] c0] d] e] eqn:E. inversion H; subst.
      destruct (IH _ _ _ _ _ _ _ _ E eq_refl Ht) as (H1 & H2 & H3). split; [exact H1|]. split; [exact H2|].
      intros Hcov Hcl. apply H3; [exact Hcov|]. inversion Hcl; assumption.
    + set (n := send_amount (Z.of_N round_budget) (swin s) (cc - cs) (pending s)) in *.
      assert (Hb : 0 <= Z.of_N round_budget) by lia.
      destruct (send_amount_bounds (Z.of_N round_budget) (swin s) (cc - cs) (pending s) Hb Hp) as (Hn0 & Hnpos & Hnp). fold n in Hn0, Hnpos, Hnp.
      assert (Hsov : (0 <? n) && (i + g_wu s <? g_sent s + n) = false) by (destruct (0 <? n) eqn:E0; [destruct Hnpos as (? & ? & ?); lia|reflexivity]).
      assert (Hcov1 : (0 <? n) && (cc <? cs + n) = false) by (destruct (0 <? n) eqn:E0; [destruct Hnpos as (? & ? & ?); lia|reflexivity]).
      rewrite Hsov, Hcov1, !orb_false_r in H.
      remember (frames 64 (sid s) n fs) as dat eqn:Edat. clear Edat.
      remember (if hdr_sent s then [] else [OHeaders (sid s) (if pending s =? 0 then 5%N else 4%N)]) as hdr eqn:Ehdr. clear Ehdr.
      destruct (pending s - n =? 0) eqn:Ez.
      * destruct (round_loop fs i cc (cc - cs - n) (cs + n) cov t) as [[[[a b] c0] d] e] eqn:E. inversion H; subst.
        destruct (IH _ _ _ _ _ _ _ _ E ltac:(lia) Ht) as (H1 & H2 & H3). split; [exact H1|]. split; [exact H2|].
        intros Hcov Hcl. assert (Hso : sclean s) by (inversion Hcl; assumption). assert (Hcl' : Forall sclean t) by (inversion Hcl; assumption).
        destruct (H3 Hcov Hcl') as [Hc0 Hd]. split; [|exact Hd].
        rewrite Hc0. unfold sclean in Hso. rewrite Hso. reflexivity.
      * destruct (round_loop fs i cc (cc - cs - n) (cs + n) cov t) as [[[[a b] c0] d] e] eqn:E. inversion H; subst.
        destruct (IH _ _ _ _ _ _ _ _ E ltac:(lia) Ht) as (H1 & H2 & H3). split; [exact H1|]. split.
        -- constructor; [|exact H2]. split; cbn; lia.
        -- intros Hcov Hcl. assert (Hso : sclean s) by (inversion Hcl; assumption). assert (Hcl' : Forall sclean t) by (inversion Hcl; assumption).
           destruct (H3 Hcov Hcl') as [Hc0 Hd]. split; [exact Hc0|].
           constructor; [exact Hso|exact Hd].
Qed.

Lemma round_inv c c' o : round c = (c', o) -> Wf c -> Wf c' /\ (Clean c -> Clean c') /\ iws c' = iws c /\ alive c' = alive c.
Proof.
  unfold round. destruct (round_loop (fsize c) (iws c) (g_ccredit c) (cswin c) (g_csent c) (g_cover c) (streams c)) as [[[[cw cs] cov] ss] o1] eqn:E.
  intros H [Hc Hs]. inversion H; subst. destruct (round_loop_inv _ _ _ _ _ _ _ _ _ _ _ _ E Hc Hs) as (H1 & H2 & H3).
  split; [split; cbn; assumption|]. split; [|split; reflexivity].
  intros [Hcov Hcl]. destruct (H3 Hcov Hcl). split; cbn; assumption.
Qed.

Lemma pump_inv : forall fuel c c' o, pump fuel c = (c', o) -> Wf c -> Wf c' /\ (Clean c -> Clean c') /\ iws c' = iws c /\ alive c' = alive c.
Proof.
  induction fuel as [|f IH]; intros c c' o; cbn [pump].
  - intros H; inversion H; subst. auto.
  - destruct (round c) as [c1 o1] eqn:Er. intros H Hw. destruct (round_inv _ _ _ Er Hw) as (Hw1 & Hc1 & Hi1 & Ha1).
    destruct o1 as [|x o1'].
    + inversion H; subst. auto.
    + destruct (pump f c1) as [c2 o2] eqn:Ep. inversion H; subst. destruct (IH _ _ _ Ep Hw1) as (Hw2 & Hc2 & Hi2 & Ha2).
      split; [exact Hw2|]. split; [auto|]. split; [rewrite Hi2; exact Hi1|rewrite Ha2; exact Ha1].
Qed.

Lemma apply_diff_inv i d : forall ss ss' o, apply_diff d ss = (ss', o) -> Forall (swf i) ss ->
  Forall (swf (i + d)) ss' /\ (Forall sclean ss -> Forall sclean ss').
Proof.
  induction ss as [|s t IH]; intros ss' o; cbn [apply_diff].
  - intros H; inversion H; subst. auto.
  - destruct (apply_diff d t) as [t' o'] eqn:E. intros H Hw. inversion Hw as [|? ? [Hs Hp] Ht]; subst.
    destruct (IH _ _ eq_refl Ht) as [H1 H2].
    destruct (if 0 <=? d then swin s >? INT32_MAX - d else swin s <? INT32_MIN - d).
    + inversion H; subst. split; [exact H1|]. intros Hcl. inversion Hcl; subst. auto.
    + inversion H; subst. split.
      * constructor; [split; cbn; lia|exact H1].
      * intros Hcl. inversion Hcl; subst. constructor; [assumption|auto].
Qed.

Lemma goaway_inv c code c' o : goaway c code = (c', o) -> Wf c -> Wf c' /\ (Clean c -> Clean c') /\ alive c' = false.
Proof.
  unfold goaway. intros H [Hc Hs]. inversion H; subst. split; [split; cbn; [exact Hc|constructor]|]. split; [|reflexivity].
  intros [Hcov _]. split; cbn; [exact Hcov|constructor].
Qed.

Lemma settings_loop_inv : forall ps c acc c' o, settings_loop c ps acc = (c', o) -> Wf c -> Wf c'.
Proof.
  induction ps as [|[id v] t IH]; intros c acc c' o; cbn [settings_loop].
  - intros H; inversion H; subst. auto.
  - intros H Hw. destruct (id =? H2_SETTINGS_INITIAL_WINDOW_SIZE)%N.
    + destruct (v >? INT32_MAX).
      * destruct (goaway c H2_E_FLOW_CONTROL_ERROR) as [c1 o1] eqn:Eg. inversion H; subst. apply (goaway_inv _ _ _ _ Eg Hw).
      * destruct (match streams c with [] => ([], []) | _ => apply_diff (v - iws c) (streams c) end) as [ss o1] eqn:Ed.
        eapply IH in H; [exact H|]. destruct Hw as [Hc Hs].
        assert (Hss : Forall (swf v) ss).
        { destruct (streams c) as [|s0 t0] eqn:Es.
          - inversion Ed; subst. constructor.
          - rewrite <- Es in Ed. destruct (apply_diff_inv (iws c) (v - iws c) _ _ _ Ed ltac:(rewrite Es; exact Hs)) as [H1 H2].
            replace (iws c + (v - iws c)) with v in H1 by lia. exact H1. }
        split; cbn; [exact Hc|exact Hss].
    + destruct (id =? H2_SETTINGS_MAX_FRAME_SIZE)%N.
      * destruct ((v <? 16384) || (v >? 16777215)).
        -- destruct (goaway c H2_E_PROTOCOL_ERROR) as [c1 o1] eqn:Eg. inversion H; subst. apply (goaway_inv _ _ _ _ Eg Hw).
        -- eapply IH in H; [exact H|]. destruct Hw as [Hc Hs]. split; cbn; assumption.
      * destruct (id =? H2_SETTINGS_ENABLE_PUSH)%N.
        -- destruct ((v =? 0) || (v =? 1)); [eapply IH; eassumption|].
           destruct (goaway c H2_E_PROTOCOL_ERROR) as [c1 o1] eqn:Eg. inversion H; subst. apply (goaway_inv _ _ _ _ Eg Hw).
        -- eapply IH; eassumption.
Qed.
(* Clean is preserved too, stated separately because settings_loop_inv's second component needs the streams' flags *)
Lemma settings_loop_clean : forall ps c acc c' o, settings_loop c ps acc = (c', o) -> Wf c -> Clean c -> Clean c'.
Proof.
  induction ps as [|[id v] t IH]; intros c acc c' o; cbn [settings_loop].
  - intros H; inversion H; subst. auto.
  - intros H Hw Hcl. destruct (id =? H2_SETTINGS_INITIAL_WINDOW_SIZE)%N.
    + destruct (v >? INT32_MAX).
      * destruct (goaway c H2_E_FLOW_CONTROL_ERROR) as [c1 o1] eqn:Eg. inversion H; subst. destruct (goaway_inv _ _ _ _ Eg Hw) as (_ & Hc & _). auto.
      * destruct (match streams c with [] => ([], []) | _ => apply_diff (v - iws c) (streams c) end) as [ss o1] eqn:Ed.
        destruct Hw as [Hc Hs]. destruct Hcl as [Hcov Hscl].
        assert (Hss : Forall (swf v) ss /\ Forall sclean ss).
        { destruct (streams c) as [|s0 t0] eqn:Es.
          - inversion Ed; subst. split; constructor.
          - rewrite <- Es in Ed. destruct (apply_diff_inv (iws c) (v - iws c) _ _ _ Ed ltac:(rewrite Es; exact Hs)) as [H1 H2].
            replace (iws c + (v - iws c)) with v in H1 by lia. rewrite Es in H2. auto. }
        eapply IH in H; [exact H| |]; split; cbn; try assumption; apply Hss.
    + destruct (id =? H2_SETTINGS_MAX_FRAME_SIZE)%N.
      * destruct ((v <? 16384) || (v >? 16777215)).
        -- destruct (goaway c H2_E_PROTOCOL_ERROR) as [c1 o1] eqn:Eg. inversion H; subst. destruct (goaway_inv _ _ _ _ Eg Hw) as (_ & Hc & _). auto.
        -- destruct Hw as [Hc Hs]. destruct Hcl. eapply IH in H; [exact H| |]; split; cbn; assumption.
      * destruct (id =? H2_SETTINGS_ENABLE_PUSH)%N.
        -- destruct ((v =? 0) || (v =? 1)); [eapply IH; eassumption|].
           destruct (goaway c H2_E_PROTOCOL_ERROR) as [c1 o1] eqn:Eg. inversion H; subst. destruct (goaway_inv _ _ _ _ Eg Hw) as (_ & Hc & _). auto.
        -- eapply IH; eassumption.
Qed.

Lemma wu_stream_inv i s0 v : forall ss ss' o, wu_stream s0 v ss = Some (ss', o) -> Forall (swf i) ss ->
  Forall (swf i) ss' /\ (Forall sclean ss -> Forall sclean ss').
Proof.
  induction ss as [|s t IH]; intros ss' o; cbn [wu_stream]; [discriminate|].
  intros H Hw. inversion Hw as [|? ? [Hs Hp] Ht]; subst.
  destruct (sid s =? s0)%N.
  - destruct (v =? 0).
    + inversion H; subst. split; [exact Ht|]. intros Hcl; inversion Hcl; auto.
    + destruct (swin s >? INT32_MAX - v).
      * inversion H; subst. split; [exact Ht|]. intros Hcl; inversion Hcl; auto.
      * inversion H; subst. split.
        -- constructor; [split; cbn; lia|exact Ht].
        -- intros Hcl; inversion Hcl; subst. constructor; auto.
  - destruct (wu_stream s0 v t) as [[t' o']|] eqn:E; [|discriminate]. inversion H; subst.
    destruct (IH _ _ eq_refl Ht) as [H1 H2]. split.
    + constructor; [split; assumption|exact H1].
    + intros Hcl; inversion Hcl; subst. constructor; auto.
Qed.

Lemma recv_wu_inv c s0 v c' o : recv_wu c s0 v = (c', o) -> Wf c -> Wf c' /\ (Clean c -> Clean c').
Proof.
  unfold recv_wu. intros H Hw. destruct (s0 =? 0)%N.
  - destruct (v =? 0); [destruct (goaway_inv _ _ _ _ H Hw) as (? & ? & _); auto|].
    destruct (cswin c >? INT32_MAX - v); [destruct (goaway_inv _ _ _ _ H Hw) as (? & ? & _); auto|].
    inversion H; subst. destruct Hw as [Hc Hs]. split; [split; cbn; [lia|exact Hs]|]. intros [? ?]. split; assumption.
  - destruct (wu_stream s0 v (streams c)) as [[ss o1]|] eqn:E.
    + inversion H; subst. destruct Hw as [Hc Hs]. destruct (wu_stream_inv (iws c) _ _ _ _ _ E Hs) as [H1 H2].
      split; [split; cbn; assumption|]. intros [? ?]. split; cbn; auto.
    + destruct (cid c <? s0)%N; [destruct (goaway_inv _ _ _ _ H Hw) as (? & ? & _); auto|]. inversion H; subst. auto.
Qed.

Lemma Forall_remove_stream (P : stream -> Prop) s0 : forall ss, Forall P ss -> Forall P (remove_stream s0 ss).
Proof.
  induction ss as [|x ss IH]; intros H; [constructor|]. cbn [remove_stream]. apply Forall_cons_iff in H as [H1 H2].
  destruct (sid x =? s0)%N; [exact H2|constructor; [exact H1|apply IH; exact H2]].
Qed.

Theorem step_inv c e c' o : step c e = Ok c' o -> Wf c -> Clean c -> Wf c' /\ Clean c'.
Proof.
  unfold step. destruct (alive c); cbn [negb]; [|intros H; inversion H; subst; auto].
  destruct e as [ps| |s n|s v| |s].
  - destruct (settings_loop c ps []) as [c1 o1] eqn:Es. intros H Hw Hcl.
    pose proof (settings_loop_inv _ _ _ _ _ Es Hw) as Hw1. pose proof (settings_loop_clean _ _ _ _ _ Es Hw Hcl) as Hc1.
    destruct (alive c1).
    + destruct (pump 64 c1) as [c2 o2] eqn:Ep. inversion H; subst. destruct (pump_inv _ _ _ _ Ep Hw1) as (? & ? & _). auto.
    + inversion H; subst. auto.
  - intros H Hw Hcl. destruct (settings_pending c).
    + destruct (pump 64 _) as [c2 o2] eqn:Ep. inversion H; subst.
      destruct (pump_inv _ _ _ _ Ep) as (? & Hc & _); [destruct Hw; split; cbn; assumption|]. split; [assumption|]. apply Hc. destruct Hcl; split; cbn; assumption.
    + destruct (goaway c H2_E_PROTOCOL_ERROR) as [c1 o1] eqn:Eg. inversion H; subst. destruct (goaway_inv _ _ _ _ Eg Hw) as (? & ? & _). auto.
  - destruct (N.even s || (s <=? cid c)%N || (max_streams <=? length (streams c))%nat || (n <? 0)) eqn:Eg; [discriminate|].
    destruct (pump 64 _) as [c2 o2] eqn:Ep. intros H Hw Hcl. inversion H; subst.
    destruct (pump_inv _ _ _ _ Ep) as (? & Hc & _).
    + destruct Hw as [Hcw Hs]. split; cbn; [exact Hcw|]. apply Forall_app. split; [exact Hs|]. repeat constructor; cbn; lia.
    + split; [assumption|]. apply Hc. destruct Hcl as [Hcov Hscl]. split; cbn; [exact Hcov|]. apply Forall_app. split; [exact Hscl|repeat constructor].
  - destruct (recv_wu c s v) as [c1 o1] eqn:Ew. intros H Hw Hcl. destruct (recv_wu_inv _ _ _ _ _ Ew Hw) as [Hw1 Hc1].
    destruct (alive c1).
    + destruct (pump 64 c1) as [c2 o2] eqn:Ep. inversion H; subst. destruct (pump_inv _ _ _ _ Ep Hw1) as (? & ? & _). auto.
    + inversion H; subst. auto.
  - destruct (pump 64 c) as [c2 o2] eqn:Ep. intros H Hw Hcl. inversion H; subst. destruct (pump_inv _ _ _ _ Ep Hw) as (? & ? & _). auto.
  - destruct ((s =? 0)%N || (cid c <? s)%N).
    + destruct (goaway c H2_E_PROTOCOL_ERROR) as [c1 o1] eqn:Eg. intros H Hw Hcl. inversion H; subst. destruct (goaway_inv _ _ _ _ Eg Hw) as (? & ? & _). auto.
    + destruct (pump 64 _) as [c2 o2] eqn:Ep. intros H Hw Hcl. inversion H; subst. destruct (pump_inv _ _ _ _ Ep) as (? & Hc & _).
      * destruct Hw as [Hcw Hs]. split; cbn; [exact Hcw|]. apply Forall_remove_stream. exact Hs.
      * split; [assumption|]. apply Hc. destruct Hcl as [Hcov Hscl]. split; cbn; [exact Hcov|]. apply Forall_remove_stream. exact Hscl.
Qed.

(* a whole connection history *)
Fixpoint run (c : h2) (evs : list ev) : option h2 :=
  match evs with
  | [] => Some c
  | e :: t => match step c e with Ok c' _ => run c' t | Unsupported => None end
  end.

Lemma init_wf : Wf h2_init /\ Clean h2_init.
Proof. repeat split; cbn; try constructor; reflexivity. Qed.

Theorem run_inv : forall evs c c', run c evs = Some c' -> Wf c -> Clean c -> Wf c' /\ Clean c'.
Proof.
  induction evs as [|e t IH]; intros c c'; cbn [run].
  - intros H; inversion H; subst. auto.
  - destruct (step c e) as [|c1 o1] eqn:Es; [discriminate|]. intros H Hw Hcl. destruct (step_inv _ _ _ _ Es Hw Hcl). eapply IH; eassumption.
Qed.

(* ---------- WINDOW_UPDATE errors *)
Lemma wu_zero_conn c : alive c = true -> exists c', step c (EvWU 0%N 0) = Ok c' [OGoaway (cid c) H2_E_PROTOCOL_ERROR] /\ alive c' = false.
Proof. intros Ha. unfold step. rewrite Ha. cbn. eexists. split; reflexivity. Qed.
Lemma wu_overflow_conn c v : alive c = true -> v <> 0 -> cswin c + v > INT32_MAX ->
  exists c', step c (EvWU 0%N v) = Ok c' [OGoaway (cid c) H2_E_FLOW_CONTROL_ERROR] /\ alive c' = false.
Proof.
  intros Ha Hv Ho. unfold step. rewrite Ha. cbn [negb]. unfold recv_wu. cbn [N.eqb].
  assert ((v =? 0) = false) as -> by lia. assert ((cswin c >? INT32_MAX - v) = true) as -> by lia. cbn. eexists. split; reflexivity.
Qed.
Lemma wu_stream_errors s0 v ss ss' o : wu_stream s0 v ss = Some (ss', o) ->
  forall s, In s ss -> sid s = s0 -> NoDup (map sid ss) ->
  (v = 0 -> o = [ORst s0 H2_E_PROTOCOL_ERROR]) /\ (v <> 0 -> swin s + v > INT32_MAX -> o = [ORst s0 H2_E_FLOW_CONTROL_ERROR]).
Proof.
  revert ss' o. induction ss as [|x t IH]; intros ss' o; cbn [wu_stream]; [discriminate|].
  intros H s Hin Hsid Hnd. cbn in Hnd. inversion Hnd as [|? ? Hni Hnd']; subst.
  destruct (N.eqb_spec (sid x) (sid s)) as [He|Hne].
  - assert (s = x).
    { destruct Hin as [<-|Hin]; [reflexivity|]. exfalso. apply Hni. rewrite He. apply in_map. exact Hin. }
    subst x. destruct (v =? 0) eqn:E0.
    + inversion H; subst. split; [reflexivity|lia].
    + destruct (swin s >? INT32_MAX - v) eqn:E1; inversion H; subst; split; try lia; reflexivity.
  - destruct Hin as [<-|Hin]; [congruence|]. destruct (wu_stream (sid s) v t) as [[t' o']|] eqn:E; [|discriminate].
    inversion H; subst. eapply IH; eauto.
Qed.

(* ---------- uploads: lighttpd returns at least the credit it consumes, so a window-respecting client never runs dry *)
Lemma wupd_unit_inv f len : 0 <= f < rwin_unit -> 0 <= len <= rwin_unit ->
  let '(f', w) := wupd_unit f len in 0 <= f' < rwin_unit /\ w + f = len + f'.
Proof. intros Hf Hl. unfold wupd_unit. destruct (f - len <? 0) eqn:E; lia. Qed.

(* returned credit of a sequence of DATA frames on the connection: returned = consumed + fudge' - fudge >= consumed - fudge *)
Fixpoint conn_returned (f : Z) (lens : list Z) : Z * Z :=
  match lens with
  | [] => (f, 0)
  | l :: t => let '(f1, w) := wupd_unit f l in let '(f2, w2) := conn_returned f1 t in (f2, w + w2)
  end.
Theorem upload_credit_returned : forall lens f, 0 <= f < rwin_unit -> Forall (fun l => 0 <= l <= rwin_unit) lens ->
  let '(f', w) := conn_returned f lens in 0 <= f' < rwin_unit /\ w + f = fold_right Z.add 0 lens + f'.
Proof.
  induction lens as [|l t IH]; intros f Hf Hl; cbn [conn_returned fold_right]; [lia|].
  inversion Hl; subst. pose proof (wupd_unit_inv f l Hf ltac:(assumption)) as Hu1. destruct (wupd_unit f l) as [f1 w].
  destruct Hu1 as [Hf1 Hw]. specialize (IH f1 Hf1 ltac:(assumption)). destruct (conn_returned f1 t) as [f2 w2]. lia.
Qed.
