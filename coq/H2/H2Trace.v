(* C05: the whole-trace statement.  Every frame the HTTP/2 model (H2Flow.step) emits, in any history of client events, is
   accepted by the RFC 9113 tracker (H2Legal) in the state the connection is in at that moment. *)
From Coq Require Import List NArith ZArith Bool Lia.
From LV Require Import Base.Bytes Gen.GenH2 H2.H2Flow H2.H2FlowProofs H2.H2Legal H2.H2LegalProofs.
Require Import ZifyBool.
Import ListNotations.
Local Open Scope Z_scope.

(* ---------------------------------------------------------------- the frames of a history *)
Definition sv (t f s : N) (l a a2 : Z) : frame := {| w := Sv; ty := t; fl := f; st := s; len := l; arg := a; arg2 := a2 |}.
Definition cl (t f s : N) (l a : Z) : frame := {| w := Cl; ty := t; fl := f; st := s; len := l; arg := a; arg2 := 0 |}.

Definition render_out (o : out) : frame :=
  match o with
  | OData s l f => sv H2_FTYPE_DATA f s l 0 0
  | OHeaders s f => sv H2_FTYPE_HEADERS f s 0 0 0          (* the length of the header block is not modelled *)
  | ORst s code => sv H2_FTYPE_RST_STREAM 0 s 4 (Z.of_N code) 0
  | OSettingsAck => sv H2_FTYPE_SETTINGS H2_FLAG_ACK 0 0 0 0
  | OGoaway last code => sv H2_FTYPE_GOAWAY 0 0 8 (Z.of_N code) (Z.of_N last)
  | OPingAck => sv H2_FTYPE_PING H2_FLAG_ACK 0 8 0 0
  end.

(* the SETTINGS_MAX_FRAME_SIZE value a SETTINGS frame carries (the last one), or -1 *)
Fixpoint last_mfs (ps : list (N * Z)) (acc : Z) : Z :=
  match ps with [] => acc | (id, v) :: t => last_mfs t (if (id =? H2_SETTINGS_MAX_FRAME_SIZE)%N then v else acc) end.

Definition render_ev (e : ev) : frame :=
  match e with
  | EvSettings ps => cl H2_FTYPE_SETTINGS 0 0 (6 * Z.of_nat (length ps)) (last_mfs ps (-1))
  | EvSettingsAck => cl H2_FTYPE_SETTINGS H2_FLAG_ACK 0 0 (-1)
  | EvHeaders s _ => cl H2_FTYPE_HEADERS 5 s 0 (-1)          (* END_STREAM | END_HEADERS: the regime of the model *)
  | EvWU s v => cl H2_FTYPE_WINDOW_UPDATE 0 s 4 v
  | EvPing => cl H2_FTYPE_PING 0 0 8 (-1)
  | EvRst s => cl H2_FTYPE_RST_STREAM 0 s 4 8          (* CANCEL; the tracker does not look at the code *)
  end.

(* events whose frame fits the frame size lighttpd advertises (a larger SETTINGS frame is a FRAME_SIZE_ERROR before any setting is read) *)
Definition ev_fits (e : ev) : Prop := match e with EvSettings ps => (length ps <= 2730)%nat | _ => True end.

Fixpoint trace (c : h2) (es : list ev) : option (list frame) :=
  match es with
  | [] => Some []
  | e :: t => match step c e with
              | Unsupported => None
              | Ok c' o => match trace c' t with Some r => Some (render_ev e :: map render_out o ++ r) | None => None end
              end
  end.

(* ---------------------------------------------------------------- tracker bookkeeping *)
Definition scal (l : lst) := (l_maxcid l, l_unacked l, l_pings l, l_fsize l, (l_sv_cont l, l_cl_cont l), (l_dead l, l_gosent l, l_conn_err l, l_err_at l)).


Lemma scal_fields l l' : scal l' = scal l ->
  l_maxcid l' = l_maxcid l /\ l_unacked l' = l_unacked l /\ l_pings l' = l_pings l /\ l_fsize l' = l_fsize l /\ l_sv_cont l' = l_sv_cont l /\
  l_cl_cont l' = l_cl_cont l /\ l_dead l' = l_dead l /\ l_gosent l' = l_gosent l /\ l_conn_err l' = l_conn_err l /\ l_err_at l' = l_err_at l.
Proof. unfold scal. intros H. inversion H. repeat split; assumption. Qed.

Definition keeps_id (f : sst -> sst) := forall x, s_id (f x) = s_id x.
Lemma find_upd_same id f (K : keeps_id f) : forall L, find_s id (upd_s id f L) = match find_s id L with Some x => Some (f x) | None => None end.
Proof.
  induction L as [|x L IH]; [reflexivity|]. cbn [upd_s find_s].
  destruct (s_id x =? id)%N eqn:E; cbn [find_s].
  - rewrite K, E. reflexivity.
  - rewrite E. exact IH.
Qed.
Lemma find_upd_other id j f (K : keeps_id f) : j <> id -> forall L, find_s j (upd_s id f L) = find_s j L.
Proof.
  intros Hj. induction L as [|x L IH]; [reflexivity|]. cbn [upd_s find_s].
  destruct (s_id x =? id)%N eqn:E; cbn [find_s].
  - rewrite K. apply N.eqb_eq in E. destruct (s_id x =? j)%N eqn:E2; [apply N.eqb_eq in E2; congruence|reflexivity].
  - rewrite IH. reflexivity.
Qed.

Definition live (l : lst) := l_dead l = false /\ l_sv_cont l = None /\ 16384 <= l_fsize l.
Definition others_same (id : N) (l l' : lst) := forall j, j <> id -> find_s j (l_streams l') = find_s j (l_streams l).

Lemma scal_live l l' : scal l' = scal l -> live l -> live l'.
Proof. intros H [A [B C]]. apply scal_fields in H. unfold live. intuition congruence. Qed.

Ltac tyeq := repeat match goal with
  | |- context [N.eqb ?a ?b] =>
      match a with H2_FTYPE_DATA => idtac | H2_FTYPE_HEADERS => idtac | H2_FTYPE_RST_STREAM => idtac | H2_FTYPE_SETTINGS => idtac
                 | H2_FTYPE_PING => idtac | H2_FTYPE_GOAWAY => idtac | H2_FTYPE_WINDOW_UPDATE => idtac end;
      let v := eval vm_compute in (N.eqb a b) in change (N.eqb a b) with v
  end; cbn [andb orb negb].

(* ---------------------------------------------------------------- each kind of server frame, judged by the tracker *)
Lemma sv_rst l id code : live l -> id <> 0%N -> (id <= l_maxcid l)%N ->
  exists l', server_frame l (render_out (ORst id code)) = inl l' /\ scal l' = scal l /\ others_same id l l'.
Proof.
  intros [Hd [Hc Hf]] H0 Hm. unfold server_frame, render_out, sv. cbn [ty st len fl arg arg2 w].
  rewrite Hd, Hc. destruct (4 >? l_fsize l) eqn:E1; [lia|]. tyeq.
  destruct (id =? 0)%N eqn:E2; [lia|]. destruct (l_maxcid l <? id)%N eqn:E3; [lia|]. cbn [orb negb Z.eqb Pos.eqb].
  eexists; split; [reflexivity|]. split; [reflexivity|].
  intros j Hj. cbn [l_streams set_streams]. apply find_upd_other; [intros x; reflexivity|exact Hj].
Qed.

Lemma sv_data l id n f x : live l -> n <= l_fsize l -> find_s id (l_streams l) = Some x -> sv_hdr x = true -> sv_end x = false -> cl_rst x = false ->
  exists l', server_frame l (render_out (OData id n f)) = inl l' /\ scal l' = scal l /\ others_same id l l' /\
             exists x', find_s id (l_streams l') = Some x' /\ sv_hdr x' = true /\ sv_end x' = has f H2_FLAG_END_STREAM /\ cl_rst x' = false.
Proof.
  intros [Hd [Hc Hf]] Hn Hx H1 H2 H3. unfold server_frame, render_out, sv. cbn [ty st len fl arg arg2 w].
  rewrite Hd, Hc. destruct (n >? l_fsize l) eqn:E1; [lia|]. tyeq.
  rewrite Hx, H1, H2, H3. cbn [negb].
  eexists; split; [reflexivity|]. split; [reflexivity|]. split.
  - intros j Hj. cbn [l_streams set_streams]. apply find_upd_other; [intros y; reflexivity|exact Hj].
  - cbn [l_streams set_streams]. rewrite find_upd_same by (intros y; reflexivity). rewrite Hx.
    eexists; split; [reflexivity|]. cbn [sv_hdr sv_end cl_rst]. auto.
Qed.

Lemma sv_headers l id f x : live l -> l_conn_err l = false -> has f H2_FLAG_END_HEADERS = true ->
  find_s id (l_streams l) = Some x -> sv_hdr x = false -> sv_end x = false -> cl_rst x = false ->
  exists l', server_frame l (render_out (OHeaders id f)) = inl l' /\ scal l' = scal l /\ others_same id l l' /\
             exists x', find_s id (l_streams l') = Some x' /\ sv_hdr x' = true /\ sv_end x' = has f H2_FLAG_END_STREAM /\ cl_rst x' = false.
Proof.
  intros [Hd [Hc Hf]] He Hh Hx H1 H2 H3. unfold server_frame, render_out, sv. cbn [ty st len fl arg arg2 w].
  rewrite Hd, Hc. destruct (0 >? l_fsize l) eqn:E1; [lia|]. tyeq.
  rewrite Hx, H1, H2, H3, He, Hh. cbn [negb andb].
  eexists; split; [reflexivity|]. split; [unfold scal; cbn; rewrite ?Hc, ?Hd, ?He; reflexivity|]. split.
  - intros j Hj. cbn [l_streams]. apply find_upd_other; [intros y; reflexivity|exact Hj].
  - cbn [l_streams]. rewrite find_upd_same by (intros y; reflexivity). rewrite Hx.
    eexists; split; [reflexivity|]. cbn [sv_hdr sv_end cl_rst]. auto.
Qed.

Lemma sv_goaway l last code : live l -> (last <= l_maxcid l)%N -> exists l', server_frame l (render_out (OGoaway last code)) = inl l'.
Proof.
  intros [Hd [Hc Hf]] Hm. unfold server_frame, render_out, sv. cbn [ty st len fl arg arg2 w].
  rewrite Hd, Hc. destruct (8 >? l_fsize l) eqn:E1; [lia|]. tyeq.
  destruct (Z.of_N (l_maxcid l) <? Z.of_N last) eqn:E2; [lia|]. eexists; reflexivity.
Qed.

Lemma sv_ack l : live l -> 0 < l_unacked l ->
  exists l', server_frame l (render_out OSettingsAck) = inl l' /\ l_streams l' = l_streams l /\
    scal l' = (l_maxcid l, l_unacked l - 1, l_pings l, l_fsize l, (None, l_cl_cont l), (l_dead l, l_gosent l, l_conn_err l, l_err_at l)).
Proof.
  intros [Hd [Hc Hf]] Hu. unfold server_frame, render_out, sv. cbn [ty st len fl arg arg2 w].
  rewrite Hd, Hc. destruct (0 >? l_fsize l) eqn:E1; [lia|]. tyeq.
  change (has H2_FLAG_ACK H2_FLAG_ACK) with true. cbn [negb]. destruct (l_unacked l <=? 0) eqn:E2; [lia|].
  eexists; split; [reflexivity|]. split; reflexivity.
Qed.

Lemma sv_pingack l : live l -> 0 < l_pings l ->
  exists l', server_frame l (render_out OPingAck) = inl l' /\ l_streams l' = l_streams l /\
    scal l' = (l_maxcid l, l_unacked l, l_pings l - 1, l_fsize l, (None, l_cl_cont l), (l_dead l, l_gosent l, l_conn_err l, l_err_at l)).
Proof.
  intros [Hd [Hc Hf]] Hu. unfold server_frame, render_out, sv. cbn [ty st len fl arg arg2 w].
  rewrite Hd, Hc. destruct (8 >? l_fsize l) eqn:E1; [lia|]. tyeq.
  change (has H2_FLAG_ACK H2_FLAG_ACK) with true. cbn [negb]. destruct (l_pings l <=? 0) eqn:E2; [lia|].
  eexists; split; [reflexivity|]. split; reflexivity.
Qed.

(* ---------------------------------------------------------------- sequences of server frames *)
Lemma w_render o : w (render_out o) = Sv. Proof. destruct o; reflexivity. Qed.

Lemma legal_sv_cons l o os : legal_from l (map render_out (o :: os)) =
  match server_frame l (render_out o) with inl l' => legal_from l' (map render_out os) | inr v => inr v end.
Proof. cbn [map legal_from]. rewrite w_render. reflexivity. Qed.

Lemma legal_sv_app l a : forall b l1, legal_from l (map render_out a) = inl l1 ->
  legal_from l (map render_out (a ++ b)) = legal_from l1 (map render_out b).
Proof.
  revert l. induction a as [|o a IH]; intros l b l1 H.
  - cbn in H. injection H as <-. reflexivity.
  - change ((o :: a) ++ b) with (o :: (a ++ b)). rewrite legal_sv_cons in *.
    destruct (server_frame l (render_out o)) as [l2|v]; [|discriminate]. apply IH. exact H.
Qed.

Definition sok (x : sst) (h : bool) := sv_hdr x = h /\ sv_end x = false /\ cl_rst x = false.

Lemma others_trans id l l1 l2 : others_same id l l1 -> others_same id l1 l2 -> others_same id l l2.
Proof. intros A B j Hj. rewrite (B j Hj). apply A. exact Hj. Qed.

Lemma frames_legal id fs : forall fuel n l x, live l -> l_fsize l = fs -> find_s id (l_streams l) = Some x -> sok x true ->
  exists l', legal_from l (map render_out (frames fuel id n fs)) = inl l' /\ scal l' = scal l /\ others_same id l l' /\
             exists x', find_s id (l_streams l') = Some x' /\ sok x' true.
Proof.
  induction fuel as [|f IH]; intros n l x Hl Hfs Hx Hs; cbn [frames].
  - exists l. repeat split; try reflexivity. exists x. auto.
  - destruct (n <=? 0) eqn:E.
    + exists l. repeat split; try reflexivity. exists x. auto.
    + rewrite legal_sv_cons. destruct Hs as [S1 [S2 S3]].
      destruct (sv_data l id (Z.min n fs) 0%N x Hl ltac:(lia) Hx S1 S2 S3) as [l1 [R1 [R2 [R3 [x1 [X1 [X2 [X3 X4]]]]]]]].
      rewrite R1. change (has 0%N H2_FLAG_END_STREAM) with false in X3.
      assert (Hl1 : live l1) by (eapply scal_live; eassumption).
      assert (Hf1 : l_fsize l1 = fs) by (apply scal_fields in R2; intuition congruence).
      destruct (IH (n - Z.min n fs) l1 x1 Hl1 Hf1 X1 (conj X2 (conj X3 X4))) as [l2 [Q1 [Q2 [Q3 Q4]]]].
      exists l2. split; [exact Q1|]. split; [congruence|]. split; [eapply others_trans; eassumption|exact Q4].
Qed.

(* the model's streams, seen by the tracker *)
Definition sinv (ss : list stream) (L : list sst) := Forall (fun s => exists x, find_s (sid s) L = Some x /\ sok x (hdr_sent s)) ss.
Definition ids_ok (ss : list stream) (m : N) := NoDup (map sid ss) /\ Forall (fun s => sid s <> 0%N /\ (sid s <= m)%N) ss.

Lemma sinv_others id ss l l' : others_same id l l' -> ~ In id (map sid ss) -> sinv ss (l_streams l) -> sinv ss (l_streams l').
Proof.
  intros Ho Hn H. unfold sinv in *. rewrite Forall_forall in *. intros s Hs. destruct (H s Hs) as [x [A B]].
  exists x. split; [|exact B]. rewrite Ho; [exact A|]. intros E. apply Hn. rewrite <- E. apply in_map. exact Hs.
Qed.

Lemma tuple5_inj {A B C D E} (a a' : A) (b b' : B) (c c' : C) (d d' : D) (e e' : E) :
  (a, b, c, d, e) = (a', b', c', d', e') -> a = a' /\ b = b' /\ c = c' /\ d = d' /\ e = e'.
Proof. intros H. inversion H. auto. Qed.

Lemma hdr_legal l s x : live l -> l_conn_err l = false -> find_s (sid s) (l_streams l) = Some x -> sok x (hdr_sent s) ->
  (pending s =? 0) && negb (hdr_sent s) = false ->
  exists l1, legal_from l (map render_out (if hdr_sent s then [] else [OHeaders (sid s) (if pending s =? 0 then 5%N else 4%N)])) = inl l1 /\
             scal l1 = scal l /\ others_same (sid s) l l1 /\ exists x1, find_s (sid s) (l_streams l1) = Some x1 /\ sok x1 true.
Proof.
  intros Hl He Hx [S1 [S2 S3]] Hc. destruct (hdr_sent s) eqn:Eh.
  - exists l. repeat split; try reflexivity. exists x. unfold sok. auto.
  - rewrite andb_true_r in Hc. rewrite Hc. rewrite legal_sv_cons.
    destruct (sv_headers l (sid s) 4%N x Hl He eq_refl Hx S1 S2 S3) as [l1 [R1 [R2 [R3 [x1 [X1 [X2 [X3 X4]]]]]]]].
    rewrite R1. exists l1. cbn [map legal_from]. repeat split; auto. exists x1. unfold sok. auto.
Qed.

Lemma round_loop_legal fs i cc : forall ss cw cs cov cw' cs' cov' t' o l m,
  round_loop fs i cc cw cs cov ss = (cw', cs', cov', t', o) ->
  live l -> l_conn_err l = false -> l_fsize l = fs -> l_maxcid l = m -> sinv ss (l_streams l) -> ids_ok ss m ->
  exists l', legal_from l (map render_out o) = inl l' /\ scal l' = scal l /\ sinv t' (l_streams l') /\ ids_ok t' m /\
             (forall j, ~ In j (map sid ss) -> find_s j (l_streams l') = find_s j (l_streams l)) /\ incl (map sid t') (map sid ss).
Proof.
  induction ss as [|s t IH]; intros cw cs cov cw' cs' cov' t' o l m H Hl He Hfs Hm Hs Hi; cbn [round_loop] in H.
  - apply tuple5_inj in H. destruct H as (<- & <- & <- & <- & <-). exists l. repeat split; auto; try constructor. intros a Ha; exact Ha.
  - destruct Hi as [Hnd Hb]. cbn [map] in Hnd. apply NoDup_cons_iff in Hnd as [Hnin Hnd].
    apply Forall_cons_iff in Hb as [[Hb0 Hbm] Hb]. apply Forall_cons_iff in Hs as [[x [Hx Hxs]] Hs].
    cbv zeta in H.
    assert (Step : forall l1, scal l1 = scal l -> others_same (sid s) l l1 ->
              live l1 /\ l_conn_err l1 = false /\ l_fsize l1 = fs /\ l_maxcid l1 = m /\ sinv t (l_streams l1)).
    { intros l1 R2 R3. split; [eapply scal_live; eassumption|]. pose proof (scal_fields _ _ R2) as F.
      repeat split; try (intuition congruence). eapply sinv_others; eassumption. }
    destruct ((pending s =? 0) && negb (hdr_sent s)) eqn:C.
    + apply andb_true_iff in C as [C1 C2]. apply negb_true_iff in C2. rewrite C2, C1 in H.
      destruct (round_loop fs i cc cw cs cov t) as [[[[a b] c0] d] e] eqn:E. apply tuple5_inj in H. destruct H as (<- & <- & <- & <- & <-).
      destruct Hxs as [S1 [S2 S3]]. rewrite C2 in S1.
      destruct (sv_headers l (sid s) 5%N x Hl He eq_refl Hx S1 S2 S3) as [l1 [R1 [R2 [R3 _]]]].
      destruct (Step l1 R2 R3) as [Hl1 [He1 [Hf1 [Hm1 Hs1]]]].
      destruct (IH _ _ _ _ _ _ _ _ l1 m E Hl1 He1 Hf1 Hm1 Hs1 (conj Hnd Hb)) as [l2 [Q1 [Q2 [Q3 [Q4 [Q5 Q6]]]]]].
      exists l2. change ([OHeaders (sid s) 5%N] ++ e) with (OHeaders (sid s) 5%N :: e). rewrite legal_sv_cons, R1.
      split; [exact Q1|]. split; [congruence|]. split; [exact Q3|]. split; [exact Q4|]. split.
      * intros j Hj. cbn [map In] in Hj. rewrite Q5 by tauto. apply R3. intros Ej. apply Hj. left. congruence.
      * intros a0 Ha. right. apply Q6. exact Ha.
    + destruct (hdr_legal l s x Hl He Hx Hxs C) as [l1 [R1 [R2 [R3 [x1 [X1 Xs1]]]]]].
      destruct (Step l1 R2 R3) as [Hl1 [He1 [Hf1 [Hm1 Hs1]]]].
      set (n := send_amount (Z.of_N round_budget) (swin s) cw (pending s)) in *.
      destruct (frames_legal (sid s) fs 64 n l1 x1 Hl1 Hf1 X1 Xs1) as [l2 [P1 [P2 [P3 [x2 [X2 Xs2]]]]]].
      assert (R3' : others_same (sid s) l l2) by (eapply others_trans; eassumption).
      assert (R2' : scal l2 = scal l) by congruence.
      destruct (Step l2 R2' R3') as [Hl2 [He2 [Hf2 [Hm2 Hs2]]]].
      destruct (pending s - n =? 0) eqn:Ep.
      * destruct (round_loop fs i cc (cw - n) (cs + n) _ t) as [[[[a b] c0] d] e] eqn:E. apply tuple5_inj in H. destruct H as (<- & <- & <- & <- & <-).
        destruct Xs2 as [T1 [T2 T3]].
        destruct (sv_data l2 (sid s) 0 1%N x2 Hl2 ltac:(destruct Hl2 as [_ [_ ?]]; lia) X2 T1 T2 T3) as [l3 [U1 [U2 [U3 _]]]].
        assert (R3'' : others_same (sid s) l l3) by (eapply others_trans; eassumption).
        assert (R2'' : scal l3 = scal l) by congruence.
        destruct (Step l3 R2'' R3'') as [Hl3 [He3 [Hf3 [Hm3 Hs3]]]].
        destruct (IH _ _ _ _ _ _ _ _ l3 m E Hl3 He3 Hf3 Hm3 Hs3 (conj Hnd Hb)) as [l4 [Q1 [Q2 [Q3 [Q4 [Q5 Q6]]]]]].
        exists l4. rewrite (legal_sv_app _ _ _ _ R1), (legal_sv_app _ _ _ _ P1).
        change ([OData (sid s) 0 1%N] ++ e) with (OData (sid s) 0 1%N :: e). rewrite legal_sv_cons, U1.
        split; [exact Q1|]. split; [congruence|]. split; [exact Q3|]. split; [exact Q4|]. split.
        -- intros j Hj. cbn [map In] in Hj. rewrite Q5 by tauto. apply R3''. intros Ej. apply Hj. left. congruence.
        -- intros a0 Ha. right. apply Q6. exact Ha.
      * destruct (round_loop fs i cc (cw - n) (cs + n) _ t) as [[[[a b] c0] d] e] eqn:E. apply tuple5_inj in H. destruct H as (<- & <- & <- & <- & <-).
        destruct (IH _ _ _ _ _ _ _ _ l2 m E Hl2 He2 Hf2 Hm2 Hs2 (conj Hnd Hb)) as [l4 [Q1 [Q2 [Q3 [Q4 [Q5 Q6]]]]]].
        exists l4. rewrite (legal_sv_app _ _ _ _ R1), (legal_sv_app _ _ _ _ P1).
        split; [exact Q1|]. split; [congruence|]. split.
        { constructor; [|exact Q3]. cbn [sid hdr_sent]. exists x2. split; [|exact Xs2]. rewrite Q5 by exact Hnin. exact X2. }
        split.
        { destruct Q4 as [Q4a Q4b]. split.
          - cbn [map sid]. constructor; [|exact Q4a]. intros Hin. apply Hnin. apply Q6. exact Hin.
          - constructor; [cbn [sid]; split; assumption|exact Q4b]. }
        split.
        -- intros j Hj. cbn [map In] in Hj. rewrite Q5 by tauto. apply R3'. intros Ej. apply Hj. left. congruence.
        -- intros a0 Ha. cbn [map sid In] in *. destruct Ha as [Ha|Ha]; [left; exact Ha|right; apply Q6; exact Ha].
Qed.

(* ---------------------------------------------------------------- rounds *)
Definition inv (c : h2) (l : lst) :=
  live l /\ l_cl_cont l = None /\ l_conn_err l = false /\ l_fsize l = fsize c /\ l_maxcid l = cid c /\ l_unacked l = 0 /\ l_pings l = 0 /\
  sinv (streams c) (l_streams l) /\ ids_ok (streams c) (cid c).

Lemma round_legal c c1 o l : round c = (c1, o) -> inv c l -> exists l', legal_from l (map render_out o) = inl l' /\ inv c1 l'.
Proof.
  unfold round. intros H [Hl [Hcc [He [Hf [Hm [Hu [Hp [Hs Hi]]]]]]]].
  destruct (round_loop (fsize c) (iws c) (g_ccredit c) (cswin c) (g_csent c) (g_cover c) (streams c)) as [[[[cw cs] cov] ss] o'] eqn:E.
  injection H as <- <-.
  destruct (round_loop_legal _ _ _ _ _ _ _ _ _ _ _ _ l (cid c) E Hl He Hf Hm Hs Hi) as [l' [Q1 [Q2 [Q3 [Q4 _]]]]].
  exists l'. split; [exact Q1|]. pose proof (scal_fields _ _ Q2) as F. unfold inv. cbn [fsize cid streams].
  split; [eapply scal_live; eassumption|]. repeat split; try (intuition congruence); try exact Q3; apply Q4.
Qed.

Lemma pump_legal : forall fuel c c2 o l, pump fuel c = (c2, o) -> inv c l -> exists l', legal_from l (map render_out o) = inl l' /\ inv c2 l'.
Proof.
  induction fuel as [|f IH]; intros c c2 o l H Hi; cbn [pump] in H.
  - injection H as <- <-. exists l. split; [reflexivity|exact Hi].
  - destruct (round c) as [c1 o1] eqn:E. destruct (round_legal _ _ _ _ E Hi) as [l1 [R1 R2]].
    destruct o1 as [|x o1].
    + injection H as <- <-. exists l1. split; [exact R1|exact R2].
    + destruct (pump f c1) as [c3 o3] eqn:E3. injection H as <- <-.
      destruct (IH _ _ _ _ E3 R2) as [l2 [P1 P2]]. exists l2. split; [|exact P2].
      change (x :: o1 ++ o3) with ((x :: o1) ++ o3). rewrite (legal_sv_app _ _ _ _ R1). exact P1.
Qed.

(* ---------------------------------------------------------------- client frames *)
Ltac tyeqc := repeat match goal with
  | |- context [N.eqb ?a ?b] =>
      match a with H2_FTYPE_DATA => idtac | H2_FTYPE_HEADERS => idtac | H2_FTYPE_RST_STREAM => idtac | H2_FTYPE_SETTINGS => idtac
                 | H2_FTYPE_PING => idtac | H2_FTYPE_GOAWAY => idtac | H2_FTYPE_WINDOW_UPDATE => idtac end;
      let v := eval vm_compute in (N.eqb a b) in change (N.eqb a b) with v
  end; cbn [andb orb negb].

Lemma conn_error_live l : live l -> live (conn_error l) /\ l_maxcid (conn_error l) = l_maxcid l /\ l_streams (conn_error l) = l_streams l.
Proof. intros Hl. unfold conn_error. destruct (l_conn_err l); [auto|]. unfold live in *. cbn. auto. Qed.

Lemma cl_wu l s v : l_cl_cont l = None ->
  client_frame l (render_ev (EvWU s v)) =
  if ((s =? 0)%N && (v =? 0)) || (negb (s =? 0)%N && (l_maxcid l <? s)%N) then conn_error l else l.
Proof.
  intros Hc. unfold client_frame, render_ev, cl. cbn [ty st len fl arg arg2 w]. rewrite Hc.
  change (4 >? 16384) with false. cbn iota. tyeqc. change (4 =? 4) with true. cbn [negb].
  destruct (s =? 0)%N; cbn [andb orb negb]; [destruct (v =? 0); reflexivity|]. destruct (l_maxcid l <? s)%N; reflexivity.
Qed.

Lemma cl_ack l : l_cl_cont l = None -> client_frame l (render_ev EvSettingsAck) = l.
Proof.
  intros Hc. unfold client_frame, render_ev, cl. cbn [ty st len fl arg arg2 w]. rewrite Hc.
  change (0 >? 16384) with false. cbn iota. tyeqc. reflexivity.
Qed.

Lemma cl_ping l : l_cl_cont l = None ->
  client_frame l (render_ev EvPing) =
  {| l_streams := l_streams l; l_maxcid := l_maxcid l; l_unacked := l_unacked l; l_pings := l_pings l + 1; l_fsize := l_fsize l;
     l_sv_cont := l_sv_cont l; l_cl_cont := None; l_dead := l_dead l; l_gosent := l_gosent l; l_conn_err := l_conn_err l; l_err_at := l_err_at l |}.
Proof.
  intros Hc. unfold client_frame, render_ev, cl. cbn [ty st len fl arg arg2 w]. rewrite Hc.
  change (8 >? 16384) with false. cbn iota. tyeqc. reflexivity.
Qed.

Lemma cl_headers l s n : l_cl_cont l = None -> N.even s = false -> (l_maxcid l < s)%N ->
  client_frame l (render_ev (EvHeaders s n)) =
  {| l_streams := {| s_id := s; cl_end := true; cl_rst := false; sv_hdr := false; sv_end := false; refused := false |} :: l_streams l;
     l_maxcid := s; l_unacked := l_unacked l; l_pings := l_pings l; l_fsize := l_fsize l; l_sv_cont := l_sv_cont l; l_cl_cont := None;
     l_dead := l_dead l; l_gosent := l_gosent l; l_conn_err := l_conn_err l; l_err_at := l_err_at l |}.
Proof.
  intros Hc Ho Hm. unfold client_frame, render_ev, cl. cbn [ty st len fl arg arg2 w]. rewrite Hc.
  change (0 >? 16384) with false. cbn iota. tyeqc. rewrite Ho.
  destruct (s =? 0)%N eqn:E0; [apply N.eqb_eq in E0; subst s; discriminate|]. cbn [orb].
  destruct (l_maxcid l <? s)%N eqn:E1; [|lia]. reflexivity.
Qed.

Lemma cl_rst l s : l_cl_cont l = None ->
  client_frame l (render_ev (EvRst s)) =
  if (s =? 0)%N || (l_maxcid l <? s)%N then conn_error l
  else set_streams l (upd_s s (fun x => {| s_id := s_id x; cl_end := cl_end x; cl_rst := true; sv_hdr := sv_hdr x; sv_end := sv_end x; refused := refused x |}) (l_streams l)).
Proof.
  intros Hc. unfold client_frame, render_ev, cl. cbn [ty st len fl arg arg2 w]. rewrite Hc.
  change (4 >? 16384) with false. cbn iota. tyeqc. change (4 =? 4) with true. cbn [negb]. rewrite orb_false_r. reflexivity.
Qed.

Lemma remove_in s0 : forall ss x, In x (remove_stream s0 ss) -> In x ss.
Proof.
  induction ss as [|y ss IH]; intros x H; [exact H|]. cbn [remove_stream] in H. destruct (sid y =? s0)%N; [right; exact H|].
  destruct H as [H|H]; [left; exact H|right; apply IH; exact H].
Qed.
Lemma remove_notin s0 : forall ss, NoDup (map sid ss) -> forall x, In x (remove_stream s0 ss) -> sid x <> s0.
Proof.
  induction ss as [|y ss IH]; intros Hn x H; [destruct H|]. cbn [map] in Hn. apply NoDup_cons_iff in Hn as [H1 H2]. cbn [remove_stream] in H.
  destruct (sid y =? s0)%N eqn:E.
  - apply N.eqb_eq in E. intros Ex. apply H1. rewrite E, <- Ex. apply in_map. exact H.
  - destruct H as [H|H]; [subst x; apply N.eqb_neq; exact E|apply IH; assumption].
Qed.
Lemma remove_nodup s0 : forall ss, NoDup (map sid ss) -> NoDup (map sid (remove_stream s0 ss)).
Proof.
  induction ss as [|y ss IH]; intros Hn; [constructor|]. cbn [map] in Hn. apply NoDup_cons_iff in Hn as [H1 H2]. cbn [remove_stream].
  destruct (sid y =? s0)%N; [exact H2|]. cbn [map]. constructor; [|apply IH; exact H2].
  intros Hin. apply H1. apply in_map_iff in Hin as [x [Ex Hx]]. rewrite <- Ex. apply in_map. eapply remove_in. exact Hx.
Qed.

Definition mfs_bad (a : Z) : bool := (0 <=? a) && ((a <? 16384) || (16777215 <? a)).
Lemma cl_settings l ps : l_cl_cont l = None -> (length ps <= 2730)%nat ->
  client_frame l (render_ev (EvSettings ps)) =
  if mfs_bad (last_mfs ps (-1)) then conn_error l else
  {| l_streams := l_streams l; l_maxcid := l_maxcid l; l_unacked := l_unacked l + 1; l_pings := l_pings l;
     l_fsize := if 0 <=? last_mfs ps (-1) then last_mfs ps (-1) else l_fsize l; l_sv_cont := l_sv_cont l; l_cl_cont := None;
     l_dead := l_dead l; l_gosent := l_gosent l; l_conn_err := l_conn_err l; l_err_at := l_err_at l |}.
Proof.
  intros Hc Hn. unfold client_frame, render_ev, cl, mfs_bad. cbn [ty st len fl arg arg2 w]. rewrite Hc.
  destruct (6 * Z.of_nat (length ps) >? 16384) eqn:E; [lia|]. tyeqc.
  change (has 0%N H2_FLAG_ACK) with false. cbn iota.
  replace ((6 * Z.of_nat (length ps)) mod 6 =? 0) with true.
  2:{ symmetry. apply Z.eqb_eq. rewrite Z.mul_comm. apply Z_mod_mult. }
  cbn [negb]. reflexivity.
Qed.

(* ---------------------------------------------------------------- stream resets by SETTINGS / WINDOW_UPDATE *)
Lemma apply_diff_legal diff m : forall ss ss' o l, apply_diff diff ss = (ss', o) ->
  live l -> l_maxcid l = m -> sinv ss (l_streams l) -> ids_ok ss m ->
  exists l', legal_from l (map render_out o) = inl l' /\ scal l' = scal l /\ sinv ss' (l_streams l') /\ ids_ok ss' m /\
             (forall j, ~ In j (map sid ss) -> find_s j (l_streams l') = find_s j (l_streams l)) /\ incl (map sid ss') (map sid ss).
Proof.
  induction ss as [|s t IH]; intros ss' o l H Hl Hm Hs Hi; cbn [apply_diff] in H.
  - injection H as <- <-. exists l. repeat split; auto; try constructor. intros a Ha; exact Ha.
  - destruct Hi as [Hnd Hb]. cbn [map] in Hnd. apply NoDup_cons_iff in Hnd as [Hnin Hnd].
    apply Forall_cons_iff in Hb as [[Hb0 Hbm] Hb]. apply Forall_cons_iff in Hs as [[x [Hx Hxs]] Hs].
    destruct (apply_diff diff t) as [t1 o1] eqn:E.
    match type of H with (if ?c then _ else _) = _ => destruct c end; injection H as <- <-.
    + destruct (sv_rst l (sid s) H2_E_FLOW_CONTROL_ERROR Hl Hb0 ltac:(lia)) as [l1 [R1 [R2 R3]]].
      pose proof (scal_fields _ _ R2) as F.
      assert (Hl1 : live l1) by (eapply scal_live; eassumption).
      assert (Hs1 : sinv t (l_streams l1)) by (eapply sinv_others; eassumption).
      destruct (IH _ _ l1 eq_refl Hl1 ltac:(intuition congruence) Hs1 (conj Hnd Hb)) as [l2 [Q1 [Q2 [Q3 [Q4 [Q5 Q6]]]]]].
      exists l2. rewrite legal_sv_cons, R1. split; [exact Q1|]. split; [congruence|]. split; [exact Q3|]. split; [exact Q4|]. split.
      * intros j Hj. cbn [map In] in Hj. rewrite Q5 by tauto. apply R3. intros Ej. apply Hj. left. congruence.
      * intros a0 Ha. right. apply Q6. exact Ha.
    + destruct (IH _ _ l eq_refl Hl Hm Hs (conj Hnd Hb)) as [l2 [Q1 [Q2 [Q3 [Q4 [Q5 Q6]]]]]].
      exists l2. split; [exact Q1|]. split; [exact Q2|]. split.
      { constructor; [|exact Q3]. cbn [sid hdr_sent upd_stream]. exists x. split; [|exact Hxs]. rewrite Q5 by exact Hnin. exact Hx. }
      split.
      { destruct Q4 as [Q4a Q4b]. split.
        - cbn [map sid upd_stream]. constructor; [|exact Q4a]. intros Hin. apply Hnin. apply Q6. exact Hin.
        - constructor; [cbn [sid upd_stream]; split; assumption|exact Q4b]. }
      split.
      * intros j Hj. cbn [map In] in Hj. apply Q5. tauto.
      * intros a0 Ha. cbn [map sid upd_stream In] in *. destruct Ha as [Ha|Ha]; [left; exact Ha|right; apply Q6; exact Ha].
Qed.

Lemma wu_stream_in s0 v : forall ss r, wu_stream s0 v ss = Some r -> In s0 (map sid ss).
Proof.
  induction ss as [|s t IH]; intros r H; cbn [wu_stream] in H; [discriminate|].
  destruct (sid s =? s0)%N eqn:E; [left; apply N.eqb_eq; exact E|].
  destruct (wu_stream s0 v t) as [[t' o]|] eqn:E2; [|discriminate]. right. eapply IH. reflexivity.
Qed.

Lemma wu_stream_legal s0 v m : forall ss ss' o l, wu_stream s0 v ss = Some (ss', o) ->
  live l -> l_maxcid l = m -> sinv ss (l_streams l) -> ids_ok ss m ->
  exists l', legal_from l (map render_out o) = inl l' /\ scal l' = scal l /\ sinv ss' (l_streams l') /\ ids_ok ss' m /\
             others_same s0 l l' /\ incl (map sid ss') (map sid ss).
Proof.
  induction ss as [|s t IH]; intros ss' o l H Hl Hm Hs Hi; cbn [wu_stream] in H; [discriminate|].
  destruct Hi as [Hnd Hb]. cbn [map] in Hnd. apply NoDup_cons_iff in Hnd as [Hnin Hnd].
  apply Forall_cons_iff in Hb as [[Hb0 Hbm] Hb]. apply Forall_cons_iff in Hs as [[x [Hx Hxs]] Hs].
  destruct (sid s =? s0)%N eqn:E.
  - apply N.eqb_eq in E. subst s0.
    assert (RST : forall code, exists l', legal_from l (map render_out [ORst (sid s) code]) = inl l' /\ scal l' = scal l /\ sinv t (l_streams l') /\ ids_ok t m /\
                                others_same (sid s) l l' /\ incl (map sid t) (map sid (s :: t))).
    { intros code. destruct (sv_rst l (sid s) code Hl Hb0 ltac:(lia)) as [l1 [R1 [R2 R3]]].
      exists l1. rewrite legal_sv_cons, R1. split; [reflexivity|]. split; [exact R2|]. split; [eapply sinv_others; eassumption|].
      split; [split; assumption|]. split; [exact R3|]. intros a Ha. right. exact Ha. }
    destruct (v =? 0); [injection H as <- <-; apply RST|].
    destruct (swin s >? INT32_MAX - v); injection H as <- <-; [apply RST|].
    exists l. split; [reflexivity|]. split; [reflexivity|]. split.
    { constructor; [|exact Hs]. cbn [sid hdr_sent]. exists x. auto. }
    split.
    { split; [cbn [map sid]; constructor; assumption|]. constructor; [cbn [sid]; auto|exact Hb]. }
    split; [intros j Hj; reflexivity|]. intros a Ha. exact Ha.
  - destruct (wu_stream s0 v t) as [[t' o']|] eqn:E2; [|discriminate]. injection H as <- <-.
    destruct (IH _ _ l eq_refl Hl Hm Hs (conj Hnd Hb)) as [l2 [Q1 [Q2 [Q3 [Q4 [Q5 Q6]]]]]].
    exists l2. split; [exact Q1|]. split; [exact Q2|]. split.
    { constructor; [|exact Q3]. exists x. split; [|exact Hxs]. rewrite Q5; [exact Hx|]. apply N.eqb_neq in E. exact E. }
    split.
    { destruct Q4 as [Q4a Q4b]. split.
      - cbn [map]. constructor; [|exact Q4a]. intros Hin. apply Hnin. apply Q6. exact Hin.
      - constructor; [split; assumption|exact Q4b]. }
    split; [exact Q5|]. intros a0 Ha. cbn [map In] in *. destruct Ha as [Ha|Ha]; [left; exact Ha|right; apply Q6; exact Ha].
Qed.

(* ---------------------------------------------------------------- SETTINGS *)
Definition winv (c : h2) (l : lst) := live l /\ l_maxcid l = cid c /\ sinv (streams c) (l_streams l) /\ ids_ok (streams c) (cid c).

Lemma goaway_legal c code l c' o : goaway c code = (c', o) -> winv c l ->
  alive c' = false /\ exists l', legal_from l (map render_out o) = inl l'.
Proof.
  unfold goaway. intros H [Hl [Hm _]]. injection H as <- <-. split; [reflexivity|].
  destruct (sv_goaway l (cid c) code Hl ltac:(lia)) as [l' R]. exists l'. rewrite legal_sv_cons, R. reflexivity.
Qed.

Lemma settings_loop_legal : forall ps c acc c' o l, settings_loop c ps acc = (c', o) -> winv c l -> alive c = true ->
  exists o', o = acc ++ o' /\ exists l', legal_from l (map render_out o') = inl l' /\
    (alive c' = true -> winv c' l' /\ scal l' = scal l /\
       forall a0, (last_mfs ps a0 = a0 /\ fsize c' = fsize c) \/ (16384 <= last_mfs ps a0 <= 16777215 /\ fsize c' = last_mfs ps a0)).
Proof.
  induction ps as [|[id v] t IH]; intros c acc c' o l H Hw Ha; cbn [settings_loop] in H.
  - injection H as <- <-. exists []. split; [symmetry; apply app_nil_r|]. exists l. split; [reflexivity|]. intros _.
    split; [exact Hw|]. split; [reflexivity|]. intros a0. left. split; reflexivity.
  - assert (GO : forall code, (let '(c'0, o0) := goaway c code in (c'0, acc ++ o0)) = (c', o) ->
                   exists o', o = acc ++ o' /\ exists l', legal_from l (map render_out o') = inl l' /\ (alive c' = true -> winv c' l' /\ scal l' = scal l /\
                     forall a0, (last_mfs ((id, v) :: t) a0 = a0 /\ fsize c' = fsize c) \/ (16384 <= last_mfs ((id, v) :: t) a0 <= 16777215 /\ fsize c' = last_mfs ((id, v) :: t) a0))).
    { intros code G. destruct (goaway c code) as [c0 o0] eqn:EG. injection G as <- <-.
      destruct (goaway_legal _ _ _ _ _ EG Hw) as [Hd [l' R]]. exists o0. split; [reflexivity|]. exists l'. split; [exact R|].
      intros Hal. congruence. }
    destruct (id =? H2_SETTINGS_INITIAL_WINDOW_SIZE)%N eqn:E1.
    + apply N.eqb_eq in E1. subst id.
      destruct (v >? INT32_MAX); [apply (GO _ H)|].
      assert (EA : (match streams c with [] => ([], []) | _ => apply_diff (v - iws c) (streams c) end) = apply_diff (v - iws c) (streams c))
        by (destruct (streams c); reflexivity).
      rewrite EA in H. destruct (apply_diff (v - iws c) (streams c)) as [ss o1] eqn:ED.
      destruct Hw as [Hl [Hm [Hs Hi]]].
      destruct (apply_diff_legal _ _ _ _ _ l ED Hl Hm Hs Hi) as [l1 [Q1 [Q2 [Q3 [Q4 _]]]]].
      pose proof (scal_fields _ _ Q2) as F.
      destruct (IH _ _ _ _ l1 H) as [o2 [-> [l2 [P1 P2]]]].
      { split; [eapply scal_live; eassumption|]. cbn [cid streams mk_h2]. split; [intuition congruence|]. split; assumption. }
      { exact Ha. }
      exists (o1 ++ o2). split; [apply app_assoc_reverse|]. exists l2. split; [rewrite (legal_sv_app _ _ _ _ Q1); exact P1|].
      intros Hal. destruct (P2 Hal) as [W [S M]]. split; [exact W|]. split; [congruence|].
      intros a0. cbn [last_mfs]. change (H2_SETTINGS_INITIAL_WINDOW_SIZE =? H2_SETTINGS_MAX_FRAME_SIZE)%N with false. exact (M a0).
    + destruct (id =? H2_SETTINGS_MAX_FRAME_SIZE)%N eqn:E2.
      * destruct ((v <? 16384) || (v >? 16777215)) eqn:EV; [apply (GO _ H)|].
        destruct (IH _ _ _ _ l H) as [o2 [-> [l2 [P1 P2]]]].
        { destruct Hw as [Hl [Hm [Hs Hi]]]. split; [exact Hl|]. cbn [cid streams mk_h2]. auto. }
        { exact Ha. }
        exists o2. split; [reflexivity|]. exists l2. split; [exact P1|].
        intros Hal. destruct (P2 Hal) as [W [S M]]. split; [exact W|]. split; [exact S|].
        intros a0. cbn [last_mfs]. rewrite E2. cbn [fsize mk_h2] in M. right. destruct (M v) as [[M1 M2]|[M1 M2]].
        -- rewrite M1. split; [lia|exact M2].
        -- split; assumption.
      * assert (SAME : forall c0, fsize c0 = fsize c -> cid c0 = cid c -> streams c0 = streams c -> alive c0 = alive c ->
                   settings_loop c0 t acc = (c', o) ->
                   exists o', o = acc ++ o' /\ exists l', legal_from l (map render_out o') = inl l' /\ (alive c' = true -> winv c' l' /\ scal l' = scal l /\
                     forall a0, (last_mfs ((id, v) :: t) a0 = a0 /\ fsize c' = fsize c) \/ (16384 <= last_mfs ((id, v) :: t) a0 <= 16777215 /\ fsize c' = last_mfs ((id, v) :: t) a0))).
        { intros c0 F1 F2 F3 F4 H0. destruct (IH _ _ _ _ l H0) as [o2 [-> [l2 [P1 P2]]]].
          { unfold winv in *. rewrite F2, F3. exact Hw. }
          { congruence. }
          exists o2. split; [reflexivity|]. exists l2. split; [exact P1|].
          intros Hal. destruct (P2 Hal) as [W [S M]]. split; [exact W|]. split; [exact S|].
          intros a0. cbn [last_mfs]. rewrite E2. rewrite <- F1. exact (M a0). }
        destruct (id =? H2_SETTINGS_ENABLE_PUSH)%N; [|apply (SAME c); auto].
        destruct ((v =? 0) || (v =? 1)); [apply (SAME c); auto|apply (GO _ H)].
Qed.

(* ---------------------------------------------------------------- one event *)
Lemma inv_winv c l : inv c l -> winv c l.
Proof. unfold inv, winv. intuition. Qed.

Lemma NoDup_snoc {A} (a : A) : forall l, NoDup l -> ~ In a l -> NoDup (l ++ [a]).
Proof.
  induction l as [|x l IH]; intros Hn Hi; cbn [app]; [constructor; [intros []|constructor]|].
  apply NoDup_cons_iff in Hn as [H1 H2]. constructor.
  - rewrite in_app_iff. cbn [In]. intros [H|[H|[]]]; [tauto|]. apply Hi. left. congruence.
  - apply IH; [exact H2|]. intros H. apply Hi. right. exact H.
Qed.

Lemma pump_step c c2 o2 l pre lpre : pump 64 c = (c2, o2) -> legal_from lpre (map render_out pre) = inl l -> inv c l ->
  exists l', legal_from lpre (map render_out (pre ++ o2)) = inl l' /\ (alive c2 = true -> inv c2 l').
Proof.
  intros Hp Hpre Hi. destruct (pump_legal _ _ _ _ _ Hp Hi) as [l' [P1 P2]]. exists l'. split; [|intros _; exact P2].
  rewrite (legal_sv_app _ _ _ _ Hpre). exact P1.
Qed.

Ltac prj := cbn [l_streams l_maxcid l_unacked l_pings l_fsize l_sv_cont l_cl_cont l_dead l_gosent l_conn_err l_err_at] in *.

Lemma step_legal c e c' o l : inv c l -> alive c = true -> ev_fits e -> step c e = Ok c' o ->
  exists l', legal_from (client_frame l (render_ev e)) (map render_out o) = inl l' /\ (alive c' = true -> inv c' l').
Proof.
  intros Hi Ha Hfit H. unfold step in H. rewrite Ha in H. cbn [negb] in H.
  pose proof Hi as [Hl [Hcc [He [Hf [Hm [Hu [Hp [Hs Hio]]]]]]]].
  destruct e as [ps| |s n|s v| |s].
  - (* SETTINGS *)
    cbn [ev_fits] in Hfit. rewrite (cl_settings _ _ Hcc Hfit).
    destruct (settings_loop c ps []) as [c1 o1] eqn:ES.
    set (a := last_mfs ps (-1)) in *.
    set (lrec := {| l_streams := l_streams l; l_maxcid := l_maxcid l; l_unacked := l_unacked l + 1; l_pings := l_pings l;
                    l_fsize := if 0 <=? a then a else l_fsize l; l_sv_cont := l_sv_cont l; l_cl_cont := None;
                    l_dead := l_dead l; l_gosent := l_gosent l; l_conn_err := l_conn_err l; l_err_at := l_err_at l |}).
    set (l1 := if mfs_bad a then conn_error l else lrec).
    assert (W1 : winv c l1).
    { unfold l1. destruct (mfs_bad a) eqn:EB.
      - destruct (conn_error_live l Hl) as [A [B C]]. unfold winv. rewrite B, C. split; [exact A|]. split; [exact Hm|]. split; [exact Hs|exact Hio].
      - unfold winv, live, lrec. prj. destruct Hl as [? [? ?]]. unfold mfs_bad in EB. repeat split; try assumption; try apply Hio.
        destruct (0 <=? a) eqn:E0; [cbn [andb] in EB; lia|lia]. }
    destruct (settings_loop_legal _ _ _ _ _ l1 ES W1 Ha) as [o' [Eo [l2 [P1 P2]]]]. cbn [app] in Eo. subst o'.
    destruct (alive c1) eqn:A1.
    + destruct (pump 64 c1) as [c2 o2] eqn:EP. injection H as <- <-.
      destruct (P2 eq_refl) as [W2 [S2 M]]. specialize (M (-1)). fold a in M.
      assert (EB : mfs_bad a = false).
      { unfold mfs_bad. destruct M as [[M1 _]|[M1 _]]; [rewrite M1; reflexivity|]. lia. }
      assert (E1 : l1 = lrec) by (unfold l1; rewrite EB; reflexivity).
      pose proof (scal_fields _ _ S2) as F. rewrite E1 in F. unfold lrec in F. prj.
      destruct W2 as [Hl2 [Hm2 [Hs2 Hi2]]].
      destruct (sv_ack l2 Hl2 ltac:(lia)) as [l3 [R1 [R2 R3]]].
      assert (EO : o1 ++ [OSettingsAck] ++ o2 = (o1 ++ [OSettingsAck]) ++ o2) by apply app_assoc. cbn [app] in EO |- *. rewrite EO.
      apply (pump_step _ _ _ l3 (o1 ++ [OSettingsAck]) l1 EP).
      * rewrite (legal_sv_app _ _ _ _ P1). rewrite legal_sv_cons, R1. reflexivity.
      * unfold scal in R3. injection R3 as G1 G2 G3 G4 G5 G6 G7 G8 G9 G10.
        destruct F as (F1 & F2 & F3 & F4 & F5 & F6 & F7 & F8 & F9 & F10). destruct Hl2 as [K1 [K2 K3]].
        unfold inv, live. rewrite R2.
        split; [split; [congruence|split; [exact G5|congruence]]|].
        split; [congruence|]. split; [congruence|].
        split. { rewrite G4, F4. destruct M as [[M1 M2]|[M1 M2]]; [rewrite M1; cbn; congruence|]. destruct (0 <=? a) eqn:E0; [congruence|lia]. }
        split; [congruence|]. split; [rewrite G2, F2, Hu; reflexivity|]. split; [congruence|]. split; [exact Hs2|exact Hi2].
    + injection H as <- <-. exists l2. split; [exact P1|]. intros Q. congruence.
  - (* SETTINGS ACK *)
    rewrite (cl_ack _ Hcc). destruct (settings_pending c).
    + destruct (pump 64 _) as [c2 o2] eqn:EP. injection H as <- <-.
      apply (pump_step _ _ _ l [] l EP eq_refl). exact Hi.
    + destruct (goaway c H2_E_PROTOCOL_ERROR) as [c1 o1] eqn:EG. injection H as <- <-.
      destruct (goaway_legal _ _ _ _ _ EG (inv_winv _ _ Hi)) as [Hd [l' R]]. exists l'. split; [exact R|]. congruence.
  - (* HEADERS *)
    destruct (N.even s || (s <=? cid c)%N || (max_streams <=? length (streams c))%nat || (n <? 0)) eqn:EC; [discriminate|].
    apply orb_false_iff in EC as [EC _]. apply orb_false_iff in EC as [EC _]. apply orb_false_iff in EC as [Ev Ec].
    apply N.leb_gt in Ec.
    rewrite (cl_headers _ _ _ Hcc Ev ltac:(lia)).
    destruct (pump 64 _) as [c2 o2] eqn:EP. injection H as <- <-.
    match goal with |- exists l', legal_from ?l1 _ = _ /\ _ => apply (pump_step _ _ _ l1 [] l1 EP eq_refl) end.
    unfold inv, live. prj. cbn [fsize cid streams mk_h2]. destruct Hl as [? [? ?]]. destruct Hio as [Hnd Hb].
    assert (Hlt : forall s0, In s0 (streams c) -> (sid s0 < s)%N).
    { intros s0 Hin. rewrite Forall_forall in Hb. destruct (Hb s0 Hin). lia. }
    repeat split; try assumption; try congruence.
    + unfold sinv. apply Forall_app. split.
      * unfold sinv in Hs. rewrite Forall_forall in *. intros s0 Hin. destruct (Hs s0 Hin) as [x [A B]]. exists x. split; [|exact B].
        cbn [find_s s_id]. destruct (s =? sid s0)%N eqn:E; [apply N.eqb_eq in E; specialize (Hlt s0 Hin); lia|exact A].
      * constructor; [|constructor]. cbn [sid hdr_sent find_s s_id]. rewrite N.eqb_refl. eexists; split; [reflexivity|]. unfold sok. cbn. auto.
    + rewrite map_app. cbn [map sid]. apply NoDup_snoc; [exact Hnd|]. intros Hin. apply in_map_iff in Hin as [s0 [E Hin]].
      specialize (Hlt s0 Hin). lia.
    + apply Forall_app. split.
      * rewrite Forall_forall in *. intros s0 Hin. destruct (Hb s0 Hin). specialize (Hlt s0 Hin). split; [assumption|lia].
      * constructor; [|constructor]. cbn [sid]. split; [|lia]. intros E0. subst s. discriminate.
  - (* WINDOW_UPDATE *)
    rewrite (cl_wu _ _ _ Hcc). rewrite Hm.
    destruct (recv_wu c s v) as [c1 o1] eqn:ER. unfold recv_wu in ER.
    assert (GOE : forall code lx, winv c lx -> goaway c code = (c1, o1) ->
              exists l', legal_from lx (map render_out o) = inl l' /\ (alive c' = true -> inv c' l')).
    { intros code lx W EG. destruct (goaway_legal _ _ _ _ _ EG W) as [Hd [l' R]]. rewrite Hd in H. injection H as <- <-.
      exists l'. split; [exact R|]. congruence. }
    assert (WE : winv c (conn_error l)).
    { destruct (conn_error_live l Hl) as [A [B C]]. unfold winv. rewrite B, C. split; [exact A|]. split; [exact Hm|]. split; [exact Hs|exact Hio]. }
    destruct (s =? 0)%N eqn:E0; cbn [andb orb negb].
    + destruct (v =? 0) eqn:Ev; [apply (GOE _ _ WE ER)|].
      destruct (cswin c >? INT32_MAX - v); [apply (GOE _ _ (inv_winv _ _ Hi) ER)|].
      injection ER as <- <-. cbn [alive] in H. rewrite Ha in H. destruct (pump 64 _) as [c2 o2] eqn:EP. injection H as <- <-.
      apply (pump_step _ _ _ l [] l EP eq_refl). exact Hi.
    + destruct (wu_stream s v (streams c)) as [[ss ow]|] eqn:EW.
      * pose proof (wu_stream_in _ _ _ _ EW) as Hin. apply in_map_iff in Hin as [s0 [Es Hin]].
        destruct Hio as [Hnd Hb]. pose proof Hb as Hb'. rewrite Forall_forall in Hb'. destruct (Hb' s0 Hin) as [_ Hle]. rewrite Es in Hle.
        destruct (cid c <? s)%N eqn:EL; [lia|].
        injection ER as <- <-. cbn [alive with_streams mk_h2] in H. rewrite Ha in H. destruct (pump 64 _) as [c2 o2] eqn:EP. injection H as <- <-.
        destruct (wu_stream_legal _ _ _ _ _ _ l EW Hl Hm Hs (conj Hnd Hb)) as [l2 [Q1 [Q2 [Q3 [Q4 _]]]]].
        apply (pump_step _ _ _ l2 ow l EP Q1). pose proof (scal_fields _ _ Q2) as F.
        unfold inv. cbn [fsize cid streams with_streams mk_h2]. split; [eapply scal_live; eassumption|].
        repeat split; try (intuition congruence); try exact Q3; apply Q4.
      * destruct (cid c <? s)%N eqn:EL; [apply (GOE _ _ WE ER)|].
        injection ER as <- <-. rewrite Ha in H. destruct (pump 64 c) as [c2 o2] eqn:EP. injection H as <- <-.
        apply (pump_step _ _ _ l [] l EP eq_refl). exact Hi.
  - (* PING *)
    rewrite (cl_ping _ Hcc). destruct (pump 64 c) as [c2 o2] eqn:EP. injection H as <- <-.
    set (l1 := {| l_streams := l_streams l; l_pings := l_pings l + 1 |}).
    destruct (sv_pingack l1) as [l2 [R1 [R2 R3]]]; [exact Hl|cbn; lia|].
    apply (pump_step _ _ _ l2 [OPingAck] l1 EP).
    + rewrite legal_sv_cons, R1. reflexivity.
    + unfold scal in R3. inversion R3. clear R3. subst l1. prj.
      unfold inv, live. rewrite R2. prj. destruct Hl as [? [? ?]]. repeat split; try congruence; try lia; try assumption; try apply Hio.
  - (* RST_STREAM from the client *)
    rewrite (cl_rst _ _ Hcc). rewrite Hm.
    destruct ((s =? 0)%N || (cid c <? s)%N) eqn:E.
    + destruct (goaway c H2_E_PROTOCOL_ERROR) as [c1 o1] eqn:EG. injection H as <- <-.
      assert (WE : winv c (conn_error l)).
      { destruct (conn_error_live l Hl) as [A [B C]]. unfold winv. rewrite B, C. split; [exact A|]. split; [exact Hm|]. split; [exact Hs|exact Hio]. }
      destruct (goaway_legal _ _ _ _ _ EG WE) as [Hd [l' R]]. exists l'. split; [exact R|]. congruence.
    + destruct (pump 64 _) as [c2 o2] eqn:EP. injection H as <- <-.
      match goal with |- exists l', legal_from ?l1 _ = _ /\ _ => apply (pump_step _ _ _ l1 [] l1 EP eq_refl) end.
      destruct Hio as [Hnd Hb]. unfold inv, live. cbn [l_streams l_maxcid l_unacked l_pings l_fsize l_sv_cont l_cl_cont l_dead l_gosent l_conn_err l_err_at set_streams fsize cid streams with_streams mk_h2].
      destruct Hl as [? [? ?]]. repeat split; try assumption.
      * unfold sinv in *. rewrite Forall_forall in *. intros x Hx. destruct (Hs x (remove_in _ _ _ Hx)) as [y [A B]]. exists y. split; [|exact B].
        rewrite find_upd_other; [exact A|intros z; reflexivity|]. exact (remove_notin s _ Hnd x Hx).
      * apply remove_nodup. exact Hnd.
      * rewrite Forall_forall in *. intros x Hx. apply Hb. eapply remove_in. exact Hx.
Qed.

(* ---------------------------------------------------------------- every history *)
Lemma inv_init : inv h2_init l_init.
Proof.
  unfold inv, live, h2_init, l_init. cbn. repeat split; try reflexivity; try lia; constructor.
Qed.

Lemma client_only_legal : forall tr l, Forall (fun f => w f = Cl) tr -> exists l', legal_from l tr = inl l'.
Proof.
  induction tr as [|f tr IH]; intros l H; [exists l; reflexivity|].
  apply Forall_cons_iff in H as [H1 H2]. cbn [legal_from]. rewrite H1. apply IH. exact H2.
Qed.

Lemma w_render_ev e : w (render_ev e) = Cl. Proof. destruct e; reflexivity. Qed.

Lemma dead_trace : forall es c tr, alive c = false -> trace c es = Some tr -> Forall (fun f => w f = Cl) tr.
Proof.
  induction es as [|e es IH]; intros c tr Ha H; cbn [trace] in H.
  - injection H as <-. constructor.
  - unfold step in H. rewrite Ha in H. cbn [negb] in H. destruct (trace c es) as [r|] eqn:E; [|discriminate].
    injection H as <-. cbn [map app]. constructor; [apply w_render_ev|]. eapply IH; eassumption.
Qed.

Fixpoint final (c : h2) (es : list ev) : option h2 :=
  match es with [] => Some c | e :: t => match step c e with Unsupported => None | Ok c' _ => final c' t end end.

Lemma dead_final : forall es c cf, alive c = false -> final c es = Some cf -> alive cf = false.
Proof.
  induction es as [|e es IH]; intros c cf Ha H; cbn [final] in H; [injection H as <-; exact Ha|].
  unfold step in H. rewrite Ha in H. cbn [negb] in H. eapply IH; eassumption.
Qed.

Theorem trace_legal : forall es c l tr cf, (alive c = true -> inv c l) -> Forall ev_fits es -> trace c es = Some tr -> final c es = Some cf ->
  exists l', legal_from l tr = inl l' /\ (alive cf = true -> inv cf l').
Proof.
  induction es as [|e es IH]; intros c l tr cf Hi Hf H HF.
  - cbn in H, HF. injection H as <-. injection HF as <-. exists l. split; [reflexivity|exact Hi].
  - destruct (alive c) eqn:Ha.
    + cbn [trace] in H. cbn [final] in HF. destruct (step c e) as [|c1 o] eqn:ES; [discriminate|].
      destruct (trace c1 es) as [r|] eqn:ET; [|discriminate]. injection H as <-.
      apply Forall_cons_iff in Hf as [Hf1 Hf2].
      destruct (step_legal _ _ _ _ l (Hi eq_refl) Ha Hf1 ES) as [l1 [P1 P2]].
      destruct (IH c1 l1 r cf P2 Hf2 ET HF) as [l2 [Q Q2]].
      exists l2. split; [|exact Q2]. cbn [legal_from]. rewrite w_render_ev.
      clear -P1 Q. revert P1. generalize (client_frame l (render_ev e)). intros l0 P1.
      revert l0 P1. induction o as [|x o IHo]; intros l0 P1.
      * cbn in P1. injection P1 as ->. exact Q.
      * rewrite legal_sv_cons in P1. cbn [map app legal_from]. rewrite w_render.
        destruct (server_frame l0 (render_out x)) as [l3|v]; [|discriminate]. apply IHo. exact P1.
    + destruct (client_only_legal tr l) as [l' R]; [eapply dead_trace; eassumption|].
      exists l'. split; [exact R|]. intros Q. rewrite (dead_final _ _ _ Ha HF) in Q. discriminate.
Qed.

Theorem every_emitted_frame_is_legal_in_every_history : forall es tr, Forall ev_fits es -> trace h2_init es = Some tr ->
  exists l, legal_from l_init tr = inl l.
Proof.
  intros es tr Hf H.
  assert (HF : exists cf, final h2_init es = Some cf).
  { clear Hf. revert tr H. generalize h2_init. induction es as [|e es IH]; intros c tr H; cbn [trace final] in *; [eexists; reflexivity|].
    destruct (step c e) as [|c1 o]; [discriminate|]. destruct (trace c1 es) as [r|] eqn:E; [|discriminate]. eapply IH. exact E. }
  destruct HF as [cf HF].
  destruct (trace_legal es h2_init l_init tr cf (fun _ => inv_init) Hf H HF) as [l' [R _]]. exists l'. exact R.
Qed.

(* and on a connection still alive at the end everything owed has been sent: each SETTINGS acknowledged, each PING echoed, no header block
   left open, no connection error left unanswered; the only end-of-trace clause that can remain is 23 (a response waiting for flow-control credit) *)
Theorem nothing_owed_at_the_end : forall es tr cf l, Forall ev_fits es -> trace h2_init es = Some tr -> final h2_init es = Some cf ->
  legal_from l_init tr = inl l -> alive cf = true ->
  l_unacked l = 0 /\ l_pings l = 0 /\ l_sv_cont l = None /\ l_conn_err l = false /\ (final_check true l = None \/ final_check true l = Some 23%N).
Proof.
  intros es tr cf l Hf H HF HL Ha.
  destruct (trace_legal es h2_init l_init tr cf (fun _ => inv_init) Hf H HF) as [l' [R I]]. rewrite HL in R. injection R as <-.
  destruct (I Ha) as [[_ [Hc _]] [Hcc [He [_ [_ [Hu [Hp _]]]]]]].
  repeat split; try assumption. unfold final_check. rewrite He, Hu, Hp, Hc, Hcc. cbn [Z.eqb negb].
  destruct (l_gosent l); cbn [orb andb]; [left; reflexivity|]. destruct (existsb _ _); [right|left]; reflexivity.
Qed.

(* non-vacuity: a history with settings, two requests, a ping, credit, and a final connection error has a trace, and it is legal *)
Example a_history : exists tr, trace h2_init [EvSettings [(4%N, 100); (5%N, 20000)]; EvHeaders 1 3000; EvPing; EvHeaders 3 0; EvWU 1 5000; EvHeaders 5 70000; EvRst 5; EvSettingsAck; EvWU 0 0; EvPing] = Some tr
  /\ (length tr > 12)%nat /\ legal true tr = None.
Proof. eexists. split; [vm_compute; reflexivity|]. split; vm_compute; [lia|reflexivity]. Qed.
Print Assumptions every_emitted_frame_is_legal_in_every_history.
Print Assumptions nothing_owed_at_the_end.
