(* C06 -- HTTP/2 flow control: model of the send-window arithmetic and of DATA emission
     src/h2.c: h2_init_con / h2_init_stream (initial windows), h2_parse_frame_settings (retroactive
     SETTINGS_INITIAL_WINDOW_SIZE delta, overflow tests), h2_recv_window_update (zero / overflow errors),
     h2_send_cqdata (clamp to min(stream, connection) window, small-send deferral, frame splitting),
     the stream loop of h2_process_streams (per-round budget, END_STREAM, retire), h2_recv_settings,
     h2_recv_ping, h2_recv_rst_stream (a cancelled stream is retired, nothing is sent), and on the receive side h2_send_window_update_unit (credit returned for uploads).
   Regime of the correspondence: every request is "GET /b<N>" with END_STREAM (response body = N bytes held
   in one memory chunk), the network drains the write queue after every round, at most [max_streams] streams.
   int32_t windows are Z with the code's own overflow tests written in. Constants from Gen/GenH2.v. *)
From LV Require Import Base.Bytes Gen.GenH2.
Local Open Scope Z_scope.

Definition INT32_MAX : Z := 2147483647.
Definition INT32_MIN : Z := -2147483648.

(* g_wu / g_sent / g_over are ghost fields (never read by the functions that decide what is sent): the
   WINDOW_UPDATE credit received for the stream, the DATA octets sent on it, and whether some DATA frame
   exceeded the credit granted by then (initial window in force + WINDOW_UPDATEs) *)
Record stream := { sid : N; swin : Z; pending : Z; hdr_sent : bool; g_wu : Z; g_sent : Z; g_over : bool }.
Record h2 := {
  cswin : Z;              (* connection send window  (h2r->x.h2.swin) *)
  iws : Z;                (* peer's SETTINGS_INITIAL_WINDOW_SIZE (h2c->s_initial_window_size) *)
  fsize : Z;              (* peer's SETTINGS_MAX_FRAME_SIZE *)
  streams : list stream;  (* h2c->r[0..rused) in order *)
  cid : N;                (* highest client stream id seen (h2c->h2_cid) *)
  settings_pending : bool;(* our SETTINGS not yet acknowledged (h2c->sent_settings) *)
  alive : bool;           (* no GOAWAY(error) sent *)
  g_ccredit : Z; g_csent : Z; g_cover : bool   (* ghosts for the connection window *)
}.
Definition h2_init : h2 :=
  {| cswin := init_conn_swin; iws := init_peer_initial_window; fsize := Z.of_N init_peer_max_frame; streams := [];
     cid := 0%N; settings_pending := true; alive := true; g_ccredit := init_conn_swin; g_csent := 0; g_cover := false |}.

Inductive out :=
| OData (s : N) (len : Z) (flags : N) | OHeaders (s : N) (flags : N) | ORst (s : N) (code : N)
| OSettingsAck | OGoaway (last : N) (code : N) | OPingAck.

Inductive ev :=
| EvSettings (ps : list (N * Z)) | EvSettingsAck | EvHeaders (s : N) (bodylen : Z) | EvWU (s : N) (inc : Z) | EvPing
| EvRst (s : N).        (* RST_STREAM from the client (any error code) *)

Definition mk_h2 (c : h2) (cw i f : Z) (ss : list stream) (ci : N) (sp al : bool) : h2 :=
  {| cswin := cw; iws := i; fsize := f; streams := ss; cid := ci; settings_pending := sp; alive := al;
     g_ccredit := g_ccredit c; g_csent := g_csent c; g_cover := g_cover c |}.
Definition with_streams (c : h2) (ss : list stream) : h2 :=
  mk_h2 c (cswin c) (iws c) (fsize c) ss (cid c) (settings_pending c) (alive c).
Definition goaway (c : h2) (code : N) : h2 * list out :=
  (mk_h2 c (cswin c) (iws c) (fsize c) [] (cid c) (settings_pending c) false, [OGoaway (cid c) code]).
Definition upd_stream (s : stream) (sw pend : Z) (h : bool) : stream :=
  {| sid := sid s; swin := sw; pending := pend; hdr_sent := h; g_wu := g_wu s; g_sent := g_sent s; g_over := g_over s |}.

(* ---------------------------------------------------------------- h2_parse_frame_settings *)
(* retroactive delta on every open stream; a stream whose window would leave int32 is reset *)
Fixpoint apply_diff (diff : Z) (ss : list stream) : list stream * list out :=
  match ss with
  | [] => ([], [])
  | s :: t =>
      let '(t', o) := apply_diff diff t in
      if (if 0 <=? diff then swin s >? INT32_MAX - diff else swin s <? INT32_MIN - diff)
      then (t', ORst (sid s) H2_E_FLOW_CONTROL_ERROR :: o)
      else (upd_stream s (swin s + diff) (pending s) (hdr_sent s) :: t', o)
  end.

Fixpoint settings_loop (c : h2) (ps : list (N * Z)) (acc : list out) : h2 * list out :=
  match ps with
  | [] => (c, acc)
  | (id, v) :: t =>
      if (id =? H2_SETTINGS_INITIAL_WINDOW_SIZE)%N then
        if v >? INT32_MAX then let '(c', o) := goaway c H2_E_FLOW_CONTROL_ERROR in (c', acc ++ o)
        else
          let '(ss, o) := match streams c with [] => ([], []) | _ => apply_diff (v - iws c) (streams c) end in
          settings_loop (mk_h2 c (cswin c) v (fsize c) ss (cid c) (settings_pending c) (alive c)) t (acc ++ o)
      else if (id =? H2_SETTINGS_MAX_FRAME_SIZE)%N then
        if (v <? 16384) || (v >? 16777215) then let '(c', o) := goaway c H2_E_PROTOCOL_ERROR in (c', acc ++ o)
        else settings_loop (mk_h2 c (cswin c) (iws c) v (streams c) (cid c) (settings_pending c) (alive c)) t acc
      else if (id =? H2_SETTINGS_ENABLE_PUSH)%N then
        if (v =? 0) || (v =? 1) then settings_loop c t acc
        else let '(c', o) := goaway c H2_E_PROTOCOL_ERROR in (c', acc ++ o)
      else settings_loop c t acc
  end.

(* ---------------------------------------------------------------- h2_recv_window_update *)
Fixpoint wu_stream (s0 : N) (v : Z) (ss : list stream) : option (list stream * list out) :=
  match ss with
  | [] => None
  | s :: t =>
      if (sid s =? s0)%N then
        if (v =? 0) then Some (t, [ORst s0 H2_E_PROTOCOL_ERROR])
        else if swin s >? INT32_MAX - v then Some (t, [ORst s0 H2_E_FLOW_CONTROL_ERROR])
        else Some ({| sid := sid s; swin := swin s + v; pending := pending s; hdr_sent := hdr_sent s;
                      g_wu := g_wu s + v; g_sent := g_sent s; g_over := g_over s |} :: t, [])
      else match wu_stream s0 v t with
           | Some (t', o) => Some (s :: t', o)
           | None => None
           end
  end.

Definition recv_wu (c : h2) (s0 : N) (v : Z) : h2 * list out :=
  if (s0 =? 0)%N then
    if v =? 0 then goaway c H2_E_PROTOCOL_ERROR
    else if cswin c >? INT32_MAX - v then goaway c H2_E_FLOW_CONTROL_ERROR
    else ({| cswin := cswin c + v; iws := iws c; fsize := fsize c; streams := streams c; cid := cid c;
             settings_pending := settings_pending c; alive := alive c;
             g_ccredit := g_ccredit c + v; g_csent := g_csent c; g_cover := g_cover c |}, [])
  else
    match wu_stream s0 v (streams c) with
    | Some (ss, o) => (with_streams c ss, o)
    | None => if (cid c <? s0)%N then goaway c H2_E_PROTOCOL_ERROR else (c, [])
    end.

(* ---------------------------------------------------------------- h2_send_cqdata: how much DATA may go out now *)
Definition send_amount (budget sw cw pend : Z) : Z :=
  if sw <? 0 then 0 else if cw <? 0 then 0
  else
    let d := Z.min budget (Z.min sw cw) in
    if d >? pend then pend
    else if (d <? Z.of_N defer_below) && (Z.of_N defer_below <=? pend) then 0
    else d.

(* split into frames of at most fsize (fuel bounds the count) *)
Fixpoint frames (fuel : nat) (s : N) (n fs : Z) : list out :=
  match fuel with
  | O => []
  | S f => if n <=? 0 then [] else let l := Z.min n fs in OData s l 0 :: frames f s (n - l) fs
  end.

(* one pass of the stream loop of h2_process_streams; cw = connection window threaded through.
   i = initial window in force, cc = connection credit (ghost), cs/cov = connection sent / overdraft flag (ghosts) *)
Fixpoint round_loop (fs i cc : Z) (cw cs : Z) (cov : bool) (ss : list stream) : Z * Z * bool * list stream * list out :=
  match ss with
  | [] => (cw, cs, cov, [], [])
  | s :: t =>
      let hdr := if hdr_sent s then [] else [OHeaders (sid s) (if pending s =? 0 then 5%N else 4%N)] in
      if (pending s =? 0) && negb (hdr_sent s) then
        let '(cw', cs', cov', t', o) := round_loop fs i cc cw cs cov t in (cw', cs', cov', t', hdr ++ o)
      else
        let n := send_amount (Z.of_N round_budget) (swin s) cw (pending s) in
        let dat := frames 64 (sid s) n fs in
        let pend' := pending s - n in
        let sov := g_over s || ((0 <? n) && (i + g_wu s <? g_sent s + n)) in
        let cov1 := cov || ((0 <? n) && (cc <? cs + n)) in
        if pend' =? 0 then
          let '(cw', cs', cov', t', o) := round_loop fs i cc (cw - n) (cs + n) cov1 t in
          (cw', cs', cov' || sov, t', hdr ++ dat ++ [OData (sid s) 0 1%N] ++ o)
        else
          let '(cw', cs', cov', t', o) := round_loop fs i cc (cw - n) (cs + n) cov1 t in
          (cw', cs', cov',
           {| sid := sid s; swin := swin s - n; pending := pend'; hdr_sent := true;
              g_wu := g_wu s; g_sent := g_sent s + n; g_over := sov |} :: t', hdr ++ dat ++ o)
  end.
(* (a stream that completes is retired; its overdraft flag is folded into the connection's so that it is not lost) *)

Definition round (c : h2) : h2 * list out :=
  let '(cw, cs, cov, ss, o) := round_loop (fsize c) (iws c) (g_ccredit c) (cswin c) (g_csent c) (g_cover c) (streams c) in
  ({| cswin := cw; iws := iws c; fsize := fsize c; streams := ss; cid := cid c; settings_pending := settings_pending c; alive := alive c;
      g_ccredit := g_ccredit c; g_csent := cs; g_cover := cov |}, o).

(* rounds until one emits nothing (the harness' pump; at most 64) *)
Fixpoint pump (fuel : nat) (c : h2) : h2 * list out :=
  match fuel with
  | O => (c, [])
  | S f => let '(c1, o) := round c in
           match o with [] => (c1, []) | _ => let '(c2, o2) := pump f c1 in (c2, o ++ o2) end
  end.

(* ---------------------------------------------------------------- h2_recv_rst_stream: the stream is closed and retired by the next pass of the stream loop;
   nothing is sent.  (The rapid-reset guard - GOAWAY after 17 quick resets - is outside the model: histories stay below it.) *)
Fixpoint remove_stream (s0 : N) (ss : list stream) : list stream :=
  match ss with [] => [] | s :: t => if (sid s =? s0)%N then t else s :: remove_stream s0 t end.

(* ---------------------------------------------------------------- one client frame *)
Inductive res := Unsupported | Ok (c : h2) (o : list out).

Definition step (c : h2) (e : ev) : res :=
  if negb (alive c) then Ok c [] else
  match e with
  | EvSettings ps =>
      let '(c1, o) := settings_loop c ps [] in
      if alive c1 then let '(c2, o2) := pump 64 c1 in Ok c2 (o ++ [OSettingsAck] ++ o2) else Ok c1 o
  | EvSettingsAck =>
      if settings_pending c then
        let '(c2, o2) := pump 64 (mk_h2 c (cswin c) (iws c) (fsize c) (streams c) (cid c) false (alive c)) in Ok c2 o2
      else let '(c1, o) := goaway c H2_E_PROTOCOL_ERROR in Ok c1 o
  | EvHeaders s n =>
      if (N.even s) || (s <=? cid c)%N || (max_streams <=? length (streams c))%nat || (n <? 0) then Unsupported
      else
        let c1 := mk_h2 c (cswin c) (iws c) (fsize c)
                     (streams c ++ [{| sid := s; swin := iws c; pending := n; hdr_sent := false; g_wu := 0; g_sent := 0; g_over := false |}])
                     s (settings_pending c) (alive c) in
        let '(c2, o2) := pump 64 c1 in Ok c2 o2
  | EvWU s v =>
      let '(c1, o) := recv_wu c s v in
      if alive c1 then let '(c2, o2) := pump 64 c1 in Ok c2 (o ++ o2) else Ok c1 o
  | EvPing => let '(c2, o2) := pump 64 c in Ok c2 (OPingAck :: o2)
  | EvRst s =>
      if (s =? 0)%N || (cid c <? s)%N then let '(c1, o) := goaway c H2_E_PROTOCOL_ERROR in Ok c1 o      (* stream 0 / an idle stream *)
      else let '(c2, o2) := pump 64 (with_streams c (remove_stream s (streams c))) in Ok c2 o2
  end.

(* ---------------------------------------------------------------- receive side: credit returned for uploads
   h2_send_window_update_unit: fudge is an int16 in [0, unit); a WINDOW_UPDATE of one unit is sent
   whenever the consumed bytes exceed the fudge *)
Definition wupd_unit (fudge : Z) (len : Z) : Z * Z :=   (* (fudge', credit returned) *)
  let f := fudge - len in if f <? 0 then (f + rwin_unit, rwin_unit) else (f, 0).

(* one upload (POST, body in unpadded DATA frames) on a fresh connection: the WINDOW_UPDATE frames
   lighttpd returns.  State = (connection fudge, stream fudge, bytes received). *)
Record up := { cfudge : Z; sfudge : Z; got : Z }.
Definition up_init : up := {| cfudge := 0; sfudge := 0; got := 0 |}.
Definition up_data (s : N) (u : up) (len : Z) (fin : bool) : up * list out :=
  let '(cf, wc) := wupd_unit (cfudge u) len in
  let '(sf, ws) := if fin then (sfudge u, 0) else wupd_unit (sfudge u) len in
  ({| cfudge := cf; sfudge := sf; got := got u + len |},
   (if wc =? 0 then [] else [OData 0%N wc 8%N]) ++ (if ws =? 0 then [] else [OData s ws 8%N])).
(* (WINDOW_UPDATE frames are written here as OData _ inc 8: type 8) *)
