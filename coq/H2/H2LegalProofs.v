(* C05: facts about the frames the HTTP/2 model (H2Flow) emits, in the vocabulary of the tracker. *)
From LV Require Import Base.Bytes Gen.GenH2 H2.H2Flow H2.H2FlowProofs H2.H2Legal.
Require Import ZifyBool.
Local Open Scope Z_scope.

(* ---------- DATA frames never exceed the peer's SETTINGS_MAX_FRAME_SIZE, are never empty, and add up *)
Definition data_len (o : out) : Z := match o with OData _ l _ => l | _ => 0 end.
Lemma frames_spec : forall fuel s n fs, 0 < fs ->
  Forall (fun o => exists l, o = OData s l 0%N /\ 0 < l <= fs) (frames fuel s n fs) /\
  (n <= Z.of_nat fuel * fs -> fold_right Z.add 0 (map data_len (frames fuel s n fs)) = Z.max 0 n).
Proof.
  induction fuel as [|f IH]; intros s n fs Hfs; cbn [frames].
  - split; [constructor|]. cbn. lia.
  - destruct (n <=? 0) eqn:E; [split; [constructor|cbn; lia]|].
    destruct (IH s (n - Z.min n fs) fs Hfs) as [H1 H2]. split.
    + constructor; [exists (Z.min n fs); split; [reflexivity|lia]|exact H1].
    + intros Hb. cbn [map fold_right data_len]. rewrite H2; lia.
Qed.

(* ---------- the peer's maximum frame size is never below the RFC minimum *)
Definition fsize_ok (c : h2) : Prop := 16384 <= fsize c.
Lemma settings_loop_fsize : forall ps c acc c' o, settings_loop c ps acc = (c', o) -> fsize_ok c -> fsize_ok c'.
Proof.
  induction ps as [|[id v] t IH]; intros c acc c' o; cbn [settings_loop].
  - intros H; inversion H; subst; auto.
  - intros H Hf. destruct (id =? H2_SETTINGS_INITIAL_WINDOW_SIZE)%N.
    + destruct (v >? INT32_MAX); [unfold goaway in H; inversion H; subst; exact Hf|].
      destruct (match streams c with [] => ([], []) | _ => apply_diff (v - iws c) (streams c) end) as [ss o1].
      eapply IH in H; [exact H|exact Hf].
    + destruct (id =? H2_SETTINGS_MAX_FRAME_SIZE)%N.
      * destruct ((v <? 16384) || (v >? 16777215)) eqn:E; [unfold goaway in H; inversion H; subst; exact Hf|].
        eapply IH in H; [exact H|]. unfold fsize_ok. cbn. lia.
      * destruct (id =? H2_SETTINGS_ENABLE_PUSH)%N; [|eapply IH; eassumption].
        destruct ((v =? 0) || (v =? 1)); [eapply IH; eassumption|]. unfold goaway in H; inversion H; subst; exact Hf.
Qed.

(* ---------- SETTINGS are acknowledged exactly once, PINGs echoed, and nothing follows a connection error *)
Definition count_ack (o : list out) : nat := length (filter (fun x => match x with OSettingsAck => true | _ => false end) o).
Definition count_ping (o : list out) : nat := length (filter (fun x => match x with OPingAck => true | _ => false end) o).

Lemma round_loop_no_ctl fs i cc : forall ss cw cs cov r, round_loop fs i cc cw cs cov ss = r ->
  count_ack (snd r) = 0%nat /\ count_ping (snd r) = 0%nat.
Proof.
  assert (Hfr : forall fuel s n, count_ack (frames fuel s n fs) = 0%nat /\ count_ping (frames fuel s n fs) = 0%nat).
  { induction fuel as [|f IH]; intros s n; cbn [frames]; [auto|]. destruct (n <=? 0); [auto|]. destruct (IH s (n - Z.min n fs)). split; cbn; assumption. }
  induction ss as [|s t IH]; intros cw cs cov r; cbn [round_loop].
  - intros <-. auto.
  - intros <-.
    destruct ((pending s =? 0) && negb (hdr_sent s)).
    + destruct (round_loop fs i cc cw cs cov t) as [[[[a b] c0] d] e] eqn:E. destruct (IH _ _ _ _ E) as [H1 H2]. cbn [snd] in *.
      unfold count_ack, count_ping in *. rewrite !filter_app, !app_length, H1, H2. destruct (hdr_sent s); cbn; auto.
    + set (n := send_amount _ _ _ _). destruct (Hfr 64%nat (sid s) n) as [F1 F2].
      remember (frames 64 (sid s) n fs) as dat eqn:Ed. clear Ed.
      assert (Hh : forall (l : list out), count_ack ((if hdr_sent s then [] else [OHeaders (sid s) (if pending s =? 0 then 5%N else 4%N)]) ++ l) = count_ack l /\
                                          count_ping ((if hdr_sent s then [] else [OHeaders (sid s) (if pending s =? 0 then 5%N else 4%N)]) ++ l) = count_ping l)
        by (intros l; destruct (hdr_sent s); split; reflexivity).
      assert (Happ : forall a b : list out, count_ack (a ++ b) = (count_ack a + count_ack b)%nat /\ count_ping (a ++ b) = (count_ping a + count_ping b)%nat)
        by (intros a b; unfold count_ack, count_ping; rewrite !filter_app, !app_length; split; reflexivity).
      destruct (pending s - n =? 0).
      * destruct (round_loop fs i cc (cw - n) (cs + n) _ t) as [[[[a b] c0] d] e] eqn:E. destruct (IH _ _ _ _ E) as [H1 H2]. cbn [snd] in *.
        destruct (Hh (dat ++ [OData (sid s) 0 1%N] ++ e)) as [-> ->]. destruct (Happ dat ([OData (sid s) 0 1%N] ++ e)) as [-> ->].
        destruct (Happ [OData (sid s) 0 1%N] e) as [-> ->]. rewrite F1, F2, H1, H2. split; reflexivity.
      * destruct (round_loop fs i cc (cw - n) (cs + n) _ t) as [[[[a b] c0] d] e] eqn:E. destruct (IH _ _ _ _ E) as [H1 H2]. cbn [snd] in *.
        destruct (Hh (dat ++ e)) as [-> ->]. destruct (Happ dat e) as [-> ->]. rewrite F1, F2, H1, H2. split; reflexivity.
Qed.
Lemma pump_no_ctl : forall fuel c c' o, pump fuel c = (c', o) -> count_ack o = 0%nat /\ count_ping o = 0%nat.
Proof.
  induction fuel as [|f IH]; intros c c' o; cbn [pump]; [intros H; inversion H; auto|].
  unfold round. destruct (round_loop (fsize c) (iws c) (g_ccredit c) (cswin c) (g_csent c) (g_cover c) (streams c)) as [[[[cw cs] cov] ss] o1] eqn:E.
  destruct (round_loop_no_ctl _ _ _ _ _ _ _ _ E) as [H1 H2]. cbn [snd] in *.
  destruct o1 as [|x o1']; [intros H; inversion H; auto|].
  destruct (pump f _) as [c2 o2] eqn:Ep. intros H; inversion H; subst. destruct (IH _ _ _ Ep) as [H3 H4].
  change (x :: o1' ++ o2) with ((x :: o1') ++ o2).
  unfold count_ack, count_ping in *. rewrite !filter_app, !app_length, H3, H4. lia.
Qed.

Lemma settings_loop_out : forall ps c acc c' o, settings_loop c ps acc = (c', o) -> count_ack acc = 0%nat -> count_ack o = 0%nat.
Proof.
  assert (Hd : forall d ss ss' o, apply_diff d ss = (ss', o) -> count_ack o = 0%nat).
  { induction ss as [|s t IH]; intros ss' o; cbn [apply_diff]; [intros H; inversion H; reflexivity|].
    destruct (apply_diff d t) as [t' o'] eqn:E. specialize (IH _ _ eq_refl).
    destruct (if 0 <=? d then swin s >? INT32_MAX - d else swin s <? INT32_MIN - d); intros H; inversion H; subst; cbn; exact IH. }
  induction ps as [|[id v] t IH]; intros c acc c' o; cbn [settings_loop]; [intros H; inversion H; auto|].
  intros H Ha. unfold goaway in H.
  destruct (id =? H2_SETTINGS_INITIAL_WINDOW_SIZE)%N.
  - destruct (v >? INT32_MAX); [inversion H; subst; unfold count_ack in *; rewrite filter_app, app_length, Ha; reflexivity|].
    destruct (match streams c with [] => ([], []) | _ => apply_diff (v - iws c) (streams c) end) as [ss o1] eqn:Ed.
    eapply IH in H; [exact H|]. assert (count_ack o1 = 0%nat) by (destruct (streams c); [inversion Ed; reflexivity|eapply Hd; exact Ed]).
    unfold count_ack in *. rewrite filter_app, app_length, Ha, H0. reflexivity.
  - destruct (id =? H2_SETTINGS_MAX_FRAME_SIZE)%N.
    + destruct ((v <? 16384) || (v >? 16777215)); [inversion H; subst; unfold count_ack in *; rewrite filter_app, app_length, Ha; reflexivity|eapply IH; eassumption].
    + destruct (id =? H2_SETTINGS_ENABLE_PUSH)%N; [|eapply IH; eassumption].
      destruct ((v =? 0) || (v =? 1)); [eapply IH; eassumption|inversion H; subst; unfold count_ack in *; rewrite filter_app, app_length, Ha; reflexivity].
Qed.

Theorem settings_acked_once c ps c' o : step c (EvSettings ps) = Ok c' o -> alive c = true -> alive c' = true -> count_ack o = 1%nat.
Proof.
  unfold step. intros H Ha Ha'. rewrite Ha in H. cbn [negb] in H.
  destruct (settings_loop c ps []) as [c1 o1] eqn:Es. pose proof (settings_loop_out _ _ _ _ _ Es eq_refl) as Ho1.
  destruct (alive c1) eqn:A1.
  - destruct (pump 64 c1) as [c2 o2] eqn:Ep. inversion H; subst. destruct (pump_no_ctl _ _ _ _ Ep) as [H2 _].
    unfold count_ack in *. rewrite filter_app, app_length, Ho1. cbn [app filter length]. rewrite H2. reflexivity.
  - inversion H; subst. congruence.
Qed.
Theorem ping_echoed_once c c' o : step c EvPing = Ok c' o -> alive c = true -> count_ping o = 1%nat.
Proof.
  unfold step. intros H Ha. rewrite Ha in H. cbn [negb] in H. destruct (pump 64 c) as [c2 o2] eqn:Ep. inversion H; subst.
  destruct (pump_no_ctl _ _ _ _ Ep) as [_ H2]. unfold count_ping in *. cbn. rewrite H2. reflexivity.
Qed.
Theorem conn_error_is_final c e c' o : alive c = false -> step c e = Ok c' o -> o = [] /\ c' = c.
Proof. unfold step. intros -> H. cbn in H. inversion H; auto. Qed.

(* ---------- stream ids only grow: a retired stream id can never be opened again (END_STREAM at most once per id) *)
Theorem stream_id_order_enforced c s n : (s <= cid c)%N \/ N.even s = true -> step c (EvHeaders s n) = Unsupported \/ alive c = false.
Proof.
  intros H. unfold step. destruct (alive c); [left|right; reflexivity]. cbn [negb].
  destruct H as [H|H]; [assert (E : (s <=? cid c)%N = true) by lia; rewrite E, orb_true_r|rewrite H]; reflexivity.
Qed.
Theorem concurrency_limit_enforced c s n c' o : step c (EvHeaders s n) = Ok c' o -> alive c = true -> (length (streams c) < max_streams)%nat.
Proof.
  unfold step. intros H Ha. rewrite Ha in H. cbn [negb] in H.
  destruct (N.even s || (s <=? cid c)%N || (max_streams <=? length (streams c))%nat || (n <? 0)) eqn:E; [discriminate|]. lia.
Qed.

(* ---------- the tracker itself: the clauses of the property fire on the traces they forbid *)
Definition fr (who0 : who) (t f s : N) (l a : Z) : frame := {| w := who0; ty := t; fl := f; st := s; len := l; arg := a; arg2 := 0 |}.
Example tracker_rejects_data_before_headers :
  legal true [fr Cl H2_FTYPE_HEADERS 5 1 20 (-1); fr Sv H2_FTYPE_DATA 0 1 5 (-1)] = Some 4%N.
Proof. vm_compute. reflexivity. Qed.
Example tracker_rejects_second_end_stream :
  legal true [fr Cl H2_FTYPE_HEADERS 5 1 20 (-1); fr Sv H2_FTYPE_HEADERS 5 1 9 (-1); fr Sv H2_FTYPE_DATA 1 1 0 (-1)] = Some 5%N.
Proof. vm_compute. reflexivity. Qed.
Example tracker_rejects_oversized_payload :
  legal true [fr Cl H2_FTYPE_HEADERS 5 1 20 (-1); fr Sv H2_FTYPE_HEADERS 4 1 9 (-1); fr Sv H2_FTYPE_DATA 0 1 16385 (-1)] = Some 2%N.
Proof. vm_compute. reflexivity. Qed.
Example tracker_accepts_a_normal_exchange :
  legal true [fr Cl H2_FTYPE_SETTINGS 0 0 0 (-1); fr Sv H2_FTYPE_SETTINGS 0 0 30 (-1); fr Sv H2_FTYPE_SETTINGS 1 0 0 (-1);
              fr Cl H2_FTYPE_HEADERS 5 1 20 (-1); fr Cl H2_FTYPE_PING 0 0 8 (-1); fr Sv H2_FTYPE_HEADERS 4 1 9 (-1); fr Sv H2_FTYPE_PING 1 0 8 (-1);
              fr Sv H2_FTYPE_DATA 0 1 100 (-1); fr Sv H2_FTYPE_DATA 1 1 0 (-1)] = None.
Proof. vm_compute. reflexivity. Qed.
