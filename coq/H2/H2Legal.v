(* C05 -- an RFC 9113 wire tracker: [legal] judges a trace of client and server frames.
   It is the monitor that the check runs (extracted) over the frames the implementation emits, and the
   predicate the model's emissions are proven to satisfy (H2LegalProofs.v).  Written from RFC 9113
   sections 4.1-4.3, 5.1, 5.4, 6.1-6.10; it knows nothing about h2.c. *)
From LV Require Import Base.Bytes Gen.GenH2.
Local Open Scope Z_scope.

Inductive who := Cl | Sv.
Record frame := { w : who; ty : N; fl : N; st : N; len : Z; arg : Z; arg2 : Z }.
(* arg: RST_STREAM/GOAWAY error code, WINDOW_UPDATE increment, SETTINGS_MAX_FRAME_SIZE value carried by a client
   SETTINGS frame (or -1); arg2: GOAWAY last-stream-id *)

Record sst := { s_id : N; cl_end : bool; cl_rst : bool; sv_hdr : bool; sv_end : bool; refused : bool }.
Record lst := {
  l_streams : list sst;
  l_maxcid : N;              (* highest stream id the client has opened *)
  l_unacked : Z;             (* client SETTINGS not yet acknowledged by the server *)
  l_pings : Z;               (* client PINGs not yet echoed *)
  l_fsize : Z;               (* client's SETTINGS_MAX_FRAME_SIZE: bound on what the server may send *)
  l_sv_cont : option N;      (* server header block open on this stream (CONTINUATION expected) *)
  l_cl_cont : option N;      (* client header block open *)
  l_dead : bool;             (* server sent GOAWAY with an error code *)
  l_gosent : bool;           (* server sent some GOAWAY *)
  l_conn_err : bool;         (* the client committed a connection error *)
  l_err_at : N               (* l_maxcid when it did *)
}.
Definition l_init : lst :=
  {| l_streams := []; l_maxcid := 0%N; l_unacked := 0; l_pings := 0; l_fsize := 16384; l_sv_cont := None; l_cl_cont := None;
     l_dead := false; l_gosent := false; l_conn_err := false; l_err_at := 0%N |}.

Definition has (flags bit : N) : bool := negb (N.land flags bit =? 0)%N.
Fixpoint find_s (id : N) (ss : list sst) : option sst :=
  match ss with [] => None | s :: t => if (s_id s =? id)%N then Some s else find_s id t end.
Fixpoint upd_s (id : N) (f : sst -> sst) (ss : list sst) : list sst :=
  match ss with [] => [] | s :: t => if (s_id s =? id)%N then f s :: t else s :: upd_s id f t end.

Definition set_streams (l : lst) (ss : list sst) : lst :=
  {| l_streams := ss; l_maxcid := l_maxcid l; l_unacked := l_unacked l; l_pings := l_pings l; l_fsize := l_fsize l;
     l_sv_cont := l_sv_cont l; l_cl_cont := l_cl_cont l; l_dead := l_dead l; l_gosent := l_gosent l; l_conn_err := l_conn_err l; l_err_at := l_err_at l |}.
Definition conn_error (l : lst) : lst :=
  if l_conn_err l then l else
  {| l_streams := l_streams l; l_maxcid := l_maxcid l; l_unacked := l_unacked l; l_pings := l_pings l; l_fsize := l_fsize l;
     l_sv_cont := l_sv_cont l; l_cl_cont := l_cl_cont l; l_dead := l_dead l; l_gosent := l_gosent l; l_conn_err := true; l_err_at := l_maxcid l |}.

(* ---------------------------------------------------------------- client frames: bookkeeping + which are connection errors *)
Definition client_frame (l : lst) (f : frame) : lst :=
  let t := ty f in let id := st f in
  (* 4.2 frame size: larger than the size we advertised (the default 16384) *)
  if len f >? 16384 then conn_error l else
  (* 6.10: while a header block is open only CONTINUATION on that stream may follow *)
  match l_cl_cont l with
  | Some cs =>
      if (t =? H2_FTYPE_CONTINUATION)%N && (id =? cs)%N then
        {| l_streams := l_streams l; l_maxcid := l_maxcid l; l_unacked := l_unacked l; l_pings := l_pings l; l_fsize := l_fsize l;
           l_sv_cont := l_sv_cont l; l_cl_cont := if has (fl f) H2_FLAG_END_HEADERS then None else Some cs;
           l_dead := l_dead l; l_gosent := l_gosent l; l_conn_err := l_conn_err l; l_err_at := l_err_at l |}
      else conn_error l
  | None =>
    if (t =? H2_FTYPE_DATA)%N then
      if (id =? 0)%N || (l_maxcid l <? id)%N then conn_error l   (* 6.1 / 5.1 idle *)
      else if has (fl f) H2_FLAG_END_STREAM then set_streams l (upd_s id (fun s => {| s_id := s_id s; cl_end := true; cl_rst := cl_rst s; sv_hdr := sv_hdr s; sv_end := sv_end s; refused := refused s |}) (l_streams l))
      else l
    else if (t =? H2_FTYPE_HEADERS)%N then
      if (id =? 0)%N || N.even id then conn_error l                (* 6.2, 5.1.1 *)
      else
        let cont := if has (fl f) H2_FLAG_END_HEADERS then None else Some id in
        if (l_maxcid l <? id)%N then
          {| l_streams := {| s_id := id; cl_end := has (fl f) H2_FLAG_END_STREAM; cl_rst := false; sv_hdr := false; sv_end := false; refused := false |} :: l_streams l;
             l_maxcid := id; l_unacked := l_unacked l; l_pings := l_pings l; l_fsize := l_fsize l; l_sv_cont := l_sv_cont l; l_cl_cont := cont;
             l_dead := l_dead l; l_gosent := l_gosent l; l_conn_err := l_conn_err l; l_err_at := l_err_at l |}
        else
          {| l_streams := upd_s id (fun s => {| s_id := s_id s; cl_end := cl_end s || has (fl f) H2_FLAG_END_STREAM; cl_rst := cl_rst s; sv_hdr := sv_hdr s; sv_end := sv_end s; refused := refused s |}) (l_streams l);
             l_maxcid := l_maxcid l; l_unacked := l_unacked l; l_pings := l_pings l; l_fsize := l_fsize l; l_sv_cont := l_sv_cont l; l_cl_cont := cont;
             l_dead := l_dead l; l_gosent := l_gosent l; l_conn_err := l_conn_err l; l_err_at := l_err_at l |}
    else if (t =? H2_FTYPE_RST_STREAM)%N then
      if (id =? 0)%N || (l_maxcid l <? id)%N || negb (len f =? 4) then conn_error l   (* 6.4 *)
      else set_streams l (upd_s id (fun s => {| s_id := s_id s; cl_end := cl_end s; cl_rst := true; sv_hdr := sv_hdr s; sv_end := sv_end s; refused := refused s |}) (l_streams l))
    else if (t =? H2_FTYPE_SETTINGS)%N then
      if negb (id =? 0)%N then conn_error l
      else if has (fl f) H2_FLAG_ACK then (if len f =? 0 then l else conn_error l)
      else if negb (len f mod 6 =? 0) then conn_error l
      else if (0 <=? arg f) && ((arg f <? 16384) || (16777215 <? arg f)) then conn_error l   (* 6.5.2 MAX_FRAME_SIZE out of range *)
      else {| l_streams := l_streams l; l_maxcid := l_maxcid l; l_unacked := l_unacked l + 1; l_pings := l_pings l;
              l_fsize := if 0 <=? arg f then arg f else l_fsize l; l_sv_cont := l_sv_cont l; l_cl_cont := None;
              l_dead := l_dead l; l_gosent := l_gosent l; l_conn_err := l_conn_err l; l_err_at := l_err_at l |}
    else if (t =? H2_FTYPE_PING)%N then
      if negb (id =? 0)%N || negb (len f =? 8) then conn_error l
      else if has (fl f) H2_FLAG_ACK then l
      else {| l_streams := l_streams l; l_maxcid := l_maxcid l; l_unacked := l_unacked l; l_pings := l_pings l + 1; l_fsize := l_fsize l;
              l_sv_cont := l_sv_cont l; l_cl_cont := None; l_dead := l_dead l; l_gosent := l_gosent l; l_conn_err := l_conn_err l; l_err_at := l_err_at l |}
    else if (t =? H2_FTYPE_GOAWAY)%N then (if negb (id =? 0)%N then conn_error l else l)
    else if (t =? H2_FTYPE_WINDOW_UPDATE)%N then
      if negb (len f =? 4) then conn_error l
      else if (id =? 0)%N && (arg f =? 0) then conn_error l
      else if negb (id =? 0)%N && (l_maxcid l <? id)%N then conn_error l        (* 5.1: WINDOW_UPDATE on an idle stream *)
      else l
    else if (t =? H2_FTYPE_CONTINUATION)%N then conn_error l        (* 6.10 without an open header block *)
    else if (t =? H2_FTYPE_PUSH_PROMISE)%N then conn_error l        (* 8.4: a client cannot push *)
    else if (t =? H2_FTYPE_PRIORITY)%N then (if (id =? 0)%N then conn_error l else l)
    else l                                                          (* unknown types are ignored (4.1) *)
  end.

(* ---------------------------------------------------------------- server frames: what may be sent now; None = violation number *)
Definition viol := N.
Definition server_frame (l : lst) (f : frame) : lst + viol :=
  let t := ty f in let id := st f in
  if l_dead l then inr 1%N                                            (* frames after an error GOAWAY *)
  else if len f >? l_fsize l then inr 2%N                             (* payload beyond the peer's SETTINGS_MAX_FRAME_SIZE *)
  else match l_sv_cont l with
  | Some cs =>
      if (t =? H2_FTYPE_CONTINUATION)%N && (id =? cs)%N then
        inl {| l_streams := l_streams l; l_maxcid := l_maxcid l; l_unacked := l_unacked l; l_pings := l_pings l; l_fsize := l_fsize l;
               l_sv_cont := if has (fl f) H2_FLAG_END_HEADERS then None else Some cs; l_cl_cont := l_cl_cont l;
               l_dead := l_dead l; l_gosent := l_gosent l; l_conn_err := l_conn_err l; l_err_at := l_err_at l |}
      else inr 6%N                                                    (* header block interleaved *)
  | None =>
    if (t =? H2_FTYPE_DATA)%N then
      match find_s id (l_streams l) with
      | None => inr 3%N                                               (* DATA on a stream the client never opened *)
      | Some s =>
          if negb (sv_hdr s) then inr 4%N                             (* DATA before response HEADERS *)
          else if sv_end s then inr 5%N                               (* DATA after END_STREAM / RST_STREAM *)
          else if cl_rst s then inr 12%N                              (* DATA after the client reset the stream *)
          else inl (set_streams l (upd_s id (fun s => {| s_id := s_id s; cl_end := cl_end s; cl_rst := cl_rst s; sv_hdr := true;
                                                     sv_end := has (fl f) H2_FLAG_END_STREAM; refused := refused s |}) (l_streams l)))
      end
    else if (t =? H2_FTYPE_HEADERS)%N then
      match find_s id (l_streams l) with
      | None => inr 3%N
      | Some s =>
          if sv_end s then inr 5%N
          else if cl_rst s then inr 12%N
          else if sv_hdr s && negb (has (fl f) H2_FLAG_END_STREAM) then inr 7%N     (* second HEADERS must be trailers *)
          else if l_conn_err l && (l_err_at l <? id)%N then inr 15%N  (* a stream opened after a connection error was processed *)
          else inl {| l_streams := upd_s id (fun s => {| s_id := s_id s; cl_end := cl_end s; cl_rst := cl_rst s; sv_hdr := true;
                                                         sv_end := has (fl f) H2_FLAG_END_STREAM; refused := refused s |}) (l_streams l);
                      l_maxcid := l_maxcid l; l_unacked := l_unacked l; l_pings := l_pings l; l_fsize := l_fsize l;
                      l_sv_cont := if has (fl f) H2_FLAG_END_HEADERS then None else Some id; l_cl_cont := l_cl_cont l;
                      l_dead := l_dead l; l_gosent := l_gosent l; l_conn_err := l_conn_err l; l_err_at := l_err_at l |}
      end
    else if (t =? H2_FTYPE_RST_STREAM)%N then
      if (id =? 0)%N || (l_maxcid l <? id)%N then inr 8%N             (* RST_STREAM on stream 0 / an idle stream *)
      else if negb (len f =? 4) then inr 16%N
      else inl (set_streams l (upd_s id (fun s => {| s_id := s_id s; cl_end := cl_end s; cl_rst := cl_rst s; sv_hdr := sv_hdr s; sv_end := true;
                                                     refused := refused s || negb (sv_hdr s) |}) (l_streams l)))
    else if (t =? H2_FTYPE_SETTINGS)%N then
      if negb (id =? 0)%N then inr 16%N
      else if has (fl f) H2_FLAG_ACK then
        if negb (len f =? 0) then inr 16%N
        else if l_unacked l <=? 0 then inr 9%N                        (* acknowledges a SETTINGS frame nobody sent *)
        else inl {| l_streams := l_streams l; l_maxcid := l_maxcid l; l_unacked := l_unacked l - 1; l_pings := l_pings l; l_fsize := l_fsize l;
                    l_sv_cont := None; l_cl_cont := l_cl_cont l; l_dead := l_dead l; l_gosent := l_gosent l; l_conn_err := l_conn_err l; l_err_at := l_err_at l |}
      else if len f mod 6 =? 0 then inl l else inr 16%N
    else if (t =? H2_FTYPE_PING)%N then
      if negb (id =? 0)%N || negb (len f =? 8) then inr 16%N
      else if has (fl f) H2_FLAG_ACK then
        if l_pings l <=? 0 then inr 10%N
        else inl {| l_streams := l_streams l; l_maxcid := l_maxcid l; l_unacked := l_unacked l; l_pings := l_pings l - 1; l_fsize := l_fsize l;
                    l_sv_cont := None; l_cl_cont := l_cl_cont l; l_dead := l_dead l; l_gosent := l_gosent l; l_conn_err := l_conn_err l; l_err_at := l_err_at l |}
      else inl l
    else if (t =? H2_FTYPE_GOAWAY)%N then
      if negb (id =? 0)%N || (len f <? 8) then inr 16%N
      else if Z.of_N (l_maxcid l) <? arg2 f then inr 11%N             (* last-stream-id names a stream the client never opened *)
      else inl {| l_streams := l_streams l; l_maxcid := l_maxcid l; l_unacked := l_unacked l; l_pings := l_pings l; l_fsize := l_fsize l;
                  l_sv_cont := None; l_cl_cont := l_cl_cont l; l_dead := negb (arg f =? 0); l_gosent := true; l_conn_err := l_conn_err l; l_err_at := l_err_at l |}
    else if (t =? H2_FTYPE_WINDOW_UPDATE)%N then
      if negb (len f =? 4) || (arg f <=? 0) then inr 13%N
      else if (id =? 0)%N then inl l
      else match find_s id (l_streams l) with Some _ => inl l | None => inr 13%N end
    else if (t =? H2_FTYPE_CONTINUATION)%N then inr 6%N
    else if (t =? H2_FTYPE_PUSH_PROMISE)%N then inr 14%N              (* lighttpd never pushes; the peer may have disabled it *)
    else inl l
  end.

Fixpoint legal_from (l : lst) (tr : list frame) : lst + viol :=
  match tr with
  | [] => inl l
  | f :: t =>
      match w f with
      | Cl => legal_from (client_frame l f) t
      | Sv => match server_frame l f with inl l' => legal_from l' t | inr v => inr v end
      end
  end.

(* at a quiescent end of the trace: everything acknowledged, a connection error answered, complete requests answered *)
Definition final_check (alive_at_end : bool) (l : lst) : option viol :=
  if l_conn_err l then (if alive_at_end && negb (l_gosent l) then Some 20%N else None)   (* connection error not answered by GOAWAY / close *)
  else if l_gosent l || negb alive_at_end then None
  else if negb (l_unacked l =? 0) then Some 21%N
  else if negb (l_pings l =? 0) then Some 22%N
  else if (match l_cl_cont l with None => true | Some _ => false end)   (* a request whose header block is still open is not complete *)
          && existsb (fun s => cl_end s && negb (cl_rst s) && negb (sv_end s)) (l_streams l) then Some 23%N
  else match l_sv_cont l with Some _ => Some 24%N | None => None end.

Definition legal (alive_at_end : bool) (tr : list frame) : option viol :=
  match legal_from l_init tr with
  | inr v => Some v
  | inl l => final_check alive_at_end l
  end.
