From LV Require Import Base.Bytes Gen.GenBurl Url.UrlModel.
Require Import ExtrOcamlBasic.
Extraction "model.ml" parse_target burl_normalize simplify urldecode_path path_join.
