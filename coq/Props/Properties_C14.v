(* C14 -- conditional configuration applies exactly as the config language defines.
   Property theorems only; proofs in Cond/CondProofs.v.  The model (Cond/CondModel.v) is tied to
   src/configfile-glue.c by differential correspondence on random condition trees and operation sequences
   (harness/cond_h.c <-> extracted model), every result also judged against a reference of the language.
   That config_cond_cache_reset_item() re-establishes coherence after an attribute rewrite is Cond/ResetProofs.v. *)
From LV Require Import Base.Bytes Cond.CondModel Cond.CondProofs Cond.ResetProofs.

(* with every attribute available and a coherent cache, config_check_cond answers "contributes" iff the block's own
   condition holds, every enclosing block contributes and every earlier branch of its if/else chain failed -- and leaves
   the cache coherent *)
Theorem eval_is_language_semantics : forall t a c i, wf_tree t -> all_valid a -> coh t a c -> 0 < i < length t ->
  fst (check_cond t a c i) = applies (S i) t a i /\ coh t a (snd (check_cond t a c i)).
Proof. exact check_cond_is_language. Qed.
Print Assumptions eval_is_language_semantics.

(* independent of evaluation order and of result caching: any sequence of evaluations keeps the cache coherent, so every
   later answer is again the language's *)
Theorem evaluation_order_independent : forall t a, wf_tree t -> all_valid a -> forall is c, coh t a c ->
  Forall (fun i => 0 < i < length t) is -> coh t a (check_many t a c is).
Proof. exact order_independent. Qed.
Print Assumptions evaluation_order_independent.

(* a fully reset cache (new request) is coherent with any attribute assignment: no dependence on earlier requests *)
Theorem fresh_cache_is_coherent : forall t a c, length c = length t -> coh t a (reset_all c).
Proof. exact coh_reset_all. Qed.

(* among contributing blocks the last in file order that sets a directive wins *)
Theorem last_block_wins : forall pre x post acc,
  Forall (fun p => fst p = false \/ snd p = None) post -> last_wins (pre ++ (true, Some x) :: post) acc = Some x.
Proof. exact last_block_wins_all. Qed.
Print Assumptions last_block_wins.

(* after one attribute (the URL path after a path-info split, the client address after mod_extforward, ...) has been rewritten and
   config_cond_cache_reset_item() called for it, the cache is coherent with the NEW attributes: every cached result that could depend
   on it - the blocks testing it, everything nested in them, and every later branch of their else-chains with everything nested there -
   is gone, and nothing else is.  wf2: children lists and prev/next links agree with the parent links (how the parser builds them);
   pinv: a block is evaluated only after its parent - established by reset_all and kept by every evaluation and by reset_item itself *)
Theorem reset_item_is_sufficient : forall t k a a' c,
  wf2 t -> addr_only_for_remote_ip t -> comp (tget t 0) <> k ->
  agree_except k a a' -> coh t a c -> pinv t c ->
  coh t a' (reset_item t c k) /\ pinv t (reset_item t c k).
Proof. exact reset_item_restores_coherence. Qed.
Print Assumptions reset_item_is_sufficient.

Theorem evaluation_keeps_parent_before_child : forall t a, wf_tree t -> forall i fuel (c : cache),
  length c = length t -> glt t c 0 -> 0 < i < length t ->
  let '(r, c') := check fuel t a c i in
  length c' = length t /\ glt t c' 0 /\ (r <> Unset -> res (cget c' i) = r) /\
  (forall x, res (cget c x) <> Unset -> res (cget c' x) = res (cget c x)) /\ (forall x, i < x -> cget c' x = cget c x).
Proof. exact check_keeps_pinv. Qed.
Print Assumptions evaluation_keeps_parent_before_child.

Theorem fresh_cache_has_parent_before_child : forall t c, length c = length t -> pinv t (reset_all c).
Proof. exact pinv_reset_all. Qed.
Print Assumptions fresh_cache_has_parent_before_child.

(* non-vacuity: a nested block inside an else-branch, host with a port *)
Example c14_nonvacuous :
  let host s := {| parent := 0; prev := 0; next := 0; children := []; comp := COMP_HOST; op := OpEq; operand := s; anch_l := false; anch_r := false; cidr := None |} in
  let t := [ {| parent := 0; prev := 0; next := 0; children := [1;2]; comp := 0; op := OpElse; operand := []; anch_l := false; anch_r := false; cidr := None |};
             host [98]%N;
             {| parent := 0; prev := 1; next := 0; children := [3]; comp := 2; op := OpElse; operand := []; anch_l := false; anch_r := false; cidr := None |};
             {| parent := 2; prev := 0; next := 0; children := []; comp := COMP_HOST; op := OpEq; operand := [97]%N; anch_l := false; anch_r := false; cidr := None |} ] in
  let a := {| aval := fun k => if k =? COMP_HOST then [97;58;56;48]%N else []; avalid := fun _ => true; aaddr := [] |} in
  fst (check_cond t a (map (fun _ => {| res := Unset; lres := Unset |}) t) 3) = true.
Proof. vm_compute. reflexivity. Qed.
