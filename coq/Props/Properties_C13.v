(* C13 -- connections always end: timeouts, limits, overload recovery, graceful stop.
   Property theorems only; proofs in Conn/ConnProofs.v.  The model (Conn/ConnModel.v) is tied to src/h1.c (h1_check_timeout),
   src/connections.c (lim_conns bookkeeping, connection_periodic_maint), src/network.c (accept loop) and src/server.c
   (server_load_check / server_overload_check) by a real-time correspondence against the real lighttpd with small
   timeouts: clients that stall in every waiting state (before the request, inside the head, inside the body, on keep-alive,
   while not reading a large response; HTTP/2 idle, mid-body and not reading) must be released within the model's bound
   (limit + one sweep), oversized heads and bodies must get 431 / 413, connections beyond server.max-connections (knocking on
   two listening sockets at once) must wait and then be served, and a graceful stop must let a slow download finish intact.
   PARTIAL: HTTP/2 stream timeouts (h2_check_timeout), the event-handler variants and the graceful path are covered by the
   correspondence only. *)
From Coq Require Import List ZArith.
From LV Require Import Conn.ConnModel Conn.ConnProofs.
Import ListNotations.
Local Open Scope Z_scope.

Definition last_progress (c : conn) : Z :=
  match st c with StClose => close_timeout_ts c | StWrite => if write_request_ts c =? 0 then read_idle_ts c else write_request_ts c | _ => read_idle_ts c end.

(* a connection waiting for its client (any waiting state) that hears nothing for more than its limit is released by the next sweep *)
Theorem stalled_connection_is_released : forall l c lim now,
  applicable_limit l c = Some lim -> last_progress c + lim < now -> st (sweep l c now) = StGone.
Proof. exact silent_connection_is_released. Qed.
Print Assumptions stalled_connection_is_released.

(* over any stretch of silence longer than the limit the connection is gone: released within limit + one tick *)
Theorem silence_always_ends_the_wait : forall l lim k c now,
  applicable_limit l c = Some lim -> last_progress c + lim < now + Z.of_nat k -> (0 < k)%nat ->
  st (seconds l c (repeat Silence k) now) = StGone.
Proof. exact silence_ends_every_wait. Qed.
Print Assumptions silence_always_ends_the_wait.

(* and no connection that is still there has been silent longer than its limit *)
Theorem survivors_made_progress_within_their_limit : forall l c lim now,
  st c <> StGone -> applicable_limit l c = Some lim -> st (sweep l c now) <> StGone -> now <= last_progress c + lim.
Proof. exact survivor_was_active. Qed.
Print Assumptions survivors_made_progress_within_their_limit.

(* never more than server.max-connections are served, whatever knocks on however many listening sockets *)
Theorem at_most_max_connections_are_served : forall s e, SInv s -> SInv (sstep s e) /\ 0 <= served (sstep s e) <= max_conns (sstep s e).
Proof. exact never_more_than_max_connections. Qed.
Print Assumptions at_most_max_connections_are_served.

(* overload is not a permanent stall *)
Theorem overload_recovers : forall s, SInv s -> lim_conns s = 0 -> 0 < backlog s -> 0 < max_conns s ->
  let s' := sstep (sstep (sstep s ConnDone) LoadCheck) AcceptLoop in
  backlog s' = backlog s - 1 /\ listening (sstep (sstep s ConnDone) LoadCheck) = true.
Proof. exact waiting_client_is_accepted_after_release. Qed.
Print Assumptions overload_recovers.

(* non-vacuity: a keep-alive connection idle since second 10 with limit 2 is gone after the sweep of second 13 *)
Example c13_nonvacuous :
  let l := {| keep_alive_idle := 2; max_read_idle := 3; max_write_idle := 3; linger := 5 |} in
  let c := {| st := StRead; request_count := 2; wait_in := true; read_idle_ts := 10; write_request_ts := 0; close_timeout_ts := 0 |} in
  st (seconds l c [Silence; Silence] 10) = StRead /\ st (seconds l c [Silence; Silence; Silence] 10) = StGone.
Proof. vm_compute. split; reflexivity. Qed.

(* the lingering-close state is one of the waiting states above (StClose, limit [linger]); that the sweep of h1.c releases it, and after how many
   seconds, is re-read from the source on every run (Gen/GenH1.v) *)
From LV Require Import Gen.GenH1.
Theorem lingering_close_is_swept_as_modelled : lingering_close_is_released_by_the_sweep = true /\ (0 < HTTP_LINGER_TIMEOUT)%Z.
Proof. split; reflexivity. Qed.
