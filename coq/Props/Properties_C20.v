(* C20 -- rewrite, redirect, alias and vhost rules map requests as documented.
   Property theorems only; proofs in Map/MapProofs.v.  The model (Map/MapModel.v) is tied to
   src/keyvalue.c, src/burl.c, src/base64.c, src/mod_rewrite.c by Gen/GenMap.v (flag values, base64
   tables, modifier keyword -> flag assignments as written in the source, loop limit) and by
   differential correspondence (harness/map_h.c with real PCRE2 <-> extracted model). *)
From LV Require Import Base.Bytes Gen.GenBurl Gen.GenMap Url.UrlModel Map.MapModel Map.MapProofs Url.UrlModel Roots.RootsModel Roots.RootsProofs.
Local Open Scope N_scope.

(* each ${...:} modifier keyword sets the flag it is named after (regenerated from keyvalue.c on every run) *)
Theorem modifiers_set_their_flag :
  MOD_tolower = BURL_TOLOWER /\ MOD_toupper = BURL_TOUPPER /\
  MOD_esc = BURL_ENCODE_ALL /\ MOD_escape = BURL_ENCODE_ALL /\ MOD_escnde = BURL_ENCODE_NDE /\ MOD_escpsnde = BURL_ENCODE_PSNDE /\
  MOD_noesc = BURL_ENCODE_NONE /\ MOD_noescape = BURL_ENCODE_NONE /\ MOD_encb64u = BURL_ENCODE_B64U /\ MOD_decb64u = BURL_DECODE_B64U.
Proof. exact modifiers_as_named. Qed.
Print Assumptions modifiers_set_their_flag.

(* tolower / toupper are ASCII case mapping on text free of '%' and NUL ... *)
Theorem tolower_lower : forall s, no_pct_nul s -> offset_tolower s = map to_lower s.
Proof. exact tolower_plain. Qed.
Print Assumptions tolower_lower.
Theorem toupper_upper : forall s, no_pct_nul s -> offset_toupper s = map to_upper s.
Proof. exact toupper_plain. Qed.
Print Assumptions toupper_upper.
(* ... and on every byte string they keep the length and change a byte only from a letter of the
   other case to its counterpart *)
Theorem tolower_only_lowers : forall s, Forall2 low_rel s (offset_tolower s).
Proof. exact tolower_pointwise. Qed.
Print Assumptions tolower_only_lowers.
Theorem toupper_only_uppers : forall s, Forall2 up_rel s (offset_toupper s).
Proof. exact toupper_pointwise. Qed.
Print Assumptions toupper_only_uppers.

(* ${esc:...} is inverted by URL decoding, for every printable byte string *)
Theorem esc_roundtrip : forall s, Forall printable s -> urldecode_path (encode_all s) = s.
Proof. exact esc_roundtrip_all. Qed.
Print Assumptions esc_roundtrip.

(* ${decb64u:...} inverts ${encb64u:...}, for every byte string *)
Theorem b64u_roundtrip : forall s, Forall (fun c => c < 256) s -> b64u_dec (b64u_enc s) = s.
Proof. exact b64u_roundtrip_all. Qed.
Print Assumptions b64u_roundtrip.

(* the first rule in order whose pattern matches is the one applied (whatever later rules would do),
   a blank template short-circuits, and no match leaves the request alone *)
Theorem first_match_wins : forall mk pre caps v post,
  Forall (fun r => fst r = NoMatch) pre -> v <> [] ->
  process mk (pre ++ (Matched caps, v) :: post) = PFinished (length pre) (subst (mk caps) v).
Proof. intros. unfold process. rewrite process_from_first by assumption. reflexivity. Qed.
Print Assumptions first_match_wins.
Theorem blank_template_short_circuits : forall mk pre caps post,
  Forall (fun r => fst r = NoMatch) pre ->
  process mk (pre ++ (Matched caps, []) :: post) = PGoOn (Some (length pre)).
Proof. intros. unfold process. rewrite process_from_blank by assumption. reflexivity. Qed.
Theorem no_match_no_change : forall mk rules,
  Forall (fun r => fst r = NoMatch) rules -> process mk rules = PGoOn None.
Proof. intros. apply process_from_none. assumption. Qed.

(* a template without placeholders is copied verbatim *)
Theorem literal_template : forall ctx pat, plain pat -> subst ctx pat = pat.
Proof. exact subst_plain. Qed.
Print Assumptions literal_template.

(* rewrite-repeat re-dispatches at most LIMIT+1 times, for every rule list and every match oracle *)
Theorem repeat_bounded_by_limit : forall fuel rep mk tg oracle rc k t,
  rewrite_run fuel 0 h_null rep mk tg oracle = (rc, k, t) -> (k <= S (N.to_nat REWRITE_LOOP_LIMIT))%nat.
Proof. exact rewrite_repeat_bounded. Qed.
Print Assumptions repeat_bounded_by_limit.

(* rewrite-once: after a rule below repeat_idx fired, the next dispatch leaves the target alone *)
Theorem once_applies_once : forall rep mk tg rules h1 t1 rules2 mk2,
  rewrite_call h_null rep mk tg rules = (RwComeback, h1, t1) ->
  (exists m res, process mk rules = PFinished m res /\ (m < rep)%nat) ->
  rewrite_call h1 rep mk2 t1 rules2 =
    (RwGoOn, {| h_count := h_count h1 + 1; h_rewritten := h_rewritten h1; h_finished := h_finished h1 |}, t1).
Proof. exact rewrite_once_applies_once. Qed.
Print Assumptions once_applies_once.

(* alias.url: the first key in configuration order that is a prefix of the URL path is the one applied, and it is replaced - exactly
   it - by its target; everything after it is kept byte for byte (Roots/RootsModel.v is tied to mod_alias.c by roots_h.c and the server runs) *)
Theorem alias_replaces_the_matched_prefix : forall al basedir pre uri p b,
  length pre = (length basedir - (if ends_slash_b basedir then 1 else 0))%nat -> uri <> [] ->
  alias_remap al basedir (pre ++ uri) = AliasTo p b ->
  exists al1 k al2 rest, al = al1 ++ (k, b) :: al2 /\ (forall k' v', In (k', v') al1 -> prefixb k' uri = false)
                         /\ uri = k ++ rest /\ p = b ++ rest.
Proof. exact alias_replaces_exactly_the_matched_prefix. Qed.
Print Assumptions alias_replaces_the_matched_prefix.

(* simple-vhost: the document root is server-root ++ host name without port, joined with document-root *)
Theorem vhost_root_is_composed_from_the_host : forall sroot h d,
  svh_path sroot (Some h) (Some d) = path_join (sroot ++ cut_at colon h) d.
Proof. intros. reflexivity. Qed.
Print Assumptions vhost_root_is_composed_from_the_host.

(* non-vacuity: a template using captures, a modifier chain and ${qsa} *)
Example c20_nonvacuous :
  subst {| k_subject := [47;97;98;47;99]; k_caps := [(0,5);(1,3)]%nat; k_cache := None; k_scheme := []; k_authority := [];
           k_port := 80%Z; k_path := [47;97;98;47;99]; k_query := Some [113] |}
        [47;36;123;116;111;117;112;112;101;114;58;110;111;101;115;99;58;49;125;36;123;113;115;97;125]  (* "/${toupper:noesc:1}${qsa}" *)
  = [47;65;66;63;113].                                                                                   (* "/AB?q" *)
Proof. vm_compute. reflexivity. Qed.
