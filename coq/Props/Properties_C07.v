(* C07 -- HPACK: header lists survive both directions for the whole connection.
   Property theorems only; proofs in Hpack/HpackProofs.v.  Hpack/HpackModel.v is an RFC 7541 specification
   (decoder, encoder family, Huffman trie, dynamic table) built over the tables regenerated from src/ls-hpack and
   src/h2.c (Gen/GenHpack.v); the implementation is compared against it in both directions through
   harness/h2_h.c (requests encoded by the extracted encoder and dumped by a handler; response blocks emitted by
   h2.c decoded by the extracted decoder; all single-bit corruptions). *)
From LV Require Import Base.Bytes Gen.GenHpack Hpack.HpackModel Hpack.HpackProofs.
Local Open Scope N_scope.

(* integers with any prefix length round-trip *)
Theorem int_roundtrip : forall prefix hi v rest, 1 <= prefix <= 8 -> hi mod pow2 prefix = 0 -> hi + pow2 prefix <= 256 -> v < pow2 32 ->
  dec_int prefix (enc_int prefix hi v ++ rest) = Some (v, rest).
Proof. exact int_roundtrip_all. Qed.
Print Assumptions int_roundtrip.

(* the Huffman code of the regenerated table: every symbol's code leads to that symbol whatever follows (so no code is a
   prefix of another), and every byte string round-trips including the padding rule *)
Theorem huffman_prefix_free : forall s rest, s <= 256 -> walk huff_trie (sym_code s ++ rest) [] = WSym s rest.
Proof. exact huff_walk_code. Qed.
Theorem huffman_roundtrip : forall l, Forall (fun c => c < 256) l -> huff_decode (huff_encode l) = Some l.
Proof. exact huffman_roundtrip_all. Qed.
Print Assumptions huffman_roundtrip.

(* for every header list, every legal choice of representations (indexed, incremental, literal, never indexed, name index,
   Huffman or raw), every schedule of table size updates and every number of blocks on a connection: the decoder returns
   exactly the lists that were encoded and its dynamic table equals the encoder's after every block *)
Theorem decode_encode : forall t resizes fs rs b t',
  encode_block t resizes fs rs = Some (b, t') -> Forall (fun n => n < pow2 32) resizes -> Forall field_ok fs -> Forall repr_ok rs ->
  decode_block t b = Some (fs, t').
Proof. exact decode_encode_block_all. Qed.
Print Assumptions decode_encode.
Theorem tables_stay_in_sync : forall bs t bl t', encode_conn t bs = Some (bl, t') -> Forall block_ok bs ->
  decode_conn t bl = Some (map (fun b => snd (fst b)) bs, t').
Proof. exact decode_encode_conn. Qed.
Print Assumptions tables_stay_in_sync.

(* the id maps of h2.c between static-table positions and lighttpd header ids agree with the names in the static table
   (both directions; finite, over the tables regenerated on every run) *)
Theorem idmaps_consistent :
  forallb rev_entry_ok lshpack_idx_http_header = true /\ forallb fwd_entry_ok http_header_lshpack_idx = true /\
  List.length lshpack_idx_http_header = 62%nat /\ List.length static_table = 61%nat.
Proof. exact idmaps_consistent_holds. Qed.
Print Assumptions idmaps_consistent.

(* non-vacuity: RFC 7541 C.4.1 decodes, and a block using every representation kind round-trips *)
Example c07_rfc_c41 :
  match decode_block dt_init [130;134;132;65;140;241;227;194;229;242;58;107;160;171;144;244;255] with
  | Some (fs, t) => (List.length fs, map fst (entries t)) | None => (0%nat, []) end = (4%nat, [[58;97;117;116;104;111;114;105;116;121]]).
Proof. vm_compute. reflexivity. Qed.
