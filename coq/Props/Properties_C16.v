(* C16 -- Auth: only valid credentials of an authorized user open a protected URL.
   Property theorems only; proofs in Auth/AuthProofs.v.  The model (Auth/AuthModel.v) is tied to src/mod_auth.c,
   mod_auth_api.c, mod_authn_file.c ("plain" backend), base64.c by differential correspondence on random histories
   (harness/auth_h.c <-> extracted model run with the real MD5), constants and tables by the translator (Gen/GenAuth.v).
   The theorems hold for every hash function in place of MD5, every per-rule cache-key seed (so for every collision
   pattern of the 32-bit cache key), every header value, every history and every clock.
   Hypothesis: auth.cache max-age >= 0.  Not modelled: "username*" and userhash=true (outcome Unmodelled, never Serve). *)
From Coq Require Import List NArith ZArith.
From LV Require Import Base.Bytes Gen.GenAuth Auth.AuthModel Auth.AuthProofs.
Local Open Scope Z_scope.

(* In every state reachable by any history, a request is served only when its path's rule was given
   - Basic: "Basic " + base64(user:pw) with the password accepted by the backend now for a user the rule authorizes, or
     the same (rule, user, password) accepted by the backend at most max-age + 7 s ago (the credential cache);
   - Digest: realm and algorithm of the rule, uri equal to the request-target, a nonce whose timestamp lies within the last
     600 s (and, with nonce-secret, equals the nonce the server derives from timestamp, random part and secret), the response
     recomputed from H(A1) of the backend's record (now, or cached as above) over the request's own method, and a user the
     rule authorizes. *)
Theorem served_only_with_valid_credentials :
  forall md5 cf, 0 <= c_max_age cf -> forall s m p t a u d s',
  reachable md5 cf s -> handle md5 cf s m p t a = (Serve u d, s') ->
  exists ri r, find_rule (c_rules cf) 0 p = Some (ri, r) /\ nth_error (c_rules cf) ri = Some r /\ d = r_digest r /\
    if r_digest r then digest_ok md5 cf s ri r m t a u else basic_ok md5 cf s ri r a u.
Proof. exact AuthProofs.served_only_with_valid_credentials. Qed.
Print Assumptions served_only_with_valid_credentials.

(* a path covered by a rule is never let through without authentication *)
Theorem covered_path_never_passes :
  forall md5 cf, 0 <= c_max_age cf -> forall s m p t a s',
  reachable md5 cf s -> handle md5 cf s m p t a = (Pass, s') -> find_rule (c_rules cf) 0 p = None.
Proof. exact AuthProofs.covered_path_never_passes. Qed.
Print Assumptions covered_path_never_passes.

(* the cache never upgrades: each entry was accepted by the backend for that very rule, user and secret (whatever the
   cache keys collide with), and is at most max-age + 7 s old *)
Theorem cache_never_upgrades :
  forall md5 cf, 0 <= c_max_age cf -> forall s k e,
  reachable md5 cf s -> In (k, e) (s_cache s) ->
  (exists d, vouch_ok md5 cf (e_rule e, e_dalgo e, e_user e, e_secret e, e_ctime e, d)) /\
  0 <= s_mono s - e_ctime e <= c_max_age cf + 7.
Proof. exact AuthProofs.cache_entries_vouched_and_young. Qed.
Print Assumptions cache_never_upgrades.

(* ... and forgets after max-age: after a cleanup second nothing older is left *)
Theorem cache_forgets_after_max_age :
  forall cf s k e, Z.land (s_mono s + 1) cleanup_mask = 0 -> In (k, e) (s_cache (tick cf s)) ->
  s_mono (tick cf s) - e_ctime e <= c_max_age cf.
Proof. exact AuthProofs.cache_forgets. Qed.
Print Assumptions cache_forgets_after_max_age.

(* a fresh nonce really is fresh (what nonce_ok says, spelled out for the checker of validate_nonce) *)
Theorem accepted_nonce_is_fresh :
  forall md5 r now nonce, validate_nonce md5 r now nonce = NonceOk -> nonce_ok md5 r now nonce.
Proof. exact AuthProofs.validate_nonce_ok. Qed.
Print Assumptions accepted_nonce_is_fresh.

(* non-vacuity: a history that reaches Serve (Basic, user "a", password "b", then the same from the cache after the
   password changed) and refuses once the entry has aged out *)
Example c16_nonvacuous :
  let cf := {| c_rules := [ {| r_path := [47;112;47]; r_digest := false; r_realm := [82]; r_valid_user := true; r_users := [];
                                r_algo := 3; r_secret := None; r_seed := 5381 |} ]%N; c_cache := true; c_max_age := 3 |} in
  let req := OpReq [71;69;84]%N [47;112;47;120]%N [47;112;47;120]%N (Some [66;97;115;105;99;32;89;84;112;105]%N) in
  fst (run (fun _ => nil) cf (s0 1000 2000)
         ([OpDb [([97], [98])]%N; req; OpDb [([97], [99])]%N; req] ++ repeat OpTick 12 ++ [req]))
  = [Serve [97]%N false; Serve [97]%N false; R401].
Proof. vm_compute. reflexivity. Qed.
