(* C10 -- backend responses are relayed faithfully; broken ones never look complete.
   Property theorems only; proofs in Gw/GwProofs.v (and Resp/RespProofs.v for the client-side framing, shared with C04).
   The model (Gw/GwModel.v) is tied to src/mod_fastcgi.c (fastcgi_get_packet, fcgi_recv_parse_loop), src/http-header-glue.c
   (http_response_read, http_response_parse_headers) and src/http_chunk.c (http_chunk_decode_append_data) by differential
   correspondence against the real lighttpd with scripted FastCGI / HTTP / SCGI / CGI backends (lib/backend.py): every backend
   byte stream is cut into random and boundary-aimed TCP segments, FastCGI content into records with random padding and
   interleaved STDERR, and ended by close / reset at every kind of position; the client side is read by the strict RFC 9112
   parser of C04 and compared with what the backend said.
   PARTIAL: the response-head translation (Status:, Location, NPH, 1xx, trailers, hop-by-hop removal) is judged by the
   monitor written from RFC 3875 / RFC 9110, not by theorems; the C code's incremental (per read) parsing is tied to the
   whole-stream reading proved about here only by that correspondence. *)
From Coq Require Import List NArith.
From LV Require Import Base.Bytes Resp.RespModel Resp.RespProofs Gw.GwModel Gw.GwProofs.
Import ListNotations.
Local Open Scope N_scope.

(* any STDOUT/STDERR/unknown records, any padding, anything after END_REQUEST: the content delivered is exactly the STDOUT
   content, in order *)
Theorem fcgi_content_is_exactly_stdout : forall rs e tail out f,
  Forall wf_rec rs -> Forall (fun r => is_end r = false) rs -> wf_rec e -> is_end e = true ->
  (length rs < f)%nat ->
  fdecode f (concat (map fenc rs) ++ fenc e ++ tail) out = FDone (out ++ stdout_of rs).
Proof. exact fcgi_roundtrip. Qed.
Print Assumptions fcgi_content_is_exactly_stdout.

(* a FastCGI stream cut anywhere before the last byte of END_REQUEST is never a finished response *)
Theorem fcgi_truncated_is_never_done : forall rs e p q out f,
  Forall wf_rec rs -> Forall (fun r => is_end r = false) rs -> wf_rec e ->
  concat (map fenc rs) ++ fenc e = p ++ q -> q <> [] ->
  exists o, fdecode f p out = FMore o.
Proof. exact fcgi_truncated_never_done. Qed.
Print Assumptions fcgi_truncated_is_never_done.

(* Content-Length bodies: exactly the declared bytes (excess is not part of the response); fewer is broken *)
Theorem content_length_exact : forall n body excess, N.of_nat (length body) = n ->
  body_verdict (BLen n) (body ++ excess) = Complete body.
Proof. exact content_length_body_exact. Qed.
Print Assumptions content_length_exact.

Theorem content_length_short_is_broken : forall n stream, N.of_nat (length stream) < n -> body_verdict (BLen n) stream = Broken.
Proof. exact short_content_length_is_broken. Qed.
Print Assumptions content_length_short_is_broken.

(* chunked backend bodies decode to the blocks the backend framed *)
Theorem chunked_backend_body_exact : forall first later,
  small (N.of_nat (length first)) -> Forall (fun b => small (N.of_nat (length b))) later -> Forall (fun b => b <> []) later ->
  body_verdict BChunked (chunk_encode first later) = Complete (first ++ concat later).
Proof. exact chunked_body_exact. Qed.
Print Assumptions chunked_backend_body_exact.

(* non-vacuity: padded records with STDERR in between; the same stream minus its last byte is not done *)
Example c10_nonvacuous :
  let rs := [ {| f_type := 6; f_id := 1; f_content := [104; 105]; f_pad := [0; 0; 0] |};
              {| f_type := 7; f_id := 1; f_content := [33]; f_pad := [] |};
              {| f_type := 6; f_id := 1; f_content := [33]; f_pad := [9] |} ] in
  let e := {| f_type := 3; f_id := 1; f_content := [0;0;0;0;0;0;0;0]; f_pad := [] |} in
  let s := concat (map fenc rs) ++ fenc e in
  fdecode 10 s [] = FDone [104; 105; 33] /\ fdecode 10 (removelast s) [] = FMore [104; 105; 33].
Proof. vm_compute. split; reflexivity. Qed.
