(* C15 -- Range and conditional GET follow RFC 9110.  Property theorems only; proofs are in C15/*Proofs.v.
   The model (C15/RangeModel.v) is tied to src/http_range.c by Gen/GenRange.v (regenerated constants)
   and by the differential correspondence harness/range_h.c <-> extracted model. *)
From LV Require Import Date.DateModel Date.DateProofs.
From LV Require Import Base.Bytes Gen.GenRange C15.RangeModel C15.RangeProofs.
Local Open Scope Z_scope.

(* every [first,last] pair that drives chunk-queue surgery is inside the representation *)
Theorem ranges_in_bounds : forall s len, 0 < len -> Forall (inb len) (range_parse s len).
Proof. exact range_parse_in_bounds. Qed.
Print Assumptions ranges_in_bounds.

(* every range the parser took in (each satisfiable, clamped byte-range-spec, up to the documented
   limits at which the loop stops) is contained in some emitted part: coalescing never loses bytes *)
Theorem satisfiable_covered : forall s len p, 0 < len -> In p (accepted_all s len) -> covl p (range_parse s len).
Proof. exact range_parse_covers. Qed.
Print Assumptions satisfiable_covered.

(* 416 exactly when no range was satisfiable *)
Theorem status_416_iff_none_satisfiable : forall i rh,
  0 < Z.of_nat (length (content i)) -> eq_icase_prefix str_bytes_eq_lc (cstr rh) = true ->
  (status_out (range_process i rh) = 416 <-> accepted_all (skipn 6 (cstr rh)) (Z.of_nat (length (content i))) = []).
Proof. exact range_process_416. Qed.
Print Assumptions status_416_iff_none_satisfiable.

(* a single-part 206 carries exactly the bytes its Content-Range declares, with a true Content-Length *)
Theorem parts_are_exact_slices : forall i rh a b,
  0 < Z.of_nat (length (content i)) -> eq_icase_prefix str_bytes_eq_lc (cstr rh) = true ->
  range_parse (skipn 6 (cstr rh)) (Z.of_nat (length (content i))) = [(a, b)] ->
  status_out (range_process i rh) = 206 /\
  cr_out (range_process i rh) = Some (content_range a b (Z.of_nat (length (content i)))) /\
  body_out (range_process i rh) = slice (content i) a b /\
  inb (Z.of_nat (length (content i))) (a, b) /\
  clen_out (range_process i rh) = Some (itoaZ (b - a + 1)).
Proof. exact range_process_single. Qed.
Print Assumptions parts_are_exact_slices.

Theorem slice_is_positional : forall content a b i d,
  inb (Z.of_nat (length content)) (a, b) -> (i < Z.to_nat (b - a + 1))%nat ->
  nth i (slice content a b) d = nth (Z.to_nat a + i) content d.
Proof. exact slice_nth. Qed.
Print Assumptions slice_is_positional.

(* Range is ignored (200, full body) for other methods, HTTP/1.0, non-200, encodings, absent header,
   unknown units, non-matching If-Range *)
Theorem range_ignored_when : forall i,
  (meth i <> 0%N \/ (http11 i = false /\ allow10 i = false) \/ status_in i <> 200 \/ body_finished i = false
   \/ te_or_ce i = true \/ range_hdr i = None) -> range_rfc7233 i = pass i.
Proof. exact ignored_when. Qed.
Print Assumptions range_ignored_when.

Theorem range_ignored_if_range_mismatch : forall i rh ir,
  range_hdr i = Some rh -> if_range i = Some ir ->
  (match ir with 34%N :: _ => etag i | _ => last_mod i end) <> Some ir -> range_rfc7233 i = pass i.
Proof. exact ignored_if_range_mismatch. Qed.
Print Assumptions range_ignored_if_range_mismatch.

Theorem range_ignored_unknown_unit : forall i rh,
  eq_icase_prefix str_bytes_eq_lc (cstr rh) = false -> range_process i rh = pass i.
Proof. exact ignored_unknown_unit. Qed.
Print Assumptions range_ignored_unknown_unit.

(* non-vacuity: a concrete header meets the hypotheses and exercises merging and clamping *)
Example c15_nonvacuous :
  let s := [49;45;51;44;50;48;48;45;44;45;50]%N (* "1-3,200-,-2" *) in
  range_parse s 10 = [(1, 9)] /\ accepted_all s 10 = [(1, 3); (8, 9)] /\
  range_parse [53;45;54]%N 5 = [].
Proof. vm_compute. repeat split. Qed.

(* ---- dates (src/http_date.c): the three HTTP-date spellings of an instant (IMF-fixdate, RFC 850, asctime) parse to that
   instant, for every second of 1970-01-01 .. 2134-04-10 (RFC 850: two-digit years, pivot year 2023: 1974 .. 2073) *)
Theorem imf_fixdate_parses_back : forall yc t, in_range t -> exists tm, str_to_tm yc (fmt_imf t) = Some tm /\ timegm tm = t.
Proof. exact imf_roundtrip. Qed.
Print Assumptions imf_fixdate_parses_back.
Theorem asctime_date_parses_back : forall yc t, in_range t -> exists tm, str_to_tm yc (fmt_asctime t) = Some tm /\ timegm tm = t.
Proof. exact asctime_roundtrip. Qed.
Theorem rfc850_date_parses_back : forall t, in_range t -> (1461 <= t / 86400 < 37985)%Z ->
  exists tm, str_to_tm 123 (fmt_850 t) = Some tm /\ timegm tm = t.
Proof. exact rfc850_roundtrip. Qed.
Print Assumptions rfc850_date_parses_back.

(* If-Modified-Since: a resource last modified exactly at the instant the client names, in whichever spelling, is "not
   modified" (304); one second later it is "modified".  The comparison operator is re-read from http_date.c on every run. *)
Theorem if_modified_since_does_not_depend_on_spelling : forall t, in_range t ->
  if_modified_since 123 (fmt_imf t) t = false /\ if_modified_since 123 (fmt_asctime t) t = false /\
  ((1461 <= t / 86400 < 37985)%Z -> if_modified_since 123 (fmt_850 t) t = false).
Proof. exact ims_independent_of_spelling. Qed.
Print Assumptions if_modified_since_does_not_depend_on_spelling.

(* a value with bytes after the date is not an HTTP-date: the field is ignored ("modified"), whatever date its beginning spells
   (RFC 9110 13.1.3; that the whole value must be consumed is re-read from http_date.c on every run) *)
Theorem if_modified_since_ignores_a_date_followed_by_bytes : forall yc s lm,
  full_match s = false -> if_modified_since yc s lm = true.
Proof. intros yc s lm. apply trailing_bytes_void_the_date. exact ims_whole_value_as_modelled. Qed.
Print Assumptions if_modified_since_ignores_a_date_followed_by_bytes.

(* ---------------------------------------------------------------- conditional requests (C15/EtagModel.v, C15/EtagProofs.v) *)
From Coq Require Import List.
From LV Require Import C15.EtagModel C15.EtagProofs.
Local Open Scope N_scope.

(* the If-None-Match scanner decides exactly the RFC 9110 comparison on every grammatical field value: any number of entity tags, weak or
   strong, separated by commas with arbitrary optional white space and empty list elements, before and after.  A tag matches when the
   opaque parts are equal and - under strong comparison - neither side is weak.  (Opaque tags here exclude the comma, which RFC 9110 etagc
   allows: tags containing commas are covered by the correspondence and the RFC monitor only.) *)
Theorem if_none_match_scanner_is_the_rfc_comparison : forall we tb its trail weak_ok,
  forallb okc tb = true -> all_sep trail = true -> wf_items true its = true ->
  etag_matches (item_text we tb) (render its trail) weak_ok = existsb (rfc_match weak_ok we tb) its.
Proof. exact etag_matches_is_rfc_comparison. Qed.
Print Assumptions if_none_match_scanner_is_the_rfc_comparison.

Theorem if_none_match_star_matches_any : forall etag weak_ok, etag_matches etag [42] weak_ok = true.
Proof. exact star_matches_any. Qed.

(* a conditional GET/HEAD on a representation that has an entity tag: 304 iff If-None-Match matches it, by weak comparison, or strong
   comparison when a Range header is present - whatever If-Modified-Since says *)
Theorem conditional_get_is_304_iff_if_none_match_matches : forall yc rng we tb its trail ims lmod lmt,
  forallb okc tb = true -> all_sep trail = true -> wf_items true its = true ->
  cachable yc true rng (Some (render its trail)) ims (Some (item_text we tb)) lmod lmt
  = if existsb (rfc_match (negb rng) we tb) its then C304 else CPass.
Proof. exact conditional_get_304_iff_if_none_match_matches. Qed.
Print Assumptions conditional_get_is_304_iff_if_none_match_matches.

(* absent If-None-Match, If-Modified-Since decides: 304 iff the date is the Last-Modified string itself or parses to an instant not earlier
   than the modification time (if_modified_since: the theorems above) *)
Theorem without_if_none_match_the_date_decides : forall yc v lm e lmt rng,
  cachable yc true rng None (Some v) e (Some lm) lmt = if list_eqb lm v || negb (if_modified_since yc v lmt) then C304 else CPass.
Proof. exact if_modified_since_only_without_if_none_match. Qed.

Theorem only_get_and_head_are_answered_304 : forall yc gh rng inm ims e lmod lmt, cachable yc gh rng inm ims e lmod lmt = C304 -> gh = true.
Proof. exact not_modified_only_for_get_head. Qed.
Print Assumptions only_get_and_head_are_answered_304.
