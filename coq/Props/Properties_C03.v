(* C03 -- access rules cannot be bypassed by respelling URLs or spoofing the client address.
   Property theorems only; proofs in Access/AccessProofs.v (and Url/UrlProofs.v for the canonical path).
   The model (Access/AccessModel.v over Url/UrlModel.v) is tied to the code by differential correspondence against the real
   lighttpd of the working tree (lib/srv.py: generated configuration + document root, raw HTTP/1.1 requests from trusted and
   untrusted loopback peers) and by a marker monitor: protected files carry unique markers that must never appear in a
   response to a client not entitled to them, whatever the spelling.
   PARTIAL: invariance of the canonical path under *every* respelling is proved here only at the decode layer
   (percent-encoding and hex case, after a well-formed prefix); dot segments are covered by C02's simplify theorems
   (result has no dot segment), the composition with burl_normalize and HTTP/2 by the correspondence and the monitor.
   The Forwarded (RFC 7239) parser is exercised by the monitor only. *)
From Coq Require Import List NArith ZArith.
From LV Require Import Base.Bytes Gen.GenBurl Url.UrlModel Access.AccessModel Access.AccessProofs.
Local Open Scope N_scope.

(* whatever is served passed mod_access on the path of the file itself -- not only on the spelling with trailing
   path-info --, is not covered by an auth.require rule, is not an excluded extension, and is a regular file *)
Theorem served_file_passed_every_check : forall cf fs path host a file pi,
  decide_path cf fs path host a = O200 file pi ->
  exists upath,
    (length upath + length pi = length path)%nat /\ upath = firstn (length upath) path /\
    (if lc cf then lower path else path) = file ++ pi /\
    allowed cf upath host a /\ allowed cf path host a /\
    match_key_prefix (lc cf) (auth_prefix cf) path = false /\
    match_value_suffix false (excl cf) file = false /\
    is_file fs file = true.
Proof. exact served_implies_allowed. Qed.
Print Assumptions served_file_passed_every_check.

(* the decision depends on the request-target only through its canonical path *)
Theorem same_canonical_path_same_decision : forall trusted cf fs t1 t2 host peer xff t1' t2' p q1 q2,
  parse_target (flags cf) t1 = TOk t1' p q1 -> parse_target (flags cf) t2 = TOk t2' p q2 ->
  decide trusted cf fs t1 host peer xff = decide trusted cf fs t2 host peer xff.
Proof. exact decision_function_of_canonical_path. Qed.
Print Assumptions same_canonical_path_same_decision.

(* percent-encoding a printable byte, in either hex case, is invisible after buffer_urldecode_path *)
Theorem percent_encoding_is_invisible : forall a b c h l,
  wf a -> c <> 0 -> c <> pct -> dec_ctl c = c -> h <> 0 ->
  hexval h = Some (c / 16) -> hexval l = Some (c mod 16) ->
  udec_loop (a ++ pct :: h :: l :: b) = udec_loop (a ++ c :: b).
Proof. exact urldecode_respell_invariant. Qed.
Print Assumptions percent_encoding_is_invisible.

Theorem hex_case_is_invisible : forall a b h l h' l' hi lo,
  wf a -> h <> 0 -> h' <> 0 -> hexval h = Some hi -> hexval h' = Some hi -> hexval l = Some lo -> hexval l' = Some lo ->
  udec_loop (a ++ pct :: h :: l :: b) = udec_loop (a ++ pct :: h' :: l' :: b).
Proof. exact urldecode_hexcase_invariant. Qed.
Print Assumptions hex_case_is_invisible.

(* force-lowercase-filenames: letter case does not change mod_access's answer *)
Theorem letter_case_is_invisible_to_mod_access : forall allow deny p p',
  bytes p -> bytes p' -> Forall bytes allow -> Forall bytes deny -> lower p = lower p' ->
  access_check allow deny p true = access_check allow deny p' true.
Proof. exact access_check_case_invariant. Qed.
Print Assumptions letter_case_is_invisible_to_mod_access.

(* forwarded headers: ignored from an untrusted TCP peer; otherwise the last hop that is not a trusted forwarder *)
Theorem xff_ignored_from_untrusted_peer : forall trusted peer xff,
  trusted peer = false -> client_addr trusted peer xff = peer.
Proof. exact xff_untrusted_peer_ignored. Qed.
Print Assumptions xff_ignored_from_untrusted_peer.

Theorem xff_takes_last_untrusted_hop : forall trusted peer h,
  client_addr trusted peer (Some h) = peer \/
  (trusted peer = true /\
   exists left right, fwd_tokens h None = left ++ client_addr trusted peer (Some h) :: right /\
                      trusted (client_addr trusted peer (Some h)) = false /\ forallb trusted right = true).
Proof. exact xff_last_untrusted_hop. Qed.
Print Assumptions xff_takes_last_untrusted_hop.

Theorem xff_all_trusted_keeps_peer : forall trusted peer h,
  forallb trusted (fwd_tokens h None) = true -> client_addr trusted peer (Some h) = peer.
Proof. exact AccessProofs.xff_all_trusted_keeps_peer. Qed.
Print Assumptions xff_all_trusted_keeps_peer.

(* non-vacuity: "/pub/x.inc" is denied, and stays denied as "/pub/%78.inc/extra" (path-info) *)
Example c03_nonvacuous :
  let cf := {| flags := 9560; lc := false; allow := []; deny := [[46;105;110;99]]; excl := []; auth_prefix := []; blocks := [] |} in
  let fs := {| files := [[47;112;117;98;47;120;46;105;110;99]; [47;112;117;98;47;97]]; dirs := [[47;112;117;98]] |} in
  decide (fun _ => false) cf fs [47;112;117;98;47;37;55;56;46;105;110;99;47;101] [] [49] None = O403 /\
  decide (fun _ => false) cf fs [47;112;117;98;47;97;47;101] [] [49] None = O200 [47;112;117;98;47;97] [47;101].
Proof. vm_compute. split; reflexivity. Qed.
