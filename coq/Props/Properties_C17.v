(* C17 -- the chunk queue is an exact FIFO byte stream under all operations and I/O faults.
   Property theorems only; proofs in Cq/CqProofs.v.  The model (Cq/CqModel.v) is tied to src/chunk.c
   by differential correspondence on operation sequences with injected write faults
   (harness/cq_h.c <-> extracted model), every observation also judged against a byte-string spec. *)
From LV Require Import Base.Bytes Cq.CqModel Cq.CqProofs.

(* every deterministic operation acts on the two byte strings exactly as the FIFO specification says:
   append adds at the end, steal/steal-with-tempfiles move exactly the first len bytes in order,
   consume drops exactly n bytes from the front, range duplication copies exactly [off, off+len),
   compact / squash / remove-finished change no byte -- for every layout choice (ext) and file store *)
Theorem ops_refine_fifo : forall fs s o, Inv fs s -> deterministic o = true -> abs fs (step fs s o) = spec_step fs (abs fs s) o.
Proof. exact step_refines. Qed.
Print Assumptions ops_refine_fifo.

(* after every sequence of operations (including temp-file appends under every fault script) every
   queue is well formed and its reported length bytes_in - bytes_out equals the bytes not yet consumed *)
Theorem length_is_unconsumed_bytes : forall fs ops, Inv fs (fold_left (step fs) ops (cq_empty, cq_empty)).
Proof. exact run_Inv. Qed.
Print Assumptions length_is_unconsumed_bytes.

(* write faults on temporary files: for every fault script (short writes, EINTR, ENOSPC with fallback,
   hard errors) the queue afterwards holds its old bytes followed by a prefix of the new ones, the
   accounting stays exact, and success means the whole block was appended *)
Theorem tempfile_faults_preserve_or_error : forall fs fuel limit nd q m script ok q' script' nd',
  mem_to_temp fuel limit nd q m script = (ok, q', script', nd') -> wfq fs q -> acct fs q ->
  exists k, k <= length m /\ content fs q' = content fs q ++ firstn k m /\ acct fs q' /\ wfq fs q' /\ (ok = true -> k = length m).
Proof. exact mem_to_temp_spec. Qed.
Print Assumptions tempfile_faults_preserve_or_error.

(* read_data hands out exactly the first n bytes and consumes them *)
Theorem read_is_prefix_and_consumes : forall fs q n d q', read_data fs q n = Some (d, q') ->
  d = firstn n (content fs q) /\ length d = n /\ content fs q' = skipn n (content fs q).
Proof. exact read_data_spec. Qed.
Print Assumptions read_is_prefix_and_consumes.

(* non-vacuity: a mixed sequence on a concrete store *)
Example c17_nonvacuous :
  let fs := [[10;11;12;13;14;15]%N] in
  abs fs (fold_left (step fs) [OAppendMem true [1;2;3]%N; OAppendFile 0 1 4; OSwap; OSteal true 5; OMark 2; OSwap; OAppendMem true [9]%N; OSwap;
                               OMemToTemp 64 2 [7;8]%N [WShort 1; WEintr; WEnospc]] (cq_empty, cq_empty))
  = ([3;11;12;7;8]%N, [13;14;9]%N).
Proof. vm_compute. reflexivity. Qed.
