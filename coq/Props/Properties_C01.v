(* C01 -- HTTP/1.x request framing is unambiguous; malformed framing is rejected.
   Property theorems only; proofs in H1/H1Proofs.v.  The model (H1/H1Model.v) is tied to
   src/request.c, src/http_header.c, src/http_kv.c by Gen/GenH1.v (header-name table, ids, methods)
   and by differential correspondence (harness/h1req_h.c <-> extracted h1_parse).
   The connection level (H1/ConnH1.v: header extent, body readers, keep-alive reuse) is tied to src/h1.c by the running server under
   random TCP segmentation (props/h1conn.py <-> extracted run_conn). *)
From Coq Require Import List ZArith.
From LV Require Import Base.Bytes Gen.GenBurl Gen.GenH1 Url.UrlModel H1.H1Model H1.H1Proofs H1.H1Whole Resp.RespModel H1.ConnH1 H1.ConnH1Proofs H1.ConnMono.
Import ListNotations.
Local Open Scope N_scope.

(* repeated Content-Length: whatever precedes, separates or follows the two fields and whatever their
   values are, the field fold never ends in Go (the head is rejected) *)
Theorem reject_dup_content_length : forall st pre v1 mid v2 post st',
  fold_fields st (pre ++ (ID_CONTENT_LENGTH, v1) :: mid ++ (ID_CONTENT_LENGTH, v2) :: post) <> Go st'.
Proof. exact dup_content_length_rejected. Qed.
Print Assumptions reject_dup_content_length.

(* a Content-Length that is taken is non-empty, all digits and at most INT64_MAX *)
Theorem reject_bad_content_length : forall st v st',
  field_step st (ID_CONTENT_LENGTH, v) = Go st' ->
  v <> [] /\ forallb is_digit v = true /\ (0 <= dec_val v <= INT64_MAX)%Z.
Proof. exact bad_content_length_rejected. Qed.
Print Assumptions reject_bad_content_length.

(* a Transfer-Encoding that is taken is empty (no coding named) or exactly "chunked" on HTTP/1.1, named for the first time
   (a second "chunked" is the list "chunked, chunked"), and then the declared framing is chunked *)
Theorem reject_te_not_chunked_or_http10 : forall st v st',
  field_step st (ID_TRANSFER_ENCODING, v) = Go st' ->
  v = [] /\ st' = st \/ (st_http11 st = true /\ eq_icase v s_chunked = true /\ st_rlen st <> (-1)%Z /\ st_rlen st' = (-1)%Z).
Proof. exact te_step. Qed.
Print Assumptions reject_te_not_chunked_or_http10.

(* an accepted HTTP/1.1 request has a host: a Host field that passed the host policy, or the authority of an absolute-form target *)
Theorem http11_request_without_host_is_rejected : forall flags block o,
  h1_parse flags block = H1Ok o -> o_http11 o = true -> o_host o <> None.
Proof. exact http11_without_host_is_rejected. Qed.
Print Assumptions http11_request_without_host_is_rejected.

(* a NUL byte anywhere in the request line or header section refuses the request also with header-strict off, the one mode in which
   nothing else looks at control bytes (the 400 that fix d045690 restored; with header-strict on the strict line checks refuse it, which
   the correspondence runs exercise) *)
Theorem nul_is_rejected_in_lenient_mode : forall flags block o l1 hl,
  has_flag flags OPT_HEADER_STRICT = false ->
  head_lines (split_lines block []) = Some (l1 :: hl) ->
  h1_parse flags block = H1Ok o -> existsb (N.eqb 0) (concat (l1 :: hl)) = false.
Proof. exact nul_is_rejected_without_header_strict. Qed.
Print Assumptions nul_is_rejected_in_lenient_mode.

(* GET / HEAD with a declared body pass only where server.http-parseopts asks for it (method-get-body) *)
Theorem get_with_body_is_rejected_by_default : forall flags block o,
  h1_parse flags block = H1Ok o -> (o_rlen o <> 0)%Z -> (o_method o <= M_HEAD)%Z -> has_flag flags OPT_METHOD_GET_BODY = true.
Proof. exact get_with_body_needs_the_option. Qed.
Print Assumptions get_with_body_is_rejected_by_default.

(* ---- the connection: where one message ends and the next begins ---- *)

(* a chunked body written by any sender that uses minimal hex sizes and CRLF is read back exactly, and what follows the last-chunk
   CRLF CRLF is left untouched for the next request -- for every number and content of chunks (NUL, CR, LF, text that looks like a
   request included) *)
Theorem chunked_body_is_read_back_exactly : forall maxf blocks f rest acc,
  Forall sendable blocks -> (length blocks < f)%nat ->
  dechunk_req f maxf (concat (map (chunk_with hexmin) blocks) ++ last_chunk ++ rest) acc = ChDone (rev acc ++ concat blocks) rest true false.
Proof. exact dechunk_req_roundtrip. Qed.
Print Assumptions chunked_body_is_read_back_exactly.

(* an accepted message consumes its header section and exactly the body its framing declares (none, Content-Length, chunked);
   the rest of the stream is then parsed as if it had arrived alone on a kept-alive connection: body bytes never start a request *)
Theorem message_consumes_exactly_its_own_bytes : forall flags maxf first h nl o enc body rest f,
  head_extent (split_lines h []) O O = Some (length h, S nl) ->
  (N.of_nat (length h) <= maxf)%N ->
  h1_parse flags h = H1Ok o ->
  encodes o enc body ->
  conn (S f) flags maxf first (h ++ enc ++ rest)
  = EvAccept (o_method o) (o_target_orig o) body (o_ka o) false :: (if o_ka o then conn f flags maxf false rest else []).
Proof. exact accepted_message_consumes_exactly_its_bytes. Qed.
Print Assumptions message_consumes_exactly_its_own_bytes.

(* a refusal, an unfinished message and a message without keep-alive are each the last thing that happens on the connection *)
Theorem nothing_follows_a_refusal : forall fuel flags maxf first s, only_last_ends (conn fuel flags maxf first s).
Proof. exact refusal_or_close_is_final. Qed.
Print Assumptions nothing_follows_a_refusal.

(* a trailer section that runs past server.max-request-field-size ends the connection after the response, whether or not its end
   has been received: the rest of such a stream is never parsed as a request (both keep-alive decisions are re-read from h1.c) *)
Theorem overlong_trailers_close_the_connection : forall maxf line rest acc body rest' ka cut,
  line_nonul (line ++ rest) [] = Some (line, rest) -> span_hex line = ([0], [13; 10]) ->
  prefixb CRLF rest = false ->
  (maxf < N.of_nat (length line + length rest))%N ->
  (forall k, find_crlfcrlf (CRLF ++ rest) O = Some k -> (maxf < N.of_nat (length line + k - 2))%N) ->
  dechunk_req 1 maxf (line ++ rest) acc = ChDone body rest' ka cut -> ka = false.
Proof. exact overlong_trailers_end_the_connection. Qed.
Print Assumptions overlong_trailers_close_the_connection.

(* what the chunked-body reader has decided is never revised by bytes that arrive later: a refusal stays the same refusal; a completed
   body stays the same body, and, when the connection is kept alive, exactly the later bytes are added to what is left for the next
   request.  So the outcome cannot depend on where TCP cut the stream once a verdict has been reached.  (A body that was cut short at
   the trailer limit already ended the connection; only its leftover is unspecified.) *)
Theorem chunked_verdict_is_never_revised : forall t maxf f s acc,
  match dechunk_req f maxf s acc with
  | ChInc => True
  | ChBad st => dechunk_req f maxf (s ++ t) acc = ChBad st
  | ChDone body rest ka cut => exists rest' ka', dechunk_req f maxf (s ++ t) acc = ChDone body rest' ka' cut
                               /\ (ka = true -> ka' = true /\ rest' = rest ++ t)
  end.
Proof. exact dechunk_req_extends. Qed.
Print Assumptions chunked_verdict_is_never_revised.

Example a_verdict_to_keep : dechunk_req 5 8192 [51;13;10;97;98;99;13;10;48;13;10;13;10;71] [] = ChDone [97;98;99] [71] true false
  /\ dechunk_req 5 8192 [51;13;10;97;98;99;88] [] = ChBad 400.
Proof. vm_compute. split; reflexivity. Qed.

(* non-vacuity: a chunked POST whose body is a complete GET request, followed by a real GET: two requests, not three *)
Example smuggling_shape_is_two_requests :
  let h := [80;79;83;84;32;47;101;32;72;84;84;80;47;49;46;49;13;10;72;111;115;116;58;32;97;13;10;84;114;97;110;115;102;101;114;45;69;110;99;111;100;105;110;103;58;32;99;104;117;110;107;101;100;13;10;13;10] in
  let g := [71;69;84;32;47;120;32;72;84;84;80;47;49;46;49;13;10;72;111;115;116;58;32;97;13;10;13;10] in
  head_extent (split_lines h []) O O = Some (length h, 3%nat)
  /\ length (run_conn 9567 8192 (h ++ chunk_with hexmin g ++ last_chunk ++ g)) = 2%nat
  /\ match run_conn 9567 8192 (h ++ chunk_with hexmin g ++ last_chunk ++ g) with EvAccept _ _ b _ _ :: _ => b = g | _ => False end.
Proof. vm_compute. repeat split; reflexivity. Qed.
