(* C01 -- HTTP/1.x request framing is unambiguous; malformed framing is rejected.
   Property theorems only; proofs in H1/H1Proofs.v.  The model (H1/H1Model.v) is tied to
   src/request.c, src/http_header.c, src/http_kv.c by Gen/GenH1.v (header-name table, ids, methods)
   and by differential correspondence (harness/h1req_h.c <-> extracted h1_parse). *)
From LV Require Import Base.Bytes Gen.GenBurl Gen.GenH1 Url.UrlModel H1.H1Model H1.H1Proofs.
Local Open Scope N_scope.

(* repeated Content-Length: whatever precedes, separates or follows the two fields and whatever their
   values are, the field fold never ends in Go (the head is rejected) *)
Theorem reject_dup_content_length : forall st pre v1 mid v2 post st',
  fold_fields st (pre ++ (ID_CONTENT_LENGTH, v1) :: mid ++ (ID_CONTENT_LENGTH, v2) :: post) <> Go st'.
Proof. exact dup_content_length_rejected. Qed.
Print Assumptions reject_dup_content_length.

(* a Content-Length that is taken is non-empty, all digits and at most INT64_MAX *)
Theorem reject_bad_content_length : forall st v st',
  field_step st (ID_CONTENT_LENGTH, v) = Go st' ->
  v <> [] /\ forallb is_digit v = true /\ (0 <= dec_val v <= INT64_MAX)%Z.
Proof. exact bad_content_length_rejected. Qed.
Print Assumptions reject_bad_content_length.

(* a Transfer-Encoding that is taken is empty (no coding named) or exactly "chunked" on HTTP/1.1, named for the first time
   (a second "chunked" is the list "chunked, chunked"), and then the declared framing is chunked *)
Theorem reject_te_not_chunked_or_http10 : forall st v st',
  field_step st (ID_TRANSFER_ENCODING, v) = Go st' ->
  v = [] /\ st' = st \/ (st_http11 st = true /\ eq_icase v s_chunked = true /\ st_rlen st <> (-1)%Z /\ st_rlen st' = (-1)%Z).
Proof. exact te_step. Qed.
Print Assumptions reject_te_not_chunked_or_http10.
