(* C12 -- untrusted input never causes undefined behaviour, abort or unbounded growth.
   Property theorems only; proofs in Safe/SafeProofs.v.  PARTIAL by nature: memory safety of C is not provable here without
   a C semantics (VST/CompCert are not available in this sandbox); what is proved is the size arithmetic of the parsers that
   write into fixed or pre-sized storage, over the executable models of C02 (burl), C15 (Range) and the chunk-size
   accumulators, with the capacities / guards taken from the source on every run by tools/c2v_safe.py (Gen/GenSafe.v):
   a change of a buffer-size expression, a loop guard or an overflow guard breaks a proof obligation.  The search side runs the
   same models' harnesses built with AddressSanitizer + UndefinedBehaviorSanitizer on inputs aimed at those limits, and the
   real server on malformed HTTP/1.x, HTTP/2 and backend streams (ASan/UBSan build in the thorough tier), requiring that it
   keeps answering a health probe. *)
From Coq Require Import List NArith ZArith.
From LV Require Import Base.Bytes Gen.GenBurl Gen.GenRange Gen.GenSafe Url.UrlModel C15.RangeModel Safe.SafeProofs.
Import ListNotations.
Local Open Scope Z_scope.

(* burl_normalize_basic_unreserved_fix / _required_fix: for every already-validated prefix and every tail, prefix + rewritten
   tail + terminator fit the scratch buffer the code requests *)
Theorem burl_unreserved_rewrite_fits : forall (prefix tail : list N) j qs,
  let i := Z.of_nat (length prefix) in let used := Z.of_nat (length prefix + length tail) in
  i + Z.of_nat (length (fst (norm_unres tail j qs))) + 1 <= scratch_unres i used.
Proof. exact burl_unreserved_fix_fits_scratch. Qed.
Print Assumptions burl_unreserved_rewrite_fits.

Theorem burl_required_rewrite_fits : forall (prefix tail : list N) j qs inv,
  let i := Z.of_nat (length prefix) in let used := Z.of_nat (length prefix + length tail) in
  i + Z.of_nat (length (fst (fst (norm_reqd tail j qs inv)))) + 1 <= scratch_reqd i used.
Proof. exact burl_required_fix_fits_scratch. Qed.
Print Assumptions burl_required_rewrite_fits.

(* http_range_parse: never more than RMAX pairs are collected, for every Range header *)
Theorem range_pairs_never_exceed_the_array : forall s len,
  range_loop_guard_strict = true -> range_lim_factor = range_array_factor ->
  (N.of_nat (length (fst (parse_loop (S (length (cstr s))) (cstr s) len [] RMAX))) <= RMAX)%N.
Proof. exact range_pairs_fit_the_array. Qed.
Print Assumptions range_pairs_never_exceed_the_array.

Theorem range_loop_is_as_modelled : range_loop_guard_strict = true /\ range_lim_factor = range_array_factor.
Proof. exact range_guard_as_modelled. Qed.
Print Assumptions range_loop_is_as_modelled.

(* chunk-size accumulation (client and backend side): below the guard, the next hex digit and the +2 cannot overflow off_t *)
Theorem chunk_size_cannot_overflow : forall te u,
  0 <= te <= chunk_guard_client -> 0 <= te <= chunk_guard_backend -> 0 <= u < 16 -> 0 <= te * 16 + u + 2 <= 2 ^ 63 - 1.
Proof. exact chunk_size_shift_cannot_overflow. Qed.
Print Assumptions chunk_size_cannot_overflow.

(* non-vacuity: 130 ascending, well separated ranges are cut to 128 pairs *)
Example c12_nonvacuous :
  let hdr := concat (map (fun k => [48 + N.of_nat (k / 100) ; 48 + N.of_nat ((k / 10) mod 10); 48 + N.of_nat (k mod 10); 48; 48; 45; 48 + N.of_nat (k / 100); 48 + N.of_nat ((k / 10) mod 10); 48 + N.of_nat (k mod 10); 48; 48; 44]%N) (seq 0 130)) in
  length (fst (parse_loop (S (length hdr)) hdr 1000000 [] RMAX)) = 128%nat.
Proof. vm_compute. reflexivity. Qed.
