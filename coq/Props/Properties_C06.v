(* C06 -- HTTP/2 flow control: never exceed the peer's window, never deadlock.
   Property theorems only; proofs in H2/H2FlowProofs.v.  The model (H2/H2Flow.v) is tied to src/h2.c by
   Gen/GenH2.v (initial windows, advertised settings, per-round budget, deferral threshold, enum values --
   regenerated on every run) and by differential correspondence (harness/h2_h.c <-> extracted model:
   identical frame sequences for random credit histories). *)
From LV Require Import Base.Bytes Gen.GenH2 H2.H2Flow H2.H2FlowProofs.
Local Open Scope Z_scope.

(* the windows assumed for the peer before any SETTINGS frame are the RFC 9113 defaults *)
Theorem init_window_is_rfc : init_peer_initial_window = 65535 /\ init_conn_swin = 65535 /\ Z.of_N init_peer_max_frame = 16384.
Proof. exact initial_windows_rfc. Qed.
Print Assumptions init_window_is_rfc.

(* for every history of SETTINGS, WINDOW_UPDATE, requests and PINGs: every send window equals the credit
   granted (initial window in force + WINDOW_UPDATEs) minus the DATA octets sent, and no DATA frame was ever
   emitted beyond the credit granted by then -- on any stream and on the connection *)
Theorem never_overdraft : forall evs c,
  run h2_init evs = Some c ->
  (cswin c = g_ccredit c - g_csent c /\ Forall (fun s => swin s = iws c + g_wu s - g_sent s /\ 0 <= pending s) (streams c)) /\
  (g_cover c = false /\ Forall (fun s => g_over s = false) (streams c)).
Proof. intros evs c H. destruct init_wf as [Hw Hc]. exact (run_inv evs h2_init c H Hw Hc). Qed.
Print Assumptions never_overdraft.

(* what one send may take: never more than either window, nothing from a non-positive window *)
Theorem send_within_windows : forall b sw cw p, 0 <= b -> 0 <= p ->
  0 <= send_amount b sw cw p /\
  (0 < send_amount b sw cw p -> send_amount b sw cw p <= sw /\ send_amount b sw cw p <= cw /\ send_amount b sw cw p <= b) /\
  send_amount b sw cw p <= p.
Proof. exact send_amount_bounds. Qed.
Print Assumptions send_within_windows.

(* a response stalled on a window resumes as soon as both windows hold min(pending, threshold) octets,
   and is sent completely once they cover what is pending (round budget permitting) *)
Theorem stalled_resumes : forall b sw cw p, 0 < p -> Z.of_N defer_below <= b ->
  Z.min p (Z.of_N defer_below) <= sw -> Z.min p (Z.of_N defer_below) <= cw -> 0 < send_amount b sw cw p.
Proof. exact send_amount_resumes. Qed.
Theorem credit_completes : forall b sw cw p, 0 <= p -> p <= b -> p <= sw -> p <= cw -> send_amount b sw cw p = p.
Proof. exact send_amount_completes. Qed.
Print Assumptions stalled_resumes.

(* WINDOW_UPDATE of zero / beyond 2^31-1: connection error PROTOCOL_ERROR / FLOW_CONTROL_ERROR on stream 0,
   stream error (RST_STREAM) with the same codes on a stream *)
Theorem wu_zero_is_protocol_error : forall c, alive c = true ->
  exists c', step c (EvWU 0%N 0) = Ok c' [OGoaway (cid c) H2_E_PROTOCOL_ERROR] /\ alive c' = false.
Proof. exact wu_zero_conn. Qed.
Theorem wu_overflow_is_flow_control_error : forall c v, alive c = true -> v <> 0 -> cswin c + v > INT32_MAX ->
  exists c', step c (EvWU 0%N v) = Ok c' [OGoaway (cid c) H2_E_FLOW_CONTROL_ERROR] /\ alive c' = false.
Proof. exact wu_overflow_conn. Qed.
Theorem wu_stream_error_codes : forall s0 v ss ss' o, wu_stream s0 v ss = Some (ss', o) ->
  forall s, In s ss -> sid s = s0 -> NoDup (map sid ss) ->
  (v = 0 -> o = [ORst s0 H2_E_PROTOCOL_ERROR]) /\ (v <> 0 -> swin s + v > INT32_MAX -> o = [ORst s0 H2_E_FLOW_CONTROL_ERROR]).
Proof. exact wu_stream_errors. Qed.
Print Assumptions wu_stream_error_codes.

(* uploads: for every sequence of DATA frame sizes (each at most the advertised max frame size) the credit
   lighttpd returns is at least what it consumed, so the window it advertises never shrinks below its
   initial value and a client that respects it can always send the next frame *)
Theorem upload_credit_is_returned : forall lens f, 0 <= f < rwin_unit -> Forall (fun l => 0 <= l <= rwin_unit) lens ->
  let '(f', w) := conn_returned f lens in 0 <= f' < rwin_unit /\ w + f = fold_right Z.add 0 lens + f'.
Proof. exact upload_credit_returned. Qed.
Print Assumptions upload_credit_is_returned.
Theorem advertised_windows : advertised_initial_window = init_stream_rwin /\ 65535 + advertised_conn_window_incr = init_conn_rwin /\ 0 < rwin_unit <= 16384.
Proof. exact advertised_windows_consistent. Qed.

(* non-vacuity: a history with a retroactive SETTINGS decrease that drives a window negative and a later grant *)
Example c06_nonvacuous :
  match run h2_init [EvSettings []; EvWU 0%N 100000; EvHeaders 1%N 70000; EvSettings [(4%N, 10)]; EvWU 1%N 70000; EvWU 1%N 1] with
  | Some c => (cswin c, map (fun s => (swin s, pending s, g_sent s)) (streams c))
  | None => (0, [])
  end = (165535 - 70000, []).
Proof. vm_compute. reflexivity. Qed.
