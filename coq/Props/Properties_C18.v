(* C18 -- WebDAV operations match a reference tree; PUT is all-or-nothing.
   Property theorems only; proofs in Dav/DavProofs.v.  Dav/DavModel.v is an executable specification of the tree semantics
   RFC 4918 prescribes (not a transcription of mod_webdav.c); it is tied to src/mod_webdav.c by differential correspondence
   against the real lighttpd: after every request of random and trap sequences the directory on disk must equal the
   specification's tree and the status class must be "done" exactly when the specification applies the operation; PUT
   atomicity is additionally exercised by client aborts and SIGKILL at random bytes with a concurrent reader.
   PARTIAL: PROPFIND/PROPPATCH/LOCK, If-Match / If-Unmodified-Since preconditions, partial PUT (Content-Range) and write
   errors (ENOSPC) are not in the specification; the theorems are about the specification and the staging protocol, the
   correspondence is what ties them to the code. *)
From Coq Require Import List NArith.
From LV Require Import Base.Bytes Dav.DavModel Dav.DavProofs.
Import ListNotations.

Theorem refused_operation_changes_nothing : forall t o t', apply t o = (false, t') -> t' = t.
Proof. exact refused_leaves_tree_unchanged. Qed.
Print Assumptions refused_operation_changes_nothing.

Theorem move_is_copy_then_delete_source : forall t s d ow t', apply t (Move s d ow) = (true, t') ->
  exists t1, apply t (Copy s d ow false) = (true, t1) /\ t' = remove_subtree t1 s.
Proof. exact move_is_copy_then_delete. Qed.
Print Assumptions move_is_copy_then_delete_source.

Theorem delete_removes_exactly_the_subtree : forall t p t' q, apply t (Delete p) = (true, t') ->
  (under p q = true -> lookup t' q = None) /\ (under p q = false -> lookup t' q = lookup t q).
Proof. exact delete_touches_only_the_subtree. Qed.
Print Assumptions delete_removes_exactly_the_subtree.

(* kill after any number of filesystem steps of a PUT: the target is as before or holds exactly the complete new content *)
Theorem put_all_or_nothing : forall t tmp p blocks k,
  seg_eqb tmp p = false -> under tmp p = false ->
  let t' := fs_run t (firstn k (put_steps tmp p blocks)) in
  lookup t' p = lookup t p \/ lookup t' p = Some (File (concat blocks)).
Proof. exact put_is_all_or_nothing. Qed.
Print Assumptions put_all_or_nothing.

Theorem completed_put_leaves_no_temporary : forall t tmp p blocks,
  lookup (fs_run t (put_steps tmp p blocks)) tmp = None \/ seg_eqb p tmp = true.
Proof. exact put_leaves_no_temporary. Qed.
Print Assumptions completed_put_leaves_no_temporary.

(* non-vacuity: MOVE onto itself is refused; COPY of a collection twice gives the same tree *)
Example c18_nonvacuous :
  let a := [[97%N]] in let d1 := [[100;49]%N] in let d2 := [[100;50]%N] in
  fst (run [] [Put a [65%N]; Move a a true]) = [true; false] /\
  snd (run [] [Mkcol d1; Put (d1 ++ [[120%N]]) [88%N]; Copy d1 d2 true false]) =
  snd (run [] [Mkcol d1; Put (d1 ++ [[120%N]]) [88%N]; Copy d1 d2 true false; Copy d1 d2 true false]).
Proof. vm_compute. split; reflexivity. Qed.
