(* C08 -- the response depends only on its request; same answer over HTTP/1.x and HTTP/2.
   Property theorems only; proofs in Reset/ResetProofs.v.  Gen/GenReset.v is regenerated on every run by tools/c2v_reset.py
   from src/request.h (the fields of struct request_st) and from the bodies of request_reset(), request_reset_ex(),
   request_config_reset(), http_response_reset() and http_response_body_clear(): the theorem is re-checked against what the
   code says now.  The behavioural side is a metamorphic search on the real lighttpd: every probe request is sent alone on a
   fresh connection and after prefixes of other requests (keep-alive, pipelined, earlier and concurrent HTTP/2 streams,
   failing, bodied, ranged, authenticated, aborted), as HTTP/1.0, HTTP/1.1 and HTTP/2, and must yield the same status,
   representation headers, body and CGI environment.
   PARTIAL: the theorem covers the request object's fields (each is reset or listed as connection-level with its reason);
   module-private state (plugin_ctx contents), the stat cache and the HPACK dynamic table are covered only by the search. *)
From Coq Require Import List String Bool.
From LV Require Import Gen.GenReset Reset.ResetModel Reset.ResetProofs.
Import ListNotations.
Open Scope string_scope.

Theorem every_request_field_is_reset_or_connection_level : all_fields_covered = true.
Proof. exact coverage. Qed.
Print Assumptions every_request_field_is_reset_or_connection_level.

Theorem request_object_carries_no_history : forall o1 o2 : obj,
  (forall f, In f (map fst persistent) -> o1 f = o2 f) ->
  forall f, In f request_fields -> reset o1 f = reset o2 f.
Proof. exact reset_erases_history. Qed.
Print Assumptions request_object_carries_no_history.

Theorem http1_and_http2_share_the_header_parser : h1_uses_shared_header_parser && h2_uses_shared_header_parser = true.
Proof. exact one_parser_for_both_protocols. Qed.
Print Assumptions http1_and_http2_share_the_header_parser.

(* non-vacuity: the field list read from the source is the real one *)
Example c08_nonvacuous : In "rqst_htags" request_fields /\ In "keep_alive" fields_reset_between_requests /\ Nat.leb 40 (List.length request_fields) = true.
Proof. vm_compute. repeat split; auto 60. Qed.
