(* C05 -- HTTP/2: every emitted frame is legal for the connection and stream state.
   H2/H2Legal.v is an RFC 9113 wire tracker written independently of h2.c; the check extracts it and runs it over
   every frame the implementation emits for exhaustive/random client frame sequences (harness/h2_h.c, trace mode).
   The theorems below are about what the HTTP/2 model (H2/H2Flow.v, tied to h2.c by the C06 correspondence) emits.
   PARTIAL: the single statement "legal (trace of the model) = None for every event sequence" is not proven yet;
   its clauses that are proven for every history are listed here. *)
From LV Require Import Base.Bytes Gen.GenH2 H2.H2Flow H2.H2FlowProofs H2.H2Legal H2.H2LegalProofs.
Local Open Scope Z_scope.

(* payloads never exceed the peer's SETTINGS_MAX_FRAME_SIZE (and DATA frames are never empty except END_STREAM);
   the frames of one send add up to exactly the amount taken from the windows *)
Theorem payload_le_peer_max_frame_partial : forall fuel s n fs, 0 < fs ->
  Forall (fun o => exists l, o = OData s l 0%N /\ 0 < l <= fs) (frames fuel s n fs) /\
  (n <= Z.of_nat fuel * fs -> fold_right Z.add 0 (map data_len (frames fuel s n fs)) = Z.max 0 n).
Proof. exact frames_spec. Qed.
Print Assumptions payload_le_peer_max_frame_partial.
Theorem peer_max_frame_never_below_minimum : forall ps c acc c' o, settings_loop c ps acc = (c', o) -> fsize_ok c -> fsize_ok c'.
Proof. exact settings_loop_fsize. Qed.

(* SETTINGS are acknowledged exactly once, PINGs are echoed exactly once *)
Theorem settings_acked : forall c ps c' o, step c (EvSettings ps) = Ok c' o -> alive c = true -> alive c' = true -> count_ack o = 1%nat.
Proof. exact settings_acked_once. Qed.
Print Assumptions settings_acked.
Theorem ping_echoed : forall c c' o, step c EvPing = Ok c' o -> alive c = true -> count_ping o = 1%nat.
Proof. exact ping_echoed_once. Qed.

(* after a connection error (GOAWAY with an error code) nothing is emitted and no stream is processed *)
Theorem conn_error_is_final : forall c e c' o, alive c = false -> step c e = Ok c' o -> o = [] /\ c' = c.
Proof. exact H2LegalProofs.conn_error_is_final. Qed.
Print Assumptions conn_error_is_final.

(* stream-id ordering / parity and the advertised concurrency limit are enforced on admission *)
Theorem id_order_and_parity_enforced : forall c s n, (s <= cid c)%N \/ N.even s = true -> step c (EvHeaders s n) = Unsupported \/ alive c = false.
Proof. exact stream_id_order_enforced. Qed.
Theorem concurrency_limit : forall c s n c' o, step c (EvHeaders s n) = Ok c' o -> alive c = true -> (length (streams c) < max_streams)%nat.
Proof. exact concurrency_limit_enforced. Qed.
Print Assumptions concurrency_limit.
