(* C05 -- HTTP/2: every emitted frame is legal for the connection and stream state.
   H2/H2Legal.v is an RFC 9113 wire tracker written independently of h2.c; the check extracts it and runs it over
   every frame the implementation emits for exhaustive/random client frame sequences (harness/h2_h.c, trace mode).
   The theorems below are about what the HTTP/2 model (H2/H2Flow.v, tied to h2.c by the C06 correspondence and, frame for frame in the
   tracker's vocabulary, by the trace correspondence of props/C05.py) emits.  The whole-trace statement comes first: for every history of
   client events the model accepts, every frame it emits is accepted by the tracker in the state the connection is in at that moment
   (H2/H2Trace.v: a simulation invariant between the model's connection state and the tracker's).  Regime of the model: requests are
   complete GETs (END_STREAM | END_HEADERS), the events are SETTINGS, SETTINGS ACK, HEADERS, WINDOW_UPDATE, PING and RST_STREAM (fewer
   than the 17 quick resets that trigger the rapid-reset GOAWAY); header block lengths
   and the two frames of the server preface are outside it.  Frames outside this regime are judged by the extracted tracker only. *)
From Coq Require Import List.
From LV Require Import Base.Bytes Gen.GenH2 H2.H2Flow H2.H2FlowProofs H2.H2Legal H2.H2LegalProofs H2.H2Trace.
Local Open Scope Z_scope.

(* every emitted frame is legal for the connection and stream state, in every history: no frame after a GOAWAY with an error, no payload
   above the peer's SETTINGS_MAX_FRAME_SIZE, HEADERS/DATA only on streams the client opened, response HEADERS before DATA, nothing after
   END_STREAM or RST_STREAM, RST_STREAM only on opened streams, SETTINGS/PING acknowledgements only for frames received, GOAWAY naming a
   stream the client opened (tracker clauses 1-16) *)
Theorem every_emitted_frame_is_legal : forall es tr, Forall ev_fits es -> trace h2_init es = Some tr -> exists l, legal_from l_init tr = inl l.
Proof. exact every_emitted_frame_is_legal_in_every_history. Qed.
Print Assumptions every_emitted_frame_is_legal.

(* and on a connection still alive at the end nothing is owed: every SETTINGS acknowledged, every PING echoed, no header block left open, no
   connection error left unanswered; the only end-of-trace clause that can remain is a response waiting for flow-control credit (C06) *)
Theorem nothing_is_owed_at_the_end : forall es tr cf l, Forall ev_fits es -> trace h2_init es = Some tr -> final h2_init es = Some cf ->
  legal_from l_init tr = inl l -> alive cf = true ->
  l_unacked l = 0 /\ l_pings l = 0 /\ l_sv_cont l = None /\ l_conn_err l = false /\ (final_check true l = None \/ final_check true l = Some 23%N).
Proof. exact nothing_owed_at_the_end. Qed.
Print Assumptions nothing_is_owed_at_the_end.

(* payloads never exceed the peer's SETTINGS_MAX_FRAME_SIZE (and DATA frames are never empty except END_STREAM);
   the frames of one send add up to exactly the amount taken from the windows *)
Theorem payload_le_peer_max_frame_partial : forall fuel s n fs, 0 < fs ->
  Forall (fun o => exists l, o = OData s l 0%N /\ 0 < l <= fs) (frames fuel s n fs) /\
  (n <= Z.of_nat fuel * fs -> fold_right Z.add 0 (map data_len (frames fuel s n fs)) = Z.max 0 n).
Proof. exact frames_spec. Qed.
Print Assumptions payload_le_peer_max_frame_partial.
Theorem peer_max_frame_never_below_minimum : forall ps c acc c' o, settings_loop c ps acc = (c', o) -> fsize_ok c -> fsize_ok c'.
Proof. exact settings_loop_fsize. Qed.

(* SETTINGS are acknowledged exactly once, PINGs are echoed exactly once *)
Theorem settings_acked : forall c ps c' o, step c (EvSettings ps) = Ok c' o -> alive c = true -> alive c' = true -> count_ack o = 1%nat.
Proof. exact settings_acked_once. Qed.
Print Assumptions settings_acked.
Theorem ping_echoed : forall c c' o, step c EvPing = Ok c' o -> alive c = true -> count_ping o = 1%nat.
Proof. exact ping_echoed_once. Qed.

(* after a connection error (GOAWAY with an error code) nothing is emitted and no stream is processed *)
Theorem conn_error_is_final : forall c e c' o, alive c = false -> step c e = Ok c' o -> o = [] /\ c' = c.
Proof. exact H2LegalProofs.conn_error_is_final. Qed.
Print Assumptions conn_error_is_final.

(* stream-id ordering / parity and the advertised concurrency limit are enforced on admission *)
Theorem id_order_and_parity_enforced : forall c s n, (s <= cid c)%N \/ N.even s = true -> step c (EvHeaders s n) = Unsupported \/ alive c = false.
Proof. exact stream_id_order_enforced. Qed.
Theorem concurrency_limit : forall c s n c' o, step c (EvHeaders s n) = Ok c' o -> alive c = true -> (length (streams c) < max_streams)%nat.
Proof. exact concurrency_limit_enforced. Qed.
Print Assumptions concurrency_limit.
