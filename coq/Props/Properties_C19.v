(* C19 -- compressed responses decode to the identity body; the compression cache never serves stale content.
   Property theorems only; proofs in Deflate/DeflateProofs.v.  The model (Deflate/DeflateModel.v) is tied to src/mod_deflate.c
   (mod_deflate_choose_encoding, mod_deflate_handle_response_start, mod_deflate_cache_file_open/append/finish) by differential correspondence
   against the real lighttpd: for every request the model's plan (coding or none, rewritten ETag, 304/412) is compared with
   the response, and a monitor decodes every body with zlib and compares it with the file on disk, across histories that
   modify the source, inject short writes / ENOSPC on the cache files (harness/faultio.c) and kill the server mid-request.
   The compressor (zlib) is outside the model: the theorems assume only that decompression inverts it.
   Hypothesis of the history theorem: a file's entity tag changes whenever the file changes (ok_ops), tags are quoted strings
   without '-' (lighttpd's are decimal).  server.stat-cache-engine is "disable" in the runs (see DESIGN.md). *)
From Coq Require Import List NArith.
From LV Require Import Base.Bytes Deflate.DeflateModel Deflate.DeflateProofs.
Import ListNotations.
Local Open Scope N_scope.

(* the Content-Encoding chosen is a token of the client's Accept-Encoding and is enabled by the configuration *)
Theorem coding_is_listed_and_allowed : forall al ae label, choose al ae = Some label ->
  listed ae label /\ exists x, In x al /\ N.land x (flag_of label) <> 0.
Proof. exact chosen_is_listed_and_allowed. Qed.
Print Assumptions coding_is_listed_and_allowed.

(* every body sent in any admissible history is the coding of the content current at that moment *)
Theorem cache_never_stale_or_partial : forall compress decompress,
  (forall label x, decompress label (compress label x) = x) ->
  forall ops s, Inv compress s -> ok_ops (versions s) ops ->
  Forall (fun r => let '(L, body, content) := r in body = compress L content /\ decompress L body = content) (run compress s ops).
Proof. exact served_decodes_to_identity. Qed.
Print Assumptions cache_never_stale_or_partial.

(* the tag of a coded representation differs from the identity tag, and tags of different codings/versions differ *)
Theorem coded_etag_is_distinct : forall label e, wf_etag e -> etag_with label e <> e.
Proof. exact etag_with_distinct. Qed.
Theorem coded_etags_are_injective : forall l1 l2 e1 e2, wf_etag e1 -> wf_etag e2 -> etag_with l1 e1 = etag_with l2 e2 -> l1 = l2 /\ e1 = e2.
Proof. exact etag_with_inj. Qed.
Print Assumptions coded_etags_are_injective.

(* non-vacuity: gzip;q=1.0, deflate -> gzip with default configuration; a history with a change and a failed write *)
Example c19_nonvacuous :
  choose [7] [103;122;105;112;59;113;61;49;46;48;44;32;100;101;102;108;97;116;101] = Some s_gzip /\
  run (fun l x => l ++ x) empty_state
      [Modify [47] [34;49;34] [1]; Request [47] s_gzip WriteFails; Request [47] s_gzip WriteOk; Modify [47] [34;50;34] [2]; Request [47] s_gzip WriteOk]
  = [(s_gzip, s_gzip ++ [1], [1]); (s_gzip, s_gzip ++ [1], [1]); (s_gzip, s_gzip ++ [2], [2])].
Proof. vm_compute. split; reflexivity. Qed.
