(* C02 -- no request reaches a filesystem object outside the configured roots.
   Property theorems only; proofs in Url/UrlProofs.v.  The model (Url/UrlModel.v) is tied to
   src/burl.c, src/buffer.c, src/request.c by Gen/GenBurl.v and by exhaustive differential
   correspondence (harness/url_h.c <-> extracted model). *)
From LV Require Import Base.Bytes Gen.GenBurl Url.UrlModel Url.UrlProofs.
Local Open Scope N_scope.

(* buffer_path_simplify never leaves a "." or ".." segment, for every input (absolute or not,
   including NUL and control bytes) *)
Theorem simplify_no_dotseg : forall s, nodot (simplify s).
Proof. exact simplify_nodot_all. Qed.
Print Assumptions simplify_no_dotseg.

(* for every target and every http-parseopts combination: an accepted target yields a path that
   is absolute and free of dot segments *)
Theorem target_ok : forall flags t t' path q,
  parse_target flags t = TOk t' path q -> (exists r, path = slash :: r) /\ nodot path.
Proof. exact parse_target_ok. Qed.
Print Assumptions target_ok.

(* joining such a path to a document root that is itself free of dot segments keeps the root as a
   prefix and introduces no dot segment: lexically the result cannot climb out of the root *)
Theorem physical_under_docroot : forall root r,
  nodot root -> nodot (slash :: r) ->
  exists rest, path_join root (slash :: r) = root ++ rest /\ nodot (path_join root (slash :: r)).
Proof. exact path_join_contained. Qed.
Print Assumptions physical_under_docroot.

(* non-vacuity: a traversal attempt is accepted and neutralised, not merely rejected *)
Example c02_nonvacuous :
  parse_target 9560 [47;97;47;37;50;101;37;50;69;47;37;50;102;46;46;47;120] (* "/a/%2e%2E/%2f../x" *)
  = TOk [47;120] [47;120] None.
Proof. vm_compute. reflexivity. Qed.
