(* C02 -- no request reaches a filesystem object outside the configured roots.
   Property theorems only; proofs in Url/UrlProofs.v.  The model (Url/UrlModel.v) is tied to
   src/burl.c, src/buffer.c, src/request.c by Gen/GenBurl.v and by exhaustive differential
   correspondence (harness/url_h.c <-> extracted model).  The mapping stages after the URL pipeline (Roots/RootsModel.v: alias,
   simple-vhost, evhost, userdir, X-Sendfile, WebDAV Destination, symlink walk, and their composition in http_response_prepare)
   are tied by harness/roots_h.c, by the running server (props/roots.py) and, for the order of the X-Sendfile / Destination
   steps, by Gen/GenRoots.v which is re-read from the source on every run. *)
From LV Require Import Base.Bytes Gen.GenBurl Gen.GenRoots Url.UrlModel Url.UrlProofs Roots.RootsModel Roots.RootsProofs H1.H1Model Roots.HostProofs.
Local Open Scope N_scope.

(* buffer_path_simplify never leaves a "." or ".." segment, for every input (absolute or not,
   including NUL and control bytes) *)
Theorem simplify_no_dotseg : forall s, nodot (simplify s).
Proof. exact simplify_nodot_all. Qed.
Print Assumptions simplify_no_dotseg.

(* for every target and every http-parseopts combination: an accepted target yields a path that
   is absolute and free of dot segments *)
Theorem target_ok : forall flags t t' path q,
  parse_target flags t = TOk t' path q -> (exists r, path = slash :: r) /\ nodot path.
Proof. exact parse_target_ok. Qed.
Print Assumptions target_ok.

(* joining such a path to a document root that is itself free of dot segments keeps the root as a
   prefix and introduces no dot segment: lexically the result cannot climb out of the root *)
Theorem physical_under_docroot : forall root r,
  nodot root -> nodot (slash :: r) ->
  exists rest, path_join root (slash :: r) = root ++ rest /\ nodot (path_join root (slash :: r)).
Proof. exact path_join_contained. Qed.
Print Assumptions physical_under_docroot.

(* non-vacuity: a traversal attempt is accepted and neutralised, not merely rejected *)
Example c02_nonvacuous :
  parse_target 9560 [47;97;47;37;50;101;37;50;69;47;37;50;102;46;46;47;120] (* "/a/%2e%2E/%2f../x" *)
  = TOk [47;120] [47;120] None.
Proof. vm_compute. reflexivity. Qed.

(* ---- mapping stages ---- *)

(* mod_alias: with dot-free absolute alias targets, the remapped path is <target> ++ <rest of the URL path> and stays dot-free: the
   403 guard is exactly what keeps "/key../x" from climbing out of a target that ends in '/' *)
Theorem alias_remap_stays_under_target : forall al basedir pre uri p b,
  Forall (fun kv => nodot (snd kv) /\ absp (snd kv)) al ->
  length pre = (length basedir - (if ends_slash_b basedir then 1 else 0))%nat ->
  absp uri -> nodot uri ->
  alias_remap al basedir (pre ++ uri) = AliasTo p b ->
  exists k rest, In (k, b) al /\ uri = k ++ rest /\ p = b ++ rest /\ nodot p.
Proof. exact alias_contained. Qed.
Print Assumptions alias_remap_stays_under_target.

(* mod_simple_vhost: whatever the Host (under the non-strict guard, or any host without '/' and leading '.' in strict mode), the
   document root is <server-root> ++ ... and dot-free *)
Theorem vhost_root_under_server_root : forall isdir strict sroot droot dhost auth p,
  nodot sroot -> ends_slash_b sroot = true ->
  match droot with Some d => nodot d | None => True end ->
  match dhost with Some a => host_ok a | None => True end ->
  (strict = true -> host_ok auth) ->
  svh_docroot isdir strict sroot droot dhost auth = Some p ->
  nodot p /\ exists rest, p = sroot ++ rest.
Proof. exact svh_docroot_contained. Qed.
Print Assumptions vhost_root_under_server_root.

(* mod_evhost: no piece taken from a '/'-free Host contains a '/' *)
Theorem evhost_pieces_have_no_slash : forall auth p,
  noslash auth -> match p with PLit _ => True | _ => noslash (piece_value auth (parse_host auth) p) end.
Proof. exact evhost_host_adds_no_slash. Qed.
Print Assumptions evhost_pieces_have_no_slash.

(* mod_userdir (basepath variant): the user directory and the file below it extend userdir.basepath and are dot-free *)
Theorem userdir_under_basepath : forall c uri p b,
  nodot (ud_base c) -> (forall up, ud_path c = Some up -> nodot up) -> nodot uri ->
  userdir c uri = UdTo p b ->
  nodot p /\ nodot b /\ (exists rest, b = ud_base c ++ rest) /\ (exists rest, p = b ++ rest).
Proof. exact userdir_contained. Qed.
Print Assumptions userdir_under_basepath.

(* X-Sendfile / X-Sendfile2: the file sent is simplify(urldecode(value)), dot-free, and extends one of the x-sendfile-docroot entries
   (which the configuration code simplifies and ends with '/').  The step order is the one found in the source by tools/c2v_roots.py *)
Theorem xsendfile_path_under_docroot : forall u roots p q,
  xsendfile u roots p = XsSend q ->
  q = simplify (urldecode_path p) /\ nodot q /\ (roots <> [] -> exists r rest, In r roots /\ q = r ++ rest).
Proof. exact xsendfile_contained. Qed.
Print Assumptions xsendfile_path_under_docroot.
Theorem xsendfile2_path_under_docroot : forall u roots p q,
  xsendfile2 u roots p = XsSend q ->
  q = simplify (urldecode_path p) /\ nodot q /\ (roots <> [] -> exists r rest, In r roots /\ q = r ++ rest).
Proof. exact xsendfile2_contained. Qed.
Print Assumptions xsendfile2_path_under_docroot.

(* WebDAV COPY/MOVE: the Destination's filesystem path is dot-free and extends the document root or a prefix of the source's physical
   path at least as long as its base directory (the alias target when the tree is aliased) *)
Theorem webdav_destination_contained : forall u scheme auth rel phys basedir docroot dest d dp,
  nodot phys -> nodot docroot -> absp rel ->
  dav_dest u scheme auth rel phys basedir docroot dest = DPath d dp ->
  nodot d /\ absp d /\ nodot dp /\
  ((exists rest, dp = docroot ++ rest) \/
   (exists n rest, (length basedir - (if ends_slash_b basedir then 1 else 0) <= n)%nat /\ dp = firstn n phys ++ rest)).
Proof. exact dav_dest_contained. Qed.
Print Assumptions webdav_destination_contained.

(* server.follow-symlink = "disable": answer 0 means neither the name nor any ancestor directory is a symbolic link *)
Theorem no_symlink_on_accepted_path : forall lst name,
  contains_symlink lst name = 0%Z -> (1 < length name)%nat ->
  forall j, (0 < j)%nat -> (j = length name \/ ((j < length name)%nat /\ nth j name 0 = slash)) -> lst (firstn j name) = Some false.
Proof. exact contains_symlink_sound. Qed.
Print Assumptions no_symlink_on_accepted_path.

(* the whole way from the request target to physical.path (docroot choice, join, alias, userdir) *)
Theorem request_target_to_physical_path : forall isdir flags c auth target t' path q dr b p,
  conf_ok c -> (c_strict c = true -> host_ok auth) ->
  parse_target flags target = TOk t' path q ->
  physical isdir c auth path = Phys dr b p ->
  nodot p /\ nodot b /\ (exists rest, p = b ++ rest) /\ designated c dr b.
Proof. exact target_to_physical. Qed.
Print Assumptions request_target_to_physical_path.

(* host-strict mode needs no assumption about the Host: whatever request_check_hostname() and http_request_host_normalize() let
   through (H1/H1Model.v, tied to request.c by C01's correspondence) has no '/' and no leading '.' *)
Theorem strict_host_is_a_path_segment : forall flags h h',
  has_flag flags OPT_HOST_STRICT = true -> nonul h -> host_policy flags h = HostOk h' -> host_ok h'.
Proof. exact host_policy_strict_ok. Qed.
Print Assumptions strict_host_is_a_path_segment.

Theorem strict_request_target_to_physical_path : forall isdir flags c h auth target t' path q dr b p,
  conf_ok c -> has_flag flags OPT_HOST_STRICT = true -> nonul h ->
  host_policy flags h = HostOk auth ->
  parse_target flags target = TOk t' path q ->
  physical isdir c auth path = Phys dr b p ->
  nodot p /\ nodot b /\ (exists rest, p = b ++ rest) /\ designated c dr b.
Proof. exact strict_request_to_physical. Qed.
Print Assumptions strict_request_target_to_physical_path.
