(* C04 -- every HTTP/1.x response is well-formed, correctly delimited and byte-exact.
   Property theorems only; proofs in Resp/RespProofs.v.  The model (Resp/RespModel.v) is tied to src/response.c
   (http_response_write_prepare), src/http_chunk.c and src/h1.c by differential correspondence against the real lighttpd of
   the working tree: every response to a request matrix (static files of boundary sizes, CGI output with and without
   Content-Length, buffered and streamed, HEAD/GET, HTTP/1.0/1.1, keep-alive pipelines, both network backends, slow readers,
   injected short writes/EAGAIN/EINTR through an LD_PRELOAD shim) is read by a strict RFC 9112 parser and compared with the
   model's framing and with the bytes on disk.
   PARTIAL: the header block's serialisation (h1_send_headers) and the partial-write bookkeeping are covered by that
   correspondence and by C17's queue theorems (mark_written refinement), not by theorems of their own here. *)
From Coq Require Import List NArith.
From LV Require Import Base.Bytes Resp.RespModel Resp.RespProofs Url.UrlModel.
Import ListNotations.
Local Open Scope N_scope.

(* For every response head/status/version/flag combination and every way the body is produced (what is queued when the
   headers are prepared, what is appended later), a recipient following RFC 9112 section 6.3 finds the end of the body exactly
   where the server put it, gets exactly the produced bytes, and whatever follows on the connection is untouched; when
   neither a length nor chunking delimits the body the connection is closed.  Hypotheses: the handler's own
   Content-Length (if any) is truthful and block sizes fit 64 bits. *)
Theorem end_of_body_is_determinable : forall m now later rest,
  handler_ok m now later ->
  let w := server_emit m now later in
  match rfc_frame m w with
  | NoBody => w_body w = []
  | Len n => N.of_nat (length (w_body w)) = n /\ w_body w = delivered m now later
  | Chunked => dechunk (S (S (length later))) (w_body w ++ rest) [] = Some (delivered m now later, rest)
  | UntilClose => w_keep w = false /\ w_body w = delivered m now later
  end.
Proof. exact end_determinable. Qed.
Print Assumptions end_of_body_is_determinable.

Theorem head_204_205_304_have_no_body : forall m now later,
  head m = true \/ nobody_status (status m) = true -> w_body (server_emit m now later) = [].
Proof. exact no_body_for_head_204_205_304. Qed.
Print Assumptions head_204_205_304_have_no_body.

Theorem chunked_coding_roundtrip : forall first later rest,
  small (N.of_nat (length first)) -> Forall (fun b => small (N.of_nat (length b))) later ->
  dechunk (S (S (length later))) (chunk_encode first later ++ rest) [] = Some (first ++ concat later, rest).
Proof. exact chunked_roundtrip. Qed.
Print Assumptions chunked_coding_roundtrip.

Theorem undelimited_response_closes : forall m now later,
  handler_ok m now later -> rfc_frame m (server_emit m now later) = UntilClose -> w_keep (server_emit m now later) = false.
Proof. exact close_delimited_closes. Qed.
Print Assumptions undelimited_response_closes.

(* percent-encoded CR, LF, NUL, DEL in a request-target never survive into the decoded path *)
Theorem decoded_path_has_no_control_bytes : forall s, no_ctl s -> no_ctl (udec_loop s).
Proof. exact decoded_path_no_ctl. Qed.
Print Assumptions decoded_path_has_no_control_bytes.

(* non-vacuity: a streamed HTTP/1.1 response of two blocks is chunked and decodes; HTTP/1.0 closes instead *)
Example c04_nonvacuous :
  let m11 := {| status := 200; head := false; connect := false; ver11 := true; h_cl := None; h_te := false; h_upg := false; keep := true; finished := false |} in
  let m10 := {| status := 200; head := false; connect := false; ver11 := false; h_cl := None; h_te := false; h_upg := false; keep := true; finished := false |} in
  rfc_frame m11 (server_emit m11 [[104;105]] [[33]]) = Chunked /\
  dechunk 5 (w_body (server_emit m11 [[104;105]] [[33]]) ++ [71]) [] = Some ([104;105;33], [71]) /\
  rfc_frame m10 (server_emit m10 [[104;105]] [[33]]) = UntilClose /\ w_keep (server_emit m10 [[104;105]] [[33]]) = false.
Proof. vm_compute. repeat split; reflexivity. Qed.

(* ---------------------------------------------------------------- a request path inside a response header (Resp/EncModel.v, Resp/EncProofs.v;
   the escape table and the shape of buffer_append_string_encoded are re-read from buffer.c on every run, Gen/GenEnc.v) *)
From Coq Require Import List.
From LV Require Import Gen.GenEnc Resp.EncModel Resp.EncProofs.

(* whatever bytes the path holds, its ENCODING_REL_URI form is visible ASCII: no CR, LF, NUL, space or DEL can come out of it *)
Theorem encoded_path_is_visible_ascii : forall s, Forall byte s -> forallb plain (enc_rel_uri s) = true.
Proof. exact enc_rel_uri_is_visible_ascii. Qed.
Print Assumptions encoded_path_is_visible_ascii.

(* the Location of the redirect to "path/" cannot end its header line or the header section, whatever the request path *)
Theorem directory_redirect_location_stays_on_its_line : forall absolute scheme authority path query,
  Forall byte path -> no_break scheme -> no_break authority -> no_break query ->
  no_break (dir_redirect_location absolute scheme authority path query).
Proof. exact dir_redirect_location_has_no_line_break. Qed.
Print Assumptions directory_redirect_location_stays_on_its_line.

(* and the escape is faithful: a client that decodes the value is sent to the path that was requested *)
Theorem encoded_path_decodes_to_the_path : forall s, Forall (fun c => byte c /\ (32 <= c)%N /\ c <> 127%N) s -> udec_loop (enc_rel_uri s) = s.
Proof. exact enc_rel_uri_decodes_to_the_path. Qed.
Print Assumptions encoded_path_decodes_to_the_path.

(* the two facts about the source this rests on, regenerated on every run *)
Theorem escape_and_location_as_modelled : rel_uri_escape_is_percent_hex_uc = true /\ dir_redirect_pieces_as_modelled = true.
Proof. split; reflexivity. Qed.
