(* C09 -- backends receive exactly the client's request (environment, headers, body).
   Property theorems only; proofs in Fwd/FwdProofs.v.  The model (Fwd/FwdModel.v) is tied to src/http_cgi.c
   (http_cgi_headers, http_cgi_encode_varname), src/mod_fastcgi.c (fcgi_env_add, fcgi_stdin_append) and src/mod_scgi.c by
   differential correspondence against the real lighttpd with recording FastCGI / SCGI / HTTP backends (lib/backend.py): the
   PARAMS byte stream must equal the model's encoding of the pairs, the pairs must equal the model's variables, bodies must
   be byte-identical for every size, client framing (Content-Length, chunked, any segmentation) and
   server.stream-request-body mode, including bodies spooled to temporary files (C17's queue theorems cover the spooling).
   PARTIAL: socket- and configuration-derived variables (SERVER_*, REMOTE_*, SCRIPT_FILENAME, DOCUMENT_ROOT), uwsgi, CGI's
   execve environment, mod_proxy's request line/header rewriting and HTTP/2 request bodies are judged by the RFC 3875 / RFC 9110
   monitor only. *)
From Coq Require Import List NArith.
From LV Require Import Base.Bytes Fwd.FwdModel Fwd.FwdProofs.
Import ListNotations.
Local Open Scope N_scope.

(* FastCGI PARAMS: for all names and values (1-byte and 4-byte length forms, any boundary) a strict decoder recovers exactly
   the pairs lighttpd encoded, in order *)
Theorem fcgi_params_decode_to_exactly_the_pairs : forall ps f, Forall pair_ok ps -> (length ps < f)%nat ->
  dec_params f (enc_params ps) = Some ps.
Proof. exact fcgi_params_roundtrip. Qed.
Print Assumptions fcgi_params_decode_to_exactly_the_pairs.

(* a client header only ever becomes CONTENT_TYPE or an HTTP_* variable: never another server-defined variable *)
Theorem client_headers_only_become_http_vars : forall hs k v, In (k, v) (header_vars hs) ->
  k = s_CONTENT_TYPE \/ exists t, k = s_HTTP_ ++ t.
Proof. exact header_var_names. Qed.
Print Assumptions client_headers_only_become_http_vars.

(* httpoxy: no spelling of any header yields HTTP_PROXY *)
Theorem proxy_header_never_becomes_HTTP_PROXY : forall hs, Forall (fun kv => bytes (fst kv)) hs ->
  forall v, ~ In (s_HTTP_PROXY, v) (header_vars hs).
Proof. exact no_http_proxy. Qed.
Print Assumptions proxy_header_never_becomes_HTTP_PROXY.

(* FastCGI STDIN: the records' contents concatenate to the body, none exceeds 65535 bytes, the last one is empty *)
Theorem fcgi_stdin_is_the_body : forall fuel body, (length body < fuel)%nat ->
  concat (stdin_records fuel body) = body /\
  Forall (fun r => N.of_nat (length r) <= FCGI_MAX) (stdin_records fuel body) /\
  last (stdin_records fuel body) [1] = [].
Proof. exact stdin_records_spec. Qed.
Print Assumptions fcgi_stdin_is_the_body.

(* SCGI: the netstring header block parses back to itself and leaves exactly the body *)
Theorem scgi_netstring_roundtrip : forall s rest, N.of_nat (length s) < 10 ^ 20 ->
  parse_netstring (netstring s ++ rest) = Some (s, rest).
Proof. exact netstring_roundtrip. Qed.
Print Assumptions scgi_netstring_roundtrip.

(* non-vacuity: a 128-byte name (4-byte length form) next to a short one *)
Example c09_nonvacuous :
  let long := repeat 65 128 in
  dec_params 5 (enc_params [(long, [49]); ([66], repeat 67 200)]) = Some [(long, [49]); ([66], repeat 67 200)] /\
  header_vars [([80;114;111;120;121], [120]); ([88;45;97], [49])] = [([72;84;84;80;95;88;95;65], [49])].
Proof. vm_compute. split; reflexivity. Qed.
