(* C11 -- backend pool: only live backends used, failures fail over, load accounted.
   Property theorems only; proofs in Pool/PoolProofs.v.  The model (Pool/PoolModel.v) is tied to src/gw_backend.c
   (gw_host_get, gw_host_assign/gw_host_reset, gw_proc_connect_error, gw_proc_check_enable, gw_reconnect) by differential
   correspondence against the real lighttpd with mod_proxy in front of three switchable backends (serve / refuse / hang):
   which backend received each request, the client's status, and the load figures lighttpd reports through mod_status are
   compared with the model's dispatch decisions and loads, across disable-time windows in real seconds.
   PARTIAL: local (spawned) backends with several procs, adaptive spawning, connect/read/write timeouts, the sticky mode and
   descriptor accounting are not modelled; the correspondence checks them only as far as the scenarios reach. *)
From Coq Require Import List ZArith.
From LV Require Import Pool.PoolModel Pool.PoolProofs.
Import ListNotations.
Local Open Scope Z_scope.

(* in every state reachable by any interleaving of arrivals, connect failures, completions/aborts and clock ticks, every
   host's load figure equals the number of requests in flight on it; ids stay unique; hosts referred to exist *)
Theorem load_figures_equal_requests_in_flight : forall bal hh dt es s, Inv s -> Inv (snd (run bal hh dt s es)).
Proof. exact run_Inv. Qed.
Print Assumptions load_figures_equal_requests_in_flight.

Theorem loads_never_negative_zero_when_idle : forall bal hh dt es n,
  let s := snd (run bal hh dt (init n) es) in
  (forall i h, nth_error (hosts s) i = Some h -> 0 <= h_load h) /\
  (inflight s = [] -> forall i h, nth_error (hosts s) i = Some h -> h_load h = 0).
Proof. exact loads_nonnegative_and_zero_when_idle. Qed.
Print Assumptions loads_never_negative_zero_when_idle.

(* whatever the balance mode, a request (first attempt or retry) goes only to a host currently considered available *)
Theorem dispatch_only_to_available_hosts : forall bal hh s id base a i s',
  assign bal hh s id base a = (Dispatched i, s') -> active_at (hosts s) i = true.
Proof. exact dispatch_only_to_available. Qed.
Print Assumptions dispatch_only_to_available_hosts.

Theorem disabled_host_sits_out_its_disable_time : forall h t, h_active h = false -> t <= h_disabled_until h -> h_active (enable_if_due t h) = false.
Proof. exact disabled_host_sits_out. Qed.
Theorem disabled_host_is_used_again_afterwards : forall h t, h_disabled_until h < t -> h_active (enable_if_due t h) = true.
Proof. exact disabled_host_returns. Qed.
Print Assumptions disabled_host_is_used_again_afterwards.

(* non-vacuity: round-robin over three hosts, the second refuses: the request fails over, the host sits out two seconds *)
Example c11_nonvacuous :
  fst (run RoundRobin [] 2 (init 3)
         [Arrive 1 0; Finish 1; Arrive 2 0; ConnectFail 2 0; Finish 2; Arrive 3 0; Finish 3; Arrive 4 0; Finish 4; Tick; Tick; Tick; Arrive 5 0; Arrive 6 0])
  = [Dispatched 0; NoOutcome; Dispatched 1; Dispatched 2; NoOutcome; Dispatched 0; NoOutcome; Dispatched 2; NoOutcome; NoOutcome; NoOutcome; NoOutcome; Dispatched 0; Dispatched 1]%nat.
Proof. vm_compute. reflexivity. Qed.

(* ---------------------------------------------------------------- the choice itself (Pool/PoolLive.v) *)
From LV Require Import Pool.PoolLive.

(* while some host is available a request is dispatched, whatever the balance mode: nobody is refused for want of a host *)
Theorem a_request_is_dispatched_while_a_host_is_available : forall b s hh base,
  some_active (hosts s) -> (length (hosts s) <= length hh)%nat -> choose b s hh base <> None.
Proof. exact choose_finds_an_available_host. Qed.
Print Assumptions a_request_is_dispatched_while_a_host_is_available.

(* round-robin takes the first available host after the one used last; if there is none, the first available host from the start of the list
   (the host used last included); it gives up only when no host is available *)
Theorem round_robin_takes_the_next_available_host : forall hs last,
  let start := Z.to_nat (Z.max 0 (last + 1)) in
  match round_robin hs last with
  | Some i => active_at hs i = true /\
              ((start <= i)%nat /\ (forall j, (start <= j < i)%nat -> active_at hs j = false)
               \/ (forall j, (start <= j)%nat -> active_at hs j = false) /\ (forall j, (j < i)%nat -> active_at hs j = false))
  | None => forall j, active_at hs j = false
  end.
Proof. exact round_robin_spec. Qed.
Print Assumptions round_robin_takes_the_next_available_host.
