From Coq Require Import List String Bool.
From LV Require Import Gen.GenReset Reset.ResetModel.
Import ListNotations.
Open Scope string_scope.

Lemma mem_In x l : mem x l = true -> In x l.
Proof.
  induction l as [|y t IH]; cbn; [discriminate|]. intro H. apply orb_true_iff in H. destruct H as [H|H].
  - left. symmetry. apply String.eqb_eq. exact H.
  - right. apply IH. exact H.
Qed.

(* checked against the source of this run: no field of struct request_st is left out *)
Lemma coverage : all_fields_covered = true.
Proof. vm_compute. reflexivity. Qed.

(* Two request objects with arbitrary, different histories that agree on the connection-level fields are
   indistinguishable after the reset: whatever processes the next request sees the same object. *)
Theorem reset_erases_history (o1 o2 : obj) :
  (forall f, In f (map fst persistent) -> o1 f = o2 f) ->
  forall f, In f request_fields -> reset o1 f = reset o2 f.
Proof.
  intros Hp f Hf. unfold reset. destruct (mem f fields_reset_between_requests) eqn:E; [reflexivity|].
  apply Hp. pose proof coverage as C. unfold all_fields_covered in C. rewrite forallb_forall in C.
  specialize (C f Hf). unfold covered in C. rewrite E in C. cbn in C. apply mem_In. exact C.
Qed.

(* the sub-buffers of uri and physical are all cleared *)
Lemma subbuffers_all_reset :
  forallb (fun s => mem s subbuffers_reset)
          ["uri.scheme"; "uri.authority"; "uri.path"; "uri.query"; "physical.path"; "physical.basedir"; "physical.doc_root"; "physical.rel_path"] = true.
Proof. vm_compute. reflexivity. Qed.

Lemma one_parser_for_both_protocols : h1_uses_shared_header_parser && h2_uses_shared_header_parser = true.
Proof. vm_compute. reflexivity. Qed.
