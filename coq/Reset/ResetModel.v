(* Reset/ResetModel.v -- C08: between two requests on the same connection / recycled request object, every field of
   struct request_st is either re-initialised by request_reset() / request_reset_ex() / http_response_reset() /
   http_response_body_clear() / request_config_reset()  (Gen/GenReset.v, regenerated from the source on every run),
   or is one of the fields listed here that legitimately outlive a request, each with the reason.
   The request object is abstracted to a map from field names to values. *)
From Coq Require Import List String Bool.
From LV Require Import Gen.GenReset.
Import ListNotations.
Open Scope string_scope.

Definition persistent : list (string * string) := [
  ("state", "owned by the connection state machine, set before the next request is read");
  ("plugin_ctx", "per-plugin slots, released by each plugin's handle_request_reset hook");
  ("con", "the connection the request object belongs to");
  ("conditional_is_valid", "rebuilt by config_cond_cache_reset() in http_response_config()");
  ("cond_cache", "reset by config_cond_cache_reset() at the start of request processing");
  ("cond_match", "capture pointers, valid only with a cond_cache entry of the current request");
  ("cond_match_data", "storage for cond_match");
  ("conf", "overwritten from the configuration defaults by request_config_reset()");
  ("server_name_buf", "scratch buffer, cleared by its users before use");
  ("dst_addr", "client address: connection-level (re-pointed by mod_extforward per request and restored)");
  ("dst_addr_buf", "client address text: connection-level");
  ("tmp_buf", "server-wide scratch buffer");
  ("start_hp", "assigned when the next request starts");
  ("error_handler_saved_method", "meaningful only while error_handler_saved_status is non-zero, which is reset");
  ("read_queue", "HTTP/1.x: the connection's read queue, may already hold the next pipelined request; HTTP/2: reset on stream release");
  ("tmp_sce", "valid only within sequential code of one request");
  ("cond_captures", "valid only together with cond_match of the current request");
  ("h2_connect_ext", "reset in request_reset()")
].

Fixpoint mem (x : string) (l : list string) : bool :=
  match l with [] => false | y :: t => String.eqb x y || mem x t end.

Definition covered (f : string) : bool := mem f fields_reset_between_requests || mem f (map fst persistent).
Definition all_fields_covered : bool := forallb covered request_fields.

(* the request object, abstractly *)
Definition obj := string -> nat.
Definition reset (o : obj) : obj := fun f => if mem f fields_reset_between_requests then 0 else o f.
