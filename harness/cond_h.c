/* C14 harness: src/configfile-glue.c of the working tree on hand-built condition trees (the way src/t/test_configfile.c does).
 * line: <tree> ; <ops>
 *   tree tokens  n:<parent>:<prev>:<comp>:<op>:<hex operand>     node numbers are 1.. in order; prev = 0 none
 *        comp: 1 socket 2 url 3 host 8 remoteip 9 query 10 scheme 11 method (values of comp_key_t)
 *        op: 1 == 2 =~ 3 != 4 !~ 5 =^ 6 =$ 7 else (values of config_cond_t)
 *   ops  s:<comp>:<hex>  set attribute and config_cond_cache_reset_item(comp)
 *        S:<comp>:<hex>  set attribute only (before the first evaluation / before R)
 *        R               config_cond_cache_reset
 *        v:<mask>        r->conditional_is_valid
 *        c:<ndx>         config_check_cond -> prints 0/1
 *        P               evaluate every block in file order (what config_patch_config does) -> prints bitstring
 */
#include "hx.h"
#include "first.h"
#include "configfile-glue.c"
#include "fdlog.h"
#include "http_kv.h"
#include "base.h"
#include "sock_addr.h"

static data_config *mk(int ndx, int comp, int cond, const char *str, size_t n, log_error_st *errh) {
    data_config *dc = data_config_init();
    dc->context_ndx = ndx; dc->comp = (comp_key_t)comp; dc->cond = (config_cond_t)cond;
    buffer_copy_string(&dc->key, "k"); dc->comp_key = dc->key.ptr;
    buffer_copy_string_len(&dc->string, str, n);
    if (comp == COMP_HTTP_REMOTE_IP && (cond == CONFIG_COND_EQ || cond == CONFIG_COND_NE) && n && str[0] != '/') {
        /* what config_remoteip_normalize() leaves behind the string: mask bits and an aligned sock_addr */
        const char *slash = memchr(str, '/', n); unsigned long bits = slash ? strtoul(slash + 1, NULL, 10) : 0;
        uint32_t len = slash ? (uint32_t)(slash - str) : (uint32_t)n;
        char *after = buffer_string_prepare_append(&dc->string, 1 + 7 + 28);
        ++after; *(unsigned char *)after = (unsigned char)bits;
        sock_addr *addr = (sock_addr *)(((uintptr_t)after + 1 + 7) & ~7);
        char tmp[128]; memcpy(tmp, str, len); tmp[len] = 0;
        if (1 != sock_addr_inet_pton(addr, tmp, memchr(str, ':', n) ? AF_INET6 : AF_INET, 0)) return NULL;
    }
    if (cond == CONFIG_COND_MATCH || cond == CONFIG_COND_NOMATCH) { if (!data_config_pcre_compile(dc, 0, errh)) return NULL;
        dc->match_data = pcre2_match_data_create_from_pattern(dc->code, NULL); /*(what config_finalize() does)*/ }
    return dc;
}
static void add_child(data_config *parent, data_config *child) {
    child->parent = parent;
    if (parent->children.used == parent->children.size) {
        parent->children.size += 4;
        parent->children.data = realloc(parent->children.data, parent->children.size * sizeof(*parent->children.data));
    }
    parent->children.data[parent->children.used++] = child;
}
int main(void) {
    log_error_st *errh = fdlog_init(NULL, -1, FDLOG_FD);
    static request_st r; static connection con; static server_socket ss;
    memset(&r, 0, sizeof(r)); r.conf.errh = errh; r.con = &con; con.srv_socket = &ss;
    buffer *srv_token = buffer_init(); ss.srv_token = srv_token;
    buffer *dst = buffer_init(); r.dst_addr_buf = dst;
    while (hx_read()) {
        const data_config *all[300]; data_config *nodes[300];
        int nn = 1, t = 0;
        nodes[0] = mk(0, COMP_UNSET, CONFIG_COND_UNSET, "", 0, errh);
        for (; t < hx_ntok && hx_tok[t][0] == 'n'; ++t) {
            char *a[8]; int na = 0; char *s = hx_tok[t];
            while (na < 8) { a[na++] = s; s = strchr(s, ':'); if (!s) break; *s++ = 0; }
            size_t n; char *str = hx_dec(a[5], &n);
            data_config *dc = mk(nn, atoi(a[3]), atoi(a[4]), str ? str : "", n, errh);
            if (!dc) { nn = -1; break; }
            add_child(nodes[atoi(a[1])], dc);
            int pv = atoi(a[2]); if (pv) { dc->prev = nodes[pv]; nodes[pv]->next = dc; }
            nodes[nn++] = dc; free(str);
        }
        if (nn < 0) { puts("BADRE"); continue; }
        for (int i = 0; i < nn; ++i) all[i] = nodes[i];
        config_reference.data = all; config_reference.used = (uint32_t)nn;
        free(r.cond_cache); r.cond_cache = calloc((size_t)nn, sizeof(cond_cache_t));
        r.conditional_is_valid = ~0u;
        buffer_clear(&r.uri.authority); buffer_clear(&r.uri.path); buffer_clear(&r.uri.scheme); buffer_clear(&r.uri.query);
        buffer_clear(dst); buffer_clear(srv_token); r.http_method = HTTP_METHOD_GET;
        if (t < hx_ntok && hx_tok[t][0] == ';') ++t;
        int first = 1;
        for (; t < hx_ntok; ++t) {
            char *a[4]; int na = 0; char *s = hx_tok[t];
            while (na < 4) { a[na++] = s; s = strchr(s, ':'); if (!s) break; *s++ = 0; }
            if (a[0][0] == 's' || a[0][0] == 'S') {
                int comp = atoi(a[1]); size_t n; char *v = hx_dec(a[2], &n);
                buffer *b = comp == COMP_HTTP_URL ? &r.uri.path : comp == COMP_HTTP_HOST ? &r.uri.authority : comp == COMP_HTTP_SCHEME ? &r.uri.scheme
                          : comp == COMP_HTTP_QUERY_STRING ? &r.uri.query : comp == COMP_HTTP_REMOTE_IP ? dst : comp == COMP_SERVER_SOCKET ? srv_token : NULL;
                if (b) buffer_copy_string_len(b, v ? v : "", n);
                if (comp == COMP_HTTP_REMOTE_IP && v) { sock_addr_inet_pton(&con.dst_addr, v, strchr(v, ':') ? AF_INET6 : AF_INET, 0); r.dst_addr = &con.dst_addr; }
                free(v);
                if (a[0][0] == 's') config_cond_cache_reset_item(&r, (comp_key_t)comp);
            }
            else if (a[0][0] == 'R') config_cond_cache_reset(&r);
            else if (a[0][0] == 'v') r.conditional_is_valid = (uint32_t)strtoul(a[1], NULL, 10);
            else if (a[0][0] == 'c') { printf("%s%d", first ? "" : " ", config_check_cond(&r, atoi(a[1]))); first = 0; }
            else if (a[0][0] == 'P') { if (!first) putchar(' '); first = 0; for (int i = 1; i < nn; ++i) putchar('0' + config_check_cond(&r, i)); if (nn == 1) putchar('-'); }
        }
        if (first) putchar('-');
        putchar('\n');
        for (int i = 0; i < nn; ++i) { /* leak the nodes' regexes: short-lived process */ }
    }
    return 0;
}
