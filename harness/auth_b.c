/* C16 harness, backend half: src/mod_authn_file.c of the working tree ("plain" backend), its userfile set directly */
#include "first.h"
#include "mod_authn_file.c"
void *hb_init(void);
void hb_set_plain(void *p_d, const buffer *fn);
void *hb_init(void) { return mod_authn_file_init(); }
void hb_set_plain(void *p_d, const buffer *fn) { plugin_data *p = p_d; p->defaults.auth_plain_userfile = fn; p->nconfig = 0; }
