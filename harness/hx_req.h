/* harness/hx_req.h -- a fake request_st good enough for in-process calls (à la src/t/test_*.c) */
#ifndef HX_REQ_H
#define HX_REQ_H
#include "first.h"
#include "request.h"
#include "chunk.h"
#include "buffer.h"
#include "log.h"
#include "fdlog.h"
#include "http_header.h"
#include <unistd.h>

static void hx_req_init(request_st *r) {
    memset(r, 0, sizeof(*r));
    r->tmp_buf = buffer_init();
    r->conf.errh = fdlog_init(NULL, -1, FDLOG_FD); /* fd -1: log output discarded */
    r->resp_body_scratchpad = -1;
    chunkqueue_init(&r->write_queue);
    chunkqueue_init(&r->reqbody_queue);
    chunkqueue_init(&r->read_queue);
}
static void hx_req_reset(request_st *r) {
    r->http_status = 0; r->rqst_htags = 0; r->resp_htags = 0;
    array_reset_data_strings(&r->rqst_headers);
    array_reset_data_strings(&r->resp_headers);
    chunkqueue_reset(&r->write_queue);
    chunkqueue_reset(&r->reqbody_queue);
    chunkqueue_reset(&r->read_queue);
    r->write_queue.bytes_in = r->write_queue.bytes_out = 0;
}
/* dump a chunkqueue's content as hex (mem and file chunks) */
static void hx_put_cq(FILE *f, chunkqueue *cq) {
    size_t total = 0;
    static const char hc[] = "0123456789abcdef";
    for (chunk *c = cq->first; c; c = c->next) {
        if (c->type == MEM_CHUNK) {
            size_t n = buffer_clen(c->mem) - (size_t)c->offset;
            const unsigned char *p = (unsigned char *)c->mem->ptr + c->offset;
            for (size_t i = 0; i < n; ++i) { fputc(hc[p[i] >> 4], f); fputc(hc[p[i] & 15], f); }
            total += n;
        } else {
            off_t off = c->offset, end = c->file.length;
            unsigned char b[4096];
            while (off < end) {
                size_t want = (size_t)(end - off) < sizeof(b) ? (size_t)(end - off) : sizeof(b);
                ssize_t rd = pread(c->file.fd, b, want, off);
                if (rd <= 0) { fputs("!!", f); break; }
                for (ssize_t i = 0; i < rd; ++i) { fputc(hc[b[i] >> 4], f); fputc(hc[b[i] & 15], f); }
                off += rd; total += (size_t)rd;
            }
        }
    }
    if (!total) fputc('-', f);
}
#endif
