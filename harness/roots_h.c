/* C02/C20 harness: the URL-path -> filesystem-path mapping stages of the working tree, called in-process.
 *  A basedir path n k1 v1 ...            -> 403 | T <path> <basedir>            mod_alias_remap() (unchanged path/basedir when no alias matches)
 *  V sroot host|~ droot|~                -> <path>                              build_doc_root_path() (mod_simple_vhost)
 *  E pattern authority                   -> X | <path>                          mod_evhost_parse_pattern() + mod_evhost_build_doc_root_path()
 *  U active path|~ base letter ne e1.. ni|~ i1.. uri -> N | 301 | T <path> <basedir>   mod_userdir_docroot_handler()
 *  L name n p1 k1 ...                    -> -1 | 0 | 1                          stat_cache_path_contains_symlink() over a virtual lstat
 *                                           (k: L symlink, D/F other; unlisted paths: ENOENT)
 */
#include "hx.h"
#include "hx_req.h"
#include "base.h"
#include "plugin.h"
#include "response.h"
#include "stat_cache.h"
#include <sys/stat.h>
#include <errno.h>

/* ---- virtual lstat for stat_cache_path_contains_symlink ---- */
static int vl_n; static char *vl_path[4096]; static char vl_kind[4096];
int hx_lstat(const char *p, struct stat *st) {
    for (int i = 0; i < vl_n; ++i)
        if (0 == strcmp(p, vl_path[i])) {
            memset(st, 0, sizeof(*st));
            st->st_mode = vl_kind[i] == 'L' ? S_IFLNK | 0777 : vl_kind[i] == 'D' ? S_IFDIR | 0755 : S_IFREG | 0644;
            return 0;
        }
    errno = ENOENT;
    return -1;
}
#define lstat(p, st) hx_lstat((p), (st))
#include "stat_cache.c"
#undef lstat

#define plugin_config alias_plugin_config
#define plugin_data alias_plugin_data
#include "mod_alias.c"
#undef plugin_config
#undef plugin_data
#define plugin_config svh_plugin_config
#define plugin_data svh_plugin_data
#include "mod_simple_vhost.c"
#undef plugin_config
#undef plugin_data
#define plugin_config ev_plugin_config
#define plugin_data ev_plugin_data
#include "mod_evhost.c"
#undef plugin_config
#undef plugin_data
#define plugin_config ud_plugin_config
#define plugin_data ud_plugin_data
#include "mod_userdir.c"
#undef plugin_config
#undef plugin_data

static buffer *mkbuf(const char *tok) {
    size_t n; char *s = hx_dec(tok, &n);
    if (!s) return NULL;
    buffer *b = buffer_init();
    buffer_copy_string_len(b, s, n); free(s);
    return b;
}
static void setb(buffer *b, const char *tok) {
    size_t n; char *s = hx_dec(tok, &n);
    buffer_copy_string_len(b, s ? s : "", n); free(s);
}
static void putbuf(const buffer *b) { hx_put(stdout, b->ptr ? b->ptr : "", buffer_clen(b)); }

int main(void) {
    request_st r; hx_req_init(&r);
    connection con; memset(&con, 0, sizeof(con)); r.con = &con;
    static server srv; con.srv = &srv;
    while (hx_read()) {
        if (hx_ntok < 2) { puts("?"); continue; }
        hx_req_reset(&r);
        switch (hx_tok[0][0]) {
          case 'A': {
            setb(&r.physical.basedir, hx_tok[1]); setb(&r.physical.path, hx_tok[2]);
            int n = atoi(hx_tok[3]);
            array *a = array_init(4);
            for (int i = 0; i < n; ++i) {
                size_t kl, vl; char *k = hx_dec(hx_tok[4+2*i], &kl), *v = hx_dec(hx_tok[5+2*i], &vl);
                /* config order preserved: alias.url is a key-value list kept in insertion order in a->data */
                array_set_key_value(a, k, kl, v, vl); free(k); free(v);
            }
            handler_t rc = mod_alias_remap(&r, a);
            if (rc == HANDLER_FINISHED) printf("%d\n", r.http_status);
            else { fputs("T ", stdout); putbuf(&r.physical.path); putchar(' '); putbuf(&r.physical.basedir); putchar('\n'); }
            array_free(a);
            break; }
          case 'V': {
            buffer *sroot = mkbuf(hx_tok[1]), *host = mkbuf(hx_tok[2]), *droot = mkbuf(hx_tok[3]);
            buffer *out = buffer_init();
            build_doc_root_path(out, sroot, host, droot);
            putbuf(out); putchar('\n');
            buffer_free(out); buffer_free(sroot); if (host) buffer_free(host); if (droot) buffer_free(droot);
            break; }
          case 'E': {
            buffer *pat = mkbuf(hx_tok[1]), *auth = mkbuf(hx_tok[2]);
            buffer *pieces = mod_evhost_parse_pattern(pat->ptr);
            if (!pieces) puts("X");
            else {
                array *parsed = array_init(8);
                buffer *b = buffer_init();
                mod_evhost_build_doc_root_path(b, parsed, auth, pieces);
                putbuf(b); putchar('\n');
                buffer_free(b); array_free(parsed);
                mod_evhost_free_path_pieces(pieces);
            }
            buffer_free(pat); buffer_free(auth);
            break; }
          case 'U': {
            ud_plugin_data p; memset(&p, 0, sizeof(p));
            int k = 1;
            p.defaults.active = (unsigned short)atoi(hx_tok[k++]);
            p.defaults.path = mkbuf(hx_tok[k++]);
            p.defaults.basepath = mkbuf(hx_tok[k++]);
            p.defaults.letterhomes = (unsigned short)atoi(hx_tok[k++]);
            int ne = atoi(hx_tok[k++]);
            array *ex = array_init(4);
            for (int i = 0; i < ne; ++i) { size_t l; char *s = hx_dec(hx_tok[k++], &l); array_insert_value(ex, s, l); free(s); }
            p.defaults.exclude_user = ex;   /* an empty exclude list behaves like none */
            array *in = NULL;
            if (hx_tok[k][0] == '~') ++k;
            else { int ni = atoi(hx_tok[k++]); in = array_init(4);
                   for (int i = 0; i < ni; ++i) { size_t l; char *s = hx_dec(hx_tok[k++], &l); array_insert_value(in, s, l); free(s); } }
            p.defaults.include_user = in;
            setb(&r.uri.path, hx_tok[k]); setb(&r.physical.rel_path, hx_tok[k]);
            buffer_copy_string_len(&r.uri.scheme, CONST_STR_LEN("http"));
            buffer_copy_string_len(&r.uri.authority, CONST_STR_LEN("h.example"));
            buffer_copy_string_len(&r.target, CONST_STR_LEN("/"));
            buffer_clear(&r.physical.path); buffer_clear(&r.physical.basedir);
            handler_t rc = mod_userdir_docroot_handler(&r, &p);
            if (rc == HANDLER_FINISHED) printf("%d\n", r.http_status);
            else if (buffer_is_blank(&r.physical.path)) puts("N");
            else { fputs("T ", stdout); putbuf(&r.physical.path); putchar(' '); putbuf(&r.physical.basedir); putchar('\n'); }
            array_free(ex); if (in) array_free(in);
            break; }
          case 'L': {
            buffer *name = mkbuf(hx_tok[1]);
            for (int i = 0; i < vl_n; ++i) free(vl_path[i]);
            vl_n = atoi(hx_tok[2]);
            for (int i = 0; i < vl_n; ++i) { size_t l; vl_path[i] = hx_dec(hx_tok[3+2*i], &l); vl_kind[i] = hx_tok[4+2*i][0]; }
            printf("%d\n", stat_cache_path_contains_symlink(name, r.conf.errh));
            buffer_free(name);
            break; }
          default: puts("?");
        }
        fflush(stdout);
    }
    return 0;
}
