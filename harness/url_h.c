/* C02/C03 harness: the URL -> path pipeline of the working tree.
 *  T flags target        -> "400" | "0 <target'> <path> <query|~>"      http_request_parse_target()
 *  N flags target        -> "-2" | "<qs> <buf>"                          burl_normalize()
 *  S s / U s             -> buffer_path_simplify / buffer_urldecode_path
 *  J root rel            -> buffer_copy_path_len2
 */
#include "hx.h"
#include "hx_req.h"
#include "burl.h"
#include "http_kv.h"

int main(void) {
    request_st r;
    hx_req_init(&r);
    buffer *t = buffer_init();
    while (hx_read()) {
        size_t n, n2; char *s, *s2;
        switch (hx_tok[0][0]) {
          case 'T':
            s = hx_dec(hx_tok[2], &n);
            r.conf.http_parseopts = (unsigned int)strtoul(hx_tok[1], NULL, 10);
            r.http_method = HTTP_METHOD_GET; r.h2_connect_ext = 0;
            buffer_copy_string_len(&r.target, s, n);
            { int st = http_request_parse_target(&r, 80);
              if (st) printf("%d\n", st);
              else {
                  printf("0 "); hx_put(stdout, r.target.ptr, buffer_clen(&r.target)); putchar(' ');
                  hx_put(stdout, r.uri.path.ptr, buffer_clen(&r.uri.path)); putchar(' ');
                  if (buffer_is_unset(&r.uri.query) || (NULL == memchr(r.target.ptr, '?', buffer_clen(&r.target)))) {
                      /* distinguish "no query" from "empty query" via the normalized target */
                      if (NULL == memchr(r.target.ptr, '?', buffer_clen(&r.target))) putchar('~');
                      else hx_put(stdout, r.uri.query.ptr, buffer_clen(&r.uri.query));
                  } else hx_put(stdout, r.uri.query.ptr, buffer_clen(&r.uri.query));
                  putchar('\n');
              } }
            free(s); break;
          case 'N':
            s = hx_dec(hx_tok[2], &n);
            buffer_copy_string_len(&r.target, s, n);
            { int qs = burl_normalize(&r.target, t, (int)strtoul(hx_tok[1], NULL, 10));
              if (qs == -2) puts("-2");
              else { printf("%d ", qs); hx_put(stdout, r.target.ptr, buffer_clen(&r.target)); putchar('\n'); } }
            free(s); break;
          case 'S': case 'U':
            s = hx_dec(hx_tok[1], &n);
            buffer_copy_string_len(t, s, n);
            if (hx_tok[0][0] == 'S') buffer_path_simplify(t); else buffer_urldecode_path(t);
            hx_put(stdout, t->ptr, buffer_clen(t)); putchar('\n');
            free(s); break;
          case 'J':
            s = hx_dec(hx_tok[1], &n); s2 = hx_dec(hx_tok[2], &n2);
            buffer_copy_path_len2(t, s, n, s2, n2);
            hx_put(stdout, t->ptr, buffer_clen(t)); putchar('\n');
            free(s); free(s2); break;
          default: puts("?");
        }
    }
    return 0;
}
