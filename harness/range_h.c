/* C15 harness: drives the real http_range_rfc7233() (and http_range_parse()) of the working tree.
 * in : R flags status meth ar range ifr etag lmod ctype content layout
 *      P len hexrange
 * out: status cr ctype clen body      |   n a-b a-b ...
 * plus a consistency check chunkqueue_length == emitted body bytes (reported as LENERR). */
#include "hx.h"
#include "hx_req.h"
#include "http_range.c"
#include "http_date.h"
#include "http_etag.h"
#include "response.h"
#include "log.h"
#include <fcntl.h>

static void set_rq(request_st *r, enum http_header_e id, const char *k, size_t kl, const char *t) {
    size_t n; char *v = hx_dec(t, &n);
    if (v) { http_header_request_set(r, id, k, kl, v, n); free(v); }
}
static void set_rs(request_st *r, enum http_header_e id, const char *k, size_t kl, const char *t) {
    size_t n; char *v = hx_dec(t, &n);
    if (v) { http_header_response_set(r, id, k, kl, v, n); free(v); }
}
static void put_rs(request_st *r, enum http_header_e id, const char *k, size_t kl) {
    const buffer *b = http_header_response_get(r, id, k, kl);
    if (b) hx_put(stdout, b->ptr, buffer_clen(b)); else fputc('~', stdout);
}

int main(void) {
    request_st r;
    hx_req_init(&r);
    chunkqueue_set_tempdirs_default(NULL, 0);
    char tmpl[] = "/var/tmp/lv_range_XXXXXX";
    int fd = mkstemp(tmpl); unlink(tmpl);
    buffer *fn = buffer_init(); buffer_copy_string_len(fn, CONST_STR_LEN("lvfile"));
    while (hx_read()) {
        if (hx_ntok >= 3 && hx_tok[0][0] == 'P') {
            off_t ranges[RMAX*2 + 4];
            size_t n; char *s = hx_dec(hx_tok[2], &n);
            int cnt = http_range_parse(s, (off_t)atoll(hx_tok[1]), ranges);
            printf("%d", cnt / 2);
            for (int i = 0; i < cnt; i += 2) printf(" %lld-%lld", (long long)ranges[i], (long long)ranges[i+1]);
            putchar('\n'); free(s);
            continue;
        }
        if (hx_ntok >= 3 && hx_tok[0][0] == 'D') {
            /* D <lmtime> <hex If-Modified-Since>  ->  0 (not modified since) | 1 (modified since, or unparsable date) */
            size_t n; char *v = hx_dec(hx_tok[2], &n);
            log_epoch_secs = 1700000000; /*(RFC 850 two-digit-year pivot: 2023)*/
            printf("%d\n", http_date_if_modified_since(v ? v : "", (uint32_t)n, (unix_time64_t)atoll(hx_tok[1])));
            free(v);
            continue;
        }
        if (hx_ntok >= 4 && hx_tok[0][0] == 'M') {
            /* M <weak_ok> <hex etag> <hex field value>  ->  http_etag_matches() */
            size_t n; char *e = hx_dec(hx_tok[2], &n);
            buffer *eb = buffer_init(); if (e) buffer_copy_string_len(eb, e, n);
            size_t vn; char *v = hx_dec(hx_tok[3], &vn);
            printf("%d\n", http_etag_matches(eb, v ? v : "", hx_tok[1][0] == '1'));
            buffer_free(eb); free(e); free(v);
            continue;
        }
        if (hx_ntok >= 7 && hx_tok[0][0] == 'E') {
            /* E <method 1=GET 2=HEAD 0=POST><range?> <If-None-Match> <If-Modified-Since> <ETag> <Last-Modified> <lmtime>
               -> status set by http_response_handle_cachable() (304 / 412) or 0 when it says go on */
            hx_req_reset(&r);
            const char *fl = hx_tok[1];
            r.http_method = fl[0] == '1' ? HTTP_METHOD_GET : fl[0] == '2' ? HTTP_METHOD_HEAD : HTTP_METHOD_POST;
            if (fl[1] == '1') http_header_request_set(&r, HTTP_HEADER_RANGE, CONST_STR_LEN("Range"), CONST_STR_LEN("bytes=0-1"));
            set_rq(&r, HTTP_HEADER_IF_NONE_MATCH, CONST_STR_LEN("If-None-Match"), hx_tok[2]);
            set_rq(&r, HTTP_HEADER_IF_MODIFIED_SINCE, CONST_STR_LEN("If-Modified-Since"), hx_tok[3]);
            set_rs(&r, HTTP_HEADER_ETAG, CONST_STR_LEN("ETag"), hx_tok[4]);
            set_rs(&r, HTTP_HEADER_LAST_MODIFIED, CONST_STR_LEN("Last-Modified"), hx_tok[5]);
            log_epoch_secs = 1700000000;
            const buffer *lm = http_header_response_get(&r, HTTP_HEADER_LAST_MODIFIED, CONST_STR_LEN("Last-Modified"));
            handler_t h = http_response_handle_cachable(&r, lm, (unix_time64_t)atoll(hx_tok[6]));
            printf("%d\n", h == HANDLER_FINISHED ? r.http_status : 0);
            continue;
        }
        if (hx_ntok < 12 || hx_tok[0][0] != 'R') { puts("?"); continue; }
        hx_req_reset(&r);
        const char *fl = hx_tok[1];
        r.resp_body_finished = fl[0] == '1';
        r.http_version = fl[1] == '1' ? HTTP_VERSION_1_1 : HTTP_VERSION_1_0;
        http_range_config_allow_http10(fl[2] == '1');
        if (fl[3] == '1') http_header_response_set(&r, HTTP_HEADER_CONTENT_ENCODING, CONST_STR_LEN("Content-Encoding"), CONST_STR_LEN("gzip"));
        r.http_status = atoi(hx_tok[2]);
        int m = atoi(hx_tok[3]);
        r.http_method = m == 0 ? HTTP_METHOD_GET : m == 1 ? HTTP_METHOD_HEAD : HTTP_METHOD_POST;
        set_rs(&r, HTTP_HEADER_ACCEPT_RANGES, CONST_STR_LEN("Accept-Ranges"), hx_tok[4]);
        set_rq(&r, HTTP_HEADER_RANGE, CONST_STR_LEN("Range"), hx_tok[5]);
        set_rq(&r, HTTP_HEADER_IF_RANGE, CONST_STR_LEN("If-Range"), hx_tok[6]);
        set_rs(&r, HTTP_HEADER_ETAG, CONST_STR_LEN("ETag"), hx_tok[7]);
        set_rs(&r, HTTP_HEADER_LAST_MODIFIED, CONST_STR_LEN("Last-Modified"), hx_tok[8]);
        set_rs(&r, HTTP_HEADER_CONTENT_TYPE, CONST_STR_LEN("Content-Type"), hx_tok[9]);
        size_t clen; char *content = hx_dec(hx_tok[10], &clen);
        /* layout: m = one memory chunk, M<k> = memory chunks of k bytes, f = one file chunk, F<k> = file chunks of k bytes */
        const char *lay = hx_tok[11];
        size_t step = lay[1] ? (size_t)atoi(lay + 1) : 0;
        if (clen) {
            if (lay[0] == 'm' || lay[0] == 'M') {
                if (!step) chunkqueue_append_mem(&r.write_queue, content, clen);
                else for (size_t o = 0; o < clen; o += step) {
                    chunkqueue_append_mem_min(&r.write_queue, content + o, clen - o < step ? clen - o : step);
                    /* force separate chunks */
                    if (o + step < clen) { buffer *b = chunkqueue_append_buffer_open_sz(&r.write_queue, 1); (void)b; chunkqueue_append_buffer_commit(&r.write_queue); }
                }
            } else {
                if (ftruncate(fd, 0) != 0 || pwrite(fd, content, clen, 0) != (ssize_t)clen) { puts("IOERR"); continue; }
                if (!step) chunkqueue_append_file_fd(&r.write_queue, fn, dup(fd), 0, (off_t)clen);
                else for (size_t o = 0; o < clen; o += step)
                    chunkqueue_append_file_fd(&r.write_queue, fn, dup(fd), (off_t)o, (off_t)(clen - o < step ? clen - o : step));
            }
        }
        int st = http_range_rfc7233(&r);
        printf("%d ", st == r.http_status ? st : -1);
        put_rs(&r, HTTP_HEADER_CONTENT_RANGE, CONST_STR_LEN("Content-Range")); putchar(' ');
        put_rs(&r, HTTP_HEADER_CONTENT_TYPE, CONST_STR_LEN("Content-Type")); putchar(' ');
        put_rs(&r, HTTP_HEADER_CONTENT_LENGTH, CONST_STR_LEN("Content-Length")); putchar(' ');
        off_t qlen = chunkqueue_length(&r.write_queue);
        hx_put_cq(stdout, &r.write_queue);
        /* accounting must agree with the bytes present */
        off_t real = 0;
        for (chunk *c = r.write_queue.first; c; c = c->next)
            real += (c->type == MEM_CHUNK ? (off_t)buffer_clen(c->mem) : c->file.length) - c->offset;
        if (real != qlen) printf(" LENERR:%lld!=%lld", (long long)qlen, (long long)real);
        putchar('\n');
        free(content);
    }
    return 0;
}
