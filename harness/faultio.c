/* harness/faultio.c -- LD_PRELOAD shim for the real lighttpd: scripted short writes, EAGAIN and EINTR on socket writes
 * (write, writev, sendfile, send).  Deterministic: FAULTIO_SEED seeds a xorshift generator, FAULTIO_RATE is the per-call
 * fault probability in percent.  Only sockets are touched (log files, pipes to CGI are left alone).
 * cc -shared -fPIC -O1 -o faultio.so faultio.c -ldl */
#define _GNU_SOURCE
#include <dlfcn.h>
#include <errno.h>
#include <stdint.h>
#include <stdio.h>
#include <stdlib.h>
#include <string.h>
#include <sys/sendfile.h>
#include <sys/socket.h>
#include <sys/stat.h>
#include <sys/uio.h>
#include <unistd.h>

static uint64_t st; static int rate = -1;
static void init(void) {
    const char *s = getenv("FAULTIO_SEED"), *r = getenv("FAULTIO_RATE");
    st = s ? strtoull(s, NULL, 10) * 2654435761u + 88172645463325252ull : 88172645463325252ull;
    rate = r ? atoi(r) : 0;
}
static uint64_t rnd(void) { st ^= st << 13; st ^= st >> 7; st ^= st << 17; return st; }
static int is_sock(int fd) { struct stat sb; return 0 == fstat(fd, &sb) && S_ISSOCK(sb.st_mode); }
/* regular files whose path contains FAULTIO_FILE_SUBSTR: short writes and ENOSPC at FAULTIO_FILE_RATE percent */
static int file_fault(int fd) {
    static const char *sub; static int frate = -1;
    if (frate < 0) { sub = getenv("FAULTIO_FILE_SUBSTR"); const char *r = getenv("FAULTIO_FILE_RATE"); frate = (sub && r) ? atoi(r) : 0; if (rate < 0) init(); }
    if (!frate) return 0;
    struct stat sb; if (0 != fstat(fd, &sb) || !S_ISREG(sb.st_mode)) return 0;
    char lnk[64], path[512]; snprintf(lnk, sizeof(lnk), "/proc/self/fd/%d", fd);
    ssize_t n = readlink(lnk, path, sizeof(path) - 1); if (n <= 0) return 0; path[n] = 0;
    if (!strstr(path, sub)) return 0;
    if ((int)(rnd() % 100) >= frate) return 0;
    return (rnd() % 3) ? 3 : 4;   /* 3: short, 4: ENOSPC */
}
/* 0: no fault, 1: EAGAIN, 2: EINTR, 3: short */
static int pick(int fd) {
    if (rate < 0) init();
    if (rate == 0 || !is_sock(fd)) return 0;
    if ((int)(rnd() % 100) >= rate) return 0;
    uint64_t k = rnd() % 10;
    return k < 2 ? 1 : k < 3 ? 2 : 3;
}
static size_t shorten(size_t n) { return n <= 1 ? n : 1 + (size_t)(rnd() % (n - 1 < 4096 && (rnd() & 1) ? n - 1 : (n - 1 < 17 ? n - 1 : 16))); }

ssize_t write(int fd, const void *buf, size_t n) {
    static ssize_t (*real)(int, const void *, size_t);
    if (!real) real = dlsym(RTLD_NEXT, "write");
    switch (file_fault(fd)) {
      case 3: n = shorten(n); return real(fd, buf, n);
      case 4: errno = ENOSPC; return -1;
    }
    switch (pick(fd)) {
      case 1: errno = EAGAIN; return -1;
      case 2: errno = EINTR; return -1;
      case 3: n = shorten(n); break;
    }
    return real(fd, buf, n);
}
ssize_t send(int fd, const void *buf, size_t n, int flags) {
    static ssize_t (*real)(int, const void *, size_t, int);
    if (!real) real = dlsym(RTLD_NEXT, "send");
    switch (pick(fd)) {
      case 1: errno = EAGAIN; return -1;
      case 2: errno = EINTR; return -1;
      case 3: n = shorten(n); break;
    }
    return real(fd, buf, n, flags);
}
ssize_t writev(int fd, const struct iovec *iov, int cnt) {
    static ssize_t (*real)(int, const struct iovec *, int);
    if (!real) real = dlsym(RTLD_NEXT, "writev");
    switch (pick(fd)) {
      case 1: errno = EAGAIN; return -1;
      case 2: errno = EINTR; return -1;
      case 3: {
        size_t total = 0; for (int i = 0; i < cnt; ++i) total += iov[i].iov_len;
        size_t want = shorten(total);
        struct iovec v[64]; int k = 0;
        for (int i = 0; i < cnt && k < 64 && want; ++i) {
            v[k] = iov[i];
            if (v[k].iov_len > want) v[k].iov_len = want;
            want -= v[k].iov_len; ++k;
        }
        if (k) return real(fd, v, k);
      }
    }
    return real(fd, iov, cnt);
}
ssize_t sendfile(int out, int in, off_t *off, size_t n) {
    static ssize_t (*real)(int, int, off_t *, size_t);
    if (!real) real = dlsym(RTLD_NEXT, "sendfile");
    switch (pick(out)) {
      case 1: errno = EAGAIN; return -1;
      case 2: errno = EINTR; return -1;
      case 3: n = shorten(n); break;
    }
    return real(out, in, off, n);
}
ssize_t sendfile64(int out, int in, off_t *off, size_t n) { return sendfile(out, in, off, n); }
