/* C20 harness: template/modifier machinery of the working tree (real PCRE2).
 *  B flags pre tail len                              -> <buf>        burl_append(b=pre, tail, len, flags)
 *  S tmpl subject caps cv|~ ccaps scheme auth port path query|~ -> <buf>  pcre_keyvalue_buffer_subst with a synthetic match context
 *  P input scheme auth port query|~ n re1 t1 ...     -> "<rc> <m> <res> ; <outcome>..."   pcre_keyvalue_buffer_process
 *  R target repeat_idx auth port n re1 t1 ...        -> "<rc> <k> <target> ; <call1 outcomes> / <call2 outcomes> ..." process_rewrite_rules loop
 * caps: "-" none, else "s.e,s.e,..."; outcome: N | E | M<caps>
 */
#include "hx.h"
#include "hx_req.h"
#include "burl.h"
#include "http_kv.h"
#include "sock_addr.h"
#include "keyvalue.c"
#include "mod_rewrite.c"

static size_t parse_caps(const char *t, PCRE2_SIZE *ov, size_t max) {
    size_t n = 0;
    if (t[0] == '-') return 0;
    while (*t && n < max) {
        char *e;
        ov[2*n] = strtoul(t, &e, 10); t = e + 1;
        ov[2*n+1] = strtoul(t, &e, 10); t = (*e == ',') ? e + 1 : e;
        ++n;
    }
    return n;
}
static buffer *mkbuf(const char *tok) {
    size_t n; char *s = hx_dec(tok, &n);
    buffer *b = buffer_init();
    if (s) { buffer_copy_string_len(b, s, n); free(s); }
    return b;
}
static void put_outcome(int n, PCRE2_SIZE *ov) {
    if (n == PCRE2_ERROR_NOMATCH) { putchar('N'); return; }
    if (n < 0) { putchar('E'); return; }
    putchar('M');
    for (int i = 0; i < n; ++i) {
        if (ov[2*i] == PCRE2_UNSET) printf("%s0.0", i ? "," : "");
        else printf("%s%zu.%zu", i ? "," : "", (size_t)ov[2*i], (size_t)ov[2*i+1]);
    }
}
static pcre_keyvalue_buffer *mkrules(log_error_st *errh, int n, char **tok) {
    pcre_keyvalue_buffer *kvb = pcre_keyvalue_buffer_init();
    for (int i = 0; i < n; ++i) {
        buffer *k = mkbuf(tok[2*i]), *v = mkbuf(tok[2*i+1]);
        if (!pcre_keyvalue_buffer_append(errh, kvb, k, v, 0)) return NULL;
    }
    return kvb;
}
/* outcomes of every rule up to and including the first that does not say NOMATCH */
static void trace_rules(pcre_keyvalue_buffer *kvb, const buffer *input) {
    for (uint32_t i = 0; i < kvb->used; ++i) {
        pcre_keyvalue *kv = kvb->kv + i;
        pcre2_match_data *md = pcre2_match_data_create(20, NULL);
        int n = pcre2_match(kv->code, (PCRE2_SPTR)BUF_PTR_LEN(input), 0, 0, md, NULL);
        putchar(' ');
        put_outcome(n, pcre2_get_ovector_pointer(md));
        pcre2_match_data_free(md);
        if (n != PCRE2_ERROR_NOMATCH) break;
    }
}

int main(void) {
    request_st r; connection con; server_socket ss; plugin_data pd;
    hx_req_init(&r);
    memset(&con, 0, sizeof(con)); memset(&ss, 0, sizeof(ss)); memset(&pd, 0, sizeof(pd));
    r.con = &con; con.srv_socket = &ss;
    r.plugin_ctx = calloc(4, sizeof(void *));
    pd.id = 0;
    while (hx_read()) {
        size_t n, n2; char *s, *s2;
        switch (hx_tok[0][0]) {
          case 'B': {
            buffer *b = mkbuf(hx_tok[2]);
            buffer *tail = mkbuf(hx_tok[3]);
            burl_append(b, tail->ptr ? tail->ptr : "", (size_t)strtoul(hx_tok[4], NULL, 10), (int)strtol(hx_tok[1], NULL, 10));
            hx_put(stdout, b->ptr, buffer_clen(b)); putchar('\n');
            buffer_free(b); buffer_free(tail);
            break; }
          case 'S': {
            buffer *tmpl = mkbuf(hx_tok[1]), *subj = mkbuf(hx_tok[2]);
            PCRE2_SIZE ov[64], cov[64];
            pcre_keyvalue_ctx ctx; struct burl_parts_t burl; cond_match_t cm;
            memset(&ctx, 0, sizeof(ctx));
            ctx.n = (int)parse_caps(hx_tok[3], ov, 32); ctx.ovec = ov; ctx.subject = subj->ptr ? subj->ptr : "";
            buffer *cv = NULL;
            if (hx_tok[4][0] != '~') {
                cv = mkbuf(hx_tok[4]);
                if (!cv->ptr) buffer_copy_string_len(cv, "", 0);
                cm.comp_value = cv; cm.captures = (int)parse_caps(hx_tok[5], cov, 32); cm.matches = cov;
                ctx.cache = &cm;
            }
            buffer *sch = mkbuf(hx_tok[6]), *au = mkbuf(hx_tok[7]), *pa = mkbuf(hx_tok[9]);
            buffer *q = (hx_tok[10][0] == '~') ? NULL : mkbuf(hx_tok[10]);
            if (q && !q->ptr) buffer_copy_string_len(q, "", 0);
            if (!pa->ptr) buffer_copy_string_len(pa, "", 0);
            burl.scheme = sch; burl.authority = au; burl.port = (unsigned short)strtoul(hx_tok[8], NULL, 10);
            burl.path = pa; burl.query = q; ctx.burl = &burl;
            buffer *res = buffer_init();
            if (!tmpl->ptr) buffer_copy_string_len(tmpl, "", 0);
            pcre_keyvalue_buffer_subst(res, tmpl, &ctx);
            hx_put(stdout, res->ptr, buffer_clen(res)); putchar('\n');
            buffer_free(res); buffer_free(tmpl); buffer_free(subj); if (cv) buffer_free(cv);
            buffer_free(sch); buffer_free(au); buffer_free(pa); if (q) buffer_free(q);
            break; }
          case 'P': {
            buffer *in = mkbuf(hx_tok[1]);
            if (!in->ptr) buffer_copy_string_len(in, "", 0);
            buffer *sch = mkbuf(hx_tok[2]), *au = mkbuf(hx_tok[3]);
            buffer *q = (hx_tok[5][0] == '~') ? NULL : mkbuf(hx_tok[5]);
            if (q && !q->ptr) buffer_copy_string_len(q, "", 0);
            int nr = atoi(hx_tok[6]);
            pcre_keyvalue_buffer *kvb = mkrules(r.conf.errh, nr, hx_tok + 7);
            if (!kvb) { puts("BADRE"); break; }
            pcre_keyvalue_ctx ctx; struct burl_parts_t burl;
            memset(&ctx, 0, sizeof(ctx)); ctx.m = -1;
            burl.scheme = sch; burl.authority = au; burl.port = (unsigned short)strtoul(hx_tok[4], NULL, 10);
            burl.path = in; burl.query = q; ctx.burl = &burl;
            buffer *res = buffer_init();
            handler_t rc = pcre_keyvalue_buffer_process(kvb, &ctx, in, res);
            printf("%s %d ", rc == HANDLER_GO_ON ? "GOON" : rc == HANDLER_FINISHED ? "FIN" : "ERR", rc == HANDLER_ERROR ? -1 : ctx.m);
            if (rc == HANDLER_FINISHED) hx_put(stdout, res->ptr, buffer_clen(res)); else putchar('~');
            printf(" ;");
            trace_rules(kvb, in);
            putchar('\n');
            break; }
          case 'R': {
            buffer *tg = mkbuf(hx_tok[1]);
            if (!tg->ptr) buffer_copy_string_len(tg, "", 0);
            buffer_copy_buffer(&r.target, tg);
            int rep = atoi(hx_tok[2]);
            buffer *au = mkbuf(hx_tok[3]);
            buffer_copy_string_len(&r.uri.scheme, "http", 4);
            buffer_copy_buffer(&r.uri.authority, au);
            r.server_name = au;
            sock_addr_inet_pton(&ss.addr, "127.0.0.1", AF_INET, (unsigned short)strtoul(hx_tok[4], NULL, 10));
            int nr = atoi(hx_tok[5]);
            pcre_keyvalue_buffer *kvb = mkrules(r.conf.errh, nr, hx_tok + 6);
            if (!kvb) { puts("BADRE"); break; }
            kvb->x0 = 0; kvb->x1 = rep; kvb->cfgidx = 0;
            r.plugin_ctx[0] = NULL;
            char trace[1 << 16]; size_t tl = 0;
            handler_t rc; int k = 0;
            FILE *save = stdout;
            /* per call: outcomes as the rules see the current target */
            static char tbuf[1 << 18]; FILE *tf = fmemopen(tbuf, sizeof(tbuf), "w");
            do {
                /* what http_request_parse_target() does to uri.query on every (re)start */
                const char *qm = memchr(r.target.ptr, '?', buffer_clen(&r.target));
                if (qm) buffer_copy_string_len(&r.uri.query, qm + 1, buffer_clen(&r.target) - (size_t)(qm + 1 - r.target.ptr));
                else buffer_clear(&r.uri.query);
                uintptr_t h = (uintptr_t)r.plugin_ctx[0];
                int will_match = !(h && ((((h + 1) & 0x1FF) > 100) || ((h + 1) & REWRITE_STATE_FINISHED)));
                stdout = tf;
                if (k) fputs(" /", tf);
                if (will_match) trace_rules(kvb, &r.target); else fputs(" -", tf);
                stdout = save;
                rc = process_rewrite_rules(&r, &pd, kvb);
                if (rc == HANDLER_COMEBACK) ++k;
            } while (rc == HANDLER_COMEBACK && k < 400);
            fclose(tf);
            printf("%s %d ", rc == HANDLER_GO_ON ? "GOON" : rc == HANDLER_COMEBACK ? "COMEBACK" : "ERR", k);
            hx_put(stdout, r.target.ptr, buffer_clen(&r.target));
            printf(" ;%s\n", tbuf);
            break; }
          default: puts("?");
        }
    }
    return 0;
}
