/* C04 harness: the real buffer_append_string_encoded(ENCODING_REL_URI) and http_response_redirect_to_directory().
 * in : N <hex bytes>                                         -> hex of the encoded string
 *      L <absolute 0|1> <hex scheme> <hex authority> <hex uri.path> <hex uri.query>
 *                                                            -> hex of the Location value set by http_response_redirect_to_directory(r, 301) */
#include "hx.h"
#include "hx_req.h"
#include "buffer.h"
#include "http_header.h"
#include "response.h"
#include "base.h"

int main(void) {
    request_st r;
    static connection con; static server srv;
    hx_req_init(&r);
    r.con = &con; con.srv = &srv; con.fd = -1;
    buffer *b = buffer_init();
    while (hx_read()) {
        if (hx_ntok >= 2 && hx_tok[0][0] == 'N') {
            size_t n; char *s = hx_dec(hx_tok[1], &n);
            buffer_clear(b);
            buffer_append_string_encoded(b, s ? s : "", n, ENCODING_REL_URI);
            hx_put(stdout, b->ptr, buffer_clen(b)); putchar('\n');
            free(s);
            continue;
        }
        if (hx_ntok >= 6 && hx_tok[0][0] == 'L') {
            hx_req_reset(&r);
            r.con->srv->srvconf.absolute_dir_redirect = (hx_tok[1][0] == '1');
            size_t n; char *s;
            s = hx_dec(hx_tok[2], &n); buffer_copy_string_len(&r.uri.scheme, s ? s : "", n); free(s);
            s = hx_dec(hx_tok[3], &n); buffer_copy_string_len(&r.uri.authority, s ? s : "", n); free(s);
            s = hx_dec(hx_tok[4], &n); buffer_copy_string_len(&r.uri.path, s ? s : "", n); free(s);
            s = hx_dec(hx_tok[5], &n); buffer_copy_string_len(&r.uri.query, s ? s : "", n); free(s);
            if (0 != http_response_redirect_to_directory(&r, 301)) { puts("ERR"); continue; }
            const buffer *v = http_header_response_get(&r, HTTP_HEADER_LOCATION, CONST_STR_LEN("Location"));
            if (v) hx_put(stdout, v->ptr, buffer_clen(v)); else fputs("~", stdout);
            putchar('\n');
            continue;
        }
        puts("?");
    }
    return 0;
}
