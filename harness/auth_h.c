/* C16 harness: src/mod_auth.c (+ mod_auth_api.c, mod_authn_file.c, base64.c, ck.c, algo_splaytree.c) of the working tree.
 * One history per line.  Tokens (byte strings hex, "~" absent):
 *   rule:<path>:<method>:<realm>:<require>:<algorithm|~>:<nonce-secret|~>   auth.require entries, in order (first tokens)
 *   cache:<max-age>                                                          auth.cache = ("max-age" => n)
 *   db:<file content>            rewrite the plain userfile
 *   dba:<userref>:<pw>           append "user:pw" to the userfile
 *   t:<n>                        n seconds pass (both clocks); mod_auth_periodic runs every second
 *   sk:<d>                       wall clock jumps by d seconds
 *   q:<method>:<path>:<target>:<Authorization|~>      a request through mod_auth_uri_handler
 *   qb:<path>:<userref>:<pw>     GET with Authorization: Basic base64(user:pw)
 *   coll:<rule index>            find two distinct 4-char user names whose cache keys collide under that rule -> $A $B
 * userref: hex, or $A / $B.
 * Output: "seeds=<s0,s1,..>" then per q/qb: P | S:<user>:<auth type>[:ni=<hex>] | 401:<WWW-Authenticate> | 400 | E<rc>:<status>,
 *         per coll: C:<hexA>:<hexB>;  after the last op "cache=<n>" (entries left in the cache). */
#include "hx.h"
#include "hx_req.h"
#include "first.h"
#include "mod_auth.c"
#include "http_kv.h"
#include "base64.h"
#include "algo_md.h"

void *hb_init(void);
void hb_set_plain(void *p_d, const buffer *fn);

static char colA[8], colB[8];
static const char *userref(const char *t, size_t *len) {
    if (t[0] == '$') { *len = 4; return t[1] == 'A' ? colA : colB; }
    return hx_dec(t, len);
}
static int split(char *s, char **a, int max) { int n = 0; while (n < max) { a[n++] = s; s = strchr(s, ':'); if (!s) break; *s++ = 0; } return n; }

struct hk { uint32_t h; uint32_t i; };
static int hkcmp(const void *a, const void *b) { const struct hk *x = a, *y = b; return x->h < y->h ? -1 : x->h > y->h ? 1 : (x->i < y->i ? -1 : 1); }
static void name_of(uint32_t i, char *o) { static const char al[] = "abcdefghijklmnopqrstuvwxyz0123456789"; for (int k = 3; k >= 0; --k) { o[k] = al[i % 36]; i /= 36; } o[4] = 0; }
static int find_collision(const http_auth_require_t *rq, uint32_t skip) {
    enum { NN = 400000 };
    static struct hk tab[NN];
    for (uint32_t i = 0; i < NN; ++i) { char nm[8]; name_of(i * 4 + 1, nm); tab[i].h = (uint32_t)http_auth_cache_hash(rq, nm, 4); tab[i].i = i * 4 + 1; }
    qsort(tab, NN, sizeof(tab[0]), hkcmp);
    for (uint32_t i = 0; i + 1 < NN; ++i)
        if (tab[i].h == tab[i+1].h) { if (skip) { --skip; continue; } name_of(tab[i].i, colA); name_of(tab[i+1].i, colB); return 1; }
    return 0;
}
static int count_nodes(splay_tree *t) { return t ? 1 + count_nodes(t->left) + count_nodes(t->right) : 0; }

int main(void) {
    static request_st r; static connection con;
    hx_req_init(&r); r.con = &con;
    buffer *dst = buffer_init(); buffer_copy_string(dst, "127.0.0.1"); r.dst_addr_buf = dst;
    plugin_data *p = mod_auth_init();
    void *bp = hb_init();
    buffer *bk = buffer_init(); buffer_copy_string(bk, "plain");
    const char *td = getenv("TMPDIR"); if (!td) td = "/var/tmp";
    buffer *ufile = buffer_init(); buffer_copy_string(ufile, td); buffer_append_string(ufile, "/auth_plain_");
    buffer_append_int(ufile, (intmax_t)getpid()); buffer_append_string(ufile, ".user");
    hb_set_plain(bp, ufile);
    buffer *dbtxt = buffer_init();
    while (hx_read()) {
        array *value = array_init(4), *opts = NULL; array *areq = array_init(4); http_auth_cache *ac = NULL;
        config_plugin_value_t cvlist[3]; memset(cvlist, 0, sizeof(cvlist));
        int t = 0, bad = 0;
        for (; t < hx_ntok; ++t) {
            char *a[8]; 
            if (0 == strncmp(hx_tok[t], "rule:", 5)) {
                int na = split(hx_tok[t] + 5, a, 8); if (na < 6) { bad = 1; break; }
                size_t n; char *s;
                data_array *da = array_data_array_init();
                s = hx_dec(a[0], &n); buffer_copy_string_len(&da->key, s, n); free(s);
                static const char *keys[] = { "method", "realm", "require", "algorithm", "nonce-secret" };
                for (int k = 0; k < 5; ++k) { s = hx_dec(a[1 + k], &n); if (s) { array_set_key_value(&da->value, keys[k], strlen(keys[k]), s, n); free(s); } }
                array_insert_unique(value, (data_unset *)da);
            } else if (0 == strncmp(hx_tok[t], "cache:", 6)) {
                opts = array_init(2); *array_get_int_ptr(opts, CONST_STR_LEN("max-age")) = atoi(hx_tok[t] + 6);
                ac = http_auth_cache_init(opts);
            } else break;
        }
        if (bad || HANDLER_GO_ON != mod_auth_require_parse_array(value, areq, r.conf.errh)) { puts("CONFIG-ERROR"); array_free(value); array_free(areq); continue; }
        p->defaults.auth_backend = http_auth_backend_get(bk);
        p->defaults.auth_require = areq; p->defaults.auth_cache = ac; p->defaults.auth_extern_authn = 0;
        cvlist[0].v.u2[0] = 1; cvlist[0].v.u2[1] = 1;
        cvlist[1].k_id = ac ? 3 : -1; cvlist[1].vtype = T_CONFIG_LOCAL; cvlist[1].v.v = ac; cvlist[2].k_id = -1;
        p->cvlist = cvlist; p->nconfig = 1;
        log_epoch_secs = 1700000000; log_monotonic_secs = 1000000;
        buffer_clear(dbtxt); unlink(ufile->ptr);
        fputs("seeds=", stdout);
        for (uint32_t i = 0; i < areq->used; ++i) printf("%s%u", i ? "," : "", (uint32_t)http_auth_cache_hash(((data_auth *)areq->data[i])->require, "", 0));
        uint32_t ncoll = 0;
        for (; t < hx_ntok; ++t) {
            char *tok = hx_tok[t], *a[8]; size_t n;
            int isq = 0; const char *meth = "GET"; size_t mlen = 3; char *path = NULL, *target = NULL, *auth = NULL; size_t plen = 0, tlen = 0, alen = 0;
            buffer *hb = NULL;
            if (0 == strncmp(tok, "db:", 3)) { char *s = hx_dec(tok + 3, &n); buffer_copy_string_len(dbtxt, s, n); free(s); }
            else if (0 == strncmp(tok, "dba:", 4)) {
                split(tok + 4, a, 2); size_t ul, pl; const char *u = userref(a[0], &ul); char *pw = hx_dec(a[1], &pl);
                buffer_append_str3(dbtxt, u, ul, CONST_STR_LEN(":"), pw, pl); buffer_append_char(dbtxt, '\n'); free(pw);
            }
            else if (0 == strncmp(tok, "t:", 2)) { for (int k = atoi(tok + 2); k > 0; --k) { ++log_epoch_secs; ++log_monotonic_secs; mod_auth_periodic(NULL, p); } continue; }
            else if (0 == strncmp(tok, "sk:", 3)) { log_epoch_secs += atoll(tok + 3); continue; }
            else if (0 == strncmp(tok, "coll:", 5)) {
                uint32_t ri = (uint32_t)atoi(tok + 5);
                if (ri < areq->used && find_collision(((data_auth *)areq->data[ri])->require, ncoll++)) { fputs(" C:", stdout); hx_put(stdout, colA, 4); putchar(':'); hx_put(stdout, colB, 4); }
                else fputs(" C:~", stdout);
                continue;
            }
            else if (0 == strncmp(tok, "q:", 2)) {
                split(tok + 2, a, 4); size_t ml; char *m = hx_dec(a[0], &ml); meth = m; mlen = ml;
                path = hx_dec(a[1], &plen); target = hx_dec(a[2], &tlen); auth = hx_dec(a[3], &alen); isq = 1;
            }
            else if (0 == strncmp(tok, "qb:", 3)) {
                split(tok + 3, a, 3); path = hx_dec(a[0], &plen); target = hx_dec(a[0], &tlen);
                size_t ul, pl; const char *u = userref(a[1], &ul); char *pw = hx_dec(a[2], &pl);
                buffer *cred = buffer_init(); buffer_append_str3(cred, u, ul, CONST_STR_LEN(":"), pw, pl); free(pw);
                hb = buffer_init(); buffer_copy_string(hb, "Basic ");
                buffer_append_base64_enc(hb, (unsigned char *)BUF_PTR_LEN(cred), BASE64_STANDARD, 1); buffer_free(cred);
                auth = hb->ptr; alen = buffer_clen(hb); isq = 1;
            }
            else { fputs(" ?", stdout); continue; }
            if (!isq) { /* db changed: rewrite the userfile */
                FILE *f = fopen(ufile->ptr, "w"); if (f) { fwrite(dbtxt->ptr ? dbtxt->ptr : "", 1, buffer_clen(dbtxt), f); fclose(f); }
                continue;
            }
            hx_req_reset(&r); array_reset_data_strings(&r.env); r.keep_alive = 1; r.handler_module = NULL; r.h2_connect_ext = 0;
            r.http_method = http_method_key_get(meth, mlen);
            buffer_copy_string_len(&r.uri.path, path, plen); buffer_copy_string_len(&r.target_orig, target, tlen);
            buffer_copy_string_len(&r.target, target, tlen);
            if (auth) http_header_request_set(&r, HTTP_HEADER_AUTHORIZATION, CONST_STR_LEN("Authorization"), auth, alen);
            handler_t rc = mod_auth_uri_handler(&r, p);
            const buffer *ru = http_header_env_get(&r, CONST_STR_LEN("REMOTE_USER"));
            const buffer *at = http_header_env_get(&r, CONST_STR_LEN("AUTH_TYPE"));
            if (rc == HANDLER_GO_ON && r.http_status == 0) {
                if (ru) { fputs(" S:", stdout); hx_put(stdout, BUF_PTR_LEN(ru)); printf(":%s", at ? at->ptr : "?");
                    const buffer *ni = http_header_response_get(&r, HTTP_HEADER_OTHER, CONST_STR_LEN("Authentication-Info"));
                    if (ni) { fputs(":ni=", stdout); hx_put(stdout, BUF_PTR_LEN(ni)); } }
                else fputs(" P", stdout);
            }
            else if (rc == HANDLER_FINISHED && r.http_status == 401) {
                const buffer *wa = http_header_response_get(&r, HTTP_HEADER_WWW_AUTHENTICATE, CONST_STR_LEN("WWW-Authenticate"));
                fputs(" 401:", stdout); if (wa) hx_put(stdout, BUF_PTR_LEN(wa)); else putchar('~');
                if (ru) fputs(":REMOTE_USER-SET", stdout);
            }
            else if (rc == HANDLER_FINISHED && r.http_status == 400) fputs(ru ? " 400:REMOTE_USER-SET" : " 400", stdout);
            else printf(" E%d:%d", (int)rc, r.http_status);
            if (hb) buffer_free(hb); else { free(path); free(target); free(auth); }
        }
        printf(" cache=%d\n", ac ? count_nodes(ac->sptree) : -1);
        fflush(stdout);
        /* tear down */
        if (ac) http_auth_cache_free(ac);
        if (opts) array_free(opts);
        array_free(areq); array_free(value);
        p->cvlist = NULL; p->nconfig = 0;
    }
    unlink(ufile->ptr);
    return 0;
}
