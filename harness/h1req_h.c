/* C01 harness (header block level): http_header_parse_hoff() + http_request_headers_process() of the working tree.
 *  H flags block -> "INC" | "BLANK" | "R <status>" | "A <method> <v11> <target_orig> <path> <query|~> <host|~> <rlen> <ka>" */
#include "hx.h"
#include "hx_req.h"
#include "request.c"

int main(void) {
    request_st r;
    hx_req_init(&r);
    static unsigned short hoff[8192];
    while (hx_read()) {
        if (hx_ntok < 3 || hx_tok[0][0] != 'H') { puts("?"); continue; }
        size_t n; char *blk = hx_dec(hx_tok[2], &n);
        /* reset like a fresh request object */
        r.http_method = HTTP_METHOD_UNSET; r.http_version = HTTP_VERSION_UNSET; r.http_host = NULL;
        r.rqst_htags = 0; r.reqbody_length = 0; r.keep_alive = 0; r.http_status = 0; r.h2_connect_ext = 0;
        buffer_clear(&r.target_orig); buffer_clear(&r.target); buffer_clear(&r.uri.path); buffer_clear(&r.uri.query);
        buffer_clear(&r.uri.authority);
        array_reset_data_strings(&r.rqst_headers);
        r.conf.http_parseopts = (unsigned int)strtoul(hx_tok[1], NULL, 10);
        hoff[0] = 1; hoff[1] = 0;
        uint32_t hlen = http_header_parse_hoff(blk, (uint32_t)n, hoff);
        if (0 == hlen) { puts("INC"); free(blk); continue; }
        if (hoff[0] <= 1) { puts("BLANK"); free(blk); continue; }
        r.rqst_header_len = hlen;
        http_request_headers_process(&r, blk, hoff, 80);
        if (r.http_status) {
            if (r.keep_alive || r.reqbody_length) printf("R %d KA-OR-LEN-NOT-CLEARED\n", r.http_status);
            else printf("R %d\n", r.http_status);
        }
        else {
            printf("A %d %d ", (int)r.http_method, r.http_version == HTTP_VERSION_1_1);
            hx_put(stdout, r.target_orig.ptr, buffer_clen(&r.target_orig)); putchar(' ');
            hx_put(stdout, r.uri.path.ptr, buffer_clen(&r.uri.path)); putchar(' ');
            hx_put(stdout, r.uri.query.ptr ? r.uri.query.ptr : "", buffer_clen(&r.uri.query));
            putchar(' ');
            if (r.http_host) hx_put(stdout, r.http_host->ptr, buffer_clen(r.http_host)); else putchar('~');
            printf(" %lld %d\n", (long long)r.reqbody_length, (int)r.keep_alive);
        }
        free(blk);
    }
    return 0;
}
