/* In-process HTTP/2 harness: src/h2.c (+ls-hpack) of the working tree on a fake connection.
 * One case per line: a script of client actions; the server's emitted frames are parsed back and printed.
 *   actions (space separated):
 *     P                      client preface (magic) + empty SETTINGS frame
 *     S:<id>=<v>,<id>=<v>..  SETTINGS frame with the given parameters ("S:" = empty), SA = SETTINGS ack
 *     H:<sid>:<flags hex>:<method>:<path>[:<extra header block hex>]   HEADERS (HPACK literal-without-indexing encoded here)
 *     X:<hex>                raw bytes (complete or partial frames, anything)
 *     W:<sid>:<inc>          WINDOW_UPDATE
 *     D:<sid>:<flags hex>:<len>[:<padlen>]   DATA frame with <len> payload bytes
 *     R:<sid>:<code>         RST_STREAM      G:<hex8> PING      Y:<sid>:<flags>:<hex>  PRIORITY/any typed frame: Y:<type>:<flags>:<sid>:<hexpayload>
 *     T:<secs>               advance both clocks
 *     C:<n>                  cut: deliver the next action's bytes in pieces of n bytes (each piece followed by a process_streams round)
 *     .                      extra process_streams round
 *   handler (stub for http_response_loop): path /b<N> -> 200 with N body bytes; /u -> reads the request body, replies 200 with
 *   body "<count>"; /e -> error after headers; /n -> 204 no body; /w<N> -> body N bytes but never finished (streaming stall)
 * output: for each action "<k>:" followed by the frames the server emitted while handling it:
 *     D<sid>.<len>.<flags>  H<sid>.<len>.<flags>  R<sid>.<code>  S<len>.<flags>  G<flags>  A<lastid>.<code> (GOAWAY)  W<sid>.<inc>  C<sid>.<len>.<flags> (CONTINUATION) ?<type>
 *   then " |end rused=<n> state=<con state> unparsed=<bytes left in emitted stream>"
 */
#include "hx.h"
#include "first.h"
#include "base.h"
#include "h2.c"
#include "reqpool.h"
#include "http_header.h"
#include "fdlog.h"
#include "response.h"
#include "burl.h"

static server srv;
static connection *con;
static request_config rc;
static char *inbuf; static size_t in_len, in_off;     /* bytes the client has "sent", not yet read by the server */
static unsigned char *outbuf; static size_t out_len, out_cap, out_parsed;

static int my_network_read(connection *c, chunkqueue *cq, off_t max_bytes) {
    size_t n = in_len - in_off;
    if ((off_t)n > max_bytes) n = (size_t)max_bytes;
    if (n) { chunkqueue_append_mem(cq, inbuf + in_off, n); in_off += n; }
    c->is_readable = (in_off < in_len) ? 1 : 0;
    return 0;
}
static int my_network_write(connection *c, chunkqueue *cq, off_t max_bytes) {
    (void)c;
    off_t len = chunkqueue_length(cq);
    if (len > max_bytes) len = max_bytes;
    while (len > 0) {
        char buf[16384]; char *p = buf; uint32_t dl = (uint32_t)(len < (off_t)sizeof(buf) ? len : (off_t)sizeof(buf));
        if (chunkqueue_peek_data(cq, &p, &dl, srv.errh, 0) < 0 || 0 == dl) break;
        if (out_len + dl > out_cap) { out_cap = (out_len + dl) * 2; outbuf = realloc(outbuf, out_cap); }
        memcpy(outbuf + out_len, p, dl); out_len += dl;
        chunkqueue_mark_written(cq, dl); len -= dl;
    }
    return 0;
}
static int my_handle_write(request_st *r, connection *c) {
    (void)r;
    c->network_write(c, c->write_queue, MAX_WRITE_LIMIT);
    c->is_writable = 1;
    return 0;
}
static handler_t my_response_loop(request_st *r) {
    if (r->reqbody_length != 0 && r->state != CON_STATE_WRITE) {
        handler_t rcx = r->con->reqbody_read(r);
        if (rcx != HANDLER_GO_ON) return rcx;
    }
    const char *t = r->target.ptr ? r->target.ptr : "";
    if (r->http_status >= 400) {   /* the request was rejected while parsing its header block (what http_response_handler() does first) */
        r->resp_body_finished = 1; r->handler_module = NULL;
        return HANDLER_FINISHED;
    }
    r->http_status = 200;
    if (t[0] == '/' && t[1] == 'b') {
        size_t n = strtoul(t + 2, NULL, 10);
        char *b = malloc(n + 1);
        for (size_t i = 0; i < n; ++i) b[i] = (char)('a' + i % 26);
        chunkqueue_append_mem(&r->write_queue, b, n); free(b);
        r->resp_body_finished = 1;
    } else if (t[0] == '/' && t[1] == 'w') {
        size_t n = strtoul(t + 2, NULL, 10);
        char *b = calloc(1, n + 1); memset(b, 'w', n);
        chunkqueue_append_mem(&r->write_queue, b, n); free(b);
        r->conf.stream_response_body |= FDEVENT_STREAM_RESPONSE;
    } else if (t[0] == '/' && t[1] == 'u') {
        char num[32]; int k = snprintf(num, sizeof(num), "%lld", (long long)chunkqueue_length(&r->reqbody_queue));
        chunkqueue_append_mem(&r->write_queue, num, (size_t)k);
        chunkqueue_reset(&r->reqbody_queue);
        r->resp_body_finished = 1;
    } else if (t[0] == '/' && t[1] == 'h') {
        /* dump what the handler sees of the request: one line per item, hex encoded */
        buffer *b = buffer_init();
        buffer_append_string_len(b, CONST_STR_LEN("m="));
        buffer_append_int(b, (int)r->http_method);
        buffer_append_string_len(b, CONST_STR_LEN(" t=")); buffer_append_string_encoded_hex_lc(b, BUF_PTR_LEN(&r->target_orig));
        buffer_append_string_len(b, CONST_STR_LEN(" a=")); if (r->http_host) buffer_append_string_encoded_hex_lc(b, BUF_PTR_LEN(r->http_host));
        buffer_append_string_len(b, CONST_STR_LEN(" s=")); buffer_append_string_encoded_hex_lc(b, BUF_PTR_LEN(&r->uri.scheme));
        buffer_append_char(b, '\n');
        for (uint32_t i = 0; i < r->rqst_headers.used; ++i) {
            data_string *ds = (data_string *)r->rqst_headers.data[i];
            if (buffer_is_blank(&ds->value)) continue; /* cleared slots */
            buffer_append_string_len(b, CONST_STR_LEN("k=")); buffer_append_string_encoded_hex_lc(b, BUF_PTR_LEN(&ds->key));
            buffer_append_string_len(b, CONST_STR_LEN(" v=")); buffer_append_string_encoded_hex_lc(b, BUF_PTR_LEN(&ds->value));
            buffer_append_string_len(b, CONST_STR_LEN(" id=")); buffer_append_int(b, ds->ext);
            buffer_append_string_len(b, CONST_STR_LEN(" want=")); buffer_append_int(b, (int)http_header_hkey_get(BUF_PTR_LEN(&ds->key)));
            buffer_append_char(b, '\n');
        }
        chunkqueue_append_buffer(&r->write_queue, b); buffer_free(b);
        r->resp_body_finished = 1;
    } else if (t[0] == '/' && t[1] == 'v') {
        /* response field whose value has a chosen length and alphabet: /v<len>.<char code> */
        size_t n = strtoul(t + 2, NULL, 10); const char *dot = strchr(t, '.'); int ch = dot ? atoi(dot + 1) : 'a';
        char *v = malloc(n + 1); memset(v, ch, n); v[n] = 0;
        if (n) http_header_response_set(r, HTTP_HEADER_OTHER, CONST_STR_LEN("x-v"), v, (uint32_t)n);
        free(v); r->resp_body_finished = 1;
    } else if (t[0] == '/' && t[1] == 'r') {
        int k = atoi(t + 2);
        switch (k) {
          case 0: http_header_response_set(r, HTTP_HEADER_CONTENT_TYPE, CONST_STR_LEN("Content-Type"), CONST_STR_LEN("text/plain")); break;
          case 1: http_header_response_set(r, HTTP_HEADER_OTHER, CONST_STR_LEN("X-Mixed-CASE"), CONST_STR_LEN("Value With UPPER"));
                  http_header_response_set(r, HTTP_HEADER_ETAG, CONST_STR_LEN("ETag"), CONST_STR_LEN("\"abc\"")); break;
          case 2: http_header_response_insert(r, HTTP_HEADER_SET_COOKIE, CONST_STR_LEN("Set-Cookie"), CONST_STR_LEN("a=1"));
                  http_header_response_insert(r, HTTP_HEADER_SET_COOKIE, CONST_STR_LEN("Set-Cookie"), CONST_STR_LEN("b=2; Path=/"));
                  http_header_response_insert(r, HTTP_HEADER_SET_COOKIE, CONST_STR_LEN("Set-Cookie"), CONST_STR_LEN("c=3")); break;
          case 3: http_header_response_set(r, HTTP_HEADER_LOCATION, CONST_STR_LEN("Location"), CONST_STR_LEN("http://h.example/elsewhere?x=%20y"));
                  r->http_status = 302; break;
          case 4: { char big[20001]; memset(big, 'Z', 20000); big[20000] = 0;   /* header block larger than one frame: CONTINUATION */
                  http_header_response_set(r, HTTP_HEADER_OTHER, CONST_STR_LEN("x-big"), big, 20000);
                  http_header_response_set(r, HTTP_HEADER_OTHER, CONST_STR_LEN("x-after"), CONST_STR_LEN("tail")); break; }
          case 5: http_header_response_set(r, HTTP_HEADER_CACHE_CONTROL, CONST_STR_LEN("Cache-Control"), CONST_STR_LEN("max-age=3600"));
                  http_header_response_set(r, HTTP_HEADER_VARY, CONST_STR_LEN("Vary"), CONST_STR_LEN("Accept-Encoding"));
                  http_header_response_set(r, HTTP_HEADER_OTHER, CONST_STR_LEN("x-bin"), CONST_STR_LEN("\x01\x7f\xff\x80 ~")); break;
          case 6: r->http_status = 404; break;
          case 7: r->http_status = 206; http_header_response_set(r, HTTP_HEADER_CONTENT_RANGE, CONST_STR_LEN("Content-Range"), CONST_STR_LEN("bytes 0-0/10")); break;
          default: r->http_status = 418; break;
        }
        chunkqueue_append_mem(&r->write_queue, CONST_STR_LEN("ok"));
        r->resp_body_finished = 1;
    } else if (t[0] == '/' && t[1] == 'n') {
        r->http_status = 204; r->resp_body_finished = 1;
    } else if (t[0] == '/' && t[1] == 'e') {
        return HANDLER_ERROR;
    } else {
        r->http_status = 404; r->resp_body_finished = 1;
    }
    return HANDLER_FINISHED;
}

static void send_bytes(const void *p, size_t n) {
    inbuf = realloc(inbuf, in_len + n + 1);
    memcpy(inbuf + in_len, p, n); in_len += n;
}
static void frame(unsigned type, unsigned flags, uint32_t sid, const void *payload, uint32_t len) {
    unsigned char h[9] = { (unsigned char)(len >> 16), (unsigned char)(len >> 8), (unsigned char)len, (unsigned char)type, (unsigned char)flags,
                           (unsigned char)(sid >> 24), (unsigned char)(sid >> 16), (unsigned char)(sid >> 8), (unsigned char)sid };
    send_bytes(h, 9); if (len) send_bytes(payload, len);
}
static size_t hp_str(unsigned char *o, const char *s, size_t n) { /* literal string, no huffman, 7-bit prefix length */
    size_t k = 0;
    if (n < 127) o[k++] = (unsigned char)n;
    else { o[k++] = 127; size_t v = n - 127; while (v >= 128) { o[k++] = (unsigned char)(v | 128); v >>= 7; } o[k++] = (unsigned char)v; }
    memcpy(o + k, s, n); return k + n;
}
static size_t hp_field(unsigned char *o, const char *name, const char *val, size_t vlen) {
    size_t k = 0; o[k++] = 0x00; /* literal without indexing, new name */
    k += hp_str(o + k, name, strlen(name)); k += hp_str(o + k, val, vlen); return k;
}
static int rounds;
static void pump(void) {
    /* what the main loop does: run process_streams while work is pending */
    for (int i = 0; i < 64 && con->hx; ++i) {
        size_t o0 = out_len, i0 = in_off;
        con->is_readable = (in_off < in_len) ? 1 : 0;
        con->is_writable = 1;
        log_con_jqueue = NULL; con->jqnext = NULL;
        ++rounds;
        if (h2_dispatch_table.process_streams(con, my_response_loop, my_handle_write)) break;
        if (out_len == o0 && in_off == i0 && !log_con_jqueue) break;
    }
}
static int trace_mode; static size_t cl_parsed;
static uint32_t be32(const unsigned char *p) { return ((uint32_t)p[0] << 24) | ((uint32_t)p[1] << 16) | ((uint32_t)p[2] << 8) | p[3]; }
/* generic numeric form for the RFC tracker: <c|s><type>.<flags>.<sid>.<len>.<arg>.<arg2> */
static void print_generic(char who, const unsigned char *s) {
    uint32_t len = ((uint32_t)s[0] << 16) | ((uint32_t)s[1] << 8) | s[2];
    unsigned type = s[3], fl = s[4]; uint32_t sid = be32(s + 5) & 0x7fffffff; const unsigned char *p = s + 9;
    long long arg = -1, arg2 = 0;
    if (type == 3 && len >= 4) arg = be32(p);
    else if (type == 7 && len >= 8) { arg2 = be32(p) & 0x7fffffff; arg = be32(p + 4); }
    else if (type == 8 && len >= 4) arg = be32(p) & 0x7fffffff;
    else if (type == 4 && !(fl & 1)) { for (uint32_t i = 0; i + 6 <= len; i += 6) if (((p[i] << 8) | p[i+1]) == 5) arg = be32(p + i + 2); }
    printf(" %c%u.%x.%u.%u.%lld.%lld", who, type, fl, sid, len, arg, arg2);
}
static void print_client_frames(void) {
    if (cl_parsed == 0 && in_len >= 24 && 0 == memcmp(inbuf, "PRI * HTTP/2.0", 14)) cl_parsed = 24;
    while (in_len - cl_parsed >= 9) {
        const unsigned char *s = (unsigned char *)inbuf + cl_parsed;
        uint32_t len = ((uint32_t)s[0] << 16) | ((uint32_t)s[1] << 8) | s[2];
        if (in_len - cl_parsed < 9 + (size_t)len) break;
        print_generic('c', s);
        cl_parsed += 9 + len;
    }
}
static int body_mode;
static void print_new_frames(void) {
    if (body_mode) {
        while (out_len - out_parsed >= 9) {
            const unsigned char *s = outbuf + out_parsed;
            uint32_t len = ((uint32_t)s[0] << 16) | ((uint32_t)s[1] << 8) | s[2];
            if (out_len - out_parsed < 9 + (size_t)len) break;
            unsigned type = s[3], fl = s[4]; uint32_t sid = be32(s + 5) & 0x7fffffff;
            if (type == 0 || type == 1 || type == 9) { printf(" %c%u.%x.", type == 0 ? 'D' : type == 1 ? 'H' : 'C', sid, fl); hx_put(stdout, (const char *)s + 9, len); }
            else if (type == 3) printf(" R%u.%u", sid, be32(s + 9));
            else if (type == 7) printf(" A%u.%u", be32(s + 9) & 0x7fffffff, be32(s + 13));
            out_parsed += 9 + len;
        }
        return;
    }
    if (trace_mode) {
        while (out_len - out_parsed >= 9) {
            const unsigned char *s = outbuf + out_parsed;
            uint32_t len = ((uint32_t)s[0] << 16) | ((uint32_t)s[1] << 8) | s[2];
            if (out_len - out_parsed < 9 + (size_t)len) break;
            print_generic('s', s);
            out_parsed += 9 + len;
        }
        return;
    }
    while (out_len - out_parsed >= 9) {
        const unsigned char *s = outbuf + out_parsed;
        uint32_t len = ((uint32_t)s[0] << 16) | ((uint32_t)s[1] << 8) | s[2];
        if (out_len - out_parsed < 9 + (size_t)len) break;
        unsigned type = s[3], fl = s[4];
        uint32_t sid = (((uint32_t)s[5] << 24) | ((uint32_t)s[6] << 16) | ((uint32_t)s[7] << 8) | s[8]) & 0x7fffffff;
        const unsigned char *p = s + 9;
        switch (type) {
          case 0: printf(" D%u.%u.%x", sid, len, fl); break;
          case 1: printf(" H%u.%u.%x", sid, len, fl); break;
          case 3: printf(" R%u.%u", sid, len >= 4 ? (((uint32_t)p[0] << 24) | ((uint32_t)p[1] << 16) | ((uint32_t)p[2] << 8) | p[3]) : 999u); break;
          case 4: printf(" S%u.%x", len, fl); break;
          case 6: printf(" G%x", fl); break;
          case 7: printf(" A%u.%u", len >= 8 ? ((((uint32_t)p[0] << 24) | ((uint32_t)p[1] << 16) | ((uint32_t)p[2] << 8) | p[3]) & 0x7fffffff) : 0u,
                         len >= 8 ? (((uint32_t)p[4] << 24) | ((uint32_t)p[5] << 16) | ((uint32_t)p[6] << 8) | p[7]) : 999u); break;
          case 8: printf(" W%u.%u", sid, len >= 4 ? ((((uint32_t)p[0] << 24) | ((uint32_t)p[1] << 16) | ((uint32_t)p[2] << 8) | p[3]) & 0x7fffffff) : 0u); break;
          case 9: printf(" C%u.%u.%x", sid, len, fl); break;
          default: printf(" ?%u.%u.%u", type, sid, len);
        }
        out_parsed += 9 + len;
    }
}
static void new_connection(void) {
    con = calloc(1, sizeof(*con));
    con->srv = &srv; con->fd = -1;
    con->plugin_slots = calloc(64, sizeof(uint16_t));
    con->plugin_ctx = calloc(8, sizeof(void *));
    con->write_queue = chunkqueue_init(NULL);
    con->read_queue = chunkqueue_init(NULL);
    request_init_data(&con->request, con, &srv);
    request_config_reset(&con->request);
    con->request.state = CON_STATE_WRITE;   /* as connection_handle_read_state leaves it before upgrade */
    con->network_read = my_network_read; con->network_write = my_network_write;
    con->is_readable = 1; con->is_writable = 1;
    buffer_copy_string_len(&con->dst_addr_buf, "127.0.0.1", 9);
    con->request.http_version = HTTP_VERSION_2;
    in_len = in_off = 0; out_len = out_parsed = 0; cl_parsed = 0;
}

int main(int argc, char **argv) {
    trace_mode = (argc > 1 && 0 == strcmp(argv[1], "trace"));
    body_mode = (argc > 1 && 0 == strcmp(argv[1], "body"));
    memset(&srv, 0, sizeof(srv));
    srv.errh = fdlog_init(NULL, -1, FDLOG_FD);
    srv.tmp_buf = buffer_init();
    srv.plugin_slots = calloc(64, sizeof(uint16_t));
    srv.config_context = array_init(1); srv.config_context->used = 1;
    memset(&rc, 0, sizeof(rc));
    rc.errh = srv.errh; rc.h2proto = 2; rc.max_request_field_size = 8192; rc.max_keep_alive_idle = 5; rc.max_read_idle = 60; rc.max_write_idle = 360;
    rc.http_parseopts = HTTP_PARSEOPT_HEADER_STRICT | HTTP_PARSEOPT_HOST_STRICT | HTTP_PARSEOPT_HOST_NORMALIZE | HTTP_PARSEOPT_URL_NORMALIZE
                      | HTTP_PARSEOPT_URL_NORMALIZE_UNRESERVED | HTTP_PARSEOPT_URL_NORMALIZE_CTRLS_REJECT | HTTP_PARSEOPT_URL_NORMALIZE_PATH_2F_DECODE
                      | HTTP_PARSEOPT_URL_NORMALIZE_PATH_DOTSEG_REMOVE | HTTP_PARSEOPT_URL_NORMALIZE_INVALID_UTF8_REJECT;
    request_config_set_defaults(&rc);
    http_dispatch[HTTP_VERSION_2] = h2_dispatch_table;
    chunkqueue_set_tempdirs_default(NULL, 0); /* upload spill files go to $TMPDIR (the check's scratch dir) */
    log_epoch_secs = 1700000000; log_monotonic_secs = 1000;
    while (hx_read()) {
        new_connection();
        con->fn = &http_dispatch[HTTP_VERSION_2];
        size_t cut = 0, gcut = 0; int started = 0;
        for (int t = 0; t < hx_ntok; ++t) {
            char *a[8]; int na = 0; char *s = hx_tok[t];
            while (na < 8) { a[na++] = s; s = strchr(s, ':'); if (!s) break; *s++ = 0; }
            size_t in0 = in_len;
            if (!strcmp(a[0], "P")) {
                send_bytes("PRI * HTTP/2.0\r\n\r\nSM\r\n\r\n", 24); frame(4, 0, 0, NULL, 0);
            } else if (!strcmp(a[0], "S")) {
                unsigned char pl[6 * 16]; uint32_t n = 0; char *q = na > 1 ? a[1] : (char *)"";
                while (*q && n < sizeof(pl)) { unsigned id = (unsigned)strtoul(q, &q, 10); uint32_t v = 0; if (*q == '=') v = (uint32_t)strtoul(q + 1, &q, 10);
                    pl[n++] = (unsigned char)(id >> 8); pl[n++] = (unsigned char)id; pl[n++] = (unsigned char)(v >> 24); pl[n++] = (unsigned char)(v >> 16); pl[n++] = (unsigned char)(v >> 8); pl[n++] = (unsigned char)v;
                    if (*q == ',') ++q; }
                frame(4, 0, 0, pl, n);
            } else if (!strcmp(a[0], "SA")) { frame(4, 1, 0, NULL, 0);
            } else if (!strcmp(a[0], "H")) {
                unsigned char hb[4096]; size_t k = 0;
                k += hp_field(hb + k, ":method", a[3], strlen(a[3]));
                k += hp_field(hb + k, ":scheme", "http", 4);
                k += hp_field(hb + k, ":path", a[4], strlen(a[4]));
                k += hp_field(hb + k, ":authority", "h.example", 9);
                if (na > 5) { size_t n; char *x = hx_dec(a[5], &n); if (x) { memcpy(hb + k, x, n); k += n; free(x); } }
                frame(1, (unsigned)strtoul(a[2], NULL, 16), (uint32_t)strtoul(a[1], NULL, 10), hb, (uint32_t)k);
            } else if (!strcmp(a[0], "HX")) { size_t n = 0; char *x = hx_dec(a[3], &n);
                frame(1, (unsigned)strtoul(a[2], NULL, 16), (uint32_t)strtoul(a[1], NULL, 10), x ? x : "", (uint32_t)n); free(x);
            } else if (!strcmp(a[0], "X")) { size_t n; char *x = hx_dec(a[1], &n); if (x) { send_bytes(x, n); free(x); }
            } else if (!strcmp(a[0], "W")) { uint32_t v = (uint32_t)strtoul(a[2], NULL, 10); unsigned char pl[4] = { (unsigned char)(v >> 24), (unsigned char)(v >> 16), (unsigned char)(v >> 8), (unsigned char)v };
                frame(8, 0, (uint32_t)strtoul(a[1], NULL, 10), pl, 4);
            } else if (!strcmp(a[0], "D")) {
                uint32_t len = (uint32_t)strtoul(a[3], NULL, 10); unsigned fl = (unsigned)strtoul(a[2], NULL, 16);
                uint32_t pad = na > 4 ? (uint32_t)strtoul(a[4], NULL, 10) : 0;
                unsigned char *pl = malloc(len + pad + 2); uint32_t k = 0;
                if (fl & 0x08) pl[k++] = (unsigned char)pad;
                memset(pl + k, 'x', len); k += len;
                if (fl & 0x08) { memset(pl + k, 0, pad); k += pad; }
                frame(0, fl, (uint32_t)strtoul(a[1], NULL, 10), pl, k); free(pl);
            } else if (!strcmp(a[0], "R")) { uint32_t v = (uint32_t)strtoul(a[2], NULL, 10); unsigned char pl[4] = { (unsigned char)(v >> 24), (unsigned char)(v >> 16), (unsigned char)(v >> 8), (unsigned char)v };
                frame(3, 0, (uint32_t)strtoul(a[1], NULL, 10), pl, 4);
            } else if (!strcmp(a[0], "G")) { size_t n; char *x = hx_dec(na > 1 ? a[1] : "0102030405060708", &n); frame(6, 0, 0, x, (uint32_t)n); free(x);
            } else if (!strcmp(a[0], "Y")) { size_t n = 0; char *x = na > 4 ? hx_dec(a[4], &n) : NULL;
                frame((unsigned)strtoul(a[1], NULL, 10), (unsigned)strtoul(a[2], NULL, 16), (uint32_t)strtoul(a[3], NULL, 10), x, (uint32_t)n); free(x);
            } else if (!strcmp(a[0], "T")) { long d = strtol(a[1], NULL, 10); log_epoch_secs += d; log_monotonic_secs += d;
                if (con->hx) h2_dispatch_table.check_timeout(con, log_monotonic_secs);
            } else if (!strcmp(a[0], "C")) { cut = strtoul(a[1], NULL, 10); printf("%s%d:", t ? " " : "", t); continue;
            } else if (!strcmp(a[0], "CA")) { gcut = strtoul(a[1], NULL, 10); printf("%s%d:", t ? " " : "", t); continue;
            } else if (!strcmp(a[0], ".")) {
            }
            printf("%s%d:", t ? " " : "", t);
            if (gcut && !cut) cut = gcut;
            if (trace_mode) print_client_frames();
            if (!con->hx && !started) {
                if (in_len == 0) continue;
                started = 1;
                /* the h1 layer has recognised the preface request line and hands over: preface bytes are in read_queue */
                size_t n = in_len - in_off; if (cut && cut < n) n = cut;
                chunkqueue_append_mem(con->read_queue, inbuf + in_off, n); in_off += n;
                h2_dispatch_table.upgrade_h2(&con->request, con);
            }
            if (cut && con->hx) {
                size_t end = in_len; in_len = in0 > in_off ? in0 : in_off;
                while (in_len < end && con->hx) { in_len += cut; if (in_len > end) in_len = end; pump(); }
                in_len = end; cut = 0;
            }
            if (con->hx) pump();
            print_new_frames();
        }
        if (trace_mode) { print_client_frames(); if (in_len > cl_parsed) printf(" cpend=%zu", in_len - cl_parsed); }
        printf(" |end rused=%d alive=%d unparsed=%zu\n", con->hx ? (int)((h2con *)con->hx)->rused : -1, con->hx ? 1 : 0, out_len - out_parsed);
        fflush(stdout);
        /* tear down */
        if (con->hx) { request_st *h2r = &con->request; h2r->state = CON_STATE_ERROR; h2_retire_con(h2r, con); }
    }
    return 0;
}
