/* C17 harness: src/chunk.c of the working tree driven by operation sequences, with injected
 * faults on pwrite()/pwritev() (linker --wrap).  argv[1] = scratch dir (static files f0,f1,f2 and
 * upload dirs d0,d1 are created there).
 * line:  T op op op ...    T = per-queue upload_temp_file_size; op = comma-joined tokens (see below)
 * out :  per op "rc[:data]@len0.bin0.bout0.len1.bin1.bout1.len2.bin2.bout2=c0.c1.c2" joined by ' ', then " |leak=<files>.<fds>"
 */
#include "hx.h"
#include <dirent.h>
#include <errno.h>
#include <fcntl.h>
#include <sys/stat.h>
#include <sys/uio.h>
#include "first.h"
#include "chunk.c"
#include "array.h"
#include "fdlog.h"

static char fscript[64][8]; static int fs_n, fs_i;
static int next_fault(size_t want, ssize_t *res) {
    /* returns 1 if the call is to be faked with *res/errno, 0 to perform the real write (possibly truncated to *res bytes) */
    if (fs_i >= fs_n) { *res = (ssize_t)want; return 0; }
    const char *f = fscript[fs_i++];
    switch (f[0]) {
      case 'F': *res = (ssize_t)want; return 0;
      case 'S': { size_t k = strtoul(f + 1, NULL, 10); *res = (ssize_t)(k < want ? k : want); return 0; }
      case 'I': errno = EINTR; *res = -1; return 1;
      case 'N': errno = ENOSPC; *res = -1; return 1;
      default:  errno = EIO; *res = -1; return 1;
    }
}
ssize_t __real_pwrite(int fd, const void *buf, size_t n, off_t off);
ssize_t __wrap_pwrite(int fd, const void *buf, size_t n, off_t off) {
    ssize_t r;
    if (next_fault(n, &r)) return r;
    return r ? __real_pwrite(fd, buf, (size_t)r, off) : 0;
}
ssize_t __real_pwritev(int fd, const struct iovec *iov, int cnt, off_t off);
ssize_t __wrap_pwritev(int fd, const struct iovec *iov, int cnt, off_t off) {
    size_t tot = 0; ssize_t r;
    for (int i = 0; i < cnt; ++i) tot += iov[i].iov_len;
    if (next_fault(tot, &r)) return r;
    /* write exactly r bytes of the vector */
    size_t left = (size_t)r; off_t o = off;
    for (int i = 0; i < cnt && left; ++i) {
        size_t k = iov[i].iov_len < left ? iov[i].iov_len : left;
        if (k && __real_pwrite(fd, iov[i].iov_base, k, o) != (ssize_t)k) return -1;
        o += (off_t)k; left -= k;
    }
    return r;
}

static chunkqueue Q[3];
static log_error_st *errh;
static char dir[512];
static buffer *fname[3];
static const size_t fsize[3] = { 100000, 5000, 10 };

static int count_dir(const char *d) {
    int n = 0; DIR *D = opendir(d); struct dirent *e;
    if (!D) return -1;
    while ((e = readdir(D))) if (e->d_name[0] != '.') ++n;
    closedir(D); return n;
}
static int count_fds(void) { return count_dir("/proc/self/fd"); }

static void put_queue(chunkqueue *cq) {
    static const char hc[] = "0123456789abcdef";
    size_t total = 0;
    for (chunk *c = cq->first; c; c = c->next) {
        if (c->type == MEM_CHUNK) {
            size_t n = buffer_clen(c->mem) - (size_t)c->offset;
            const unsigned char *p = (unsigned char *)c->mem->ptr + c->offset;
            for (size_t i = 0; i < n; ++i) { putchar(hc[p[i] >> 4]); putchar(hc[p[i] & 15]); }
            total += n;
        } else {
            off_t off = c->offset, end = c->file.length;
            int fd = c->file.fd, opened = 0;
            if (fd < 0) { fd = open(c->mem->ptr, O_RDONLY); opened = 1; }
            unsigned char b[8192];
            while (off < end) {
                size_t want = (size_t)(end - off) < sizeof(b) ? (size_t)(end - off) : sizeof(b);
                ssize_t rd = fd >= 0 ? pread(fd, b, want, off) : -1;
                if (rd <= 0) { fputs("!!", stdout); break; }
                for (ssize_t i = 0; i < rd; ++i) { putchar(hc[b[i] >> 4]); putchar(hc[b[i] & 15]); }
                off += rd; total += (size_t)rd;
            }
            if (opened && fd >= 0) close(fd);
        }
    }
    if (!total) putchar('-');
}
static void observe(void) {
    putchar('@');
    for (int i = 0; i < 3; ++i) printf("%s%lld.%lld.%lld", i ? "." : "", (long long)chunkqueue_length(&Q[i]), (long long)Q[i].bytes_in, (long long)Q[i].bytes_out);
    putchar('=');
    for (int i = 0; i < 3; ++i) { if (i) putchar('.'); put_queue(&Q[i]); }
}
/* usage contract of split file chunks ("tempfile flag is in last chunk after the split"): the consumer of a piece opens it
 * before the remainder (which owns and unlinks the temp file) is released; the harness opens name-only pieces right away */
static void open_pieces(chunkqueue *cq) {
    for (chunk *c = cq->first; c; c = c->next)
        if (c->type == FILE_CHUNK && c->file.fd < 0 && !c->file.is_temp && c->file.length > c->offset) chunk_open_file_chunk(c, errh);
}
static int all_mem(chunkqueue *cq) { for (chunk *c = cq->first; c; c = c->next) if (c->type != MEM_CHUNK) return 0; return 1; }
static void set_script(const char *s) {
    fs_n = fs_i = 0;
    if (!s || s[0] == '-') return;
    while (*s && fs_n < 64) {
        int k = 0; while (*s && *s != '.' && k < 7) fscript[fs_n][k++] = *s++;
        fscript[fs_n][k] = 0; ++fs_n; if (*s == '.') ++s;
    }
}

int main(int argc, char **argv) {
    snprintf(dir, sizeof(dir), "%s", argc > 1 ? argv[1] : "/var/tmp");
    errh = fdlog_init(NULL, -1, FDLOG_FD);
    array *td = array_init(2);
    char p[600];
    for (int i = 0; i < 2; ++i) {
        snprintf(p, sizeof(p), "%s/d%d", dir, i); mkdir(p, 0700);
        array_insert_value(td, p, strlen(p));
    }
    for (int k = 0; k < 3; ++k) {
        snprintf(p, sizeof(p), "%s/f%d", dir, k);
        fname[k] = buffer_init(); buffer_copy_string(fname[k], p);
        FILE *f = fopen(p, "wb");
        for (size_t i = 0; i < fsize[k]; ++i) fputc((int)((i * 7 + (size_t)k * 13 + i / 251) & 0xff), f);
        fclose(f);
    }
    chunkqueue_set_tempdirs_default(td, 0);
    for (int i = 0; i < 3; ++i) chunkqueue_init(&Q[i]);
    char d0[600], d1[600];
    snprintf(d0, sizeof(d0), "%s/d0", dir); snprintf(d1, sizeof(d1), "%s/d1", dir);
    while (hx_read()) {
        off_t T = (off_t)strtoll(hx_tok[0], NULL, 10);
        for (int i = 0; i < 3; ++i) { chunkqueue_reset(&Q[i]); chunkqueue_set_tempdirs(&Q[i], T); }
        chunkqueue_chunk_pool_clear();
        int fds0 = count_fds();
        for (int t = 1; t < hx_ntok; ++t) {
            char *a[8]; int na = 0; char *s = hx_tok[t];
            while (na < 8) { a[na++] = s; s = strchr(s, ','); if (!s) break; *s++ = 0; }
            const char *op = a[0];
            int q = na > 1 ? atoi(a[1]) : 0;
            size_t n = 0; char *m = NULL;
            int rc = 0;
            if (t > 1) putchar(' ');
            if (!strcmp(op, "am")) { m = hx_dec(a[2], &n); chunkqueue_append_mem(&Q[q], m, n); }
            else if (!strcmp(op, "an")) { m = hx_dec(a[2], &n); chunkqueue_append_mem_min(&Q[q], m, n); }
            else if (!strcmp(op, "ab")) { m = hx_dec(a[2], &n); buffer *b = buffer_init(); buffer_copy_string_len(b, m, n); chunkqueue_append_buffer(&Q[q], b); buffer_free(b); }
            else if (!strcmp(op, "gm")) { /* get_memory / use_memory */
                m = hx_dec(a[2], &n); size_t len = n; chunk *ck = Q[q].last;
                char *mem = chunkqueue_get_memory(&Q[q], &len); if (n <= len) { memcpy(mem, m, n); chunkqueue_use_memory(&Q[q], ck, n); } else rc = -9; }
            else if (!strcmp(op, "af")) { int k = atoi(a[2]); chunkqueue_append_file(&Q[q], fname[k], (off_t)atoll(a[3]), (off_t)atoll(a[4])); }
            else if (!strcmp(op, "ao")) { int k = atoi(a[2]); int fd = open(fname[k]->ptr, O_RDONLY); chunkqueue_append_file_fd(&Q[q], fname[k], fd, (off_t)atoll(a[3]), (off_t)atoll(a[4])); }
            else if (!strcmp(op, "ac")) { chunkqueue_append_chunkqueue(&Q[q], &Q[atoi(a[2])]); }
            else if (!strcmp(op, "st")) { chunkqueue_steal(&Q[q], &Q[atoi(a[2])], (off_t)atoll(a[3])); }
            else if (!strcmp(op, "sw")) { set_script(na > 4 ? a[4] : NULL); rc = chunkqueue_steal_with_tempfiles(&Q[q], &Q[atoi(a[2])], (off_t)atoll(a[3]), errh); set_script(NULL); }
            else if (!strcmp(op, "mt")) { m = hx_dec(a[2], &n); set_script(na > 3 ? a[3] : NULL); rc = chunkqueue_append_mem_to_tempfile(&Q[q], m, n, errh); set_script(NULL); }
            else if (!strcmp(op, "mw")) { chunkqueue_mark_written(&Q[q], (off_t)atoll(a[2])); }
            else if (!strcmp(op, "cm")) { if (Q[q].first && all_mem(&Q[q])) chunkqueue_compact_mem(&Q[q], (size_t)atoll(a[2])); else rc = -9; }
            else if (!strcmp(op, "co")) { if (Q[q].first && Q[q].first->type == MEM_CHUNK) chunkqueue_compact_mem_offset(&Q[q]); else rc = -9; }
            else if (!strcmp(op, "pk") || !strcmp(op, "rd")) {
                uint32_t want = (uint32_t)atoll(a[2]); char *buf = malloc(want + 1), *dp = buf; uint32_t dl = want;
                if (op[0] == 'p') rc = (int)chunkqueue_peek_data(&Q[q], &dp, &dl, errh, 0);
                else { rc = chunkqueue_read_data(&Q[q], buf, want, errh); dl = rc == 0 ? want : 0; }
                printf("%d:", rc); hx_put(stdout, rc == 0 ? dp : "", rc == 0 ? dl : 0); observe(); free(buf); continue; }
            else if (!strcmp(op, "sq")) { chunk *c = chunkqueue_read_squash(&Q[q], errh); rc = c ? 0 : -1; }
            else if (!strcmp(op, "cr")) { chunkqueue_append_cq_range(&Q[q], &Q[atoi(a[2])], (off_t)atoll(a[3]), (off_t)atoll(a[4])); }
            else if (!strcmp(op, "rf")) { chunkqueue_remove_finished_chunks(&Q[q]); }
            else if (!strcmp(op, "re")) { chunkqueue_remove_empty_chunks(&Q[q]); }
            else if (!strcmp(op, "rs")) { chunkqueue_reset(&Q[q]); chunkqueue_set_tempdirs(&Q[q], T); }
            else rc = -8;
            if (op[0] == 's' || !strcmp(op, "cr") || !strcmp(op, "ac")) open_pieces(&Q[q]);
            printf("%d", rc); observe();
            free(m);
        }
        for (int i = 0; i < 3; ++i) chunkqueue_reset(&Q[i]);
        chunkqueue_chunk_pool_clear();
        printf(" |leak=%d.%d\n", count_dir(d0) + count_dir(d1), count_fds() - fds0);
        fflush(stdout);
    }
    return 0;
}
