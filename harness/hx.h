/* harness/hx.h -- line protocol shared by all C harnesses:
 * one case per line, space-separated tokens; byte strings hex-encoded, "-" = empty, "~" = absent. */
#ifndef HX_H
#define HX_H
#include <stdio.h>
#include <stdlib.h>
#include <string.h>
#include <stdint.h>

static char *hx_line; static size_t hx_cap;
static char *hx_tok[8192]; static int hx_ntok;

static int hx_read(void) {
    ssize_t n = getline(&hx_line, &hx_cap, stdin);
    if (n < 0) return 0;
    while (n > 0 && (hx_line[n-1] == '\n' || hx_line[n-1] == '\r')) hx_line[--n] = 0;
    hx_ntok = 0;
    char *p = hx_line;
    while (*p && hx_ntok < 8192) {
        while (*p == ' ') ++p;
        if (!*p) break;
        hx_tok[hx_ntok++] = p;
        while (*p && *p != ' ') ++p;
        if (*p) *p++ = 0;
    }
    return 1;
}
static int hx_nib(int c) { return c <= '9' ? c - '0' : (c | 0x20) - 'a' + 10; }
/* decode token into malloc'ed buffer (NUL-terminated, length in *len); NULL for "~" */
static char *hx_dec(const char *t, size_t *len) {
    if (t[0] == '~') { *len = 0; return NULL; }
    if (t[0] == '-') { *len = 0; char *e = malloc(1); e[0] = 0; return e; }
    size_t n = strlen(t) / 2;
    char *b = malloc(n + 1);
    for (size_t i = 0; i < n; ++i) b[i] = (char)((hx_nib(t[2*i]) << 4) | hx_nib(t[2*i+1]));
    b[n] = 0; *len = n;
    return b;
}
static void hx_put(FILE *f, const char *b, size_t n) {
    if (!b) { fputc('~', f); return; }
    if (!n) { fputc('-', f); return; }
    static const char hc[] = "0123456789abcdef";
    for (size_t i = 0; i < n; ++i) { unsigned char c = (unsigned char)b[i]; fputc(hc[c >> 4], f); fputc(hc[c & 15], f); }
}
#endif
