"""lib/h2c.py -- a small HTTP/2 (h2c, prior knowledge) client for the real-server harness.

HPACK tables (static table, Huffman code) are read from coq/Gen/GenHpack.v, which tools/c2v.py regenerates from
src/ls-hpack on every run.  Requests are encoded without Huffman and without dynamic-table insertions (optionally naming a
field by its static-table index, as real clients do); responses are decoded fully (dynamic table, Huffman)."""
import os, re, socket, struct, time

_here = os.path.dirname(os.path.abspath(__file__))
_STATIC = None; _HUFF = None


def _load():
    global _STATIC, _HUFF
    if _STATIC is not None: return
    t = open(os.path.join(_here, "..", "coq", "Gen", "GenHpack.v")).read()
    st = t[t.index("Definition static_table"):t.index("Definition huff_table")]
    ents = re.findall(r"\(\[([0-9; ]*)\]%N, \[([0-9; ]*)\]%N\)", st)
    _STATIC = [(bytes(int(x) for x in a.split(";") if x.strip()), bytes(int(x) for x in b.split(";") if x.strip())) for a, b in ents]
    hf = t[t.index("Definition huff_table"):]
    hf = hf[:hf.index("].")]
    _HUFF = {}
    for i, (code, ln) in enumerate(re.findall(r"\((\d+), (\d+)\)", hf)):
        _HUFF[(int(ln), int(code))] = i


def huff_decode(b):
    _load()
    out = bytearray(); cur = 0; n = 0
    for byte in b:
        for k in range(7, -1, -1):
            cur = (cur << 1) | ((byte >> k) & 1); n += 1
            s = _HUFF.get((n, cur))
            if s is not None:
                if s == 256: raise ValueError("EOS in huffman string")
                out.append(s); cur = 0; n = 0
    if n > 7 or cur != (1 << n) - 1: raise ValueError("bad huffman padding")
    return bytes(out)


def enc_int(v, prefix, flags):
    lim = (1 << prefix) - 1
    if v < lim: return bytes([flags | v])
    out = [flags | lim]; v -= lim
    while v >= 128: out.append((v & 127) | 128); v >>= 7
    out.append(v)
    return bytes(out)


def enc_str(s):
    return enc_int(len(s), 7, 0) + s


def enc_field(name, value, name_index=None):
    """literal header field without indexing"""
    if name_index: return enc_int(name_index, 4, 0) + enc_str(value)
    return b"\x00" + enc_str(name) + enc_str(value)


class Decoder:
    def __init__(self): _load(); self.dyn = []; self.max = 4096

    def _get(self, i):
        if i <= 0: raise ValueError("index 0")
        if i <= len(_STATIC): return _STATIC[i - 1]
        j = i - len(_STATIC) - 1
        if j >= len(self.dyn): raise ValueError("index %d beyond table" % i)
        return self.dyn[j]

    def _int(self, b, p, prefix):
        lim = (1 << prefix) - 1; v = b[p] & lim; p += 1
        if v < lim: return v, p
        m = 0
        while True:
            c = b[p]; p += 1; v += (c & 127) << m; m += 7
            if not c & 128: return v, p

    def _str(self, b, p):
        h = b[p] & 128; n, p = self._int(b, p, 7); s = b[p:p + n]
        if len(s) != n: raise ValueError("string truncated")
        return (huff_decode(s) if h else bytes(s)), p + n

    def decode(self, b):
        out = []; p = 0
        while p < len(b):
            c = b[p]
            if c & 128:
                i, p = self._int(b, p, 7); out.append(self._get(i))
            elif c & 64:
                i, p = self._int(b, p, 6)
                if i: name = self._get(i)[0]
                else: name, p = self._str(b, p)
                v, p = self._str(b, p); out.append((name, v)); self.dyn.insert(0, (name, v))
                while sum(len(a) + len(c2) + 32 for a, c2 in self.dyn) > self.max: self.dyn.pop()
            elif c & 32:
                self.max, p = self._int(b, p, 5)
                while sum(len(a) + len(c2) + 32 for a, c2 in self.dyn) > self.max: self.dyn.pop()
            else:
                i, p = self._int(b, p, 4)
                if i: name = self._get(i)[0]
                else: name, p = self._str(b, p)
                v, p = self._str(b, p); out.append((name, v))
        return out


def frame(typ, flags, sid, payload=b""):
    return struct.pack(">I", len(payload))[1:] + bytes([typ, flags]) + struct.pack(">I", sid) + payload


class Conn:
    """one h2c connection; request() may be called several times (streams 1, 3, 5 ...), also before reading (concurrent streams)"""
    def __init__(self, port, src=None, timeout=8.0):
        self.s = socket.socket(); self.s.settimeout(timeout)
        if src: self.s.bind((src, 0))
        self.s.connect(("127.0.0.1", port))
        self.s.sendall(b"PRI * HTTP/2.0\r\n\r\nSM\r\n\r\n" + frame(4, 0, 0, struct.pack(">HI", 4, 1 << 24)) + frame(8, 0, 0, struct.pack(">I", (1 << 30) - 65535)))
        self.dec = Decoder(); self.next = 1; self.buf = b""; self.streams = {}; self.goaway = None

    def send_request(self, method, path, headers=(), body=None, authority=b"h", scheme=b"http", name_index=None, end_stream=None, segments=False):
        sid = self.next; self.next += 2
        blk = enc_field(b":method", method) + enc_field(b":scheme", scheme) + enc_field(b":authority", authority) + enc_field(b":path", path)
        for k, v in headers:
            blk += enc_field(k.lower(), v, (name_index or {}).get(k.lower()))
        es = (body is None) if end_stream is None else end_stream
        if len(blk) <= 16384:
            out = frame(1, 4 | (1 if es else 0), sid, blk)
        else:
            # a header block larger than SETTINGS_MAX_FRAME_SIZE travels as HEADERS + CONTINUATION frames (RFC 9113 6.10)
            out = frame(1, (1 if es else 0), sid, blk[:16384]); p = 16384
            while p < len(blk):
                out += frame(9, 4 if p + 16384 >= len(blk) else 0, sid, blk[p:p + 16384]); p += 16384
        if body is not None:
            p = 0
            while p < len(body) or p == 0:
                ch = body[p:p + 16384]; p += 16384
                out += frame(0, 1 if p >= len(body) else 0, sid, ch)
                if p >= len(body): break
        if segments:
            for i in range(0, len(out), 7):
                self.s.sendall(out[i:i + 7]); time.sleep(0.0005)
        else:
            self.s.sendall(out)
        self.streams[sid] = dict(headers=None, body=b"", done=False, rst=None, trailers=None)
        return sid

    def _read_frame(self):
        while len(self.buf) < 9:
            d = self.s.recv(65536)
            if not d: return None
            self.buf += d
        n = struct.unpack(">I", b"\0" + self.buf[:3])[0]; typ, fl = self.buf[3], self.buf[4]; sid = struct.unpack(">I", self.buf[5:9])[0] & 0x7fffffff
        while len(self.buf) < 9 + n:
            d = self.s.recv(65536)
            if not d: return None
            self.buf += d
        pl = self.buf[9:9 + n]; self.buf = self.buf[9 + n:]
        return typ, fl, sid, pl

    def wait(self, sids):
        """read until all given streams are complete (END_STREAM or RST) or the connection ends"""
        hb = {}
        while not all(self.streams[i]["done"] for i in sids):
            try: f = self._read_frame()
            except (socket.timeout, OSError): break
            if f is None: break
            typ, fl, sid, pl = f
            if typ == 4 and not fl & 1: self.s.sendall(frame(4, 1, 0))
            elif typ == 6 and not fl & 1: self.s.sendall(frame(6, 1, 0, pl))
            elif typ == 7: self.goaway = struct.unpack(">I", pl[4:8])[0]
            elif typ in (1, 9) and sid in self.streams:
                if typ == 1:
                    if fl & 8: padl = pl[0]; pl = pl[1:len(pl) - padl]
                    if fl & 32: pl = pl[5:]
                    hb[sid] = (b"", fl & 1)
                hb[sid] = (hb[sid][0] + pl, hb[sid][1])
                if fl & 4:
                    fields = self.dec.decode(hb[sid][0]); st = self.streams[sid]
                    if st["headers"] is None or (st["headers"] and st["headers"][0][1][:1] == b"1"): st["headers"] = fields
                    else: st["trailers"] = fields
                    if hb[sid][1]: st["done"] = True
            elif typ == 0 and sid in self.streams:
                if fl & 8: padl = pl[0]; pl = pl[1:len(pl) - padl]
                self.streams[sid]["body"] += pl
                if fl & 1: self.streams[sid]["done"] = True
            elif typ == 3 and sid in self.streams:
                self.streams[sid]["rst"] = struct.unpack(">I", pl)[0]; self.streams[sid]["done"] = True
        return [self.streams[i] for i in sids]

    def close(self):
        try: self.s.close()
        except OSError: pass


def simple(port, method, path, headers=(), body=None, **kw):
    c = Conn(port)
    try:
        sid = c.send_request(method, path, headers, body, **kw)
        return c.wait([sid])[0]
    finally:
        c.close()
