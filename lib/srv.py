"""lib/srv.py -- system-level harness: the real lighttpd of /repo's working tree (incremental cmake/ninja build kept
under _work/, outside /repo), started on a loopback port with a generated configuration, driven over raw sockets.

Used where a property is about the assembled request pipeline (response.c, connections.c, plugin order, the configuration
parser) rather than one translation unit: the model predicts what a client observes, this runs the implementation."""
import os, socket, subprocess, time, shutil, select
import vlib


def build_server(sanitize=False):
    """(path of lighttpd, modules dir); rebuilt incrementally from the working tree on every call"""
    d = os.path.join(vlib.WORK, "srvbuild-asan" if sanitize else "srvbuild")
    with vlib.Lock("srvbuild"):
        cflags = "-Wno-error"
        if sanitize:
            cflags += " -fsanitize=address,undefined -fno-sanitize=nonnull-attribute -fno-sanitize-recover=all -fno-omit-frame-pointer"
        if not os.path.exists(os.path.join(d, "build.ninja")):
            shutil.rmtree(d, ignore_errors=True)
            cmd = ["cmake", "-S", vlib.REPO, "-B", d, "-G", "Ninja", "-DWITH_PCRE2=ON", "-DWITH_ZLIB=ON", "-DCMAKE_BUILD_TYPE=RelWithDebInfo",
                   "-DCMAKE_C_FLAGS=" + cflags]
            if sanitize:
                cmd += ["-DCMAKE_EXE_LINKER_FLAGS=-fsanitize=address,undefined", "-DCMAKE_SHARED_LINKER_FLAGS=-fsanitize=address,undefined",
                        "-DCMAKE_MODULE_LINKER_FLAGS=-fsanitize=address,undefined"]
            rc, out = vlib.sh(cmd, timeout=600)
            if rc != 0:
                raise vlib.BuildError("cmake configure failed:\n" + out[-3000:])
        rc, out = vlib.sh(["cmake", "--build", d, "-j%d" % vlib.NCPU], timeout=1200)
        if rc != 0:
            raise vlib.BuildError("server does not build from the working tree:\n" + out[-4000:])
    return os.path.join(d, "build", "lighttpd"), os.path.join(d, "build")


def free_port():
    s = socket.socket(); s.bind(("127.0.0.1", 0)); p = s.getsockname()[1]; s.close()
    return p


class Server:
    def __init__(self, ctx, name, conf_body, files=None, modules=(), sanitize=False, bind="127.0.0.1", extra_top=""):
        self.exe, self.moddir = build_server(sanitize)
        self.root = os.path.join(ctx.scratch, "srv_" + name)
        self.docroot = os.path.join(self.root, "www")
        os.makedirs(self.docroot, exist_ok=True)
        os.makedirs(os.path.join(self.root, "tmp"), exist_ok=True)
        for rel, data in (files or {}).items():
            p = os.path.join(self.docroot, rel.lstrip("/"))
            if rel.endswith("/"):
                os.makedirs(p, exist_ok=True); continue
            os.makedirs(os.path.dirname(p), exist_ok=True)
            with open(p, "wb") as f: f.write(data)
        self.port = free_port()
        self.errlog = os.path.join(self.root, "error.log")
        mods = ", ".join('"%s"' % m for m in modules)
        self.conf = os.path.join(self.root, "lighttpd.conf")
        with open(self.conf, "w") as f:
            f.write('server.document-root = "%s"\nserver.bind = "%s"\nserver.port = %d\nserver.errorlog = "%s"\n'
                    'server.upload-dirs = ("%s")\nserver.modules = (%s)\n%s\n%s\n'
                    % (self.docroot, bind, self.port, self.errlog, os.path.join(self.root, "tmp"), mods, extra_top, conf_body.replace("@ROOT@", self.root).replace("@DOCROOT@", self.docroot)))
        self.proc = None

    def start(self, extra_env=None):
        env = dict(os.environ); env.update(vlib.HARNESS_ENV); env.update(extra_env or {})
        env["ASAN_OPTIONS"] = "detect_leaks=0:exitcode=99:abort_on_error=0"
        env["UBSAN_OPTIONS"] = "exitcode=98:print_stacktrace=1"
        self.proc = subprocess.Popen([self.exe, "-D", "-f", self.conf, "-m", self.moddir], stdout=subprocess.PIPE, stderr=subprocess.STDOUT, env=env)
        t0 = time.time()
        while time.time() - t0 < 10:
            if self.proc.poll() is not None:
                out = self.proc.stdout.read().decode("latin-1")
                if "Address already in use" in out + self.log()[-600:] and getattr(self, "_retries", 0) < 6:
                    # another harness grabbed the port between free_port() and bind(): take a new one
                    self._retries = getattr(self, "_retries", 0) + 1
                    old = self.port; self.port = free_port()
                    txt = open(self.conf).read().replace("server.port = %d" % old, "server.port = %d" % self.port)
                    open(self.conf, "w").write(txt)
                    try: os.remove(self.errlog)
                    except OSError: pass
                    return self.start(extra_env)
                raise vlib.BuildError("lighttpd exited at startup (%s): %s\n%s" % (self.proc.returncode, out[-2000:], self.log()[-2000:]))
            try:
                s = socket.create_connection(("127.0.0.1", self.port), timeout=0.5); s.close(); return self
            except OSError:
                time.sleep(0.02)
        raise vlib.BuildError("lighttpd did not start listening")

    def alive(self):
        return self.proc is not None and self.proc.poll() is None

    def stop(self):
        if self.proc is None: return None
        if self.proc.poll() is None:
            self.proc.terminate()
            try: self.proc.wait(5)
            except subprocess.TimeoutExpired: self.proc.kill(); self.proc.wait()
        rc = self.proc.returncode
        try: self.out = self.proc.stdout.read().decode("latin-1")
        except Exception: self.out = ""
        self.proc = None
        return rc

    def log(self):
        try: return open(self.errlog, encoding="latin-1").read()
        except OSError: return ""

    def connect(self, src=None, timeout=3.0):
        s = socket.socket(socket.AF_INET, socket.SOCK_STREAM)
        s.settimeout(timeout)
        if src: s.bind((src, 0))
        s.connect(("127.0.0.1", self.port))
        return s

    def roundtrip(self, raw, src=None, timeout=3.0, shut=False):
        """send raw bytes on a fresh connection, read until the server closes (requests should say Connection: close)"""
        s = self.connect(src, timeout)
        try:
            s.sendall(raw)
            if shut: s.shutdown(socket.SHUT_WR)
            data = b""
            while True:
                try: c = s.recv(65536)
                except socket.timeout: data += b"<<timeout>>"; break
                except ConnectionResetError: data += b"<<reset>>"; break
                if not c: break
                data += c
            return data
        finally:
            s.close()


def split_response(data):
    """(status:int|None, headers:list[(name,value)], body bytes, rest) of the first HTTP/1.x response in data (Content-Length / chunked / to-close)"""
    i = data.find(b"\r\n\r\n")
    if i < 0 or not data.startswith(b"HTTP/1."): return None, [], data, b""
    head = data[:i].split(b"\r\n")
    try: st = int(head[0].split(b" ")[1])
    except Exception: st = None
    hs = []
    for l in head[1:]:
        k, _, v = l.partition(b":"); hs.append((k.strip().lower(), v.strip()))
    rest = data[i + 4:]
    h = dict(hs)
    if b"chunked" in h.get(b"transfer-encoding", b"").lower():
        body = b""; p = 0
        while True:
            j = rest.find(b"\r\n", p)
            if j < 0: return st, hs, body, b""
            try: n = int(rest[p:j].split(b";")[0], 16)
            except ValueError: return st, hs, body, b""
            if n == 0:
                k = rest.find(b"\r\n\r\n", j)
                return st, hs, body, rest[k + 4:] if k >= 0 else b""
            body += rest[j + 2:j + 2 + n]; p = j + 2 + n + 2
    if b"content-length" in h:
        try: n = int(h[b"content-length"])
        except ValueError: n = len(rest)
        return st, hs, rest[:n], rest[n:]
    return st, hs, rest, b""
