"""lib/backend.py -- scripted fake backends for the real-server harness (lib/srv.py).

HttpBackend: an HTTP/1.x origin server on a loopback port whose every response is a script registered by the test:
a list of (bytes, delay_before_seconds) segments followed by 'close' | 'keep' | 'rst' | 'half'.  It records every request it
receives verbatim (head and body), so tests of the forward direction (C09) can compare what lighttpd sent with what the
client sent.  The script is selected by the 'id=<n>' token in the request-target."""
import re, socket, struct, threading, time


class HttpBackend:
    def __init__(self):
        self.sock = socket.socket(); self.sock.setsockopt(socket.SOL_SOCKET, socket.SO_REUSEADDR, 1)
        self.sock.bind(("127.0.0.1", 0)); self.sock.listen(64)
        self.port = self.sock.getsockname()[1]
        self.scripts = {}; self.requests = []; self.lock = threading.Lock(); self.stop_flag = False
        self.th = threading.Thread(target=self._accept, daemon=True); self.th.start()

    def script(self, sid, segments, end="close"):
        self.scripts[sid] = (segments, end)

    def _accept(self):
        self.sock.settimeout(0.2)
        while not self.stop_flag:
            try: c, _ = self.sock.accept()
            except socket.timeout: continue
            except OSError: break
            threading.Thread(target=self._serve, args=(c,), daemon=True).start()

    def _serve(self, c):
        c.settimeout(5.0)
        buf = b""
        try:
            while True:
                while b"\r\n\r\n" not in buf:
                    d = c.recv(65536)
                    if not d: return
                    buf += d
                head, _, rest = buf.partition(b"\r\n\r\n")
                m = re.search(rb"(?im)^content-length:[ \t]*(\d+)", head)
                te = re.search(rb"(?im)^transfer-encoding:[ \t]*chunked", head)
                body = b""
                if m:
                    n = int(m.group(1))
                    while len(rest) < n:
                        d = c.recv(65536)
                        if not d: break
                        rest += d
                    body, buf = rest[:n], rest[n:]
                elif te:
                    raw = rest
                    while b"0\r\n\r\n" not in raw:
                        d = c.recv(65536)
                        if not d: break
                        raw += d
                    k = raw.find(b"0\r\n\r\n")
                    body, buf = (raw[:k + 5], raw[k + 5:]) if k >= 0 else (raw, b"")
                else:
                    buf = rest
                line = head.split(b"\r\n", 1)[0]
                with self.lock: self.requests.append((head + b"\r\n\r\n", body))
                sm = re.search(rb"id=(\d+)", line)
                segs, end = self.scripts.get(int(sm.group(1)) if sm else -1, ([(b"HTTP/1.1 404 Not Found\r\nContent-Length: 0\r\n\r\n", 0)], "close"))
                for data, delay in segs:
                    if delay: time.sleep(delay)
                    try: c.sendall(data)
                    except OSError: return
                if end == "keep": continue
                if end == "rst":
                    c.setsockopt(socket.SOL_SOCKET, socket.SO_LINGER, struct.pack("ii", 1, 0))
                elif end == "half":
                    try: c.shutdown(socket.SHUT_WR)
                    except OSError: pass
                    time.sleep(0.3)
                return
        except (socket.timeout, OSError):
            return
        finally:
            try: c.close()
            except OSError: pass

    def stop(self):
        self.stop_flag = True
        try: self.sock.close()
        except OSError: pass


def chunk_encode(blocks, upper=False, ext=False):
    out = b""
    for b in blocks:
        if not b: continue
        sz = (b"%X" if upper else b"%x") % len(b)
        out += sz + (b";x=1" if ext else b"") + b"\r\n" + b + b"\r\n"
    return out + b"0\r\n\r\n"


def cut(data, points):
    """split data at the given offsets -> list of segments"""
    pts = sorted(set(p for p in points if 0 < p < len(data)))
    segs = []; last = 0
    for p in pts:
        segs.append(data[last:p]); last = p
    segs.append(data[last:])
    return segs
